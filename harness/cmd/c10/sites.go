package main

import (
	"fmt"
	"go/ast"
	"go/parser"
	"go/printer"
	"go/token"
	"os"
	"path/filepath"
	"sort"
	"strings"

	c "verif/harness/common"
)

// Stage "sites": every place of acme, acme/api and acme/db/nosql that writes a Status field,
// re-derived from the source under VERIF_REPO with go/ast and compared by the driver with the
// reviewed table Verif.AcmeSM.statusSites (theorem statusSites_modelled). A write that appears in
// the source but not in the table is an undischarged obligation: some code changes a status in a
// way the model (and therefore no theorem) knows about.
func statusSites(root string) ([]string, error) {
	var out []string
	for _, dir := range []string{"acme", "acme/api", "acme/db/nosql"} {
		fset := token.NewFileSet()
		pkgs, err := parser.ParseDir(fset, filepath.Join(root, dir), func(fi os.FileInfo) bool {
			return !strings.HasSuffix(fi.Name(), "_test.go") && !strings.HasPrefix(fi.Name(), "export_verif")
		}, 0)
		if err != nil {
			return nil, err
		}
		for _, pkg := range pkgs {
			for fn, f := range pkg.Files {
				file := filepath.Join(dir, filepath.Base(fn))
				if file == "acme/db.go" { // MockDB, test support compiled into the package
					continue
				}
				for _, d := range f.Decls {
					fd, ok := d.(*ast.FuncDecl)
					if !ok || fd.Body == nil {
						continue
					}
					name := fd.Name.Name
					if fd.Recv != nil && len(fd.Recv.List) > 0 {
						var sb strings.Builder
						printer.Fprint(&sb, fset, fd.Recv.List[0].Type)
						name = strings.TrimPrefix(sb.String(), "*") + "." + name
					}
					str := func(n ast.Node) string {
						var sb strings.Builder
						printer.Fprint(&sb, fset, n)
						return strings.Join(strings.Fields(sb.String()), " ")
					}
					ast.Inspect(fd.Body, func(n ast.Node) bool {
						switch x := n.(type) {
						case *ast.AssignStmt:
							for i, l := range x.Lhs {
								if se, ok := l.(*ast.SelectorExpr); ok && se.Sel.Name == "Status" && i < len(x.Rhs) {
									out = append(out, fmt.Sprintf("%s:%s:%s=%s", file, name, str(l), str(x.Rhs[i])))
								}
							}
						case *ast.KeyValueExpr:
							if id, ok := x.Key.(*ast.Ident); ok && id.Name == "Status" {
								out = append(out, fmt.Sprintf("%s:%s:{Status}=%s", file, name, str(x.Value)))
							}
						case *ast.IncDecStmt, *ast.UnaryExpr:
							// &x.Status handed to something that could write through it
							if u, ok := n.(*ast.UnaryExpr); ok && u.Op == token.AND {
								if se, ok := u.X.(*ast.SelectorExpr); ok && se.Sel.Name == "Status" {
									out = append(out, fmt.Sprintf("%s:%s:&%s", file, name, str(u.X)))
								}
							}
						}
						return true
					})
				}
			}
		}
	}
	sort.Strings(out)
	return out, nil
}

func runSites(o *c.Out) error {
	root := os.Getenv("VERIF_REPO")
	if root == "" {
		root = "/repo"
	}
	sites, err := statusSites(root)
	if err != nil {
		return err
	}
	seen := map[string]int{}
	for _, s := range sites {
		seen[s]++
		o.Case(fmt.Sprintf("site=%s n=%d", c.X(s), seen[s]), "site:known")
	}
	o.Case("site=all", fmt.Sprintf("sites:%d", len(sites)))
	return nil
}
