package main

import (
	"context"
	"encoding/base64"
	"encoding/hex"
	"encoding/json"
	"fmt"
	"math/big"
	"net/http/httptest"
	"strings"

	"go.step.sm/crypto/jose"

	"github.com/smallstep/certificates/acme"
	"github.com/smallstep/certificates/authority/provisioner"
	c "verif/harness/common"
	"verif/harness/cmd/c12/acmeenv"
)

// Stage "router": histories with accounts through the REAL JWS-authenticated router
// (acme/api Route, nonce + JWS + kid lookup middleware) on the real store and authority, as built
// by harness/cmd/c12/acmeenv. Every request is a kid-signed POST; an account may deactivate
// itself or try key-change in between. After every request the stored status of every object of
// the history, the certificates per order and the stored account statuses are compared with the
// model (Verif.AcmeSM.astep). No virtual time here (expiry is the business of stage histories).
// Since phase 4 the provisioner also enables device-attest-01 (step format) and the two Wire
// challenges, so attestations, Wire responses and Wire finalizations travel through the real
// middleware (the key the validators see is the one lookupJWK loaded for the kid), every other
// environment serves its provisioner from the admin database (acmeenv.NewMigrated: ca.json ->
// linkedca -> provisioner, the conversion glue), and with -c13 the issued leaf is compared with what
// the order's authorizations validated (C13 stage `issued`).

type ROp struct {
	K    string // A n r t a o f l x k   (r on a Wire challenge is a Wire response)
	Acct int
	Obj  int
	IDs  []string
	How  string // r: ok | mismatch ; t: ok | badsig | wrongserial ; f: match | extra | missing
	Az   int    `json:",omitempty"` // t: authorization named in the URL
	Key  int    `json:",omitempty"` // t: attested key (1/2); f: CSR key number
}

type RCase struct {
	Ops      []ROp
	Migrated bool `json:",omitempty"` // the provisioner is served from the admin database
	ForceCN  bool `json:",omitempty"` // the provisioner has forceCN (an empty common name becomes the first DNS name)
	Names    bool `json:",omitempty"` // evaluate C13's predicate on every issued certificate
}

const rprov = "p0"

type rworld struct {
	e      *acmeenv.Env
	accs   []*acmeenv.Acct
	orders []string
	authzs []string
	chals  []string
	chAz   []int // authorization of each challenge
	chTyp  []acme.ChallengeType
	ids    [][]string
	ordAz  [][]int
	privs  []*jose.JSONWebKey // the accounts' private keys as JWK with the key id the server computes
	proved map[int]bool
	names  bool
	forceCN bool
}

func rindex(list []string, id string) int {
	for i, x := range list {
		if x == id {
			return i
		}
	}
	return -1
}

func (w *rworld) id(list []string, i int) string {
	if i >= 0 && i < len(list) {
		return list[i]
	}
	return fmt.Sprintf("nonexistent%d", i)
}

func (w *rworld) dump() string {
	bg := context.Background()
	var os_, az, ch, ac strings.Builder
	certs := make([]int, len(w.orders))
	if entries, err := w.e.NoSQL.List([]byte("acme_certs")); err == nil {
		for _, en := range entries {
			var rec struct {
				OrderID string `json:"orderID"`
			}
			if json.Unmarshal(en.Value, &rec) == nil {
				if i := rindex(w.orders, rec.OrderID); i >= 0 {
					certs[i]++
				}
			}
		}
	}
	total := 0
	for _, id := range w.orders {
		if o, err := w.e.RealDB.GetOrder(bg, id); err == nil {
			os_.WriteString(st(o.Status))
		} else {
			os_.WriteString("!")
		}
	}
	for _, id := range w.authzs {
		if a, err := w.e.RealDB.GetAuthorization(bg, id); err == nil {
			if a.Fingerprint != "" {
				n := "?"
				for i, f := range attFPs {
					if f == a.Fingerprint {
						n = fmt.Sprint(i + 1)
					}
				}
				az.WriteString(strings.ToUpper(st(a.Status)) + n)
			} else {
				az.WriteString(st(a.Status))
			}
		} else {
			az.WriteString("!")
		}
	}
	for _, id := range w.chals {
		if x, err := w.e.RealDB.GetChallenge(bg, id, ""); err == nil {
			ch.WriteString(st(x.Status))
		} else {
			ch.WriteString("!")
		}
	}
	for _, a := range w.accs {
		if x, err := w.e.RealDB.GetAccount(bg, a.ID); err == nil && x.Status == acme.StatusValid {
			ac.WriteString("v")
		} else if err == nil && x.Status == acme.StatusDeactivated {
			ac.WriteString("d")
		} else {
			ac.WriteString("!")
		}
	}
	cs := make([]string, len(certs))
	for i, n := range certs {
		cs[i] = fmt.Sprint(n)
		total += n
	}
	dots := "-"
	if len(cs) > 0 {
		dots = strings.Join(cs, ".")
	}
	var tk []string
	for i, id := range w.orders {
		if _, err := w.e.NoSQL.Get([]byte("wire_acme_oidc_token"), []byte(id)); err == nil {
			tk = append(tk, fmt.Sprintf("o%d", i))
		}
		if _, err := w.e.NoSQL.Get([]byte("wire_acme_dpop_token"), []byte(id)); err == nil {
			tk = append(tk, fmt.Sprintf("d%d", i))
		}
	}
	out := os_.String() + "/" + dots + "/" + az.String() + "/" + ch.String()
	if len(tk) > 0 {
		out += "/" + strings.Join(tk, ".")
	}
	return out + "/" + ac.String()
}

func rclass(rec *httptest.ResponseRecorder, kind string) string {
	cl := acmeenv.Class(rec)
	switch {
	case cl == "crash":
		return "crash"
	case strings.HasSuffix(cl, ":unauthorized"):
		return "unauth"
	case strings.HasSuffix(cl, ":orderNotReady"):
		return "notready"
	case strings.HasSuffix(cl, ":badCSR"):
		return "badcsr"
	case strings.HasPrefix(cl, "501:"): // (the problem type printed for notImplemented is a quirk of acme/errors.go)
		return "notimpl"
	case strings.HasSuffix(cl, ":serverInternal"), strings.HasSuffix(cl, ":?"):
		return "ise"
	case strings.HasSuffix(cl, ":rejectedIdentifier"):
		if kind == "f" {
			return "refused"
		}
	case strings.HasSuffix(cl, ":malformed"):
		if kind == "n" || kind == "f" {
			return "malformed"
		}
		return "notfound"
	}
	return "err:" + cl
}

func (w *rworld) exec(op ROp) (tok, out string) {
	post := func(acct int, path string, payload []byte) *httptest.ResponseRecorder {
		return w.e.Post(w.accs[acct], path, payload)
	}
	resp, viol := "", ""
	statusOf := func(rec *httptest.ResponseRecorder) string {
		var p struct {
			Status string `json:"status"`
		}
		_ = json.Unmarshal(rec.Body.Bytes(), &p)
		return "ok-" + st(acme.Status(p.Status))
	}
	switch op.K {
	case "A":
		tok = "A"
		a, err := w.e.NewAccount(rprov, acmeenv.NewKey("es256", 0))
		if err != nil {
			return tok, "ise/" + w.dump()
		}
		w.accs = append(w.accs, a)
		priv := &jose.JSONWebKey{Key: a.Key.Priv, Algorithm: "ES256", Use: "sig", KeyID: a.Key.Thumb()}
		w.privs = append(w.privs, priv)
		resp = fmt.Sprintf("created-%d", len(w.accs)-1)
	case "n":
		ks := make([]string, len(op.IDs))
		var ids []map[string]string
		wireOrder := false
		for i, id := range op.IDs {
			t, v, _ := strings.Cut(id, ":")
			ids = append(ids, map[string]string{"type": t, "value": v})
			// how many challenges the identifier gets: the types api.challengeTypes lists for it that the
			// served provisioner enables (after the migration to the admin database the Wire types are gone:
			// linkedca has no counterpart for them, observation G1 in notes/C10.md)
			var types []provisioner.ACMEChallenge
			switch {
			case t == "permanent-identifier":
				types = []provisioner.ACMEChallenge{provisioner.DEVICE_ATTEST_01}
			case t == "wireapp-user":
				types = []provisioner.ACMEChallenge{provisioner.WIREOIDC_01}
			case t == "wireapp-device":
				types = []provisioner.ACMEChallenge{provisioner.WIREDPOP_01}
			case t == "ip":
				types = []provisioner.ACMEChallenge{provisioner.HTTP_01, provisioner.TLS_ALPN_01}
			case strings.HasPrefix(v, "*."):
				types = []provisioner.ACMEChallenge{provisioner.DNS_01}
			default:
				types = []provisioner.ACMEChallenge{provisioner.DNS_01, provisioner.HTTP_01, provisioner.TLS_ALPN_01}
			}
			cnt := 0
			for _, ct := range types {
				if w.e.Provs[rprov].IsChallengeEnabled(context.Background(), ct) {
					cnt++
				}
			}
			ks[i] = fmt.Sprint(cnt)
			if t == "permanent-identifier" {
				ks[i] += "a"
			}
			wireOrder = wireOrder || strings.HasPrefix(t, "wireapp-")
		}
		k := "-"
		if len(ks) > 0 {
			k = strings.Join(ks, ".")
		}
		if wireOrder {
			k = "w" + k
		}
		tok = fmt.Sprintf("n:%d:0:%s", op.Acct, k)
		pl, _ := json.Marshal(map[string]any{"identifiers": ids})
		rec := post(op.Acct, acmeenv.Path(rprov, "new-order"), pl)
		if rec.Code == 201 {
			oid := acmeenv.LastPathElem(rec.Header().Get("Location"))
			var o struct {
				Authorizations []string `json:"authorizations"`
			}
			_ = json.Unmarshal(rec.Body.Bytes(), &o)
			w.orders = append(w.orders, oid)
			w.ids = append(w.ids, op.IDs)
			var azs []int
			for _, u := range o.Authorizations {
				azID := acmeenv.LastPathElem(u)
				azs = append(azs, len(w.authzs))
				w.authzs = append(w.authzs, azID)
				if az, err := w.e.RealDB.GetAuthorization(context.Background(), azID); err == nil {
					for _, ch := range az.Challenges {
						w.chals = append(w.chals, ch.ID)
						w.chAz = append(w.chAz, len(w.authzs)-1)
						w.chTyp = append(w.chTyp, ch.Type)
					}
				}
			}
			w.ordAz = append(w.ordAz, azs)
			resp = fmt.Sprintf("created-%d", len(w.orders)-1)
		} else {
			resp = rclass(rec, "n")
		}
	case "r":
		out := "j"
		if op.How == "ok" {
			out = "s"
		}
		chID, azID := w.id(w.chals, op.Obj), "az"
		payload := []byte("{}")
		letter := "r"
		if op.Obj >= 0 && op.Obj < len(w.chals) {
			azID = w.authzs[w.chAz[op.Obj]]
			if x, err := w.e.RealDB.GetChallenge(context.Background(), chID, ""); err == nil {
				switch {
				case isWire(x.Type):
					// the audience is the challenge URL as the linker of the environment prints it
					letter = "w"
					if x.Type == acme.WIREDPOP01 {
						letter = "W"
					}
					aud := acmeenv.URL(acmeenv.Path(rprov, "challenge", azID, chID))
					if p, err := wirePayload(x.Type, op.How, w.privs[op.Acct], x.Value, x.Token, aud); err == nil {
						payload = p
					}
				case x.Type == acme.DEVICEATTEST01:
					// answered without an attestation object: the validator refuses it
					out = "j"
				default:
					path := "/.well-known/acme-challenge/" + x.Token
					if op.How == "ok" {
						w.e.Client.Set(path, x.Token+"."+w.accs[op.Acct].Key.Thumb())
					} else {
						w.e.Client.Set(path, "something.else")
					}
				}
			}
		}
		tok = fmt.Sprintf("%s:%d:%d:0:%s", letter, op.Acct, op.Obj, out)
		if letter == "r" && op.Obj >= 0 && op.Obj < len(w.chals) && w.chTyp[op.Obj] == acme.DEVICEATTEST01 {
			// a device-attest-01 challenge posted through its own authorization's URL
			tok = fmt.Sprintf("t:%d:%d:%d:0:%s", op.Acct, op.Obj, w.chAz[op.Obj], out)
		}
		rec := post(op.Acct, acmeenv.Path(rprov, "challenge", azID, chID), payload)
		if rec.Code == 200 {
			resp = statusOf(rec)
		} else {
			resp = rclass(rec, "r")
		}
		w.noteProved(op)
	case "t":
		// device-attest-01 response through the URL of authorization op.Az
		chID := w.id(w.chals, op.Obj)
		akey := op.Key
		if akey < 1 || akey > len(attKeys) {
			akey = 1
		}
		payload := []byte("{}")
		attestable, isAttest := true, false
		if x, err := w.e.RealDB.GetChallenge(context.Background(), chID, ""); err == nil {
			isAttest = x.Type == acme.DEVICEATTEST01
			ka := x.Token + "." + w.accs[op.Acct].Key.Thumb()
			payload, _ = attestPayload(ka, x.Value, op.How, attKeys[akey-1])
			if n, ok := new(big.Int).SetString(x.Value, 10); !ok || n.String() != x.Value {
				attestable = false
			}
		}
		out := "j"
		if op.How == "ok" && attestable {
			out = fmt.Sprintf("s%d", akey)
		}
		tok = fmt.Sprintf("t:%d:%d:%d:0:%s", op.Acct, op.Obj, op.Az, out)
		if !isAttest {
			// not a device-attest-01 challenge: an http-01 response whose proof is not in place
			tok = fmt.Sprintf("r:%d:%d:0:t", op.Acct, op.Obj)
			if op.Obj >= 0 && op.Obj < len(w.chals) && isWire(w.chTyp[op.Obj]) {
				l := map[acme.ChallengeType]string{acme.WIREOIDC01: "w", acme.WIREDPOP01: "W"}[w.chTyp[op.Obj]]
				tok = fmt.Sprintf("%s:%d:%d:0:j", l, op.Acct, op.Obj)
			}
		}
		rec := post(op.Acct, acmeenv.Path(rprov, "challenge", w.id(w.authzs, op.Az), chID), payload)
		if rec.Code == 200 {
			resp = statusOf(rec)
		} else {
			resp = rclass(rec, "r")
		}
		w.noteProved(op)
	case "a":
		tok = fmt.Sprintf("a:%d:%d:0", op.Acct, op.Obj)
		rec := post(op.Acct, acmeenv.Path(rprov, "authz", w.id(w.authzs, op.Obj)), nil)
		if rec.Code == 200 {
			resp = statusOf(rec)
		} else {
			resp = rclass(rec, "a")
		}
	case "o":
		tok = fmt.Sprintf("o:%d:%d:0", op.Acct, op.Obj)
		rec := post(op.Acct, acmeenv.Path(rprov, "order", w.id(w.orders, op.Obj)), nil)
		if rec.Code == 200 {
			resp = statusOf(rec)
		} else {
			resp = rclass(rec, "o")
		}
	case "f":
		var ids []string
		if op.Obj >= 0 && op.Obj < len(w.ids) {
			ids = w.ids[op.Obj]
		}
		csr, der, err := buildCSRFor(ids, op.How, op.Key, w.forceCN)
		if err != nil {
			return "", "csr-error"
		}
		keyNo := op.Key
		if keyNo < 0 || keyNo > len(attKeys) {
			keyNo = 0
		}
		matches := op.Obj >= 0 && op.Obj < len(w.ids) && csrMatchesIDs(ids, csr)
		tok = fmt.Sprintf("f:%d:%d:0:%d:%s10", op.Acct, op.Obj, keyNo, c.B(matches))
		pl, _ := json.Marshal(map[string]string{"csr": base64.RawURLEncoding.EncodeToString(der)})
		was := ""
		if op.Obj >= 0 && op.Obj < len(w.orders) {
			if o, err := w.e.RealDB.GetOrder(context.Background(), w.orders[op.Obj]); err == nil {
				was = st(o.Status)
			}
		}
		rec := post(op.Acct, acmeenv.Path(rprov, "order", w.id(w.orders, op.Obj), "finalize"), pl)
		if rec.Code == 200 {
			resp = statusOf(rec)
		} else {
			resp = rclass(rec, "f")
			if resp == "malformed" && (op.Obj < 0 || op.Obj >= len(w.orders)) {
				resp = "notfound"
			}
		}
		// C13 end to end: the order turned valid in this request
		if op.Obj >= 0 && op.Obj < len(w.orders) && was != "" && was != "v" {
			if o, err := w.e.RealDB.GetOrder(context.Background(), w.orders[op.Obj]); err == nil && o.Status == acme.StatusValid {
				viol = w.issuedOracle(op, matches)
			}
		}
	case "l":
		tok = fmt.Sprintf("l:%d:%d:0", op.Acct, op.Obj)
		url := "nobody"
		if op.Obj >= 0 && op.Obj < len(w.accs) {
			url = w.accs[op.Obj].ID
		}
		rec := post(op.Acct, acmeenv.Path(rprov, "account", url, "orders"), nil)
		if rec.Code == 200 {
			var urls []string
			_ = json.Unmarshal(rec.Body.Bytes(), &urls)
			idx := make([]string, 0, len(urls))
			for _, u := range urls {
				idx = append(idx, fmt.Sprint(rindex(w.orders, acmeenv.LastPathElem(u))))
			}
			resp = "list--"
			if len(idx) > 0 {
				resp = "list-" + strings.Join(idx, ".")
			}
		} else {
			resp = rclass(rec, "l")
		}
	case "x":
		tok = fmt.Sprintf("x:%d", op.Acct)
		rec := post(op.Acct, acmeenv.Path(rprov, "account", w.accs[op.Acct].ID), []byte(`{"status":"deactivated"}`))
		if rec.Code == 200 {
			var p struct {
				Status string `json:"status"`
			}
			_ = json.Unmarshal(rec.Body.Bytes(), &p)
			resp = p.Status
		} else {
			resp = rclass(rec, "x")
		}
	case "k":
		tok = fmt.Sprintf("k:%d", op.Acct)
		resp = rclass(post(op.Acct, acmeenv.Path(rprov, "key-change"), []byte(`{}`)), "k")
	}
	out = resp + "/" + w.dump()
	if viol != "" {
		out += "/" + viol
	}
	return tok, out
}

// terminalOracle compares two dumps of the router stage (orders / certificates / authorizations /
// challenges / …): an object that was valid or invalid keeps its status, ready does not go back to
// pending, and no status outside pending / ready / valid / invalid is ever stored
func terminalOracle(prev, cur string) string {
	pf, cf := strings.Split(prev, "/"), strings.Split(cur, "/")
	if len(pf) < 4 || len(cf) < 4 {
		return ""
	}
	letters := func(x string) string { // one letter per object: drop key numbers, fold the fingerprint marking
		var b strings.Builder
		for _, r := range x {
			if r < '0' || r > '9' {
				b.WriteRune(r)
			}
		}
		return strings.ToLower(b.String())
	}
	for k, name := range []string{"order", "", "authz", "challenge"} {
		if k == 1 {
			continue
		}
		p, c := letters(pf[k]), letters(cf[k])
		if strings.Contains(c, "?") {
			return "VIOL:unknown-status-" + name
		}
		for i := 0; i < len(p) && i < len(c); i++ {
			if (p[i] == 'v' || p[i] == 'i') && c[i] != p[i] {
				return "VIOL:terminal-" + name
			}
			if p[i] == 'r' && c[i] == 'p' {
				return "VIOL:backward-" + name
			}
		}
	}
	return ""
}

// noteProved: the proof was in place when the response was sent and the server stored the challenge valid
func (w *rworld) noteProved(op ROp) {
	if op.How != "ok" || op.Obj < 0 || op.Obj >= len(w.chals) {
		return
	}
	if x, err := w.e.RealDB.GetChallenge(context.Background(), w.chals[op.Obj], ""); err == nil && x.Status == acme.StatusValid && x.AccountID == w.accs[op.Acct].ID {
		if w.proved == nil {
			w.proved = map[int]bool{}
		}
		w.proved[op.Obj] = true
	}
}

// issuedOracle: the clauses of stage histories that speak about an order turning valid, on the
// trace of the router: finalize by the owner with matching names, every authorization with an
// accepted proof, the attested key, and (with -c13) the names of the leaf
func (w *rworld) issuedOracle(op ROp, matches bool) string {
	i := op.Obj
	if !matches {
		return "VIOL:order-valid-cause"
	}
	for _, a := range w.ordAz[i] {
		ok := false
		for ch, az := range w.chAz {
			ok = ok || (az == a && w.proved[ch])
		}
		if !ok {
			return "VIOL:certificate-for-unvalidated-identifier"
		}
	}
	if w.names {
		if v := certNamesOf(w.e.RealDB, w.orders[i]); v != "" {
			return v
		}
	}
	for _, id := range w.ids[i] {
		if strings.HasPrefix(id, "permanent-identifier:") {
			// the key recorded on the order's first fingerprinted authorization is the CSR's
			rec := 0
			for _, a := range w.ordAz[i] {
				if az, err := w.e.RealDB.GetAuthorization(context.Background(), w.authzs[a]); err == nil && az.Fingerprint != "" {
					for n, f := range attFPs {
						if f == az.Fingerprint {
							rec = n + 1
						}
					}
					break
				}
			}
			if rec == 0 || rec != op.Key {
				return "VIOL:attested-key"
			}
			break
		}
	}
	return ""
}

func runRouter(e *acmeenv.Env, k *RCase) (line, out string) {
	js, _ := json.Marshal(k)
	w := &rworld{e: e, names: k.Names, forceCN: k.ForceCN}
	toks := make([]string, 0, len(k.Ops))
	outs := make([]string, 0, len(k.Ops))
	for _, op := range k.Ops {
		if op.K != "A" && (op.Acct < 0 || op.Acct >= len(w.accs)) {
			continue
		}
		// oracle: a request signed by an account stored as deactivated must be refused and change nothing
		dead := false
		before := ""
		if op.K != "A" {
			if x, err := e.RealDB.GetAccount(context.Background(), w.accs[op.Acct].ID); err == nil && x.Status == acme.StatusDeactivated {
				dead, before = true, w.dump()
			}
		}
		prevDump := w.dump()
		t, o := w.exec(op)
		// terminal statuses are absorbing, statuses are the four of the state machine (as in stage histories)
		if v := terminalOracle(prevDump, w.dump()); v != "" {
			o += "/" + v
		}
		if dead && (!strings.HasPrefix(o, "unauth/") || strings.TrimPrefix(o, "unauth/") != before) {
			o += "/VIOL:deactivated-account-served"
		}
		toks = append(toks, t)
		outs = append(outs, o)
	}
	total := 0
	if len(outs) > 0 {
		f := strings.Split(outs[len(outs)-1], "/")
		if len(f) > 2 && f[2] != "-" {
			for _, x := range strings.Split(f[2], ".") {
				var n int
				fmt.Sscan(x, &n)
				total += n
			}
		}
	}
	return "aops=" + strings.Join(toks, ";") + " case=x" + hex.EncodeToString(js),
		fmt.Sprintf("R%d:%s", total, strings.Join(outs, "|"))
}

var ridPool = []string{"dns:a.example.com", "dns:b.example.com", "dns:www.example.org", "ip:10.0.0.1", "ip:fd00::1",
	"dns:a" + strings.Repeat("c", 59) + ".example.com"} // 72 characters

func genRouter(r *c.Rng) *RCase {
	k := &RCase{Ops: []ROp{{K: "A"}, {K: "A"}}, Migrated: r.Chance(1, 2), ForceCN: r.Chance(1, 3)}
	type so struct {
		acct   int
		chals  []int
		firstA int
		done   int
		pid    bool
		akey   int
	}
	var orders []so
	nchal, nauthz := 0, 0
	dead := map[int]bool{}
	n := 8 + r.Intn(18)
	newOrder := func(acct int) {
		cnt := 1 + r.Intn(2)
		o := so{acct: acct, firstA: nauthz}
		var ids []string
		switch r.Intn(6) {
		case 0: // attested order
			ids, cnt, o.pid = []string{c.Pick(r, []string{"permanent-identifier:1234567", "permanent-identifier:42"})}, 1, true
		case 1: // Wire order
			ids, cnt = wireIDs(r.Chance(1, 8)), 2
		default:
			for i := 0; i < cnt; i++ {
				ids = append(ids, c.Pick(r, ridPool))
			}
		}
		for i := 0; i < cnt; i++ {
			o.chals = append(o.chals, nchal)
			nchal++
			nauthz++
		}
		k.Ops = append(k.Ops, ROp{K: "n", Acct: acct, IDs: ids})
		if !dead[acct] {
			orders = append(orders, o)
		} else { // refused: nothing is created
			nchal -= cnt
			nauthz -= cnt
		}
	}
	newOrder(0)
	for len(k.Ops) < n {
		if len(orders) == 0 {
			newOrder(r.Intn(2))
			continue
		}
		oi := r.Intn(len(orders))
		o := &orders[oi]
		acct := o.acct
		if r.Chance(1, 10) {
			acct = 1 - acct
		}
		switch r.Intn(16) {
		case 0:
			newOrder(r.Intn(2))
		case 1, 2, 3, 4, 5:
			if o.pid {
				az := o.firstA
				if r.Chance(1, 5) {
					az = r.Intn(nauthz + 1)
				}
				o.akey = 1 + r.Intn(2)
				how := "ok"
				if r.Chance(1, 6) {
					how = c.Pick(r, []string{"badsig", "wrongserial"})
				}
				k.Ops = append(k.Ops, ROp{K: c.Pick(r, []string{"t", "t", "t", "r"}), Acct: acct, Obj: o.chals[0], Az: az, Key: o.akey, How: how})
				break
			}
			if o.done < len(o.chals) && r.Chance(3, 4) {
				k.Ops = append(k.Ops, ROp{K: "r", Acct: acct, Obj: o.chals[o.done], How: "ok"})
				if acct == o.acct && !dead[acct] {
					o.done++
				}
			} else {
				k.Ops = append(k.Ops, ROp{K: "r", Acct: acct, Obj: c.Pick(r, o.chals), How: c.Pick(r, []string{"ok", "mismatch"})})
			}
		case 6:
			k.Ops = append(k.Ops, ROp{K: "a", Acct: acct, Obj: o.firstA + r.Intn(len(o.chals))})
		case 7, 8:
			k.Ops = append(k.Ops, ROp{K: "o", Acct: acct, Obj: oi})
		case 9, 10, 11, 12:
			how := "match"
			if r.Chance(1, 8) {
				how = c.Pick(r, []string{"extra", "missing"})
			}
			key := 0
			if o.pid {
				key = o.akey
				if r.Chance(1, 6) {
					key = r.Intn(3)
				}
			}
			k.Ops = append(k.Ops, ROp{K: "f", Acct: acct, Obj: oi, How: how, Key: key})
		case 13:
			k.Ops = append(k.Ops, ROp{K: "l", Acct: acct, Obj: acct})
		case 14:
			if r.Chance(1, 2) {
				k.Ops = append(k.Ops, ROp{K: "x", Acct: acct})
				dead[acct] = true
			} else {
				k.Ops = append(k.Ops, ROp{K: "k", Acct: acct})
			}
		case 15:
			if r.Chance(1, 3) {
				k.Ops = append(k.Ops, ROp{K: "A"})
			}
		}
	}
	return k
}

func cornerRouter() []*RCase {
	return []*RCase{
		// attested order and Wire order through the real middleware, on a provisioner served from the admin database
		{Migrated: true, Ops: []ROp{{K: "A"}, {K: "n", IDs: []string{"permanent-identifier:1234567"}}, {K: "r", Obj: 0, How: "ok"}, {K: "n", IDs: []string{"permanent-identifier:42"}},
			{K: "t", Obj: 1, Az: 1, Key: 2, How: "badsig"}, {K: "t", Obj: 1, Az: 1, Key: 2, How: "ok"}, {K: "o", Obj: 1}, {K: "f", Obj: 1, How: "match", Key: 1}, {K: "f", Obj: 1, How: "match", Key: 2}}},
		// (G1: from the admin database the provisioner has lost its Wire challenge types: a Wire order gets authorizations without challenges)
		{Migrated: true, Ops: []ROp{{K: "A"}, {K: "n", IDs: wireIDs()}, {K: "a", Obj: 0}, {K: "o"}, {K: "f", How: "match"}, {K: "n", IDs: []string{"dns:a.example.com"}}, {K: "r", Obj: 0, How: "ok"}, {K: "f", Obj: 1, How: "match"}}},
		{Ops: []ROp{{K: "A"}, {K: "n", IDs: wireIDs()}, {K: "r", Obj: 0, How: "ok"}, {K: "f", How: "match"}, {K: "r", Obj: 1, How: "mismatch"}, {K: "n", IDs: wireIDs()},
			{K: "r", Obj: 2, How: "ok"}, {K: "r", Obj: 3, How: "ok"}, {K: "o", Obj: 1}, {K: "f", Obj: 1, How: "extra"}, {K: "f", Obj: 1, How: "match"}, {K: "x"}, {K: "r", Obj: 0, How: "ok"}}},
		// forceCN, a name longer than 64 characters: the leaf's common name is that name, whole
		{ForceCN: true, Migrated: true, Ops: []ROp{{K: "A"}, {K: "n", IDs: []string{"dns:a" + strings.Repeat("c", 59) + ".example.com"}}, {K: "r", Obj: 0, How: "ok"}, {K: "f", How: "match"}}},
		{Ops: []ROp{{K: "A"}, {K: "n", IDs: wireIDs(true)}, {K: "r", Obj: 0, How: "ok"}, {K: "r", Obj: 1, How: "ok"}, {K: "f", How: "match"}}},
		{Ops: []ROp{{K: "A"}, {K: "A"}, {K: "n", IDs: []string{"dns:a.example.com"}}, {K: "r", Obj: 0, How: "ok"}, {K: "o"}, {K: "x"},
			{K: "o"}, {K: "f", How: "match"}, {K: "n", IDs: []string{"dns:b.example.com"}}, {K: "x"}, {K: "k"}, {K: "l"},
			{K: "o", Acct: 1}, {K: "n", Acct: 1, IDs: []string{"dns:b.example.com"}}, {K: "k", Acct: 1}}},
		{Ops: []ROp{{K: "A"}, {K: "n", IDs: []string{"dns:a.example.com", "ip:10.0.0.1"}}, {K: "r", Obj: 0, How: "mismatch"}, {K: "r", Obj: 1, How: "mismatch"},
			{K: "r", Obj: 1, How: "ok"}, {K: "o"}, {K: "A"}, {K: "f", Acct: 1, How: "match"}, {K: "f", How: "extra"}, {K: "f", How: "match"}}},
		{Ops: []ROp{{K: "A"}, {K: "n", IDs: []string{"dns:a.example.com"}}, {K: "r", Obj: 0, How: "ok"}, {K: "f", How: "match"}, {K: "f", How: "match"}, {K: "x"}, {K: "f", How: "match"}, {K: "l"}}},
	}
}
