package main

import (
	"context"
	"crypto/ecdsa"
	"crypto/rand"
	"crypto/x509"
	"encoding/base64"
	"encoding/hex"
	"encoding/json"
	"fmt"
	"net"
	"net/http/httptest"
	"strings"

	"github.com/smallstep/certificates/acme"
	c "verif/harness/common"
	"verif/harness/cmd/c12/acmeenv"
)

// Stage "router": histories with accounts through the REAL JWS-authenticated router
// (acme/api Route, nonce + JWS + kid lookup middleware) on the real store and authority, as built
// by harness/cmd/c12/acmeenv. Every request is a kid-signed POST; an account may deactivate
// itself or try key-change in between. After every request the stored status of every object of
// the history, the certificates per order and the stored account statuses are compared with the
// model (Verif.AcmeSM.astep). No virtual time here (expiry is the business of stage histories).

type ROp struct {
	K    string // A n r a o f l x k
	Acct int
	Obj  int
	IDs  []string
	How  string // r: ok | mismatch ; f: match | extra
}

type RCase struct{ Ops []ROp }

const rprov = "p0"

type rworld struct {
	e      *acmeenv.Env
	accs   []*acmeenv.Acct
	orders []string
	authzs []string
	chals  []string
	chAz   []int // authorization of each challenge
	ids    [][]string
}

func rindex(list []string, id string) int {
	for i, x := range list {
		if x == id {
			return i
		}
	}
	return -1
}

func (w *rworld) id(list []string, i int) string {
	if i >= 0 && i < len(list) {
		return list[i]
	}
	return fmt.Sprintf("nonexistent%d", i)
}

func (w *rworld) dump() string {
	bg := context.Background()
	var os_, az, ch, ac strings.Builder
	certs := make([]int, len(w.orders))
	if entries, err := w.e.NoSQL.List([]byte("acme_certs")); err == nil {
		for _, en := range entries {
			var rec struct {
				OrderID string `json:"orderID"`
			}
			if json.Unmarshal(en.Value, &rec) == nil {
				if i := rindex(w.orders, rec.OrderID); i >= 0 {
					certs[i]++
				}
			}
		}
	}
	total := 0
	for _, id := range w.orders {
		if o, err := w.e.RealDB.GetOrder(bg, id); err == nil {
			os_.WriteString(st(o.Status))
		} else {
			os_.WriteString("!")
		}
	}
	for _, id := range w.authzs {
		if a, err := w.e.RealDB.GetAuthorization(bg, id); err == nil {
			if a.Fingerprint != "" {
				az.WriteString(strings.ToUpper(st(a.Status)) + "?")
			} else {
				az.WriteString(st(a.Status))
			}
		} else {
			az.WriteString("!")
		}
	}
	for _, id := range w.chals {
		if x, err := w.e.RealDB.GetChallenge(bg, id, ""); err == nil {
			ch.WriteString(st(x.Status))
		} else {
			ch.WriteString("!")
		}
	}
	for _, a := range w.accs {
		if x, err := w.e.RealDB.GetAccount(bg, a.ID); err == nil && x.Status == acme.StatusValid {
			ac.WriteString("v")
		} else if err == nil && x.Status == acme.StatusDeactivated {
			ac.WriteString("d")
		} else {
			ac.WriteString("!")
		}
	}
	cs := make([]string, len(certs))
	for i, n := range certs {
		cs[i] = fmt.Sprint(n)
		total += n
	}
	dots := "-"
	if len(cs) > 0 {
		dots = strings.Join(cs, ".")
	}
	return os_.String() + "/" + dots + "/" + az.String() + "/" + ch.String() + "/" + ac.String()
}

func rclass(rec *httptest.ResponseRecorder, kind string) string {
	cl := acmeenv.Class(rec)
	switch {
	case cl == "crash":
		return "crash"
	case strings.HasSuffix(cl, ":unauthorized"):
		return "unauth"
	case strings.HasSuffix(cl, ":orderNotReady"):
		return "notready"
	case strings.HasSuffix(cl, ":badCSR"):
		return "badcsr"
	case strings.HasPrefix(cl, "501:"): // (the problem type printed for notImplemented is a quirk of acme/errors.go)
		return "notimpl"
	case strings.HasSuffix(cl, ":serverInternal"), strings.HasSuffix(cl, ":?"):
		return "ise"
	case strings.HasSuffix(cl, ":malformed"):
		if kind == "n" {
			return "malformed"
		}
		return "notfound"
	}
	return "err:" + cl
}

func (w *rworld) exec(op ROp) (tok, out string) {
	post := func(acct int, path string, payload []byte) *httptest.ResponseRecorder {
		return w.e.Post(w.accs[acct], path, payload)
	}
	resp := ""
	statusOf := func(rec *httptest.ResponseRecorder) string {
		var p struct {
			Status string `json:"status"`
		}
		_ = json.Unmarshal(rec.Body.Bytes(), &p)
		return "ok-" + st(acme.Status(p.Status))
	}
	switch op.K {
	case "A":
		tok = "A"
		a, err := w.e.NewAccount(rprov, acmeenv.NewKey("es256", 0))
		if err != nil {
			return tok, "ise/" + w.dump()
		}
		w.accs = append(w.accs, a)
		resp = fmt.Sprintf("created-%d", len(w.accs)-1)
	case "n":
		ks := make([]string, len(op.IDs))
		var ids []map[string]string
		for i, id := range op.IDs {
			t, v, _ := strings.Cut(id, ":")
			ids = append(ids, map[string]string{"type": t, "value": v})
			ks[i] = "1" // acmeenv's provisioners enable http-01 (and device-attest-01) only
		}
		k := "-"
		if len(ks) > 0 {
			k = strings.Join(ks, ".")
		}
		tok = fmt.Sprintf("n:%d:0:%s", op.Acct, k)
		pl, _ := json.Marshal(map[string]any{"identifiers": ids})
		rec := post(op.Acct, acmeenv.Path(rprov, "new-order"), pl)
		if rec.Code == 201 {
			oid := acmeenv.LastPathElem(rec.Header().Get("Location"))
			var o struct {
				Authorizations []string `json:"authorizations"`
			}
			_ = json.Unmarshal(rec.Body.Bytes(), &o)
			w.orders = append(w.orders, oid)
			w.ids = append(w.ids, op.IDs)
			for _, u := range o.Authorizations {
				azID := acmeenv.LastPathElem(u)
				w.authzs = append(w.authzs, azID)
				if az, err := w.e.RealDB.GetAuthorization(context.Background(), azID); err == nil {
					for _, ch := range az.Challenges {
						w.chals = append(w.chals, ch.ID)
						w.chAz = append(w.chAz, len(w.authzs)-1)
					}
				}
			}
			resp = fmt.Sprintf("created-%d", len(w.orders)-1)
		} else {
			resp = rclass(rec, "n")
		}
	case "r":
		out := map[string]string{"ok": "s", "mismatch": "j"}[op.How]
		tok = fmt.Sprintf("r:%d:%d:0:%s", op.Acct, op.Obj, out)
		chID, azID := w.id(w.chals, op.Obj), "az"
		if op.Obj >= 0 && op.Obj < len(w.chals) {
			azID = w.authzs[w.chAz[op.Obj]]
			if x, err := w.e.RealDB.GetChallenge(context.Background(), chID, ""); err == nil {
				path := "/.well-known/acme-challenge/" + x.Token
				if op.How == "ok" {
					w.e.Client.Set(path, x.Token+"."+w.accs[op.Acct].Key.Thumb())
				} else {
					w.e.Client.Set(path, "something.else")
				}
			}
		}
		rec := post(op.Acct, acmeenv.Path(rprov, "challenge", azID, chID), []byte("{}"))
		if rec.Code == 200 {
			resp = statusOf(rec)
		} else {
			resp = rclass(rec, "r")
		}
	case "a":
		tok = fmt.Sprintf("a:%d:%d:0", op.Acct, op.Obj)
		rec := post(op.Acct, acmeenv.Path(rprov, "authz", w.id(w.authzs, op.Obj)), nil)
		if rec.Code == 200 {
			resp = statusOf(rec)
		} else {
			resp = rclass(rec, "a")
		}
	case "o":
		tok = fmt.Sprintf("o:%d:%d:0", op.Acct, op.Obj)
		rec := post(op.Acct, acmeenv.Path(rprov, "order", w.id(w.orders, op.Obj)), nil)
		if rec.Code == 200 {
			resp = statusOf(rec)
		} else {
			resp = rclass(rec, "o")
		}
	case "f":
		tmpl := &x509.CertificateRequest{}
		if op.Obj >= 0 && op.Obj < len(w.ids) {
			for _, id := range w.ids[op.Obj] {
				t, v, _ := strings.Cut(id, ":")
				if t == "ip" {
					tmpl.IPAddresses = append(tmpl.IPAddresses, net.ParseIP(v))
				} else {
					tmpl.DNSNames = append(tmpl.DNSNames, v)
				}
			}
		}
		if op.How == "extra" {
			tmpl.DNSNames = append(tmpl.DNSNames, "extra.example.net")
		}
		der, _ := x509.CreateCertificateRequest(rand.Reader, tmpl, csrKey.(*ecdsa.PrivateKey))
		tok = fmt.Sprintf("f:%d:%d:0:0:%s10", op.Acct, op.Obj, c.B(op.How != "extra" && op.Obj >= 0 && op.Obj < len(w.ids)))
		pl, _ := json.Marshal(map[string]string{"csr": base64.RawURLEncoding.EncodeToString(der)})
		rec := post(op.Acct, acmeenv.Path(rprov, "order", w.id(w.orders, op.Obj), "finalize"), pl)
		if rec.Code == 200 {
			resp = statusOf(rec)
		} else {
			resp = rclass(rec, "f")
		}
	case "l":
		tok = fmt.Sprintf("l:%d:%d:0", op.Acct, op.Obj)
		url := "nobody"
		if op.Obj >= 0 && op.Obj < len(w.accs) {
			url = w.accs[op.Obj].ID
		}
		rec := post(op.Acct, acmeenv.Path(rprov, "account", url, "orders"), nil)
		if rec.Code == 200 {
			var urls []string
			_ = json.Unmarshal(rec.Body.Bytes(), &urls)
			idx := make([]string, 0, len(urls))
			for _, u := range urls {
				idx = append(idx, fmt.Sprint(rindex(w.orders, acmeenv.LastPathElem(u))))
			}
			resp = "list--"
			if len(idx) > 0 {
				resp = "list-" + strings.Join(idx, ".")
			}
		} else {
			resp = rclass(rec, "l")
		}
	case "x":
		tok = fmt.Sprintf("x:%d", op.Acct)
		rec := post(op.Acct, acmeenv.Path(rprov, "account", w.accs[op.Acct].ID), []byte(`{"status":"deactivated"}`))
		if rec.Code == 200 {
			var p struct {
				Status string `json:"status"`
			}
			_ = json.Unmarshal(rec.Body.Bytes(), &p)
			resp = p.Status
		} else {
			resp = rclass(rec, "x")
		}
	case "k":
		tok = fmt.Sprintf("k:%d", op.Acct)
		resp = rclass(post(op.Acct, acmeenv.Path(rprov, "key-change"), []byte(`{}`)), "k")
	}
	return tok, resp + "/" + w.dump()
}

func runRouter(e *acmeenv.Env, k *RCase) (line, out string) {
	js, _ := json.Marshal(k)
	w := &rworld{e: e}
	toks := make([]string, 0, len(k.Ops))
	outs := make([]string, 0, len(k.Ops))
	for _, op := range k.Ops {
		if op.K != "A" && (op.Acct < 0 || op.Acct >= len(w.accs)) {
			continue
		}
		// oracle: a request signed by an account stored as deactivated must be refused and change nothing
		dead := false
		before := ""
		if op.K != "A" {
			if x, err := e.RealDB.GetAccount(context.Background(), w.accs[op.Acct].ID); err == nil && x.Status == acme.StatusDeactivated {
				dead, before = true, w.dump()
			}
		}
		t, o := w.exec(op)
		if dead && (!strings.HasPrefix(o, "unauth/") || strings.TrimPrefix(o, "unauth/") != before) {
			o += "/VIOL:deactivated-account-served"
		}
		toks = append(toks, t)
		outs = append(outs, o)
	}
	total := 0
	if len(outs) > 0 {
		f := strings.Split(outs[len(outs)-1], "/")
		if len(f) > 2 && f[2] != "-" {
			for _, x := range strings.Split(f[2], ".") {
				var n int
				fmt.Sscan(x, &n)
				total += n
			}
		}
	}
	return "aops=" + strings.Join(toks, ";") + " case=x" + hex.EncodeToString(js),
		fmt.Sprintf("R%d:%s", total, strings.Join(outs, "|"))
}

var ridPool = []string{"dns:a.example.com", "dns:b.example.com", "dns:www.example.org", "ip:10.0.0.1", "ip:fd00::1"}

func genRouter(r *c.Rng) *RCase {
	k := &RCase{Ops: []ROp{{K: "A"}, {K: "A"}}}
	type so struct {
		acct  int
		chals []int
		done  int
	}
	var orders []so
	nchal, nauthz := 0, 0
	dead := map[int]bool{}
	n := 8 + r.Intn(18)
	newOrder := func(acct int) {
		cnt := 1 + r.Intn(2)
		o := so{acct: acct}
		var ids []string
		for i := 0; i < cnt; i++ {
			ids = append(ids, c.Pick(r, ridPool))
			o.chals = append(o.chals, nchal)
			nchal++
			nauthz++
		}
		k.Ops = append(k.Ops, ROp{K: "n", Acct: acct, IDs: ids})
		if !dead[acct] {
			orders = append(orders, o)
		} else { // refused: nothing is created
			nchal -= cnt
			nauthz -= cnt
		}
	}
	newOrder(0)
	for len(k.Ops) < n {
		if len(orders) == 0 {
			newOrder(r.Intn(2))
			continue
		}
		oi := r.Intn(len(orders))
		o := &orders[oi]
		acct := o.acct
		if r.Chance(1, 10) {
			acct = 1 - acct
		}
		switch r.Intn(16) {
		case 0:
			newOrder(r.Intn(2))
		case 1, 2, 3, 4, 5:
			if o.done < len(o.chals) && r.Chance(3, 4) {
				k.Ops = append(k.Ops, ROp{K: "r", Acct: acct, Obj: o.chals[o.done], How: "ok"})
				if acct == o.acct && !dead[acct] {
					o.done++
				}
			} else {
				k.Ops = append(k.Ops, ROp{K: "r", Acct: acct, Obj: c.Pick(r, o.chals), How: c.Pick(r, []string{"ok", "mismatch"})})
			}
		case 6:
			first := 0
			for _, p := range orders[:oi] {
				first += len(p.chals)
			}
			k.Ops = append(k.Ops, ROp{K: "a", Acct: acct, Obj: first + r.Intn(len(o.chals))})
		case 7, 8:
			k.Ops = append(k.Ops, ROp{K: "o", Acct: acct, Obj: oi})
		case 9, 10, 11, 12:
			how := "match"
			if r.Chance(1, 8) {
				how = "extra"
			}
			k.Ops = append(k.Ops, ROp{K: "f", Acct: acct, Obj: oi, How: how})
		case 13:
			k.Ops = append(k.Ops, ROp{K: "l", Acct: acct, Obj: acct})
		case 14:
			if r.Chance(1, 2) {
				k.Ops = append(k.Ops, ROp{K: "x", Acct: acct})
				dead[acct] = true
			} else {
				k.Ops = append(k.Ops, ROp{K: "k", Acct: acct})
			}
		case 15:
			if r.Chance(1, 3) {
				k.Ops = append(k.Ops, ROp{K: "A"})
			}
		}
	}
	return k
}

func cornerRouter() []*RCase {
	return []*RCase{
		{Ops: []ROp{{K: "A"}, {K: "A"}, {K: "n", IDs: []string{"dns:a.example.com"}}, {K: "r", Obj: 0, How: "ok"}, {K: "o"}, {K: "x"},
			{K: "o"}, {K: "f", How: "match"}, {K: "n", IDs: []string{"dns:b.example.com"}}, {K: "x"}, {K: "k"}, {K: "l"},
			{K: "o", Acct: 1}, {K: "n", Acct: 1, IDs: []string{"dns:b.example.com"}}, {K: "k", Acct: 1}}},
		{Ops: []ROp{{K: "A"}, {K: "n", IDs: []string{"dns:a.example.com", "ip:10.0.0.1"}}, {K: "r", Obj: 0, How: "mismatch"}, {K: "r", Obj: 1, How: "mismatch"},
			{K: "r", Obj: 1, How: "ok"}, {K: "o"}, {K: "A"}, {K: "f", Acct: 1, How: "match"}, {K: "f", How: "extra"}, {K: "f", How: "match"}}},
		{Ops: []ROp{{K: "A"}, {K: "n", IDs: []string{"dns:a.example.com"}}, {K: "r", Obj: 0, How: "ok"}, {K: "f", How: "match"}, {K: "f", How: "match"}, {K: "x"}, {K: "f", How: "match"}, {K: "l"}}},
	}
}
