// Harness for C10: random ACME histories against the real acme/api handlers, the real
// acme/db/nosql store on a bbolt file and a real embedded authority.
//
// What is scripted (inputs of the model): the verdict of the challenge validators (through the
// acme.Client the handlers take from the context), whether the CSR names match / signing
// succeeds (through the CSR that is sent), the time (see shiftdb.go) and two storage faults.
// After every request all stored objects are read back and printed next to the response class.
//
// Output line: "ops=<history> case=x<json>\t<implementation trace>".
package main

import (
	"encoding/asn1"
	"net/url"
	"math/big"
	"bytes"
	"context"
	"crypto"
	"crypto/ecdsa"
	"crypto/elliptic"
	"crypto/rand"
	"crypto/rsa"
	"crypto/sha256"
	"crypto/tls"
	"crypto/x509"
	"crypto/x509/pkix"
	"encoding/base64"
	"encoding/hex"
	"encoding/json"
	"errors"
	"flag"
	"fmt"
	"io"
	"net"
	"net/http"
	"net/http/httptest"
	"os"
	"path/filepath"
	"sort"
	"strings"
	"time"

	"github.com/go-chi/chi/v5"
	"github.com/smallstep/nosql"
	"go.step.sm/crypto/jose"
	"go.step.sm/crypto/x509util"

	wireid "github.com/smallstep/certificates/acme/wire"

	"github.com/smallstep/certificates/acme"
	acmeapi "github.com/smallstep/certificates/acme/api"
	acmenosql "github.com/smallstep/certificates/acme/db/nosql"
	"github.com/smallstep/certificates/authority"
	"github.com/smallstep/certificates/authority/provisioner"
	c "verif/harness/common"
	"verif/harness/cmd/c12/acmeenv"
	"verif/harness/fixture"
)

var oidDisplayName = asn1.ObjectIdentifier{2, 16, 840, 1, 113730, 3, 1, 241}

// ---------- case ----------

type Op struct {
	K    string   // n r t a o f l
	Acct int      // requesting account (0/1)
	Obj  int      // challenge / authz / order index, or url account for l
	Now  int      // virtual seconds since the start of the history
	IDs  []string // n: identifiers "dns:a.example.com", "ip:10.0.0.1"
	How  string   // r: ok | connerr | status | mismatch | dberr; t: ok | badsig | wrongserial
	Az   int      `json:",omitempty"` // t: authorization named in the request URL
	Key  int      `json:",omitempty"` // f: CSR key number (0 = software key, 1/2 = the attestable keys); t: attested key (1/2)
	CSR  string   // f: match | extra | missing | weakkey
	Fail bool     // f: the final UpdateOrder fails
	// storage fault for the duration of this request: every update write of challenge ("c"),
	// authorization ("a") or order ("o") number DenyObj fails
	// "x": the DenyObj-th create write of the request fails; "i": the order index write; "k": the Wire token write
	Deny    string `json:",omitempty"`
	DenyObj int    `json:",omitempty"`
}

type Case struct {
	Ops []Op
	// evaluate C13's predicate on every issued certificate as well (stage `issued` of C13: -c13)
	Names bool `json:",omitempty"`
}

const lifetime = 86400

// ---------- environment shared by all histories ----------

var (
	ca      *fixture.CA
	prov    *provisioner.ACME
	keys    [2]*jose.JSONWebKey
	csrKey  crypto.Signer
	weakKey crypto.Signer
	shmDir  string
)

func setup() error {
	var err error
	if err = initAttest(); err != nil {
		return err
	}
	wireOpts, err := initWire()
	if err != nil {
		return err
	}
	ca, err = fixture.New(fixture.Opts{NoDB: true, Provisioners: provisioner.List{
		&provisioner.ACME{Type: "ACME", Name: "acme",
			Challenges: []provisioner.ACMEChallenge{provisioner.HTTP_01, provisioner.DNS_01, provisioner.TLS_ALPN_01, provisioner.DEVICE_ATTEST_01,
				provisioner.WIREOIDC_01, provisioner.WIREDPOP_01},
			AttestationFormats: []provisioner.ACMEAttestationFormat{provisioner.STEP}, AttestationRoots: attRootPEM(), Options: wireOpts},
	}})
	if err != nil {
		return err
	}
	p, err := ca.Auth.LoadProvisionerByName("acme")
	if err != nil {
		return err
	}
	var ok bool
	if prov, ok = p.(*provisioner.ACME); !ok {
		return fmt.Errorf("provisioner acme is %T", p)
	}
	for i := range keys {
		k, err := genKey()
		if err != nil {
			return err
		}
		privKeys[i] = k
		pub := k.Public()
		keys[i] = &pub
	}
	if csrKey, err = ecdsa.GenerateKey(elliptic.P256(), rand.Reader); err != nil {
		return err
	}
	if weakKey, err = rsa.GenerateKey(rand.Reader, 1024); err != nil {
		return err
	}
	base := os.TempDir()
	if st, err := os.Stat("/dev/shm"); err == nil && st.IsDir() {
		base = "/dev/shm" // bbolt syncs on every write; keep the files in memory
	}
	shmDir, err = os.MkdirTemp(base, "verif-c10-")
	return err
}

// ---------- scripted validation client ----------

type client struct{ how, keyAuth string }

func (cl *client) Get(string) (*http.Response, error) {
	body := func(code int, s string) *http.Response {
		return &http.Response{StatusCode: code, Body: io.NopCloser(strings.NewReader(s))}
	}
	switch cl.how {
	case "ok":
		return body(200, cl.keyAuth+"\n"), nil
	case "status":
		return body(404, "not here"), nil
	case "mismatch":
		return body(200, "something.else"), nil
	}
	return nil, errors.New("connection refused")
}

func (cl *client) LookupTxt(string) ([]string, error) {
	h := sha256.Sum256([]byte(cl.keyAuth))
	switch cl.how {
	case "ok":
		return []string{"unrelated", base64.RawURLEncoding.EncodeToString(h[:])}, nil
	case "mismatch", "status":
		return []string{"unrelated"}, nil
	}
	return nil, errors.New("no such host")
}

func (cl *client) TLSDial(string, string, *tls.Config) (*tls.Conn, error) {
	return nil, errors.New("connection refused")
}

// verdict class the model is told, per challenge type and scripted behaviour
func outcome(typ acme.ChallengeType, how string) string {
	if how == "dberr" {
		return "d"
	}
	switch typ {
	case acme.HTTP01:
		switch how {
		case "ok":
			return "s"
		case "mismatch":
			return "j"
		}
		return "t"
	case acme.DNS01:
		if how == "ok" {
			return "s"
		}
		return "t"
	}
	return "t" // tls-alpn-01: the scripted dial always fails with a plain error
}

// ---------- one history ----------

type world struct {
	raw    nosql.DB
	sh     *shiftDB
	db     *acmenosql.DB
	accs   [2]*acme.Account
	orders []string
	authzs []string
	chals  []string
	chTyp  []acme.ChallengeType
	ids    [][]string // identifiers per order
	linker acme.Linker
	t0     time.Time
	// what the oracle needs: children, owners and (virtual) expiry as stored by the code
	ordAz   [][]int
	ordAcct []int
	ordExp  []int
	azCh    [][]int
	azExp   []int
	azAcct  []int
	faulty  bool // a storage fault was injected earlier in this history
	// challenges for which a successful device-attest-01 response was sent through the URL of an
	// authorization they do not belong to (D15)
	foreignAttest map[int]bool
	// fpSource[authz] = the challenge whose attest request stored the fingerprint now on that
	// authorization, fpKey[authz] = the attested key number it is about
	fpSource map[int]int
	fpKey    map[int]int
	// challenges for which the client's proof was in place when a response was sent and the server
	// answered "valid" (what "the identifier was validated" means, seen from outside)
	proved map[int]bool
	names  bool
}

var errTick = errors.New("wall clock second changed during a request")

func newWorld(dir string) (*world, error) {
	raw, err := nosql.New("bbolt", filepath.Join(dir, "acme.db"))
	if err != nil {
		return nil, err
	}
	w := &world{raw: raw, sh: &shiftDB{DB: raw, createFail: -1}, linker: acme.NewLinker("ca.verif.test", "acme")}
	if w.db, err = acmenosql.New(w.sh); err != nil {
		raw.Close()
		return nil, err
	}
	for i := range w.accs {
		w.accs[i] = &acme.Account{Key: keys[i], Status: acme.StatusValid, ProvisionerID: prov.GetID(), ProvisionerName: prov.GetName()}
		if err := w.db.CreateAccount(context.Background(), w.accs[i]); err != nil {
			raw.Close()
			return nil, err
		}
	}
	w.t0 = time.Now().UTC().Truncate(time.Second)
	return w, nil
}

func (w *world) id(list []string, i int) string {
	if i >= 0 && i < len(list) {
		return list[i]
	}
	return fmt.Sprintf("nonexistent%d", i)
}

func index(list []string, id string) int {
	for i, x := range list {
		if x == id {
			return i
		}
	}
	return -1
}

func (w *world) ctx(acct int, payload []byte, cl acme.Client, params map[string]string) context.Context {
	ctx := authority.NewContext(context.Background(), ca.Auth)
	ctx = acme.NewContext(ctx, w.db, cl, w.linker, nil)
	ctx = acme.NewProvisionerContext(ctx, acme.Provisioner(prov))
	ctx = context.WithValue(ctx, acmeapi.ContextKey("acc"), w.accs[acct])
	ctx = context.WithValue(ctx, acmeapi.ContextKey("jwk"), w.accs[acct].Key)
	ctx = acmeapi.VerifPayloadContext(ctx, payload, len(payload) == 0, string(payload) == "{}")
	rctx := chi.NewRouteContext()
	for k, v := range params {
		rctx.URLParams.Add(k, v)
	}
	return context.WithValue(ctx, chi.RouteCtxKey, rctx)
}

type problem struct {
	Type   string `json:"type"`
	Status string `json:"status"`
	ID     string `json:"id"`
}

func call(h http.HandlerFunc, ctx context.Context) (code int, body []byte, crashed bool) {
	defer func() {
		if r := recover(); r != nil {
			code, body, crashed = 0, nil, true
		}
	}()
	rec := httptest.NewRecorder()
	req := httptest.NewRequest("POST", "https://ca.verif.test/acme/acme/x", nil).WithContext(ctx)
	h(rec, req)
	return rec.Code, rec.Body.Bytes(), false
}

func st(s acme.Status) string {
	switch s {
	case acme.StatusPending:
		return "p"
	case acme.StatusReady:
		return "r"
	case acme.StatusValid:
		return "v"
	case acme.StatusInvalid:
		return "i"
	}
	return "?" + string(s)
}

func errResp(kind string, body []byte) string {
	var p problem
	_ = json.Unmarshal(body, &p)
	switch strings.TrimPrefix(p.Type, "urn:ietf:params:acme:error:") {
	case "unauthorized":
		return "unauth"
	case "orderNotReady":
		return "notready"
	case "badCSR":
		return "badcsr"
	case "serverInternal":
		return "ise"
	case "rejectedIdentifier":
		if kind == "f" {
			return "refused"
		}
		return "err:rejectedIdentifier"
	case "malformed":
		if kind == "n" || kind == "f" { // f: the token of a Wire order is not there
			return "malformed"
		}
		return "notfound"
	}
	if p.Type == "" {
		return "ise" // a plain (non-ACME) error is rendered as an internal server error
	}
	return "err:" + p.Type
}

func (w *world) csr(o int, how string, keyNo int) (*x509.CertificateRequest, []byte, error) {
	var ids []string
	if o >= 0 && o < len(w.ids) {
		ids = w.ids[o]
	}
	return buildCSR(ids, how, keyNo)
}

// buildCSR: the CSR a client sends for an order with these identifiers
func buildCSR(ids []string, how string, keyNo int) (*x509.CertificateRequest, []byte, error) {
	return buildCSRFor(ids, how, keyNo, false)
}

// needCN: the provisioner has forceCN, which cannot be satisfied by a certificate without DNS names
// ("cannot force common name", answered 500): the client names its first identifier in the common name
func buildCSRFor(ids []string, how string, keyNo int, needCN bool) (*x509.CertificateRequest, []byte, error) {
	tmpl := &x509.CertificateRequest{}
	if needCN && len(ids) > 0 {
		hasDNS := false
		for _, id := range ids {
			hasDNS = hasDNS || strings.HasPrefix(id, "dns:")
		}
		if t, v, _ := strings.Cut(ids[0], ":"); !hasDNS && (t == "ip" || t == "permanent-identifier") {
			tmpl.Subject.CommonName = v
		}
	}
	isWireOrder := false
	for _, id := range ids {
		t, v, _ := strings.Cut(id, ":")
		switch t {
		case "ip":
			tmpl.IPAddresses = append(tmpl.IPAddresses, net.ParseIP(v))
		case "permanent-identifier":
		case "wireapp-user":
			// a well-formed Wire subject (display name attribute, Organization = domain) and the handle URI
			isWireOrder = true
			if u, err := wireid.ParseUserID(v); err == nil {
				tmpl.Subject.Organization = []string{u.Domain}
				tmpl.Subject.ExtraNames = append(tmpl.Subject.ExtraNames, pkix.AttributeTypeAndValue{Type: oidDisplayName, Value: u.Name})
				if x, err := url.Parse(u.Handle); err == nil {
					tmpl.URIs = append(tmpl.URIs, x)
				}
			}
		case "wireapp-device":
			isWireOrder = true
			if dv, err := wireid.ParseDeviceID(v); err == nil {
				if x, err := url.Parse(dv.ClientID); err == nil {
					tmpl.URIs = append(tmpl.URIs, x)
				}
			}
		default:
			tmpl.DNSNames = append(tmpl.DNSNames, v)
		}
	}
	if isWireOrder {
		switch how {
		case "extra":
			x, _ := url.Parse("wireapp://%40mallory@wire.com")
			tmpl.URIs = append(tmpl.URIs, x)
			how = "match"
		case "missing":
			if len(tmpl.URIs) > 0 {
				tmpl.URIs = tmpl.URIs[1:]
			}
			how = "match"
		}
	}
	key := csrKey
	if keyNo >= 1 && keyNo <= len(attKeys) {
		key = attKeys[keyNo-1]
	}
	switch how {
	case "extra":
		tmpl.DNSNames = append(tmpl.DNSNames, "extra.example.net")
	case "missing":
		if len(tmpl.DNSNames) > 0 {
			tmpl.DNSNames = tmpl.DNSNames[1:]
		} else if len(tmpl.IPAddresses) > 0 {
			tmpl.IPAddresses = tmpl.IPAddresses[1:]
		}
		hasPid := false
		for _, id := range ids {
			hasPid = hasPid || strings.HasPrefix(id, "permanent-identifier:")
		}
		if !hasPid || len(ids) == 1 {
			// (for an attested order a foreign common name is refused BEFORE the fingerprint tests, a
			// names mismatch after them: which answer comes first is modelled in C13; here the CSR of an
			// attested order only ever differs in its SANs)
			if !hasPid {
				tmpl.Subject = pkix.Name{CommonName: "other.example.net"}
			} else {
				tmpl.DNSNames = append(tmpl.DNSNames, "other.example.net")
			}
		}
	case "weakkey":
		key = weakKey
	}
	der, err := x509.CreateCertificateRequest(rand.Reader, tmpl, key)
	if err != nil {
		return nil, nil, err
	}
	csr, err := x509.ParseCertificateRequest(der)
	return csr, der, err
}

// csrOK: would the name comparison of Finalize pass (hook of C13)
func (w *world) csrOK(o int, csr *x509.CertificateRequest) bool {
	if o < 0 || o >= len(w.ids) {
		return false
	}
	return csrMatchesIDs(w.ids[o], csr)
}

func csrMatchesIDs(ids []string, csr *x509.CertificateRequest) bool {
	ord := &acme.Order{}
	for _, id := range ids {
		t, v, _ := strings.Cut(id, ":")
		ord.Identifiers = append(ord.Identifiers, acme.Identifier{Type: acme.IdentifierType(t), Value: v})
	}
	cp := *csr
	// (Finalize: a common name that repeats the permanent identifier is not one of the DNS or IP names)
	for _, id := range ord.Identifiers {
		if id.Type == acme.PermanentIdentifier {
			if cp.Subject.CommonName == id.Value {
				cp.Subject.CommonName = ""
			}
			break
		}
	}
	cp.DNSNames = append([]string(nil), csr.DNSNames...)
	cp.IPAddresses = append([]net.IP(nil), csr.IPAddresses...)
	_, err := ord.VerifSans(acme.VerifCanonicalize(&cp))
	return err == nil
}

func nch(id string) int {
	t, v, _ := strings.Cut(id, ":")
	switch {
	case t == "permanent-identifier", t == "wireapp-user", t == "wireapp-device":
		return 1
	case t == "ip":
		return 2
	case strings.HasPrefix(v, "*."):
		return 1
	}
	return 3
}

// discover numbers objects created by the last request, in the order the code created them
func (w *world) discover(ctx context.Context, ids []string) {
	entries, err := w.raw.List([]byte("acme_orders"))
	if err != nil {
		return
	}
	for _, e := range entries {
		oid := string(e.Key)
		if index(w.orders, oid) >= 0 {
			continue
		}
		o, err := w.db.GetOrder(ctx, oid)
		if err != nil {
			continue
		}
		w.orders = append(w.orders, oid)
		w.ids = append(w.ids, ids)
		virt := func(t time.Time) int { return int(t.Add(w.sh.off).Sub(w.t0) / time.Second) }
		acct := -1
		for i, a := range w.accs {
			if a.ID == o.AccountID {
				acct = i
			}
		}
		w.ordAcct = append(w.ordAcct, acct)
		w.ordExp = append(w.ordExp, virt(o.ExpiresAt))
		var azs []int
		for _, azID := range o.AuthorizationIDs {
			az, err := w.db.GetAuthorization(ctx, azID)
			if err != nil {
				continue
			}
			azs = append(azs, len(w.authzs))
			w.authzs = append(w.authzs, azID)
			w.azExp = append(w.azExp, virt(az.ExpiresAt))
			w.azAcct = append(w.azAcct, acct)
			var chs []int
			for _, ch := range az.Challenges {
				chs = append(chs, len(w.chals))
				w.chals = append(w.chals, ch.ID)
				w.chTyp = append(w.chTyp, ch.Type)
			}
			w.azCh = append(w.azCh, chs)
		}
		w.ordAz = append(w.ordAz, azs)
	}
}

// orphans numbers the challenges and authorizations the last request stored without an order that
// refers to them (a create write or the index write failed), in the order they were created
func (w *world) orphans(ctx context.Context) {
	for _, ck := range w.sh.created {
		switch ck.tbl {
		case "acme_challenges":
			if index(w.chals, ck.key) < 0 {
				typ := acme.ChallengeType("")
				if x, err := w.db.GetChallenge(ctx, ck.key, ""); err == nil {
					typ = x.Type
				}
				w.chals = append(w.chals, ck.key)
				w.chTyp = append(w.chTyp, typ)
			}
		case "acme_authzs":
			if index(w.authzs, ck.key) < 0 {
				var chs []int
				exp, owner := 0, -1
				if az, err := w.db.GetAuthorization(ctx, ck.key); err == nil {
					for i, a := range w.accs {
						if a.ID == az.AccountID {
							owner = i
						}
					}
					exp = int(az.ExpiresAt.Add(w.sh.off).Sub(w.t0) / time.Second)
					for _, ch := range az.Challenges {
						chs = append(chs, index(w.chals, ch.ID))
					}
				}
				w.authzs = append(w.authzs, ck.key)
				w.azExp = append(w.azExp, exp)
				w.azAcct = append(w.azAcct, owner)
				w.azCh = append(w.azCh, chs)
			}
		}
	}
}

func (w *world) dump(ctx context.Context) string {
	var os_, az, ch strings.Builder
	certs := make([]int, len(w.orders))
	if entries, err := w.raw.List([]byte("acme_certs")); err == nil {
		for _, e := range entries {
			var rec struct {
				OrderID string `json:"orderID"`
			}
			if json.Unmarshal(e.Value, &rec) == nil {
				if i := index(w.orders, rec.OrderID); i >= 0 {
					certs[i]++
				}
			}
		}
	}
	for _, id := range w.orders {
		if o, err := w.db.GetOrder(ctx, id); err == nil {
			os_.WriteString(st(o.Status))
		} else {
			os_.WriteString("!")
		}
	}
	for _, id := range w.authzs {
		if a, err := w.db.GetAuthorization(ctx, id); err == nil {
			if a.Fingerprint != "" {
				n := "?"
				for i, f := range attFPs {
					if f == a.Fingerprint {
						n = fmt.Sprint(i + 1)
					}
				}
				az.WriteString(strings.ToUpper(st(a.Status)) + n)
			} else {
				az.WriteString(st(a.Status))
			}
		} else {
			az.WriteString("!")
		}
	}
	for _, id := range w.chals {
		if x, err := w.db.GetChallenge(ctx, id, ""); err == nil {
			ch.WriteString(st(x.Status))
		} else {
			ch.WriteString("!")
		}
	}
	cs := make([]string, len(certs))
	for i, n := range certs {
		cs[i] = fmt.Sprint(n)
	}
	dots := "-"
	if len(cs) > 0 {
		dots = strings.Join(cs, ".")
	}
	// the Wire token store: which orders have an OIDC / a DPoP token
	var tk []string
	for i, id := range w.orders {
		if _, err := w.raw.Get([]byte("wire_acme_oidc_token"), []byte(id)); err == nil {
			tk = append(tk, fmt.Sprintf("o%d", i))
		}
		if _, err := w.raw.Get([]byte("wire_acme_dpop_token"), []byte(id)); err == nil {
			tk = append(tk, fmt.Sprintf("d%d", i))
		}
	}
	out := os_.String() + "/" + dots + "/" + az.String() + "/" + ch.String()
	if len(tk) > 0 {
		out += "/" + strings.Join(tk, ".")
	}
	return out
}

// oracle evaluates the property itself on two consecutive dumps of the implementation's store
// (DESIGN 3.5 step 2). It uses only what the implementation stored (children, owner, expiry)
// and the request that was sent; "" = no clause violated.
func (w *world) oracle(op Op, csrOK bool, prev, cur string) string {
	pf, cf := strings.Split(prev, "/"), strings.Split(cur, "/")
	if len(pf) < 4 || len(cf) < 4 { // (a fifth field lists the stored Wire tokens)
		return ""
	}
	// upper case + key number marks a stored fingerprint: strip the numbers, keep one letter per authorization
	strip := func(x string) string {
		var b strings.Builder
		for _, r := range x {
			if r < '0' || r > '9' {
				b.WriteRune(r)
			}
		}
		return b.String()
	}
	// fp_cause on the stored records: the fingerprint of an authorization changes only in a
	// device-attest-01 request of the account that owns that authorization
	marks := func(x string) []string {
		var out []string
		for _, r := range x {
			if r >= '0' && r <= '9' || r == '?' {
				if len(out) > 0 {
					out[len(out)-1] += string(r)
				}
			} else {
				out = append(out, string(r))
			}
		}
		return out
	}
	pm, cm := marks(pf[2]), marks(cf[2])
	for a := range cm {
		was := ""
		if a < len(pm) && len(pm[a]) > 1 {
			was = pm[a][1:]
		}
		is := ""
		if len(cm[a]) > 1 {
			is = cm[a][1:]
		}
		if was != is {
			owner := -1
			if a < len(w.azAcct) {
				owner = w.azAcct[a]
			}
			if op.K != "t" || owner != op.Acct {
				return "VIOL:fingerprint-foreign-account"
			}
		}
	}
	cf2raw := strip(cf[2])
	pf[2], cf[2] = strings.ToLower(strip(pf[2])), strings.ToLower(cf2raw)
	at := func(s string, i int) byte {
		if i < len(s) {
			return s[i]
		}
		return 'p' // did not exist yet: created pending
	}
	for k, name := range []string{"order", "", "authz", "challenge"} {
		if k == 1 {
			continue
		}
		for i := 0; i < len(cf[k]); i++ {
			a, b := at(pf[k], i), cf[k][i]
			if (a == 'v' || a == 'i') && b != a {
				return "VIOL:terminal-" + name
			}
			if a == 'r' && b == 'p' {
				return "VIOL:backward-" + name
			}
			if i >= len(pf[k]) && b != 'p' && k != 0 {
				return "VIOL:born-" + name
			}
		}
	}
	for i := 0; i < len(cf[2]) && i < len(w.azCh); i++ {
		if cf[2][i] == 'v' && at(pf[2], i) != 'v' {
			ok := op.Now <= w.azExp[i]
			has := false
			for _, c := range w.azCh[i] {
				// (a Wire response validates the challenge and updates the account's orders in one request)
				has = has || at(pf[3], c) == 'v' || (op.K == "w" && at(cf[3], c) == 'v')
			}
			if !ok || !has {
				return "VIOL:authz-valid-cause"
			}
		}
	}
	pc, cc := strings.Split(pf[1], "."), strings.Split(cf[1], ".")
	cnt := func(l []string, i int) string {
		if i < len(l) && l[i] != "-" {
			return l[i]
		}
		return "0"
	}
	for i := 0; i < len(cf[0]) && i < len(w.ordAz); i++ {
		allValid := true
		for _, a := range w.ordAz[i] {
			allValid = allValid && at(cf[2], a) == 'v'
		}
		was, is := at(pf[0], i), cf[0][i]
		if is == 'r' && was != 'r' && (!allValid || op.Now > w.ordExp[i] || was != 'p') {
			return "VIOL:order-ready-cause"
		}
		grew := cnt(pc, i) != cnt(cc, i)
		if is == 'v' && was != 'v' {
			if !(op.K == "f" && op.Obj == i && op.Acct == w.ordAcct[i] && csrOK && op.CSR != "weakkey" &&
				allValid && op.Now <= w.ordExp[i] && (was == 'r' || was == 'p') && grew) {
				return "VIOL:order-valid-cause"
			}
			// a Wire order is finalized only with an OIDC and a DPoP token filed under it (wire_order_valid_tokens)
			isWireOrder := false
			for _, id := range w.ids[i] {
				isWireOrder = isWireOrder || strings.HasPrefix(id, "wireapp-")
			}
			if isWireOrder {
				tk := ""
				if len(pf) > 4 {
					tk = "." + pf[4] + "."
				}
				if !strings.Contains(tk, fmt.Sprintf(".o%d.", i)) || !strings.Contains(tk, fmt.Sprintf(".d%d.", i)) {
					return "VIOL:wire-order-valid-without-tokens"
				}
			}
			// C13 end to end: a certificate is issued only when every identifier of the order was validated:
			// each of the order's authorizations has a challenge whose proof was in place and accepted
			for _, a := range w.ordAz[i] {
				okAz := false
				if a < len(w.azCh) {
					for _, ch := range w.azCh[a] {
						okAz = okAz || w.proved[ch]
					}
				}
				if !okAz {
					return "VIOL:certificate-for-unvalidated-identifier"
				}
			}
			if w.names {
				if v := w.certNames(i); v != "" {
					return v
				}
			}
			// C13's attested clause, end to end: an order with a permanent identifier is finalized only
			// with the key that was attested in a response to one of ITS OWN challenges
			hasPid := false
			for _, id := range w.ids[i] {
				hasPid = hasPid || strings.HasPrefix(id, "permanent-identifier:")
			}
			if hasPid {
				first := -1
				for _, a := range w.ordAz[i] {
					if a < len(cf2raw) && cf2raw[a] >= 'A' && cf2raw[a] <= 'Z' {
						first = a
						break
					}
				}
				switch {
				case first < 0:
					return "VIOL:attested-key" // finalized although no fingerprint is recorded on the order
				case w.fpKey[first] != op.Key:
					return "VIOL:attested-key" // the CSR key is not the recorded one
				default:
					own := false
					for _, ch := range w.azCh[first] {
						own = own || ch == w.fpSource[first]
					}
					if !own {
						// the recorded key was attested in a response to ANOTHER challenge of the account,
						// sent through this authorization's URL (what is left of D15)
						return "VIOL:attested-key-swapped"
					}
				}
			}
		} else if grew && !(op.K == "f" && op.Obj == i && (op.Fail || (op.Deny == "o" && op.DenyObj == i))) {
			return "VIOL:certificate-without-transition"
		}
		if !w.faulty && cnt(cc, i) != "0" && cnt(cc, i) != "1" {
			return "VIOL:certificates-per-order"
		}
	}
	return ""
}

// certNames is C13's predicate on the issued certificate itself: every name the leaf carries (DNS,
// IP, permanent identifier, common name) is the value one of the order's authorizations was
// created for (what its challenges validated; `*.x` for a dns authorization flagged wildcard), and
// every authorization's value is in the leaf; no e-mail or URI names.
func (w *world) certNames(i int) string { return certNamesOf(w.db, w.orders[i]) }

func certNamesOf(db acme.DB, orderID string) string {
	bg := context.Background()
	o, err := db.GetOrder(bg, orderID)
	if err != nil || o.CertificateID == "" {
		return "VIOL:certificate-unreadable"
	}
	crt, err := db.GetCertificate(bg, o.CertificateID)
	if err != nil || crt.Leaf == nil {
		return "VIOL:certificate-unreadable"
	}
	all, err := x509util.ParseSubjectAlternativeNames(crt.Leaf)
	if err != nil {
		return "VIOL:certificate-unreadable"
	}
	type val struct{ typ, v string }
	var have []val
	isWire, wireCN := false, ""
	if os.Getenv("VERIF_C10_DEBUG") != "" {
		fmt.Fprintf(os.Stderr, "debug: leaf CN=%q O=%v dns=%q uris=%v ips=%v\n", crt.Leaf.Subject.CommonName, crt.Leaf.Subject.Organization, all.DNSNames, all.URIs, all.IPAddresses)
	}
	for _, azID := range o.AuthorizationIDs {
		az, err := db.GetAuthorization(bg, azID)
		if err != nil {
			return "VIOL:certificate-unreadable"
		}
		v := az.Identifier.Value
		if az.Wildcard && az.Identifier.Type == acme.DNS {
			v = "*." + v
		}
		switch az.Identifier.Type {
		case acme.WireUser: // what wire-oidc-01 validated: the handle (a URI name) and the display name (the subject)
			isWire = true
			if u, err := wireid.ParseUserID(v); err == nil {
				have = append(have, val{"uri", u.Handle})
				wireCN = u.Name
			}
		case acme.WireDevice: // wire-dpop-01: the client id
			isWire = true
			if dv, err := wireid.ParseDeviceID(v); err == nil {
				have = append(have, val{"uri", dv.ClientID})
			}
		default:
			have = append(have, val{string(az.Identifier.Type), v})
		}
	}
	used := make([]bool, len(have))
	find := func(typ string, eq func(string) bool) bool {
		ok := false
		for j, h := range have {
			if h.typ == typ && eq(h.v) {
				used[j], ok = true, true
			}
		}
		return ok
	}
	lower := func(s string) string { // ASCII only: names are compared as DNS compares them
		b := []byte(s)
		for k, ch := range b {
			if 'A' <= ch && ch <= 'Z' {
				b[k] = ch + 32
			}
		}
		return string(b)
	}
	for _, d := range all.DNSNames {
		if !find("dns", func(v string) bool { return lower(v) == lower(d) }) {
			if isWire && d == "" {
				return "VIOL:certificate-name-not-validated:wire-empty-san" // C13-F3 (fixed in 167bc71)
			}
			return "VIOL:certificate-name-not-validated"
		}
	}
	for _, ip := range all.IPAddresses {
		if !find("ip", func(v string) bool { x := net.ParseIP(v); return x != nil && x.Equal(ip) }) {
			return "VIOL:certificate-name-not-validated"
		}
	}
	for _, p := range all.PermanentIdentifiers {
		if !find("permanent-identifier", func(v string) bool { return v == p.Identifier }) {
			if strings.HasPrefix(p.Identifier, "*.") && find("permanent-identifier", func(v string) bool { return v == p.Identifier[2:] }) {
				return "VIOL:certificate-name-not-validated:pid-wildcard" // C13-F4 (fixed in 77ebdfa)
			}
			return "VIOL:certificate-name-not-validated"
		}
	}
	for _, u := range all.URIs {
		if !find("uri", func(v string) bool { x, err := url.Parse(v); return err == nil && x.String() == u.String() }) {
			return "VIOL:certificate-name-not-validated"
		}
	}
	if len(all.EmailAddresses) > 0 {
		return "VIOL:certificate-name-not-validated"
	}
	if cn := crt.Leaf.Subject.CommonName; isWire {
		if cn != wireCN {
			return "VIOL:certificate-name-not-validated"
		}
	} else if cn != "" {
		ok := false
		for _, h := range have {
			ok = ok || lower(h.v) == lower(cn) || (h.typ == "ip" && net.ParseIP(cn) != nil && net.ParseIP(cn).Equal(net.ParseIP(h.v)))
		}
		if !ok {
			return "VIOL:certificate-name-not-validated"
		}
	}
	hasPid, missing, missingPid := false, false, false
	for j, h := range have {
		hasPid = hasPid || h.typ == "permanent-identifier"
		if !used[j] {
			missing = true
			missingPid = missingPid || h.typ == "permanent-identifier"
		}
	}
	switch {
	case missing && hasPid && !missingPid:
		return "VIOL:validated-identifier-missing-from-certificate:mixed-attested" // C13-F2
	case missing:
		return "VIOL:validated-identifier-missing-from-certificate"
	}
	return ""
}

// exec runs one request; returns the model's op token and the implementation's step output.
func (w *world) exec(op Op, prev string) (tok, out, dump string, err error) {
	// pin the wall-clock second for the duration of the request
	if time.Now().Nanosecond() > 850_000_000 {
		time.Sleep(time.Duration(1_000_000_000-time.Now().Nanosecond()) * time.Nanosecond)
	}
	realNow := time.Now().UTC().Truncate(time.Second)
	w.sh.off = w.t0.Add(time.Duration(op.Now) * time.Second).Sub(realNow)
	w.sh.failOrderValid, w.sh.failChallenge = false, false
	w.sh.denyTbl, w.sh.denyKey = nil, nil
	w.sh.createFail, w.sh.creates, w.sh.created, w.sh.denyIndex, w.sh.denyToken = -1, 0, nil, false, false
	switch op.Deny {
	case "x":
		w.sh.createFail = op.DenyObj
	case "i":
		w.sh.denyIndex = true
	case "k":
		w.sh.denyToken = true
	case "c":
		w.sh.denyTbl, w.sh.denyKey = chalTbl, []byte(w.id(w.chals, op.DenyObj))
	case "a":
		w.sh.denyTbl, w.sh.denyKey = authzTbl, []byte(w.id(w.authzs, op.DenyObj))
	case "o":
		w.sh.denyTbl, w.sh.denyKey = orderTbl, []byte(w.id(w.orders, op.DenyObj))
	}
	bg := context.Background()
	var code int
	var body []byte
	var crashed bool
	csrMatches := false
	resp := ""
	// a response is a Wire response exactly when the challenge it names is a Wire challenge
	if (op.K == "r" || op.K == "w") && op.Obj >= 0 && op.Obj < len(w.chals) {
		op.K = "r"
		if isWire(w.chTyp[op.Obj]) {
			op.K = "w"
		}
	} else if op.K == "w" {
		op.K = "r"
	}
	switch op.K {
	case "n":
		ks := make([]string, len(op.IDs))
		var req acmeapi.NewOrderRequest
		for i, id := range op.IDs {
			t, v, _ := strings.Cut(id, ":")
			req.Identifiers = append(req.Identifiers, acme.Identifier{Type: acme.IdentifierType(t), Value: v})
			ks[i] = fmt.Sprint(nch(id))
			if t == "permanent-identifier" {
				ks[i] += "a"
			}
		}
		k := "-"
		if len(ks) > 0 {
			k = strings.Join(ks, ".")
		}
		for _, id := range op.IDs {
			if strings.HasPrefix(id, "wireapp-") {
				k = "w" + k // a Wire order
				break
			}
		}
		tok = fmt.Sprintf("n:%d:%d:%s", op.Acct, op.Now, k)
		payload, _ := json.Marshal(req)
		code, body, crashed = call(acmeapi.NewOrder, w.ctx(op.Acct, payload, &client{}, nil))
		w.sh.createFail, w.sh.denyIndex = -1, false
		w.discover(bg, op.IDs)
		w.orphans(bg)
		if code == 201 {
			var p problem
			_ = json.Unmarshal(body, &p)
			resp = fmt.Sprintf("created-%d", index(w.orders, p.ID))
		}
	case "r":
		id := w.id(w.chals, op.Obj)
		typ := acme.ChallengeType("")
		cl := &client{how: op.How}
		if op.Obj >= 0 && op.Obj < len(w.chals) {
			typ = w.chTyp[op.Obj]
			if x, err := w.db.GetChallenge(bg, id, ""); err == nil {
				cl.keyAuth, _ = acme.KeyAuthorization(x.Token, w.accs[op.Acct].Key)
			}
		}
		if op.How == "dberr" {
			cl.how = "ok"
			w.sh.failChallenge = true
		}
		tok = fmt.Sprintf("r:%d:%d:%d:%s", op.Acct, op.Obj, op.Now, outcome(typ, op.How))
		// the URL names the challenge's own authorization, except for device-attest-01 challenges:
		// an `r` request stands for a response through a URL naming no authorization at all
		azURL := "az"
		if typ != acme.DEVICEATTEST01 {
			for a, chs := range w.azCh {
				for _, ch := range chs {
					if ch == op.Obj {
						azURL = w.authzs[a]
					}
				}
			}
		}
		code, body, crashed = call(acmeapi.GetChallenge, w.ctx(op.Acct, []byte("{}"), cl, map[string]string{"chID": id, "authzID": azURL}))
	case "w":
		// response to a wire-oidc-01 / wire-dpop-01 challenge through its own authorization's URL
		id := w.id(w.chals, op.Obj)
		azURL := "az"
		for a, chs := range w.azCh {
			for _, ch := range chs {
				if ch == op.Obj {
					azURL = w.authzs[a]
				}
			}
		}
		payload := []byte("{}")
		if x, err := w.db.GetChallenge(bg, id, ""); err == nil {
			aud := w.linker.GetLink(w.ctx(op.Acct, nil, &client{}, nil), acme.ChallengeLinkType, azURL, id)
			if p, perr := wirePayload(w.chTyp[op.Obj], op.How, privKeys[op.Acct], x.Value, x.Token, aud); perr == nil {
				payload = p
			} else {
				return "", "", "", perr
			}
		}
		out := "j"
		switch op.How {
		case "ok":
			out = "s"
		case "dberr":
			out = "d"
			w.sh.failChallenge = true
		}
		letter := "w"
		if w.chTyp[op.Obj] == acme.WIREDPOP01 {
			letter = "W"
		}
		tok = fmt.Sprintf("%s:%d:%d:%d:%s", letter, op.Acct, op.Obj, op.Now, out)
		code, body, crashed = call(acmeapi.GetChallenge, w.ctx(op.Acct, payload, &client{how: "connerr"}, map[string]string{"chID": id, "authzID": azURL}))
	case "t":
		// device-attest-01 response; the URL names authorization op.Az (the handler does not check
		// that the challenge belongs to it)
		id := w.id(w.chals, op.Obj)
		var payload []byte
		akey := op.Key
		if akey < 1 || akey > len(attKeys) {
			akey = 1
		}
		attestable := true
		if op.Obj >= 0 && op.Obj < len(w.chals) {
			if x, err := w.db.GetChallenge(bg, id, ""); err == nil {
				ka, _ := acme.KeyAuthorization(x.Token, w.accs[op.Acct].Key)
				payload, _ = attestPayload(ka, x.Value, op.How, attKeys[akey-1])
				// the step format attests a decimal serial number: a challenge for anything else
				// (`*.1234567` since /repo 77ebdfa) cannot be answered, the attestation names another device
				if n, ok := new(big.Int).SetString(x.Value, 10); !ok || n.String() != x.Value {
					attestable = false
				}
			}
		}
		if payload == nil {
			payload = []byte("{}")
		}
		out := "j"
		if op.How == "ok" && attestable {
			out = fmt.Sprintf("s%d", akey)
		}
		tok = fmt.Sprintf("t:%d:%d:%d:%d:%s", op.Acct, op.Obj, op.Az, op.Now, out)
		if op.How == "ok" && op.Obj >= 0 && op.Obj < len(w.chals) {
			own := false
			if op.Az >= 0 && op.Az < len(w.azCh) {
				for _, ch := range w.azCh[op.Az] {
					own = own || ch == op.Obj
				}
			}
			if !own {
				if w.foreignAttest == nil {
					w.foreignAttest = map[int]bool{}
				}
				w.foreignAttest[op.Obj] = true
			}
		}
		code, body, crashed = call(acmeapi.GetChallenge, w.ctx(op.Acct, payload, &client{how: "connerr"}, map[string]string{"chID": id, "authzID": w.id(w.authzs, op.Az)}))
	case "a":
		tok = fmt.Sprintf("a:%d:%d:%d", op.Acct, op.Obj, op.Now)
		code, body, crashed = call(acmeapi.GetAuthorization, w.ctx(op.Acct, nil, &client{}, map[string]string{"authzID": w.id(w.authzs, op.Obj)}))
	case "o":
		tok = fmt.Sprintf("o:%d:%d:%d", op.Acct, op.Obj, op.Now)
		code, body, crashed = call(acmeapi.GetOrder, w.ctx(op.Acct, nil, &client{}, map[string]string{"ordID": w.id(w.orders, op.Obj)}))
	case "f":
		how := op.CSR
		csr, der, cerr := w.csr(op.Obj, how, op.Key)
		if cerr != nil {
			return "", "", "", cerr
		}
		w.sh.failOrderValid = op.Fail
		csrMatches = w.csrOK(op.Obj, csr)
		keyNo := op.Key
		if how == "weakkey" || keyNo < 0 || keyNo > len(attKeys) {
			keyNo = 0
		}
		tok = fmt.Sprintf("f:%d:%d:%d:%d:%s%s%s", op.Acct, op.Obj, op.Now, keyNo, c.B(csrMatches), c.B(how != "weakkey"), c.B(op.Fail))
		payload, _ := json.Marshal(map[string]string{"csr": base64.RawURLEncoding.EncodeToString(der)})
		code, body, crashed = call(acmeapi.FinalizeOrder, w.ctx(op.Acct, payload, &client{}, map[string]string{"ordID": w.id(w.orders, op.Obj)}))
	case "l":
		tok = fmt.Sprintf("l:%d:%d:%d", op.Acct, op.Obj, op.Now)
		url := "nobody"
		if op.Obj >= 0 && op.Obj < len(w.accs) {
			url = w.accs[op.Obj].ID
		}
		code, body, crashed = call(acmeapi.GetOrdersByAccountID, w.ctx(op.Acct, nil, &client{}, map[string]string{"accID": url}))
		if code == 200 {
			var urls []string
			_ = json.Unmarshal(body, &urls)
			idx := make([]string, 0, len(urls))
			for _, u := range urls {
				idx = append(idx, fmt.Sprint(index(w.orders, u[strings.LastIndex(u, "/")+1:])))
			}
			resp = "list--"
			if len(idx) > 0 {
				resp = "list-" + strings.Join(idx, ".")
			}
		}
	default:
		return "", "", "", fmt.Errorf("unknown op %q", op.K)
	}
	if (op.K == "f" && op.Fail) || ((op.K == "r" || op.K == "w") && op.How == "dberr") || op.Deny != "" {
		w.faulty = true
	}
	w.sh.failOrderValid, w.sh.failChallenge = false, false
	w.sh.denyTbl, w.sh.denyKey = nil, nil
	w.sh.createFail, w.sh.denyIndex, w.sh.denyToken = -1, false, false
	switch op.Deny {
	case "":
	case "i", "k":
		tok += "!" + op.Deny
	default:
		tok += fmt.Sprintf("!%s%d", op.Deny, op.DenyObj)
	}
	if os.Getenv("VERIF_C10_DEBUG") != "" {
		fmt.Fprintf(os.Stderr, "debug: %s -> %d %s\n", tok, code, strings.TrimSpace(string(body)))
	}
	switch {
	case crashed:
		resp = "crash"
	case resp != "":
	case code >= 200 && code < 300:
		var p problem
		_ = json.Unmarshal(body, &p)
		resp = "ok-" + st(acme.Status(p.Status))
	default:
		resp = errResp(op.K, body)
		if op.K == "f" && resp == "malformed" && (op.Obj < 0 || op.Obj >= len(w.orders)) {
			resp = "notfound" // no such order (the same error type as a missing Wire token)
		}
	}
	dump = w.dump(bg)
	if (op.K == "r" || op.K == "w" || op.K == "t") && op.How == "ok" && op.Obj >= 0 && op.Obj < len(w.chals) {
		// (a response whose answer was 500 after the challenge had been stored valid counts too)
		if x, err := w.db.GetChallenge(bg, w.chals[op.Obj], ""); err == nil && x.Status == acme.StatusValid && x.AccountID == w.accs[op.Acct].ID {
			if w.proved == nil {
				w.proved = map[int]bool{}
			}
			w.proved[op.Obj] = true
		}
	}
	if op.K == "t" && op.How == "ok" && op.Az >= 0 && op.Az < len(w.authzs) {
		// did this request store a fingerprint on the URL's authorization?
		if a, err := w.db.GetAuthorization(bg, w.authzs[op.Az]); err == nil && a.Fingerprint != "" && strings.HasPrefix(resp, "ok-v") {
			if w.fpSource == nil {
				w.fpSource, w.fpKey = map[int]int{}, map[int]int{}
			}
			k := op.Key
			if k < 1 || k > len(attKeys) {
				k = 1
			}
			w.fpSource[op.Az], w.fpKey[op.Az] = op.Obj, k
		}
	}
	out = resp + "/" + dump
	if v := w.oracle(op, csrMatches, prev, dump); v != "" {
		out += "/" + v
	}
	if !time.Now().UTC().Truncate(time.Second).Equal(realNow) {
		return tok, out, dump, errTick
	}
	return tok, out, dump, nil
}

func runCase(k *Case) (line, out string, err error) {
	js, _ := json.Marshal(k)
	for attempt := 0; attempt < 6; attempt++ {
		dir, derr := os.MkdirTemp(shmDir, "h")
		if derr != nil {
			return "", "", derr
		}
		w, werr := newWorld(dir)
		if werr != nil {
			os.RemoveAll(dir)
			return "", "", werr
		}
		w.names = k.Names
		toks := make([]string, 0, len(k.Ops))
		outs := make([]string, 0, len(k.Ops))
		tick := false
		prev := "/-//"
		for _, op := range k.Ops {
			tok, o, d, eerr := w.exec(op, prev)
			prev = d
			if eerr == errTick {
				tick = true
				break
			}
			if eerr != nil {
				w.raw.Close()
				os.RemoveAll(dir)
				return "", "", eerr
			}
			toks = append(toks, tok)
			outs = append(outs, o)
		}
		total := 0
		if entries, lerr := w.raw.List([]byte("acme_certs")); lerr == nil {
			total = len(entries)
		}
		w.raw.Close()
		os.RemoveAll(dir)
		if tick {
			continue
		}
		return "ops=" + strings.Join(toks, ";") + " case=x" + hex.EncodeToString(js),
			fmt.Sprintf("T%d:%s", total, strings.Join(outs, "|")), nil
	}
	return "", "", errors.New("could not run the history inside stable wall-clock seconds")
}

// ---------- generator ----------

var idPool = []string{"dns:a.example.com", "dns:b.example.com", "dns:*.example.com", "ip:10.0.0.1", "ip:fd00::1", "dns:www.example.org"}

type shadowOrder struct {
	attest        []bool // the authorization is for a permanent identifier
	akey          int    // the key the last attest request of this order was about
	acct, created int
	chals         [][]int // challenge indices per authorization
	done          []bool  // a successful response was sent for the authorization
	wire          bool    // a Wire order (one wireapp-user and one wireapp-device identifier)
}

func flat(l [][]int) []int {
	var out []int
	for _, x := range l {
		out = append(out, x...)
	}
	return out
}

func genCase(r *c.Rng) *Case {
	k := &Case{}
	now := 0
	var orders []shadowOrder
	nchal, nauthz := 0, 0
	n := 6 + r.Intn(30)
	fault := r.Chance(1, 5) // a minority of histories contain injected storage faults
	// deny: in faulty histories, let a request run while the writes of one authorization or of
	// the order fail (the interesting point: an order is evaluated and a child write is lost)
	deny := func(op Op, so shadowOrder, oi, firstAz int) Op {
		if !fault || !r.Chance(1, 3) {
			return op
		}
		if (op.K == "w" || op.K == "r" || op.K == "l") && r.Chance(1, 3) {
			op.Deny = c.Pick(r, []string{"i", "k"})
			return op
		}
		switch r.Intn(4) {
		case 0:
			op.Deny, op.DenyObj = "o", oi
		case 1:
			op.Deny, op.DenyObj = "c", c.Pick(r, c.Pick(r, so.chals))
		default:
			op.Deny, op.DenyObj = "a", firstAz+r.Intn(len(so.chals))
		}
		return op
	}
	firstAzOf := func(orders []shadowOrder, oi int) int {
		n := 0
		for _, o := range orders[:oi] {
			n += len(o.chals)
		}
		return n
	}
	newOrder := func() {
		acct := 0
		if r.Chance(1, 4) {
			acct = 1
		}
		cnt := 1 + r.Intn(3)
		if r.Chance(1, 40) {
			cnt = 0
		}
		var ids []string
		so := shadowOrder{acct: acct, created: now}
		pidOrder := r.Chance(1, 6)
		var wids []string
		if !pidOrder && cnt > 0 && r.Chance(1, 6) {
			wids, so.wire, cnt = wireIDs(r.Chance(1, 8)), true, 2
		}
		for i := 0; i < cnt; i++ {
			id := c.Pick(r, idPool)
			if so.wire {
				id = wids[i]
			}
			if pidOrder && i == 0 {
				id = c.Pick(r, []string{"permanent-identifier:1234567", "permanent-identifier:42"})
				if r.Chance(2, 3) {
					cnt = 1 // mostly the permanent identifier alone
				}
			}
			ids = append(ids, id)
			so.attest = append(so.attest, strings.HasPrefix(id, "permanent-identifier:"))
			var chs []int
			for j := 0; j < nch(id); j++ {
				chs = append(chs, nchal)
				nchal++
			}
			so.chals = append(so.chals, chs)
			so.done = append(so.done, false)
			nauthz++
		}
		nop := Op{K: "n", Acct: acct, Now: now, IDs: ids}
		if fault && cnt > 0 && r.Chance(1, 4) {
			// a create write (challenge / authorization / order; sometimes one past the last) or the index write fails
			total := 1
			for _, chs := range so.chals {
				total += len(chs) + 1
			}
			if r.Chance(1, 4) {
				nop.Deny = "i"
			} else {
				nop.Deny, nop.DenyObj = "x", r.Intn(total+1)
			}
			// the shadow numbering: what was created before the fault keeps its numbers, no order
			if nop.Deny == "i" || nop.DenyObj < total {
				created := total
				if nop.Deny == "x" {
					created = nop.DenyObj
				}
				nchal, nauthz = nchal-len(flat(so.chals)), nauthz-len(so.chals)
				for _, chs := range so.chals {
					for range chs {
						if created > 0 {
							nchal++
							created--
						}
					}
					if created > 0 {
						nauthz++
						created--
					}
				}
				k.Ops = append(k.Ops, nop)
				return
			}
		}
		k.Ops = append(k.Ops, nop)
		if cnt > 0 {
			orders = append(orders, so)
		}
	}
	pickAcct := func(owner int) int {
		if r.Chance(1, 12) {
			return 1 - owner
		}
		return owner
	}
	newOrder()
	for len(k.Ops) < n {
		// time
		switch r.Intn(12) {
		case 0:
			now += 1 + r.Intn(3)
		case 1:
			now += 3600 * (1 + r.Intn(12))
		case 2: // jump to the expiry boundary of some order
			if len(orders) > 0 {
				t := c.Pick(r, orders).created + lifetime + r.Intn(3) - 1
				if t > now {
					now = t
				}
			}
		case 3:
			if r.Chance(1, 6) {
				now += lifetime
			}
		}
		if len(orders) == 0 {
			newOrder()
			continue
		}
		oi := r.Intn(len(orders))
		so := orders[oi]
		if r.Chance(2, 5) { // make progress on the chosen order: next authorization, then finalize
			next := -1
			for i, d := range so.done {
				if !d {
					next = i
					break
				}
			}
			hasPid := false
			for _, a := range so.attest {
				hasPid = hasPid || a
			}
			key := 0
			if hasPid && r.Chance(5, 6) {
				key = so.akey
			} else if hasPid {
				key = r.Intn(3)
			}
			switch {
			case next >= 0 && so.attest[next]:
				so.done[next] = true
				az := firstAzOf(orders, oi) + next
				if r.Chance(1, 5) { // the URL names some other authorization
					az = r.Intn(nauthz + 1)
				}
				how := "ok"
				if r.Chance(1, 6) {
					how = c.Pick(r, []string{"badsig", "wrongserial"})
					so.done[next] = false
				}
				orders[oi].akey = 1 + r.Intn(2)
				if r.Chance(3, 4) {
					orders[oi].akey = 1
				}
				k.Ops = append(k.Ops, deny(Op{K: "t", Acct: so.acct, Obj: so.chals[next][0], Az: az, Key: orders[oi].akey, Now: now, How: how}, so, oi, firstAzOf(orders, oi)))
			case next >= 0:
				so.done[next] = true
				k.Ops = append(k.Ops, Op{K: "r", Acct: so.acct, Obj: so.chals[next][0], Now: now, How: "ok"})
			default:
				k.Ops = append(k.Ops, deny(Op{K: "f", Acct: so.acct, Obj: oi, Now: now, CSR: "match", Key: key, Fail: fault && r.Chance(1, 6)}, so, oi, firstAzOf(orders, oi)))
			}
			continue
		}
		switch r.Intn(20) {
		case 0, 1:
			newOrder()
		case 2, 3, 4, 5, 6, 7, 8: // respond, mostly successfully, to a challenge of the chosen order
			chs := c.Pick(r, so.chals)
			ch := c.Pick(r, chs)
			how := "ok"
			switch r.Intn(10) {
			case 0:
				how = "connerr"
			case 1:
				how = "status"
			case 2:
				how = "mismatch"
			case 3:
				if fault {
					how = "dberr"
				}
			}
			if r.Chance(1, 30) {
				ch = nchal + r.Intn(2)
			}
			k.Ops = append(k.Ops, deny(Op{K: "r", Acct: pickAcct(so.acct), Obj: ch, Now: now, How: how}, so, oi, firstAzOf(orders, oi)))
		case 9, 10:
			first := 0
			for _, o := range orders[:oi] {
				first += len(o.chals)
			}
			a := first + r.Intn(len(so.chals))
			if r.Chance(1, 30) {
				a = nauthz + r.Intn(2)
			}
			k.Ops = append(k.Ops, deny(Op{K: "a", Acct: pickAcct(so.acct), Obj: a, Now: now}, so, oi, first))
		case 11, 12, 13:
			o := oi
			if r.Chance(1, 30) {
				o = len(orders) + r.Intn(2)
			}
			k.Ops = append(k.Ops, deny(Op{K: "o", Acct: pickAcct(so.acct), Obj: o, Now: now}, so, oi, firstAzOf(orders, oi)))
		case 14, 15, 16, 17, 18:
			how := "match"
			switch r.Intn(12) {
			case 0:
				how = "extra"
			case 1:
				how = "missing"
			case 2:
				how = "weakkey"
			}
			o := oi
			if r.Chance(1, 30) {
				o = len(orders) + r.Intn(2)
			}
			if so.wire && o == oi && r.Chance(1, 2) { // respond once more to a (probably finished) Wire challenge
				k.Ops = append(k.Ops, deny(Op{K: "w", Acct: so.acct, Obj: c.Pick(r, c.Pick(r, so.chals)), Now: now, How: c.Pick(r, []string{"ok", "ok", "mismatch", "status", "connerr"})}, so, oi, firstAzOf(orders, oi)))
				break
			}
			k.Ops = append(k.Ops, deny(Op{K: "f", Acct: pickAcct(so.acct), Obj: o, Now: now, CSR: how, Fail: fault && r.Chance(1, 4)}, so, oi, firstAzOf(orders, oi)))
		case 19:
			acct := so.acct
			url := acct
			if r.Chance(1, 8) {
				url = 1 - acct
			}
			k.Ops = append(k.Ops, deny(Op{K: "l", Acct: acct, Obj: url, Now: now}, so, oi, firstAzOf(orders, oi)))
		}
	}
	return k
}

// fixed histories first: the happy path, expiry boundaries, the double finalize, the faults
func corner() []*Case {
	ok := func(ch, now int) Op { return Op{K: "r", Obj: ch, Now: now, How: "ok"} }
	return []*Case{
		{Ops: []Op{{K: "n", IDs: []string{"dns:a.example.com", "ip:10.0.0.1"}}, ok(1, 1), ok(3, 2), {K: "o", Now: 3},
			{K: "f", Now: 4, CSR: "match"}, {K: "f", Now: 5, CSR: "match"}, {K: "l", Now: 6}, {K: "n", Now: 7, IDs: []string{"dns:b.example.com"}}, {K: "l", Now: 8}}},
		{Ops: []Op{{K: "n", IDs: []string{"dns:a.example.com"}}, ok(0, lifetime), {K: "a", Now: lifetime}, {K: "o", Now: lifetime}, {K: "o", Now: lifetime + 1},
			{K: "f", Now: lifetime + 1, CSR: "match"}}},
		{Ops: []Op{{K: "n", IDs: []string{"dns:a.example.com"}}, ok(0, lifetime + 1), {K: "a", Now: lifetime + 1}, {K: "o", Now: lifetime + 1}}},
		{Ops: []Op{{K: "n", IDs: []string{"dns:a.example.com"}}, ok(0, 5), {K: "f", Now: lifetime, CSR: "match"}}},
		{Ops: []Op{{K: "n", IDs: []string{"dns:a.example.com"}}, ok(0, 5), {K: "f", Now: lifetime + 1, CSR: "match"}, {K: "o", Now: lifetime + 2}}},
		{Ops: []Op{{K: "n", IDs: []string{"dns:a.example.com"}}, {K: "r", Obj: 1, Now: 1, How: "mismatch"}, {K: "r", Obj: 1, Now: 2, How: "ok"}, {K: "a", Now: 3}, ok(0, 4), {K: "a", Now: 5}, {K: "o", Now: 6}}},
		{Ops: []Op{{K: "n", IDs: []string{"dns:a.example.com"}}, ok(0, 1), {K: "f", Now: 2, CSR: "extra"}, {K: "f", Now: 3, CSR: "weakkey"}, {K: "f", Acct: 1, Now: 4, CSR: "match"},
			{K: "f", Now: 5, CSR: "match", Fail: true}, {K: "o", Now: 6}, {K: "f", Now: 7, CSR: "match"}}},
		// device-attest-01: honest run; response through the URL of a foreign authorization (the
		// fingerprint lands there, the order is then finalized with a key that was never attested: D15);
		// wrong key refused when the fingerprint is where it belongs; failing attestations; plain `r`
		{Ops: []Op{{K: "n", IDs: []string{"permanent-identifier:1234567"}}, {K: "r", Obj: 0, Now: 1, How: "ok"}, {K: "t", Obj: 0, Az: 0, Now: 2, How: "badsig"},
			{K: "n", Now: 3, IDs: []string{"permanent-identifier:42"}}, {K: "t", Obj: 1, Az: 1, Now: 4, How: "wrongserial"}, {K: "o", Obj: 1, Now: 5}}},
		{Ops: []Op{{K: "n", IDs: []string{"permanent-identifier:1234567"}}, {K: "t", Obj: 0, Az: 0, Now: 1, How: "ok"}, {K: "o", Now: 2},
			{K: "f", Now: 3, CSR: "match"}, {K: "f", Now: 4, CSR: "match", Key: 2}, {K: "f", Now: 4, CSR: "match", Key: 1}, {K: "t", Obj: 0, Az: 0, Now: 5, How: "ok"}}},
		{Ops: []Op{{K: "n", IDs: []string{"permanent-identifier:1234567"}}, {K: "n", Acct: 1, Now: 1, IDs: []string{"dns:a.example.com"}},
			{K: "t", Obj: 0, Az: 1, Now: 2, How: "ok"}, {K: "a", Obj: 0, Now: 3}, {K: "a", Acct: 1, Obj: 1, Now: 3}, {K: "o", Now: 4}, {K: "f", Now: 5, CSR: "match"}}},
		{Ops: []Op{{K: "n", IDs: []string{"permanent-identifier:42", "dns:a.example.com"}}, {K: "t", Obj: 0, Az: 7, Now: 1, How: "ok"}, {K: "t", Obj: 0, Az: 0, Now: 2, How: "ok", Deny: "a", DenyObj: 0},
			{K: "t", Obj: 0, Az: 0, Now: 3, How: "ok", Deny: "c", DenyObj: 0}, {K: "t", Obj: 0, Az: 0, Now: 4, How: "ok"}, {K: "r", Obj: 2, Now: 5, How: "ok"}, {K: "f", Now: 6, CSR: "match", Key: 1}}},
		// what is left of D15: two attested orders of one account, each attestation sent through the
		// other order's authorization URL: order 0 is then finalized with the key attested for order 1's identifier
		{Ops: []Op{{K: "n", IDs: []string{"permanent-identifier:1234567"}}, {K: "n", Now: 1, IDs: []string{"permanent-identifier:42"}},
			{K: "t", Obj: 0, Az: 1, Key: 1, Now: 2, How: "ok"}, {K: "t", Obj: 1, Az: 0, Key: 2, Now: 3, How: "ok"}, {K: "o", Now: 4}, {K: "o", Obj: 1, Now: 4},
			{K: "f", Now: 5, CSR: "match", Key: 1}, {K: "f", Now: 6, CSR: "match", Key: 2}, {K: "f", Obj: 1, Now: 7, CSR: "match", Key: 1}}},
		// second shape: the key recorded on an already valid authorization is replaced by an attestation for
		// another challenge of the account sent through its URL (theorem fp_overwrite_valid_historic; since e055659 that response is answered 401)
		{Ops: []Op{{K: "n", IDs: []string{"permanent-identifier:1234567"}}, {K: "t", Obj: 0, Az: 0, Key: 1, Now: 1, How: "ok"}, {K: "o", Now: 2},
			{K: "n", Now: 3, IDs: []string{"permanent-identifier:42"}}, {K: "t", Obj: 1, Az: 0, Key: 2, Now: 4, How: "ok"}, {K: "f", Now: 5, CSR: "match", Key: 1}, {K: "f", Now: 6, CSR: "match", Key: 2}}},
		// lost authorization write while the ORDER is evaluated (poll, finalize, orders list, new-order refresh)
		{Ops: []Op{{K: "n", IDs: []string{"dns:a.example.com", "dns:b.example.com"}}, ok(0, 1), ok(3, 2), {K: "o", Now: 3, Deny: "a", DenyObj: 1},
			{K: "f", Now: 4, CSR: "match", Deny: "a", DenyObj: 1}, {K: "l", Now: 5, Deny: "a", DenyObj: 0}, {K: "n", Now: 6, IDs: []string{"ip:10.0.0.1"}, Deny: "a", DenyObj: 1},
			{K: "a", Obj: 1, Now: 7, Deny: "a", DenyObj: 1}, {K: "o", Now: lifetime + 1}, {K: "a", Obj: 1, Now: lifetime + 1}}},
		{Ops: []Op{{K: "n", IDs: []string{"dns:a.example.com"}}, ok(0, 1), {K: "o", Now: 2, Deny: "o", DenyObj: 0}, {K: "f", Now: 3, CSR: "match", Deny: "o", DenyObj: 0},
			{K: "o", Now: 4}, {K: "f", Now: 5, CSR: "match", Deny: "o", DenyObj: 0}, {K: "f", Now: 6, CSR: "match"}, {K: "r", Obj: 1, Now: 7, How: "mismatch", Deny: "c", DenyObj: 1}, {K: "r", Obj: 1, Now: 8, How: "connerr", Deny: "c", DenyObj: 1}}},
		// Wire: a finished challenge is not validated again (valid then a bad token, invalid then a good one);
		// the response that makes the second challenge valid also makes the order ready; an account whose
		// only order has expired answers 500 after the challenge was stored valid
		{Ops: []Op{{K: "n", IDs: wireIDs()}, {K: "w", Obj: 0, Now: 1, How: "ok"}, {K: "w", Obj: 0, Now: 2, How: "status"}, {K: "w", Obj: 0, Now: 3, How: "garbage"},
			{K: "w", Obj: 1, Now: 4, How: "mismatch"}, {K: "w", Obj: 1, Now: 5, How: "ok"}, {K: "a", Obj: 1, Now: 6}, {K: "o", Now: 7}}},
		{Ops: []Op{{K: "n", IDs: wireIDs()}, {K: "n", Now: 1, IDs: []string{"dns:a.example.com"}}, {K: "r", Obj: 2, Now: 2, How: "ok"}, {K: "w", Obj: 1, Now: 3, How: "ok"}, {K: "w", Obj: 0, Now: 4, How: "ok"},
			{K: "l", Now: 5}, {K: "w", Obj: 0, Now: 6, How: "garbage"}, {K: "w", Acct: 1, Obj: 1, Now: 7, How: "ok"}}},
		// Wire finalization: not before both tokens are there; extra / missing URI; issued; W1: with two open Wire
		// orders the tokens of order 0's challenges are filed under order 1: order 0 ready but never finalizable,
		// order 1's own responses answer 500 (challenge valid), order 1 finalized with order 0's tokens
		{Ops: []Op{{K: "n", IDs: wireIDs()}, {K: "w", Obj: 0, Now: 1, How: "ok"}, {K: "f", Now: 2, CSR: "match"}, {K: "w", Obj: 1, Now: 3, How: "ok"}, {K: "f", Now: 4, CSR: "extra"},
			{K: "f", Now: 5, CSR: "missing"}, {K: "f", Acct: 1, Now: 6, CSR: "match"}, {K: "f", Now: 7, CSR: "match"}, {K: "f", Now: 8, CSR: "match"}, {K: "w", Obj: 1, Now: 9, How: "garbage"}}},
		{Ops: []Op{{K: "n", IDs: wireIDs()}, {K: "n", Now: 1, IDs: wireIDs()}, {K: "w", Obj: 0, Now: 2, How: "ok"}, {K: "w", Obj: 1, Now: 3, How: "ok"}, {K: "f", Now: 4, CSR: "match"},
			{K: "w", Obj: 2, Now: 5, How: "ok"}, {K: "w", Obj: 3, Now: 6, How: "ok"}, {K: "o", Obj: 1, Now: 7}, {K: "f", Obj: 1, Now: 8, CSR: "match"}, {K: "f", Now: 9, CSR: "match"}}},
		{Ops: []Op{{K: "n", IDs: wireIDs()}, {K: "w", Obj: 0, Now: lifetime + 1, How: "ok"}, {K: "w", Obj: 1, Now: lifetime + 2, How: "ok"}, {K: "o", Now: lifetime + 3}}},
		{Ops: []Op{{K: "n", IDs: wireIDs()}, {K: "w", Obj: 0, Now: 1, How: "ok", Deny: "a", DenyObj: 0}, {K: "w", Obj: 1, Now: 2, How: "ok", Deny: "o", DenyObj: 0}, {K: "w", Obj: 1, Now: 3, How: "dberr"}, {K: "o", Now: 4}}},
		// faults inside new-order: each create write in turn (3 challenges, authorization, 2 challenges, authorization,
		// order, none), then a working order whose objects are numbered after the leftovers; the index write
		{Ops: []Op{{K: "n", IDs: []string{"dns:a.example.com", "ip:10.0.0.1"}, Deny: "x", DenyObj: 0}, {K: "n", Now: 1, IDs: []string{"dns:a.example.com", "ip:10.0.0.1"}, Deny: "x", DenyObj: 2},
			{K: "n", Now: 2, IDs: []string{"dns:a.example.com", "ip:10.0.0.1"}, Deny: "x", DenyObj: 3}, {K: "n", Now: 3, IDs: []string{"dns:a.example.com", "ip:10.0.0.1"}, Deny: "x", DenyObj: 5},
			{K: "n", Now: 4, IDs: []string{"dns:a.example.com", "ip:10.0.0.1"}, Deny: "x", DenyObj: 6}, {K: "n", Now: 5, IDs: []string{"dns:a.example.com", "ip:10.0.0.1"}, Deny: "x", DenyObj: 7},
			{K: "n", Now: 6, IDs: []string{"dns:a.example.com", "ip:10.0.0.1"}, Deny: "x", DenyObj: 8}, {K: "l", Now: 7}, {K: "a", Obj: 0, Now: 8}, {K: "r", Obj: 0, Now: 9, How: "ok"}}},
		{Ops: []Op{{K: "n", IDs: []string{"dns:a.example.com"}}, {K: "n", Now: lifetime + 1, IDs: []string{"dns:b.example.com"}, Deny: "i"}, {K: "o", Now: lifetime + 2}, {K: "l", Now: lifetime + 3},
			{K: "n", Now: lifetime + 4, IDs: []string{"dns:b.example.com"}}, {K: "l", Now: lifetime + 5, Deny: "i"}, {K: "r", Obj: 2, Now: lifetime + 6, How: "ok"}, {K: "o", Obj: 1, Now: lifetime + 7},
			{K: "l", Now: lifetime + 8, Deny: "i"}, {K: "l", Now: lifetime + 9}}},
		// faults inside a Wire response: token write, index write
		{Ops: []Op{{K: "n", IDs: wireIDs()}, {K: "w", Obj: 0, Now: 1, How: "ok", Deny: "k"}, {K: "w", Obj: 0, Now: 2, How: "ok"}, {K: "w", Obj: 1, Now: 3, How: "ok", Deny: "i"}, {K: "o", Now: 4},
			{K: "f", Now: 5, CSR: "match"}}},
		{Ops: []Op{{K: "n", IDs: []string{"dns:*.example.com"}}, {K: "r", Obj: 0, Now: 1, How: "dberr"}, ok(0, 2), {K: "n", Now: 3, IDs: nil}, {K: "n", Acct: 1, Now: 3, IDs: []string{"ip:fd00::1"}},
			{K: "r", Acct: 1, Obj: 0, Now: 4, How: "ok"}, {K: "l", Acct: 0, Obj: 1, Now: 5}, {K: "o", Acct: 1, Obj: 0, Now: 6}, {K: "a", Acct: 0, Obj: 1, Now: 7}}},
	}
}

func main() {
	n := flag.Int("n", 200, "number of generated histories")
	out := flag.String("out", "", "output file (input<TAB>impl)")
	replay := flag.String("replay", "", "file of model input lines (case=… field) to re-run instead of generating")
	stage := flag.String("stage", "histories", "histories | conc (interleavings of requests on one order, see conc.go)")
	names := flag.Bool("c13", false, "stage issued of C13: also evaluate C13's predicate on every issued certificate (names of the leaf = what the order's authorizations validated); adds permanent identifiers that begin with *.")
	probe := flag.Int("probe-concurrent-finalize", 0, "not a check stage: run N rounds of two simultaneous finalize requests on one ready order and report how many orders ended with two certificates (C19 material)")
	probeMig := flag.Bool("probe-migrated-challenges", false, "not a check stage: a provisioner restricted to the two Wire challenges, before and after the migration to the admin database (observation G1)")
	flag.Parse()
	if err := setup(); err != nil {
		fmt.Fprintln(os.Stderr, "setup:", err)
		os.Exit(2)
	}
	defer ca.Close()
	defer os.RemoveAll(shmDir)
	if *probe > 0 {
		probeConcurrentFinalize(*probe)
		return
	}
	if *probeMig {
		for _, migrated := range []bool{false, true} {
			opts, _ := wireOptions()
			spec := []acmeenv.ProvSpec{{Name: rprov, Tmpl: &provisioner.ACME{Type: "ACME", Name: rprov,
				Challenges: []provisioner.ACMEChallenge{provisioner.WIREOIDC_01, provisioner.WIREDPOP_01}, Options: opts}}}
			mk := acmeenv.New
			if migrated {
				mk = acmeenv.NewMigrated
			}
			e, err := mk(spec, nil)
			if err != nil {
				fmt.Println("acmeenv:", err)
				continue
			}
			p := e.Provs[rprov]
			fmt.Printf("migrated=%v configured=%v", migrated, p.Challenges)
			for _, ct := range []provisioner.ACMEChallenge{provisioner.HTTP_01, provisioner.DNS_01, provisioner.TLS_ALPN_01, provisioner.DEVICE_ATTEST_01, provisioner.WIREOIDC_01, provisioner.WIREDPOP_01} {
				fmt.Printf(" %s=%v", ct, p.IsChallengeEnabled(context.Background(), ct))
			}
			_, werr := p.GetOptions().GetWireOptions()
			fmt.Printf(" wire-options-error=%v\n", werr)
			e.Close()
		}
		return
	}
	o, err := c.NewOut(*out)
	if err != nil {
		fmt.Fprintln(os.Stderr, err)
		os.Exit(2)
	}
	defer o.Close()
	if *replay != "" {
		if data, err := os.ReadFile(*replay); err == nil && strings.HasPrefix(strings.TrimSpace(string(data)), "conc=") {
			*stage = "conc" // ./check replays without stage arguments
		}
	}
	if *stage == "sites" || (*replay != "" && func() bool {
		data, err := os.ReadFile(*replay)
		return err == nil && strings.HasPrefix(strings.TrimSpace(string(data)), "site=")
	}()) {
		if err := runSites(o); err != nil {
			fmt.Fprintln(os.Stderr, "sites:", err)
			os.Exit(2)
		}
		return
	}
	if *replay != "" {
		if data, err := os.ReadFile(*replay); err == nil && strings.HasPrefix(strings.TrimSpace(string(data)), "aops=") {
			*stage = "router"
		}
	}
	if *stage == "router" {
		// two environments: the provisioner from ca.json, and the same provisioner served from the
		// admin database after the first enableAdmin start (ca.json -> linkedca -> provisioner)
		type envKey struct{ migrated, forceCN bool }
		envs := map[envKey]*acmeenv.Env{}
		used := map[envKey]int{}
		fresh := func(key envKey) {
			migrated := key.migrated
			if envs[key] != nil {
				envs[key].Close()
			}
			opts, err := wireOptions()
			if err != nil {
				fmt.Fprintln(os.Stderr, "wire options:", err)
				os.Exit(2)
			}
			spec := []acmeenv.ProvSpec{{Name: rprov, Tmpl: &provisioner.ACME{Type: "ACME", Name: rprov,
				Challenges:         []provisioner.ACMEChallenge{provisioner.HTTP_01, provisioner.DEVICE_ATTEST_01, provisioner.WIREOIDC_01, provisioner.WIREDPOP_01},
				AttestationFormats: []provisioner.ACMEAttestationFormat{provisioner.STEP}, AttestationRoots: attRootPEM(), Options: opts,
				ForceCN: key.forceCN}}}
			mk := acmeenv.New
			if migrated {
				mk = acmeenv.NewMigrated
			}
			e, err := mk(spec, nil)
			if err != nil {
				fmt.Fprintln(os.Stderr, "acmeenv:", err)
				os.Exit(2)
			}
			envs[key], used[key] = e, 0
		}
		emitR := func(k *RCase) {
			if *names {
				k.Names = true
			}
			key := envKey{k.Migrated, k.ForceCN}
			if envs[key] == nil || used[key] >= 40 {
				fresh(key) // a new stack now and then keeps the certificate table scan short
			}
			used[key]++
			line, impl := runRouter(envs[key], k)
			o.Case(line, impl)
		}
		defer func() {
			for _, e := range envs {
				if e != nil {
					e.Close()
				}
			}
		}()
		if *replay != "" {
			data, _ := os.ReadFile(*replay)
			for _, l := range strings.Split(string(data), "\n") {
				i := strings.Index(l, "case=x")
				if i < 0 {
					continue
				}
				h := l[i+6:]
				if j := strings.IndexAny(h, " \t"); j >= 0 {
					h = h[:j]
				}
				js, err := hex.DecodeString(h)
				if err != nil {
					continue
				}
				var k RCase
				if json.Unmarshal(js, &k) == nil && len(k.Ops) > 0 {
					emitR(&k)
				}
			}
			return
		}
		for _, k := range cornerRouter() {
			emitR(k)
		}
		r := c.NewRng(c.Seed())
		for i := 0; i < *n; i++ {
			emitR(genRouter(r.Fork()))
		}
		return
	}
	if *stage == "conc" {
		emitC := func(k *ConcCase) {
			line, impl, err := runConc(k)
			if err != nil {
				fmt.Fprintln(os.Stderr, "case skipped:", err)
				return
			}
			o.Case(line, impl)
		}
		if *replay != "" {
			data, _ := os.ReadFile(*replay)
			for _, l := range strings.Split(string(data), "\n") {
				i := strings.Index(l, "case=x")
				if i < 0 {
					continue
				}
				h := l[i+6:]
				if j := strings.IndexAny(h, " \t"); j >= 0 {
					h = h[:j]
				}
				js, err := hex.DecodeString(h)
				if err != nil {
					continue
				}
				var k ConcCase
				if json.Unmarshal(js, &k) == nil && k.Ths != "" {
					emitC(&k)
				}
			}
			return
		}
		for _, k := range cornerConc() {
			emitC(k)
		}
		r := c.NewRng(c.Seed())
		for i := 0; i < *n; i++ {
			emitC(genConc(r.Fork()))
		}
		return
	}
	emit := func(k *Case) {
		line, impl, err := runCase(k)
		if err != nil {
			fmt.Fprintln(os.Stderr, "case skipped:", err)
			return
		}
		o.Case(line, impl)
	}
	if *replay != "" {
		data, err := os.ReadFile(*replay)
		if err != nil {
			fmt.Fprintln(os.Stderr, err)
			os.Exit(2)
		}
		for _, l := range strings.Split(string(data), "\n") {
			i := strings.Index(l, "case=x")
			if i < 0 {
				continue
			}
			h := l[i+6:]
			if j := strings.IndexAny(h, " \t"); j >= 0 {
				h = h[:j]
			}
			js, err := hex.DecodeString(h)
			if err != nil {
				continue
			}
			var k Case
			if json.Unmarshal(js, &k) == nil {
				emit(&k)
			}
		}
		return
	}
	for _, k := range corner() {
		k.Names = *names
		emit(k)
	}
	if *names {
		for _, k := range cornerNames() {
			emit(k)
		}
	}
	r := c.NewRng(c.Seed())
	for i := 0; i < *n; i++ {
		k := genCase(r.Fork())
		if *names {
			k.Names = true
			// C13-F4 regression material: a permanent identifier that begins with `*.`
			for oi := range k.Ops {
				for j, id := range k.Ops[oi].IDs {
					if strings.HasPrefix(id, "permanent-identifier:") && (i+oi+j)%4 == 0 {
						k.Ops[oi].IDs[j] = "permanent-identifier:*." + strings.TrimPrefix(id, "permanent-identifier:")
					}
				}
			}
		}
		emit(k)
	}
}

// cornerNames: fixed histories for C13's end-to-end predicate
func cornerNames() []*Case {
	return []*Case{
		// C13-F4 (fixed in 77ebdfa): the attestation named 1234567, the certificate carried *.1234567
		{Names: true, Ops: []Op{{K: "n", IDs: []string{"permanent-identifier:*.1234567"}}, {K: "t", Obj: 0, Az: 0, Key: 1, Now: 1, How: "ok"}, {K: "f", Now: 2, CSR: "match", Key: 1}}},
		// C13-F2: the dns name of a mixed attested order is validated and then left out of the certificate
		{Names: true, Ops: []Op{{K: "n", IDs: []string{"permanent-identifier:42", "dns:a.example.com"}}, {K: "t", Obj: 0, Az: 0, Key: 1, Now: 1, How: "ok"}, {K: "r", Obj: 2, Now: 2, How: "ok"}, {K: "f", Now: 3, CSR: "match", Key: 1}}},
		// Wire: the leaf carries the two URIs and the display name; C13-F3 (fixed in 167bc71): handle = client id, the CSR repeats the URI
		{Names: true, Ops: []Op{{K: "n", IDs: wireIDs()}, {K: "w", Obj: 0, Now: 1, How: "ok"}, {K: "w", Obj: 1, Now: 2, How: "ok"}, {K: "f", Now: 3, CSR: "match"}}},
		{Names: true, Ops: []Op{{K: "n", IDs: wireIDs(true)}, {K: "w", Obj: 0, Now: 1, How: "ok"}, {K: "w", Obj: 1, Now: 2, How: "ok"}, {K: "f", Now: 3, CSR: "match"}}},
		{Names: true, Ops: []Op{{K: "n", IDs: []string{"dns:a.example.com", "dns:*.example.com", "ip:10.0.0.1"}}, {K: "r", Obj: 0, Now: 1, How: "ok"}, {K: "r", Obj: 3, Now: 2, How: "ok"}, {K: "r", Obj: 4, Now: 3, How: "ok"},
			{K: "f", Now: 4, CSR: "match"}}},
	}
}

func timeSeconds(n int) time.Duration { return time.Duration(n) * time.Second }

var _ = bytes.Equal
var _ = sort.Strings

// probeConcurrentFinalize is exploratory (outside C10's quantifier, which is over sequences):
// DB.UpdateOrder re-reads the record and swaps against what it just read, so two finalize
// requests that both loaded the order while ready both sign and both store a certificate.
func probeConcurrentFinalize(rounds int) {
	double := 0
	for i := 0; i < rounds; i++ {
		dir, _ := os.MkdirTemp(shmDir, "p")
		w, err := newWorld(dir)
		if err != nil {
			fmt.Fprintln(os.Stderr, err)
			return
		}
		prev := "/-//"
		for _, op := range []Op{{K: "n", IDs: []string{"dns:a.example.com"}}, {K: "r", Obj: 0, Now: 1, How: "ok"}, {K: "o", Now: 2}} {
			_, _, prev, _ = w.exec(op, prev)
		}
		_, der, _ := w.csr(0, "match", 0)
		payload, _ := json.Marshal(map[string]string{"csr": base64.RawURLEncoding.EncodeToString(der)})
		done := make(chan int, 2)
		for g := 0; g < 2; g++ {
			go func() {
				code, _, _ := call(acmeapi.FinalizeOrder, w.ctx(0, payload, &client{}, map[string]string{"ordID": w.orders[0]}))
				done <- code
			}()
		}
		c1, c2 := <-done, <-done
		entries, _ := w.raw.List([]byte("acme_certs"))
		if len(entries) > 1 {
			double++
			if double == 1 {
				fmt.Printf("round %d: responses %d and %d, certificates stored for the order: %d\n", i, c1, c2, len(entries))
			}
		}
		w.raw.Close()
		os.RemoveAll(dir)
	}
	fmt.Printf("concurrent finalize: %d of %d rounds ended with two certificates for one order\n", double, rounds)
}
