package main

// Wire (wire-oidc-01 / wire-dpop-01) in the histories: the provisioner's Wire options, a local
// identity provider (JWKS over an in-process httptest server) and the client side of the two
// challenges: a real ID token resp. access token + DPoP proof built with go-jose, or one that does
// not verify. What the validators check in these tokens is C11; here only the verdict matters.

import (
	"encoding/json"
	"encoding/pem"
	"net/http"
	"net/http/httptest"
	"time"

	"go.step.sm/crypto/jose"
	"go.step.sm/crypto/pemutil"

	"github.com/smallstep/certificates/acme"
	wireid "github.com/smallstep/certificates/acme/wire"
	"github.com/smallstep/certificates/authority/provisioner"
	wireprov "github.com/smallstep/certificates/authority/provisioner/wire"
)

const (
	wireClientID = "wireapp://CzbfFjDOQrenCbDxVmgnFw!594930e9d50bb175@wire.com"
	wireHandle   = "wireapp://%40alice_wire@wire.com"
	wireName     = "Alice Smith"
	wireDomain   = "wire.com"
	wireIssuer   = "http://wire.verif.test/clients/594930e9d50bb175/access-token"
	wireSameURI  = "wireapp://samesame!d0d0d0d0@wire.com"
)

var (
	privKeys   [2]*jose.JSONWebKey // the accounts' private keys (the DPoP proof is signed with them)
	wireServer *jose.JSONWebKey    // signs access tokens
	wireOther  *jose.JSONWebKey    // an unknown key
	idpKey     *jose.JSONWebKey    // signs ID tokens
	idpSrv     *httptest.Server
)

func genKey() (*jose.JSONWebKey, error) {
	k, err := jose.GenerateJWK("EC", "P-256", "ES256", "sig", "", 0)
	if err != nil {
		return nil, err
	}
	pub := k.Public()
	if k.KeyID, err = acme.KeyToID(&pub); err != nil {
		return nil, err
	}
	return k, nil
}

// initWire starts the identity provider and returns the provisioner options.
func initWire() (*provisioner.Options, error) {
	var err error
	if wireServer, err = genKey(); err != nil {
		return nil, err
	}
	if wireOther, err = genKey(); err != nil {
		return nil, err
	}
	if idpKey, err = genKey(); err != nil {
		return nil, err
	}
	idpSrv = httptest.NewServer(http.HandlerFunc(func(w http.ResponseWriter, r *http.Request) {
		_ = json.NewEncoder(w).Encode(jose.JSONWebKeySet{Keys: []jose.JSONWebKey{idpKey.Public()}})
	}))
	return wireOptions()
}

// wireOptions: a fresh options value (a provisioner initialises it in place)
func wireOptions() (*provisioner.Options, error) {
	blk, err := pemutil.Serialize(wireServer.Public().Key)
	if err != nil {
		return nil, err
	}
	return &provisioner.Options{Wire: &wireprov.Options{
		OIDC: &wireprov.OIDCOptions{
			Provider: &wireprov.Provider{IssuerURL: idpSrv.URL, JWKSURL: idpSrv.URL + "/keys", Algorithms: []string{"ES256"}},
			Config:   &wireprov.Config{ClientID: "wireapp", SignatureAlgorithms: []string{"ES256"}, Now: time.Now},
		},
		DPOP: &wireprov.DPOPOptions{SigningKey: pem.EncodeToMemory(blk), Target: "http://wire.verif.test/clients/{{.DeviceID}}/access-token"},
	}}, nil
}

// the two identifiers of a Wire order; same: the user's handle is the device's client id (an
// identity provider may issue that; C13-F3)
func wireIDs(same ...bool) []string {
	handle, client := wireHandle, wireClientID
	if len(same) > 0 && same[0] {
		handle, client = wireSameURI, wireSameURI
	}
	u, _ := json.Marshal(wireid.UserID{Name: wireName, Domain: wireDomain, Handle: handle})
	d, _ := json.Marshal(wireid.DeviceID{Name: wireName, Domain: wireDomain, ClientID: client, Handle: handle})
	return []string{"wireapp-user:" + string(u), "wireapp-device:" + string(d)}
}

// wireFacts: what the tokens for a Wire challenge value have to say
func wireFacts(typ acme.ChallengeType, value string) (name, handle, client, issuer string) {
	name, handle, client = wireName, wireHandle, wireClientID
	if typ == acme.WIREOIDC01 {
		if id, err := wireid.ParseUserID(value); err == nil {
			name, handle = id.Name, id.Handle
		}
	} else if id, err := wireid.ParseDeviceID(value); err == nil {
		name, handle, client = id.Name, id.Handle, id.ClientID
	}
	issuer = wireIssuer
	if c, err := wireid.ParseClientID(client); err == nil {
		issuer = "http://wire.verif.test/clients/" + c.DeviceID + "/access-token"
	}
	return
}

func isWire(t acme.ChallengeType) bool { return t == acme.WIREOIDC01 || t == acme.WIREDPOP01 }

func signJWS(key *jose.JSONWebKey, claims map[string]interface{}) (string, error) {
	signer, err := jose.NewSigner(jose.SigningKey{Algorithm: jose.SignatureAlgorithm(key.Algorithm), Key: key}, new(jose.SignerOptions))
	if err != nil {
		return "", err
	}
	b, _ := json.Marshal(claims)
	obj, err := signer.Sign(b)
	if err != nil {
		return "", err
	}
	return obj.CompactSerialize()
}

// wirePayload builds the client's answer to a Wire challenge of account acct. how: "ok" a token
// that verifies (acc: the account's private key with its key id); "mismatch": well-formed and well-signed, but for another challenge token;
// "status": signed by an unknown key; anything else: not a JWS.
func wirePayload(typ acme.ChallengeType, how string, acc *jose.JSONWebKey, value, token, audience string) ([]byte, error) {
	wireName, wireHandle, wireClientID, wireIssuer := wireFacts(typ, value)
	now := time.Now()
	exp, iat := now.Add(5*time.Minute).Unix(), now.Add(-30*time.Second).Unix()
	chal := token
	if how == "mismatch" {
		chal = "bm90VGhlVG9rZW5PZlRoaXNDaGFsbGVuZ2U"
	}
	var tok string
	var err error
	field := "id_token"
	if typ == acme.WIREOIDC01 {
		pub := acc.Public()
		ka, kerr := acme.KeyAuthorization(chal, &pub)
		if kerr != nil {
			return nil, kerr
		}
		key := idpKey
		if how == "status" {
			key = &jose.JSONWebKey{Key: wireOther.Key, KeyID: idpKey.KeyID, Algorithm: "ES256", Use: "sig"}
		}
		tok, err = signJWS(key, map[string]interface{}{"iss": idpSrv.URL, "aud": "wireapp", "sub": "alice", "exp": exp, "iat": iat,
			"name": wireName, "preferred_username": wireHandle, "keyauth": ka, "acme_aud": audience})
	} else {
		field = "access_token"
		var proof string
		proof, err = signJWS(acc, map[string]interface{}{"sub": wireClientID, "aud": []string{audience}, "exp": exp, "iat": iat,
			"chal": chal, "handle": wireHandle, "nonce": "n0nce-" + token, "htu": wireIssuer, "name": wireName})
		if err != nil {
			return nil, err
		}
		key := wireServer
		if how == "status" {
			key = &jose.JSONWebKey{Key: wireOther.Key, KeyID: wireServer.KeyID, Algorithm: "ES256", Use: "sig"}
		}
		tok, err = signJWS(key, map[string]interface{}{"iss": wireIssuer, "aud": []string{audience}, "exp": exp, "iat": iat,
			"chal": chal, "nonce": "n0nce-" + token, "cnf": map[string]string{"kid": acc.KeyID}, "proof": proof,
			"client_id": wireClientID, "api_version": 5, "scope": "wire_client_id"})
	}
	if err != nil {
		return nil, err
	}
	switch how {
	case "ok", "mismatch", "status", "dberr":
	default:
		tok = "not.a.jws"
	}
	return json.Marshal(map[string]string{field: tok})
}
