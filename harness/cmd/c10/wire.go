package main

// Wire (wire-oidc-01 / wire-dpop-01) in the histories: the provisioner's Wire options, a local
// identity provider (JWKS over an in-process httptest server) and the client side of the two
// challenges: a real ID token resp. access token + DPoP proof built with go-jose, or one that does
// not verify. What the validators check in these tokens is C11; here only the verdict matters.

import (
	"encoding/json"
	"encoding/pem"
	"net/http"
	"net/http/httptest"
	"time"

	"go.step.sm/crypto/jose"
	"go.step.sm/crypto/pemutil"

	"github.com/smallstep/certificates/acme"
	wireid "github.com/smallstep/certificates/acme/wire"
	"github.com/smallstep/certificates/authority/provisioner"
	wireprov "github.com/smallstep/certificates/authority/provisioner/wire"
)

const (
	wireClientID = "wireapp://CzbfFjDOQrenCbDxVmgnFw!594930e9d50bb175@wire.com"
	wireHandle   = "wireapp://%40alice_wire@wire.com"
	wireName     = "Alice Smith"
	wireDomain   = "wire.com"
	wireIssuer   = "http://wire.verif.test/clients/594930e9d50bb175/access-token"
)

var (
	privKeys   [2]*jose.JSONWebKey // the accounts' private keys (the DPoP proof is signed with them)
	wireServer *jose.JSONWebKey    // signs access tokens
	wireOther  *jose.JSONWebKey    // an unknown key
	idpKey     *jose.JSONWebKey    // signs ID tokens
	idpSrv     *httptest.Server
)

func genKey() (*jose.JSONWebKey, error) {
	k, err := jose.GenerateJWK("EC", "P-256", "ES256", "sig", "", 0)
	if err != nil {
		return nil, err
	}
	pub := k.Public()
	if k.KeyID, err = acme.KeyToID(&pub); err != nil {
		return nil, err
	}
	return k, nil
}

// initWire starts the identity provider and returns the provisioner options.
func initWire() (*provisioner.Options, error) {
	var err error
	if wireServer, err = genKey(); err != nil {
		return nil, err
	}
	if wireOther, err = genKey(); err != nil {
		return nil, err
	}
	if idpKey, err = genKey(); err != nil {
		return nil, err
	}
	idpSrv = httptest.NewServer(http.HandlerFunc(func(w http.ResponseWriter, r *http.Request) {
		_ = json.NewEncoder(w).Encode(jose.JSONWebKeySet{Keys: []jose.JSONWebKey{idpKey.Public()}})
	}))
	blk, err := pemutil.Serialize(wireServer.Public().Key)
	if err != nil {
		return nil, err
	}
	return &provisioner.Options{Wire: &wireprov.Options{
		OIDC: &wireprov.OIDCOptions{
			Provider: &wireprov.Provider{IssuerURL: idpSrv.URL, JWKSURL: idpSrv.URL + "/keys", Algorithms: []string{"ES256"}},
			Config:   &wireprov.Config{ClientID: "wireapp", SignatureAlgorithms: []string{"ES256"}, Now: time.Now},
		},
		DPOP: &wireprov.DPOPOptions{SigningKey: pem.EncodeToMemory(blk), Target: "http://wire.verif.test/clients/{{.DeviceID}}/access-token"},
	}}, nil
}

// the two identifiers of a Wire order
func wireIDs() []string {
	u, _ := json.Marshal(wireid.UserID{Name: wireName, Domain: wireDomain, Handle: wireHandle})
	d, _ := json.Marshal(wireid.DeviceID{Name: wireName, Domain: wireDomain, ClientID: wireClientID, Handle: wireHandle})
	return []string{"wireapp-user:" + string(u), "wireapp-device:" + string(d)}
}

func isWire(t acme.ChallengeType) bool { return t == acme.WIREOIDC01 || t == acme.WIREDPOP01 }

func signJWS(key *jose.JSONWebKey, claims map[string]interface{}) (string, error) {
	signer, err := jose.NewSigner(jose.SigningKey{Algorithm: jose.SignatureAlgorithm(key.Algorithm), Key: key}, new(jose.SignerOptions))
	if err != nil {
		return "", err
	}
	b, _ := json.Marshal(claims)
	obj, err := signer.Sign(b)
	if err != nil {
		return "", err
	}
	return obj.CompactSerialize()
}

// wirePayload builds the client's answer to a Wire challenge of account acct. how: "ok" a token
// that verifies; "mismatch": well-formed and well-signed, but for another challenge token;
// "status": signed by an unknown key; anything else: not a JWS.
func wirePayload(typ acme.ChallengeType, how string, acct int, token, audience string) ([]byte, error) {
	now := time.Now()
	exp, iat := now.Add(5*time.Minute).Unix(), now.Add(-30*time.Second).Unix()
	chal := token
	if how == "mismatch" {
		chal = "bm90VGhlVG9rZW5PZlRoaXNDaGFsbGVuZ2U"
	}
	acc := privKeys[acct]
	var tok string
	var err error
	field := "id_token"
	if typ == acme.WIREOIDC01 {
		pub := acc.Public()
		ka, kerr := acme.KeyAuthorization(chal, &pub)
		if kerr != nil {
			return nil, kerr
		}
		key := idpKey
		if how == "status" {
			key = &jose.JSONWebKey{Key: wireOther.Key, KeyID: idpKey.KeyID, Algorithm: "ES256", Use: "sig"}
		}
		tok, err = signJWS(key, map[string]interface{}{"iss": idpSrv.URL, "aud": "wireapp", "sub": "alice", "exp": exp, "iat": iat,
			"name": wireName, "preferred_username": wireHandle, "keyauth": ka, "acme_aud": audience})
	} else {
		field = "access_token"
		var proof string
		proof, err = signJWS(acc, map[string]interface{}{"sub": wireClientID, "aud": []string{audience}, "exp": exp, "iat": iat,
			"chal": chal, "handle": wireHandle, "nonce": "n0nce-" + token, "htu": wireIssuer, "name": wireName})
		if err != nil {
			return nil, err
		}
		key := wireServer
		if how == "status" {
			key = &jose.JSONWebKey{Key: wireOther.Key, KeyID: wireServer.KeyID, Algorithm: "ES256", Use: "sig"}
		}
		tok, err = signJWS(key, map[string]interface{}{"iss": wireIssuer, "aud": []string{audience}, "exp": exp, "iat": iat,
			"chal": chal, "nonce": "n0nce-" + token, "cnf": map[string]string{"kid": acc.KeyID}, "proof": proof,
			"client_id": wireClientID, "api_version": 5, "scope": "wire_client_id"})
	}
	if err != nil {
		return nil, err
	}
	switch how {
	case "ok", "mismatch", "status", "dberr":
	default:
		tok = "not.a.jws"
	}
	return json.Marshal(map[string]string{field: tok})
}
