package main

import (
	"bytes"
	"errors"
	"regexp"
	"time"

	"github.com/smallstep/nosql"
	"github.com/smallstep/nosql/database"
)

// shiftDB wraps the real nosql.DB the ACME store runs on.
//
// Time. The acme packages read the wall clock through an unexported value type (acme.Clock)
// that a hook cannot replace, and use it in two ways only: `now.After(x.ExpiresAt)` and
// `ExpiresAt = now + 24h`. Both are invariant under a common translation of `now` and of the
// stored ExpiresAt values, so instead of moving the clock forward by `off` the wrapper presents
// every stored `expiresAt` of the order and authorization tables moved back by `off`
// (and moves written values forward again). The underlying file always holds virtual times.
// `off` is fixed per request by the harness, which also checks that the wall-clock second did
// not change while the request ran.
//
// Faults. Two one-shot storage faults: the compare-and-swap that writes status "valid" into an
// order, and any compare-and-swap on the challenge table; and, for the duration of one request,
// the failure of every update write of one chosen record (denyTbl/denyKey), of the k-th create write
// of a challenge / authorization / order, of the order index write, of the Wire token write.
type shiftDB struct {
	nosql.DB
	off            time.Duration
	failOrderValid bool
	failChallenge  bool
	// while set: every compare-and-swap of this existing record fails
	denyTbl, denyKey []byte
	// createFail >= 0: the createFail-th (from 0) create write of a challenge / authorization / order of
	// this request fails; creates counts them, created logs the ones that were stored, in order
	createFail, creates int
	created             []createdKey
	denyIndex           bool // the write of an account's order index fails
	denyToken           bool // the write of a Wire token fails
}

type createdKey struct{ tbl, key string }

var (
	reExpires  = regexp.MustCompile(`"expiresAt":"([^"]+)"`)
	orderTbl   = []byte("acme_orders")
	authzTbl   = []byte("acme_authzs")
	chalTbl    = []byte("acme_challenges")
	indexTbl   = []byte("acme_account_orders_index")
	oidcTbl    = []byte("wire_acme_oidc_token")
	dpopTbl    = []byte("wire_acme_dpop_token")
	errInject  = errors.New("injected storage fault")
	validBytes = []byte(`"status":"valid"`)
)

func shifted(bucket []byte) bool { return bytes.Equal(bucket, orderTbl) || bytes.Equal(bucket, authzTbl) }

func shift(v []byte, d time.Duration) []byte {
	if v == nil || d == 0 {
		return v
	}
	return reExpires.ReplaceAllFunc(v, func(m []byte) []byte {
		sub := reExpires.FindSubmatch(m)
		t, err := time.Parse(time.RFC3339Nano, string(sub[1]))
		if err != nil {
			return m
		}
		return []byte(`"expiresAt":"` + t.Add(d).Format(time.RFC3339Nano) + `"`)
	})
}

func (s *shiftDB) Get(bucket, key []byte) ([]byte, error) {
	v, err := s.DB.Get(bucket, key)
	if err == nil && shifted(bucket) {
		v = shift(v, -s.off)
	}
	return v, err
}

func (s *shiftDB) Set(bucket, key, value []byte) error {
	if shifted(bucket) {
		value = shift(value, s.off)
	}
	return s.DB.Set(bucket, key, value)
}

func (s *shiftDB) CmpAndSwap(bucket, key, oldValue, newValue []byte) ([]byte, bool, error) {
	if s.denyTbl != nil && oldValue != nil && bytes.Equal(bucket, s.denyTbl) && bytes.Equal(key, s.denyKey) {
		return nil, false, errInject
	}
	if s.denyIndex && bytes.Equal(bucket, indexTbl) {
		return nil, false, errInject
	}
	if s.denyToken && (bytes.Equal(bucket, oidcTbl) || bytes.Equal(bucket, dpopTbl)) {
		return nil, false, errInject
	}
	isCreate := oldValue == nil && (bytes.Equal(bucket, chalTbl) || bytes.Equal(bucket, authzTbl) || bytes.Equal(bucket, orderTbl))
	if isCreate {
		n := s.creates
		s.creates++
		if s.createFail >= 0 && n == s.createFail {
			return nil, false, errInject
		}
	}
	if s.failChallenge && bytes.Equal(bucket, chalTbl) && oldValue != nil {
		s.failChallenge = false
		return nil, false, errInject
	}
	if s.failOrderValid && bytes.Equal(bucket, orderTbl) && bytes.Contains(newValue, validBytes) {
		s.failOrderValid = false
		return nil, false, errInject
	}
	if shifted(bucket) {
		oldValue, newValue = shift(oldValue, s.off), shift(newValue, s.off)
	}
	v, ok, err := s.DB.CmpAndSwap(bucket, key, oldValue, newValue)
	if isCreate && err == nil && ok {
		s.created = append(s.created, createdKey{string(bucket), string(key)})
	}
	if shifted(bucket) {
		v = shift(v, -s.off)
	}
	return v, ok, err
}

func (s *shiftDB) List(bucket []byte) ([]*database.Entry, error) {
	es, err := s.DB.List(bucket)
	if err == nil && shifted(bucket) {
		for _, e := range es {
			e.Value = shift(e.Value, -s.off)
		}
	}
	return es, err
}
