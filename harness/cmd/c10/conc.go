package main

import (
	"bytes"
	"context"
	"encoding/base64"
	"encoding/hex"
	"encoding/json"
	"fmt"
	"os"
	"strings"

	"github.com/smallstep/nosql/database"

	"github.com/smallstep/certificates/acme"
	acmeapi "github.com/smallstep/certificates/acme/api"
	acmenosql "github.com/smallstep/certificates/acme/db/nosql"
	c "verif/harness/common"
)

// Stage "conc": the interleavings of Verif.AcmeConc replayed on the real handlers and store.
//
// Every request (a finalization, or an order poll made after the expiry) runs in its own
// goroutine on its own view of the one bbolt database; the view stops the goroutine before each
// database call that is an atomic step of the model (load of the order, CreateCertificate,
// UpdateOrder's re-read, UpdateOrder's compare-and-swap) and lets it continue only when the
// schedule names it. After every step the stored order status is read back.

type ConcCase struct {
	Ths   string // e.g. "ff", "fp", "ffp"
	Sched []int
}

var certTbl = []byte("acme_certs")

type thread struct {
	arrive chan bool // true = finished
	cont   chan struct{}
	done   bool
}

func (t *thread) gate() {
	t.arrive <- false
	<-t.cont
}

// gateDB is one request's view of the store: its own clock offset, and the gates.
type gateDB struct {
	*shiftDB
	th *thread
}

func (g *gateDB) Get(bucket, key []byte) ([]byte, error) {
	if bytes.Equal(bucket, orderTbl) {
		g.th.gate()
	}
	return g.shiftDB.Get(bucket, key)
}

func (g *gateDB) CmpAndSwap(bucket, key, oldValue, newValue []byte) ([]byte, bool, error) {
	if (bytes.Equal(bucket, orderTbl) && oldValue != nil) || bytes.Equal(bucket, certTbl) {
		g.th.gate()
	}
	return g.shiftDB.CmpAndSwap(bucket, key, oldValue, newValue)
}

func (g *gateDB) List(bucket []byte) ([]*database.Entry, error) { return g.shiftDB.List(bucket) }

func runConc(k *ConcCase) (line, out string, err error) {
	js, _ := json.Marshal(k)
	dir, err := os.MkdirTemp(shmDir, "c")
	if err != nil {
		return "", "", err
	}
	defer os.RemoveAll(dir)
	w, err := newWorld(dir)
	if err != nil {
		return "", "", err
	}
	defer w.raw.Close()
	prev := "/-//"
	for _, op := range []Op{{K: "n", IDs: []string{"dns:a.example.com"}}, {K: "r", Obj: 0, Now: 1, How: "ok"}, {K: "o", Now: 2}} {
		_, _, prev, _ = w.exec(op, prev)
	}
	if !strings.HasPrefix(prev, "r/") {
		return "", "", fmt.Errorf("order not ready: %s", prev)
	}
	_, der, _ := w.csr(0, "match", 0)
	payload, _ := json.Marshal(map[string]string{"csr": base64.RawURLEncoding.EncodeToString(der)})
	ths := make([]*thread, len(k.Ths))
	for i, kind := range k.Ths {
		th := &thread{arrive: make(chan bool), cont: make(chan struct{})}
		ths[i] = th
		// finalizations run before the expiry, polls one second after it
		now := 10
		if kind == 'p' {
			now = lifetime + 1
		}
		sh := &shiftDB{DB: w.raw, off: w.sh.off + timeSeconds(now-2), createFail: -1}
		db, derr := acmenosql.New(&gateDB{shiftDB: sh, th: th})
		if derr != nil {
			return "", "", derr
		}
		go func(kind rune) {
			ctx := w.ctx(0, payload, &client{}, map[string]string{"ordID": w.orders[0]})
			ctx = acme.NewDatabaseContext(ctx, db)
			if kind == 'p' {
				ctx = w.ctx(0, nil, &client{}, map[string]string{"ordID": w.orders[0]})
				ctx = acme.NewDatabaseContext(ctx, db)
				call(acmeapi.GetOrder, ctx)
			} else {
				call(acmeapi.FinalizeOrder, ctx)
			}
			th.arrive <- true
		}(kind)
		th.done = <-th.arrive // now waiting at its first gate (the load)
	}
	var trace strings.Builder
	bg := context.Background()
	for _, i := range k.Sched {
		if i >= 0 && i < len(ths) && !ths[i].done {
			ths[i].cont <- struct{}{}
			ths[i].done = <-ths[i].arrive
		}
		o, gerr := w.db.GetOrder(bg, w.orders[0])
		if gerr != nil {
			trace.WriteString("!")
		} else {
			trace.WriteString(st(o.Status))
		}
	}
	for _, th := range ths { // let unfinished requests run to completion (incomplete schedules)
		for !th.done {
			th.cont <- struct{}{}
			th.done = <-th.arrive
		}
	}
	certs := 0
	if entries, lerr := w.raw.List(certTbl); lerr == nil {
		certs = len(entries)
	}
	sched := make([]string, len(k.Sched))
	for i, s := range k.Sched {
		sched[i] = fmt.Sprint(s)
	}
	kinds := strings.Split(k.Ths, "")
	line = fmt.Sprintf("conc=reread ths=%s sched=%s case=x%s", strings.Join(kinds, "."), strings.Join(sched, "."), hex.EncodeToString(js))
	return line, fmt.Sprintf("conc%d:%s", certs, trace.String()), nil
}

func genConc(r *c.Rng) *ConcCase {
	k := &ConcCase{Ths: c.Pick(r, []string{"ff", "ff", "fp", "pf", "ffp", "fff", "fpp"})}
	var pool []int
	for i, kind := range k.Ths {
		n := 4
		if kind == 'p' {
			n = 3
		}
		for j := 0; j < n; j++ {
			pool = append(pool, i)
		}
	}
	for i := len(pool) - 1; i > 0; i-- {
		j := r.Intn(i + 1)
		pool[i], pool[j] = pool[j], pool[i]
	}
	k.Sched = pool
	return k
}

func cornerConc() []*ConcCase {
	return []*ConcCase{
		{Ths: "ff", Sched: []int{0, 1, 0, 1, 0, 0, 1, 1}}, // conc_double_issue
		{Ths: "fp", Sched: []int{0, 1, 0, 0, 0, 1, 1}},    // conc_terminal_overwritten: valid -> invalid
		{Ths: "fp", Sched: []int{0, 1, 1, 1, 0, 0, 0}},    // invalid -> valid
		{Ths: "ff", Sched: []int{0, 0, 0, 0, 1, 1, 1, 1}}, // sequential: one certificate
	}
}
