package main

import (
	"bytes"
	"context"
	"encoding/base64"
	"encoding/hex"
	"encoding/json"
	"fmt"
	"os"
	"strings"

	"github.com/smallstep/nosql/database"

	"github.com/smallstep/certificates/acme"
	acmeapi "github.com/smallstep/certificates/acme/api"
	acmenosql "github.com/smallstep/certificates/acme/db/nosql"
	c "verif/harness/common"
)

// Stage "conc": the interleavings of Verif.AcmeConc replayed on the real handlers and store.
//
// Every request (a finalization, or an order poll made after the expiry) runs in its own
// goroutine on its own view of the one bbolt database; the view stops the goroutine before each
// database call that is an atomic step of the model (load of the order, CreateCertificate,
// UpdateOrder's re-read, UpdateOrder's compare-and-swap) and lets it continue only when the
// schedule names it. After every step the stored order status is read back, and once more after
// all requests have returned.

type ConcCase struct {
	Ths   string // e.g. "ff", "fp", "ffp"; Chal: responses "s" (proof in place), "t" (transient error), "j" (wrong proof)
	Sched []int
	// simultaneous responses to one pending http-01 challenge instead of requests on one ready order
	Chal bool `json:",omitempty"`
}

var certTbl = []byte("acme_certs")

type thread struct {
	arrive chan bool // true = finished
	cont   chan struct{}
	done   bool
}

func (t *thread) gate() {
	t.arrive <- false
	<-t.cont
}

// gateDB is one request's view of the store: its own clock offset, and the gates.
type gateDB struct {
	*shiftDB
	th  *thread
	tbl []byte // the table of the contended record (nil: orders)
}

func (g *gateDB) table() []byte {
	if g.tbl != nil {
		return g.tbl
	}
	return orderTbl
}

func (g *gateDB) Get(bucket, key []byte) ([]byte, error) {
	if bytes.Equal(bucket, g.table()) {
		g.th.gate()
	}
	return g.shiftDB.Get(bucket, key)
}

func (g *gateDB) CmpAndSwap(bucket, key, oldValue, newValue []byte) ([]byte, bool, error) {
	if (bytes.Equal(bucket, g.table()) && oldValue != nil) || (g.tbl == nil && bytes.Equal(bucket, certTbl)) {
		g.th.gate()
	}
	return g.shiftDB.CmpAndSwap(bucket, key, oldValue, newValue)
}

// every write of the contended record is a step, however it is made
func (g *gateDB) Set(bucket, key, value []byte) error {
	if bytes.Equal(bucket, g.table()) {
		g.th.gate()
	}
	return g.shiftDB.Set(bucket, key, value)
}

func (g *gateDB) List(bucket []byte) ([]*database.Entry, error) { return g.shiftDB.List(bucket) }

// runConcChal: simultaneous responses to one pending http-01 challenge
func runConcChal(k *ConcCase) (line, out string, err error) {
	js, _ := json.Marshal(k)
	dir, err := os.MkdirTemp(shmDir, "c")
	if err != nil {
		return "", "", err
	}
	defer os.RemoveAll(dir)
	w, err := newWorld(dir)
	if err != nil {
		return "", "", err
	}
	defer w.raw.Close()
	if _, _, _, eerr := w.exec(Op{K: "n", IDs: []string{"dns:a.example.com"}}, "/-//"); eerr != nil && eerr != errTick {
		return "", "", eerr
	}
	ci := -1
	for i, t := range w.chTyp {
		if t == acme.HTTP01 {
			ci = i
		}
	}
	if ci < 0 || len(w.authzs) == 0 {
		return "", "", fmt.Errorf("no http-01 challenge")
	}
	bg := context.Background()
	x, gerr := w.db.GetChallenge(bg, w.chals[ci], "")
	if gerr != nil {
		return "", "", gerr
	}
	keyAuth, _ := acme.KeyAuthorization(x.Token, w.accs[0].Key)
	ths := make([]*thread, len(k.Ths))
	for i, kind := range k.Ths {
		th := &thread{arrive: make(chan bool), cont: make(chan struct{})}
		ths[i] = th
		sh := &shiftDB{DB: w.raw, off: w.sh.off, createFail: -1}
		db, derr := acmenosql.New(&gateDB{shiftDB: sh, th: th, tbl: chalTbl})
		if derr != nil {
			return "", "", derr
		}
		how := map[rune]string{'s': "ok", 't': "connerr", 'j': "mismatch"}[kind]
		go func() {
			ctx := w.ctx(0, []byte("{}"), &client{how: how, keyAuth: keyAuth}, map[string]string{"chID": w.chals[ci], "authzID": w.authzs[0]})
			ctx = acme.NewDatabaseContext(ctx, db)
			call(acmeapi.GetChallenge, ctx)
			th.arrive <- true
		}()
		th.done = <-th.arrive
	}
	read := func() string {
		c, cerr := w.db.GetChallenge(bg, w.chals[ci], "")
		if cerr != nil {
			return "!"
		}
		return st(c.Status)
	}
	var trace strings.Builder
	for _, i := range k.Sched {
		if i >= 0 && i < len(ths) && !ths[i].done {
			ths[i].cont <- struct{}{}
			ths[i].done = <-ths[i].arrive
		}
		trace.WriteString(read())
	}
	for _, th := range ths {
		for !th.done {
			th.cont <- struct{}{}
			th.done = <-th.arrive
		}
	}
	sched := make([]string, len(k.Sched))
	for i, s := range k.Sched {
		sched[i] = fmt.Sprint(s)
	}
	line = fmt.Sprintf("conc=chal ths=%s sched=%s case=x%s", strings.Join(strings.Split(k.Ths, ""), "."), strings.Join(sched, "."), hex.EncodeToString(js))
	return line, fmt.Sprintf("cconc:%s=%s", trace.String(), read()), nil
}

func runConc(k *ConcCase) (line, out string, err error) {
	if k.Chal {
		return runConcChal(k)
	}
	js, _ := json.Marshal(k)
	dir, err := os.MkdirTemp(shmDir, "c")
	if err != nil {
		return "", "", err
	}
	defer os.RemoveAll(dir)
	w, err := newWorld(dir)
	if err != nil {
		return "", "", err
	}
	defer w.raw.Close()
	prev := "/-//"
	for _, op := range []Op{{K: "n", IDs: []string{"dns:a.example.com"}}, {K: "r", Obj: 0, Now: 1, How: "ok"}, {K: "o", Now: 2}} {
		_, _, prev, _ = w.exec(op, prev)
	}
	if !strings.HasPrefix(prev, "r/") {
		return "", "", fmt.Errorf("order not ready: %s", prev)
	}
	_, der, _ := w.csr(0, "match", 0)
	payload, _ := json.Marshal(map[string]string{"csr": base64.RawURLEncoding.EncodeToString(der)})
	ths := make([]*thread, len(k.Ths))
	for i, kind := range k.Ths {
		th := &thread{arrive: make(chan bool), cont: make(chan struct{})}
		ths[i] = th
		// finalizations run before the expiry, polls one second after it
		now := 10
		if kind == 'p' {
			now = lifetime + 1
		}
		sh := &shiftDB{DB: w.raw, off: w.sh.off + timeSeconds(now-2), createFail: -1}
		db, derr := acmenosql.New(&gateDB{shiftDB: sh, th: th})
		if derr != nil {
			return "", "", derr
		}
		go func(kind rune) {
			ctx := w.ctx(0, payload, &client{}, map[string]string{"ordID": w.orders[0]})
			ctx = acme.NewDatabaseContext(ctx, db)
			if kind == 'p' {
				ctx = w.ctx(0, nil, &client{}, map[string]string{"ordID": w.orders[0]})
				ctx = acme.NewDatabaseContext(ctx, db)
				call(acmeapi.GetOrder, ctx)
			} else {
				call(acmeapi.FinalizeOrder, ctx)
			}
			th.arrive <- true
		}(kind)
		th.done = <-th.arrive // now waiting at its first gate (the load)
	}
	var trace strings.Builder
	bg := context.Background()
	for _, i := range k.Sched {
		if i >= 0 && i < len(ths) && !ths[i].done {
			ths[i].cont <- struct{}{}
			ths[i].done = <-ths[i].arrive
		}
		o, gerr := w.db.GetOrder(bg, w.orders[0])
		if gerr != nil {
			trace.WriteString("!")
		} else {
			trace.WriteString(st(o.Status))
		}
	}
	for _, th := range ths { // let unfinished requests run to completion (incomplete schedules)
		for !th.done {
			th.cont <- struct{}{}
			th.done = <-th.arrive
		}
	}
	// what is stored once every request has returned (a request may make database calls the model
	// has no step for, e.g. a retry: they run here)
	final := "!"
	if o, gerr := w.db.GetOrder(bg, w.orders[0]); gerr == nil {
		final = st(o.Status)
	}
	certs := 0
	if entries, lerr := w.raw.List(certTbl); lerr == nil {
		certs = len(entries)
	}
	sched := make([]string, len(k.Sched))
	for i, s := range k.Sched {
		sched[i] = fmt.Sprint(s)
	}
	kinds := strings.Split(k.Ths, "")
	line = fmt.Sprintf("conc=reread ths=%s sched=%s case=x%s", strings.Join(kinds, "."), strings.Join(sched, "."), hex.EncodeToString(js))
	return line, fmt.Sprintf("conc%d:%s=%s", certs, trace.String(), final), nil
}

func genConc(r *c.Rng) *ConcCase {
	if r.Chance(1, 3) { // responses to one challenge: three database calls each
		k := &ConcCase{Chal: true, Ths: c.Pick(r, []string{"st", "ts", "sj", "js", "tj", "stt", "sjt", "ss", "tts"})}
		var pool []int
		for i := range k.Ths {
			pool = append(pool, i, i, i)
		}
		for i := len(pool) - 1; i > 0; i-- {
			j := r.Intn(i + 1)
			pool[i], pool[j] = pool[j], pool[i]
		}
		k.Sched = pool
		return k
	}
	k := &ConcCase{Ths: c.Pick(r, []string{"ff", "ff", "fp", "pf", "ffp", "fff", "fpp"})}
	var pool []int
	for i, kind := range k.Ths {
		n := 4
		if kind == 'p' {
			n = 3
		}
		for j := 0; j < n; j++ {
			pool = append(pool, i)
		}
	}
	for i := len(pool) - 1; i > 0; i-- {
		j := r.Intn(i + 1)
		pool[i], pool[j] = pool[j], pool[i]
	}
	k.Sched = pool
	return k
}

func cornerConc() []*ConcCase {
	return []*ConcCase{
		{Ths: "ff", Sched: []int{0, 1, 0, 1, 0, 0, 1, 1}}, // conc_double_issue
		{Ths: "fp", Sched: []int{0, 1, 0, 0, 0, 1, 1}},    // conc_terminal_overwritten: valid -> invalid
		{Ths: "fp", Sched: []int{0, 1, 1, 1, 0, 0, 0}},    // invalid -> valid
		{Ths: "ff", Sched: []int{0, 0, 0, 0, 1, 1, 1, 1}}, // sequential: one certificate
		{Chal: true, Ths: "ts", Sched: []int{0, 1, 0, 1, 1, 0}}, // ch_lost_swap_keeps_valid
		{Chal: true, Ths: "ts", Sched: []int{0, 1, 1, 1, 0, 0}}, // ch_terminal_overwritten: valid -> pending
		{Chal: true, Ths: "js", Sched: []int{0, 1, 1, 1, 0, 0}}, // valid -> invalid
		{Chal: true, Ths: "st", Sched: []int{0, 0, 0, 1, 1, 1}}, // sequential: the second response finds it valid
	}
}
