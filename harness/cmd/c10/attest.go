package main

import (
	"crypto"
	"crypto/ecdsa"
	"crypto/elliptic"
	"crypto/rand"
	"crypto/sha256"
	"crypto/x509"
	"crypto/x509/pkix"
	"encoding/asn1"
	"encoding/base64"
	"encoding/json"
	"encoding/pem"
	"math/big"

	"github.com/fxamacker/cbor/v2"
	"go.step.sm/crypto/keyutil"
	"go.step.sm/crypto/minica"
)

// Software "step" format attestations for device-attest-01 (the format acme/challenge.go
// doStepAttestationFormat checks): an attestation CA the provisioner trusts, a leaf for the
// attested key carrying the serial number extension = the permanent identifier, and a signature
// over the key authorization made with the attested key.

var (
	attCA  *minica.CA
	// the "hardware-bound" keys the attestations of this harness are about; key number k of the model
	// is attKeys[k-1] (key 0 = the software key of ordinary CSRs, never attested)
	attKeys [2]crypto.Signer
	attFPs  [2]string
)

var oidYubicoSerial = asn1.ObjectIdentifier{1, 3, 6, 1, 4, 1, 41482, 3, 7}

func initAttest() error {
	var err error
	if attCA, err = minica.New(minica.WithName("C10 attestation")); err != nil {
		return err
	}
	for i := range attKeys {
		if attKeys[i], err = ecdsa.GenerateKey(elliptic.P256(), rand.Reader); err != nil {
			return err
		}
		if attFPs[i], err = keyutil.Fingerprint(attKeys[i].Public()); err != nil {
			return err
		}
	}
	return nil
}

func attRootPEM() []byte {
	return pem.EncodeToMemory(&pem.Block{Type: "CERTIFICATE", Bytes: attCA.Root.Raw})
}

// attestPayload builds the challenge response. how: ok | badsig (signature by another key) |
// wrongserial (attestation certificate for another serial number).
func attestPayload(keyAuth, serial, how string, attKey crypto.Signer) ([]byte, error) {
	n, ok := new(big.Int).SetString(serial, 10)
	if !ok {
		n = big.NewInt(0)
	}
	if how == "wrongserial" {
		n = new(big.Int).Add(n, big.NewInt(1))
	}
	ser, err := asn1.Marshal(n)
	if err != nil {
		return nil, err
	}
	leaf, err := attCA.Sign(&x509.Certificate{Subject: pkix.Name{CommonName: "attestation cert"}, PublicKey: attKey.Public(),
		ExtraExtensions: []pkix.Extension{{Id: oidYubicoSerial, Value: ser}}})
	if err != nil {
		return nil, err
	}
	signer := attKey
	if how == "badsig" {
		signer = csrKey
	}
	sum := sha256.Sum256([]byte(keyAuth))
	sig, err := signer.Sign(rand.Reader, sum[:], crypto.SHA256)
	if err != nil {
		return nil, err
	}
	csig, err := cbor.Marshal(sig)
	if err != nil {
		return nil, err
	}
	obj, err := cbor.Marshal(map[string]interface{}{
		"fmt": "step",
		"attStmt": map[string]interface{}{
			"alg": -7, "sig": csig, "x5c": []interface{}{leaf.Raw, attCA.Intermediate.Raw},
		},
	})
	if err != nil {
		return nil, err
	}
	return json.Marshal(map[string]string{"attObj": base64.RawURLEncoding.EncodeToString(obj)})
}
