package main

// op=conv: the provisioner configuration glue.  A provisioner.ACME as written in ca.json
// (challenges, attestationFormats, attestationRoots) is taken through one representation change -
// JSON (ca.json) or linkedca (what the admin database stores: authority.ProvisionerToLinkedca and
// back through authority.ProvisionerToCertificates) - initialised, and asked what it offers:
// IsChallengeEnabled for the six types, IsAttestationFormatEnabled, the attestation root pool,
// and the challenges the real api.newAuthorization creates for a DNS, an IP and a permanent identifier.

import (
	"context"
	"encoding/json"
	"fmt"
	"strings"

	"github.com/smallstep/certificates/acme"
	acmeapi "github.com/smallstep/certificates/acme/api"
	"github.com/smallstep/certificates/authority"
	"github.com/smallstep/certificates/authority/config"
	"github.com/smallstep/certificates/authority/provisioner"
	c "verif/harness/common"
)

type ConvW struct {
	Ch    []string // challenges as configured
	Fmt   []string // attestationFormats as configured
	Roots int      // number of attestation roots configured (0-2)
	Via   string   // none | json | linkedca | linkedca2 (twice)
}

var allChallengeTypes = []string{"http-01", "dns-01", "tls-alpn-01", "device-attest-01", "wire-oidc-01", "wire-dpop-01"}

func (w *ConvW) provisioner() (*provisioner.ACME, string) {
	p := &provisioner.ACME{Type: "ACME", Name: "conv"}
	for _, ch := range w.Ch {
		p.Challenges = append(p.Challenges, provisioner.ACMEChallenge(ch))
	}
	for _, f := range w.Fmt {
		p.AttestationFormats = append(p.AttestationFormats, provisioner.ACMEAttestationFormat(f))
	}
	for _, ch := range w.Ch { // a provisioner with Wire challenges carries Wire options (Init insists)
		if strings.HasPrefix(strings.ToLower(ch), "wire-") {
			p.Options = &provisioner.Options{Wire: wireProv.Options.Wire}
		}
	}
	switch w.Roots {
	case 1:
		p.AttestationRoots = pemOf(caGood.Root)
	case 2:
		p.AttestationRoots = append(pemOf(caGood.Root), pemOf(caOther.Root)...)
	}
	hop := func(in *provisioner.ACME) (*provisioner.ACME, string) {
		lp, err := authority.ProvisionerToLinkedca(in)
		if err != nil {
			return nil, "tolinkedca-error"
		}
		back, err := authority.ProvisionerToCertificates(lp)
		if err != nil {
			return nil, "tocertificates-error"
		}
		ap, ok := back.(*provisioner.ACME)
		if !ok {
			return nil, "not-acme"
		}
		return ap, ""
	}
	switch w.Via {
	case "json":
		b, err := json.Marshal(provisioner.List{p})
		if err != nil {
			return nil, "marshal-error"
		}
		var l provisioner.List
		if err := json.Unmarshal(b, &l); err != nil || len(l) != 1 {
			return nil, "unmarshal-error"
		}
		ap, ok := l[0].(*provisioner.ACME)
		if !ok {
			return nil, "not-acme"
		}
		p = ap
	case "linkedca", "linkedca2":
		var e string
		if p, e = hop(p); e != "" {
			return nil, e
		}
		if w.Via == "linkedca2" {
			if p, e = hop(p); e != "" {
				return nil, e
			}
		}
	}
	if err := p.Init(provisioner.Config{Claims: config.GlobalProvisionerClaims}); err != nil {
		return nil, "initerror"
	}
	return p, ""
}

func (k *Case) runConv() (out string) {
	defer func() {
		if r := recover(); r != nil {
			out = "crash"
		}
	}()
	p, e := k.Conv.provisioner()
	if e != "" {
		return e
	}
	bg := context.Background()
	var en, fm []string
	for _, t := range allChallengeTypes {
		if p.IsChallengeEnabled(bg, provisioner.ACMEChallenge(t)) {
			en = append(en, t)
		}
	}
	for _, f := range []string{"apple", "step", "tpm", "packed", "STEP"} {
		if p.IsAttestationFormatEnabled(bg, provisioner.ACMEAttestationFormat(f)) {
			fm = append(fm, f)
		}
	}
	roots := 0
	if pool, ok := p.GetAttestationRoots(); ok {
		roots = len(pool.Subjects()) //nolint:staticcheck // not a system pool
	}
	offered := func(t acme.IdentifierType, v string) string {
		var created []acme.ChallengeType
		db := &acme.MockDB{
			MockCreateChallenge:     func(_ context.Context, ch *acme.Challenge) error { created = append(created, ch.Type); return nil },
			MockCreateAuthorization: func(context.Context, *acme.Authorization) error { return nil },
		}
		ctx := acme.NewProvisionerContext(acme.NewDatabaseContext(bg, db), p)
		az := &acme.Authorization{AccountID: "accID", Identifier: acme.Identifier{Type: t, Value: v}, Status: acme.StatusPending}
		if err := acmeapi.VerifNewAuthorization(ctx, az); err != nil {
			return "error"
		}
		return typeNames(created)
	}
	return fmt.Sprintf("enabled=%s fmts=%s roots=%d dns=%s wild=%s ip=%s pi=%s", c.List(en), c.List(fm), roots,
		offered(acme.DNS, "example.com"), offered(acme.DNS, "*.example.com"), offered(acme.IP, "192.0.2.7"), offered(acme.PermanentIdentifier, "12345678"))
}

func (k *Case) convLine() string {
	w := k.Conv
	x := func(l []string) string {
		out := make([]string, len(l))
		for i, s := range l {
			out[i] = c.X(s)
		}
		return c.List(out)
	}
	return fmt.Sprintf("op=conv pch=%s pfmt=%s proots=%d via=%s", x(w.Ch), x(w.Fmt), w.Roots, w.Via)
}

func genConv(r *c.Rng, k *Case) {
	k.Op = "conv"
	w := &ConvW{Via: c.Pick(r, []string{"none", "json", "linkedca", "linkedca", "linkedca2"}), Roots: r.Intn(3)}
	k.Conv = w
	spell := func(s string) string {
		switch r.Intn(6) {
		case 0:
			return strings.ToUpper(s)
		case 1:
			return strings.ToUpper(s[:1]) + s[1:]
		}
		return s
	}
	for i, n := 0, r.Intn(4); i < n; i++ {
		w.Ch = append(w.Ch, spell(c.Pick(r, allChallengeTypes)))
	}
	if r.Chance(1, 6) { // only challenge types the linkedca enumeration does not have
		w.Ch = c.Pick(r, [][]string{{"wire-oidc-01"}, {"wire-dpop-01"}, {"wire-oidc-01", "wire-dpop-01"}, {"WIRE-OIDC-01"}})
	}
	if r.Chance(1, 25) {
		w.Ch = append(w.Ch, c.Pick(r, []string{"bogus-01", "", "http-02"}))
	}
	for i, n := 0, r.Intn(3); i < n; i++ {
		w.Fmt = append(w.Fmt, spell(c.Pick(r, []string{"apple", "step", "tpm"})))
	}
	if r.Chance(1, 25) {
		w.Fmt = append(w.Fmt, c.Pick(r, []string{"packed", ""}))
	}
}

func cornerConv() []*Case {
	var out []*Case
	add := func(ch, fm []string, roots int) {
		for _, via := range []string{"none", "json", "linkedca", "linkedca2"} {
			out = append(out, &Case{Op: "conv", Conv: &ConvW{Ch: ch, Fmt: fm, Roots: roots, Via: via}})
		}
	}
	add(nil, nil, 0)
	add([]string{"http-01"}, nil, 0)
	add([]string{"device-attest-01"}, []string{"step"}, 1)
	add([]string{"DEVICE-ATTEST-01", "Dns-01"}, []string{"TPM", "apple"}, 2)
	add([]string{"wire-oidc-01", "wire-dpop-01"}, nil, 0) // Wire only: nothing of it exists in linkedca
	add([]string{"wire-oidc-01", "device-attest-01"}, nil, 1)
	add([]string{"http-01", "dns-01", "tls-alpn-01", "device-attest-01", "wire-oidc-01", "wire-dpop-01"}, []string{"apple", "step", "tpm"}, 2)
	return out
}
