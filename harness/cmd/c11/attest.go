package main

// device-attest-01: attestation objects in the `step` and `apple` formats built with synthetic
// roots (go.step.sm/crypto/minica), the real provisioner.ACME as acme.Provisioner, and the facts
// the model needs extracted from the final payload bytes with the libraries the validator calls.
// `tpm`: only the branches reachable without TPM-signed structures (ver/x5c/roots/chain/AK
// certificate requirements); the certification-parameter path is modelled but not validated here.

import (
	"bytes"
	"context"
	"crypto"
	"crypto/ecdsa"
	"crypto/ed25519"
	"crypto/elliptic"
	"crypto/rand"
	"crypto/rsa"
	"crypto/sha256"
	"crypto/x509"
	"crypto/x509/pkix"
	"encoding/asn1"
	"encoding/base64"
	"encoding/json"
	"encoding/pem"
	"fmt"
	"os"
	"path/filepath"
	"strconv"
	"strings"
	"time"

	"github.com/fxamacker/cbor/v2"
	"go.step.sm/crypto/keyutil"
	"go.step.sm/crypto/minica"
	"go.step.sm/crypto/pemutil"

	"github.com/smallstep/certificates/acme"
	"github.com/smallstep/certificates/authority/config"
	"github.com/smallstep/certificates/authority/provisioner"
	c "verif/harness/common"
)

type DAW struct {
	AuthzFail   bool `json:",omitempty"`
	AuthzDBFail bool `json:",omitempty"`
	AuthzOther  bool `json:",omitempty"` // the authorization named by the request belongs to another account
	AuthzNotOwn bool `json:",omitempty"` // … it lists challenges and this challenge is not one of them
	AuthzLists  bool `json:",omitempty"` // … it lists this challenge (the normal case with a real store)

	Payload string   // "" (build) | notjson | errfield | badb64 | emptyobj | bracesobj | notcbor | cborwrongtype | noattobj
	Format  string   // fmt value written into the object
	Enabled []string `json:",omitempty"` // provisioner attestation formats (nil: default = all three)
	Roots   string   // ca | other | none
	X5c     string   // ok | absent | notarray | empty | leafnotbytes | leafgarbage | restgarbage | leafonly | wrongca | expired | rootonly
	Key     string   `json:",omitempty"` // p256 | p384 | rsa | ed25519
	Signed  string   `json:",omitempty"` // the message the attestation key signs (step)
	Sig     string   `json:",omitempty"` // ok | absent | notbytes | notcbor | garbage | flip
	Serial  string   `json:",omitempty"` // step: decimal | "" (absent) | malformed | trailing
	ASerial string   `json:",omitempty"` // apple serial-number extension ("" = absent)
	AUDID   string   `json:",omitempty"`
	Nonce   []byte   `json:",omitempty"` // apple nonce extension value
	HasNonc bool     `json:",omitempty"` // the nonce extension is present
	TPMVer  string   `json:",omitempty"` // tpm: value of "ver" ("" = absent)
	TPM     *TPMSpec `json:",omitempty"` // tpm: build certInfo / pubArea / sig (nil: statement has ver and x5c only)

	facts  string            // model fields, filled by build
	served *provisioner.ACME // e2e stage
}

var (
	oidYubicoSerial = asn1.ObjectIdentifier{1, 3, 6, 1, 4, 1, 41482, 3, 7}
	oidAppleSerial  = asn1.ObjectIdentifier{1, 2, 840, 113635, 100, 8, 9, 1}
	oidAppleUDID    = asn1.ObjectIdentifier{1, 2, 840, 113635, 100, 8, 9, 2}
	oidAppleSEP     = asn1.ObjectIdentifier{1, 2, 840, 113635, 100, 8, 10, 2}
	oidAppleNonce   = asn1.ObjectIdentifier{1, 2, 840, 113635, 100, 8, 11, 1}

	caGood, caOther *minica.CA
	caSys           *minica.CA // planted into the process's *system* trust store, never configured anywhere
	sysRootDir      string
	attKeys         map[string]crypto.Signer
	provCache       = map[string]*provisioner.ACME{}
)

// plantSystemRoot makes a CA that only the operating-system trust store of this process knows
// (SSL_CERT_FILE / SSL_CERT_DIR are read once, on the first verification without explicit roots).
// A validator that falls back to the system pool instead of the configured / built-in vendor root
// accepts chains from it; the unchanged code must not.
func plantSystemRoot() {
	var err error
	if caSys, err = minica.New(minica.WithName("C11 planted system root")); err != nil {
		panic(err)
	}
	if sysRootDir, err = os.MkdirTemp("", "c11-sysroot-"); err != nil {
		panic(err)
	}
	file := filepath.Join(sysRootDir, "roots.pem")
	if err := os.WriteFile(file, pemOf(caSys.Root), 0o600); err != nil {
		panic(err)
	}
	os.Setenv("SSL_CERT_FILE", file)
	os.Setenv("SSL_CERT_DIR", filepath.Join(sysRootDir, "empty"))
	// sanity: the planted root really is a system root of this process
	leaf, err := caSys.Sign(&x509.Certificate{Subject: pkix.Name{CommonName: "probe"}, PublicKey: caSys.Signer.Public()})
	if err != nil {
		panic(err)
	}
	inter := x509.NewCertPool()
	inter.AddCert(caSys.Intermediate)
	if _, err := leaf.Verify(x509.VerifyOptions{Intermediates: inter, KeyUsages: []x509.ExtKeyUsage{x509.ExtKeyUsageAny}}); err != nil {
		fmt.Fprintln(os.Stderr, "note: planted system root not effective:", err)
	}
}

func initAttest() {
	var err error
	if caGood, err = minica.New(minica.WithName("C11 attestation")); err != nil {
		panic(err)
	}
	if caOther, err = minica.New(minica.WithName("C11 unrelated")); err != nil {
		panic(err)
	}
	attKeys = map[string]crypto.Signer{}
	p256, _ := ecdsa.GenerateKey(elliptic.P256(), rand.Reader)
	p384, _ := ecdsa.GenerateKey(elliptic.P384(), rand.Reader)
	rk, err := rsa.GenerateKey(rand.Reader, 2048)
	if err != nil {
		panic(err)
	}
	_, ed, _ := ed25519.GenerateKey(rand.Reader)
	initTPM()
	attKeys["p256"], attKeys["p384"], attKeys["rsa"], attKeys["ed25519"] = p256, p384, rk, ed
}

func pemOf(cert *x509.Certificate) []byte {
	return pem.EncodeToMemory(&pem.Block{Type: "CERTIFICATE", Bytes: cert.Raw})
}

func (w *DAW) provisioner() *provisioner.ACME {
	key := w.Roots + "|" + strings.Join(w.Enabled, ",")
	if p, ok := provCache[key]; ok {
		return p
	}
	p := &provisioner.ACME{Type: "ACME", Name: "acme", Challenges: []provisioner.ACMEChallenge{provisioner.DEVICE_ATTEST_01}}
	switch w.Roots {
	case "ca":
		p.AttestationRoots = pemOf(caGood.Root)
	case "other":
		p.AttestationRoots = pemOf(caOther.Root)
	}
	if err := p.Init(provisioner.Config{Claims: config.GlobalProvisionerClaims}); err != nil {
		panic(err)
	}
	// set after Init, like the repository's own tests: Init rejects unknown format names
	for _, f := range w.Enabled {
		p.AttestationFormats = append(p.AttestationFormats, provisioner.ACMEAttestationFormat(f))
	}
	provCache[key] = p
	return p
}

func (w *DAW) sign(key crypto.Signer) []byte {
	msg := []byte(w.Signed)
	var sig []byte
	var err error
	switch k := key.(type) {
	case ed25519.PrivateKey:
		sig = ed25519.Sign(k, msg)
	default:
		sum := sha256.Sum256(msg)
		sig, err = key.Sign(rand.Reader, sum[:], crypto.SHA256)
	}
	if err != nil {
		panic(err)
	}
	return sig
}

// build makes the request payload and the provisioner, and records the model's facts.
func (w *DAW) build(k *Case) ([]byte, acme.Provisioner) {
	prov := w.provisioner()
	if w.served != nil { // e2e stage: the provisioner the authority serves
		prov = w.served
	}
	payload := w.payload()
	w.facts = w.extract(k, payload, prov)
	return payload, prov
}

func (w *DAW) leaf(key crypto.Signer) (*x509.Certificate, []interface{}) {
	var exts []pkix.Extension
	switch w.Format {
	case "step", "Step", "tpm":
		switch w.Serial {
		case "":
		case "malformed":
			exts = append(exts, pkix.Extension{Id: oidYubicoSerial, Value: []byte{0x04, 0x01, 0x07}}) // OCTET STRING, not INTEGER
		case "trailing":
			v, _ := asn1.Marshal(7)
			exts = append(exts, pkix.Extension{Id: oidYubicoSerial, Value: append(v, 0)})
		default:
			n, _ := strconv.Atoi(w.Serial)
			v, _ := asn1.Marshal(n)
			exts = append(exts, pkix.Extension{Id: oidYubicoSerial, Value: v})
		}
	default:
		if w.ASerial != "" {
			exts = append(exts, pkix.Extension{Id: oidAppleSerial, Value: []byte(w.ASerial)})
		}
		if w.AUDID != "" {
			exts = append(exts, pkix.Extension{Id: oidAppleUDID, Value: []byte(w.AUDID)})
		}
		exts = append(exts, pkix.Extension{Id: oidAppleSEP, Value: []byte("16.0")})
		if w.HasNonc {
			exts = append(exts, pkix.Extension{Id: oidAppleNonce, Value: w.Nonce})
		}
	}
	ca := caGood
	if w.X5c == "wrongca" {
		ca = caOther
	}
	if w.X5c == "sysca" {
		ca = caSys
	}
	tmpl := &x509.Certificate{Subject: pkix.Name{CommonName: "attestation cert"}, PublicKey: key.Public(), ExtraExtensions: exts}
	if w.X5c == "expired" {
		tmpl.NotBefore, tmpl.NotAfter = time.Now().Add(-48*time.Hour), time.Now().Add(-24*time.Hour)
	}
	leaf, err := ca.Sign(tmpl)
	if err != nil {
		panic(err)
	}
	x5c := []interface{}{leaf.Raw, ca.Intermediate.Raw}
	switch w.X5c {
	case "empty":
		x5c = []interface{}{}
	case "leafnotbytes":
		x5c = []interface{}{"not bytes", ca.Intermediate.Raw}
	case "leafgarbage":
		x5c = []interface{}{leaf.Raw[:len(leaf.Raw)/2], ca.Intermediate.Raw}
	case "restgarbage":
		x5c = []interface{}{leaf.Raw, []byte{0x30, 0x03, 1, 2, 3}}
	case "leafonly":
		x5c = []interface{}{leaf.Raw}
	case "rootonly":
		x5c = []interface{}{ca.Root.Raw}
	}
	return leaf, x5c
}

func (w *DAW) payload() []byte {
	switch w.Payload {
	case "notjson":
		return []byte(`{"attObj":`)
	case "errfield":
		return []byte(`{"error":"device refused","attObj":""}`)
	case "badb64":
		return []byte(`{"attObj":"@@@not base64@@@"}`)
	case "emptyobj":
		return []byte(`{"attObj":""}`)
	case "noattobj":
		return []byte(`{}`)
	case "bracesobj":
		return []byte(`{"attObj":"` + base64.RawURLEncoding.EncodeToString([]byte("{}")) + `"}`)
	case "notcbor":
		return []byte(`{"attObj":"` + base64.RawURLEncoding.EncodeToString([]byte{0xa2, 0x63, 0x66}) + `"}`)
	case "cborwrongtype":
		b, _ := cbor.Marshal([]int{1, 2, 3})
		return []byte(`{"attObj":"` + base64.RawURLEncoding.EncodeToString(b) + `"}`)
	}
	key := attKeys[w.Key]
	if key == nil {
		key = attKeys["p256"]
	}
	_, x5c := w.leaf(key)
	stmt := map[string]interface{}{}
	switch w.X5c {
	case "absent":
	case "notarray":
		stmt["x5c"] = "nope"
	default:
		stmt["x5c"] = x5c
	}
	switch w.Format {
	case "step", "Step":
		stmt["alg"] = -7
		sig := w.sign(key)
		switch w.Sig {
		case "absent":
		case "notbytes":
			stmt["sig"] = "a string"
		case "notcbor":
			stmt["sig"] = sig // not wrapped: DER (0x30…) or raw bytes are not a CBOR byte string
		case "garbage":
			b, _ := cbor.Marshal([]byte("garbage signature"))
			stmt["sig"] = b
		case "flip":
			sig[len(sig)-1] ^= 1
			b, _ := cbor.Marshal(sig)
			stmt["sig"] = b
		default:
			b, _ := cbor.Marshal(sig)
			stmt["sig"] = b
		}
	case "tpm":
		if w.TPM != nil {
			stmt = w.TPM.statement(w, sha(w.Signed))
		} else if w.TPMVer != "" {
			stmt["ver"] = w.TPMVer
		}
	}
	obj, err := cbor.Marshal(struct {
		Format       string                 `json:"fmt"`
		AttStatement map[string]interface{} `json:"attStmt,omitempty"`
	}{Format: w.Format, AttStatement: stmt})
	if err != nil {
		panic(err)
	}
	out, _ := json.Marshal(struct {
		AttObj string `json:"attObj"`
	}{AttObj: base64.RawURLEncoding.EncodeToString(obj)})
	return out
}

// ---------- fact extraction (same library calls as the validator, on the final bytes) ----------

func verifyChain(leaf *x509.Certificate, inter *x509.CertPool, roots *x509.CertPool) bool {
	_, err := leaf.Verify(x509.VerifyOptions{Intermediates: inter, Roots: roots, CurrentTime: time.Now().Truncate(time.Second),
		KeyUsages: []x509.ExtKeyUsage{x509.ExtKeyUsageAny}})
	return err == nil
}

type x5cFacts struct {
	present, leafOk, restOk, chainOk bool
	n                                int
	leaf                             *x509.Certificate
}

func (f x5cFacts) String() string {
	return fmt.Sprintf("%s:%d:%s:%s:%s", c.B(f.present), f.n, c.B(f.leafOk), c.B(f.restOk), c.B(f.chainOk))
}

func extractX5c(stmt map[string]interface{}, roots *x509.CertPool) (f x5cFacts) {
	x5c, ok := stmt["x5c"].([]interface{})
	if !ok {
		return
	}
	f.present, f.n = true, len(x5c)
	if f.n == 0 {
		return
	}
	der, ok := x5c[0].([]byte)
	if !ok {
		return
	}
	leaf, err := x509.ParseCertificate(der)
	if err != nil {
		return
	}
	f.leafOk, f.leaf = true, leaf
	inter := x509.NewCertPool()
	for _, v := range x5c[1:] {
		b, ok := v.([]byte)
		if !ok {
			return
		}
		cert, err := x509.ParseCertificate(b)
		if err != nil {
			return
		}
		inter.AddCert(cert)
	}
	f.restOk = true
	if roots != nil {
		f.chainOk = verifyChain(leaf, inter, roots)
	}
	return
}

func vendorRoot(pemText string) *x509.CertPool {
	root, err := pemutil.ParseCertificate([]byte(pemText))
	if err != nil {
		panic(err)
	}
	p := x509.NewCertPool()
	p.AddCert(root)
	return p
}

func (w *DAW) extract(k *Case, payload []byte, prov *provisioner.ACME) string {
	var p struct {
		AttObj string `json:"attObj"`
		Error  string `json:"error"`
	}
	jsonOk := json.Unmarshal(payload, &p) == nil
	attObj, b64err := base64.RawURLEncoding.DecodeString(p.AttObj)
	empty := len(attObj) == 0 || bytes.Equal(attObj, []byte("{}"))
	dm, _ := cbor.DecOptions{}.DecMode()
	wf := dm.Wellformed(attObj) == nil
	var att struct {
		Format       string                 `json:"fmt"`
		AttStatement map[string]interface{} `json:"attStmt,omitempty"`
	}
	cborOk := wf && dm.Unmarshal(attObj, &att) == nil
	format := "other"
	switch att.Format {
	case "apple", "step", "tpm":
		format = att.Format
	}
	enabled := prov.IsAttestationFormatEnabled(context.Background(), provisioner.ACMEAttestationFormat(att.Format))
	head := fmt.Sprintf("w=da authz=%s json=%s errf=%s b64=%s empty=%s wf=%s cbor=%s fmt=%s en=%s azdb=%s",
		c.B(!w.AuthzFail), c.B(jsonOk), c.B(p.Error != ""), c.B(b64err == nil), c.B(empty), c.B(wf), c.B(cborOk), format, c.B(enabled), c.B(!w.AuthzDBFail)) + " azother=" + c.B(w.AuthzOther) + " aznotown=" + c.B(w.AuthzNotOwn)
	if !cborOk {
		return head + " fpne=0 facts=none"
	}
	roots, rootsOk := prov.GetAttestationRoots()
	switch format {
	case "apple":
		if !rootsOk {
			roots = vendorRoot(acme.VerifAppleEnterpriseAttestationRootCA)
		}
		x := extractX5c(att.AttStatement, roots)
		fpOk, serial, udid, nonce := false, "", "", []byte(nil)
		if x.leaf != nil {
			fp, err := keyutil.Fingerprint(x.leaf.PublicKey)
			fpOk = err == nil && fp != ""
			for _, e := range x.leaf.Extensions {
				switch {
				case e.Id.Equal(oidAppleSerial):
					serial = string(e.Value)
				case e.Id.Equal(oidAppleUDID):
					udid = string(e.Value)
				case e.Id.Equal(oidAppleNonce):
					nonce = e.Value
				}
			}
		}
		return head + fmt.Sprintf(" fpne=%s facts=apple x5c=%s fpok=%s serial=%s udid=%s nonce=%s", c.B(fpOk), x, c.B(fpOk), c.X(serial), c.X(udid), c.XB(nonce))
	case "step":
		if !rootsOk {
			roots = vendorRoot(acme.VerifYubicoPIVRootCA)
		}
		x := extractX5c(att.AttStatement, roots)
		csig, sigPresent := att.AttStatement["sig"].([]byte)
		var sig []byte
		sigCbor := sigPresent && cbor.Unmarshal(csig, &sig) == nil
		key, sigv, fpOk, serial := "unsupported", false, false, "absent"
		if x.leaf != nil {
			msg := []byte(w.Signed)
			sum := sha256.Sum256(msg)
			switch pub := x.leaf.PublicKey.(type) {
			case *ecdsa.PublicKey:
				if pub.Curve == elliptic.P256() {
					key = "ecp256"
					sigv = ecdsa.VerifyASN1(pub, sum[:], sig)
				} else {
					key = "ecother"
				}
			case *rsa.PublicKey:
				key = "rsa"
				sigv = rsa.VerifyPKCS1v15(pub, crypto.SHA256, sum[:], sig) == nil
			case ed25519.PublicKey:
				key = "ed25519"
				sigv = ed25519.Verify(pub, msg, sig)
			}
			fp, err := keyutil.Fingerprint(x.leaf.PublicKey)
			fpOk = err == nil && fp != ""
			for _, e := range x.leaf.Extensions {
				if !e.Id.Equal(oidYubicoSerial) {
					continue
				}
				var n int
				rest, err := asn1.Unmarshal(e.Value, &n)
				if err != nil {
					serial = "malformed"
				} else if len(rest) > 0 {
					serial = "trailing"
				} else {
					serial = "v:" + c.X(strconv.Itoa(n))
				}
				break
			}
		}
		return head + fmt.Sprintf(" fpne=%s facts=step x5c=%s sigp=%s sigc=%s key=%s signed=%s sigv=%s fpok=%s serial=%s",
			c.B(fpOk), x, c.B(sigPresent), c.B(sigCbor), key, c.X(w.Signed), c.B(sigv), c.B(fpOk), serial)
	case "tpm":
		return head + tpmFacts(att.AttStatement, roots, rootsOk)
	}
	return head + " fpne=0 facts=none"
}

func (w *DAW) modelFields(k *Case) string {
	if w.facts == "" { // Validate never reached the builder (status not pending): facts are irrelevant
		w.build(k)
	}
	return w.facts
}

// ---------- generators ----------

var daMuts = []string{
	"exact", "exact", "exact", "exact", "other-thumb", "other-token", "token-only", "ka-nl", "ka-upper", "sig-absent", "sig-notbytes", "sig-notcbor", "sig-garbage", "sig-flip",
	"x5c-absent", "x5c-notarray", "x5c-empty", "x5c-leafnotbytes", "x5c-leafgarbage", "x5c-restgarbage", "x5c-leafonly", "x5c-wrongca", "x5c-expired", "x5c-rootonly",
	"roots-other", "roots-none", "sysca-noroots", "sysca-noroots", "sysca-configured", "serial-other", "serial-absent", "serial-malformed", "serial-trailing", "serial-prefix", "key-p384", "key-rsa", "key-ed25519",
	"fmt-disabled", "fmt-unknown", "fmt-case", "fmt-unknown-enabled", "payload-notjson", "payload-errfield", "payload-badb64", "payload-emptyobj", "payload-bracesobj",
	"payload-notcbor", "payload-cborwrongtype", "payload-noattobj", "authz-missing", "authz-dbfail", "authz-other-account", "authz-other-account", "authz-not-own", "authz-not-own", "authz-lists-own",
	"nonce-absent", "nonce-other-token", "nonce-keyauth", "nonce-empty", "nonce-trunc", "nonce-long33", "nonce-b64", "udid-only", "serial-only", "ids-none", "ids-swapped-case",
	"tpm-nover", "tpm-ver1", "tpm-nox5c", "tpm-noroots", "tpm-akcert",
	"tpm-exact", "tpm-exact", "tpm-exact", "tpm-extra-empty", "tpm-extra-prefix1", "tpm-extra-prefix20", "tpm-extra-prefix31", "tpm-extra-long33",
	"tpm-extra-zero32", "tpm-extra-suffix20", "tpm-extra-empty-other-thumb", "tpm-no-pids", "tpm-other-pid", "tpm-two-pids", "tpm-other-thumb", "tpm-other-token", "tpm-token-only",
	"tpm-sig-flip", "tpm-other-name", "tpm-subject", "tpm-no-hw", "tpm-no-eku", "tpm-magic", "tpm-restricted", "tpm-alg-bad", "tpm-alg-es256",
	"tpm-ak-ecc", "tpm-alg-rs1", "tpm-alg-rs1-sha256sig", "tpm-alg-huge",
	"tpm-pubarea-empty", "tpm-wrongca", "tpm-full-noroots", "tpm-disabled",
}

func genDA(r *c.Rng, k *Case) {
	k.Typ = "da"
	if !k.fixedID {
		k.Value = c.Pick(r, []string{"12345678", "7", "0", "serial-number", "udid-0001", "C02XK1", "-5", "007"})
	}
	w := &DAW{Roots: "ca", X5c: "ok", Key: "p256", Sig: "ok"}
	k.DA = w
	ka := expectedKeyAuth(k.Token, k.Acct)
	w.Signed = ka
	apple := r.Chance(2, 5)
	if apple {
		w.Format = "apple"
		w.ASerial, w.AUDID = k.Value, "udid-"+k.Value
		if r.Chance(1, 2) {
			w.ASerial, w.AUDID = "sn-"+k.Value, k.Value
		}
		w.HasNonc, w.Nonce = true, sha(k.Token)
	} else {
		w.Format = "step"
		if _, err := strconv.Atoi(k.Value); err != nil || strconv.Itoa(mustAtoi(k.Value)) != k.Value {
			if k.fixedID {
				apple, w.Format = true, "apple" // a non-decimal identifier cannot be a YubiKey serial
				w.ASerial, w.AUDID, w.HasNonc, w.Nonce = k.Value, "udid-"+k.Value, true, sha(k.Token)
			} else {
				k.Value = c.Pick(r, []string{"12345678", "7", "0", "-5"})
			}
		}
		w.Serial = k.Value
	}
	m := c.Pick(r, daMuts)
	k.Mut = w.Format + ":" + m
	switch m {
	case "other-thumb":
		w.Signed = expectedKeyAuth(k.Token, otherAcct(r, k.Acct))
	case "other-token":
		w.Signed = expectedKeyAuth(genToken(r), k.Acct)
	case "token-only":
		w.Signed = k.Token
	case "ka-nl":
		w.Signed = ka + "\n"
	case "ka-upper":
		w.Signed = strings.ToUpper(ka)
	case "sig-absent", "sig-notbytes", "sig-notcbor", "sig-garbage", "sig-flip":
		w.Sig = strings.TrimPrefix(m, "sig-")
	case "x5c-absent", "x5c-notarray", "x5c-empty", "x5c-leafnotbytes", "x5c-leafgarbage", "x5c-restgarbage", "x5c-leafonly", "x5c-wrongca", "x5c-expired", "x5c-rootonly":
		w.X5c = strings.TrimPrefix(m, "x5c-")
	case "roots-other":
		w.Roots = "other"
	case "roots-none":
		w.Roots = "none"
	case "sysca-noroots": // chain from a CA only the OS trust store knows, provisioner without roots
		w.Roots, w.X5c = "none", "sysca"
	case "sysca-configured":
		w.X5c = "sysca"
	case "serial-other":
		w.Serial, w.ASerial, w.AUDID = "424242", "other-serial", "other-udid"
	case "serial-absent":
		w.Serial, w.ASerial, w.AUDID = "", "", ""
	case "serial-malformed":
		w.Serial = "malformed"
	case "serial-trailing":
		w.Serial = "trailing"
	case "serial-prefix":
		w.Serial, w.ASerial, w.AUDID = "1"+k.Value, k.Value+"0", " "+k.Value
	case "key-p384":
		w.Key = "p384"
	case "key-rsa":
		w.Key = "rsa"
	case "key-ed25519":
		w.Key = "ed25519"
	case "fmt-disabled":
		w.Enabled = []string{c.Pick(r, []string{"tpm", "bogus-format"})}
	case "fmt-unknown":
		w.Format = c.Pick(r, []string{"packed", "", "android-key", "none"})
	case "fmt-case":
		w.Format = map[string]string{"apple": "APPLE", "step": "Step"}[w.Format]
	case "fmt-unknown-enabled":
		w.Format, w.Enabled = "packed", []string{"packed"}
	case "payload-notjson", "payload-errfield", "payload-badb64", "payload-emptyobj", "payload-bracesobj", "payload-notcbor", "payload-cborwrongtype", "payload-noattobj":
		w.Payload = strings.TrimPrefix(m, "payload-")
	case "authz-missing":
		w.AuthzFail = true
	case "authz-dbfail":
		w.AuthzDBFail = true
	case "authz-other-account":
		w.AuthzOther = true
	case "authz-not-own":
		w.AuthzNotOwn = true
	case "authz-lists-own":
		w.AuthzLists = true
	case "nonce-absent":
		w.HasNonc, w.Nonce = false, nil
	case "nonce-other-token":
		w.Nonce = sha(genToken(r))
	case "nonce-keyauth":
		w.Nonce = sha(ka)
	case "nonce-empty":
		w.Nonce = []byte{}
	case "nonce-trunc":
		w.Nonce = sha(k.Token)[:31]
	case "nonce-long33":
		w.Nonce = append(sha(k.Token), 0)
	case "nonce-b64":
		w.Nonce = []byte(digestB64(k.Token))
	case "udid-only":
		w.ASerial, w.AUDID = "", k.Value
	case "serial-only":
		w.ASerial, w.AUDID = k.Value, ""
	case "ids-none":
		w.ASerial, w.AUDID = "", ""
	case "ids-swapped-case":
		w.ASerial, w.AUDID = swapCase(k.Value)+"x", swapCase("u"+k.Value)
	case "tpm-nover":
		w.Format = "tpm"
	case "tpm-ver1":
		w.Format, w.TPMVer = "tpm", "1.2"
	case "tpm-nox5c":
		w.Format, w.TPMVer, w.X5c = "tpm", "2.0", "absent"
	case "tpm-noroots":
		w.Format, w.TPMVer, w.Roots = "tpm", "2.0", "none"
	case "tpm-akcert":
		w.Format, w.TPMVer = "tpm", "2.0"
	case "tpm-exact", "tpm-extra-empty", "tpm-extra-prefix1", "tpm-extra-prefix20", "tpm-extra-prefix31", "tpm-extra-long33", "tpm-extra-zero32",
		"tpm-extra-suffix20", "tpm-extra-empty-other-thumb", "tpm-no-pids", "tpm-other-pid", "tpm-two-pids", "tpm-other-thumb", "tpm-other-token", "tpm-token-only", "tpm-sig-flip", "tpm-other-name", "tpm-ak-ecc", "tpm-alg-rs1", "tpm-alg-rs1-sha256sig", "tpm-alg-huge",
		"tpm-subject", "tpm-no-hw", "tpm-no-eku", "tpm-magic", "tpm-restricted", "tpm-alg-bad", "tpm-alg-es256", "tpm-pubarea-empty", "tpm-wrongca",
		"tpm-full-noroots", "tpm-disabled":
		w.Format, w.TPMVer = "tpm", "2.0"
		w.TPM = &TPMSpec{PIDs: []string{k.Value}}
		k.Mut = "tpm:" + strings.TrimPrefix(m, "tpm-")
		switch m {
		case "tpm-no-pids":
			w.TPM.PIDs = nil
		case "tpm-other-pid":
			w.TPM.PIDs = []string{"other-" + k.Value}
		case "tpm-two-pids":
			w.TPM.PIDs = []string{"other-" + k.Value, k.Value}
		case "tpm-other-thumb":
			w.Signed = expectedKeyAuth(k.Token, otherAcct(r, k.Acct))
		case "tpm-other-token":
			w.Signed = expectedKeyAuth(genToken(r), k.Acct)
		case "tpm-token-only":
			w.Signed = k.Token
		case "tpm-wrongca":
			w.X5c = "wrongca"
		case "tpm-full-noroots":
			w.Roots = "none"
		case "tpm-disabled":
			w.Enabled = []string{"step"}
		case "tpm-exact":
		case "tpm-extra-empty", "tpm-extra-prefix1", "tpm-extra-prefix20", "tpm-extra-prefix31", "tpm-extra-long33", "tpm-extra-zero32", "tpm-extra-suffix20":
			w.TPM.Extra = strings.TrimPrefix(m, "tpm-extra-") // truncated / padded / blank qualifying data: binds nothing or less
		case "tpm-extra-empty-other-thumb":
			w.TPM.Extra, w.Signed = "empty", expectedKeyAuth(k.Token, otherAcct(r, k.Acct))
		default:
			w.TPM.Mut = strings.TrimPrefix(m, "tpm-")
		}
	}
	// the owning authorization: mostly pending and unexpired; also already invalid / valid, or expired
	switch r.Intn(8) {
	case 0:
		k.AzSt = "invalid"
	case 1:
		k.AzSt = "valid"
	case 2:
		k.AzExp = true
	case 3:
		k.AzSt, k.AzExp = c.Pick(r, []string{"invalid", "valid"}), true
	}
	// the authorization named in the request URL need not be the one that owns this challenge
	if r.Chance(1, 6) {
		k.AzForeign, k.AzSib = true, nil // that authorization has its own three challenges
	}
	// second-order: now and then combine with a key type
	if r.Chance(1, 6) && w.Key == "p256" {
		w.Key = c.Pick(r, []string{"rsa", "ed25519"})
	}
}

func mustAtoi(s string) int { n, _ := strconv.Atoi(s); return n }

func cornerDA() []*Case {
	var out []*Case
	tok := "Tm9UaGluZ1VwTXlTbGVldmUxMjM0NTY3"
	for a := range accountJSON {
		ka := expectedKeyAuth(tok, a)
		for _, key := range []string{"p256", "rsa", "ed25519"} {
			out = append(out, &Case{Op: "validate", Typ: "da", Status: "pending", Token: tok, Value: "12345678", Acct: a, Mut: "step:exact",
				DA: &DAW{Format: "step", Roots: "ca", X5c: "ok", Key: key, Sig: "ok", Signed: ka, Serial: "12345678"}})
		}
		out = append(out, &Case{Op: "validate", Typ: "da", Status: "pending", Token: tok, Value: "udid-1", Acct: a, Mut: "apple:exact",
			DA: &DAW{Format: "apple", Roots: "ca", X5c: "ok", Key: "p256", ASerial: "sn-1", AUDID: "udid-1", HasNonc: true, Nonce: sha(tok)}})
	}
	// D14 (apple half): no nonce extension at all — nothing ties the attestation to this challenge
	out = append(out, &Case{Op: "validate", Typ: "da", Status: "pending", Token: tok, Value: "udid-1", Acct: 0, Mut: "apple:nonce-absent",
		DA: &DAW{Format: "apple", Roots: "ca", X5c: "ok", Key: "p256", ASerial: "sn-1", AUDID: "udid-1"}})
	// a genuine attestation must not touch the owning authorization's status: pending / invalid / expired / valid
	for _, az := range []struct {
		st  string
		exp bool
	}{{"", false}, {"invalid", false}, {"", true}, {"valid", false}, {"invalid", true}} {
		out = append(out, &Case{Op: "validate", Typ: "da", Status: "pending", Token: tok, Value: "12345678", Acct: 0, Mut: "step:exact-az", AzSt: az.st, AzExp: az.exp,
			DA: &DAW{Format: "step", Roots: "ca", X5c: "ok", Key: "p256", Sig: "ok", Signed: expectedKeyAuth(tok, 0), Serial: "12345678"}})
		out = append(out, &Case{Op: "validate", Typ: "da", Status: "pending", Token: tok, Value: "udid-1", Acct: 0, Mut: "apple:exact-az", AzSt: az.st, AzExp: az.exp,
			DA: &DAW{Format: "apple", Roots: "ca", X5c: "ok", Key: "p256", ASerial: "sn-1", AUDID: "udid-1", HasNonc: true, Nonce: sha(tok)}})
		out = append(out, &Case{Op: "validate", Typ: "da", Status: "pending", Token: tok, Value: "device-1", Acct: 0, Mut: "tpm:exact-az", AzSt: az.st, AzExp: az.exp,
			DA: &DAW{Format: "tpm", TPMVer: "2.0", Roots: "ca", X5c: "ok", Signed: expectedKeyAuth(tok, 0), TPM: &TPMSpec{PIDs: []string{"device-1"}}}})
	}
	// tpm qualifying data that is a proper prefix of the digest (or empty, or longer) binds nothing: must be refused
	for _, x := range []string{"empty", "prefix1", "prefix20", "prefix31", "long33"} {
		out = append(out, &Case{Op: "validate", Typ: "da", Status: "pending", Token: tok, Value: "device-1", Acct: 0, Mut: "tpm:extra-" + x,
			DA: &DAW{Format: "tpm", TPMVer: "2.0", Roots: "ca", X5c: "ok", Signed: expectedKeyAuth(tok, 0), TPM: &TPMSpec{PIDs: []string{"device-1"}, Extra: x}}})
	}
	// a genuine attestation sent to the challenge URL of ANOTHER authorization (authz id comes from the URL, D15 of C12):
	// that authorization's own challenges are all pending, it must stay as it is
	for _, az := range []string{"", "invalid"} {
		out = append(out, &Case{Op: "validate", Typ: "da", Status: "pending", Token: tok, Value: "12345678", Acct: 0, Mut: "step:foreign-authz", AzSt: az, AzForeign: true,
			DA: &DAW{Format: "step", Roots: "ca", X5c: "ok", Key: "p256", Sig: "ok", Signed: expectedKeyAuth(tok, 0), Serial: "12345678"}})
	}
	// no attestation roots configured + a chain from a CA only the system trust store knows: must be refused
	out = append(out, &Case{Op: "validate", Typ: "da", Status: "pending", Token: tok, Value: "udid-1", Acct: 0, Mut: "apple:sysca-noroots",
		DA: &DAW{Format: "apple", Roots: "none", X5c: "sysca", Key: "p256", ASerial: "sn-1", AUDID: "udid-1", HasNonc: true, Nonce: sha(tok)}})
	out = append(out, &Case{Op: "validate", Typ: "da", Status: "pending", Token: tok, Value: "12345678", Acct: 0, Mut: "step:sysca-noroots",
		DA: &DAW{Format: "step", Roots: "none", X5c: "sysca", Key: "p256", Sig: "ok", Signed: expectedKeyAuth(tok, 0), Serial: "12345678"}})
	// regression inputs for fix b9777f2 (nil *acme.Error panic): P-384 attestation key; serial extension with trailing bytes
	out = append(out, &Case{Op: "validate", Typ: "da", Status: "pending", Token: tok, Value: "12345678", Acct: 0, Mut: "step:key-p384",
		DA: &DAW{Format: "step", Roots: "ca", X5c: "ok", Key: "p384", Sig: "ok", Signed: expectedKeyAuth(tok, 0), Serial: "12345678"}})
	out = append(out, &Case{Op: "validate", Typ: "da", Status: "pending", Token: tok, Value: "12345678", Acct: 0, Mut: "step:serial-trailing",
		DA: &DAW{Format: "step", Roots: "ca", X5c: "ok", Key: "p256", Sig: "ok", Signed: expectedKeyAuth(tok, 0), Serial: "trailing"}})
	// D14 (tpm half): the AK certificate lists no permanent identifier at all
	out = append(out, &Case{Op: "validate", Typ: "da", Status: "pending", Token: tok, Value: "any-device-id", Acct: 0, Mut: "tpm:no-pids",
		DA: &DAW{Format: "tpm", TPMVer: "2.0", Roots: "ca", X5c: "ok", Signed: expectedKeyAuth(tok, 0), TPM: &TPMSpec{}}})
	out = append(out, &Case{Op: "validate", Typ: "da", Status: "pending", Token: tok, Value: "device-1", Acct: 3, Mut: "tpm:exact",
		DA: &DAW{Format: "tpm", TPMVer: "2.0", Roots: "ca", X5c: "ok", Signed: expectedKeyAuth(tok, 3), TPM: &TPMSpec{PIDs: []string{"device-1"}}}})
	// apple with the right nonce, presented under a different account key: the nonce binds the token only
	out = append(out, &Case{Op: "validate", Typ: "da", Status: "pending", Token: tok, Value: "udid-1", Acct: 3, Mut: "apple:any-account",
		DA: &DAW{Format: "apple", Roots: "ca", X5c: "ok", Key: "p256", ASerial: "sn-1", AUDID: "udid-1", HasNonc: true, Nonce: sha(tok)}})
	return out
}
