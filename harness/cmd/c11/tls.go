package main

// tls-alpn-01 and http-01 halves of the scripted client: real crypto/tls handshakes over an
// in-memory buffered connection (no sockets), real certificates made with crypto/x509.

import (
	"bytes"
	"context"
	"crypto/ecdsa"
	"crypto/elliptic"
	"crypto/rand"
	"crypto/sha256"
	"crypto/tls"
	"crypto/x509"
	"crypto/x509/pkix"
	"encoding/asn1"
	"encoding/base64"
	"errors"
	"fmt"
	"io"
	"math/big"
	"net"
	"net/http"
	"reflect"
	"strings"
	"sync"
	"time"

	c "verif/harness/common"
)

type ExtSpec struct {
	OID      string // acme | obs | other
	Critical bool
	Value    []byte
}

type TLSW struct {
	Err          string   `json:",omitempty"` // scripted dial error class ("" = connect)
	NoHandshake  bool     `json:",omitempty"` // hand back a *tls.Conn that never shook hands (no peer certificates)
	ServerProtos []string `json:",omitempty"`
	ClientProtos []string `json:",omitempty"` // nil: the validator's own tls.Config is used unchanged
	ServerMaxVer uint16   `json:",omitempty"`
	DNS          []string `json:",omitempty"`
	IPs          []string `json:",omitempty"`
	Exts         []ExtSpec
	Real         bool `json:",omitempty"` // dialled by the real acme.NewClient() to a loopback TLS server
	Refused      bool `json:",omitempty"` // Real: nobody listens on the port
	obs          *tlsObs
}

// tlsObs is what the scripted TLSDial handed to the validator.
type tlsObs struct {
	err     error
	noCerts bool
	proto   string
	leaf    *x509.Certificate
}

var (
	oidACME     = asn1.ObjectIdentifier{1, 3, 6, 1, 5, 5, 7, 1, 31}
	oidACMEObs  = asn1.ObjectIdentifier{1, 3, 6, 1, 5, 5, 7, 1, 30, 1}
	oidOtherExt = asn1.ObjectIdentifier{1, 3, 6, 1, 4, 1, 37476, 9000, 64, 1}
	serverKey   *ecdsa.PrivateKey
	serialCtr   int64
)

func initTLS() {
	var err error
	serverKey, err = ecdsa.GenerateKey(elliptic.P256(), rand.Reader)
	if err != nil {
		panic(err)
	}
}

func sha(s string) []byte { h := sha256.Sum256([]byte(s)); return h[:] }

func digestB64(s string) string { return base64.RawURLEncoding.EncodeToString(sha(s)) }

// hashTable is the oracle table sent to the model: SHA-256 of every preimage it may ask about.
func hashTable(k *Case) string {
	pre := []string{k.Token}
	if _, th, ok := account(k.reqAcct()); ok {
		pre = append(pre, k.Token+"."+th)
	}
	items := make([]string, len(pre))
	for i, p := range pre {
		items[i] = c.X(p) + ":" + c.XB(sha(p)) + ":" + c.X(digestB64(p))
	}
	return c.List(items)
}

// ---------- in-memory buffered connection ----------

type halfPipe struct {
	mu     sync.Mutex
	cond   *sync.Cond
	buf    []byte
	closed bool
}

func newHalf() *halfPipe { p := &halfPipe{}; p.cond = sync.NewCond(&p.mu); return p }

func (p *halfPipe) write(b []byte) (int, error) {
	p.mu.Lock()
	defer p.mu.Unlock()
	if p.closed {
		return 0, io.ErrClosedPipe
	}
	p.buf = append(p.buf, b...)
	p.cond.Broadcast()
	return len(b), nil
}

func (p *halfPipe) read(b []byte) (int, error) {
	p.mu.Lock()
	defer p.mu.Unlock()
	for len(p.buf) == 0 && !p.closed {
		p.cond.Wait()
	}
	if len(p.buf) == 0 {
		return 0, io.EOF
	}
	n := copy(b, p.buf)
	p.buf = p.buf[n:]
	return n, nil
}

func (p *halfPipe) close() { p.mu.Lock(); p.closed = true; p.cond.Broadcast(); p.mu.Unlock() }

type bufConn struct{ r, w *halfPipe }

func (b *bufConn) Read(p []byte) (int, error)       { return b.r.read(p) }
func (b *bufConn) Write(p []byte) (int, error)      { return b.w.write(p) }
func (b *bufConn) Close() error                     { b.r.close(); b.w.close(); return nil }
func (b *bufConn) LocalAddr() net.Addr              { return &net.TCPAddr{IP: net.IPv4(127, 0, 0, 1), Port: 1} }
func (b *bufConn) RemoteAddr() net.Addr             { return &net.TCPAddr{IP: net.IPv4(127, 0, 0, 1), Port: 2} }
func (b *bufConn) SetDeadline(time.Time) error      { return nil }
func (b *bufConn) SetReadDeadline(time.Time) error  { return nil }
func (b *bufConn) SetWriteDeadline(time.Time) error { return nil }

func connPair() (*bufConn, *bufConn) {
	a, b := newHalf(), newHalf()
	return &bufConn{r: a, w: b}, &bufConn{r: b, w: a}
}

// ---------- certificates ----------

func extOID(name string) asn1.ObjectIdentifier {
	switch name {
	case "acme":
		return oidACME
	case "obs":
		return oidACMEObs
	}
	return oidOtherExt
}

func octetString(b []byte) []byte {
	v, err := asn1.Marshal(b)
	if err != nil {
		panic(err)
	}
	return v
}

func (w *TLSW) certificate() (*tls.Certificate, error) {
	serialCtr++
	tmpl := &x509.Certificate{
		SerialNumber:          big.NewInt(serialCtr),
		Subject:               pkix.Name{CommonName: "acme challenge"},
		NotBefore:             time.Now().Add(-time.Hour),
		NotAfter:              time.Now().Add(24 * time.Hour),
		KeyUsage:              x509.KeyUsageDigitalSignature,
		BasicConstraintsValid: true,
		DNSNames:              w.DNS,
	}
	for _, s := range w.IPs {
		if ip := net.ParseIP(s); ip != nil {
			tmpl.IPAddresses = append(tmpl.IPAddresses, ip)
		}
	}
	for _, e := range w.Exts {
		tmpl.ExtraExtensions = append(tmpl.ExtraExtensions, pkix.Extension{Id: extOID(e.OID), Critical: e.Critical, Value: e.Value})
	}
	der, err := x509.CreateCertificate(rand.Reader, tmpl, tmpl, serverKey.Public(), serverKey)
	if err != nil {
		return nil, err
	}
	return &tls.Certificate{Certificate: [][]byte{der}, PrivateKey: serverKey}, nil
}

// ---------- scripted TLSDial / Get ----------

func (s *scripted) TLSDial(network, addr string, config *tls.Config) (*tls.Conn, error) {
	call := "tls:" + c.X(addr) + ":" + c.X(config.ServerName)
	if network != "tcp" || len(config.NextProtos) != 1 || config.NextProtos[0] != "acme-tls/1" ||
		config.MinVersion != tls.VersionTLS12 || !config.InsecureSkipVerify {
		call += "!cfg"
	}
	s.calls = append(s.calls, call)
	w := s.k.TLS
	obs := &tlsObs{}
	if w != nil {
		w.obs = obs
	}
	fail := func(err error) (*tls.Conn, error) { obs.err = err; return nil, err }
	if w == nil {
		return fail(errors.New("unexpected TLSDial"))
	}
	if w.Real { // the real client's TLSDial with the validator's own configuration
		conn, err := realClient.TLSDial(network, addr, config)
		if err != nil {
			return fail(err)
		}
		cs := conn.ConnectionState()
		obs.proto = cs.NegotiatedProtocol
		if len(cs.PeerCertificates) == 0 {
			obs.noCerts = true
		} else {
			obs.leaf = cs.PeerCertificates[0]
		}
		return conn, nil
	}
	if w.Err != "" {
		return fail(mkErr(w.Err))
	}
	cc, sc := connPair()
	ccfg := config.Clone()
	if w.ClientProtos != nil {
		ccfg.NextProtos = w.ClientProtos
	}
	if w.NoHandshake {
		obs.noCerts = true
		sc.Close()
		return tls.Client(cc, ccfg), nil
	}
	cert, err := w.certificate()
	if err != nil {
		return fail(fmt.Errorf("cannot build certificate: %w", err))
	}
	scfg := &tls.Config{Certificates: []tls.Certificate{*cert}, NextProtos: w.ServerProtos, SessionTicketsDisabled: true,
		MinVersion: tls.VersionTLS10, MaxVersion: w.ServerMaxVer}
	srv := tls.Server(sc, scfg)
	go func() {
		if err := srv.Handshake(); err == nil {
			io.Copy(io.Discard, srv)
		}
		srv.Close()
	}()
	cl := tls.Client(cc, ccfg)
	ctx, cancel := context.WithTimeout(context.Background(), 10*time.Second)
	defer cancel()
	if err := cl.HandshakeContext(ctx); err != nil {
		cc.Close()
		return fail(err)
	}
	cs := cl.ConnectionState()
	obs.proto = cs.NegotiatedProtocol
	if len(cs.PeerCertificates) == 0 {
		obs.noCerts = true
	} else {
		obs.leaf = cs.PeerCertificates[0]
	}
	return cl, nil
}

type errReader struct{}

func (errReader) Read([]byte) (int, error) {
	return 0, errors.New("connection reset while reading body")
}
func (errReader) Close() error { return nil }

func (s *scripted) Get(u string) (*http.Response, error) {
	s.calls = append(s.calls, "get:"+c.X(u))
	w := s.k.HTTP
	if w == nil {
		return nil, errors.New("unexpected Get")
	}
	if w.Real {
		return s.realGet(u)
	}
	if w.Err != "" {
		return nil, mkErr(w.Err)
	}
	var body io.ReadCloser = io.NopCloser(bytes.NewReader(w.Body))
	if w.ReadErr {
		body = errReader{}
	}
	return &http.Response{StatusCode: w.Status, Body: body}, nil
}

// realTLSAlert recognises crypto/tls's unexported alert type (a uint8) inside a *net.OpError.
func realTLSAlert(err error) (int, bool) {
	v := reflect.ValueOf(err)
	if v.IsValid() && v.Kind() == reflect.Uint8 && strings.HasSuffix(v.Type().String(), "tls.alert") {
		return int(v.Uint()), true
	}
	return 0, false
}

// modelFields: the model's view of what the dial delivered, read off the observed connection
// with the same library calls the validator uses (asn1.Unmarshal for the extension value).
func (w *TLSW) modelFields(k *Case) string {
	o := w.obs
	if o == nil {
		return "w=nothing"
	}
	if o.err != nil {
		return "w=" + dialErrModel(o.err)
	}
	if o.noCerts {
		return "w=conn:" + c.X(o.proto) + " leaf=0"
	}
	dns := make([]string, len(o.leaf.DNSNames))
	for i, d := range o.leaf.DNSNames {
		dns[i] = c.X(d)
	}
	ips := make([]string, len(o.leaf.IPAddresses))
	for i, ip := range o.leaf.IPAddresses {
		ips[i] = c.XB(ip)
	}
	var exts []string
	for _, e := range o.leaf.Extensions {
		id := "other"
		switch {
		case e.Id.Equal(oidACME):
			id = "acme"
		case e.Id.Equal(oidACMEObs):
			id = "obs"
		}
		oct := "!"
		var v []byte
		if rest, err := asn1.Unmarshal(e.Value, &v); err == nil && len(rest) == 0 {
			oct = c.XB(v)
		}
		exts = append(exts, id+"~"+c.B(e.Critical)+"~"+oct)
	}
	return fmt.Sprintf("w=conn:%s leaf=1 ldns=%s lips=%s exts=%s", c.X(o.proto), c.List(dns), c.List(ips), c.List(exts))
}
