package main

// The real validation client of acme/client.go (acme.NewClient(): net/http client and
// tls.DialWithDialer) against servers on the loopback interface: an http-01 / tls-alpn-01 case
// marked Real is answered by a local server and fetched by the *real* client; what the client
// returned (status and body after its redirect handling, or the error; connection state or dial
// error) is observed and becomes the model's input, exactly as for the scripted responses.

import (
	"bytes"
	"context"
	"crypto/tls"
	"fmt"
	"io"
	"net"
	"net/http"
	"net/http/httptest"
	"strconv"
	"strings"
	"sync"

	"golang.org/x/net/dns/dnsmessage"

	"github.com/smallstep/certificates/acme"
)

var (
	realClient   acme.Client
	realHTTPSrv  *httptest.Server
	realHTTPPort int
	realTLSLn    net.Listener
	realTLSPort  int
	realMu       sync.Mutex
	realCase     *Case // the case the local servers answer for
	closedPort   int   // a port nobody listens on
)

func portOf(addr string) int {
	_, p, _ := net.SplitHostPort(addr)
	n, _ := strconv.Atoi(p)
	return n
}

func initReal() {
	realClient = acme.NewClient()
	realHTTPSrv = httptest.NewServer(http.HandlerFunc(func(w http.ResponseWriter, r *http.Request) {
		realMu.Lock()
		k := realCase
		realMu.Unlock()
		if k == nil || k.HTTP == nil {
			http.Error(w, "no case", 500)
			return
		}
		h := k.HTTP
		// a chain of h.Redirects redirects ends at the path that serves the configured answer
		hop := 0
		if strings.HasPrefix(r.URL.Path, "/hop/") {
			hop, _ = strconv.Atoi(strings.TrimPrefix(r.URL.Path, "/hop/"))
		} else if r.URL.Path != "/.well-known/acme-challenge/"+k.Token {
			http.NotFound(w, r)
			return
		}
		if hop < h.Redirects {
			w.Header().Set("Location", fmt.Sprintf("/hop/%d", hop+1))
			w.WriteHeader(http.StatusFound)
			return
		}
		w.WriteHeader(h.Status)
		_, _ = w.Write(h.Body)
	}))
	realHTTPPort = portOf(realHTTPSrv.Listener.Addr().String())
	ln, err := tls.Listen("tcp", "127.0.0.1:0", &tls.Config{MinVersion: tls.VersionTLS10,
		GetConfigForClient: func(*tls.ClientHelloInfo) (*tls.Config, error) {
			realMu.Lock()
			k := realCase
			realMu.Unlock()
			if k == nil || k.TLS == nil {
				return nil, fmt.Errorf("no case")
			}
			cert, err := k.TLS.certificate()
			if err != nil {
				return nil, err
			}
			return &tls.Config{Certificates: []tls.Certificate{*cert}, NextProtos: k.TLS.ServerProtos, SessionTicketsDisabled: true,
				MinVersion: tls.VersionTLS10, MaxVersion: k.TLS.ServerMaxVer}, nil
		}})
	if err != nil {
		panic(err)
	}
	realTLSLn, realTLSPort = ln, portOf(ln.Addr().String())
	go func() {
		for {
			conn, err := ln.Accept()
			if err != nil {
				return
			}
			go func(conn net.Conn) {
				defer conn.Close()
				if tc, ok := conn.(*tls.Conn); ok && tc.Handshake() == nil {
					_, _ = io.Copy(io.Discard, tc)
				}
			}(conn)
		}
	}()
	// a port that refuses connections: bind, note, close
	if l, err := net.Listen("tcp", "127.0.0.1:0"); err == nil {
		closedPort = portOf(l.Addr().String())
		l.Close()
	}
}

func closeReal() {
	if realHTTPSrv != nil {
		realHTTPSrv.Close()
	}
	if realTLSLn != nil {
		realTLSLn.Close()
	}
}

// prepareReal points the case at the local servers (the ports are only known at run time).
func (k *Case) prepareReal() {
	if k.HTTP != nil && k.HTTP.Real {
		k.Value, k.PortH = "127.0.0.1", realHTTPPort
		if k.HTTP.Refused {
			k.PortH = closedPort
		}
	}
	if k.DNS != nil && k.DNS.Real && dnsConn == nil {
		k.DNS.Real = false // no loopback UDP here: scripted answer
	}
	if k.TLS != nil && k.TLS.Real {
		k.Value, k.PortT = "127.0.0.1", realTLSPort
		if k.TLS.Refused {
			k.PortT = closedPort
		}
		k.TLS.DNS = nil
		if k.TLS.IPs != nil {
			k.TLS.IPs = []string{"127.0.0.1"}
		}
	}
	realMu.Lock()
	realCase = k
	realMu.Unlock()
}

// realGet: the real client's Get; the response is read completely so that it can be both handed to
// the validator and reported to the model.
func (s *scripted) realGet(u string) (*http.Response, error) {
	w := s.k.HTTP
	resp, err := realClient.Get(u)
	if err != nil {
		w.obsErr = true
		return nil, err
	}
	b, rerr := io.ReadAll(resp.Body)
	resp.Body.Close()
	w.obsStatus, w.obsBody, w.obsOK = resp.StatusCode, b, true
	if rerr != nil {
		w.obsReadErr = true
		resp.Body = errReader{}
		return resp, nil
	}
	resp.Body = io.NopCloser(bytes.NewReader(b))
	return resp, nil
}

// ---------- a name server on the loopback interface for the real client's LookupTxt ----------

var (
	dnsConn net.PacketConn
	dnsAddr string
)

// initDNS starts a UDP name server that answers every TXT question with the records of the current
// case and makes net.DefaultResolver (what net.LookupTXT uses) talk to it.
func initDNS() {
	pc, err := net.ListenPacket("udp", "127.0.0.1:0")
	if err != nil {
		return // no loopback UDP: Real dns cases fall back to the scripted answer (see LookupTxt)
	}
	dnsConn, dnsAddr = pc, pc.LocalAddr().String()
	go func() {
		buf := make([]byte, 4096)
		for {
			n, from, err := pc.ReadFrom(buf)
			if err != nil {
				return
			}
			if resp := dnsAnswer(buf[:n]); resp != nil {
				_, _ = pc.WriteTo(resp, from)
			}
		}
	}()
	net.DefaultResolver = &net.Resolver{PreferGo: true, Dial: func(ctx context.Context, network, address string) (net.Conn, error) {
		var d net.Dialer
		return d.DialContext(ctx, "udp", dnsAddr)
	}}
}

func closeDNS() {
	if dnsConn != nil {
		dnsConn.Close()
	}
}

func dnsAnswer(query []byte) []byte {
	var p dnsmessage.Parser
	hdr, err := p.Start(query)
	if err != nil {
		return nil
	}
	q, err := p.Question()
	if err != nil {
		return nil
	}
	realMu.Lock()
	k := realCase
	realMu.Unlock()
	rh := dnsmessage.Header{ID: hdr.ID, Response: true, RecursionAvailable: true, RecursionDesired: hdr.RecursionDesired}
	var w *DNSW
	if k != nil {
		w = k.DNS
	}
	switch {
	case w == nil:
		rh.RCode = dnsmessage.RCodeServerFailure
	case w.RCode == "nxdomain":
		rh.RCode = dnsmessage.RCodeNameError
	case w.RCode == "servfail":
		rh.RCode = dnsmessage.RCodeServerFailure
	case w.RCode == "refused":
		rh.RCode = dnsmessage.RCodeRefused
	}
	b := dnsmessage.NewBuilder(nil, rh)
	b.EnableCompression()
	if b.StartQuestions() != nil || b.Question(q) != nil || b.StartAnswers() != nil {
		return nil
	}
	if w != nil && rh.RCode == dnsmessage.RCodeSuccess && q.Type == dnsmessage.TypeTXT {
		for _, rec := range w.Records {
			var chunks []string
			for len(rec) > 255 {
				chunks, rec = append(chunks, rec[:255]), rec[255:]
			}
			chunks = append(chunks, rec)
			if b.TXTResource(dnsmessage.ResourceHeader{Name: q.Name, Class: dnsmessage.ClassINET, TTL: 1}, dnsmessage.TXTResource{TXT: chunks}) != nil {
				return nil
			}
		}
	}
	out, err := b.Finish()
	if err != nil {
		return nil
	}
	return out
}
