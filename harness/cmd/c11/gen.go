package main

// Generators: the correct response for (identifier, token, account) and named mutations of it.

import (
	"encoding/base64"
	"encoding/hex"
	"strings"

	c "verif/harness/common"
)

var dnsIDs = []string{"example.com", "a.b.example.org", "xn--bcher-kva.example", "Example.COM", "host", "example.com.", "_x.example.com", "k.example", "www.example.com"}
var wildIDs = []string{"*.example.com", "*.a.b.example.org", "*.*.example.com", "*."}
var v4IDs = []string{"192.0.2.7", "10.0.0.1", "127.0.0.1", "255.255.255.255", "0.0.0.0"}
var v6IDs = []string{"2001:db8::7", "::1", "::ffff:192.0.2.7", "fe80::1", "2001:DB8::7", "2001:0db8:0000:0000:0000:0000:0000:0007", "::"}
var weirdIDs = []string{"", "a b", "exa mple.com/../x", "[::1]", "1.2.3", "host:80", "%zz", "b\u00fccher.example", "K.example", "example.com/", "a@b", "#frag", "?q"}

var unicodeIDs = []string{"\u212a.example", "\u017fub.example", "\u212a\u017f.example", "b\u00fccher.example", "example\u017f.com", "\xffk.example",
	"\xe2\x84k.example", "\u212b.example", "\u0131.example", "K\u212ak.example"}

// asciiFoldName replaces KELVIN SIGN by k/K and LONG S by s/S and drops every other non-ASCII byte.
func asciiFoldName(r *c.Rng, v string) string {
	var b []byte
	for _, ru := range v {
		switch {
		case ru == 0x212a:
			b = append(b, c.Pick(r, []byte("kK")))
		case ru == 0x17f:
			b = append(b, c.Pick(r, []byte("sS")))
		case ru < 128:
			b = append(b, byte(ru))
		}
	}
	return string(b)
}

const alnum = "ABCDEFGHIJKLMNOPQRSTUVWXYZabcdefghijklmnopqrstuvwxyz0123456789"

func genToken(r *c.Rng) string {
	if r.Chance(1, 30) {
		return c.Pick(r, []string{"", "a/b", "a.b", "..", "tok en", "t%41", "a?b", "\u00fc"})
	}
	b := make([]byte, 32)
	for i := range b {
		b[i] = alnum[r.Intn(len(alnum))]
	}
	return string(b)
}

func otherAcct(r *c.Rng, a int) int {
	for {
		b := r.Intn(len(accountJSON))
		if b != a {
			return b
		}
	}
}

// genID picks an identifier value as stored in the challenge; class: dns | wild | v4 | v6 | weird
func genID(r *c.Rng, allowWeird bool) (string, string) {
	switch x := r.Intn(20); {
	case x < 7:
		return c.Pick(r, dnsIDs), "dns"
	case x < 10:
		return c.Pick(r, wildIDs), "wild"
	case x < 14:
		return c.Pick(r, v4IDs), "v4"
	case x < 18 || !allowWeird:
		return c.Pick(r, v6IDs), "v6"
	}
	return c.Pick(r, weirdIDs), "weird"
}

func swapCase(s string) string {
	b := []byte(s)
	for i, ch := range b {
		switch {
		case 'a' <= ch && ch <= 'z':
			b[i] = ch - 32
		case 'A' <= ch && ch <= 'Z':
			b[i] = ch + 32
		}
	}
	return string(b)
}

func stdB64(s string) string { return strings.NewReplacer("-", "+", "_", "/").Replace(s) }

// ---------- http-01 ----------

var httpBodyMuts = []string{
	"exact", "exact", "exact", "nl", "crnl", "sp-front", "tabs", "many-ws", "nbsp-suffix", "emspace-prefix", "ideographic-both", "nel-suffix",
	"lone-85", "lone-a0", "lone-c2", "bom-prefix", "zwsp-suffix", "nul-suffix", "inner-space", "inner-nl", "space-around-dot",
	"upper", "lower", "swapcase", "prefix-x", "suffix-x", "suffix-dot", "trunc1", "trunc-half", "drop-first", "other-thumb", "other-token",
	"token-only", "thumb-only", "token-dot", "dot", "empty", "ws-only", "swapped", "twice", "twice-nl", "json", "quoted", "std-b64", "pad-eq",
	"percent", "html", "digest-instead", "other-thumb-ws", "flip-bit", "line2", "vt-ff",
}

var httpStatuses = []int{200, 200, 200, 200, 201, 204, 206, 299, 300, 301, 302, 304, 399, 400, 401, 403, 404, 418, 429, 499, 500, 502, 503, 599, 0, -1, 100, 199, 1000, 65936}

func httpBody(r *c.Rng, mut, token string, acct int) []byte {
	ka := expectedKeyAuth(token, acct)
	_, th, _ := account(acct)
	switch mut {
	case "exact":
		return []byte(ka)
	case "nl":
		return []byte(ka + "\n")
	case "crnl":
		return []byte(ka + "\r\n")
	case "sp-front":
		return []byte("  " + ka)
	case "tabs":
		return []byte("\t" + ka + "\t")
	case "many-ws":
		return []byte(" \n\r\t\v\f" + ka + "\f\v\t\r\n ")
	case "nbsp-suffix":
		return []byte(ka + "\u00a0")
	case "emspace-prefix":
		return []byte("\u2003" + ka)
	case "ideographic-both":
		return []byte("\u3000" + ka + "\u3000\u2028\u2029\u202f\u205f\u1680\u2000\u200a")
	case "nel-suffix":
		return []byte(ka + "\u0085")
	case "lone-85":
		return []byte(ka + "\x85")
	case "lone-a0":
		return []byte("\xa0" + ka)
	case "lone-c2":
		return []byte(ka + " \xc2")
	case "bom-prefix":
		return []byte("\ufeff" + ka)
	case "zwsp-suffix":
		return []byte(ka + "\u200b")
	case "nul-suffix":
		return []byte(ka + "\x00")
	case "inner-space":
		i := 1 + r.Intn(len(ka))
		return []byte(ka[:i] + " " + ka[i:])
	case "inner-nl":
		i := 1 + r.Intn(len(ka))
		return []byte(ka[:i] + "\n" + ka[i:])
	case "space-around-dot":
		return []byte(token + " . " + th)
	case "upper":
		return []byte(strings.ToUpper(ka))
	case "lower":
		return []byte(strings.ToLower(ka))
	case "swapcase":
		i := r.Intn(len(ka) + 1)
		return []byte(ka[:i] + swapCase(ka[i:]))
	case "prefix-x":
		return []byte("x" + ka)
	case "suffix-x":
		return []byte(ka + "x")
	case "suffix-dot":
		return []byte(ka + ".")
	case "trunc1":
		return []byte(ka[:len(ka)-1])
	case "trunc-half":
		return []byte(ka[:len(ka)/2])
	case "drop-first":
		if len(ka) > 0 {
			return []byte(ka[1:])
		}
		return nil
	case "other-thumb":
		return []byte(expectedKeyAuth(token, otherAcct(r, acct)))
	case "other-thumb-ws":
		return []byte(expectedKeyAuth(token, otherAcct(r, acct)) + "\n")
	case "other-token":
		return []byte(expectedKeyAuth(genToken(r), acct))
	case "token-only":
		return []byte(token)
	case "thumb-only":
		return []byte(th)
	case "token-dot":
		return []byte(token + ".")
	case "dot":
		return []byte(".")
	case "empty":
		return []byte{}
	case "ws-only":
		return []byte(" \n")
	case "swapped":
		return []byte(th + "." + token)
	case "twice":
		return []byte(ka + ka)
	case "twice-nl":
		return []byte(ka + "\n" + ka)
	case "json":
		return []byte(`{"keyAuthorization":"` + ka + `"}`)
	case "quoted":
		return []byte(`"` + ka + `"`)
	case "std-b64":
		return []byte(token + "." + stdB64(th))
	case "pad-eq":
		return []byte(ka + "=")
	case "percent":
		return []byte(strings.Replace(ka, ".", "%2E", 1))
	case "html":
		return []byte("<html><body>" + ka + "</body></html>")
	case "digest-instead":
		return []byte(digestB64(ka))
	case "flip-bit":
		b := []byte(ka)
		if len(b) > 0 {
			b[r.Intn(len(b))] ^= 1 << uint(r.Intn(7))
		}
		return b
	case "line2":
		return []byte("\n\n" + ka + "\n\n")
	case "vt-ff":
		return []byte("\v" + ka + "\f")
	}
	return []byte(ka)
}

func genHTTP(r *c.Rng, k *Case) {
	k.Typ = "http"
	if !k.fixedID {
		k.Value, _ = genID(r, true)
	}
	w := &HTTPW{Status: 200}
	k.HTTP = w
	switch x := r.Intn(20); {
	case x < 3: // transport error
		w.Err = c.Pick(r, errClasses)
		k.Mut = "err-" + w.Err
	case x < 4:
		w.ReadErr = true
		w.Status = c.Pick(r, httpStatuses)
		k.Mut = "read-error"
	case x < 9: // status sweep with the right or a wrong body
		w.Status = c.Pick(r, httpStatuses)
		m := "exact"
		if r.Chance(1, 3) {
			m = c.Pick(r, httpBodyMuts)
		}
		w.Body = httpBody(r, m, k.Token, k.Acct)
		k.Mut = "status+" + m
	default:
		m := c.Pick(r, httpBodyMuts)
		w.Body = httpBody(r, m, k.Token, k.Acct)
		k.Mut = m
		if r.Chance(1, 4) {
			w.Status = c.Pick(r, []int{200, 201, 204, 301, 302, 399})
		}
	}
	if r.Chance(1, 10) {
		k.PortH = c.Pick(r, []int{8080, 1, 65535, 80})
	}
	if !k.fixedID && w.Err == "" && !w.ReadErr && w.Status >= 200 && w.Status <= 599 && w.Status != 204 && w.Status != 304 && r.Chance(1, 20) {
		// now and then the same answer is served by a loopback server and fetched by the real client;
		// the real client must hand over the whole body: pad the right answer and append foreign content
		w.Real, w.Redirects = true, c.Pick(r, []int{0, 0, 1, 2, 9, 10})
		k.Mut = "real-client+" + k.Mut
		ka := expectedKeyAuth(k.Token, k.Acct)
		pad := func(total int) string {
			if total <= len(ka) {
				return ka
			}
			return ka + strings.Repeat(" ", total-len(ka))
		}
		switch r.Intn(8) {
		case 0:
			w.Body = []byte(pad(c.Pick(r, []int{512, 1023, 1024, 1025, 4096, 65536})) + "<html>not the key authorization</html>")
			k.Mut += "+padded-then-foreign"
		case 1:
			w.Body = []byte(pad(c.Pick(r, []int{1024, 4096, 65536, 1 << 20})) + "\n")
			k.Mut += "+padded-ws-only"
		case 2:
			w.Body = []byte(strings.Repeat(" ", c.Pick(r, []int{1024, 8192})) + ka)
			k.Mut += "+ws-then-answer"
		}
	}
}

// ---------- dns-01 ----------

var dnsMuts = []string{
	"exact", "exact", "exact", "among-others", "first-of-many", "last-of-50", "empty-set", "nil-set", "sp-suffix", "sp-prefix", "nl-suffix", "upper", "lower",
	"swapcase", "trunc1", "pad-eq", "std-b64", "hex-digest", "raw-keyauth", "other-thumb", "other-token", "quoted", "split-two", "twice", "empty-string",
	"prefix-x", "suffix-x", "token-only", "thumb-digest", "near-misses", "dup-exact", "flip-bit", "dot-suffix",
	"trailing-bits", "inner-crlf", "inner-nl-others",
}

func dnsRecords(r *c.Rng, mut, token string, acct int) []string {
	ka := expectedKeyAuth(token, acct)
	exp := digestB64(ka)
	_, th, _ := account(acct)
	junk := []string{"v=spf1 -all", "google-site-verification=abc", digestB64("unrelated"), ""}
	switch mut {
	case "exact":
		return []string{exp}
	case "among-others":
		return []string{junk[0], exp, junk[2]}
	case "first-of-many":
		return []string{exp, junk[1], junk[2], junk[3]}
	case "last-of-50":
		out := make([]string, 0, 50)
		for i := 0; i < 49; i++ {
			out = append(out, digestB64(ka+string(rune('a'+i%26))))
		}
		return append(out, exp)
	case "empty-set":
		return []string{}
	case "nil-set":
		return nil
	case "sp-suffix":
		return []string{exp + " "}
	case "sp-prefix":
		return []string{" " + exp}
	case "nl-suffix":
		return []string{exp + "\n"}
	case "upper":
		return []string{strings.ToUpper(exp)}
	case "lower":
		return []string{strings.ToLower(exp)}
	case "swapcase":
		i := r.Intn(len(exp))
		return []string{exp[:i] + swapCase(exp[i:i+1]) + exp[i+1:]}
	case "trunc1":
		return []string{exp[:len(exp)-1]}
	case "pad-eq":
		return []string{exp + "="}
	case "std-b64":
		return []string{base64.StdEncoding.EncodeToString(sha(ka))}
	case "hex-digest":
		return []string{hex.EncodeToString(sha(ka))}
	case "raw-keyauth":
		return []string{ka}
	case "other-thumb":
		return []string{digestB64(expectedKeyAuth(token, otherAcct(r, acct)))}
	case "other-token":
		return []string{digestB64(expectedKeyAuth(genToken(r), acct))}
	case "quoted":
		return []string{`"` + exp + `"`}
	case "split-two":
		return []string{exp[:20], exp[20:]}
	case "twice":
		return []string{exp + exp}
	case "empty-string":
		return []string{""}
	case "prefix-x":
		return []string{"x" + exp}
	case "suffix-x":
		return []string{exp + "x"}
	case "token-only":
		return []string{digestB64(token)}
	case "thumb-digest":
		return []string{digestB64(th)}
	case "near-misses":
		return []string{exp[1:], exp[:len(exp)-1], swapCase(exp), exp + ".", "_" + exp}
	case "dup-exact":
		return []string{exp, exp}
	case "flip-bit":
		b := []byte(exp)
		b[r.Intn(len(b))] ^= 1
		return []string{string(b)}
	case "dot-suffix":
		return []string{exp + "."}
	case "trailing-bits": // same 32 bytes for a lenient base64 decoder: only the two unused low bits of the last character differ
		const alpha = "ABCDEFGHIJKLMNOPQRSTUVWXYZabcdefghijklmnopqrstuvwxyz0123456789-_"
		i := strings.IndexByte(alpha, exp[len(exp)-1])
		return []string{exp[:len(exp)-1] + string(alpha[i^(1+r.Intn(3))])}
	case "inner-crlf": // a lenient decoder skips CR and LF
		i := 1 + r.Intn(len(exp)-1)
		return []string{exp[:i] + "\r\n" + exp[i:]}
	case "inner-nl-others":
		return []string{junk[0], exp[:10] + "\n" + exp[10:], junk[2]}
	}
	return []string{exp}
}

func genDNS(r *c.Rng, k *Case) {
	k.Typ = "dns"
	if !k.fixedID {
		k.Value, _ = genID(r, true)
		if r.Chance(1, 3) {
			k.Value = c.Pick(r, append(append([]string{}, dnsIDs...), wildIDs...))
		}
	}
	w := &DNSW{}
	k.DNS = w
	if r.Chance(3, 20) {
		w.Err = c.Pick(r, errClasses)
		k.Mut = "err-" + w.Err
		return
	}
	k.Mut = c.Pick(r, dnsMuts)
	w.Records = dnsRecords(r, k.Mut, k.Token, k.Acct)
	size := 0
	for _, rec := range w.Records {
		size += len(rec) + 16
	}
	if !k.fixedID && size < 900 && r.Chance(1, 12) {
		// published by a loopback name server and looked up by the real client (net.LookupTXT)
		w.Real = true
		k.Value = c.Pick(r, []string{"example.com", "*.example.com", "a.b.example.org", "www.example.com"})
		k.Mut = "real-client+" + k.Mut
		exp := digestB64(expectedKeyAuth(k.Token, k.Acct))
		switch r.Intn(8) {
		case 0:
			w.Records = []string{`"` + exp + `"`}
			k.Mut += "+quoted"
		case 1:
			w.Records = []string{" " + exp + " ", "v=spf1 -all"}
			k.Mut += "+spaces"
		case 2:
			w.Records = []string{` "` + exp + `" `}
			k.Mut += "+space-quoted"
		case 3:
			w.RCode = c.Pick(r, []string{"nxdomain", "servfail", "refused"})
			k.Mut += "+" + w.RCode
		}
	}
}

// ---------- tls-alpn-01 ----------

var tlsMuts = []string{
	"exact", "exact", "exact", "exact", "non-critical", "extra-dns", "extra-ip", "no-san", "other-name", "case-name", "dot-name", "sub-name", "wild-name", "dup-name",
	"two-ips", "other-ip", "name-as-ip-text", "ip-and-dns", "other-thumb", "other-token", "trunc31", "long33", "raw32", "trailing-byte", "nested",
	"utf8string", "empty-octets", "no-ext", "obsolete-only", "obsolete-then-acme", "other-then-acme", "acme-noncrit-then-none", "alpn-none", "alpn-h2-real",
	"alpn-h2-forced", "alpn-both", "alpn-case", "alpn-space", "alpn-v2", "no-handshake", "tls12", "tls11", "digest-of-token", "zero-digest", "flip-bit",
	"b64-digest", "critical-other-only",
}

func genTLS(r *c.Rng, k *Case) {
	k.Typ = "tls"
	var class string
	unicodeID := false
	if k.fixedID {
		class = "dns"
		if ipField(k.Value) != "!" {
			class = "v4"
		}
	} else {
		k.Value, class = genID(r, false)
		if r.Chance(1, 25) {
			k.Value, class = c.Pick(r, []string{"", "a b", "host:80", "1.2.3", "[::1]"}), "weird"
		}
		if r.Chance(1, 12) { // identifiers with runes whose case folding reaches ASCII (or does not), and broken UTF-8
			k.Value, class, unicodeID = c.Pick(r, unicodeIDs), "dns", true
		}
	}
	w := &TLSW{ServerProtos: []string{"acme-tls/1"}}
	k.TLS = w
	if r.Chance(3, 20) {
		w.Err = c.Pick(r, append(append([]string{}, errClasses...), "op-alert-120", "op-alert-120", "wrapped-op-alert-120", "op-alert-121", "op-alert-119", "op-alert-0", "wrapped-op-alert-40", "op-alert-376"))
		k.Mut = "err-" + w.Err
		return
	}
	ka := expectedKeyAuth(k.Token, k.Acct)
	isIP := class == "v4" || class == "v6"
	name := k.Value
	if isIP {
		w.IPs = []string{name}
	} else {
		w.DNS = []string{name}
	}
	if unicodeID { // a dNSName is an IA5String: present the ASCII name a client would obtain by folding
		name = asciiFoldName(r, k.Value)
		w.DNS = []string{name}
	}
	good := ExtSpec{OID: "acme", Critical: true, Value: octetString(sha(ka))}
	w.Exts = []ExtSpec{good}
	m := c.Pick(r, tlsMuts)
	k.Mut = m
	switch m {
	case "non-critical":
		w.Exts[0].Critical = false
	case "extra-dns":
		w.DNS = append(w.DNS, "other.example.net")
	case "extra-ip":
		w.IPs = append(w.IPs, "198.51.100.9")
	case "no-san":
		w.DNS, w.IPs = nil, nil
	case "other-name":
		w.DNS, w.IPs = []string{"other.example.net"}, nil
	case "case-name":
		if !isIP {
			w.DNS = []string{swapCase(name)}
		}
	case "dot-name":
		if !isIP {
			w.DNS = []string{name + "."}
		}
	case "sub-name":
		if !isIP {
			w.DNS = []string{"www." + name}
		}
	case "wild-name":
		if !isIP {
			w.DNS = []string{"*." + strings.TrimPrefix(name, "*.")}
		}
	case "dup-name":
		w.DNS = append(w.DNS, w.DNS...)
		w.IPs = append(w.IPs, w.IPs...)
	case "two-ips":
		w.DNS, w.IPs = nil, []string{"192.0.2.7", "2001:db8::7"}
	case "other-ip":
		w.DNS, w.IPs = nil, []string{c.Pick(r, []string{"192.0.2.8", "2001:db8::8", "::ffff:192.0.2.8"})}
	case "name-as-ip-text":
		w.DNS, w.IPs = []string{name}, nil
	case "ip-and-dns":
		w.DNS, w.IPs = []string{"other.example.net"}, []string{"192.0.2.7"}
	case "other-thumb":
		w.Exts[0].Value = octetString(sha(expectedKeyAuth(k.Token, otherAcct(r, k.Acct))))
	case "other-token":
		w.Exts[0].Value = octetString(sha(expectedKeyAuth(genToken(r), k.Acct)))
	case "trunc31":
		w.Exts[0].Value = octetString(sha(ka)[:31])
	case "long33":
		w.Exts[0].Value = octetString(append(sha(ka), 0))
	case "raw32":
		w.Exts[0].Value = sha(ka)
	case "trailing-byte":
		w.Exts[0].Value = append(octetString(sha(ka)), 0)
	case "nested":
		w.Exts[0].Value = octetString(octetString(sha(ka)))
	case "utf8string":
		w.Exts[0].Value = append([]byte{0x0c, 32}, sha(ka)...)
	case "empty-octets":
		w.Exts[0].Value = octetString(nil)
	case "no-ext":
		w.Exts = nil
	case "obsolete-only":
		w.Exts[0].OID = "obs"
	case "obsolete-then-acme":
		w.Exts = []ExtSpec{{OID: "obs", Critical: true, Value: octetString(sha(ka))}, good}
	case "other-then-acme":
		w.Exts = []ExtSpec{{OID: "other", Critical: false, Value: octetString(sha("x"))}, good}
	case "acme-noncrit-then-none":
		w.Exts = []ExtSpec{{OID: "acme", Critical: false, Value: octetString(sha(ka))}, {OID: "obs", Critical: true, Value: octetString(sha(ka))}}
	case "alpn-none":
		w.ServerProtos = nil
	case "alpn-h2-real":
		w.ServerProtos = []string{"h2"}
	case "alpn-h2-forced":
		w.ServerProtos, w.ClientProtos = []string{"h2"}, []string{"h2"}
	case "alpn-both":
		w.ServerProtos = []string{"h2", "acme-tls/1"}
	case "alpn-case":
		w.ServerProtos, w.ClientProtos = []string{"ACME-TLS/1"}, []string{"ACME-TLS/1"}
	case "alpn-space":
		w.ServerProtos, w.ClientProtos = []string{"acme-tls/1 "}, []string{"acme-tls/1 "}
	case "alpn-v2":
		w.ServerProtos, w.ClientProtos = []string{"acme-tls/2"}, []string{"acme-tls/2", "acme-tls/1"}
	case "no-handshake":
		w.NoHandshake = true
	case "tls12":
		w.ServerMaxVer = 0x0303
	case "tls11":
		w.ServerMaxVer = 0x0302
	case "digest-of-token":
		w.Exts[0].Value = octetString(sha(k.Token))
	case "zero-digest":
		w.Exts[0].Value = octetString(make([]byte, 32))
	case "flip-bit":
		d := sha(ka)
		d[r.Intn(32)] ^= 1 << uint(r.Intn(8))
		w.Exts[0].Value = octetString(d)
	case "b64-digest":
		w.Exts[0].Value = octetString([]byte(digestB64(ka)))
	case "critical-other-only":
		w.Exts = []ExtSpec{{OID: "other", Critical: true, Value: octetString(sha(ka))}}
	}
	if r.Chance(1, 10) {
		k.PortT = c.Pick(r, []int{8443, 1, 65535, 443})
	}
}

// ---------- types / rev ----------

func genTypes(r *c.Rng, k *Case) {
	k.Op = "types"
	k.IDType = c.Pick(r, []string{"dns", "dns", "dns", "ip", "pi", "wu", "wd", "other"})
	k.Raw, _ = genID(r, true)
	if r.Chance(1, 3) {
		k.Raw = c.Pick(r, []string{"*.example.com", "*.*.example.com", "*", "*.", ".*.example.com", "*example.com", "a.*.example.com", "**.example.com", " *.example.com"})
	}
}

func genRev(r *c.Rng, k *Case) {
	k.Op = "rev"
	n := c.Pick(r, []int{16, 16, 16, 16, 4, 0, 1, 12, 15, 17, 32})
	k.IP = make([]byte, n)
	for i := range k.IP {
		k.IP[i] = byte(r.Intn(256))
	}
	if n == 16 && r.Chance(1, 2) { // v4-mapped
		copy(k.IP, []byte{0, 0, 0, 0, 0, 0, 0, 0, 0, 0, 0xff, 0xff})
	}
}

func genCase(r *c.Rng) *Case {
	k := &Case{Op: "validate", Status: "pending", Acct: r.Intn(len(accountJSON))}
	x := r.Intn(100)
	switch {
	case x < 2:
		genTypes(r, k)
		return k
	case x < 3:
		genRev(r, k)
		return k
	case x < 6:
		genConv(r, k)
		return k
	}
	k.Token = genToken(r)
	k.Strict = r.Chance(1, 3)
	if r.Chance(1, 20) {
		k.DBFail = true
	}
	if r.Chance(1, 20) {
		k.Status = c.Pick(r, []string{"valid", "invalid", "processing"})
	}
	if r.Chance(1, 8) {
		k.PrevErr = c.Pick(r, []string{"connection", "dns", "rejectedIdentifier", "badAttestationStatement"})
	}
	if r.Chance(1, 40) {
		k.Acct = -1
	}
	// the authorization may have further challenges, in any stored state
	if r.Chance(1, 4) {
		for i, n := 0, 1+r.Intn(3); i < n; i++ {
			k.AzSib = append(k.AzSib, c.Pick(r, []string{"pending", "invalid", "invalid", "valid"}))
		}
	}
	switch {
	case x < 30:
		genHTTP(r, k)
	case x < 52:
		genDNS(r, k)
	case x < 80:
		genTLS(r, k)
	case x < 92:
		genDA(r, k)
	case x < 99:
		genWire(r, k)
	default:
		k.Typ = "unknown"
		k.Value = "example.com"
	}
	if k.Wire == nil && k.Acct >= 0 && r.Chance(1, 12) {
		switch r.Intn(3) {
		case 0, 1: // the response is the right one for a VICTIM's key; the requester's JWK carries the victim's thumbprint as its key id
			victim := k.Acct
			k.Acct = otherAcct(r, victim)
			k.JWKKid = thumbs[victim]
			k.Mut += "+kid-is-victim-thumbprint"
		default: // the right response for the requester's own key, whose JWK carries some other key id (or none)
			k.JWKKid = c.Pick(r, []string{"client-chosen-id", "-", thumbs[otherAcct(r, k.Acct)]})
			k.Mut += "+kid-arbitrary"
		}
	}
	return k
}

// corner cases run first on every seed
func corner() []*Case {
	var out []*Case
	tok := "Tm9UaGluZ1VwTXlTbGVldmUxMjM0NTY3"
	add := func(f func(k *Case)) {
		k := &Case{Op: "validate", Status: "pending", Token: tok, Value: "example.com"}
		f(k)
		out = append(out, k)
	}
	for a := range accountJSON { // the right answer, for every account key type and every validator
		a := a
		for _, id := range []string{"example.com", "192.0.2.7", "2001:db8::7", "::ffff:192.0.2.7"} {
			id := id
			add(func(k *Case) {
				k.Acct, k.Typ, k.Value, k.Mut = a, "http", id, "exact"
				k.HTTP = &HTTPW{Status: 200, Body: []byte(expectedKeyAuth(tok, a))}
			})
			add(func(k *Case) {
				k.Acct, k.Typ, k.Value, k.Mut = a, "tls", id, "exact"
				k.TLS = &TLSW{ServerProtos: []string{"acme-tls/1"}, Exts: []ExtSpec{{OID: "acme", Critical: true, Value: octetString(sha(expectedKeyAuth(tok, a)))}}}
				if id == "example.com" {
					k.TLS.DNS = []string{id}
				} else {
					k.TLS.IPs = []string{id}
				}
			})
		}
		for _, id := range []string{"example.com", "*.example.com"} {
			id := id
			add(func(k *Case) {
				k.Acct, k.Typ, k.Value, k.Mut = a, "dns", id, "exact"
				k.DNS = &DNSW{Records: []string{digestB64(expectedKeyAuth(tok, a))}}
			})
		}
	}
	// every transport error class, for every validator
	for _, e := range append(append([]string{}, errClasses...), "op-alert-120", "wrapped-op-alert-120") {
		e := e
		add(func(k *Case) { k.Typ, k.HTTP, k.Mut = "http", &HTTPW{Err: e}, "err-"+e })
		add(func(k *Case) { k.Typ, k.DNS, k.Mut = "dns", &DNSW{Err: e}, "err-"+e })
		add(func(k *Case) { k.Typ, k.TLS, k.Mut = "tls", &TLSW{Err: e}, "err-"+e })
	}
	// reverseAddr on slices ParseIP never returns
	for _, ip := range [][]byte{{1, 2, 3, 4}, {}, {0, 0, 0, 0, 0, 0, 0, 0, 0, 0, 0xff, 0xff, 1, 2, 3, 4}, {0x20, 1, 0xd, 0xb8, 0, 0, 0, 0, 0, 0, 0, 0, 0, 0, 0, 7}} {
		out = append(out, &Case{Op: "rev", IP: ip})
	}
	for _, t := range []string{"dns", "ip", "pi", "wu", "wd", "other"} {
		for _, raw := range []string{"example.com", "*.example.com", "*.*.example.com"} {
			out = append(out, &Case{Op: "types", IDType: t, Raw: raw})
		}
	}
	// the key id of a JWK is not the key: the host serves the key authorization of account 0, the requester is account 3
	// whose JWK says kid = thumbprint of account 0
	add(func(k *Case) {
		k.Acct, k.Typ, k.Mut, k.JWKKid = 3, "http", "exact+kid-is-victim-thumbprint", thumbs[0]
		k.HTTP = &HTTPW{Status: 200, Body: []byte(expectedKeyAuth(tok, 0))}
	})
	add(func(k *Case) {
		k.Acct, k.Typ, k.Mut, k.JWKKid = 3, "dns", "exact+kid-is-victim-thumbprint", thumbs[0]
		k.DNS = &DNSW{Records: []string{digestB64(expectedKeyAuth(tok, 0))}}
	})
	add(func(k *Case) {
		k.Acct, k.Typ, k.Mut, k.JWKKid = 3, "http", "exact+kid-arbitrary", "client-chosen-id"
		k.HTTP = &HTTPW{Status: 200, Body: []byte(expectedKeyAuth(tok, 3))}
	})
	// the real client's LookupTxt at a loopback name server: records exactly as published
	for a := 0; a < 2; a++ {
		a := a
		exp := digestB64(expectedKeyAuth(tok, a))
		for _, d := range []DNSW{{Records: []string{exp}}, {Records: []string{"v=spf1 -all", exp}}, {Records: []string{`"` + exp + `"`}}, {Records: []string{" " + exp}},
			{Records: []string{exp + " "}}, {Records: []string{` "` + exp + `" `}}, {Records: []string{exp}, RCode: "nxdomain"}, {Records: []string{exp}, RCode: "servfail"},
			{Records: nil}, {Records: []string{""}}, {Records: []string{exp[:20], exp[20:]}}} {
			d := d
			d.Real = true
			for _, id := range []string{"example.com", "*.example.com"} {
				id := id
				add(func(k *Case) { k.Acct, k.Typ, k.Mut, k.Value, k.DNS = a, "dns", "real-client", id, &d })
			}
		}
	}
	// every challenge of the authorization fails: it must stay pending
	for _, sib := range [][]string{{"invalid"}, {"invalid", "invalid"}, {"invalid", "pending"}, {"invalid", "valid"}} {
		sib := sib
		add(func(k *Case) {
			k.Typ, k.Mut, k.AzSib = "http", "wrong-body-all-siblings", sib
			k.HTTP = &HTTPW{Status: 200, Body: []byte("not the key authorization")}
		})
	}
	// the real validation client (acme/client.go) against loopback servers
	for a := 0; a < 2; a++ {
		a := a
		ka := expectedKeyAuth(tok, a)
		for _, h := range []HTTPW{{Status: 200, Body: []byte(ka)}, {Status: 200, Body: []byte(ka + "\n"), Redirects: 1}, {Status: 200, Body: []byte(ka), Redirects: 9},
			{Status: 200, Body: []byte(ka), Redirects: 10}, {Status: 200, Body: []byte(ka), Redirects: 11}, {Status: 404, Body: []byte(ka)}, {Status: 503, Body: []byte(ka)},
			{Status: 200, Body: []byte(expectedKeyAuth(tok, a+2))}, {Status: 200, Body: []byte(ka), Refused: true}, {Status: 204},
			{Status: 200, Body: []byte(ka + strings.Repeat(" ", 1024-len(ka)) + "<html>foreign content</html>")},
			{Status: 200, Body: []byte(ka + strings.Repeat("\n", 4096) + "junk")}, {Status: 200, Body: []byte(ka + strings.Repeat(" ", 70000))},
			{Status: 200, Body: []byte(strings.Repeat(" ", 2000) + ka)}, {Status: 200, Body: []byte(ka[:len(ka)-1])}} {
			h := h
			h.Real = true
			add(func(k *Case) { k.Acct, k.Typ, k.Mut, k.HTTP = a, "http", "real-client", &h })
		}
		good := ExtSpec{OID: "acme", Critical: true, Value: octetString(sha(ka))}
		for _, t := range []TLSW{{ServerProtos: []string{"acme-tls/1"}, Exts: []ExtSpec{good}}, {ServerProtos: []string{"h2"}, Exts: []ExtSpec{good}},
			{ServerProtos: nil, Exts: []ExtSpec{good}}, {ServerProtos: []string{"acme-tls/1"}, Exts: []ExtSpec{{OID: "acme", Critical: false, Value: good.Value}}},
			{ServerProtos: []string{"acme-tls/1"}, Exts: []ExtSpec{good}, Refused: true}, {ServerProtos: []string{"acme-tls/1"}, Exts: []ExtSpec{good}, ServerMaxVer: 0x0302},
			{ServerProtos: []string{"acme-tls/1"}, Exts: []ExtSpec{{OID: "acme", Critical: true, Value: octetString(sha(expectedKeyAuth(tok, a+2)))}}}} {
			t := t
			t.Real, t.IPs = true, []string{"127.0.0.1"}
			add(func(k *Case) { k.Acct, k.Typ, k.Mut, k.TLS = a, "tls", "real-client", &t })
		}
	}
	out = append(out, cornerDA()...)
	out = append(out, cornerWire()...)
	out = append(out, cornerConv()...)
	return out
}
