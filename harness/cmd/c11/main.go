// Harness for C11: runs the real ACME challenge validators (/repo/acme Challenge.Validate ->
// http01Validate, dns01Validate, tlsalpn01Validate, deviceAttest01Validate) with a scripted
// acme.Client injected through acme.NewClientContext, on a recording acme.MockDB, and writes
// "<model input line>\t<implementation outcome>".  Also: api.challengeTypes /
// api.newAuthorization (op=types) and acme.reverseAddr (op=rev) through verif hooks.
package main

import (
	"context"
	"crypto"
	"encoding/base64"
	"encoding/hex"
	"encoding/json"
	"errors"
	"flag"
	"fmt"
	"net"
	"os"
	"runtime/debug"
	"strconv"
	"strings"
	"time"
	"unicode/utf8"

	"go.step.sm/crypto/jose"

	"github.com/smallstep/certificates/acme"
	acmeapi "github.com/smallstep/certificates/acme/api"
	"github.com/smallstep/certificates/authority/provisioner"
	c "verif/harness/common"
)

// Case is the raw, replayable description of one check.
type Case struct {
	Op        string   // validate | types | rev
	Typ       string   `json:",omitempty"` // http | dns | tls | da | unknown
	Status    string   `json:",omitempty"` // stored status before the call
	PrevErr   string   `json:",omitempty"` // error left by an earlier attempt ("" = none)
	Value     string   `json:",omitempty"`
	ValueB    []byte   `json:",omitempty"` // Value when it is not valid UTF-8 (JSON would rewrite it)
	Token     string   `json:",omitempty"`
	Acct      int      // index into accounts of the key that signed the request; -1 = key without thumbprint
	Strict    bool     `json:",omitempty"`
	PortH     int      `json:",omitempty"`
	PortT     int      `json:",omitempty"`
	DBFail    bool     `json:",omitempty"`
	AzSt      string   `json:",omitempty"` // stored status of the owning authorization before the call ("" = pending)
	AzExp     bool     `json:",omitempty"` // the owning authorization has expired
	JWKKid    string   `json:",omitempty"` // KeyID carried by the account JWK handed to Validate ("" = as stored, "-" = empty)
	AzSib     []string `json:",omitempty"` // stored statuses of the other challenges of the same authorization
	AzForeign bool     `json:",omitempty"` // the authorization loaded (id from the request URL) is another identifier's: its own challenges are all pending
	Mut       string   `json:",omitempty"` // name of the mutation that produced the response (evidence only)

	HTTP *HTTPW `json:",omitempty"`
	DNS  *DNSW  `json:",omitempty"`
	TLS  *TLSW  `json:",omitempty"`
	DA   *DAW   `json:",omitempty"`
	Wire *WireW `json:",omitempty"`
	Conv *ConvW `json:",omitempty"` // op=conv
	E2E  *E2EW  `json:",omitempty"` // op=e2e

	fixedID bool      // identifier and token are given (e2e): the generators must not choose them
	H       *HandlerW `json:",omitempty"` // op=handler

	IDType string `json:",omitempty"` // op=types
	Raw    string `json:",omitempty"`
	IP     []byte `json:",omitempty"` // op=rev
}

type HTTPW struct {
	Err       string `json:",omitempty"` // error class returned by Get ("" = a response)
	Status    int
	Body      []byte
	ReadErr   bool `json:",omitempty"` // the body reader fails
	Real      bool `json:",omitempty"` // fetched by the real acme.NewClient() from a loopback server
	Redirects int  `json:",omitempty"` // Real: number of 302 hops before the answer
	Refused   bool `json:",omitempty"` // Real: nobody listens on the port

	obsOK, obsErr, obsReadErr bool // Real: what the client returned
	obsStatus                 int
	obsBody                   []byte
}

type DNSW struct {
	Err     string `json:",omitempty"`
	Records []string
	Real    bool   `json:",omitempty"` // looked up by the real acme.NewClient() (net.LookupTXT) at a loopback name server
	RCode   string `json:",omitempty"` // Real: "" | nxdomain | servfail | refused
}

// ---------- accounts (fixed public keys so that lines are reproducible) ----------

var accountJSON = []string{
	`{"use":"sig","kty":"EC","kid":"dInxH-NCMGg8XAAAb1APCHmb7eNAwygjo0lxWC7hBK4","crv":"P-256","alg":"ES256","x":"dVAd9dA2s5eoro_UrbaUu8XCjSJ3RAMnaRWcnJ31XJg","y":"aoQ9hBRsokJTtCDrGwEqQsPUvWTXGQwaeHDIVJp1owk"}`,
	`{"use":"sig","kty":"EC","kid":"Io9ntBMG6NgNSd5-qFdfAbWwVKtu2yeYMuazKFBzZ9s","crv":"P-256","alg":"ES256","x":"tIZOKOLQAmPURxz4J3_xJnN0R_gOLe3UQnmKRG_P5uY","y":"Btl_AQ6EIOL0sAQv0TuLnKTGwrE0Q2J3F_kpHHU0DF0"}`,
	`{"use":"sig","kty":"EC","kid":"1V38TQmmWC3j-PsJQ6ytA0n9ilGZ93kp4nRoghpL-5I","crv":"P-384","alg":"ES384","x":"FE1v4Cv8lPskpUiLn-720DKO7EYdqBIN1HV5SqAJwgembdiRVqXPB9WPN5_7z3Zu","y":"0SkuJZ5DDcNob-nwtGAYP4HoMTGRjywGPRgdo9rMmqvxMrzqekBHQsKDRrLqXD6j"}`,
	`{"use":"sig","kty":"RSA","kid":"Zp_tSvo4hHQtCJn-shxyKbDW8UTyAQTUQXGsYZEJ0Bw","alg":"RS256","n":"wIoKcPXM4h3SMpzTDXEUCbNkLrbt9ZUyo5oFfg7pdZBNfBLQYV97LQeF8ghmRAjDLM9pC8tZPH_Mw68u9KTGL6vmpZK1ldv840j8BY6lHCFZhE5rQS0tmasP7rKLWi0R__H4C8lb2nZxJiCtFsEYv3wJbzqvW8MhRtjYk-XRn4HAXzBAK-KST_0QjWwcrcjMnKNhUpDtBtcOWQe9x2M_ZXxvdZmZzcXZbOl0iG2MkDIu-1IfKDgavkIzN6xNqO987BBlsBAXWSLhh0m_zFlyB6VaE_8_x7YzKnoMwUs8bQL8QOHh5TghXTi2wXk5oNuTHZGbmLWzSwQ2UQxqK-t6xw","e":"AQAB"}`,
	`{"use":"sig","kty":"RSA","kid":"a94cNyXPwpTJLRYrqRvd69VifgCYHsMNs1p4y-RIAKI","alg":"RS256","n":"t07rJDlPOu0s5XW9hmi1hbBITK_MUSngKvpvwGHp3UbIyDz1vp7v0v6KPv6aEQ227cYILork8N5XtQm_1Q0o-yJGswHwMnHOTrRMpCY0hQLzGtNEkPWHSbZjBoSVEll84H6kVW5yCBRq7IrM5LnPsPq88wEwon6ejphW3n4VZoyRwxXBgMZAbv9O50GkJlw6Tn-GZO8B1g8vnkHKntMOiHnRXsRo6DBzEZMjUTNBIN1iPleIAXOGJLeFOdVnMA5k7gr5W334kmYjqsfRDXOkass-FPSlzZvJjUxoX2CqdPaMFUcWpCUqiSV1jI_LgD7eMyLqECzX7d6dSWzUQFaa7Q","e":"AQAB"}`,
	`{"use":"sig","kty":"OKP","kid":"gp7dpdw72_0byo343tDYo1EkQF--6-J2Ipxg_ToByF0","crv":"Ed25519","alg":"EdDSA","x":"-ApwL2Itx70AltyfRtCyi5jEOdholbq3_D74q7XaTRQ"}`,
	`{"use":"sig","kty":"OKP","kid":"4a94qPyafC3U4XdQ7xjLazZH37033lI0jFkLg71pqLc","crv":"Ed25519","alg":"EdDSA","x":"xOrpUvpMBbeu2e2zNLALp3wTd6rIASY9ecL0wLPbgqc"}`,
}

var accounts []*jose.JSONWebKey
var thumbs []string // base64url SHA-256 thumbprints, computed with the library the code calls

func initAccounts() {
	for _, js := range accountJSON {
		k := new(jose.JSONWebKey)
		if err := json.Unmarshal([]byte(js), k); err != nil {
			panic(err)
		}
		tp, err := k.Thumbprint(crypto.SHA256)
		if err != nil {
			panic(err)
		}
		accounts = append(accounts, k)
		thumbs = append(thumbs, base64.RawURLEncoding.EncodeToString(tp))
	}
}

// account returns the JWK of the requesting account and its thumbprint (ok=false: Thumbprint fails).
func account(i int) (*jose.JSONWebKey, string, bool) {
	if i < 0 || i >= len(accounts) {
		return &jose.JSONWebKey{Key: "not-a-key"}, "", false
	}
	return accounts[i], thumbs[i], true
}

// expectedKeyAuth is the harness's own statement of the right answer (token "." thumbprint).
func expectedKeyAuth(token string, acct int) string {
	_, th, _ := account(acct)
	return token + "." + th
}

// ---------- scripted validation client ----------

type scripted struct {
	k     *Case
	calls []string
	tls   *tlsObs // what the TLS dial delivered (tls cases)
}

func (s *scripted) LookupTxt(name string) ([]string, error) {
	s.calls = append(s.calls, "txt:"+c.X(name))
	if s.k.DNS == nil {
		return nil, errors.New("unexpected LookupTxt")
	}
	if s.k.DNS.Real {
		return realClient.LookupTxt(name)
	}
	if s.k.DNS.Err != "" {
		return nil, mkErr(s.k.DNS.Err)
	}
	return s.k.DNS.Records, nil
}

// ---------- error classes a client call can return ----------

type timeoutErr struct{}

func (timeoutErr) Error() string   { return "i/o timeout" }
func (timeoutErr) Timeout() bool   { return true }
func (timeoutErr) Temporary() bool { return true }

type alertLike uint8 // reflect kind uint8, like crypto/tls's unexported alert type

func (a alertLike) Error() string { return "alert " + strconv.Itoa(int(a)) }

var errClasses = []string{"plain", "timeout", "refused", "nxdomain", "dnstemp", "eof", "urlerr", "ctx", "reset", "op-alert-40", "op-alert-80", "op-wrapped-plain", "tlsrecord", "certverify"}

func mkErr(class string) error {
	switch {
	case class == "timeout":
		return &net.OpError{Op: "dial", Net: "tcp", Err: timeoutErr{}}
	case class == "refused":
		return &net.OpError{Op: "dial", Net: "tcp", Err: errors.New("connect: connection refused")}
	case class == "nxdomain":
		return &net.DNSError{Err: "no such host", Name: "x", IsNotFound: true}
	case class == "dnstemp":
		return &net.DNSError{Err: "server misbehaving", Name: "x", IsTemporary: true}
	case class == "eof":
		return errors.New("EOF")
	case class == "urlerr":
		return fmt.Errorf("Get %q: %w", "http://x", &net.OpError{Op: "read", Err: errors.New("connection reset by peer")})
	case class == "ctx":
		return context.DeadlineExceeded
	case class == "reset":
		return &net.OpError{Op: "read", Net: "tcp", Err: errors.New("connection reset by peer")}
	case class == "op-wrapped-plain":
		return fmt.Errorf("wrapped: %w", &net.OpError{Op: "remote error", Err: errors.New("not an alert")})
	case class == "tlsrecord":
		return errors.New("tls: first record does not look like a TLS handshake")
	case class == "certverify":
		return errors.New("x509: certificate signed by unknown authority")
	case strings.HasPrefix(class, "op-alert-"): // *net.OpError carrying a uint8-kinded error value
		n, _ := strconv.Atoi(class[len("op-alert-"):])
		return &net.OpError{Op: "remote error", Err: alertLike(uint8(n))}
	case strings.HasPrefix(class, "wrapped-op-alert-"): // the same behind fmt.Errorf %w (errors.As must find it)
		n, _ := strconv.Atoi(class[len("wrapped-op-alert-"):])
		return fmt.Errorf("dial: %w", &net.OpError{Op: "remote error", Err: alertLike(uint8(n))})
	}
	return errors.New("some error")
}

// dialErrModel is the model's view of a dial error: "alert:<n>" iff errors.As finds a *net.OpError
// whose Err has reflect kind uint8 — computed here independently of the code's tlsAlert.
func dialErrModel(err error) string {
	var op *net.OpError
	if errors.As(err, &op) {
		switch v := op.Err.(type) {
		case alertLike:
			return "alert:" + strconv.Itoa(int(v))
		default:
			// crypto/tls's alert is an unexported uint8 type: recognise it by its message table
			if n, ok := realTLSAlert(op.Err); ok {
				return "alert:" + strconv.Itoa(n)
			}
		}
	}
	return "other"
}

// ---------- recording DB ----------

type recDB struct {
	acme.MockWireDB
	k        *Case
	status   acme.Status
	errType  string
	updates  int
	fpStored bool
	authzSt  acme.Status
}

func errTypeName(e *acme.Error) string {
	if e == nil {
		return "none"
	}
	const p = "urn:ietf:params:acme:error:"
	t := strings.TrimPrefix(e.Type, p)
	switch t {
	case "connection", "dns", "rejectedIdentifier", "badAttestationStatement":
		return t
	}
	return "other-" + t
}

func prevErr(name string) *acme.Error {
	switch name {
	case "connection":
		return acme.NewError(acme.ErrorConnectionType, "earlier attempt")
	case "dns":
		return acme.NewError(acme.ErrorDNSType, "earlier attempt")
	case "rejectedIdentifier":
		return acme.NewError(acme.ErrorRejectedIdentifierType, "earlier attempt")
	case "badAttestationStatement":
		return acme.NewError(acme.ErrorBadAttestationStatementType, "earlier attempt")
	}
	return nil
}

func chType(t string) acme.ChallengeType {
	switch t {
	case "http":
		return acme.HTTP01
	case "dns":
		return acme.DNS01
	case "tls":
		return acme.TLSALPN01
	case "da":
		return acme.DEVICEATTEST01
	case "wiredpop":
		return acme.WIREDPOP01
	case "wireoidc":
		return acme.WIREOIDC01
	}
	return acme.ChallengeType("made-up-01")
}

func statusOf(s string) acme.Status {
	switch s {
	case "pending", "valid", "invalid":
		return acme.Status(s)
	}
	return acme.Status("processing")
}

func statusName(s acme.Status) string {
	switch s {
	case acme.StatusPending, acme.StatusValid, acme.StatusInvalid:
		return string(s)
	}
	return "other"
}

// ---------- running the real code ----------

func (k *Case) runValidate() (out string) {
	k.prepareReal()
	acme.StrictFQDN = k.Strict
	acme.InsecurePortHTTP01 = k.PortH
	acme.InsecurePortTLSALPN01 = k.PortT
	defer func() {
		acme.StrictFQDN, acme.InsecurePortHTTP01, acme.InsecurePortTLSALPN01 = false, 0, 0
		if r := recover(); r != nil {
			out = "crash"
			if os.Getenv("VERIF_C11_TRACE") != "" {
				fmt.Fprintf(os.Stderr, "panic: %v\n%s\n", r, debug.Stack())
			}
		}
	}()
	jwk, _, _ := account(k.Acct)
	if k.JWKKid != "" { // the key id a client supplied with its key; it is no part of the key
		cp := *jwk
		cp.KeyID = k.JWKKid
		if k.JWKKid == "-" {
			cp.KeyID = ""
		}
		jwk = &cp
	}
	ch := &acme.Challenge{
		ID: "chID", AccountID: "accID", AuthorizationID: "azID",
		Value: k.Value, Type: chType(k.Typ), Status: statusOf(k.Status), Token: k.Token, Error: prevErr(k.PrevErr),
	}
	db := &recDB{k: k, status: ch.Status, errType: errTypeName(ch.Error), authzSt: acme.StatusPending}
	// the owning authorization as stored
	azStatus, azExpires := acme.StatusPending, time.Now().Add(time.Hour)
	if k.AzSt != "" {
		azStatus = acme.Status(k.AzSt)
	}
	if k.AzExp {
		azExpires = time.Now().Add(-time.Hour)
	}
	db.MockUpdateChallenge = func(_ context.Context, up *acme.Challenge) error {
		if k.DBFail {
			return errors.New("database refuses the write")
		}
		db.updates++
		db.status, db.errType = up.Status, errTypeName(up.Error)
		return nil
	}
	db.MockGetAuthorization = func(_ context.Context, id string) (*acme.Authorization, error) {
		if k.DA != nil && k.DA.AuthzFail {
			return nil, errors.New("authorization not found")
		}
		owner := "accID"
		if k.DA != nil && k.DA.AuthzOther {
			owner = "anotherAccount"
		}
		az := &acme.Authorization{ID: id, AccountID: owner, Status: azStatus, ExpiresAt: azExpires}
		switch {
		case k.DA != nil && k.DA.AuthzNotOwn:
			az.Challenges = []*acme.Challenge{{ID: "anotherChallenge", Type: acme.DEVICEATTEST01, Status: acme.StatusPending}, nil}
		case k.DA != nil && k.DA.AuthzLists:
			az.Challenges = []*acme.Challenge{{ID: "anotherChallenge"}, {ID: "chID"}}
		}
		return az, nil
	}
	db.MockUpdateAuthorization = func(_ context.Context, az *acme.Authorization) error {
		if k.DA != nil && k.DA.AuthzDBFail {
			return errors.New("database refuses the write")
		}
		if az.Fingerprint != "" {
			db.fpStored = true
		}
		db.authzSt = az.Status
		azStatus, azExpires = az.Status, az.ExpiresAt // the record is replaced by what the validator wrote
		return nil
	}
	sc := &scripted{k: k}
	ctx := acme.NewClientContext(context.Background(), sc)
	var payload []byte
	if k.DA != nil {
		var prov acme.Provisioner
		payload, prov = k.DA.build(k)
		ctx = acme.NewProvisionerContext(ctx, prov)
	}
	if k.Wire != nil {
		var prov acme.Provisioner
		payload, prov = k.Wire.build(k)
		ctx = acme.NewLinkerContext(acme.NewProvisionerContext(ctx, prov), wireLinker)
		db.MockGetAllOrdersByAccountID = func(context.Context, string) ([]string, error) {
			switch k.Wire.Orders {
			case "empty":
				return nil, nil
			case "error":
				return nil, errors.New("cannot list orders")
			}
			return []string{"orderID"}, nil
		}
		store := func(context.Context, string, map[string]interface{}) error {
			if k.Wire.TokenStore {
				return errors.New("database refuses the write")
			}
			return nil
		}
		db.MockCreateDpopToken, db.MockCreateOidcToken = store, store
	}
	err := ch.Validate(ctx, db, jwk, payload)
	ret := "ok"
	if err != nil {
		var ae *acme.Error
		switch {
		case errors.As(err, &ae) && ae.Status == 500:
			ret = "ise"
		case errors.As(err, &ae) && ae.Status == 400 && strings.HasSuffix(ae.Type, ":malformed"):
			ret = "notfound" // a malformed-type problem returned unstored
		case errors.As(err, &ae) && ae.Status == 401 && strings.HasSuffix(ae.Type, ":unauthorized"):
			ret = "unauthorized"
		default:
			ret = "err"
		}
	}
	// the authorization afterwards: the stored record (as the validator left it) owning the stored challenge
	azRec := statusName(azStatus) + ":" + c.B(time.Now().After(azExpires))
	az := &acme.Authorization{ID: "azID", AccountID: "accID", Status: azStatus, ExpiresAt: azExpires,
		Challenges: []*acme.Challenge{{ID: "chID", Type: ch.Type, Status: db.status}}}
	for i, st := range k.AzSib {
		az.Challenges = append(az.Challenges, &acme.Challenge{ID: fmt.Sprintf("sibling%d", i), Type: acme.DNS01, Status: acme.Status(st)})
	}
	if k.AzForeign { // a dns authorization with its three network challenges, none of them answered
		az.Challenges = []*acme.Challenge{{ID: "d1", Type: acme.DNS01, Status: acme.StatusPending}, {ID: "d2", Type: acme.HTTP01, Status: acme.StatusPending},
			{ID: "d3", Type: acme.TLSALPN01, Status: acme.StatusPending}}
	}
	azOut := "err"
	db.MockUpdateAuthorization = func(context.Context, *acme.Authorization) error { return nil } // the fault (if any) was for the validator
	if az.UpdateStatus(ctx, db) == nil {
		azOut = statusName(az.Status)
	}
	tgt := "-"
	if len(sc.calls) > 0 {
		tgt = strings.Join(sc.calls, "+")
	}
	if !k.cmpTarget() {
		tgt = "?"
	}
	return fmt.Sprintf("%s err=%s ret=%s fp=%s azrec=%s az=%s tgt=%s", statusName(db.status), db.errType, ret, c.B(db.fpStored), azRec, azOut, tgt)
}

func idType(t string) acme.IdentifierType {
	switch t {
	case "ip":
		return acme.IP
	case "dns":
		return acme.DNS
	case "pi":
		return acme.PermanentIdentifier
	case "wu":
		return acme.WireUser
	case "wd":
		return acme.WireDevice
	}
	return acme.IdentifierType("made-up")
}

func typeNames(ts []acme.ChallengeType) string {
	out := make([]string, len(ts))
	for i, t := range ts {
		out[i] = string(t)
	}
	return c.List(out)
}

// runTypes calls the real newAuthorization (recording what it stores) and challengeTypes.
func (k *Case) runTypes() (out string) {
	defer func() {
		if r := recover(); r != nil {
			out = "crash"
		}
	}()
	var created []acme.ChallengeType
	var values []string
	db := &acme.MockDB{
		MockCreateChallenge: func(_ context.Context, ch *acme.Challenge) error {
			created = append(created, ch.Type)
			values = append(values, ch.Value)
			return nil
		},
		MockCreateAuthorization: func(context.Context, *acme.Authorization) error { return nil },
	}
	var prov acme.Provisioner = &acme.MockProvisioner{MisChallengeEnabled: func(context.Context, provisioner.ACMEChallenge) bool { return true }}
	if k.IDType == "wu" {
		prov = wireProv // the real provisioner with Wire options: newAuthorization evaluates the OIDC target template
	}
	ctx := acme.NewProvisionerContext(acme.NewDatabaseContext(context.Background(), db), prov)
	az := &acme.Authorization{AccountID: "accID", Identifier: acme.Identifier{Type: idType(k.IDType), Value: k.Raw}, Status: acme.StatusPending}
	if k.IDType == "wd" {
		// newAuthorization evaluates Wire templates / parses the device id for these (the generated raw
		// values are no Wire ids); only challengeTypes is exercised, on the authorization as
		// newAuthorization leaves it since fix 77ebdfa: value kept, never a wildcard
		return fmt.Sprintf("offered=%s val=%s wild=%s", typeNames(acmeapi.VerifChallengeTypes(az)), c.X(k.Raw), c.B(false))
	}
	if err := acmeapi.VerifNewAuthorization(ctx, az); err != nil {
		return "error"
	}
	for _, v := range values {
		if v != az.Identifier.Value {
			return "challenge-value-differs"
		}
	}
	if got := typeNames(acmeapi.VerifChallengeTypes(az)); got != typeNames(created) {
		return "created-differs:" + got + "/" + typeNames(created)
	}
	return fmt.Sprintf("offered=%s val=%s wild=%s", typeNames(created), c.X(az.Identifier.Value), c.B(az.Wildcard))
}

func (k *Case) runRev() (out string) {
	defer func() {
		if r := recover(); r != nil {
			out = "crash"
		}
	}()
	return "arpa=" + c.X(acme.VerifReverseAddr(net.IP(k.IP)))
}

func (k *Case) run() string {
	switch k.Op {
	case "validate":
		return k.runValidate()
	case "handler":
		return k.runHandler()
	case "conv":
		return k.runConv()
	case "e2e":
		return k.runE2E()
	case "types":
		return k.runTypes()
	case "rev":
		return k.runRev()
	}
	return "badop"
}

// ---------- rendering the model's input line ----------

func urlSafe(s string, extra string) bool {
	for i := 0; i < len(s); i++ {
		ch := s[i]
		switch {
		case 'a' <= ch && ch <= 'z', 'A' <= ch && ch <= 'Z', '0' <= ch && ch <= '9', strings.IndexByte(extra, ch) >= 0:
		default:
			return false
		}
	}
	return true
}

// cmpTarget: the request URL of http-01 goes through url.URL.String(), which the model does not
// reproduce for characters that need escaping; every other target is compared always.
func (k *Case) cmpTarget() bool {
	// url.URL.String() escaping is modelled since phase 3: every target is compared
	return true
}

func ipField(v string) string {
	ip := net.ParseIP(v)
	if ip == nil {
		return "!"
	}
	return c.XB(ip.To16())
}

func (k *Case) render() (string, bool) {
	kk := *k
	if !utf8.ValidString(kk.Value) {
		kk.ValueB, kk.Value = []byte(kk.Value), ""
	}
	js, _ := json.Marshal(&kk)
	tail := " case=x" + hex.EncodeToString(js)
	switch k.Op {
	case "types":
		return fmt.Sprintf("op=types idt=%s raw=%s", k.IDType, c.X(k.Raw)) + tail, true
	case "rev":
		return "op=rev ip=" + c.XB(k.IP) + tail, true
	case "conv":
		return k.convLine() + tail, true
	case "validate", "handler", "e2e":
	default:
		return "", false
	}
	_, th, ok := account(k.reqAcct()) // the JWK handed to Validate is the requesting account's key
	perr := k.PrevErr
	if perr == "" {
		perr = "none"
	}
	azst := k.AzSt
	if azst == "" {
		azst = "pending"
	}
	head := fmt.Sprintf("op="+k.Op+" typ=%s st=%s perr=%s azst=%s azexp=%s azforeign=%s azsib=%s val=%s tok=%s thumb=%s ip=%s strict=%s ph=%d pt=%d db=%s cmp=%s h=%s",
		k.Typ, statusName(statusOf(k.Status)), perr, azst, c.B(k.AzExp), c.B(k.AzForeign), c.List(k.AzSib), c.X(k.Value), c.X(k.Token), c.Opt(th, ok), ipField(k.Value), c.B(k.Strict), k.PortH, k.PortT,
		c.B(!k.DBFail), c.B(k.cmpTarget()), hashTable(k))
	var w string
	switch {
	case k.HTTP != nil:
		switch {
		case k.HTTP.Real:
			// the model is told what the local server *serves*; what acme.NewClient() makes of it is modelled (clientGet)
			w = fmt.Sprintf("w=real:%d:%s:%d:%s", k.HTTP.Status, c.XB(k.HTTP.Body), k.HTTP.Redirects, c.B(k.HTTP.Refused))
		case k.HTTP.Err != "":
			w = "w=err"
		case k.HTTP.ReadErr:
			w = fmt.Sprintf("w=resp:%d:!", k.HTTP.Status)
		default:
			w = fmt.Sprintf("w=resp:%d:%s", k.HTTP.Status, c.XB(k.HTTP.Body))
		}
	case k.DNS != nil:
		if k.DNS.Real { // the model is told what the name server publishes; the client is modelled (clientLookupTxt)
			items := make([]string, len(k.DNS.Records))
			for i, r := range k.DNS.Records {
				items[i] = c.X(r)
			}
			l := "-"
			if len(items) > 0 {
				l = strings.Join(items, ";")
			}
			w = fmt.Sprintf("w=realtxt:%s:%s", c.B(k.DNS.RCode != ""), l)
		} else if k.DNS.Err != "" {
			w = "w=err"
		} else {
			items := make([]string, len(k.DNS.Records))
			for i, r := range k.DNS.Records {
				items[i] = c.X(r)
			}
			if len(items) == 0 {
				w = "w=txt:-"
			} else {
				w = "w=txt:" + strings.Join(items, ";")
			}
		}
	case k.TLS != nil:
		w = k.TLS.modelFields(k)
	case k.DA != nil:
		w = k.DA.modelFields(k)
	case k.Wire != nil:
		w = k.Wire.modelFields(k)
	default:
		w = "w=nothing"
	}
	if k.Op == "handler" {
		w += k.handlerFields()
	}
	if k.Op == "e2e" {
		if k.H != nil {
			w += k.handlerFields()
		}
		w += k.e2eFields()
	}
	return head + " " + w + tail, true
}

func main() {
	n := flag.Int("n", 2000, "number of generated cases")
	out := flag.String("out", "", "output file (input<TAB>impl)")
	replay := flag.String("replay", "", "file of model input lines (case=… field) to re-run instead of generating")
	stage := flag.String("stage", "validators", "validators | handler | e2e")
	flag.Parse()
	plantSystemRoot()
	defer os.RemoveAll(sysRootDir)
	initAccounts()
	initTLS()
	initAttest()
	initWire()
	defer closeWire()
	initReal()
	defer closeReal()
	initDNS()
	defer closeDNS()
	initHandler()
	defer closeHandler()
	o, err := c.NewOut(*out)
	if err != nil {
		fmt.Fprintln(os.Stderr, err)
		os.Exit(2)
	}
	defer o.Close()
	emit := func(k *Case) {
		// the implementation runs first: tls and attestation model fields are read off what the
		// scripted client / the payload builder actually delivered
		impl := k.run()
		line, ok := k.render()
		if !ok {
			return
		}
		o.Case(line, impl)
	}
	if *replay != "" {
		data, err := os.ReadFile(*replay)
		if err != nil {
			fmt.Fprintln(os.Stderr, err)
			os.Exit(2)
		}
		for _, l := range strings.Split(string(data), "\n") {
			i := strings.Index(l, "case=x")
			if i < 0 {
				continue
			}
			h := l[i+6:]
			if j := strings.IndexAny(h, " \t"); j >= 0 {
				h = h[:j]
			}
			js, err := hex.DecodeString(h)
			if err != nil {
				continue
			}
			var k Case
			if json.Unmarshal(js, &k) == nil {
				if k.ValueB != nil {
					k.Value, k.ValueB = string(k.ValueB), nil
				}
				emit(&k)
			}
		}
		return
	}
	defer closeE2E()
	if *stage == "e2e" && *replay == "" {
		initE2E()
		for _, k := range cornerE2E() {
			emit(k)
		}
		r := c.NewRng(c.Seed()*0x2545F4914F6CDD1D ^ 0x27D4EB2F165667C5)
		for i := 0; i < *n; i++ {
			emit(genE2ECase(r.Fork()))
		}
		return
	}
	if *stage == "handler" {
		for _, k := range cornerHandler() {
			emit(k)
		}
		r := c.NewRng(c.Seed()*0x2545F4914F6CDD1D ^ 0x1B873593CC9E2D51)
		for i := 0; i < *n; i++ {
			emit(genHandlerCase(r.Fork()))
		}
		return
	}
	for _, k := range corner() {
		emit(k)
	}
	// common.NewRng(seed+1) is NewRng(seed) advanced by one draw: decorrelate the seeds here
	r := c.NewRng(c.Seed()*0x2545F4914F6CDD1D ^ 0x5851F42D4C957F2D)
	for i := 0; i < *n; i++ {
		emit(genCase(r.Fork()))
	}
}
