package main

// wire-dpop-01 and wire-oidc-01: real access tokens / DPoP proofs / ID tokens built with go-jose,
// a local identity provider (JWKS over an in-process httptest server), the real provisioner.ACME
// with Wire options, acme.MockWireDB as store; the facts the model needs are extracted from the
// final token strings with the library calls the validators make.

import (
	"context"
	"crypto"
	"crypto/ecdsa"
	"crypto/ed25519"
	"crypto/elliptic"
	"crypto/sha256"
	"encoding/base64"
	"encoding/json"
	"encoding/pem"
	"fmt"
	"math/big"
	"net/http"
	"net/http/httptest"
	"strings"
	"time"

	"go.step.sm/crypto/jose"
	"go.step.sm/crypto/pemutil"

	"github.com/smallstep/certificates/acme"
	wireid "github.com/smallstep/certificates/acme/wire"
	"github.com/smallstep/certificates/authority/config"
	"github.com/smallstep/certificates/authority/provisioner"
	wireprov "github.com/smallstep/certificates/authority/provisioner/wire"
	c "verif/harness/common"
)

// WireW describes one Wire response: a correct baseline for (account Signer, token, identifier)
// with one field changed.
type WireW struct {
	Kind   string // dpop | oidc
	Signer int    // account the client-side material is made for (== Acct unless another account presents it)
	// overrides (empty = the right value)
	Payload    string            `json:",omitempty"` // notjson | emptytoken
	ServerKey  string            `json:",omitempty"` // other: signed by a key that is not configured
	Garbage    string            `json:",omitempty"` // at | pf | id : that token is not a JWS
	AT         map[string]string `json:",omitempty"` // access token / id token claim overrides ("-" removes)
	PF         map[string]string `json:",omitempty"` // proof claim overrides
	ATExp      int               `json:",omitempty"` // seconds from now (0 = +300)
	PFExp      int               `json:",omitempty"`
	PFKey      int               `json:",omitempty"` // account whose private key signs the proof (0 = Signer), 1-based index+1
	PFKid      string            `json:",omitempty"` // kid header of the proof: "" = signer's | other | none(embedded jwk)
	ATKid      string            `json:",omitempty"` // kid header of the access token: "" = server key id | other
	NumberChal bool              `json:",omitempty"` // proof "chal" is a number
	Orders     string            `json:",omitempty"` // "" ok | empty | error
	TokenStore bool              `json:",omitempty"` // CreateDpopToken / CreateOidcToken fails
	NoProv     bool              `json:",omitempty"` // provisioner without Wire options

	facts      string
	azID, chID string // ids the challenge URL carries (handler stage: the real ones)
}

var (
	wirePriv        = map[int]*jose.JSONWebKey{} // account index -> private JWK
	wireFirst       int                          // index of the first Wire account in accounts
	wireServer      *jose.JSONWebKey
	wireServerOther *jose.JSONWebKey
	idpKey          *jose.JSONWebKey
	idpKeyOther     *jose.JSONWebKey
	idpSrv          *httptest.Server
	wireProv        *provisioner.ACME
	plainProv       *provisioner.ACME
	wireLinker      = acme.NewLinker("ca.verif.test", "acme")
)

const (
	wireClientID = "wireapp://CzbfFjDOQrenCbDxVmgnFw!594930e9d50bb175@wire.com"
	wireHandle   = "wireapp://%40alice_wire@wire.com"
	wireName     = "Alice Smith"
	wireIssuer   = "http://wire.verif.test/clients/594930e9d50bb175/access-token"
)

func fixedEC(seed byte) *ecdsa.PrivateKey {
	d := new(big.Int).SetBytes(sha256.New().Sum([]byte{seed, 'c', '1', '1'}))
	d.Mod(d, new(big.Int).Sub(elliptic.P256().Params().N, big.NewInt(1)))
	d.Add(d, big.NewInt(1))
	k := &ecdsa.PrivateKey{D: d}
	k.PublicKey.Curve = elliptic.P256()
	k.PublicKey.X, k.PublicKey.Y = elliptic.P256().ScalarBaseMult(d.Bytes())
	return k
}

func privJWK(key crypto.PrivateKey, alg string) *jose.JSONWebKey {
	j := &jose.JSONWebKey{Key: key, Algorithm: alg, Use: "sig"}
	pub := j.Public()
	kid, err := acme.KeyToID(&pub)
	if err != nil {
		panic(err)
	}
	j.KeyID = kid
	return j
}

func initWire() {
	// accounts with private keys (deterministic: the lines of a run do not depend on crypto/rand)
	wireFirst = len(accounts)
	for i, key := range []*jose.JSONWebKey{
		privJWK(ed25519.NewKeyFromSeed([]byte("c11-wire-account-seed-000000000A")), "EdDSA"),
		privJWK(ed25519.NewKeyFromSeed([]byte("c11-wire-account-seed-000000000B")), "EdDSA"),
		privJWK(fixedEC(1), "ES256"),
	} {
		pub := key.Public()
		accounts = append(accounts, &pub)
		tp, _ := pub.Thumbprint(crypto.SHA256)
		thumbs = append(thumbs, base64.RawURLEncoding.EncodeToString(tp))
		wirePriv[wireFirst+i] = key
	}
	wireServer, wireServerOther = privJWK(fixedEC(2), "ES256"), privJWK(fixedEC(3), "ES256")
	idpKey, idpKeyOther = privJWK(fixedEC(4), "ES256"), privJWK(fixedEC(5), "ES256")
	idpSrv = httptest.NewServer(http.HandlerFunc(func(w http.ResponseWriter, r *http.Request) {
		pub := idpKey.Public()
		_ = json.NewEncoder(w).Encode(jose.JSONWebKeySet{Keys: []jose.JSONWebKey{pub}})
	}))
	blk, err := pemutil.Serialize(wireServer.Public().Key)
	if err != nil {
		panic(err)
	}
	wireProv = &provisioner.ACME{Type: "ACME", Name: "wire",
		Challenges: []provisioner.ACMEChallenge{provisioner.WIREOIDC_01, provisioner.WIREDPOP_01},
		Options: &provisioner.Options{Wire: &wireprov.Options{
			OIDC: &wireprov.OIDCOptions{
				Provider: &wireprov.Provider{IssuerURL: idpSrv.URL, JWKSURL: idpSrv.URL + "/keys", Algorithms: []string{"ES256"}},
				Config:   &wireprov.Config{ClientID: "wireapp", SignatureAlgorithms: []string{"ES256"}, Now: time.Now},
			},
			DPOP: &wireprov.DPOPOptions{SigningKey: pem.EncodeToMemory(blk), Target: "http://wire.verif.test/clients/{{.DeviceID}}/access-token"},
		}}}
	if err := wireProv.Init(provisioner.Config{Claims: config.GlobalProvisionerClaims}); err != nil {
		panic(err)
	}
	plainProv = &provisioner.ACME{Type: "ACME", Name: "wire"}
	if err := plainProv.Init(provisioner.Config{Claims: config.GlobalProvisionerClaims}); err != nil {
		panic(err)
	}
}

func closeWire() {
	if idpSrv != nil {
		idpSrv.Close()
	}
}

func wireValue(kind string) string {
	if kind == "oidc" {
		b, _ := json.Marshal(wireid.UserID{Name: wireName, Domain: "wire.com", Handle: wireHandle})
		return string(b)
	}
	b, _ := json.Marshal(wireid.DeviceID{Name: wireName, Domain: "wire.com", ClientID: wireClientID, Handle: wireHandle})
	return string(b)
}

func wireAudience(prov acme.Provisioner) string { return wireAudienceFor(prov, "azID", "chID") }

func wireAudienceFor(prov acme.Provisioner, az, ch string) string {
	ctx := acme.NewProvisionerContext(context.Background(), prov)
	return wireLinker.GetLink(ctx, acme.ChallengeLinkType, az, ch)
}

// otherURL: the challenge URL with the literal ids of the default audience replaced (generation time)
func (w *WireW) ids() (string, string) {
	if w.azID == "" {
		return "azID", "chID"
	}
	return w.azID, w.chID
}

func signJWS(key *jose.JSONWebKey, kid string, embed bool, claims map[string]interface{}) string {
	opts := new(jose.SignerOptions)
	sk := *key
	switch {
	case embed:
		sk.KeyID = ""
		opts.EmbedJWK = true
	default:
		sk.KeyID = kid
	}
	signer, err := jose.NewSigner(jose.SigningKey{Algorithm: jose.SignatureAlgorithm(key.Algorithm), Key: &sk}, opts)
	if err != nil {
		panic(err)
	}
	b, _ := json.Marshal(claims)
	obj, err := signer.Sign(b)
	if err != nil {
		panic(err)
	}
	out, err := obj.CompactSerialize()
	if err != nil {
		panic(err)
	}
	return out
}

func (w *WireW) applyOverrides(m map[string]interface{}, ov map[string]string) {
	az, chid := w.ids()
	for k, v := range ov {
		if k == "aud" || k == "acme_aud" { // URLs generated with the placeholder ids follow the real ones
			v = strings.NewReplacer("/azID/", "/"+az+"/", "/chID", "/"+chid).Replace(v)
		}
		switch {
		case v == "-":
			delete(m, k)
		case k == "aud":
			m[k] = []string{v}
		case k == "cnf":
			m[k] = map[string]string{"kid": v}
		default:
			m[k] = v
		}
	}
}

func expOr(sec int) int64 {
	if sec == 0 {
		sec = 300
	}
	return time.Now().Add(time.Duration(sec) * time.Second).Unix()
}

// build returns (payload, provisioner) and records the model's facts.
func (w *WireW) build(k *Case) ([]byte, acme.Provisioner) {
	var prov acme.Provisioner = wireProv
	if w.NoProv {
		prov = plainProv
	}
	az, chid := w.ids()
	aud := wireAudienceFor(prov, az, chid)
	signer := wirePriv[w.Signer]
	if signer == nil {
		signer = wirePriv[wireFirst]
	}
	var payload []byte
	var tokenStr string
	switch w.Kind {
	case "dpop":
		pfKey, pfKid := signer, signer.KeyID
		if w.PFKey > 0 && wirePriv[w.PFKey-1] != nil {
			pfKey = wirePriv[w.PFKey-1]
		}
		if w.PFKid == "other" {
			pfKid = pfKey.KeyID
			if pfKid == signer.KeyID {
				pfKid = wireServerOther.KeyID
			}
		}
		pf := map[string]interface{}{"sub": wireClientID, "aud": []string{aud}, "exp": expOr(w.PFExp), "iat": time.Now().Add(-30 * time.Second).Unix(),
			"chal": k.Token, "handle": wireHandle, "nonce": "n0nce-" + k.Token, "htu": wireIssuer, "name": wireName}
		w.applyOverrides(pf, w.PF)
		if w.NumberChal {
			pf["chal"] = 42
		}
		proof := signJWS(pfKey, pfKid, w.PFKid == "none", pf)
		if w.Garbage == "pf" {
			proof = "not.a.jws"
		}
		at := map[string]interface{}{"iss": wireIssuer, "aud": []string{aud}, "exp": expOr(w.ATExp), "iat": time.Now().Add(-30 * time.Second).Unix(),
			"chal": k.Token, "nonce": "n0nce-" + k.Token, "cnf": map[string]string{"kid": signer.KeyID}, "proof": proof,
			"client_id": wireClientID, "api_version": 5, "scope": "wire_client_id"}
		w.applyOverrides(at, w.AT)
		srv, atKid := wireServer, wireServer.KeyID
		if w.ServerKey == "other" {
			srv = wireServerOther
		}
		if w.ATKid == "other" {
			atKid = wireServerOther.KeyID
		}
		tokenStr = signJWS(srv, atKid, false, at)
		if w.Garbage == "at" {
			tokenStr = "garbage"
		}
		payload, _ = json.Marshal(map[string]string{"access_token": tokenStr})
	case "oidc":
		_, th, _ := account(w.Signer)
		id := map[string]interface{}{"iss": idpSrv.URL, "aud": "wireapp", "sub": "alice", "exp": expOr(w.ATExp), "iat": time.Now().Add(-30 * time.Second).Unix(),
			"name": wireName, "preferred_username": wireHandle, "keyauth": k.Token + "." + th, "acme_aud": aud}
		w.applyOverrides(id, w.AT)
		if w.NumberChal {
			id["name"] = 42
		}
		key := idpKey
		if w.ServerKey == "other" {
			key = idpKeyOther
		}
		tokenStr = signJWS(key, idpKey.KeyID, false, id)
		if w.Garbage == "id" {
			tokenStr = "garbage"
		}
		payload, _ = json.Marshal(map[string]string{"id_token": tokenStr})
	}
	switch w.Payload {
	case "notjson":
		payload = []byte("?!")
	case "emptytoken":
		payload = []byte("{}")
		tokenStr = ""
	}
	if w.Kind == "dpop" {
		w.facts = w.dpopFacts(k, prov, payload, tokenStr, aud)
	} else {
		w.facts = w.oidcFacts(k, prov, payload, tokenStr, aud)
	}
	return payload, prov
}

func xopt(s string, ok bool) string { return c.Opt(s, ok) }

func strList(xs []string) string {
	out := make([]string, len(xs))
	for i, x := range xs {
		out[i] = c.X(x)
	}
	return c.List(out)
}

type jwsFacts struct {
	parses, oneHeader, sigOk, timeOk, far bool
	kid                                   string
	kidOk                                 bool
}

func (j jwsFacts) String() string {
	return fmt.Sprintf("%s:%s:%s:%s:%s:%s", c.B(j.parses), c.B(j.oneHeader), xopt(j.kid, j.kidOk), c.B(j.sigOk), c.B(j.timeOk), c.B(j.far))
}

// inspect parses one compact JWS the way parseAndVerifyWireAccessToken does and returns its facts
// and its (unverified) claims.
func inspect(tok string, key crypto.PublicKey, now time.Time) (f jwsFacts, std jose.Claims, raw map[string]interface{}) {
	jwt, err := jose.ParseSigned(tok)
	if err != nil {
		return
	}
	f.parses = true
	f.oneHeader = len(jwt.Headers) == 1
	if len(jwt.Headers) >= 1 {
		f.kid, f.kidOk = jwt.Headers[0].KeyID, true
		if f.kid == "" {
			id, err := acme.KeyToID(jwt.Headers[0].JSONWebKey)
			f.kid, f.kidOk = id, err == nil
		}
	}
	var probe map[string]interface{}
	f.sigOk = key != nil && jwt.Claims(key, &probe) == nil
	_ = jwt.UnsafeClaimsWithoutVerification(&std, &raw)
	f.timeOk = std.ValidateWithLeeway(jose.Expected{Time: now}, time.Minute) == nil
	f.far = std.Expiry != nil && std.Expiry.Time().After(now.Add(time.Hour))
	return
}

func claimStr(m map[string]interface{}, k string) string {
	s, _ := m[k].(string)
	return s
}

func claimOpt(m map[string]interface{}, k string) string {
	s, ok := m[k].(string)
	return xopt(s, ok)
}

func (w *WireW) afterFields() string {
	return fmt.Sprintf(" orders=%s tstore=%s", c.B(w.Orders == ""), c.B(!w.TokenStore))
}

func (w *WireW) dpopFacts(k *Case, prov acme.Provisioner, payload []byte, _ string, aud string) string {
	now := time.Now().UTC()
	var p struct {
		AccessToken string `json:"access_token"`
	}
	payloadOk := json.Unmarshal(payload, &p) == nil
	_, wireErr := prov.GetOptions().GetWireOptions()
	idOk, targetOk := false, false
	issuer, cid, handle, name := "", "", "", ""
	if did, err := wireid.ParseDeviceID(k.Value); err == nil {
		if cl, err := wireid.ParseClientID(did.ClientID); err == nil {
			idOk = true
			cid, handle, name = did.ClientID, did.Handle, did.Name
			if wireErr == nil {
				if t, err := wireProv.Options.Wire.GetDPOPOptions().EvaluateTarget(cl.DeviceID); err == nil {
					issuer, targetOk = t, true
				}
			}
		}
	}
	acct, _, _ := account(k.reqAcct())
	skid, skidErr := acme.KeyToID(&jose.JSONWebKey{Key: wireServer.Public().Key})
	at, atStd, atRaw := inspect(p.AccessToken, wireServer.Public().Key, now)
	cnf := ""
	if m, ok := atRaw["cnf"].(map[string]interface{}); ok {
		cnf, _ = m["kid"].(string)
	}
	pf, pfStd, pfRaw := inspect(claimStr(atRaw, "proof"), acct.Public().Key, now)
	// the second Claims() into a map, as the validator does for chal / handle / name
	mapOk := pf.parses && pf.sigOk
	return fmt.Sprintf("w=dpop prov=%s payload=%s id=%s target=%s skid=%s akid=%s iss=%s aud=%s cid=%s handle=%s name=%s"+
		" atjws=%s atiss=%s ataud=%s atchal=%s atcnf=%s atcid=%s atscope=%s atnonce=%s"+
		" pf=%s pfaud=%s pfhtu=%s pfsub=%s pfnonce=%s pfchal=%s mapok=%s mchal=%s mhandle=%s mname=%s",
		c.B(wireErr == nil), c.B(payloadOk), c.B(idOk), c.B(targetOk), xopt(skid, skidErr == nil), c.X(acct.KeyID), c.X(issuer), c.X(aud), c.X(cid), c.X(handle), c.X(name),
		at, c.X(atStd.Issuer), strList(atStd.Audience), c.X(claimStr(atRaw, "chal")), c.X(cnf), c.X(claimStr(atRaw, "client_id")), c.X(claimStr(atRaw, "scope")), c.X(claimStr(atRaw, "nonce")),
		pf, strList(pfStd.Audience), c.X(claimStr(pfRaw, "htu")), c.X(pfStd.Subject), c.X(claimStr(pfRaw, "nonce")), c.X(claimStr(pfRaw, "chal")),
		c.B(mapOk), claimOpt(pfRaw, "chal"), claimOpt(pfRaw, "handle"), claimOpt(pfRaw, "name")) + w.afterFields()
}

func (w *WireW) oidcFacts(k *Case, prov acme.Provisioner, payload []byte, _ string, aud string) string {
	var p struct {
		IDToken string `json:"id_token"`
	}
	payloadOk := json.Unmarshal(payload, &p) == nil
	_, wireErr := prov.GetOptions().GetWireOptions()
	uid, idErr := wireid.ParseUserID(k.Value)
	verifierOk, verifyOk, claimsOk, transformOk := false, false, false, false
	keyauth, acmeAud, tName, tHandle := "", "", "!", "!"
	if wireErr == nil {
		opts := wireProv.Options.Wire.GetOIDCOptions()
		if v, err := opts.GetVerifier(context.Background()); err == nil {
			verifierOk = true
			if tok, err := v.Verify(context.Background(), p.IDToken); err == nil {
				verifyOk = true
				var cl struct {
					KeyAuth string `json:"keyauth"`
					ACMEAud string `json:"acme_aud,omitempty"`
					Name    string `json:"preferred_username,omitempty"`
					Handle  string `json:"name"`
				}
				if tok.Claims(&cl) == nil {
					claimsOk = true
					keyauth, acmeAud = cl.KeyAuth, cl.ACMEAud
				}
				var m map[string]interface{}
				if tok.Claims(&m) == nil {
					if tr, err := opts.Transform(m); err == nil {
						transformOk = true
						tName, tHandle = claimOpt(tr, "name"), claimOpt(tr, "preferred_username")
					}
				}
			}
		}
	}
	return fmt.Sprintf("w=oidc prov=%s payload=%s id=%s verifier=%s verify=%s claims=%s keyauth=%s acmeaud=%s aud=%s transform=%s tname=%s thandle=%s name=%s handle=%s",
		c.B(wireErr == nil), c.B(payloadOk), c.B(idErr == nil), c.B(verifierOk), c.B(verifyOk), c.B(claimsOk), c.X(keyauth), c.X(acmeAud), c.X(aud),
		c.B(transformOk), tName, tHandle, c.X(uid.Name), c.X(uid.Handle)) + w.afterFields()
}

func (w *WireW) modelFields(k *Case) string {
	if w.facts == "" {
		w.build(k)
	}
	return w.facts
}

// ---------- generators ----------

var dpopMuts = []string{
	"exact", "exact", "exact", "exact", "other-account-presents", "at-wrong-key", "at-kid-other", "at-iss-other", "at-aud-other-challenge", "at-aud-other-authz",
	"at-expired", "at-exp-2h", "at-chal-empty", "at-cnf-other-account", "at-cnf-empty", "at-clientid-other", "at-scope-other", "at-garbage",
	"pf-signed-by-other-account", "pf-other-account-with-own-kid", "pf-embedded-jwk", "pf-aud-other", "pf-htu-other", "pf-htu-empty", "pf-expired", "pf-exp-2h",
	"pf-sub-other", "pf-nonce-other", "pf-nonce-empty-both", "pf-chal-other-token-both", "pf-chal-mismatch", "pf-chal-number", "pf-handle-other", "pf-handle-missing",
	"pf-name-other", "pf-name-case", "pf-garbage", "payload-notjson", "payload-emptytoken", "value-notjson", "value-no-handle", "value-clientid-bad",
	"orders-empty", "orders-error", "tokenstore-error", "no-wire-options", "at-nonce-other", "at-chal-ws",
	"pf-chal-prefix-both", "at-cnf-prefix", "pf-sub-prefix", "at-aud-prefix", "pf-handle-case",
}

var oidcMuts = []string{
	"exact", "exact", "exact", "exact", "other-account-presents", "keyauth-other-token", "keyauth-nl", "keyauth-missing", "keyauth-upper", "keyauth-token-only",
	"acmeaud-other-challenge", "acmeaud-other-authz", "acmeaud-missing", "acmeaud-slash", "signed-by-other-idp-key", "iss-other", "aud-other-client", "expired",
	"name-other", "name-case", "name-number", "handle-other", "handle-missing", "garbage", "payload-notjson", "payload-emptytoken", "value-notjson", "value-no-domain",
	"orders-empty", "orders-error", "tokenstore-error", "no-wire-options", "keyauth-prefix", "keyauth-other-thumb-same-token", "acmeaud-prefix",
}

func genWire(r *c.Rng, k *Case) {
	kind := c.Pick(r, []string{"dpop", "dpop", "oidc"})
	k.Typ = "wire" + kind
	k.Acct = wireFirst + r.Intn(3)
	w := &WireW{Kind: kind, Signer: k.Acct}
	k.Wire = w
	k.Value = wireValue(kind)
	k.Strict, k.PortH, k.PortT = false, 0, 0
	other := wireFirst + (k.Acct-wireFirst+1+r.Intn(2))%3
	otherURL := func(az, ch string) string {
		return strings.Replace(strings.Replace(wireAudience(wireProv), "azID", az, 1), "chID", ch, 1)
	}
	muts := dpopMuts
	if kind == "oidc" {
		muts = oidcMuts
	}
	m := c.Pick(r, muts)
	k.Mut = kind + ":" + m
	switch m {
	case "other-account-presents": // everything made by and for `other`; the request is signed by Acct
		w.Signer = other
	case "at-wrong-key", "signed-by-other-idp-key":
		w.ServerKey = "other"
	case "at-kid-other":
		w.ATKid = "other"
	case "at-iss-other":
		w.AT = map[string]string{"iss": "http://wire.verif.test/clients/ffff/access-token"}
	case "iss-other":
		w.AT = map[string]string{"iss": "http://other-idp.verif.test"}
	case "at-aud-other-challenge":
		w.AT = map[string]string{"aud": otherURL("azID", "otherCh")}
	case "at-aud-other-authz":
		w.AT = map[string]string{"aud": otherURL("otherAz", "chID")}
	case "aud-other-client":
		w.AT = map[string]string{"aud": "other-client"}
	case "at-expired", "expired":
		w.ATExp = -600
	case "at-exp-2h":
		w.ATExp = 7200
	case "at-chal-empty":
		w.AT, w.PF = map[string]string{"chal": "-"}, map[string]string{"chal": "-"}
	case "at-chal-ws":
		w.AT = map[string]string{"chal": k.Token + " "}
	case "at-cnf-other-account":
		w.AT = map[string]string{"cnf": wirePriv[other].KeyID}
	case "at-cnf-empty":
		w.AT = map[string]string{"cnf": ""}
	case "at-clientid-other":
		w.AT = map[string]string{"client_id": "wireapp://other!device@wire.com"}
	case "at-scope-other":
		w.AT = map[string]string{"scope": "wire_client_id "}
	case "at-nonce-other":
		w.AT = map[string]string{"nonce": "another"}
	case "at-garbage":
		w.Garbage = "at"
	case "garbage":
		w.Garbage = "id"
	case "pf-signed-by-other-account": // kid says Signer, the signature is the other account's
		w.PFKey = other + 1
	case "pf-other-account-with-own-kid":
		w.PFKey, w.PFKid = other+1, "other"
	case "pf-embedded-jwk":
		w.PFKid = "none"
	case "pf-aud-other":
		w.PF = map[string]string{"aud": otherURL("azID", "otherCh")}
	case "pf-htu-other":
		w.PF = map[string]string{"htu": "http://wire.verif.test/other"}
	case "pf-htu-empty":
		w.PF = map[string]string{"htu": "-"}
	case "pf-expired":
		w.PFExp = -600
	case "pf-exp-2h":
		w.PFExp = 7200
	case "pf-sub-other":
		w.PF = map[string]string{"sub": "wireapp://other!device@wire.com"}
	case "pf-nonce-other":
		w.PF = map[string]string{"nonce": "another"}
	case "pf-nonce-empty-both":
		w.AT, w.PF = map[string]string{"nonce": "-"}, map[string]string{"nonce": "-"}
	case "pf-chal-other-token-both": // consistent with each other, but for another challenge's token
		t := genToken(r)
		w.AT, w.PF = map[string]string{"chal": t}, map[string]string{"chal": t}
	case "pf-chal-prefix-both": // a prefix of this challenge's token, consistently in both tokens
		t := "x"
		if len(k.Token) > 1 {
			t = k.Token[:len(k.Token)-1]
		}
		w.AT, w.PF = map[string]string{"chal": t}, map[string]string{"chal": t}
	case "at-cnf-prefix":
		w.AT = map[string]string{"cnf": signerKid(w, 1)}
	case "pf-sub-prefix":
		w.PF = map[string]string{"sub": wireClientID[:len(wireClientID)-1]}
	case "at-aud-prefix":
		a := wireAudience(wireProv)
		w.AT = map[string]string{"aud": a[:len(a)-1]}
	case "pf-handle-case":
		w.PF = map[string]string{"handle": strings.ToUpper(wireHandle)}
	case "keyauth-prefix":
		_, th, _ := account(w.Signer)
		w.AT = map[string]string{"keyauth": k.Token + "." + th[:len(th)-1]}
	case "keyauth-other-thumb-same-token":
		_, th, _ := account(other)
		w.AT = map[string]string{"keyauth": k.Token + "." + th}
	case "acmeaud-prefix":
		a := wireAudience(wireProv)
		w.AT = map[string]string{"acme_aud": a[:len(a)-1]}
	case "pf-chal-mismatch":
		w.PF = map[string]string{"chal": genToken(r)}
	case "pf-chal-number", "name-number":
		w.NumberChal = true
	case "pf-handle-other", "handle-other":
		w.PF, w.AT = map[string]string{"handle": "wireapp://%40mallory@wire.com"}, map[string]string{"preferred_username": "wireapp://%40mallory@wire.com"}
		if kind == "dpop" {
			w.AT = nil
		}
	case "pf-handle-missing", "handle-missing":
		w.PF, w.AT = map[string]string{"handle": "-"}, map[string]string{"preferred_username": "-"}
		if kind == "dpop" {
			w.AT = nil
		}
	case "pf-name-other", "name-other":
		w.PF, w.AT = map[string]string{"name": "Mallory"}, map[string]string{"name": "Mallory"}
		if kind == "dpop" {
			w.AT = nil
		}
	case "pf-name-case", "name-case":
		w.PF, w.AT = map[string]string{"name": "alice smith"}, map[string]string{"name": "alice smith"}
		if kind == "dpop" {
			w.AT = nil
		}
	case "pf-garbage":
		w.Garbage = "pf"
	case "payload-notjson":
		w.Payload = "notjson"
	case "payload-emptytoken":
		w.Payload = "emptytoken"
	case "value-notjson":
		k.Value = "not json"
	case "value-no-handle":
		k.Value = `{"name":"Alice Smith","domain":"wire.com","client-id":"` + wireClientID + `"}`
	case "value-no-domain":
		k.Value = `{"name":"Alice Smith","handle":"` + wireHandle + `"}`
	case "value-clientid-bad":
		k.Value = `{"name":"Alice Smith","domain":"wire.com","client-id":"https://nobang@wire.com","handle":"` + wireHandle + `"}`
	case "orders-empty":
		w.Orders = "empty"
	case "orders-error":
		w.Orders = "error"
	case "tokenstore-error":
		w.TokenStore = true
	case "no-wire-options":
		w.NoProv = true
	case "keyauth-other-token":
		_, th, _ := account(w.Signer)
		w.AT = map[string]string{"keyauth": genToken(r) + "." + th}
	case "keyauth-nl":
		_, th, _ := account(w.Signer)
		w.AT = map[string]string{"keyauth": k.Token + "." + th + "\n"}
	case "keyauth-upper":
		_, th, _ := account(w.Signer)
		w.AT = map[string]string{"keyauth": strings.ToUpper(k.Token + "." + th)}
	case "keyauth-token-only":
		w.AT = map[string]string{"keyauth": k.Token}
	case "keyauth-missing":
		w.AT = map[string]string{"keyauth": "-"}
	case "acmeaud-other-challenge":
		w.AT = map[string]string{"acme_aud": otherURL("azID", "otherCh")}
	case "acmeaud-other-authz":
		w.AT = map[string]string{"acme_aud": otherURL("otherAz", "chID")}
	case "acmeaud-missing":
		w.AT = map[string]string{"acme_aud": "-"}
	case "acmeaud-slash":
		w.AT = map[string]string{"acme_aud": wireAudience(wireProv) + "/"}
	}
}

// signerKid: the signer's key id without its last n characters
func signerKid(w *WireW, n int) string {
	id := wirePriv[w.Signer].KeyID
	return id[:len(id)-n]
}

func cornerWire() []*Case {
	var out []*Case
	tok := "Tm9UaGluZ1VwTXlTbGVldmUxMjM0NTY3"
	for i := 0; i < 3; i++ {
		for _, kind := range []string{"dpop", "oidc"} {
			out = append(out, &Case{Op: "validate", Typ: "wire" + kind, Status: "pending", Token: tok, Value: wireValue(kind), Acct: wireFirst + i, Mut: kind + ":exact",
				Wire: &WireW{Kind: kind, Signer: wireFirst + i}})
			// the same material presented by another account
			out = append(out, &Case{Op: "validate", Typ: "wire" + kind, Status: "pending", Token: tok, Value: wireValue(kind), Acct: wireFirst + (i+1)%3, Mut: kind + ":other-account-presents",
				Wire: &WireW{Kind: kind, Signer: wireFirst + i}})
		}
	}
	return out
}
