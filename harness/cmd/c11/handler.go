package main

// Stage "handler": the real request handlers api.GetChallenge and api.GetAuthorization, called
// in-process on the real acme/db/nosql store (bbolt file in memory), with the scripted validation
// client.  A case is one stored challenge (owned by account Acct, with its authorization), one
// POST to the challenge URL by account H.Requester with URL parameters {authzID, chID}, and the
// authorization polls that follow.

import (
	"context"
	"encoding/json"
	"errors"
	"fmt"
	"net/http"
	"net/http/httptest"
	"os"
	"path/filepath"
	"runtime/debug"
	"strings"
	"time"

	"github.com/go-chi/chi/v5"
	"github.com/smallstep/nosql"

	"github.com/smallstep/certificates/acme"
	acmeapi "github.com/smallstep/certificates/acme/api"
	acmenosql "github.com/smallstep/certificates/acme/db/nosql"
	"github.com/smallstep/certificates/authority/config"
	"github.com/smallstep/certificates/authority/provisioner"
	c "verif/harness/common"
)

type HandlerW struct {
	Requester    int    // index of the account that signs the request (== Acct: the owner)
	AzURL        string // own | foreign | missing : what {authzID} names
	ForeignOther bool   `json:",omitempty"` // the foreign authorization belongs to another account
	FAzSt        string `json:",omitempty"` // stored status of the foreign authorization ("" = pending)
	FAzExp       bool   `json:",omitempty"`
	ChMissing    bool   `json:",omitempty"` // {chID} names no challenge
}

// faultDB refuses writes to one table while armed.
type faultDB struct {
	nosql.DB
	failTable map[string]bool
}

func (f *faultDB) CmpAndSwap(bucket, key, old, nu []byte) ([]byte, bool, error) {
	if f.failTable[string(bucket)] {
		return nil, false, errors.New("database refuses the write")
	}
	return f.DB.CmpAndSwap(bucket, key, old, nu)
}

var (
	hDir    string
	hRaw    nosql.DB
	hFault  *faultDB
	hDB     *acmenosql.DB
	hAccs   []*acme.Account
	hLinker acme.Linker
	hProv   *provisioner.ACME
)

func initHandler() {
	base := os.TempDir()
	if st, err := os.Stat("/dev/shm"); err == nil && st.IsDir() {
		base = "/dev/shm" // bbolt syncs on every write; keep the file in memory
	}
	var err error
	if hDir, err = os.MkdirTemp(base, "verif-c11-"); err != nil {
		panic(err)
	}
	if hRaw, err = nosql.New("bbolt", filepath.Join(hDir, "acme.db")); err != nil {
		panic(err)
	}
	hFault = &faultDB{DB: hRaw}
	if hDB, err = acmenosql.New(hFault); err != nil {
		panic(err)
	}
	hProv = &provisioner.ACME{Type: "ACME", Name: "acme"}
	if err := hProv.Init(provisioner.Config{Claims: config.GlobalProvisionerClaims}); err != nil {
		panic(err)
	}
	for _, key := range accounts {
		acc := &acme.Account{Key: key, Status: acme.StatusValid, ProvisionerID: hProv.GetID(), ProvisionerName: hProv.GetName()}
		if err := hDB.CreateAccount(context.Background(), acc); err != nil {
			panic(err)
		}
		hAccs = append(hAccs, acc)
	}
	hLinker = acme.NewLinker("ca.verif.test", "acme")
}

func closeHandler() {
	if hRaw != nil {
		hRaw.Close()
	}
	if hDir != "" {
		os.RemoveAll(hDir)
	}
}

func (k *Case) reqAcct() int {
	if k.H != nil {
		return k.H.Requester
	}
	return k.Acct
}

func idTypeOf(typ, value string) acme.IdentifierType {
	switch {
	case typ == "da":
		return acme.PermanentIdentifier
	case typ == "wiredpop":
		return acme.WireDevice
	case typ == "wireoidc":
		return acme.WireUser
	case ipField(value) != "!":
		return acme.IP
	}
	return acme.DNS
}

func hctx(acc *acme.Account, payload []byte, cl acme.Client, prov acme.Provisioner, params map[string]string) context.Context {
	ctx := acme.NewContext(context.Background(), hDB, cl, hLinker, nil)
	ctx = acme.NewProvisionerContext(ctx, prov)
	ctx = context.WithValue(ctx, acmeapi.ContextKey("acc"), acc)
	ctx = context.WithValue(ctx, acmeapi.ContextKey("jwk"), acc.Key)
	ctx = acmeapi.VerifPayloadContext(ctx, payload, len(payload) == 0, string(payload) == "{}")
	rctx := chi.NewRouteContext()
	for key, v := range params {
		rctx.URLParams.Add(key, v)
	}
	return context.WithValue(ctx, chi.RouteCtxKey, rctx)
}

func hcall(h http.HandlerFunc, ctx context.Context) (int, http.Header, []byte) {
	rec := httptest.NewRecorder()
	req := httptest.NewRequest("POST", "https://ca.verif.test/acme/acme/x", nil).WithContext(ctx)
	h(rec, req)
	return rec.Code, rec.Header(), rec.Body.Bytes()
}

func problemType(body []byte) string {
	var p struct {
		Type string `json:"type"`
	}
	_ = json.Unmarshal(body, &p)
	return strings.TrimPrefix(p.Type, "urn:ietf:params:acme:error:")
}

// pollAuthz: api.GetAuthorization by the authorization's owner; returns the status in the answer.
func pollAuthz(owner *acme.Account, id string) string {
	code, _, body := hcall(acmeapi.GetAuthorization, hctx(owner, nil, &scripted{k: &Case{}}, hProv, map[string]string{"authzID": id}))
	if code != 200 {
		return fmt.Sprintf("code%d", code)
	}
	var az struct {
		Status acme.Status `json:"status"`
	}
	if json.Unmarshal(body, &az) != nil {
		return "badjson"
	}
	return statusName(az.Status)
}

func expiry(expired bool) time.Time {
	if expired {
		return time.Now().Add(-time.Hour).UTC()
	}
	return time.Now().Add(time.Hour).UTC()
}

func (k *Case) runHandler() (out string) {
	k.prepareReal()
	acme.StrictFQDN = k.Strict
	acme.InsecurePortHTTP01 = k.PortH
	acme.InsecurePortTLSALPN01 = k.PortT
	defer func() {
		acme.StrictFQDN, acme.InsecurePortHTTP01, acme.InsecurePortTLSALPN01 = false, 0, 0
		hFault.failTable = nil
		if r := recover(); r != nil {
			out = "crash"
			if os.Getenv("VERIF_C11_TRACE") != "" {
				fmt.Fprintf(os.Stderr, "panic: %v\n%s\n", r, debug.Stack())
			}
		}
	}()
	h := k.H
	if k.Acct < 0 || k.Acct >= len(hAccs) || h.Requester < 0 || h.Requester >= len(hAccs) {
		return "badcase"
	}
	bg := context.Background()
	owner, requester := hAccs[k.Acct], hAccs[h.Requester]
	// ---- the stored objects: challenge, its authorization, and (maybe) another authorization
	ch := &acme.Challenge{AccountID: owner.ID, Type: chType(k.Typ), Token: k.Token, Value: k.Value}
	if err := hDB.CreateChallenge(bg, ch); err != nil {
		return "setup-error"
	}
	if statusName(statusOf(k.Status)) != "pending" || k.PrevErr != "" { // state left by earlier attempts
		ch.Status, ch.Error = statusOf(k.Status), prevErr(k.PrevErr)
		if err := hDB.UpdateChallenge(bg, ch); err != nil {
			return "setup-error"
		}
	}
	azStatus := acme.StatusPending
	if k.AzSt != "" {
		azStatus = acme.Status(k.AzSt)
	}
	own := &acme.Authorization{AccountID: owner.ID, Identifier: acme.Identifier{Type: idTypeOf(k.Typ, k.Value), Value: k.Value},
		Status: azStatus, ExpiresAt: expiry(k.AzExp), Challenges: []*acme.Challenge{ch}, Token: k.Token}
	if err := hDB.CreateAuthorization(bg, own); err != nil {
		return "setup-error"
	}
	urlAz, chID := own.ID, ch.ID
	var foreign *acme.Authorization
	foreignOwner := owner
	switch h.AzURL {
	case "foreign":
		if h.ForeignOther {
			foreignOwner = hAccs[(k.Acct+1)%len(hAccs)]
		}
		fch := &acme.Challenge{AccountID: foreignOwner.ID, Type: acme.DNS01, Token: "foreignToken0000000000000000000000", Value: "victim.example"}
		if err := hDB.CreateChallenge(bg, fch); err != nil {
			return "setup-error"
		}
		fst := acme.StatusPending
		if h.FAzSt != "" {
			fst = acme.Status(h.FAzSt)
		}
		foreign = &acme.Authorization{AccountID: foreignOwner.ID, Identifier: acme.Identifier{Type: acme.DNS, Value: "victim.example"},
			Status: fst, ExpiresAt: expiry(h.FAzExp), Challenges: []*acme.Challenge{fch}, Token: fch.Token}
		if err := hDB.CreateAuthorization(bg, foreign); err != nil {
			return "setup-error"
		}
		urlAz = foreign.ID
	case "missing":
		urlAz = "nonexistentAuthz"
	}
	if h.ChMissing {
		chID = "nonexistentChallenge"
	}
	// ---- the request
	sc := &scripted{k: k}
	payload := []byte("{}")
	var prov acme.Provisioner = hProv
	if k.DA != nil {
		payload, prov = k.DA.build(k)
	}
	if k.Wire != nil {
		k.Wire.azID, k.Wire.chID = urlAz, chID
		payload, prov = k.Wire.build(k)
		// the Wire validators read the owner's order list: start from an account without orders
		_ = hRaw.Del([]byte("acme_account_orders_index"), []byte(owner.ID))
		if k.Wire.Orders == "" {
			o := &acme.Order{AccountID: owner.ID, ProvisionerID: wireProv.GetID(), Status: acme.StatusPending, ExpiresAt: expiry(false),
				AuthorizationIDs: []string{own.ID}, Identifiers: []acme.Identifier{own.Identifier}}
			if err := hDB.CreateOrder(bg, o); err != nil {
				return "setup-error"
			}
		}
	}
	hFault.failTable = map[string]bool{"acme_challenges": k.DBFail, "acme_authzs": k.DA != nil && k.DA.AuthzDBFail,
		"wire_acme_dpop_token": k.Wire != nil && k.Wire.TokenStore, "wire_acme_oidc_token": k.Wire != nil && k.Wire.TokenStore}
	code, hdr, body := hcall(acmeapi.GetChallenge, hctx(requester, payload, sc, prov, map[string]string{"authzID": urlAz, "chID": chID}))
	hFault.failTable = nil
	// ---- what is stored now
	stored, err := hDB.GetChallenge(bg, ch.ID, own.ID)
	if err != nil {
		return "readback-error"
	}
	var codeS string
	switch {
	case code == 200:
		codeS = "ok"
		var got struct {
			Status acme.Status `json:"status"`
		}
		if json.Unmarshal(body, &got) != nil || got.Status != stored.Status {
			codeS = "ok-body-differs-from-store"
		}
		if !strings.Contains(hdr.Get("Location"), "/challenge/"+urlAz+"/"+chID) || !strings.Contains(strings.Join(hdr.Values("Link"), " "), "/authz/"+urlAz) {
			codeS += "!hdr"
		}
	case code == 401 && problemType(body) == "unauthorized":
		codeS = "unauthorized"
	case code == 400 && problemType(body) == "malformed":
		codeS = "notfound"
	case code == 500:
		codeS = "ise"
	default:
		codeS = fmt.Sprintf("code%d-%s", code, problemType(body))
	}
	fp := func(id string) bool {
		az, err := hDB.GetAuthorization(bg, id)
		return err == nil && az.Fingerprint != ""
	}
	azURL := "-"
	fpURL := false
	if foreign != nil {
		fpURL = fp(foreign.ID)
		azURL = pollAuthz(foreignOwner, foreign.ID)
	}
	fpOwn := fp(own.ID)
	azOwn := pollAuthz(owner, own.ID)
	tgt := "-"
	if len(sc.calls) > 0 {
		tgt = strings.Join(sc.calls, "+")
	}
	if !k.cmpTarget() {
		tgt = "?"
	}
	return fmt.Sprintf("%s st=%s err=%s fpown=%s fpurl=%s azown=%s azurl=%s tgt=%s", codeS, statusName(stored.Status), errTypeName(stored.Error),
		c.B(fpOwn), c.B(fpURL), azOwn, azURL, tgt)
}

// handlerFields are the extra model fields of op=handler.
func (k *Case) handlerFields() string {
	h := k.H
	fst := h.FAzSt
	if fst == "" {
		fst = "pending"
	}
	azurl := h.AzURL
	if azurl == "foreign" && h.ForeignOther {
		azurl = "foreignother"
	}
	return fmt.Sprintf(" chex=%s owner=%s azurl=%s fazst=%s fazexp=%s", c.B(!h.ChMissing), c.B(h.Requester == k.Acct), azurl, fst, c.B(h.FAzExp))
}

// genHandlerCase: a validator case (response generated around the right answer for account X)
// turned into a request: X is the owner and requester, or only one of the two.
func genHandlerCase(r *c.Rng) *Case {
	var k *Case
	for {
		k = genCase(r.Fork())
		if k.Op == "validate" && k.Typ != "unknown" && k.Acct >= 0 {
			break
		}
	}
	k.Op = "handler"
	k.AzForeign, k.AzSib = false, nil
	// the store keeps challenges as JSON: an identifier or token that is not valid UTF-8 cannot be stored as such
	k.Value, k.Token = strings.ToValidUTF8(k.Value, "\ufffd"), strings.ToValidUTF8(k.Token, "\ufffd")
	if k.DA != nil {
		k.DA.AuthzFail, k.DA.AuthzOther, k.DA.AuthzNotOwn, k.DA.AuthzLists = false, false, false, false // decided by the URL here
	}
	h := &HandlerW{Requester: k.Acct, AzURL: "own"}
	k.H = h
	x := k.Acct
	switch r.Intn(8) {
	case 0: // another account signs; the response carries the *requester's* key authorization
		k.Acct = otherAcct(r, x)
	case 1: // another account signs; the response carries the *owner's* key authorization
		h.Requester = otherAcct(r, x)
	}
	switch r.Intn(10) {
	case 0, 1:
		h.AzURL = "foreign"
		h.ForeignOther = r.Chance(1, 2)
		switch r.Intn(5) {
		case 0:
			h.FAzSt = "invalid"
		case 1:
			h.FAzSt = "valid"
		case 2:
			h.FAzExp = true
		}
	case 2:
		h.AzURL = "missing"
	}
	if r.Chance(1, 30) {
		h.ChMissing = true
	}
	if k.Status == "processing" {
		k.Status = "pending"
	}
	if k.Wire != nil && k.Wire.Orders == "error" {
		k.Wire.Orders = "empty" // the real store has no "cannot list" fault here; both end in the same internal error
	}
	return k
}

func cornerHandler() []*Case {
	var out []*Case
	tok := "Tm9UaGluZ1VwTXlTbGVldmUxMjM0NTY3"
	http := func(owner, req, bodyFor int, f func(k *Case)) {
		k := &Case{Op: "handler", Typ: "http", Status: "pending", Token: tok, Value: "example.com", Acct: owner, Mut: "exact",
			HTTP: &HTTPW{Status: 200, Body: []byte(expectedKeyAuth(tok, bodyFor))}, H: &HandlerW{Requester: req, AzURL: "own"}}
		if f != nil {
			f(k)
		}
		out = append(out, k)
	}
	http(0, 0, 0, nil)                                                                     // the owner proves control
	http(0, 3, 3, nil)                                                                     // another account, with its own key authorization served
	http(0, 3, 0, nil)                                                                     // another account, the owner's key authorization served
	http(0, 0, 3, nil)                                                                     // the owner asks, the host serves another account's key authorization
	http(0, 0, 0, func(k *Case) { k.H.AzURL = "foreign" })                                 // authz id of another authorization in the URL
	http(0, 0, 0, func(k *Case) { k.H.AzURL = "missing" })                                 // unknown authz id in the URL
	http(0, 0, 0, func(k *Case) { k.H.ChMissing = true })                                  // unknown challenge id
	http(0, 0, 0, func(k *Case) { k.AzSt = "invalid" })                                    // the authorization is already invalid
	http(0, 0, 0, func(k *Case) { k.AzExp = true })                                        // … or expired
	http(0, 0, 0, func(k *Case) { k.Status, k.PrevErr = "invalid", "rejectedIdentifier" }) // retry after a final failure
	http(0, 0, 0, func(k *Case) { k.PrevErr = "connection" })                              // retry after a retryable failure
	http(0, 0, 0, func(k *Case) { k.DBFail = true })
	// device-attest through the handler: own / foreign (same and other account) / missing authorization in the URL
	for _, az := range []struct {
		url   string
		other bool
		fst   string
	}{{"own", false, ""}, {"foreign", false, ""}, {"foreign", true, ""}, {"foreign", true, "invalid"}, {"missing", false, ""}} {
		out = append(out, &Case{Op: "handler", Typ: "da", Status: "pending", Token: tok, Value: "12345678", Acct: 0, Mut: "step:exact",
			DA: &DAW{Format: "step", Roots: "ca", X5c: "ok", Key: "p256", Sig: "ok", Signed: expectedKeyAuth(tok, 0), Serial: "12345678"},
			H:  &HandlerW{Requester: 0, AzURL: az.url, ForeignOther: az.other, FAzSt: az.fst}})
	}
	// a step attestation signed for the owner's key authorization, presented by another account
	out = append(out, &Case{Op: "handler", Typ: "da", Status: "pending", Token: tok, Value: "12345678", Acct: 0, Mut: "step:exact",
		DA: &DAW{Format: "step", Roots: "ca", X5c: "ok", Key: "p256", Sig: "ok", Signed: expectedKeyAuth(tok, 0), Serial: "12345678"},
		H:  &HandlerW{Requester: 2, AzURL: "own"}})
	return out
}
