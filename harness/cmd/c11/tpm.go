package main

// `tpm` attestation statements without a TPM: the TPM2B_PUBLIC / TPMS_ATTEST / TPMT_SIGNATURE
// structures are encoded with go-tpm's legacy tpm2 package and signed with a software RSA key
// standing in for the attestation key (AK); the AK certificate is issued by the synthetic CA with
// the TCG SAN / EKU the validator requires.  Everything the validator checks is checked for real;
// what is *not* real is that a TPM produced the structures.

import (
	"crypto"
	"crypto/rand"
	"crypto/rsa"
	"crypto/sha1" //nolint:gosec // COSE RS1 is what the validator accepts
	"crypto/sha256"
	"crypto/x509"
	"encoding/asn1"
	"fmt"

	"github.com/google/go-tpm/legacy/tpm2"
	"github.com/smallstep/go-attestation/attest"
	"go.step.sm/crypto/keyutil"
	"go.step.sm/crypto/x509util"

	"github.com/smallstep/certificates/acme"
	c "verif/harness/common"
)

type TPMSpec struct {
	PIDs  []string `json:",omitempty"` // permanent identifiers in the AK certificate
	Extra string   `json:",omitempty"` // qualifying data: "" = the full digest | empty | prefix1 | prefix20 | prefix31 | long33 | zero32 | suffix20
	Mut   string   `json:",omitempty"` // "" | sig-flip | other-name | subject | no-hw | no-eku | magic | restricted | alg-bad | alg-es256 | pubarea-empty | wrongca
}

var (
	oidTCGAIK          = asn1.ObjectIdentifier{2, 23, 133, 8, 3}
	oidTPMManufacturer = asn1.ObjectIdentifier{2, 23, 133, 2, 1}
	oidTPMModel        = asn1.ObjectIdentifier{2, 23, 133, 2, 2}
	oidTPMVersion      = asn1.ObjectIdentifier{2, 23, 133, 2, 3}
	oidSAN             = asn1.ObjectIdentifier{2, 5, 29, 17}
	tpmAK, tpmKey      *rsa.PrivateKey
	akCertCache        = map[string]*x509.Certificate{}
)

func initTPM() {
	var err error
	if tpmAK, err = rsa.GenerateKey(rand.Reader, 2048); err != nil {
		panic(err)
	}
	if tpmKey, err = rsa.GenerateKey(rand.Reader, 2048); err != nil {
		panic(err)
	}
}

func (t *TPMSpec) akCert(w *DAW) *x509.Certificate {
	key := fmt.Sprint(t.PIDs, "|", t.Mut, "|", w.X5c)
	if crt, ok := akCertCache[key]; ok {
		return crt
	}
	tmpl := &x509.Certificate{PublicKey: tpmAK.Public(), IsCA: false}
	if t.Mut == "ak-ecc" { // an ECC attestation key: go-attestation verifies RSA AK signatures only
		tmpl.PublicKey = attKeys["p256"].Public()
	}
	if t.Mut != "no-eku" {
		tmpl.UnknownExtKeyUsage = []asn1.ObjectIdentifier{oidTCGAIK}
	}
	if t.Mut == "subject" {
		tmpl.Subject.CommonName = "an AK with a subject"
	}
	var raws []asn1.RawValue
	for _, pi := range t.PIDs {
		rv, err := x509util.SubjectAlternativeName{Type: x509util.PermanentIdentifierType, Value: pi}.RawValue()
		if err != nil {
			panic(err)
		}
		raws = append(raws, rv)
	}
	hw := fmt.Sprintf(`{"extraNames":[{"type": %q, "value": %q},{"type": %q, "value": %q},{"type": %q, "value": %q}]}`,
		oidTPMManufacturer, "1414747215", oidTPMModel, "SLB 9670 TPM2.0", oidTPMVersion, "7.55")
	if t.Mut == "no-hw" {
		hw = fmt.Sprintf(`{"extraNames":[{"type": %q, "value": %q}]}`, oidTPMModel, "SLB 9670 TPM2.0")
	}
	rv, err := x509util.SubjectAlternativeName{Type: x509util.DirectoryNameType, ASN1Value: []byte(hw)}.RawValue()
	if err != nil {
		panic(err)
	}
	raws = append(raws, rv)
	rawSAN, err := asn1.Marshal(raws)
	if err != nil {
		panic(err)
	}
	x509util.Extension{ID: x509util.ObjectIdentifier(oidSAN), Critical: t.Mut != "subject", Value: rawSAN}.Set(tmpl)
	ca := caGood
	if w.X5c == "wrongca" {
		ca = caOther
	}
	if w.X5c == "sysca" {
		ca = caSys
	}
	crt, err := ca.Sign(tmpl)
	if err != nil {
		panic(err)
	}
	akCertCache[key] = crt
	return crt
}

// statement builds attStmt for fmt=tpm; extra is what goes into TPMS_ATTEST.extraData.
// qualifying shapes the digest into what is put into TPMS_ATTEST.extraData
func (t *TPMSpec) qualifying(d []byte) []byte {
	switch t.Extra {
	case "empty":
		return []byte{}
	case "prefix1":
		return d[:1]
	case "prefix20":
		return d[:20]
	case "prefix31":
		return d[:31]
	case "long33":
		return append(append([]byte{}, d...), 0)
	case "zero32":
		return make([]byte, 32)
	case "suffix20":
		return d[12:]
	}
	return d
}

func (t *TPMSpec) statement(w *DAW, extra []byte) map[string]interface{} {
	extra = t.qualifying(extra)
	attrs := tpm2.FlagFixedTPM | tpm2.FlagFixedParent | tpm2.FlagSensitiveDataOrigin | tpm2.FlagSign | tpm2.FlagUserWithAuth
	if t.Mut == "restricted" {
		attrs |= tpm2.FlagRestricted
	}
	pub := tpm2.Public{Type: tpm2.AlgRSA, NameAlg: tpm2.AlgSHA256, Attributes: attrs,
		RSAParameters: &tpm2.RSAParams{Sign: &tpm2.SigScheme{Alg: tpm2.AlgRSASSA, Hash: tpm2.AlgSHA256}, KeyBits: 2048,
			ModulusRaw: tpmKey.N.Bytes()}}
	pubArea, err := pub.Encode()
	if err != nil {
		panic(err)
	}
	name, err := pub.Name()
	if err != nil {
		panic(err)
	}
	if t.Mut == "other-name" {
		other := pub
		other.RSAParameters = &tpm2.RSAParams{Sign: pub.RSAParameters.Sign, KeyBits: 2048, ModulusRaw: tpmAK.N.Bytes()}
		if name, err = other.Name(); err != nil {
			panic(err)
		}
	}
	magic := uint32(0xff544347)
	if t.Mut == "magic" {
		magic = 0xff544348
	}
	signer := sha256.Sum256([]byte("qualified signer"))
	ad := tpm2.AttestationData{Magic: magic, Type: tpm2.TagAttestCertify,
		QualifiedSigner:     tpm2.Name{Digest: &tpm2.HashValue{Alg: tpm2.AlgSHA256, Value: signer[:]}},
		ExtraData:           extra,
		ClockInfo:           tpm2.ClockInfo{Clock: 1, ResetCount: 1, RestartCount: 1, Safe: 1},
		FirmwareVersion:     1,
		AttestedCertifyInfo: &tpm2.CertifyInfo{Name: name, QualifiedName: name}}
	certInfo, err := ad.Encode()
	if err != nil {
		panic(err)
	}
	digest := sha256.Sum256(certInfo)
	rawSig, err := rsa.SignPKCS1v15(rand.Reader, tpmAK, crypto.SHA256, digest[:])
	if err != nil {
		panic(err)
	}
	sigHash := tpm2.AlgSHA256
	switch t.Mut {
	case "alg-rs1", "alg-rs1-sha256sig": // COSE RS1: the AK signs the SHA-1 digest of certInfo
		d1 := sha1.Sum(certInfo)
		if t.Mut == "alg-rs1" {
			sigHash = tpm2.AlgSHA1
			if rawSig, err = rsa.SignPKCS1v15(rand.Reader, tpmAK, crypto.SHA1, d1[:]); err != nil {
				panic(err)
			}
		}
	case "ak-ecc":
		if rawSig, err = attKeys["p256"].Sign(rand.Reader, digest[:], crypto.SHA256); err != nil {
			panic(err)
		}
	}
	if t.Mut == "sig-flip" {
		rawSig[len(rawSig)-1] ^= 1
	}
	sig, err := tpm2.Signature{Alg: tpm2.AlgRSASSA, RSA: &tpm2.SignatureRSA{HashAlg: sigHash, Signature: rawSig}}.Encode()
	if err != nil {
		panic(err)
	}
	ca := caGood
	if w.X5c == "wrongca" {
		ca = caOther
	}
	if w.X5c == "sysca" {
		ca = caSys
	}
	stmt := map[string]interface{}{"x5c": []interface{}{t.akCert(w).Raw, ca.Intermediate.Raw},
		"alg": int64(-257), "sig": sig, "certInfo": certInfo, "pubArea": pubArea}
	if w.TPMVer != "" {
		stmt["ver"] = w.TPMVer
	}
	switch t.Mut {
	case "alg-bad":
		stmt["alg"] = int64(-8)
	case "alg-rs1", "alg-rs1-sha256sig":
		stmt["alg"] = int64(-65535)
	case "alg-huge":
		stmt["alg"] = int64(1) << 40 // does not fit int32: cast.SafeInt32 refuses
	case "alg-es256":
		stmt["alg"] = int64(-7) // also SHA-256: accepted
	case "pubarea-empty":
		stmt["pubArea"] = []byte{}
	}
	return stmt
}

// tpmFacts evaluates, with the calls doTPMAttestationFormat makes, what the model takes as input.
func tpmFacts(stmt map[string]interface{}, roots *x509.CertPool, rootsOk bool) string {
	bad := " fpne=0 facts=tpm pre=bad extra=x postbad=0 fpok=0 pids=-"
	if ver, _ := stmt["ver"].(string); ver != "2.0" {
		return bad
	}
	x := extractX5c(stmt, nil)
	if !x.present || x.n == 0 || !x.leafOk || !x.restOk {
		return bad
	}
	if !rootsOk {
		return " fpne=0 facts=tpm pre=noroots extra=x postbad=0 fpok=0 pids=-"
	}
	ak := x.leaf
	if len(ak.UnhandledCriticalExtensions) > 0 {
		var rest []asn1.ObjectIdentifier
		for _, o := range ak.UnhandledCriticalExtensions {
			if !o.Equal(oidSAN) {
				rest = append(rest, o)
			}
		}
		ak.UnhandledCriticalExtensions = rest
	}
	inter := x509.NewCertPool()
	for _, v := range stmt["x5c"].([]interface{})[1:] {
		crt, _ := x509.ParseCertificate(v.([]byte))
		inter.AddCert(crt)
	}
	if !verifyChain(ak, inter, roots) || acme.VerifValidateAKCertificate(ak) != nil {
		return bad
	}
	sans, err := x509util.ParseSubjectAlternativeNames(ak)
	if err != nil {
		return bad
	}
	pubArea, ok1 := stmt["pubArea"].([]byte)
	sig, ok2 := stmt["sig"].([]byte)
	certInfo, ok3 := stmt["certInfo"].([]byte)
	alg, ok4 := stmt["alg"].(int64)
	if !ok1 || !ok2 || !ok3 || !ok4 || len(pubArea) == 0 || len(sig) == 0 || len(certInfo) == 0 {
		return bad
	}
	var hash crypto.Hash
	switch alg {
	case -257, -7:
		hash = crypto.SHA256
	case -65535:
		hash = crypto.SHA1
	default:
		return bad
	}
	params := &attest.CertificationParameters{Public: pubArea, CreateAttestation: certInfo, CreateSignature: sig}
	if params.Verify(attest.VerifyOpts{Public: ak.PublicKey, Hash: hash}) != nil {
		return bad
	}
	info, err := tpm2.DecodeAttestationData(certInfo)
	if err != nil {
		return bad
	}
	postBad, fpOk := false, false
	if pub, err := tpm2.DecodePublic(pubArea); err != nil {
		postBad = true
	} else if k, err := pub.Key(); err != nil {
		postBad = true
	} else if fp, err := keyutil.Fingerprint(k); err == nil && fp != "" {
		fpOk = true
	}
	pids := make([]string, len(sans.PermanentIdentifiers))
	for i, pi := range sans.PermanentIdentifiers {
		pids[i] = c.X(pi.Identifier)
	}
	return fmt.Sprintf(" fpne=%s facts=tpm pre=ok extra=%s postbad=%s fpok=%s pids=%s", c.B(fpOk), c.XB(info.ExtraData), c.B(postBad), c.B(fpOk), c.List(pids))
}
