package main

// Stage "e2e": the whole ACME surface in front of the validators, on a real embedded authority:
// the real chi router populated by acme/api.Route (nonce / JWS / account lookup middleware,
// provisioner lookup from the URL), real new-account, new-order (which runs newAuthorization with
// the provisioner's IsChallengeEnabled filter and generates the tokens), authz, challenge and authz
// again - once with the provisioners as written in the configuration, once after the first-start
// migration into the admin database (authority.ProvisionerToLinkedca / ProvisionerToCertificates).
// Built on harness/cmd/c12/acmeenv (shared ACME environment); only the outbound validation client
// is scripted, per request, through acme.NewClientContext.

import (
	"context"
	"crypto"
	"crypto/ed25519"
	"encoding/base64"
	"encoding/json"
	"fmt"
	"os"
	"strings"

	"github.com/smallstep/certificates/acme"
	"github.com/smallstep/certificates/authority/provisioner"
	env "verif/harness/cmd/c12/acmeenv"
	c "verif/harness/common"
)

type E2EW struct {
	Mig       bool   // the provisioners went through the admin database
	Prov      string // provisioner name (see e2eProvs)
	IDType    string // dns | ip | permanent-identifier
	Raw       string // identifier as ordered
	Pick      string // challenge to answer: http | dns | tls | da
	Requester int    // account index that posts to the challenge URL (Acct = the account that ordered)
	Seed      uint64 // seed of the response generator (the token is the server's)
	Sig       string `json:",omitempty"` // how the POST to the challenge URL is signed: "" kid + own key | jwk (embedded key, no kid) |
	// wrongkey (the owner's kid, another account's key) | badsig | otherprov (an account of another provisioner) | unknownkid
}

type e2eProv struct {
	name string
	ch   []string
	fmt  []string
	root bool
	wire bool
}

var e2eProvs = []e2eProv{
	{name: "pdef"},
	{name: "phttp", ch: []string{"http-01"}},
	{name: "pdnstls", ch: []string{"dns-01", "tls-alpn-01"}},
	{name: "pda", ch: []string{"device-attest-01"}, fmt: []string{"step", "apple"}, root: true},
	{name: "pall", ch: []string{"HTTP-01", "dns-01", "Tls-Alpn-01", "device-attest-01"}, root: true},
	{name: "pwire", ch: []string{"wire-oidc-01", "wire-dpop-01"}, wire: true},
}

var (
	e2eEnv  [2]*env.Env // [0] as configured, [1] migrated
	e2eKeys = map[int]*env.Key{}
	e2eAcct = map[string]*env.Acct{}
)

// e2eIndex is the index (into accounts / thumbs) of account `slot` (0-3; slot 3 registers with a foreign key id) of provisioner `prov` in
// environment `mig`: a key registers one account per database, so every (environment, provisioner)
// has keys of its own - deterministic ones, so that the lines of a run are reproducible.
func e2eIndex(mig bool, prov string, slot int) int {
	pi := 0
	for i, p := range e2eProvs {
		if p.name == prov {
			pi = i
		}
	}
	m := 0
	if mig {
		m = 1
	}
	return e2eFirst + (m*len(e2eProvs)+pi)*4 + slot
}

var e2eFirst int

// initE2E registers the account keys (once) and builds the two environments.  The environments are
// rebuilt every e2eRotate cases: an account's order list grows with every new-order and the store
// re-reads all of it each time.
func initE2E() {
	if e2eFirst == 0 {
		e2eFirst = len(accounts)
		for _, mig := range []bool{false, true} {
			for _, p := range e2eProvs {
				for slot := 0; slot < 4; slot++ {
					seed := sha(fmt.Sprintf("c11-e2e-%v-%s-%d", mig, p.name, slot))
					priv := ed25519.NewKeyFromSeed(seed)
					j := privJWK(priv, "EdDSA")
					pub := j.Public()
					accounts = append(accounts, &pub)
					tp, _ := pub.Thumbprint(crypto.SHA256)
					thumbs = append(thumbs, base64.RawURLEncoding.EncodeToString(tp))
					e2eKeys[e2eIndex(mig, p.name, slot)] = &env.Key{Kind: "ed", Priv: priv}
				}
			}
		}
	}
	e2eAcct = map[string]*env.Acct{}
	e2eCount = 0
	var specs []env.ProvSpec
	for _, p := range e2eProvs {
		t := &provisioner.ACME{Type: "ACME", Name: p.name}
		for _, ch := range p.ch {
			t.Challenges = append(t.Challenges, provisioner.ACMEChallenge(ch))
		}
		for _, f := range p.fmt {
			t.AttestationFormats = append(t.AttestationFormats, provisioner.ACMEAttestationFormat(f))
		}
		if p.root {
			t.AttestationRoots = pemOf(caGood.Root)
		}
		if p.wire {
			t.Options = &provisioner.Options{Wire: wireProv.Options.Wire}
		}
		specs = append(specs, env.ProvSpec{Name: p.name, Tmpl: t})
	}
	clone := func() []env.ProvSpec { // every environment gets provisioner objects of its own
		out := make([]env.ProvSpec, len(specs))
		for i, sp := range specs {
			t := *sp.Tmpl
			out[i] = env.ProvSpec{Name: sp.Name, Tmpl: &t}
		}
		return out
	}
	var err error
	if e2eEnv[0], err = env.New(clone(), nil); err != nil {
		panic(fmt.Sprintf("e2e environment: %v", err))
	}
	if e2eEnv[1], err = env.NewMigrated(clone(), nil); err != nil {
		panic(fmt.Sprintf("e2e environment (migrated): %v", err))
	}
}

const e2eRotate = 1200

var e2eCount int

func closeE2E() {
	for i, e := range e2eEnv {
		if e != nil {
			e.Close()
		}
		e2eEnv[i] = nil
	}
}

func e2eAccount(e *env.Env, mig bool, prov string, idx int) (*env.Acct, error) {
	key := fmt.Sprintf("%v/%s/%d", mig, prov, idx)
	if a, ok := e2eAcct[key]; ok {
		return a, nil
	}
	var a *env.Acct
	var err error
	if idx == e2eIndex(mig, prov, 3) {
		// slot 3 registers its key with a key id of its choosing inside the embedded JWK: the thumbprint of slot 0's key
		k := e2eKeys[idx]
		path := env.Path(prov, "new-account")
		jm := env.JWKMap(k.JWK())
		jm["kid"] = thumbs[e2eIndex(mig, prov, 0)]
		sh := &env.Shape{Ser: "flat", Protected: map[string]any{"alg": k.DefaultAlg(), "nonce": e.Nonce(prov), "url": env.URL(path), "jwk": jm},
			Payload: []byte(`{"termsOfServiceAgreed":true}`), NSigs: 1, SignKey: k}
		b, _ := sh.Build()
		rec := e.Do("POST", path, b)
		if rec.Code != 201 && rec.Code != 200 {
			return nil, fmt.Errorf("new-account with kid: %d", rec.Code)
		}
		loc := rec.Header().Get("Location")
		a = &env.Acct{Key: k, Prov: prov, ID: env.LastPathElem(loc), Loc: loc}
	} else if a, err = e.NewAccount(prov, e2eKeys[idx]); err != nil {
		return nil, err
	}
	e2eAcct[key] = a
	return a, nil
}

func pickType(p string) string {
	switch p {
	case "http":
		return "http-01"
	case "dns":
		return "dns-01"
	case "tls":
		return "tls-alpn-01"
	}
	return "device-attest-01"
}

type authzView struct {
	Status     acme.Status `json:"status"`
	Wildcard   bool        `json:"wildcard"`
	Identifier struct {
		Type, Value string
	} `json:"identifier"`
	Challenges []struct {
		Type, URL, Token string
		Status           acme.Status
		Error            *struct {
			Type string `json:"type"`
		} `json:"error"`
	} `json:"challenges"`
}

func (k *Case) runE2E() (out string) {
	defer func() {
		acme.StrictFQDN, acme.InsecurePortHTTP01, acme.InsecurePortTLSALPN01 = false, 0, 0
		if r := recover(); r != nil {
			out = fmt.Sprintf("crash")
		}
	}()
	w := k.E2E
	if e2eEnv[0] == nil {
		initE2E()
	} else if e2eCount++; e2eCount > e2eRotate {
		closeE2E()
		initE2E()
	}
	e := e2eEnv[0]
	if w.Mig {
		e = e2eEnv[1]
	}
	owner, err := e2eAccount(e, w.Mig, w.Prov, k.Acct)
	if err != nil {
		return "account-error"
	}
	requester := owner
	if w.Requester != k.Acct {
		if requester, err = e2eAccount(e, w.Mig, w.Prov, w.Requester); err != nil {
			return "account-error"
		}
	}
	// ---- new-order, then the authorization as the server created it
	pl, _ := json.Marshal(map[string]any{"identifiers": []map[string]string{{"type": w.IDType, "value": w.Raw}}})
	rec := e.Post(owner, env.Path(w.Prov, "new-order"), pl)
	if rec.Code != 201 {
		return fmt.Sprintf("order-refused code=%d %s", rec.Code, problemType(rec.Body.Bytes())+os.Getenv("VERIF_C11_DBG")+func() string {
			if os.Getenv("VERIF_C11_TRACE") != "" {
				return rec.Body.String()
			}
			return ""
		}())
	}
	var ord struct {
		Authorizations []string `json:"authorizations"`
	}
	_ = json.Unmarshal(rec.Body.Bytes(), &ord)
	if len(ord.Authorizations) != 1 {
		return "order-shape"
	}
	azID := env.LastPathElem(ord.Authorizations[0])
	readAz := func() (*authzView, int) {
		rec := e.Post(owner, env.Path(w.Prov, "authz", azID), nil)
		var v authzView
		_ = json.Unmarshal(rec.Body.Bytes(), &v)
		return &v, rec.Code
	}
	az, code := readAz()
	if code != 200 {
		return fmt.Sprintf("authz-refused code=%d", code)
	}
	var types []string
	chID, token := "", ""
	for _, ch := range az.Challenges {
		types = append(types, ch.Type)
		if ch.Type == pickType(w.Pick) {
			chID, token = env.LastPathElem(ch.URL), ch.Token
		}
	}
	head := fmt.Sprintf("offered=%s val=%s wild=%s", c.List(types), c.X(az.Identifier.Value), c.B(az.Wildcard))
	k.Value, k.Token, k.fixedID = az.Identifier.Value, token, true
	k.Typ = map[string]string{"http": "http", "dns": "dns", "tls": "tls", "da": "da"}[w.Pick]
	if chID == "" {
		return head + " | notoffered"
	}
	// ---- the response of the outside world, generated around the right answer for the server's token
	k.HTTP, k.DNS, k.TLS, k.DA = nil, nil, nil, nil
	r := c.NewRng(w.Seed)
	forKey := k.Acct // whose key authorization the response carries
	if w.Requester != k.Acct && r.Chance(1, 2) {
		forKey = w.Requester
	}
	if k.Acct == e2eIndex(w.Mig, w.Prov, 3) && r.Chance(3, 4) {
		forKey = e2eIndex(w.Mig, w.Prov, 0) // the account that registered "kid = thumbprint of slot 0" is served slot 0's key authorization
	}
	realOwner := k.Acct
	k.Acct = forKey
	switch w.Pick {
	case "http":
		genHTTP(r, k)
	case "dns":
		genDNS(r, k)
	case "tls":
		genTLS(r, k)
	case "da":
		genDA(r, k)
		k.DA.served, k.DA.Roots, k.DA.AuthzFail, k.DA.AuthzDBFail, k.DA.AuthzOther = e.Provs[w.Prov], "ca", false, false, false
		k.DA.AuthzNotOwn, k.DA.AuthzLists = false, false
		k.DA.Enabled = nil
	}
	k.Acct = realOwner
	k.Strict, k.PortH, k.PortT, k.DBFail = false, 0, 0, false
	k.AzSt, k.AzExp, k.AzForeign, k.Status, k.PrevErr = "", false, false, "pending", "" // the order is fresh
	k.H = &HandlerW{Requester: w.Requester, AzURL: "own"}
	sc := &scripted{k: k}
	payload := []byte("{}")
	if k.DA != nil {
		payload, _ = k.DA.build(k)
	}
	path := env.Path(w.Prov, "challenge", azID, chID)
	body := e.KidBody(requester, w.Prov, path, payload)
	shape := func(prot map[string]any, key *env.Key, bad bool) []byte {
		prot["alg"], prot["nonce"], prot["url"] = key.DefaultAlg(), e.Nonce(w.Prov), env.URL(path)
		b, _ := (&env.Shape{Ser: "flat", Protected: prot, Payload: payload, NSigs: 1, SignKey: key, BadSig: bad}).Build()
		return b
	}
	switch w.Sig {
	case "jwk": // the requester's own key, embedded instead of referenced
		body = shape(map[string]any{"jwk": env.JWKMap(requester.Key.JWK())}, requester.Key, false)
	case "wrongkey": // the owner's account, signed with another account's key
		body = shape(map[string]any{"kid": owner.Loc}, e2eKeys[e2eIndex(w.Mig, w.Prov, 2)], false)
		if k.Acct == e2eIndex(w.Mig, w.Prov, 2) {
			body = shape(map[string]any{"kid": owner.Loc}, e2eKeys[e2eIndex(w.Mig, w.Prov, 1)], false)
		}
	case "badsig":
		body = shape(map[string]any{"kid": requester.Loc}, requester.Key, true)
	case "unknownkid":
		body = shape(map[string]any{"kid": strings.Replace(requester.Loc, requester.ID, "nonexistentAccount", 1)}, requester.Key, false)
	case "otherprov": // an account that exists, under another provisioner of the same CA
		other := "pdef"
		if w.Prov == "pdef" {
			other = "phttp"
		}
		slot := 0
		oa, err := e2eAccount(e, w.Mig, other, e2eIndex(w.Mig, other, slot))
		if err != nil {
			return "account-error"
		}
		body = shape(map[string]any{"kid": oa.Loc}, oa.Key, false)
	}
	rec = e.DoCtx(acme.NewClientContext(context.Background(), sc), "POST", path, "application/jose+json", body)
	var codeS string
	switch {
	case rec.Code == 200:
		codeS = "ok"
	case w.Sig != "" && rec.Code >= 400 && rec.Code < 500: // refused by the middleware: which 4xx problem is C12's business
		codeS = "notfound"
	case rec.Code == 401 && problemType(rec.Body.Bytes()) == "unauthorized":
		codeS = "unauthorized"
	case rec.Code == 400 && problemType(rec.Body.Bytes()) == "malformed":
		codeS = "notfound"
	case rec.Code == 500:
		codeS = "ise"
	default:
		codeS = fmt.Sprintf("code%d-%s", rec.Code, problemType(rec.Body.Bytes()))
	}
	// ---- what the owner sees afterwards
	az2, _ := readAz()
	st, et := "missing", "none"
	for _, ch := range az2.Challenges {
		if env.LastPathElem(ch.URL) == chID {
			st = statusName(ch.Status)
			if ch.Error != nil {
				et = strings.TrimPrefix(ch.Error.Type, "urn:ietf:params:acme:error:")
			}
		}
	}
	fp := false
	if stored, err := e.RealDB.GetAuthorization(context.Background(), azID); err == nil {
		fp = stored.Fingerprint != ""
	}
	tgt := "-"
	if len(sc.calls) > 0 {
		tgt = strings.Join(sc.calls, "+")
	}
	return fmt.Sprintf("%s | %s st=%s err=%s fpown=%s fpurl=0 azown=%s azurl=- tgt=%s", head, codeS, st, et, c.B(fp), statusName(az2.Status), tgt)
}

func (k *Case) e2eFields() string {
	w := k.E2E
	var p e2eProv
	for _, x := range e2eProvs {
		if x.name == w.Prov {
			p = x
		}
	}
	x := func(l []string) string {
		out := make([]string, len(l))
		for i, s := range l {
			out[i] = c.X(s)
		}
		return c.List(out)
	}
	idt := map[string]string{"dns": "dns", "ip": "ip", "permanent-identifier": "pi"}[w.IDType]
	return fmt.Sprintf(" pch=%s pfmt=%s mig=%s idt=%s raw=%s pick=%s authed=%s", x(p.ch), x(p.fmt), c.B(w.Mig), idt, c.X(w.Raw), pickType(w.Pick), c.B(w.Sig == ""))
}

var e2eIDs = map[string][]string{
	"dns":                  {"example.com", "*.example.com", "a.b.example.org", "xn--bcher-kva.example", "www.example.com", "*.a.b.example.org"},
	"ip":                   {"192.0.2.7", "2001:db8::7", "::ffff:192.0.2.7", "127.0.0.1"},
	"permanent-identifier": {"12345678", "7", "udid-0001", "*.1234567"},
}

func genE2ECase(r *c.Rng) *Case {
	k := &Case{Op: "e2e", Status: "pending"}
	w := &E2EW{Mig: r.Chance(1, 2), Prov: c.Pick(r, e2eProvs).name, Seed: r.U64()}
	k.E2E = w
	slot := r.Intn(3)
	if r.Chance(1, 10) {
		slot = 3
	}
	k.Acct = e2eIndex(w.Mig, w.Prov, slot)
	w.Requester = k.Acct
	w.IDType = c.Pick(r, []string{"dns", "dns", "dns", "ip", "permanent-identifier", "permanent-identifier"})
	w.Raw = c.Pick(r, e2eIDs[w.IDType])
	switch w.IDType {
	case "permanent-identifier":
		w.Pick = "da"
	default:
		w.Pick = c.Pick(r, []string{"http", "dns", "tls"})
	}
	if r.Chance(1, 6) {
		w.Requester = e2eIndex(w.Mig, w.Prov, (slot+1+r.Intn(2))%3)
		if slot == 3 {
			w.Requester = k.Acct
		}
	}
	if r.Chance(1, 8) { // requests the middleware in front of the handler must refuse
		w.Sig = c.Pick(r, []string{"jwk", "wrongkey", "badsig", "otherprov", "unknownkid"})
	}
	return k
}

func cornerE2E() []*Case {
	var out []*Case
	for _, mig := range []bool{false, true} {
		for _, p := range e2eProvs {
			for _, id := range [][2]string{{"dns", "example.com"}, {"dns", "*.example.com"}, {"ip", "192.0.2.7"}, {"permanent-identifier", "12345678"}} {
				pick := "http"
				if id[0] == "permanent-identifier" {
					pick = "da"
				}
				if id[1] == "*.example.com" {
					pick = "dns"
				}
				a := e2eIndex(mig, p.name, 0)
				out = append(out, &Case{Op: "e2e", Status: "pending", Acct: a,
					E2E: &E2EW{Mig: mig, Prov: p.name, IDType: id[0], Raw: id[1], Pick: pick, Requester: a, Seed: 1}})
				if (p.name == "pdef" || p.name == "pda") && (id[1] == "example.com" || id[0] == "permanent-identifier") {
					// ordered by the account that registered with a foreign key id (slot 3)
					for _, seed := range []uint64{1, 2, 3, 4} {
						b := e2eIndex(mig, p.name, 3)
						out = append(out, &Case{Op: "e2e", Status: "pending", Acct: b,
							E2E: &E2EW{Mig: mig, Prov: p.name, IDType: id[0], Raw: id[1], Pick: pick, Requester: b, Seed: seed}})
					}
				}
				if p.name == "pdef" && id[1] == "example.com" { // the right answer is served, the request is not the owner's
					for _, sig := range []string{"jwk", "wrongkey", "badsig", "otherprov", "unknownkid"} {
						out = append(out, &Case{Op: "e2e", Status: "pending", Acct: a,
							E2E: &E2EW{Mig: mig, Prov: p.name, IDType: id[0], Raw: id[1], Pick: pick, Requester: a, Seed: 1, Sig: sig}})
					}
				}
			}
		}
	}
	return out
}
