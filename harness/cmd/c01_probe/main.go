// scratch probe (deleted after use)
package main

import (
	"context"
	"crypto/ecdsa"
	"crypto/elliptic"
	"crypto/rand"
	"crypto/x509"
	"encoding/pem"
	"fmt"
	"net/url"
	"time"

	"github.com/smallstep/certificates/authority"
	"github.com/smallstep/certificates/authority/config"
	"github.com/smallstep/certificates/authority/provisioner"
	"go.step.sm/crypto/jose"
	"verif/harness/fixture"
)

func main() {
	k8sKey, _ := ecdsa.GenerateKey(elliptic.P256(), rand.Reader)
	der, _ := x509.MarshalPKIXPublicKey(&k8sKey.PublicKey)
	pubPEM := pem.EncodeToMemory(&pem.Block{Type: "PUBLIC KEY", Bytes: der})
	ca, err := fixture.New(fixture.Opts{SSH: true, NoDB: true, Provisioners: provisioner.List{
		&provisioner.ACME{Type: "ACME", Name: "acme"},
		&provisioner.K8sSA{Type: "K8sSA", Name: "k8s", PubKeys: pubPEM},
	}})
	if err != nil {
		panic(err)
	}
	defer ca.Close()
	ctx := func(m provisioner.Method) context.Context {
		return provisioner.NewContextWithMethod(authority.NewContext(context.Background(), ca.Auth), m)
	}
	// 1. token signed by a throw-away key, audience fragment acme/acme
	other, _ := jose.GenerateJWK("EC", "P-256", "ES256", "sig", "", 0)
	sig, _ := jose.NewSigner(jose.SigningKey{Algorithm: jose.ES256, Key: other.Key}, new(jose.SignerOptions).WithType("JWT"))
	tok, _ := jose.Signed(sig).Claims(map[string]any{"aud": "https://ca.verif.test/1.0/sign#acme/acme"}).CompactSerialize()
	opts, err := ca.Auth.Authorize(ctx(provisioner.SignMethod), tok)
	fmt.Println("acme sign:", len(opts), err)
	if err == nil {
		csr, _, _ := fixture.CSR("victim.example.com", []string{"victim.example.com"})
		chain, err := ca.Auth.SignWithContext(ctx(provisioner.SignMethod), csr, provisioner.SignOptions{}, opts...)
		fmt.Println("  sign:", len(chain), err)
		if err == nil {
			fmt.Println("  cert:", chain[0].Subject, chain[0].DNSNames)
		}
	}
	_, err = ca.Auth.Authorize(ctx(provisioner.RevokeMethod), tok)
	fmt.Println("acme revoke:", err)
	_, err = ca.Auth.Authorize(ctx(provisioner.SSHSignMethod), tok)
	fmt.Println("acme sshsign:", err)
	// 2. k8sSA token expired long ago
	sig2, _ := jose.NewSigner(jose.SigningKey{Algorithm: jose.ES256, Key: k8sKey}, new(jose.SignerOptions).WithType("JWT"))
	now := time.Now()
	tok2, _ := jose.Signed(sig2).Claims(map[string]any{"iss": "kubernetes/serviceaccount", "sub": "system:serviceaccount:ns:sa",
		"exp": now.Add(-24 * time.Hour).Unix(), "nbf": now.Add(-48 * time.Hour).Unix(), "aud": "somebody-else"}).CompactSerialize()
	for _, m := range []provisioner.Method{provisioner.SignMethod, provisioner.RevokeMethod, provisioner.SSHSignMethod} {
		_, err = ca.Auth.Authorize(ctx(m), tok2)
		fmt.Println("k8s expired", m, err)
	}
	tok3, _ := jose.Signed(sig2).Claims(map[string]any{"iss": "kubernetes/serviceaccount", "sub": "x",
		"nbf": now.Add(48 * time.Hour).Unix()}).CompactSerialize()
	_, err = ca.Auth.Authorize(ctx(provisioner.SignMethod), tok3)
	fmt.Println("k8s nbf future", err)
	// audiences
	a := (&config.Config{DNSNames: []string{"ca.verif.test", "::1", "Ca.X:8443"}}).GetAudiences().WithFragment("x5c/a b")
	fmt.Printf("%q\n%q\n", a.Sign, a.SSHRekey)
	u, _ := url.Parse("https://[::1]:9000/1.0/sign#x")
	u.Host = u.Hostname()
	fmt.Println(u.String())
	fmt.Println(ca.Auth.GetInfo().StartTime)
}
