// Harness for C16, stage `conv`: the conversions between the configuration format of a provisioner
// (ca.json, authority/provisioner structs) and the admin database format (linkedca), both ways, for
// every provisioner type, with every exported field set (reflection over the Go structs and over the
// protobuf descriptors, so a new field is filled without anyone adding it here):
//
//	conv d=cl t=<Type> n=<fields set> x=<fields lost or changed by ToLinkedca then ToCertificates>
//	conv d=lc t=<TYPE> n=<fields set> x=<… by ToCertificates then ToLinkedca>
//
// compared with the Lean table `convLoss` (theorems conv_loss_classified, conv_loss_spares_identity):
// the first-start migration writes ToLinkedca(config provisioner), every reload serves
// ToCertificates(stored record). List indices are dropped from the paths; ACME Wire options are one class.
package main

import (
	"crypto/ecdsa"
	"crypto/elliptic"
	"crypto/rand"
	"crypto/x509"
	"crypto/x509/pkix"
	"encoding/hex"
	"encoding/json"
	"encoding/pem"
	"flag"
	"fmt"
	"math/big"
	"os"
	"reflect"
	"sort"
	"strings"
	"time"

	"github.com/smallstep/linkedca"
	"go.step.sm/crypto/jose"
	"google.golang.org/protobuf/reflect/protoreflect"

	"github.com/smallstep/certificates/authority"
	"github.com/smallstep/certificates/authority/provisioner"
	c "verif/harness/common"
)

var certPEM, keyPEM []byte
var jwk *jose.JSONWebKey
var jwkJSON []byte
var basicAuth bool // which of the two webhook authentications is filled

func setup() {
	k, _ := ecdsa.GenerateKey(elliptic.P256(), rand.Reader)
	t := &x509.Certificate{SerialNumber: big.NewInt(1), Subject: pkix.Name{CommonName: "r"}, NotBefore: time.Now(), NotAfter: time.Now().Add(time.Hour), IsCA: true, BasicConstraintsValid: true}
	der, _ := x509.CreateCertificate(rand.Reader, t, t, k.Public(), k)
	certPEM = pem.EncodeToMemory(&pem.Block{Type: "CERTIFICATE", Bytes: der})
	pk, _ := x509.MarshalPKIXPublicKey(k.Public())
	keyPEM = pem.EncodeToMemory(&pem.Block{Type: "PUBLIC KEY", Bytes: pk})
	j, _ := jose.GenerateJWK("EC", "P-256", "ES256", "sig", "", 0)
	pub := j.Public()
	jwk = &pub
	jwkJSON, _ = pub.MarshalJSON()
}

// ---- go structs ----
func fill(v reflect.Value, name string) {
	switch v.Kind() {
	case reflect.Ptr:
		if v.Type() == reflect.TypeOf(&jose.JSONWebKey{}) {
			v.Set(reflect.ValueOf(jwk))
			return
		}
		k := v.Type().Elem().Kind()
		if k == reflect.Struct || k == reflect.Bool || k == reflect.String {
			n := reflect.New(v.Type().Elem())
			fill(n.Elem(), name)
			v.Set(n)
		}
	case reflect.Struct:
		if v.Type() == reflect.TypeOf(provisioner.Duration{}) {
			v.Set(reflect.ValueOf(provisioner.Duration{Duration: 2 * time.Hour}))
			return
		}
		for i := 0; i < v.NumField(); i++ {
			f := v.Type().Field(i)
			if !f.IsExported() || !v.Field(i).CanSet() {
				continue
			}
			fill(v.Field(i), f.Name)
		}
	case reflect.String:
		switch name {
		case "Kind":
			v.SetString("ENRICHING")
		case "CertType":
			v.SetString("X509")
		case "BearerToken":
			if !basicAuth {
				v.SetString("v-BearerToken")
			}
		case "Username", "Password":
			if basicAuth {
				v.SetString("v-" + name)
			}
		default:
			v.SetString("v-" + name)
		}
	case reflect.Bool:
		v.SetBool(true)
	case reflect.Int, reflect.Int64, reflect.Int32:
		v.SetInt(7)
	case reflect.Uint, reflect.Uint64, reflect.Uint32:
		v.SetUint(7)
	case reflect.Slice:
		switch v.Type().Elem().Kind() {
		case reflect.Uint8:
			if v.Type() == reflect.TypeOf(json.RawMessage{}) {
				v.Set(reflect.ValueOf(json.RawMessage(`{"k":"` + name + `"}`)))
			} else if strings.Contains(strings.ToLower(name), "key") {
				v.SetBytes(keyPEM)
			} else {
				v.SetBytes(certPEM)
			}
		case reflect.String:
			n := reflect.MakeSlice(v.Type(), 2, 2)
			vals := []string{"a-" + name, "b-" + name}
			switch name {
			case "Challenges":
				vals = []string{"http-01", "dns-01"}
			case "AttestationFormats":
				vals = []string{"apple", "tpm"}
			}
			n.Index(0).SetString(vals[0])
			n.Index(1).SetString(vals[1])
			v.Set(n)
		case reflect.Ptr, reflect.Struct:
			n := reflect.MakeSlice(v.Type(), 1, 1)
			fill(n.Index(0), name)
			v.Set(n)
		}
	}
}

func flatV(prefix string, v reflect.Value, out map[string]string) {
	switch v.Kind() {
	case reflect.Ptr, reflect.Interface:
		if v.IsNil() {
			return
		}
		if k, ok := v.Interface().(*jose.JSONWebKey); ok {
			b, _ := k.MarshalJSON()
			out[prefix] = string(b)
			return
		}
		flatV(prefix, v.Elem(), out)
	case reflect.Struct:
		if d, ok := v.Interface().(provisioner.Duration); ok {
			out[prefix] = d.Duration.String()
			return
		}
		for i := 0; i < v.NumField(); i++ {
			f := v.Type().Field(i)
			if !f.IsExported() {
				continue
			}
			flatV(prefix+"."+f.Name, v.Field(i), out)
		}
	case reflect.Slice:
		if v.Type().Elem().Kind() == reflect.Uint8 {
			if v.Len() > 0 {
				out[prefix] = string(v.Bytes())
			}
			return
		}
		for i := 0; i < v.Len(); i++ {
			flatV(fmt.Sprintf("%s[%d]", prefix, i), v.Index(i), out)
		}
	case reflect.Map:
		for _, k := range v.MapKeys() {
			flatV(prefix+"{"+fmt.Sprint(k)+"}", v.MapIndex(k), out)
		}
	case reflect.Func, reflect.Chan:
	default:
		if !v.IsZero() {
			out[prefix] = fmt.Sprint(v.Interface())
		}
	}
}

func diff(a, b map[string]string) (lost, changed, added []string) {
	for k, va := range a {
		if vb, ok := b[k]; !ok {
			lost = append(lost, k)
		} else if va != vb {
			changed = append(changed, k)
		}
	}
	for k := range b {
		if _, ok := a[k]; !ok {
			added = append(added, k)
		}
	}
	sort.Strings(lost)
	sort.Strings(changed)
	sort.Strings(added)
	return
}

// ---- protobuf ----
func fillMsg(m protoreflect.Message, typ linkedca.Provisioner_Type, depth int) {
	fds := m.Descriptor().Fields()
	for i := 0; i < fds.Len(); i++ {
		fd := fds.Get(i)
		if od := fd.ContainingOneof(); od != nil && od.Name() == "data" {
			// details: only the member of this type
			want := map[linkedca.Provisioner_Type]string{1: "JWK", 2: "OIDC", 3: "GCP", 4: "AWS", 5: "Azure", 6: "ACME", 7: "X5C", 8: "K8sSA", 9: "SSHPOP", 10: "SCEP", 11: "Nebula"}[typ]
			if string(fd.Name()) != want {
				continue
			}
		}
		name := string(fd.Name())
		val := func() protoreflect.Value {
			switch fd.Kind() {
			case protoreflect.StringKind:
				switch {
				case name == "min" || name == "max" || name == "default":
					return protoreflect.ValueOfString("2h0m0s")
				case name == "instance_age":
					return protoreflect.ValueOfString("2h0m0s")
				}
				return protoreflect.ValueOfString("v-" + name)
			case protoreflect.BytesKind:
				switch {
				case name == "public_key" && typ == 1:
					return protoreflect.ValueOfBytes(jwkJSON)
				case strings.Contains(name, "key"):
					return protoreflect.ValueOfBytes(keyPEM)
				case name == "template":
					return protoreflect.ValueOfBytes([]byte("{{ .x }}"))
				case name == "data":
					return protoreflect.ValueOfBytes([]byte(`{"k":"v"}`))
				}
				return protoreflect.ValueOfBytes(certPEM)
			case protoreflect.BoolKind:
				return protoreflect.ValueOfBool(true)
			case protoreflect.EnumKind:
				return protoreflect.ValueOfEnum(1)
			case protoreflect.Int32Kind, protoreflect.Int64Kind, protoreflect.Sint32Kind, protoreflect.Sint64Kind:
				return protoreflect.ValueOfInt64(7)
			case protoreflect.Uint32Kind, protoreflect.Uint64Kind:
				return protoreflect.ValueOfUint64(7)
			}
			return protoreflect.Value{}
		}
		switch {
		case fd.IsMap():
		case fd.IsList():
			l := m.Mutable(fd).List()
			if fd.Kind() == protoreflect.MessageKind {
				if depth < 6 {
					e := l.NewElement()
					fillMsg(e.Message(), typ, depth+1)
					l.Append(e)
				}
			} else if v := val(); v.IsValid() {
				l.Append(v)
			}
		case fd.Kind() == protoreflect.MessageKind:
			if depth < 6 {
				fillMsg(m.Mutable(fd).Message(), typ, depth+1)
			}
		default:
			if fd.Kind() == protoreflect.Int32Kind || fd.Kind() == protoreflect.Sint32Kind {
				m.Set(fd, protoreflect.ValueOfInt32(7))
			} else if fd.Kind() == protoreflect.Uint32Kind {
				m.Set(fd, protoreflect.ValueOfUint32(7))
			} else if v := val(); v.IsValid() {
				m.Set(fd, v)
			}
		}
	}
}

func flatM(prefix string, m protoreflect.Message, out map[string]string) {
	m.Range(func(fd protoreflect.FieldDescriptor, v protoreflect.Value) bool {
		p := prefix + "." + string(fd.Name())
		one := func(p string, v protoreflect.Value) {
			if fd.Kind() == protoreflect.MessageKind {
				flatM(p, v.Message(), out)
			} else if fd.Kind() == protoreflect.BytesKind {
				out[p] = string(v.Bytes())
			} else {
				out[p] = v.String()
			}
		}
		if fd.IsList() {
			for i := 0; i < v.List().Len(); i++ {
				one(fmt.Sprintf("%s[%d]", p, i), v.List().Get(i))
			}
		} else if !fd.IsMap() {
			one(p, v)
		}
		return true
	})
}

func norm(l ...[]string) []string {
	set := map[string]bool{}
	for _, xs := range l {
		for _, x := range xs {
			// drop list indices; Wire options are one class
			for {
				a := strings.Index(x, "[")
				if a < 0 {
					break
				}
				b := strings.Index(x[a:], "]")
				x = x[:a] + x[a+b+1:]
			}
			if strings.HasPrefix(x, ".Options.Wire.") {
				x = ".Options.Wire"
			}
			set[x] = true
		}
	}
	var out []string
	for x := range set {
		out = append(out, x)
	}
	sort.Strings(out)
	return out
}

func hexList(l []string) string {
	if len(l) == 0 {
		return "-"
	}
	var o []string
	for _, x := range l {
		o = append(o, hex.EncodeToString([]byte(x)))
	}
	return strings.Join(o, ",")
}

func main() {
	out := flag.String("out", "", "output file")
	_ = flag.Int("n", 0, "unused")
	_ = flag.String("replay", "", "unused: the stage has no generated cases")
	flag.Parse()
	o, err := c.NewOut(*out)
	if err != nil {
		fmt.Fprintln(os.Stderr, err)
		os.Exit(2)
	}
	defer o.Close()
	setup()
	emit := func(line string, f func() string) {
		impl := func() (s string) {
			defer func() {
				if r := recover(); r != nil {
					s = "crash"
				}
			}()
			return f()
		}()
		o.Case(line, impl)
	}
	mk := []func() provisioner.Interface{func() provisioner.Interface { return &provisioner.JWK{} }, func() provisioner.Interface { return &provisioner.OIDC{} },
		func() provisioner.Interface { return &provisioner.GCP{} }, func() provisioner.Interface { return &provisioner.AWS{} }, func() provisioner.Interface { return &provisioner.Azure{} },
		func() provisioner.Interface { return &provisioner.ACME{} }, func() provisioner.Interface { return &provisioner.X5C{} }, func() provisioner.Interface { return &provisioner.K8sSA{} },
		func() provisioner.Interface { return &provisioner.SSHPOP{} }, func() provisioner.Interface { return &provisioner.SCEP{} }, func() provisioner.Interface { return &provisioner.Nebula{} }}
	for _, f := range mk {
		tn := reflect.ValueOf(f()).Elem().Type().Name()
		all, loss := map[string]bool{}, map[string]bool{}
		verdict := "pinned"
		for _, ba := range []bool{false, true} {
			basicAuth = ba
			p := f()
			v := reflect.ValueOf(p).Elem()
			fill(v, "")
			v.FieldByName("Type").SetString(tn)
			func() {
				defer func() {
					if r := recover(); r != nil {
						verdict = "crash"
					}
				}()
				lp, err := authority.ProvisionerToLinkedca(p)
				if err != nil {
					verdict = "to-linkedca-error"
					return
				}
				q, err := authority.ProvisionerToCertificates(lp)
				if err != nil {
					verdict = "to-certificates-error"
					return
				}
				a, b := map[string]string{}, map[string]string{}
				flatV("", reflect.ValueOf(p), a)
				flatV("", reflect.ValueOf(q), b)
				lost, changed, added := diff(a, b)
				for _, x := range norm(keys(a)) {
					all[x] = true
				}
				for _, x := range norm(lost, changed, added) {
					loss[x] = true
				}
			}()
		}
		line := fmt.Sprintf("conv d=cl t=%s n=%d x=%s", tn, len(all), hexList(norm(keys2(loss))))
		vv := verdict
		emit(line, func() string { return vv })
	}
	for t := 1; t <= 11; t++ {
		typ := linkedca.Provisioner_Type(t)
		all, loss := map[string]bool{}, map[string]bool{}
		verdict := "pinned"
		func() {
			defer func() {
				if r := recover(); r != nil {
					verdict = "crash"
				}
			}()
			lp := &linkedca.Provisioner{}
			fillMsg(lp.ProtoReflect(), typ, 0)
			lp.Type = typ
			q, err := authority.ProvisionerToCertificates(lp)
			if err != nil {
				verdict = "to-certificates-error"
				return
			}
			lp2, err := authority.ProvisionerToLinkedca(q)
			if err != nil {
				verdict = "to-linkedca-error"
				return
			}
			a, b := map[string]string{}, map[string]string{}
			flatM("", lp.ProtoReflect(), a)
			flatM("", lp2.ProtoReflect(), b)
			lost, changed, added := diff(a, b)
			for _, x := range norm(keys(a)) {
				all[x] = true
			}
			for _, x := range norm(lost, changed, added) {
				loss[x] = true
			}
		}()
		line := fmt.Sprintf("conv d=lc t=%s n=%d x=%s", typ, len(all), hexList(norm(keys2(loss))))
		vv := verdict
		emit(line, func() string { return vv })
	}
	o.Case("convs", "n=22")
}

func keys2(m map[string]bool) []string {
	var o []string
	for k := range m {
		o = append(o, k)
	}
	return o
}

func keys(m map[string]string) []string {
	var o []string
	for k := range m {
		o = append(o, k)
	}
	return o
}
