// Harness for C04: runs the real policy engine (/repo/policy) on generated or replayed
// (rule set, names) cases and writes "<model input line>\t<implementation verdict>".
package main

import (
	"crypto/x509"
	"crypto/x509/pkix"
	"encoding/hex"
	"encoding/json"
	"errors"
	"flag"
	"fmt"
	"net"
	"net/url"
	"os"
	"strings"

	"go.step.sm/crypto/x509util"
	"golang.org/x/crypto/ssh"
	"golang.org/x/net/idna"

	"github.com/smallstep/certificates/policy"
	c "verif/harness/common"
)

type Rules struct {
	CN, DNS, IP, Email, URI, Prin []string
}

type Case struct {
	Kind   string // x509 | sans | sshhost | sshuser
	VCN    bool
	Wild   bool
	P, X   Rules
	DNS    []string // x509
	IPs    []string // x509; textual, must parse
	Emails []string // x509
	URIs   []string // x509; must parse with url.Parse
	CN     string   // x509
	SANs   []string // sans, sshhost, sshuser
	E2E    string   `json:",omitempty"` // "" = engine called directly; "authority" | "provisioner" = real CA (e2e.go)
	Side   string   `json:",omitempty"` // SSH e2e: "" = host and user sections carry the rules; "own" | "other" = only the section of the certificate's (other) type
}

// ---------- external fields, computed with the same libraries the engine calls ----------

func asciiLower(s string) string {
	b := []byte(s)
	for i, ch := range b {
		if 'A' <= ch && ch <= 'Z' {
			b[i] = ch + 32
		}
	}
	return string(b)
}

func trimASCII(s string) string { return strings.Trim(s, " \t\n\v\f\r") }

func idnaLookup(s string) string {
	a, err := idna.Lookup.ToASCII(s)
	return c.Opt(a, err == nil)
}

func dnsRule(raw string) string {
	n := asciiLower(trimASCII(raw))
	if strings.HasPrefix(n, "*.") {
		n = n[1:]
	}
	return c.X(raw) + ":" + idnaLookup(n)
}

func emailRule(raw string) string {
	n := asciiLower(trimASCII(raw))
	if n != "" && n[0] == '@' {
		n = n[1:]
	}
	if strings.Contains(n, "@") {
		_, dom, ok := policy.VerifParseMailbox(n)
		if !ok {
			return c.X(raw) + ":!"
		}
		return c.X(raw) + ":" + idnaLookup(dom)
	}
	return c.X(raw) + ":" + idnaLookup(n)
}

func uriRule(raw string) string {
	n := asciiLower(trimASCII(raw))
	if strings.HasPrefix(n, "*.") {
		n = n[1:]
	}
	_, _, err := net.SplitHostPort(n)
	return c.X(raw) + ":" + c.B(err == nil) + ":" + c.B(net.ParseIP(n) != nil) + ":" + idnaLookup(n)
}

func canonNet(n *net.IPNet) (string, bool) {
	ip := n.IP.To4()
	if ip == nil {
		ip = n.IP
		if len(ip) != 16 {
			return "", false
		}
	}
	m := n.Mask
	if len(m) == 16 && len(ip) == 4 {
		m = m[12:]
	}
	if len(m) != len(ip) {
		return "", false
	}
	ones, bits := m.Size()
	if bits == 0 {
		return "", false
	}
	return fmt.Sprintf("%s/%d", c.XB(ip), ones), true
}

func ipRule(raw string) string {
	_, nw, err := net.ParseCIDR(raw)
	if err != nil {
		ip := net.ParseIP(raw)
		if ip == nil {
			return "!"
		}
		var mask net.IPMask
		if ip.To4() != nil {
			mask = net.CIDRMask(32, 32)
		} else {
			mask = net.CIDRMask(128, 128)
		}
		nw = &net.IPNet{IP: ip, Mask: mask}
	}
	s, ok := canonNet(nw)
	if !ok {
		return "!"
	}
	return s
}

func mapList(xs []string, f func(string) string) string {
	out := make([]string, len(xs))
	for i, x := range xs {
		out[i] = f(x)
	}
	return c.List(out)
}

func dnsName(raw string) string {
	n := raw
	if strings.HasPrefix(n, "*.") {
		n = n[1:]
	}
	return c.X(raw) + ":" + idnaLookup(n)
}

func emailName(raw string) string {
	_, dom, ok := policy.VerifParseMailbox(raw)
	if !ok {
		return c.X(raw) + ":!"
	}
	a, err := idna.ToASCII(dom)
	return c.X(raw) + ":" + c.Opt(a, err == nil)
}

func ipName(ip net.IP) string {
	if v4 := ip.To4(); v4 != nil {
		return c.XB(v4)
	}
	return c.XB(ip.To16())
}

func uriName(u *url.URL) string {
	host := u.Host
	split := "!"
	h := host
	if strings.Contains(host, ":") && !strings.HasSuffix(host, "]") {
		hh, _, err := net.SplitHostPort(host)
		if err == nil {
			split = c.X(hh)
			h = hh
		}
	}
	return c.X(host) + ":" + split + ":" + c.B(net.ParseIP(h) != nil)
}

func rulesFields(p string, r Rules) string {
	return fmt.Sprintf("%scn=%s %sdns=%s %sip=%s %sem=%s %suri=%s %spr=%s",
		p, mapList(r.CN, c.X), p, mapList(r.DNS, dnsRule), p, mapList(r.IP, ipRule),
		p, mapList(r.Email, emailRule), p, mapList(r.URI, uriRule), p, mapList(r.Prin, c.X))
}

func namesFields(dns []string, ips []net.IP, emails []string, uris []*url.URL) string {
	ipS := make([]string, len(ips))
	for i, ip := range ips {
		ipS[i] = ipName(ip)
	}
	uS := make([]string, len(uris))
	for i, u := range uris {
		uS[i] = uriName(u)
	}
	return fmt.Sprintf("dns=%s ip=%s em=%s uri=%s pr=-", mapList(dns, dnsName), c.List(ipS), mapList(emails, emailName), c.List(uS))
}

func (k *Case) parsed() (ips []net.IP, uris []*url.URL, ok bool) {
	for _, s := range k.IPs {
		ip := net.ParseIP(s)
		if ip == nil {
			return nil, nil, false
		}
		ips = append(ips, ip)
	}
	for _, s := range k.URIs {
		u, err := url.Parse(s)
		if err != nil {
			return nil, nil, false
		}
		uris = append(uris, u)
	}
	return ips, uris, true
}

// render produces the model's input line; ok=false when the case is not expressible.
func (k *Case) render() (string, bool) {
	js, _ := json.Marshal(k)
	head := fmt.Sprintf("kind=%s vcn=%s wild=%s %s %s", k.Kind, c.B(k.VCN), c.B(k.Wild), rulesFields("p", k.P), rulesFields("x", k.X))
	if k.E2E != "" {
		head = "cmp=class lvl=" + k.E2E + " " + head
	}
	if k.Side != "" {
		head += " side=" + k.Side
	}
	tail := " case=x" + hex.EncodeToString(js)
	switch k.Kind {
	case "x509":
		ips, uris, ok := k.parsed()
		if !ok {
			return "", false
		}
		d, i, e, u := x509util.SplitSANs([]string{k.CN})
		cls := ""
		switch {
		case len(d) == 1:
			cls = "d~" + dnsName(d[0])
		case len(i) == 1:
			cls = "i~" + ipName(i[0])
		case len(e) == 1:
			cls = "e~" + emailName(e[0])
		case len(u) == 1:
			cls = "u~" + uriName(u[0])
		default:
			return "", false
		}
		return head + " " + namesFields(k.DNS, ips, k.Emails, uris) + " cn=" + c.X(k.CN) + " cls=" + cls + tail, true
	case "sans", "sshhost", "sshuser":
		d, i, e, u := x509util.SplitSANs(k.SANs)
		return head + " " + namesFields(d, i, e, u) + tail, true
	}
	return "", false
}

func (k *Case) engine() (eng *policy.NamePolicyEngine, out string) {
	defer func() {
		if r := recover(); r != nil {
			eng, out = nil, "rulecrash"
		}
	}()
	opts := []policy.NamePolicyOption{
		policy.WithPermittedCommonNames(k.P.CN...),
		policy.WithPermittedDNSDomains(k.P.DNS...),
		policy.WithPermittedIPsOrCIDRs(k.P.IP...),
		policy.WithPermittedEmailAddresses(k.P.Email...),
		policy.WithPermittedURIDomains(k.P.URI...),
		policy.WithPermittedPrincipals(k.P.Prin...),
		policy.WithExcludedCommonNames(k.X.CN...),
		policy.WithExcludedDNSDomains(k.X.DNS...),
		policy.WithExcludedIPsOrCIDRs(k.X.IP...),
		policy.WithExcludedEmailAddresses(k.X.Email...),
		policy.WithExcludedURIDomains(k.X.URI...),
		policy.WithExcludedPrincipals(k.X.Prin...),
	}
	if k.Wild {
		opts = append(opts, policy.WithAllowLiteralWildcardNames())
	}
	if k.VCN {
		opts = append(opts, policy.WithSubjectCommonNameVerification())
	}
	e, err := policy.New(opts...)
	if err != nil {
		return nil, "badrule"
	}
	return e, ""
}

func verdict(err error) string {
	if err == nil {
		return "allow"
	}
	var pe *policy.NamePolicyError
	if errors.As(err, &pe) {
		r := map[policy.NamePolicyReason]string{
			policy.NotAllowed: "notallowed", policy.CannotParseDomain: "parsedomain",
			policy.CannotParseRFC822Name: "parserfc822", policy.CannotMatchNameToConstraint: "cannotmatch",
		}[pe.Reason]
		return "deny:" + r + ":" + string(pe.NameType)
	}
	return "spliterr"
}

// run evaluates the real engine; a panic becomes "crash".
func (k *Case) run() (out string) {
	e, bad := k.engine()
	if e == nil {
		return bad
	}
	defer func() {
		if r := recover(); r != nil {
			out = "crash"
		}
	}()
	switch k.Kind {
	case "x509":
		ips, uris, _ := k.parsed()
		cert := &x509.Certificate{DNSNames: k.DNS, IPAddresses: ips, EmailAddresses: k.Emails, URIs: uris, Subject: pkix.Name{CommonName: k.CN}}
		v1 := verdict(e.IsX509CertificateAllowed(cert))
		csr := &x509.CertificateRequest{DNSNames: k.DNS, IPAddresses: ips, EmailAddresses: k.Emails, URIs: uris, Subject: pkix.Name{CommonName: k.CN}}
		if v2 := verdict(e.IsX509CertificateRequestAllowed(csr)); v2 != v1 {
			return "inconsistent:" + v1 + "/" + v2
		}
		return v1
	case "sans":
		return verdict(e.AreSANsAllowed(k.SANs))
	case "sshhost":
		return verdict(e.IsSSHCertificateAllowed(&ssh.Certificate{CertType: ssh.HostCert, ValidPrincipals: k.SANs}))
	case "sshuser":
		return verdict(e.IsSSHCertificateAllowed(&ssh.Certificate{CertType: ssh.UserCert, ValidPrincipals: k.SANs}))
	}
	return "badkind"
}

// ---------- generators ----------

var labels = []string{"a", "b", "example", "com", "local", "x-1", "host", "sub", "xn--bcher-kva", "bücher", "A", "ExAmple", "1", "test"}
var tlds = []string{"com", "local", "example.com", "a.b", "xn--bcher-kva.example", "bücher.example"}

func genDomain(r *c.Rng) string {
	n := 1 + r.Intn(4)
	parts := make([]string, n)
	for i := range parts {
		parts[i] = c.Pick(r, labels)
	}
	d := strings.Join(parts, ".")
	if r.Chance(1, 2) {
		d = c.Pick(r, labels) + "." + c.Pick(r, tlds)
	}
	return d
}

func mutate(r *c.Rng, s string) string {
	switch r.Intn(16) {
	case 0:
		return ""
	case 1:
		return "." + s
	case 2:
		return s + "."
	case 3:
		return "*." + s
	case 4:
		return "*" + s
	case 5:
		return strings.ToUpper(s)
	case 6:
		return " " + s + " "
	case 7:
		return strings.Replace(s, ".", "..", 1)
	case 8:
		return "*"
	case 9:
		return c.Pick(r, labels) + "." + s
	case 10:
		if i := strings.Index(s, "."); i >= 0 {
			return s[i+1:]
		}
		return s
	case 11:
		return s + " "
	case 12:
		return " "
	case 13:
		return "*.*." + s
	case 14:
		return s + ":80"
	}
	return s
}

// dirty is set per case: only a minority of cases may contain malformed rules, otherwise
// almost every rule set would be rejected by policy.New and the engine never exercised.
var dirty bool
var skipped int

func genDNSRule(r *c.Rng) string {
	d := genDomain(r)
	switch r.Intn(10) {
	case 0, 1, 2:
		return "*." + d
	case 3:
		if dirty {
			return mutate(r, d)
		}
		return strings.ToUpper(d)
	case 4:
		return " " + d + " "
	}
	return d
}

var cidrs = []string{"10.0.0.0/8", "192.168.0.0/16", "192.168.1.0/24", "127.0.0.1", "::1", "fd00::/8", "2001:db8::/32", "0.0.0.0/0", "::/0", "10.1.2.3/32", "::ffff:10.0.0.0/104", "300.1.1.1", "10.0.0.0/33", ""}
var ipsPool = []string{"10.0.0.1", "10.1.2.3", "10.0.1.1", "10.200.0.9", "192.168.0.1", "fd00::2", "fd00:1::1", "2001:db8:1::1", "192.168.1.7", "192.168.2.7", "127.0.0.1", "::1", "fd00::1", "2001:db8::5", "8.8.8.8", "::ffff:10.0.0.1", "fe80::1", "0.0.0.0", "255.255.255.255"}
var locals = []string{"a", "root", "first.last", "\"quo ted\"", "x+y", "A", ".dot", "dot.", "a..b", "", "\"\"", "a\\@b", "\"a@b\""}
var prins = []string{"root", "alice", "Alice", "*", "", "bob-1", "h.slatman", "ops", "a b"}
var schemes = []string{"https", "http", "spiffe", "urn", ""}

func genEmail(r *c.Rng) string {
	return c.Pick(r, locals) + "@" + maybeMut(r, genDomain(r))
}

func maybeMut(r *c.Rng, s string) string {
	if r.Chance(1, 5) {
		return mutate(r, s)
	}
	return s
}

func genEmailRule(r *c.Rng) string {
	d := genDomain(r)
	switch r.Intn(8) {
	case 0:
		return "@" + d
	case 1:
		if dirty {
			return c.Pick(r, locals) + "@" + d
		}
		return c.Pick(r, []string{"a", "root", "first.last", "x+y", "\"quo ted\""}) + "@" + d
	case 2:
		if dirty {
			return "*." + d
		}
	case 3:
		if dirty {
			return mutate(r, d)
		}
	case 4:
		if dirty {
			return "@"
		}
	}
	return d
}

func genURI(r *c.Rng) string {
	host := maybeMut(r, genDomain(r))
	switch r.Intn(15) {
	case 8:
		host += ":" // url.Parse accepts an empty port; Host keeps the colon, Port() is ""
	case 9:
		host = "[fd00::1]:"
	case 10:
		host += ":0"
	case 0:
		host += ":443"
	case 1:
		host = "[::1]"
	case 2:
		host = "[::1]:8080"
	case 3:
		host = "10.0.0.1"
	case 4:
		host = ""
	case 5:
		host = ":80"
	case 6:
		host = "user@" + host
	case 7:
		host = "10.0.0.1:80"
	}
	sc := c.Pick(r, schemes)
	if sc == "" {
		return "//" + host + "/p"
	}
	if sc == "urn" {
		return "urn:x:" + host
	}
	return sc + "://" + host + "/path?q=1"
}

func genRules(r *c.Rng, near *[]string) Rules {
	var ru Rules
	k := func(max int) int {
		if r.Chance(1, 2) {
			return 0
		}
		return 1 + r.Intn(max)
	}
	for i := k(3); i > 0; i-- {
		d := genDNSRule(r)
		ru.DNS = append(ru.DNS, d)
		*near = append(*near, d)
	}
	for i := k(2); i > 0; i-- {
		x := c.Pick(r, cidrs)
		if !dirty {
			x = c.Pick(r, cidrs[:11])
		}
		if r.Chance(1, 2) {
			// nested ranges on a shared base address, host bits set or not, single addresses
			if r.Chance(2, 3) {
				x = fmt.Sprintf("%s/%d", c.Pick(r, []string{"10.0.0.0", "10.1.2.3", "10.0.0.1", "192.168.0.0", "192.168.1.0"}), c.Pick(r, []int{8, 12, 16, 24, 30, 32}))
			} else {
				x = fmt.Sprintf("%s/%d", c.Pick(r, []string{"fd00::", "fd00::1", "2001:db8::", "2001:db8::5"}), c.Pick(r, []int{8, 16, 32, 64, 128}))
			}
		}
		ru.IP = append(ru.IP, x)
	}
	for i := k(2); i > 0; i-- {
		d := genEmailRule(r)
		ru.Email = append(ru.Email, d)
		*near = append(*near, d)
	}
	for i := k(2); i > 0; i-- {
		d := genDNSRule(r)
		if dirty && r.Chance(1, 4) {
			d = c.Pick(r, []string{"https://" + d, d + ":80", "[::1]", "10.0.0.1", "a[b"})
		}
		ru.URI = append(ru.URI, d)
		*near = append(*near, d)
	}
	for i := k(2); i > 0; i-- {
		ru.Prin = append(ru.Prin, c.Pick(r, prins))
	}
	if r.Chance(1, 4) {
		for i := 1 + r.Intn(2); i > 0; i-- {
			d := genDomain(r)
			if dirty {
				d = maybeMut(r, d)
			}
			if r.Chance(1, 3) {
				d = c.Pick(r, []string{"root", "alice", "Alice", "bob-1", "a b"})
				if dirty {
					d = c.Pick(r, prins)
				}
			}
			ru.CN = append(ru.CN, d)
			*near = append(*near, d)
		}
	}
	return ru
}

// nearMailbox derives an address from a full-mailbox rule (local@domain): the same mailbox with the domain
// respelled (letter case, trailing dot, sub-domain) or the local part respelled (which must not match).
func nearMailbox(r *c.Rng, k *Case) string {
	var boxes []string
	for _, e := range append(append([]string{}, k.P.Email...), k.X.Email...) {
		if i := strings.LastIndex(e, "@"); i > 0 && i < len(e)-1 {
			boxes = append(boxes, e)
		}
	}
	if len(boxes) == 0 {
		return ""
	}
	e := c.Pick(r, boxes)
	i := strings.LastIndex(e, "@")
	local, dom := e[:i], e[i+1:]
	switch r.Intn(8) {
	case 0, 1:
		dom = strings.ToUpper(dom)
	case 2:
		dom = strings.ToUpper(dom[:1]) + dom[1:]
	case 3:
		dom = strings.ToLower(dom)
	case 4:
		local = strings.ToUpper(local)
	case 5:
		dom = c.Pick(r, labels) + "." + dom
	case 6:
		dom += "."
	}
	return local + "@" + dom
}

// nearName derives a DNS-ish name from a rule so that hits and near-misses are frequent.
func nearName(r *c.Rng, near []string) string {
	if len(near) == 0 || r.Chance(1, 4) {
		return maybeMut(r, genDomain(r))
	}
	s := c.Pick(r, near)
	s = strings.TrimPrefix(strings.TrimSpace(s), "@")
	if i := strings.Index(s, "@"); i >= 0 {
		s = s[i+1:]
	}
	if strings.HasPrefix(s, "*.") {
		s = c.Pick(r, labels) + s[1:]
	}
	switch r.Intn(6) {
	case 0:
		return mutate(r, s)
	case 1:
		return c.Pick(r, labels) + "." + s
	}
	return s
}

func genCase(r *c.Rng) *Case {
	k := &Case{Wild: r.Chance(1, 3), VCN: r.Chance(2, 3)}
	dirty = r.Chance(1, 8)
	var near []string
	switch r.Intn(4) {
	case 0: // only deny
		k.X = genRules(r, &near)
	case 1: // only allow
		k.P = genRules(r, &near)
	default:
		k.P = genRules(r, &near)
		k.X = genRules(r, &near)
	}
	if r.Chance(1, 10) { // keep rule sets mostly acceptable: drop malformed rules half the time elsewhere
		k.P.IP, k.X.IP = nil, nil
	}
	nn := func(max int) int { return r.Intn(max + 1) }
	switch r.Intn(10) {
	case 0, 1, 2, 3, 4:
		k.Kind = "x509"
		for i := nn(3); i > 0; i-- {
			k.DNS = append(k.DNS, nearName(r, near))
		}
		for i := nn(2); i > 0; i-- {
			k.IPs = append(k.IPs, c.Pick(r, ipsPool))
		}
		for i := nn(2); i > 0; i-- {
			if mb := nearMailbox(r, k); mb != "" && r.Chance(1, 3) {
				k.Emails = append(k.Emails, mb)
			} else if r.Chance(1, 2) {
				k.Emails = append(k.Emails, c.Pick(r, locals)+"@"+nearName(r, near))
			} else {
				k.Emails = append(k.Emails, genEmail(r))
			}
		}
		for i := nn(2); i > 0; i-- {
			u := genURI(r)
			if r.Chance(1, 2) {
				// a host near a rule, in every spelling of the authority the URL parser accepts
				u = "https://" + c.Pick(r, []string{"", "", "", "user@", "u:p@"}) + nearName(r, near) +
					c.Pick(r, []string{"", "", "", ":", ":443", ":0", "."}) + c.Pick(r, []string{"/x", "", "?q", "#f"})
			}
			if _, err := url.Parse(u); err == nil {
				k.URIs = append(k.URIs, u)
			}
		}
		switch r.Intn(6) {
		case 0:
			k.CN = ""
		case 1:
			k.CN = c.Pick(r, ipsPool)
		case 2:
			k.CN = genEmail(r)
		case 3:
			k.CN = "https://" + nearName(r, near) + "/x"
		default:
			k.CN = nearName(r, near)
		}
	case 5, 6:
		k.Kind = "sans"
		for i := nn(4); i > 0; i-- {
			switch r.Intn(5) {
			case 0:
				k.SANs = append(k.SANs, c.Pick(r, ipsPool))
			case 1:
				k.SANs = append(k.SANs, genEmail(r))
			case 2:
				k.SANs = append(k.SANs, genURI(r))
			default:
				k.SANs = append(k.SANs, nearName(r, near))
			}
		}
	default:
		k.Kind = c.Pick(r, []string{"sshhost", "sshuser"})
		for i := nn(3); i > 0; i-- {
			switch r.Intn(8) {
			case 0:
				k.SANs = append(k.SANs, c.Pick(r, ipsPool))
			case 1:
				k.SANs = append(k.SANs, genEmail(r))
			case 2:
				k.SANs = append(k.SANs, genURI(r))
			case 3, 4:
				k.SANs = append(k.SANs, nearName(r, near))
			default:
				k.SANs = append(k.SANs, c.Pick(r, prins))
			}
		}
	}
	return k
}

// fixed corner cases run first on every seed (past findings: D1, D18)
func corner() []*Case {
	dnsRule := Rules{DNS: []string{"*.local"}, Email: []string{"example.com"}, URI: []string{"*.local"}}
	mk := func(f func(k *Case)) *Case { k := &Case{Kind: "x509", P: dnsRule}; f(k); return k }
	return []*Case{
		mk(func(k *Case) { k.DNS = []string{""} }),
		mk(func(k *Case) { k.Emails = []string{"a@"} }),
		mk(func(k *Case) { k.Emails = []string{"a@*"} }),
		mk(func(k *Case) { k.URIs = []string{"https://:80/x"} }),
		mk(func(k *Case) { k.DNS = []string{"*"} }),
		mk(func(k *Case) { k.P.Email = []string{"@"} }),
		mk(func(k *Case) { k.X = Rules{Email: []string{" @ "}} }),
		{Kind: "sshhost", P: dnsRule, SANs: []string{""}},
		{Kind: "sshuser", P: Rules{Prin: []string{"*"}}, SANs: []string{"", "root"}},
		{Kind: "sans", X: dnsRule, SANs: []string{"", "a@", "https://:80/x"}},
	}
}

func main() {
	n := flag.Int("n", 2000, "number of generated cases")
	mode := flag.String("mode", "engine", "engine | e2e")
	out := flag.String("out", "", "output file (input<TAB>impl)")
	replay := flag.String("replay", "", "file of model input lines (case=… field) to re-run instead of generating")
	flag.Parse()
	o, err := c.NewOut(*out)
	if err != nil {
		fmt.Fprintln(os.Stderr, err)
		os.Exit(2)
	}
	defer o.Close()
	emit := func(k *Case) {
		line, ok := k.render()
		if !ok {
			return
		}
		if k.E2E != "" {
			if out := k.runE2E(); out != "" {
				o.Case(line, out)
			} else {
				skipped++
			}
			return
		}
		o.Case(line, k.run())
	}
	if *replay != "" {
		data, err := os.ReadFile(*replay)
		if err != nil {
			fmt.Fprintln(os.Stderr, err)
			os.Exit(2)
		}
		for _, l := range strings.Split(string(data), "\n") {
			i := strings.Index(l, "case=x")
			if i < 0 {
				continue
			}
			h := l[i+6:]
			if j := strings.IndexAny(h, " \t"); j >= 0 {
				h = h[:j]
			}
			js, err := hex.DecodeString(h)
			if err != nil {
				continue
			}
			var k Case
			if json.Unmarshal(js, &k) == nil {
				emit(&k)
			}
		}
		return
	}
	r := c.NewRng(c.Seed())
	if *mode == "e2e" {
		for i := 0; i < *n; i++ {
			if i%3 == 2 {
				emit(genE2ESSH(r.Fork()))
			} else if i%6 == 4 {
				emit(genE2EAcme(r.Fork()))
			} else {
				emit(genE2E(r.Fork()))
			}
		}
		fmt.Printf("e2e: %d cases refused for a reason other than policy (not compared)\n", skipped)
		return
	}
	for _, k := range corner() {
		emit(k)
	}
	for i := 0; i < *n; i++ {
		emit(genCase(r.Fork()))
	}
}
