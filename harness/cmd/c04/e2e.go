package main

// End-to-end stage of C04: the same (rule set, names) cases, with the rule set configured as the
// authority-level or provisioner-level X.509 policy of a real embedded CA and the names requested
// through the real sign flow (token → Authorize → Sign). Only issued / refused is observable.

import (
	"context"
	"crypto/ecdsa"
	"crypto/elliptic"
	"crypto/rand"
	"errors"
	"fmt"
	"net/http"
	"os"
	"strings"

	"golang.org/x/crypto/ssh"

	"github.com/smallstep/certificates/authority"

	"github.com/smallstep/certificates/authority/config"
	authpolicy "github.com/smallstep/certificates/authority/policy"
	"github.com/smallstep/certificates/authority/provisioner"
	"github.com/smallstep/certificates/policy"
	c "verif/harness/common"
	"verif/harness/fixture"
)

var e2eCA *fixture.CA    // key material reused across cases (fixture.Opts.From)
var e2eSSHCA *fixture.CA // the same for the cases that need SSH signers

func nameOpts(r Rules) *authpolicy.X509NameOptions {
	return &authpolicy.X509NameOptions{CommonNames: r.CN, DNSDomains: r.DNS, IPRanges: r.IP, EmailAddresses: r.Email, URIDomains: r.URI}
}

// runE2E configures the policy and signs; "allow" = certificate issued, "deny" = refused with 403,
// "badrule" = the CA does not start with that policy, "" = refused for another reason (not compared).
func (k *Case) runE2E() (out string) {
	defer func() {
		if r := recover(); r != nil {
			out = "crash"
		}
	}()
	if k.Kind == "sshhost" || k.Kind == "sshuser" {
		return k.runE2ESSH()
	}
	pol := &authpolicy.X509PolicyOptions{AllowedNames: nameOpts(k.P), DeniedNames: nameOpts(k.X), AllowWildcardNames: k.Wild}
	o := fixture.Opts{NoDB: true, From: e2eCA}
	switch k.E2E {
	case "authority":
		o.Config = func(cfg *config.Config) { cfg.AuthorityConfig.Policy = &authpolicy.Options{X509: pol} }
	case "provisioner":
		o.JWKOptions = &provisioner.Options{X509: &provisioner.X509Options{AllowedNames: pol.AllowedNames, DeniedNames: pol.DeniedNames, AllowWildcardNames: pol.AllowWildcardNames}}
	}
	ca, err := fixture.New(o)
	if err != nil {
		return "badrule"
	}
	defer ca.Auth.Shutdown()
	if e2eCA == nil {
		e2eCA = ca
	}
	sans := append(append(append(append([]string{}, k.DNS...), k.IPs...), k.Emails...), k.URIs...)
	tok, err := ca.Token(fixture.TokenOpts{Subject: k.CN, SANs: sans})
	if err != nil {
		return ""
	}
	csr, _, err := fixture.CSR(k.CN, sans)
	if err != nil {
		return ""
	}
	_, err = ca.SignX509(tok, csr, provisioner.SignOptions{})
	if err == nil {
		return "allow"
	}
	var sc interface{ StatusCode() int }
	if errors.As(err, &sc) && sc.StatusCode() == http.StatusForbidden {
		return "deny"
	}
	var pe *policy.NamePolicyError // provisioner-level validator returns the engine's error as is
	if errors.As(err, &pe) {
		return "deny"
	}
	if strings.Contains(err.Error(), "disabled due to an initialization error") {
		return "badrule" // a provisioner whose policy does not parse fails to initialise
	}
	if os.Getenv("VERIF_C04_DEBUG") != "" {
		fmt.Fprintln(os.Stderr, "other:", err)
	}
	return ""
}

func sshNameOpts(r Rules) *authpolicy.SSHNameOptions {
	return &authpolicy.SSHNameOptions{DNSDomains: r.DNS, IPRanges: r.IP, EmailAddresses: r.Email, Principals: r.Prin}
}

// runE2ESSH: the rule set is the SSH host and user policy of the authority or of the JWK provisioner; the
// principals are requested through token → Authorize(ssh-sign) → SignSSH.
func (k *Case) runE2ESSH() string {
	yes := true
	o := fixture.Opts{NoDB: true, From: e2eSSHCA, SSH: true, JWKClaims: &provisioner.Claims{EnableSSHCA: &yes}}
	host := &authpolicy.SSHHostCertificateOptions{AllowedNames: sshNameOpts(k.P), DeniedNames: sshNameOpts(k.X)}
	user := &authpolicy.SSHUserCertificateOptions{AllowedNames: sshNameOpts(k.P), DeniedNames: sshNameOpts(k.X)}
	switch k.E2E {
	case "authority":
		o.Config = func(cfg *config.Config) {
			cfg.AuthorityConfig.Policy = &authpolicy.Options{SSH: &authpolicy.SSHPolicyOptions{Host: host, User: user}}
		}
	case "provisioner":
		o.JWKOptions = &provisioner.Options{SSH: &provisioner.SSHOptions{Host: host, User: user}}
	}
	ca, err := fixture.New(o)
	if err != nil {
		return "badrule"
	}
	defer ca.Auth.Shutdown()
	if e2eSSHCA == nil {
		e2eSSHCA = ca
	}
	typ := "user"
	if k.Kind == "sshhost" {
		typ = "host"
	}
	tok, err := ca.Token(fixture.TokenOpts{Subject: "key-id", Audience: fixture.Audience("/1.0/ssh/sign"), NoSANs: true,
		Extra: map[string]any{"step": map[string]any{"ssh": map[string]any{"certType": typ, "keyID": "key-id", "principals": k.SANs}}}})
	if err != nil {
		return ""
	}
	priv, err := ecdsa.GenerateKey(elliptic.P256(), rand.Reader)
	if err != nil {
		return ""
	}
	pub, err := ssh.NewPublicKey(&priv.PublicKey)
	if err != nil {
		return ""
	}
	ctx := provisioner.NewContextWithMethod(authority.NewContext(context.Background(), ca.Auth), provisioner.SSHSignMethod)
	opts, err := ca.Auth.Authorize(ctx, tok)
	if err == nil {
		_, err = ca.Auth.SignSSH(ctx, pub, provisioner.SignSSHOptions{CertType: typ, KeyID: "key-id", Principals: k.SANs}, opts...)
	}
	if err == nil {
		return "allow"
	}
	var sc interface{ StatusCode() int }
	if errors.As(err, &sc) && sc.StatusCode() == http.StatusForbidden {
		return "deny"
	}
	var pe *policy.NamePolicyError
	if errors.As(err, &pe) {
		return "deny"
	}
	if strings.Contains(err.Error(), "disabled due to an initialization error") {
		return "badrule"
	}
	if os.Getenv("VERIF_C04_DEBUG") != "" {
		fmt.Fprintln(os.Stderr, "other(ssh):", err)
	}
	return ""
}

// genE2ESSH: an SSH host or user certificate with well-formed principals under an SSH policy; a third of the
// policies have rules of a single kind only (an IP-only or principal-only section must still be enforced)
func genE2ESSH(r *c.Rng) *Case {
	k := &Case{Kind: c.Pick(r, []string{"sshhost", "sshuser"}), E2E: c.Pick(r, []string{"authority", "provisioner"})}
	dirty = false
	var near []string
	switch r.Intn(4) {
	case 0:
		k.X = genRules(r, &near)
	case 1:
		k.P = genRules(r, &near)
	default:
		k.P = genRules(r, &near)
		k.X = genRules(r, &near)
	}
	only := func(rs *Rules, kind int) {
		switch kind {
		case 0:
			*rs = Rules{IP: rs.IP}
		case 1:
			*rs = Rules{Prin: rs.Prin}
		case 2:
			*rs = Rules{DNS: rs.DNS}
		case 3:
			*rs = Rules{Email: rs.Email}
		}
	}
	k.P.CN, k.P.URI, k.X.CN, k.X.URI = nil, nil, nil, nil
	if r.Chance(1, 3) {
		kind := r.Intn(4)
		only(&k.P, kind)
		if r.Chance(1, 2) {
			kind = r.Intn(4)
		}
		only(&k.X, kind)
	}
	if r.Chance(1, 4) && len(k.P.IP)+len(k.X.IP) == 0 {
		k.X.IP = []string{c.Pick(r, []string{"10.0.0.0/8", "192.168.0.0/16", "fd00::/8"})}
	}
	n := 1 + r.Intn(3)
	for i := 0; i < n; i++ {
		if k.Kind == "sshhost" {
			if r.Chance(1, 2) {
				k.SANs = append(k.SANs, c.Pick(r, ipsPool))
			} else {
				k.SANs = append(k.SANs, strings.TrimPrefix(nearNameClean(r, near), "*."))
			}
		} else {
			switch r.Intn(3) {
			case 0:
				k.SANs = append(k.SANs, c.Pick(r, e2eLocals)+"@"+strings.TrimPrefix(nearNameClean(r, near), "*."))
			case 1:
				k.SANs = append(k.SANs, c.Pick(r, []string{"root", "alice", "Alice", "bob-1", "ops"}))
			default:
				if len(k.P.Prin)+len(k.X.Prin) > 0 {
					k.SANs = append(k.SANs, strings.TrimSuffix(strings.TrimPrefix(c.Pick(r, append(append([]string{}, k.P.Prin...), k.X.Prin...)), "*"), "*")+"x")
				} else {
					k.SANs = append(k.SANs, "user"+fmt.Sprint(r.Intn(3)))
				}
			}
		}
	}
	return k
}

var e2eLocals = []string{"a", "root", "first.last", "x+y"}

// genE2E: well-formed names only, so that nothing but the policy decides
func genE2E(r *c.Rng) *Case {
	k := &Case{Kind: "x509", VCN: true, Wild: r.Chance(1, 3), E2E: c.Pick(r, []string{"authority", "provisioner"})}
	dirty = false
	var near []string
	switch r.Intn(4) {
	case 0:
		k.X = genRules(r, &near)
	case 1:
		k.P = genRules(r, &near)
	default:
		k.P = genRules(r, &near)
		k.X = genRules(r, &near)
	}
	k.P.Prin, k.X.Prin = nil, nil
	clean := func(s string) string {
		s = nearNameClean(r, near)
		return s
	}
	for i := r.Intn(3); i > 0; i-- {
		k.DNS = append(k.DNS, clean(""))
	}
	for i := r.Intn(2); i > 0; i-- {
		k.IPs = append(k.IPs, c.Pick(r, ipsPool))
	}
	for i := r.Intn(2); i > 0; i-- {
		k.Emails = append(k.Emails, c.Pick(r, e2eLocals)+"@"+clean(""))
	}
	for i := r.Intn(2); i > 0; i-- {
		k.URIs = append(k.URIs, "https://"+clean("")+"/p")
	}
	switch {
	case len(k.DNS) > 0 && r.Chance(2, 3):
		k.CN = k.DNS[0]
	case r.Chance(1, 2):
		k.CN = clean("")
	default:
		k.CN = c.Pick(r, []string{"root", "alice", "Alice", "bob-1"})
	}
	if len(k.DNS)+len(k.IPs)+len(k.Emails)+len(k.URIs) == 0 {
		// a token without SANs gets the subject as its only SAN: say so explicitly
		k.DNS = []string{k.CN}
	}
	return k
}

// nearNameClean derives a plain lower/upper-case ASCII domain from a rule (or a fresh one)
func nearNameClean(r *c.Rng, near []string) string {
	for tries := 0; tries < 8; tries++ {
		s := nearName(r, near)
		ok := s != "" && len(s) < 60
		for _, ch := range s {
			if !(ch == '.' || ch == '-' || (ch >= '0' && ch <= '9') || (ch >= 'a' && ch <= 'z') || (ch >= 'A' && ch <= 'Z')) {
				ok = false
			}
		}
		if ok && s[0] != '.' && s[len(s)-1] != '.' && !contains(s, "..") && s[0] != '-' {
			if r.Chance(1, 8) {
				return "*." + s
			}
			return s
		}
	}
	return genDomainASCII(r)
}

func contains(s, sub string) bool {
	for i := 0; i+len(sub) <= len(s); i++ {
		if s[i:i+len(sub)] == sub {
			return true
		}
	}
	return false
}

func genDomainASCII(r *c.Rng) string {
	return c.Pick(r, []string{"a", "b", "host", "sub", "test"}) + "." + c.Pick(r, []string{"com", "local", "example.com", "a.b"})
}
