package main

// End-to-end stage of C04: the same (rule set, names) cases, with the rule set configured as the
// authority-level or provisioner-level X.509 policy of a real embedded CA and the names requested
// through the real sign flow (token → Authorize → Sign). Only issued / refused is observable.

import (
	"context"
	"crypto/ecdsa"
	"crypto/elliptic"
	"crypto/rand"
	"errors"
	"fmt"
	"net/http"
	"os"
	"runtime/debug"
	"strings"

	"github.com/smallstep/linkedca"
	"golang.org/x/crypto/ssh"

	"github.com/smallstep/certificates/authority"

	"github.com/smallstep/certificates/authority/config"
	authpolicy "github.com/smallstep/certificates/authority/policy"
	"github.com/smallstep/certificates/authority/provisioner"
	"github.com/smallstep/certificates/policy"
	c "verif/harness/common"
	"verif/harness/fixture"
)

var e2eIssuer string     // provisioner the tokens of the running case name ("" = the fixture's "jwk")
var e2eCA *fixture.CA    // key material reused across cases (fixture.Opts.From)
var e2eSSHCA *fixture.CA // the same for the cases that need SSH signers

func nameOpts(r Rules) *authpolicy.X509NameOptions {
	return &authpolicy.X509NameOptions{CommonNames: r.CN, DNSDomains: r.DNS, IPRanges: r.IP, EmailAddresses: r.Email, URIDomains: r.URI}
}

// runE2E configures the policy and signs; "allow" = certificate issued, "deny" = refused with 403,
// "badrule" = the CA does not start with that policy, "" = refused for another reason (not compared).
func (k *Case) runE2E() (out string) {
	defer func() {
		if r := recover(); r != nil {
			if os.Getenv("VERIF_C04_DEBUG") != "" {
				fmt.Fprintf(os.Stderr, "panic: %v\n%s\n", r, debug.Stack())
			}
			out = "crash"
		}
	}()
	if strings.HasPrefix(k.E2E, "admin") {
		return k.runE2EAdmin()
	}
	if k.E2E == "acmeacct" {
		return k.runE2EAcmeAcct()
	}
	if k.Kind == "sshhost" || k.Kind == "sshuser" {
		return k.runE2ESSH()
	}
	pol := &authpolicy.X509PolicyOptions{AllowedNames: nameOpts(k.P), DeniedNames: nameOpts(k.X), AllowWildcardNames: k.Wild}
	o := fixture.Opts{NoDB: true, From: e2eCA}
	switch k.E2E {
	case "authority":
		o.Config = func(cfg *config.Config) { cfg.AuthorityConfig.Policy = &authpolicy.Options{X509: pol} }
	case "provisioner":
		o.JWKOptions = &provisioner.Options{X509: &provisioner.X509Options{AllowedNames: pol.AllowedNames, DeniedNames: pol.DeniedNames, AllowWildcardNames: pol.AllowWildcardNames}}
	}
	ca, err := fixture.New(o)
	if err != nil {
		return "badrule"
	}
	defer ca.Auth.Shutdown()
	if e2eCA == nil {
		e2eCA = ca
	}
	return k.signX509On(ca)
}

// signX509On requests the names of the case from ca through token → Authorize → Sign.
func (k *Case) signX509On(ca *fixture.CA) string {
	sans := append(append(append(append([]string{}, k.DNS...), k.IPs...), k.Emails...), k.URIs...)
	tok, err := ca.Token(fixture.TokenOpts{Subject: k.CN, SANs: sans, Issuer: e2eIssuer})
	if err != nil {
		return ""
	}
	csr, _, err := fixture.CSR(k.CN, sans)
	if err != nil {
		return ""
	}
	_, err = ca.SignX509(tok, csr, provisioner.SignOptions{})
	if err == nil {
		return "allow"
	}
	var sc interface{ StatusCode() int }
	if errors.As(err, &sc) && sc.StatusCode() == http.StatusForbidden {
		return "deny"
	}
	var pe *policy.NamePolicyError // provisioner-level validator returns the engine's error as is
	if errors.As(err, &pe) {
		return "deny"
	}
	if strings.Contains(err.Error(), "disabled due to an initialization error") {
		return "badrule" // a provisioner whose policy does not parse fails to initialise
	}
	if os.Getenv("VERIF_C04_DEBUG") != "" {
		fmt.Fprintln(os.Stderr, "other:", err)
	}
	return ""
}

func nilIfEmpty(l []string) []string {
	if len(l) == 0 {
		return nil
	}
	return l
}

// linkedPolicy is the rule set in the form the admin API stores it (linkedca): X.509 names, and for SSH the kinds
// that form has (host: dns, ips, principals; user: emails, principals).
func (k *Case) linkedPolicy() *linkedca.Policy {
	lp := &linkedca.Policy{}
	switch k.Kind {
	case "x509":
		lp.X509 = &linkedca.X509Policy{AllowWildcardNames: k.Wild}
		if k.P.nonEmpty() {
			lp.X509.Allow = &linkedca.X509Names{Dns: nilIfEmpty(k.P.DNS), Ips: nilIfEmpty(k.P.IP), Emails: nilIfEmpty(k.P.Email), Uris: nilIfEmpty(k.P.URI), CommonNames: nilIfEmpty(k.P.CN)}
		}
		if k.X.nonEmpty() {
			lp.X509.Deny = &linkedca.X509Names{Dns: nilIfEmpty(k.X.DNS), Ips: nilIfEmpty(k.X.IP), Emails: nilIfEmpty(k.X.Email), Uris: nilIfEmpty(k.X.URI), CommonNames: nilIfEmpty(k.X.CN)}
		}
	case "sshhost":
		h := &linkedca.SSHHostPolicy{}
		if k.P.nonEmpty() {
			h.Allow = &linkedca.SSHHostNames{Dns: nilIfEmpty(k.P.DNS), Ips: nilIfEmpty(k.P.IP), Principals: nilIfEmpty(k.P.Prin)}
		}
		if k.X.nonEmpty() {
			h.Deny = &linkedca.SSHHostNames{Dns: nilIfEmpty(k.X.DNS), Ips: nilIfEmpty(k.X.IP), Principals: nilIfEmpty(k.X.Prin)}
		}
		lp.Ssh = &linkedca.SSHPolicy{Host: h}
	case "sshuser":
		u := &linkedca.SSHUserPolicy{}
		if k.P.nonEmpty() {
			u.Allow = &linkedca.SSHUserNames{Emails: nilIfEmpty(k.P.Email), Principals: nilIfEmpty(k.P.Prin)}
		}
		if k.X.nonEmpty() {
			u.Deny = &linkedca.SSHUserNames{Emails: nilIfEmpty(k.X.Email), Principals: nilIfEmpty(k.X.Prin)}
		}
		lp.Ssh = &linkedca.SSHPolicy{User: u}
	}
	return lp
}

func (r Rules) nonEmpty() bool {
	return len(r.CN)+len(r.DNS)+len(r.IP)+len(r.Email)+len(r.URI)+len(r.Prin) > 0
}

var e2eAdminCA *fixture.CA

// runE2EAdmin: the rule set goes in the way an administrator sets it — Authority.CreateAuthorityPolicy with the
// linkedca form, which is checked for lock-out, written to the admin database (linkedca → stored form), read back
// (stored form → linkedca → authority/policy options) and compiled into the engines; with "admin-restart" the CA is
// restarted on that database before the names are requested, so the engine is built from what was stored.
func (k *Case) runE2EAdmin() string {
	yes := true
	o := fixture.Opts{From: e2eAdminCA, SSH: true, JWKClaims: &provisioner.Claims{EnableSSHCA: &yes},
		Config: func(cfg *config.Config) { cfg.AuthorityConfig.EnableAdmin = true }}
	ca, err := fixture.New(o)
	if err != nil {
		return ""
	}
	defer func() { ca.Close() }()
	if e2eAdminCA == nil {
		e2eAdminCA = ca
	}
	ctx := context.Background()
	admins, _, err := ca.Auth.GetAdmins("", 5)
	if err != nil || len(admins) == 0 {
		return ""
	}
	e2eIssuer = ""
	defer func() { e2eIssuer = "" }()
	if strings.HasPrefix(k.E2E, "admincreate") {
		// a provisioner created with the policy inline (POST /admin/provisioners carries it): a second JWK provisioner
		// on the fixture's key, the tokens name it
		pub, err := ca.JWK.Public().MarshalJSON()
		if err != nil {
			return ""
		}
		lp := &linkedca.Provisioner{Type: linkedca.Provisioner_JWK, Name: "jwk2", Policy: k.linkedPolicy(),
			Claims:  &linkedca.Claims{Ssh: &linkedca.SSHClaims{Enabled: true}},
			Details: &linkedca.ProvisionerDetails{Data: &linkedca.ProvisionerDetails_JWK{JWK: &linkedca.JWKProvisioner{PublicKey: pub}}}}
		if err := ca.Auth.StoreProvisioner(ctx, lp); err != nil {
			var pe *authority.PolicyError
			switch {
			case errors.As(err, &pe) && pe.Typ == authority.ConfigurationFailure:
				return "badrule"
			case errors.As(err, &pe):
				return ""
			case strings.Contains(err.Error(), "cannot parse") || strings.Contains(err.Error(), "error initializing") || strings.Contains(err.Error(), "error validating"):
				return "badrule"
			}
			if os.Getenv("VERIF_C04_DEBUG") != "" {
				fmt.Fprintln(os.Stderr, "other(admincreate):", err)
			}
			return ""
		}
		e2eIssuer = "jwk2"
	} else if strings.HasPrefix(k.E2E, "adminprov") {
		// the same through the provisioner's own policy: UpdateProvisioner with the linkedca record carrying it
		var lp *linkedca.Provisioner
		if provs, err := ca.Auth.GetAdminDatabase().GetProvisioners(ctx); err == nil {
			for _, p := range provs {
				if p.Name == "jwk" {
					lp = p
				}
			}
		}
		if lp == nil {
			return ""
		}
		lp.Policy = k.linkedPolicy()
		if err := ca.Auth.UpdateProvisioner(ctx, lp); err != nil {
			var pe *authority.PolicyError
			switch {
			case errors.As(err, &pe) && pe.Typ == authority.ConfigurationFailure:
				return "badrule"
			case errors.As(err, &pe):
				return ""
			case strings.Contains(err.Error(), "cannot parse") || strings.Contains(err.Error(), "error initializing") || strings.Contains(err.Error(), "error validating"):
				return "badrule"
			}
			if os.Getenv("VERIF_C04_DEBUG") != "" {
				fmt.Fprintln(os.Stderr, "other(adminprov update):", err)
			}
			return ""
		}
	} else if _, err := ca.Auth.CreateAuthorityPolicy(ctx, admins[0], k.linkedPolicy()); err != nil {
		var pe *authority.PolicyError
		if errors.As(err, &pe) {
			switch pe.Typ {
			case authority.ConfigurationFailure:
				return "badrule"
			case authority.AdminLockOut, authority.EvaluationFailure:
				return "" // the administrator would be locked out: refused before anything is stored (C16)
			}
		}
		if os.Getenv("VERIF_C04_DEBUG") != "" {
			fmt.Fprintln(os.Stderr, "other(admin create):", err)
		}
		return ""
	}
	if strings.HasSuffix(k.E2E, "-restart") {
		n, err := ca.Restart()
		if err != nil {
			if os.Getenv("VERIF_C04_DEBUG") != "" {
				fmt.Fprintln(os.Stderr, "other(admin restart):", err)
			}
			return "restart-failed"
		}
		ca = n
	}
	if k.Kind == "x509" {
		return k.signX509On(ca)
	}
	return k.signSSHOn(ca)
}

func sshNameOpts(r Rules) *authpolicy.SSHNameOptions {
	return &authpolicy.SSHNameOptions{DNSDomains: r.DNS, IPRanges: r.IP, EmailAddresses: r.Email, Principals: r.Prin}
}

// runE2ESSH: the rule set is the SSH host and user policy of the authority or of the JWK provisioner; the
// principals are requested through token → Authorize(ssh-sign) → SignSSH.
func (k *Case) runE2ESSH() string {
	yes := true
	o := fixture.Opts{NoDB: true, From: e2eSSHCA, SSH: true, JWKClaims: &provisioner.Claims{EnableSSHCA: &yes}}
	host := &authpolicy.SSHHostCertificateOptions{AllowedNames: sshNameOpts(k.P), DeniedNames: sshNameOpts(k.X)}
	user := &authpolicy.SSHUserCertificateOptions{AllowedNames: sshNameOpts(k.P), DeniedNames: sshNameOpts(k.X)}
	// one-sided policies: only the section of the certificate's type, or only the other one (then every
	// certificate of this type is refused, whatever it names)
	if (k.Side == "own") == (k.Kind == "sshhost") && k.Side != "" {
		user = nil
	} else if k.Side != "" {
		host = nil
	}
	switch k.E2E {
	case "authority":
		o.Config = func(cfg *config.Config) {
			cfg.AuthorityConfig.Policy = &authpolicy.Options{SSH: &authpolicy.SSHPolicyOptions{Host: host, User: user}}
		}
	case "provisioner":
		o.JWKOptions = &provisioner.Options{SSH: &provisioner.SSHOptions{Host: host, User: user}}
	}
	ca, err := fixture.New(o)
	if err != nil {
		return "badrule"
	}
	defer ca.Auth.Shutdown()
	if e2eSSHCA == nil {
		e2eSSHCA = ca
	}
	return k.signSSHOn(ca)
}

// signSSHOn requests the principals of the case from ca through token → Authorize(ssh-sign) → SignSSH.
func (k *Case) signSSHOn(ca *fixture.CA) string {
	typ := "user"
	if k.Kind == "sshhost" {
		typ = "host"
	}
	tok, err := ca.Token(fixture.TokenOpts{Subject: "key-id", Audience: fixture.Audience("/1.0/ssh/sign"), NoSANs: true, Issuer: e2eIssuer,
		Extra: map[string]any{"step": map[string]any{"ssh": map[string]any{"certType": typ, "keyID": "key-id", "principals": k.SANs}}}})
	if err != nil {
		return ""
	}
	priv, err := ecdsa.GenerateKey(elliptic.P256(), rand.Reader)
	if err != nil {
		return ""
	}
	pub, err := ssh.NewPublicKey(&priv.PublicKey)
	if err != nil {
		return ""
	}
	ctx := provisioner.NewContextWithMethod(authority.NewContext(context.Background(), ca.Auth), provisioner.SSHSignMethod)
	opts, err := ca.Auth.Authorize(ctx, tok)
	if err == nil {
		_, err = ca.Auth.SignSSH(ctx, pub, provisioner.SignSSHOptions{CertType: typ, KeyID: "key-id", Principals: k.SANs}, opts...)
	}
	if err == nil {
		return "allow"
	}
	var sc interface{ StatusCode() int }
	if errors.As(err, &sc) && sc.StatusCode() == http.StatusForbidden {
		return "deny"
	}
	var pe *policy.NamePolicyError
	if errors.As(err, &pe) {
		return "deny"
	}
	if strings.Contains(err.Error(), "disabled due to an initialization error") {
		return "badrule"
	}
	if os.Getenv("VERIF_C04_DEBUG") != "" {
		fmt.Fprintln(os.Stderr, "other(ssh):", err)
	}
	return ""
}

// genE2ESSH: an SSH host or user certificate with well-formed principals under an SSH policy; a third of the
// policies have rules of a single kind only (an IP-only or principal-only section must still be enforced)
func genE2ESSH(r *c.Rng) *Case {
	k := &Case{Kind: c.Pick(r, []string{"sshhost", "sshuser"}), E2E: c.Pick(r, []string{"authority", "provisioner"})}
	dirty = false
	var near []string
	switch r.Intn(4) {
	case 0:
		k.X = genRules(r, &near)
	case 1:
		k.P = genRules(r, &near)
	default:
		k.P = genRules(r, &near)
		k.X = genRules(r, &near)
	}
	only := func(rs *Rules, kind int) {
		switch kind {
		case 0:
			*rs = Rules{IP: rs.IP}
		case 1:
			*rs = Rules{Prin: rs.Prin}
		case 2:
			*rs = Rules{DNS: rs.DNS}
		case 3:
			*rs = Rules{Email: rs.Email}
		}
	}
	k.P.CN, k.P.URI, k.X.CN, k.X.URI = nil, nil, nil, nil
	if r.Chance(1, 3) {
		kind := r.Intn(4)
		only(&k.P, kind)
		if r.Chance(1, 2) {
			kind = r.Intn(4)
		}
		only(&k.X, kind)
	}
	if r.Chance(1, 4) && len(k.P.IP)+len(k.X.IP) == 0 {
		k.X.IP = []string{c.Pick(r, []string{"10.0.0.0/8", "192.168.0.0/16", "fd00::/8"})}
	}
	n := 1 + r.Intn(3)
	for i := 0; i < n; i++ {
		if k.Kind == "sshhost" {
			if r.Chance(1, 2) {
				k.SANs = append(k.SANs, c.Pick(r, ipsPool))
			} else {
				k.SANs = append(k.SANs, strings.TrimPrefix(nearNameClean(r, near), "*."))
			}
		} else {
			switch r.Intn(3) {
			case 0:
				k.SANs = append(k.SANs, c.Pick(r, e2eLocals)+"@"+strings.TrimPrefix(nearNameClean(r, near), "*."))
			case 1:
				k.SANs = append(k.SANs, c.Pick(r, []string{"root", "alice", "Alice", "bob-1", "ops"}))
			default:
				if len(k.P.Prin)+len(k.X.Prin) > 0 {
					k.SANs = append(k.SANs, strings.TrimSuffix(strings.TrimPrefix(c.Pick(r, append(append([]string{}, k.P.Prin...), k.X.Prin...)), "*"), "*")+"x")
				} else {
					k.SANs = append(k.SANs, "user"+fmt.Sprint(r.Intn(3)))
				}
			}
		}
	}
	if r.Chance(1, 4) {
		k.Side = c.Pick(r, []string{"own", "other"})
		return k
	}
	if r.Chance(1, 4) {
		// the stored (linkedca) form has dns, ips and principals for host and e-mails and principals for user policies
		k.E2E = c.Pick(r, []string{"admin", "admin-restart", "adminprov", "adminprov-restart", "admincreate", "admincreate-restart"})
		if k.Kind == "sshhost" {
			k.P.Email, k.X.Email = nil, nil
		} else {
			k.P.DNS, k.P.IP, k.X.DNS, k.X.IP = nil, nil, nil, nil
		}
	}
	return k
}

var e2eLocals = []string{"a", "root", "first.last", "x+y"}

// genE2E: well-formed names only, so that nothing but the policy decides
func genE2E(r *c.Rng) *Case {
	k := &Case{Kind: "x509", VCN: true, Wild: r.Chance(1, 3), E2E: c.Pick(r, []string{"authority", "provisioner"})}
	dirty = false
	var near []string
	switch r.Intn(4) {
	case 0:
		k.X = genRules(r, &near)
	case 1:
		k.P = genRules(r, &near)
	default:
		k.P = genRules(r, &near)
		k.X = genRules(r, &near)
	}
	k.P.Prin, k.X.Prin = nil, nil
	clean := func(s string) string {
		s = nearNameClean(r, near)
		return s
	}
	for i := r.Intn(3); i > 0; i-- {
		k.DNS = append(k.DNS, clean(""))
	}
	for i := r.Intn(2); i > 0; i-- {
		k.IPs = append(k.IPs, c.Pick(r, ipsPool))
	}
	for i := r.Intn(2); i > 0; i-- {
		k.Emails = append(k.Emails, c.Pick(r, e2eLocals)+"@"+clean(""))
	}
	for i := r.Intn(2); i > 0; i-- {
		k.URIs = append(k.URIs, "https://"+clean("")+"/p")
	}
	switch {
	case len(k.DNS) > 0 && r.Chance(2, 3):
		k.CN = k.DNS[0]
	case r.Chance(1, 2):
		k.CN = clean("")
	default:
		k.CN = c.Pick(r, []string{"root", "alice", "Alice", "bob-1"})
	}
	if len(k.DNS)+len(k.IPs)+len(k.Emails)+len(k.URIs) == 0 {
		// a token without SANs gets the subject as its only SAN: say so explicitly
		k.DNS = []string{k.CN}
	}
	if r.Chance(1, 4) {
		// through the administrator's path; the policy must let the administrator ("step") in, or it is refused
		k.E2E = c.Pick(r, []string{"admin", "admin-restart", "adminprov", "adminprov-restart", "admincreate", "admincreate-restart"})
		if k.P.nonEmpty() {
			k.P.DNS = append(k.P.DNS, "step")
		}
		// rules on the common name itself (a kind of rule the other kinds' conversions do not carry along):
		// sometimes on top of the generated rules, sometimes as the only rule that decides
		switch r.Intn(6) {
		case 0:
			k.X.CN = append(k.X.CN, k.CN)
		case 1:
			if k.P.nonEmpty() {
				k.P.CN = append(k.P.CN, k.CN)
			}
		case 2: // every name allowed by exact rules, the common name alone is denied
			k.Emails, k.URIs = nil, nil
			if len(k.DNS)+len(k.IPs) == 0 {
				k.DNS = []string{k.CN} // a token without names gets its subject as the only name
			}
			k.P = Rules{DNS: append(append([]string{}, k.DNS...), "step"), IP: k.IPs, CN: []string{k.CN}}
			k.X = Rules{CN: []string{c.Pick(r, []string{k.CN, strings.ToUpper(k.CN), "other-" + k.CN})}}
		case 3: // deny-only policy whose single rule is the common name (or a near miss of it)
			k.P = Rules{}
			k.X = Rules{CN: []string{c.Pick(r, []string{k.CN, strings.ToUpper(k.CN), k.CN + "x"})}}
		}
	}
	return k
}

// nearNameClean derives a plain lower/upper-case ASCII domain from a rule (or a fresh one)
func nearNameClean(r *c.Rng, near []string) string {
	for tries := 0; tries < 8; tries++ {
		s := nearName(r, near)
		ok := s != "" && len(s) < 60
		for _, ch := range s {
			if !(ch == '.' || ch == '-' || (ch >= '0' && ch <= '9') || (ch >= 'a' && ch <= 'z') || (ch >= 'A' && ch <= 'Z')) {
				ok = false
			}
		}
		if ok && s[0] != '.' && s[len(s)-1] != '.' && !contains(s, "..") && s[0] != '-' {
			if r.Chance(1, 8) {
				return "*." + s
			}
			return s
		}
	}
	return genDomainASCII(r)
}

func contains(s, sub string) bool {
	for i := 0; i+len(sub) <= len(s); i++ {
		if s[i:i+len(sub)] == sub {
			return true
		}
	}
	return false
}

func genDomainASCII(r *c.Rng) string {
	return c.Pick(r, []string{"a", "b", "host", "sub", "test"}) + "." + c.Pick(r, []string{"com", "local", "example.com", "a.b"})
}
