package main

// Level "acmeacct" of the end-to-end stage: the rule set is the X.509 policy an administrator attaches to an ACME
// external account key. It goes in through the real admin handler (CreateACMEAccountPolicy: protojson body →
// linkedca.Policy → validatePolicy → linkedEAKToCertificates → acme.DB.UpdateExternalAccountKey), the acme.Policy the
// database receives is stored the way a database stores it (JSON), read back, compiled with the constructor new-order
// uses (authority/policy.NewX509PolicyEngine on the acme.Policy container, i.e. its Get{Allowed,Denied}NameOptions /
// AreWildcardNamesAllowed accessors) and asked about each identifier the way new-order asks (AreSANsAllowed on the
// single value).

import (
	"bytes"
	"context"
	"encoding/json"
	"net/http"
	"net/http/httptest"

	"github.com/smallstep/linkedca"
	"google.golang.org/protobuf/encoding/protojson"

	"github.com/smallstep/certificates/acme"
	"github.com/smallstep/certificates/authority/admin"
	adminAPI "github.com/smallstep/certificates/authority/admin/api"
	authpolicy "github.com/smallstep/certificates/authority/policy"
	c "verif/harness/common"
)

type captureACMEDB struct {
	acme.DB
	got *acme.ExternalAccountKey
}

func (d *captureACMEDB) UpdateExternalAccountKey(_ context.Context, _ string, eak *acme.ExternalAccountKey) error {
	d.got = eak
	return nil
}

type plainAdminDB struct{ admin.DB }

func (k *Case) runE2EAcmeAcct() string {
	lp := &linkedca.Policy{X509: &linkedca.X509Policy{AllowWildcardNames: k.Wild}}
	if k.P.nonEmpty() {
		lp.X509.Allow = &linkedca.X509Names{Dns: nilIfEmpty(k.P.DNS), Ips: nilIfEmpty(k.P.IP)}
	}
	if k.X.nonEmpty() {
		lp.X509.Deny = &linkedca.X509Names{Dns: nilIfEmpty(k.X.DNS), Ips: nilIfEmpty(k.X.IP)}
	}
	body, err := protojson.Marshal(lp)
	if err != nil {
		return ""
	}
	db := &captureACMEDB{}
	ctx := admin.NewContext(context.Background(), &plainAdminDB{})
	ctx = linkedca.NewContextWithProvisioner(ctx, &linkedca.Provisioner{Id: "provID", Name: "acme"})
	ctx = linkedca.NewContextWithExternalAccountKey(ctx, &linkedca.EABKey{Id: "keyID", Provisioner: "provID", Reference: "ref"})
	ctx = acme.NewDatabaseContext(ctx, db)
	req := httptest.NewRequest("POST", "/acme/policy/acme/key/keyID", bytes.NewReader(body)).WithContext(ctx)
	w := httptest.NewRecorder()
	adminAPI.NewPolicyAdminResponder().CreateACMEAccountPolicy(w, req)
	switch {
	case w.Code == http.StatusBadRequest:
		return "badrule"
	case w.Code != http.StatusCreated || db.got == nil:
		return ""
	}
	stored, err := json.Marshal(db.got.Policy)
	if err != nil {
		return ""
	}
	var pol *acme.Policy
	if err := json.Unmarshal(stored, &pol); err != nil {
		return ""
	}
	eng, err := authpolicy.NewX509PolicyEngine(pol)
	if err != nil {
		return "badrule"
	}
	if eng == nil { // no rules at all: new-order does not evaluate
		return "allow"
	}
	for _, s := range k.SANs {
		if err := eng.AreSANsAllowed([]string{s}); err != nil {
			return "deny"
		}
	}
	return "allow"
}

// genE2EAcme: DNS and IP rules only (the only kinds an ACME account policy carries), identifiers near them.
func genE2EAcme(r *c.Rng) *Case {
	k := &Case{Kind: "sans", Wild: r.Chance(1, 3), E2E: "acmeacct"}
	dirty = false
	var near []string
	switch r.Intn(4) {
	case 0:
		k.X = genRules(r, &near)
	case 1:
		k.P = genRules(r, &near)
	default:
		k.P = genRules(r, &near)
		k.X = genRules(r, &near)
	}
	for _, rs := range []*Rules{&k.P, &k.X} {
		rs.Prin, rs.CN, rs.Email, rs.URI = nil, nil, nil, nil
	}
	// one kind on one side only, often: the conversions carry four lists, each must arrive where it belongs
	switch r.Intn(6) {
	case 0:
		k.P = Rules{}
		k.X = Rules{IP: k.X.IP}
		if len(k.X.IP) == 0 {
			k.X.IP = []string{c.Pick(r, cidrs[:11])}
		}
	case 1:
		k.X = Rules{}
		k.P = Rules{IP: k.P.IP}
		if len(k.P.IP) == 0 {
			k.P.IP = []string{c.Pick(r, cidrs[:11])}
		}
	case 2:
		k.P.IP = nil
	case 3:
		k.X.DNS = nil
	}
	for i := 1 + r.Intn(2); i > 0; i-- {
		if r.Chance(1, 2) {
			k.SANs = append(k.SANs, c.Pick(r, ipsPool))
		} else {
			k.SANs = append(k.SANs, nearNameClean(r, near))
		}
	}
	return k
}
