// Smoke test of the shared fixture (not a registered check): sign, renew, revoke, restart.
package main

import (
	"context"
	"fmt"
	"os"

	"github.com/smallstep/certificates/authority"
	"github.com/smallstep/certificates/authority/provisioner"
	"verif/harness/fixture"
)

func main() {
	ca, err := fixture.New(fixture.Opts{SSH: true})
	if err != nil {
		fmt.Println("new:", err)
		os.Exit(1)
	}
	defer ca.Close()
	tok, _ := ca.Token(fixture.TokenOpts{Subject: "a.example.com", SANs: []string{"a.example.com", "10.0.0.1"}})
	csr, _, _ := fixture.CSR("a.example.com", []string{"a.example.com", "10.0.0.1"})
	chain, err := ca.SignX509(tok, csr, provisioner.SignOptions{})
	fmt.Println("sign:", err, len(chain))
	if err != nil {
		os.Exit(1)
	}
	fmt.Println("sans:", fixture.SANs(chain[0]), chain[0].NotBefore, chain[0].NotAfter)
	_, err = ca.SignX509(tok, csr, provisioner.SignOptions{})
	fmt.Println("replay:", err)
	re, err := ca.Auth.Renew(chain[0])
	fmt.Println("renew:", err, len(re))
	rtok, _ := ca.Token(fixture.TokenOpts{Subject: chain[0].SerialNumber.String(), Audience: fixture.Audience("/1.0/revoke"), NoSANs: true})
	ctx := provisioner.NewContextWithMethod(context.Background(), provisioner.RevokeMethod)
	err = ca.Auth.Revoke(ctx, &authority.RevokeOptions{Serial: chain[0].SerialNumber.String(), OTT: rtok, ReasonCode: 1})
	fmt.Println("revoke:", err)
	ca2, err := ca.Restart()
	fmt.Println("restart:", err)
	if err == nil {
		_, err = ca2.Auth.Renew(chain[0])
		fmt.Println("renew after revoke+restart:", err)
		ca2.Close()
	}
}
