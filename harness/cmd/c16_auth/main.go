// Harness for C16, stage `auth`: a real authority.Authority with the admin API enabled, on a
// bbolt database, behind a fault-injecting admin.DB wrapper. Random sequences of
// StoreAdmin / UpdateAdmin / RemoveAdmin / StoreProvisioner / UpdateProvisioner /
// RemoveProvisioner / restart with injected storage failures; after every operation the listings
// (all pages), the authentication index (subject, provisioner name) and the database content are
// written and compared with the Lean model (drv_c16, `auth` lines).
//
// -mode props: oracle stage; verdict of "cache = image of the database", "a restarted CA lists
// the same", "RemoveProvisioner deleted exactly that provisioner's admins", "a super admin remains".
package main

import (
	"context"
	"crypto/ecdsa"
	"crypto/elliptic"
	"crypto/rand"
	"crypto/sha1"
	"crypto/x509"
	"crypto/x509/pkix"
	"encoding/hex"
	"encoding/json"
	"encoding/pem"
	"errors"
	"flag"
	"fmt"
	"io"
	"log"
	"math/big"
	"os"
	"path/filepath"
	"reflect"
	"sort"
	"strings"
	"time"

	"github.com/smallstep/linkedca"
	"go.step.sm/crypto/jose"

	"github.com/smallstep/certificates/authority"
	"github.com/smallstep/certificates/authority/admin"
	adminnosql "github.com/smallstep/certificates/authority/admin/db/nosql"
	"github.com/smallstep/certificates/authority/config"
	authpolicy "github.com/smallstep/certificates/authority/policy"
	"github.com/smallstep/certificates/authority/provisioner"
	"github.com/smallstep/certificates/db"
	capolicy "github.com/smallstep/certificates/policy"
	"github.com/smallstep/nosql"
	c "verif/harness/common"
)

// ---------- fault-injecting admin.DB ----------

var errInjected = errors.New("injected storage failure")

type faultDB struct {
	admin.DB
	calls  int
	fail   map[int]bool
	fired  []string
	active bool
}

func (f *faultDB) arm(positions []int) {
	f.calls, f.fired, f.active = 0, nil, true
	f.fail = map[int]bool{}
	for _, p := range positions {
		f.fail[p] = true
	}
}
func (f *faultDB) disarm() { f.active = false }

func (f *faultDB) hit(name string) bool {
	if !f.active {
		return false
	}
	f.calls++
	if f.fail[f.calls] {
		f.fired = append(f.fired, name)
		return true
	}
	return false
}

func (f *faultDB) CreateProvisioner(ctx context.Context, p *linkedca.Provisioner) error {
	if f.hit("w") {
		return errInjected
	}
	return f.DB.CreateProvisioner(ctx, p)
}
func (f *faultDB) UpdateProvisioner(ctx context.Context, p *linkedca.Provisioner) error {
	if f.hit("w") {
		return errInjected
	}
	return f.DB.UpdateProvisioner(ctx, p)
}
func (f *faultDB) DeleteProvisioner(ctx context.Context, id string) error {
	if f.hit("w") {
		return errInjected
	}
	return f.DB.DeleteProvisioner(ctx, id)
}
func (f *faultDB) GetProvisioners(ctx context.Context) ([]*linkedca.Provisioner, error) {
	if f.hit("r") {
		return nil, errInjected
	}
	return f.DB.GetProvisioners(ctx)
}
func (f *faultDB) CreateAdmin(ctx context.Context, a *linkedca.Admin) error {
	if f.hit("w") {
		return errInjected
	}
	return f.DB.CreateAdmin(ctx, a)
}
func (f *faultDB) UpdateAdmin(ctx context.Context, a *linkedca.Admin) error {
	if f.hit("w") {
		return errInjected
	}
	return f.DB.UpdateAdmin(ctx, a)
}
func (f *faultDB) DeleteAdmin(ctx context.Context, id string) error {
	if f.hit("w") {
		return errInjected
	}
	return f.DB.DeleteAdmin(ctx, id)
}
func (f *faultDB) GetAdmins(ctx context.Context) ([]*linkedca.Admin, error) {
	if f.hit("r") {
		return nil, errInjected
	}
	return f.DB.GetAdmins(ctx)
}

func (f *faultDB) CreateAuthorityPolicy(ctx context.Context, p *linkedca.Policy) error {
	if f.hit("w") {
		return errInjected
	}
	return f.DB.CreateAuthorityPolicy(ctx, p)
}
func (f *faultDB) UpdateAuthorityPolicy(ctx context.Context, p *linkedca.Policy) error {
	if f.hit("w") {
		return errInjected
	}
	return f.DB.UpdateAuthorityPolicy(ctx, p)
}
func (f *faultDB) DeleteAuthorityPolicy(ctx context.Context) error {
	if f.hit("w") {
		return errInjected
	}
	return f.DB.DeleteAuthorityPolicy(ctx)
}
func (f *faultDB) GetAuthorityPolicy(ctx context.Context) (*linkedca.Policy, error) {
	if f.hit("r") {
		return nil, errInjected
	}
	return f.DB.GetAuthorityPolicy(ctx)
}

// ---------- policies ----------

// universe of subjects whose verdicts are reported (all admin subjects the generator uses)
var univ = []string{"s0", "s1", "s2", "step"}

type polSpec struct {
	tag         string
	allow, deny []string
	empty       bool // an X.509 part without names
}

var polPool = []polSpec{
	{tag: "all", allow: []string{"s0", "s1", "s2", "step"}},
	{tag: "onlystep", allow: []string{"step"}},
	{tag: "nostep", allow: []string{"s0", "s1", "s2"}},
	{tag: "denys1", allow: []string{"s0", "s1", "s2", "step"}, deny: []string{"s1"}},
	{tag: "empty", empty: true},
	{tag: "bad", allow: []string{"**.bad..name"}},
}

func polByTag(tag string) *polSpec {
	for i := range polPool {
		if polPool[i].tag == tag {
			return &polPool[i]
		}
	}
	return nil
}

func (ps *polSpec) linked() *linkedca.Policy {
	if ps.empty {
		return &linkedca.Policy{X509: &linkedca.X509Policy{}} // an X.509 part without any name: no engine
	}
	x := &linkedca.X509Policy{Allow: &linkedca.X509Names{Dns: ps.allow}}
	if len(ps.deny) > 0 {
		x.Deny = &linkedca.X509Names{Dns: ps.deny}
	}
	return &linkedca.Policy{X509: x}
}

// specOf: the pool entry a stored policy came from (nil: no policy)
func specOf(p *linkedca.Policy) *polSpec {
	if p == nil {
		return nil
	}
	allow, deny := p.GetX509().GetAllow().GetDns(), p.GetX509().GetDeny().GetDns()
	for i := range polPool {
		ps := &polPool[i]
		if ps.empty {
			if p.GetX509() != nil && len(allow) == 0 && len(deny) == 0 {
				return ps
			}
			continue
		}
		if strings.Join(ps.allow, ",") == strings.Join(allow, ",") && strings.Join(ps.deny, ",") == strings.Join(deny, ",") {
			return ps
		}
	}
	return nil
}

func tagOf(p *linkedca.Policy) string {
	if p == nil {
		return "!"
	}
	var allow, deny []string
	if p.GetX509() != nil {
		allow, deny = p.GetX509().GetAllow().GetDns(), p.GetX509().GetDeny().GetDns()
	}
	for _, ps := range polPool {
		if p.GetX509() != nil && strings.Join(ps.allow, ",") == strings.Join(allow, ",") && strings.Join(ps.deny, ",") == strings.Join(deny, ",") {
			return hx(ps.tag)
		}
	}
	return hx("unknown")
}

func verdictOf(err error) string {
	if err == nil {
		return "a"
	}
	var pe *capolicy.NamePolicyError
	if errors.As(err, &pe) && pe.Reason == capolicy.NotAllowed {
		return "n"
	}
	return "e"
}

// polField renders a policy for the model: tag, what the engine constructor makes of it, and the
// verdict of the real engine on every subject of the universe
func (ps *polSpec) field() string {
	opts := authpolicy.LinkedToCertificates(ps.linked())
	if opts == nil {
		return hx(ps.tag) + "~n~-"
	}
	eng, err := authpolicy.NewX509PolicyEngine(opts.GetX509Options())
	if err != nil {
		return hx(ps.tag) + "~b~-"
	}
	if eng == nil {
		return hx(ps.tag) + "~n~-"
	}
	var vs []string
	for _, sub := range univ {
		vs = append(vs, hx(sub)+"."+verdictOf(eng.AreSANsAllowed([]string{sub})))
	}
	return hx(ps.tag) + "~e~" + strings.Join(vs, "+")
}

// ---------- case ----------

type Op struct {
	K string   // ip ia boot rs sa ua ra sp up rp la lp
	A []string // ia/sa: subject, provisioner NAME; ua/ra/rp: id ("@n" = n-th admin/provisioner id created in this case);
	//            ip/sp: name; up: id ref, new name
	P string // policy tag (cp mp; up sp: the provisioner's own policy, "" = none)
	B bool   // admin type (super)
	F []int  // fault positions
	N int    // page size
	D string // sp up: details of another provisioner type ("acme", "oidc") or none at all ("none"); "" = the right ones
}

type Case struct{ Ops []Op }

// setDetails gives a JWK-typed record the details of another type; the result is the model's
// field <type>.<type the details belong to | !>
func setDetails(p *linkedca.Provisioner, d string) string {
	switch d {
	case "acme":
		p.Details = &linkedca.ProvisionerDetails{Data: &linkedca.ProvisionerDetails_ACME{ACME: &linkedca.ACMEProvisioner{}}}
		return fmt.Sprintf(":%d.%d", p.Type, linkedca.Provisioner_ACME)
	case "oidc":
		p.Details = &linkedca.ProvisionerDetails{Data: &linkedca.ProvisionerDetails_OIDC{OIDC: &linkedca.OIDCProvisioner{ClientId: "c", ConfigurationEndpoint: "https://idp.verif.test/.well-known/openid-configuration"}}}
		return fmt.Sprintf(":%d.%d", p.Type, linkedca.Provisioner_OIDC)
	case "none":
		p.Details = nil
		return fmt.Sprintf(":%d.!", p.Type)
	case "k8s", "k8s+id":
		// a Kubernetes service-account provisioner: its token id does not depend on its name, so a second
		// one collides with the first; "+id": the request also carries an id of the client's choosing
		p.Type = linkedca.Provisioner_K8SSA
		p.Details = &linkedca.ProvisionerDetails{Data: &linkedca.ProvisionerDetails_K8SSA{K8SSA: &linkedca.K8SSAProvisioner{PublicKeys: [][]byte{pubPEM}}}}
		if d == "k8s+id" {
			p.Id = "client-chosen-" + p.Name
		}
		return fmt.Sprintf(":%d.%d", p.Type, linkedca.Provisioner_K8SSA)
	case "+id":
		p.Id = "client-chosen-" + p.Name
		return fmt.Sprintf(":%d.%d", p.Type, p.Type)
	case "badclaims":
		// the right details, but claims the provisioner's Init refuses (the authority does not run ValidateClaims)
		p.Claims = &linkedca.Claims{X509: &linkedca.X509Claims{Enabled: true, Durations: &linkedca.Durations{Min: "10h", Max: "1h"}}}
		return fmt.Sprintf(":%d.%d.0", p.Type, p.Type)
	case "zeromin":
		p.Claims = &linkedca.Claims{X509: &linkedca.X509Claims{Enabled: true, Durations: &linkedca.Durations{Min: "0s"}}}
		return fmt.Sprintf(":%d.%d.0", p.Type, p.Type)
	case "goodclaims":
		p.Claims = &linkedca.Claims{X509: &linkedca.X509Claims{Enabled: true, Durations: &linkedca.Durations{Min: "1m", Max: "2h", Default: "1h"}}}
		return fmt.Sprintf(":%d.%d.1", p.Type, p.Type)
	}
	return ""
}

func hx(s string) string { return hex.EncodeToString([]byte(s)) }
func sum(id string) string {
	h := sha1.Sum([]byte(id))
	return hex.EncodeToString(h[:])[8:]
}

// ---------- world ----------

var (
	rootCert *x509.Certificate
	rootKey  *ecdsa.PrivateKey
	jwkPub   []byte
	jwkKid   string
	pubPEM   []byte // a PEM public key (K8sSA provisioners need one)
)

func setup() {
	log.SetOutput(io.Discard)
	var err error
	rootKey, err = ecdsa.GenerateKey(elliptic.P256(), rand.Reader)
	must(err)
	tmpl := &x509.Certificate{SerialNumber: big.NewInt(1), Subject: pkix.Name{CommonName: "verif root"},
		NotBefore: time.Now().Add(-time.Hour), NotAfter: time.Now().Add(24 * time.Hour), IsCA: true,
		BasicConstraintsValid: true, KeyUsage: x509.KeyUsageCertSign | x509.KeyUsageCRLSign, MaxPathLen: 1}
	der, err := x509.CreateCertificate(rand.Reader, tmpl, tmpl, rootKey.Public(), rootKey)
	must(err)
	rootCert, err = x509.ParseCertificate(der)
	must(err)
	pkix, err := x509.MarshalPKIXPublicKey(rootKey.Public())
	must(err)
	pubPEM = pem.EncodeToMemory(&pem.Block{Type: "PUBLIC KEY", Bytes: pkix})
	jwk, err := jose.GenerateJWK("EC", "P-256", "ES256", "sig", "", 0)
	must(err)
	pub := jwk.Public()
	jwkKid = pub.KeyID
	jwkPub, err = pub.MarshalJSON()
	must(err)
}

func must(err error) {
	if err != nil {
		fmt.Fprintln(os.Stderr, "setup:", err)
		os.Exit(2)
	}
}

type world struct {
	dir     string
	adb     db.AuthDB
	inner   admin.DB
	fdb     *faultDB
	auth    *authority.Authority
	admIDs  []string // ids in creation order ("@n" references)
	provIDs []string
	subs    map[string]bool
	names   map[string]bool
	cfgSpec []string // provisioners of the configuration file ("jwk:n0", "acme:n1", "x5c:n2"); nil = none
}

func newWorld() (*world, error) {
	base := "" // prefer a memory-backed directory: every bbolt write is an fsync
	if st, err := os.Stat("/dev/shm"); err == nil && st.IsDir() {
		base = "/dev/shm"
	}
	dir, err := os.MkdirTemp(base, "c16auth")
	if err != nil && base != "" {
		dir, err = os.MkdirTemp("", "c16auth")
	}
	if err != nil {
		return nil, err
	}
	adb, err := db.New(&db.Config{Type: "bbolt", DataSource: filepath.Join(dir, "db")})
	if err != nil {
		return nil, err
	}
	inner, err := adminnosql.New(adb.(nosql.DB), admin.DefaultAuthorityID)
	if err != nil {
		return nil, err
	}
	return &world{dir: dir, adb: adb, inner: inner, fdb: &faultDB{DB: inner}, subs: map[string]bool{}, names: map[string]bool{}}, nil
}

func (w *world) close() {
	if w.adb != nil {
		w.adb.Shutdown()
	}
	os.RemoveAll(w.dir)
}

func (w *world) start() (a *authority.Authority, err error) {
	defer func() {
		if r := recover(); r != nil {
			a, err = nil, fmt.Errorf("start-up panicked: %v", r)
		}
	}()
	cfg := &config.Config{
		Address:         "127.0.0.1:0",
		DNSNames:        []string{"ca.verif.test"},
		AuthorityConfig: &config.AuthConfig{EnableAdmin: true, Provisioners: cfgProvisioners(w.cfgSpec)},
	}
	return authority.NewEmbedded(
		authority.WithConfig(cfg),
		authority.WithPassword([]byte("first-provisioner-password")),
		authority.WithX509RootCerts(rootCert),
		authority.WithX509Signer(rootCert, rootKey),
		authority.WithDatabase(w.adb),
		authority.WithAdminDB(w.fdb),
		authority.WithQuietInit(),
	)
}

// cfgProvisioners builds the provisioners of a ca.json from specs "<type>:<name>"
func cfgProvisioners(specs []string) provisioner.List {
	var l provisioner.List
	for _, sp := range specs {
		typ, name, _ := strings.Cut(sp, ":")
		switch typ {
		case "jwk":
			var key jose.JSONWebKey
			if err := json.Unmarshal(jwkPub, &key); err != nil {
				must(err)
			}
			l = append(l, &provisioner.JWK{Type: "JWK", Name: name, Key: &key})
		case "acme":
			l = append(l, &provisioner.ACME{Type: "ACME", Name: name})
		case "x5c":
			l = append(l, &provisioner.X5C{Type: "X5C", Name: name, Roots: pem.EncodeToMemory(&pem.Block{Type: "CERTIFICATE", Bytes: rootCert.Raw})})
		}
	}
	return l
}

// dbTok: the token id (GetIDForToken) of a stored provisioner, by type
func dbTok(p *linkedca.Provisioner) string {
	switch p.Type {
	case linkedca.Provisioner_ACME:
		return "acme/" + p.Name
	case linkedca.Provisioner_X5C:
		return "x5c/" + p.Name
	case linkedca.Provisioner_K8SSA:
		return provisioner.K8sSAID // every K8sSA provisioner has this one token id, whatever its name
	case linkedca.Provisioner_JWK:
		var key jose.JSONWebKey
		if json.Unmarshal(p.GetDetails().GetJWK().GetPublicKey(), &key) == nil {
			return p.Name + ":" + key.KeyID
		}
	}
	return tokID(p.Name)
}

// dbDump: the database alone (after a start that failed there is no authority to ask)
func (w *world) dbDump() string {
	ctx := context.Background()
	var dA, dP []string
	das, _ := w.inner.GetAdmins(ctx)
	sort.Slice(das, func(i, j int) bool { return das[i].Id < das[j].Id })
	for _, a := range das {
		dA = append(dA, admS(a))
	}
	dps, _ := w.inner.GetProvisioners(ctx)
	for _, p := range dps {
		dP = append(dP, hx(p.Id)+"."+hx(p.Name)+"."+hx(dbTok(p))+"."+storedPol(p))
	}
	return fmt.Sprintf("dA[%s]dP[%s]", strings.Join(dA, ","), sortedJoin(dP))
}

// firstStart starts the CA with the configuration's provisioners on whatever the database holds;
// on an empty database that is the migration (ProvisionerToLinkedca + CreateProvisioner for each,
// CreateFirstProvisioner when none is a JWK provisioner, first super admin "step")
func (w *world) firstStart(o Op, run func(func()), crashed *bool) (tok, item string) {
	ctx := context.Background()
	if o.A != nil {
		w.cfgSpec = o.A
	}
	for _, sp := range w.cfgSpec {
		_, name, _ := strings.Cut(sp, ":")
		w.names[name] = true
	}
	w.names["Admin JWK"] = true
	w.subs["step"] = true
	var a *authority.Authority
	var err error
	run(func() { a, err = w.start() })
	// what was written: ids are assigned by the database
	dps, _ := w.inner.GetProvisioners(ctx)
	byName := map[string]*linkedca.Provisioner{}
	for _, p := range dps {
		byName[p.Name] = p
	}
	var items []string
	hasJWK := false
	for i, sp := range w.cfgSpec {
		typ, name, _ := strings.Cut(sp, ":")
		kind, tokS := linkedca.Provisioner_JWK, tokID(name)
		switch typ {
		case "acme":
			kind, tokS = linkedca.Provisioner_ACME, "acme/"+name
		case "x5c":
			kind, tokS = linkedca.Provisioner_X5C, "x5c/"+name
		default:
			hasJWK = true
		}
		id := fmt.Sprintf("unwritten-%d", i)
		if p := byName[name]; p != nil {
			id = p.Id
			w.provIDs = append(w.provIDs, id)
		}
		items = append(items, fmt.Sprintf("c/%s/%s/%s/!/%s/%d", hx(id), hx(name), hx(tokS), hx(sum(id)), kind))
	}
	if p := byName["Admin JWK"]; p != nil && !hasJWK {
		var key jose.JSONWebKey
		_ = json.Unmarshal(p.GetDetails().GetJWK().GetPublicKey(), &key)
		items = append(items, fmt.Sprintf("d/%s/%s/%s/%s/%s/%d", hx(p.Id), hx(p.Name), hx(dbTok(p)), hx(key.KeyID), hx(sum(p.Id)), linkedca.Provisioner_JWK))
		w.provIDs = append(w.provIDs, p.Id)
	}
	admID := "!"
	if das, _ := w.inner.GetAdmins(ctx); len(das) > 0 {
		known := map[string]bool{}
		for _, id := range w.admIDs {
			known[id] = true
		}
		for _, x := range das {
			if x.Subject == "step" && !known[x.Id] { // the one this start created
				admID = hx(x.Id)
				w.admIDs = append(w.admIDs, x.Id)
			}
		}
	}
	list := "-"
	if len(items) > 0 {
		list = strings.Join(items, ",")
	}
	tok = fmt.Sprintf("fs:%s:%s:%s", faultsS(o.F), admID, list)
	switch {
	case *crashed:
		return tok, "crash#" + w.dbDump()
	case err != nil:
		cls := w.class(err)
		if len(w.fdb.fired) == 0 {
			cls = "reloadfail" // no storage call failed: the caches could not be built from what is stored
		}
		return tok, cls + "#" + w.dbDump()
	}
	w.auth = a
	return tok, "ok#" + w.dump()
}

func newProv(name string) *linkedca.Provisioner {
	return &linkedca.Provisioner{
		Name: name, Type: linkedca.Provisioner_JWK,
		Details: &linkedca.ProvisionerDetails{Data: &linkedca.ProvisionerDetails_JWK{JWK: &linkedca.JWKProvisioner{PublicKey: jwkPub}}},
		Claims:  &linkedca.Claims{X509: &linkedca.X509Claims{Enabled: true}},
	}
}

func tokID(name string) string { return name + ":" + jwkKid }

func provFields(id, name string) string {
	return fmt.Sprintf("%s:%s:%s:!:%s", hx(id), hx(name), hx(tokID(name)), hx(sum(id)))
}

func admType(b bool) linkedca.Admin_Type {
	if b {
		return linkedca.Admin_SUPER_ADMIN
	}
	return linkedca.Admin_ADMIN
}

func faultsS(f []int) string {
	if len(f) == 0 {
		return "-"
	}
	var xs []string
	for _, p := range f {
		xs = append(xs, fmt.Sprint(p))
	}
	return strings.Join(xs, "+")
}

func (w *world) ref(ids []string, r string) string {
	if strings.HasPrefix(r, "@") {
		var n int
		fmt.Sscanf(r[1:], "%d", &n)
		if len(ids) > 0 && n >= 0 {
			return ids[n%len(ids)]
		}
		return "missing-" + r[1:]
	}
	return r
}

func (w *world) class(err error) string {
	if err == nil {
		return "ok"
	}
	var pe *authority.PolicyError
	if errors.As(err, &pe) {
		switch pe.Typ {
		case authority.AdminLockOut:
			return "lockout"
		case authority.StoreFailure:
			return "storefail"
		case authority.ReloadFailure:
			return "reloadfail"
		case authority.ConfigurationFailure:
			return "config"
		case authority.EvaluationFailure:
			return "eval"
		case authority.InternalFailure:
			return "internal"
		}
	}
	for _, n := range w.fdb.fired {
		if n == "r" {
			return "reloadfail"
		}
	}
	if strings.Contains(err.Error(), "error reloading admin resources") {
		return "reloadfail" // the reload itself failed although its two reads succeeded
	}
	if len(w.fdb.fired) > 0 {
		return "storefail"
	}
	var ae *admin.Error
	if errors.As(err, &ae) {
		switch {
		case ae.IsType(admin.ErrorNotFoundType):
			return "nf"
		case ae.IsType(admin.ErrorBadRequestType):
			return "bad"
		}
		return "ise"
	}
	return "err"
}

func admS(a *linkedca.Admin) string {
	return hx(a.Id) + "." + hx(a.Subject) + "." + hx(a.ProvisionerId) + "." + c.B(a.Type == linkedca.Admin_SUPER_ADMIN)
}

func (w *world) allAdmins() ([]*linkedca.Admin, bool) {
	var out []*linkedca.Admin
	cur := ""
	for i := 0; i < 300; i++ {
		l, next, _ := w.auth.GetAdmins(cur, 100)
		out = append(out, l...)
		if next == "" {
			return out, true
		}
		cur = next
	}
	return out, false
}

type pv struct{ id, name, tok, pol string }

// polTagOf: the tag of the pool policy with these DNS names ("!" for none and for one without names)
func polTagOf(allow, deny []string, present bool) string {
	if !present || (len(allow) == 0 && len(deny) == 0) {
		return "!"
	}
	for _, ps := range polPool {
		if !ps.empty && strings.Join(ps.allow, ",") == strings.Join(allow, ",") && strings.Join(ps.deny, ",") == strings.Join(deny, ",") {
			return hx(ps.tag)
		}
	}
	return hx("unknown")
}

// servedPol: the name policy the running provisioner carries (field Options, not part of its JSON)
func servedPol(p provisioner.Interface) string {
	v := reflect.ValueOf(p)
	for v.Kind() == reflect.Ptr || v.Kind() == reflect.Interface {
		if v.IsNil() {
			return "!"
		}
		v = v.Elem()
	}
	if v.Kind() != reflect.Struct {
		return "!"
	}
	f := v.FieldByName("Options")
	if !f.IsValid() || f.IsNil() {
		return "!"
	}
	opts, ok := f.Interface().(*provisioner.Options)
	if !ok || opts == nil || opts.GetX509Options() == nil {
		return "!"
	}
	var allow, deny []string
	present := false
	if a := opts.GetX509Options().GetAllowedNameOptions(); a != nil {
		allow, present = a.DNSDomains, true
	}
	if d := opts.GetX509Options().GetDeniedNameOptions(); d != nil {
		deny, present = d.DNSDomains, true
	}
	return polTagOf(allow, deny, present)
}

func storedPol(p *linkedca.Provisioner) string {
	if p.GetPolicy() == nil {
		return "!"
	}
	return polTagOf(p.GetPolicy().GetX509().GetAllow().GetDns(), p.GetPolicy().GetX509().GetDeny().GetDns(), true)
}

func (w *world) allProvs() ([]pv, bool) {
	var out []pv
	cur := ""
	for i := 0; i < 300; i++ {
		l, next, _ := w.auth.GetProvisioners(cur, 100)
		for _, p := range l {
			out = append(out, pv{p.GetID(), p.GetName(), p.GetIDForToken(), servedPol(p)})
		}
		if next == "" {
			return out, true
		}
		cur = next
	}
	return out, false
}

func sortedJoin(xs []string) string { sort.Strings(xs); return strings.Join(xs, ",") }

func (w *world) dump() (out string) {
	defer func() {
		if r := recover(); r != nil {
			out = "dump-crash"
		}
	}()
	ctx := context.Background()
	al, _ := w.allAdmins()
	var aList, aSp, pList, dA, dP []string
	for _, a := range al {
		aList = append(aList, admS(a))
	}
	var subs, names []string
	for s := range w.subs {
		subs = append(subs, s)
	}
	for n := range w.names {
		names = append(names, n)
	}
	for _, s := range subs {
		for _, n := range names {
			if a, ok := w.auth.LoadAdminBySubProv(s, n); ok {
				aSp = append(aSp, hx(s)+"/"+hx(n)+"="+hx(a.Id))
			}
		}
	}
	pl, _ := w.allProvs()
	for _, p := range pl {
		pList = append(pList, hx(p.id)+"."+hx(p.name)+"."+hx(p.tok)+"."+p.pol)
	}
	das, _ := w.inner.GetAdmins(ctx)
	sort.Slice(das, func(i, j int) bool { return das[i].Id < das[j].Id })
	for _, a := range das {
		dA = append(dA, admS(a))
	}
	dps, _ := w.inner.GetProvisioners(ctx)
	for _, p := range dps {
		dP = append(dP, hx(p.Id)+"."+hx(p.Name)+"."+hx(dbTok(p))+"."+storedPol(p))
	}
	dpol, _ := w.inner.GetAuthorityPolicy(ctx)
	var eng []string
	for _, sub := range univ {
		eng = append(eng, hx(sub)+"."+verdictOf(w.auth.AreSANsAllowed(ctx, []string{sub})))
	}
	return fmt.Sprintf("A[%s]S[%s]P[%s]dA[%s]dP[%s]pol=%sE[%s]", strings.Join(aList, ","), sortedJoin(aSp), sortedJoin(pList),
		strings.Join(dA, ","), sortedJoin(dP), tagOf(dpol), strings.Join(eng, ","))
}

func univToken() string {
	var xs []string
	for _, sub := range univ {
		xs = append(xs, hx(sub))
	}
	return "u:" + strings.Join(xs, ",")
}

// exec runs one operation and returns (model token, implementation item).
func (w *world) exec(o Op) (tok, item string) {
	ctx := context.Background()
	var err error
	crashed := false
	run := func(f func()) {
		defer func() {
			if r := recover(); r != nil {
				crashed = true
			}
			w.fdb.disarm()
		}()
		w.fdb.arm(o.F)
		f()
	}
	fin := func() string {
		if crashed {
			return "crash#" + w.dump()
		}
		if err != nil && os.Getenv("C16_ERR") != "" {
			fmt.Fprintln(os.Stderr, o.K, "error:", err)
		}
		return w.class(err) + "#" + w.dump()
	}
	switch o.K {
	case "ip":
		p := newProv(o.A[0])
		must(w.inner.CreateProvisioner(ctx, p))
		w.provIDs = append(w.provIDs, p.Id)
		w.names[o.A[0]] = true
		return "ip:" + provFields(p.Id, o.A[0]), "-"
	case "ia":
		pid := w.ref(w.provIDs, o.A[1])
		a := &linkedca.Admin{Subject: o.A[0], ProvisionerId: pid, Type: admType(o.B)}
		must(w.inner.CreateAdmin(ctx, a))
		w.admIDs = append(w.admIDs, a.Id)
		w.subs[o.A[0]] = true
		return fmt.Sprintf("ia:%s:%s:%s:%s", hx(a.Id), hx(o.A[0]), hx(pid), c.B(o.B)), "-"
	case "fs":
		if ps, _ := w.inner.GetProvisioners(ctx); len(ps) != 0 {
			return "", "" // not a first start
		}
		return w.firstStart(o, run, &crashed)
	case "boot", "rs":
		// a start on a database without provisioners is the first-start migration
		if ps, _ := w.inner.GetProvisioners(ctx); len(ps) == 0 {
			return w.firstStart(Op{K: "fs"}, run, &crashed)
		}
		var a *authority.Authority
		run(func() { a, err = w.start() })
		if err == nil && !crashed {
			w.auth = a
		} else if w.auth == nil {
			return o.K, "boot-failed"
		}
		if err != nil {
			return o.K, "reloadfail#" + w.dump()
		}
		return o.K, fin()
	case "sa":
		w.subs[o.A[0]] = true
		w.names[o.A[1]] = true
		p, perr := w.auth.LoadProvisionerByName(o.A[1])
		if perr != nil {
			return "", ""
		}
		a := &linkedca.Admin{Subject: o.A[0], ProvisionerId: p.GetID(), Type: admType(o.B)}
		run(func() { err = w.auth.StoreAdmin(ctx, a, p) })
		id := a.Id
		if id == "" {
			id = "none"
		} else {
			w.admIDs = append(w.admIDs, id)
		}
		return fmt.Sprintf("sa:%s:%s:%s:%s:%s:%s:%s", hx(id), hx(o.A[0]), hx(p.GetID()), c.B(o.B), hx(p.GetID()), hx(p.GetName()), faultsS(o.F)), fin()
	case "ua":
		id := w.ref(w.admIDs, o.A[0])
		run(func() { _, err = w.auth.UpdateAdmin(ctx, id, &linkedca.Admin{Type: admType(o.B)}) })
		return fmt.Sprintf("ua:%s:%s:%s", hx(id), c.B(o.B), faultsS(o.F)), fin()
	case "ra":
		id := w.ref(w.admIDs, o.A[0])
		run(func() { err = w.auth.RemoveAdmin(ctx, id) })
		return fmt.Sprintf("ra:%s:%s", hx(id), faultsS(o.F)), fin()
	case "sp":
		w.names[o.A[0]] = true
		p := newProv(o.A[0])
		polF := ""
		if ps := polByTag(o.P); ps != nil {
			p.Policy = ps.linked()
			polF = ":" + ps.field()
		}
		detF := setDetails(p, o.D)
		if detF != "" && polF == "" {
			polF = ":!"
		}
		run(func() { err = w.auth.StoreProvisioner(ctx, p) })
		id := p.Id
		if id == "" {
			id = "none"
		} else {
			w.provIDs = append(w.provIDs, id)
		}
		return "sp:" + fmt.Sprintf("%s:%s:%s:!:%s", hx(id), hx(o.A[0]), hx(dbTok(p)), hx(sum(id))) + ":" + faultsS(o.F) + polF + detF, fin()
	case "cp", "mp":
		ps := polByTag(o.P)
		if ps == nil {
			return "", ""
		}
		cur := &linkedca.Admin{Subject: o.A[0]}
		run(func() {
			if o.K == "cp" {
				_, err = w.auth.CreateAuthorityPolicy(ctx, cur, ps.linked())
			} else {
				_, err = w.auth.UpdateAuthorityPolicy(ctx, cur, ps.linked())
			}
		})
		return fmt.Sprintf("%s:%s:%s:%s", o.K, hx(o.A[0]), ps.field(), faultsS(o.F)), fin()
	case "dp":
		// also when no policy is stored (never created, or already deleted): a storage error, not
		// the nil dereference it was before 3ba0ea4 (notes/C16.md)
		run(func() { err = w.auth.RemoveAuthorityPolicy(ctx) })
		return "dp:" + faultsS(o.F), fin()
	case "up":
		id := w.ref(w.provIDs, o.A[0])
		w.names[o.A[1]] = true
		nu, gerr := w.inner.GetProvisioner(ctx, id)
		if gerr != nil {
			nu = newProv(o.A[1])
			nu.Id = id
		}
		nu.Name = o.A[1]
		polF := ""
		if ps := polByTag(o.P); ps != nil {
			nu.Policy = ps.linked()
			polF = ":" + ps.field()
		} else if o.P == "-" {
			nu.Policy = nil // the update removes the provisioner's policy (how it is done on a stand-alone CA)
		} else if ps := specOf(nu.Policy); ps != nil {
			// the record carries the policy stored by an earlier update (f9d8004: the admin database keeps it)
			polF = ":" + ps.field()
		}
		dv := o.D
		if strings.HasPrefix(dv, "k8s") && nu.Type != linkedca.Provisioner_K8SSA {
			dv = "" // the type of a stored provisioner cannot be changed (the handler pins it, the database refuses)
		}
		detF := setDetails(nu, dv)
		nu.Id = id // an update addresses its provisioner by id: the "+id" variants are for creation
		if detF != "" && polF == "" {
			polF = ":!"
		}
		run(func() { err = w.auth.UpdateProvisioner(ctx, nu) })
		// token id and key id follow the record's type and key (a migrated ACME / X5C provisioner, the
		// "Admin JWK" of the first start)
		kidF := "!"
		if jw := nu.GetDetails().GetJWK(); jw != nil && len(jw.GetEncryptedPrivateKey()) > 0 {
			var key jose.JSONWebKey
			if json.Unmarshal(jw.GetPublicKey(), &key) == nil {
				kidF = hx(key.KeyID)
			}
		}
		fields := fmt.Sprintf("%s:%s:%s:%s:%s", hx(id), hx(o.A[1]), hx(dbTok(nu)), kidF, hx(sum(id)))
		return "up:" + fields + ":" + faultsS(o.F) + polF + detF, fin()
	case "rp":
		id := w.ref(w.provIDs, o.A[0])
		run(func() { err = w.auth.RemoveProvisioner(ctx, id) })
		return fmt.Sprintf("rp:%s:%s", hx(id), faultsS(o.F)), fin()
	case "la":
		return fmt.Sprintf("la:%d", o.N), w.pages(true, o.N)
	case "lp":
		return fmt.Sprintf("lp:%d", o.N), w.pages(false, o.N)
	}
	return "", ""
}

func (w *world) pages(admins bool, limit int) string {
	var pages []string
	cur := ""
	for i := 0; i < 299; i++ {
		var ids []string
		var next string
		if admins {
			l, n, _ := w.auth.GetAdmins(cur, limit)
			for _, a := range l {
				ids = append(ids, hx(a.Id))
			}
			next = n
		} else {
			l, n, _ := w.auth.GetProvisioners(cur, limit)
			for _, p := range l {
				ids = append(ids, hx(p.GetID()))
			}
			next = n
		}
		pages = append(pages, strings.Join(ids, ","))
		if next == "" {
			return "p:" + strings.Join(pages, "|")
		}
		cur = next
	}
	return "p:loop"
}

// ---------- oracle predicates (mode props) ----------

// verdict after one operation; "" = all predicates hold
func (w *world) check(o Op, id string, before []*linkedca.Admin, err error) string {
	ctx := context.Background()
	al, _ := w.allAdmins()
	das, _ := w.inner.GetAdmins(ctx)
	dps, _ := w.inner.GetProvisioners(ctx)
	pl, _ := w.allProvs()
	supers := func(l []*linkedca.Admin) int {
		n := 0
		for _, a := range l {
			if a.Type == linkedca.Admin_SUPER_ADMIN {
				n++
			}
		}
		return n
	}
	if (o.K == "fs" || o.K == "rs" || o.K == "boot") && err == nil && supers(al) == 0 {
		// a CA that starts without any super administrator can never get one through the admin API
		return "nosuper-after-start"
	}
	if supers(before) >= 1 && supers(al) == 0 {
		return "nosuper"
	}
	// cache = image of the database (who is an administrator, which provisioners exist)
	a1, a2 := []string{}, []string{}
	for _, a := range al {
		a1 = append(a1, admS(a))
	}
	for _, a := range das {
		a2 = append(a2, admS(a))
	}
	if sortedJoin(a1) != sortedJoin(a2) {
		return "cache-ne-store:admins"
	}
	p1, p2 := []string{}, []string{}
	names := map[string]string{}
	for _, p := range pl {
		p1 = append(p1, hx(p.id)+"."+hx(p.name)+"."+p.pol) // with the name policy the running provisioner enforces
		names[p.id] = p.name
	}
	for _, p := range dps {
		p2 = append(p2, hx(p.Id)+"."+hx(p.Name)+"."+storedPol(p))
	}
	if sortedJoin(p1) != sortedJoin(p2) {
		return "cache-ne-store:provisioners"
	}
	// what authentication uses: (subject, current provisioner name) -> that admin
	for _, a := range das {
		n, ok := names[a.ProvisionerId]
		if !ok {
			return "orphan-admin"
		}
		if b, ok := w.auth.LoadAdminBySubProv(a.Subject, n); !ok || b.Id != a.Id {
			return "auth-index-stale"
		}
	}
	// which policy applies: the engine answers like the stored policy
	dpol, _ := w.inner.GetAuthorityPolicy(ctx)
	var stored authpolicy.X509Policy
	if opts := authpolicy.LinkedToCertificates(dpol); opts != nil {
		stored, _ = authpolicy.NewX509PolicyEngine(opts.GetX509Options())
	}
	for _, sub := range univ {
		want := "a"
		if stored != nil {
			want = verdictOf(stored.AreSANsAllowed([]string{sub}))
		}
		if verdictOf(w.auth.AreSANsAllowed(ctx, []string{sub})) != want {
			return "policy-stale"
		}
	}
	// an accepted authority policy allows every administrator in the database
	if (o.K == "cp" || o.K == "mp") && err == nil && stored != nil {
		for _, a := range das {
			if verdictOf(stored.AreSANsAllowed([]string{a.Subject})) != "a" {
				return "policy-lockout"
			}
		}
	}
	// an accepted provisioner policy allows every administrator of that provisioner
	if (o.K == "up" || o.K == "sp") && err == nil {
		if ps := polByTag(o.P); ps != nil {
			if opts := authpolicy.LinkedToCertificates(ps.linked()); opts != nil {
				if eng, e := authpolicy.NewX509PolicyEngine(opts.GetX509Options()); e == nil && eng != nil {
					for _, a := range das {
						if a.ProvisionerId == id && verdictOf(eng.AreSANsAllowed([]string{a.Subject})) != "a" {
							return "provpolicy-lockout"
						}
					}
				}
			}
		}
	}
	// a restarted CA must come up and list the same
	old := w.auth
	w.fdb.disarm()
	fresh, rerr := w.start()
	if rerr != nil {
		return "restart-fails"
	}
	w.auth = fresh
	al2, _ := w.allAdmins()
	w.auth = old
	a3 := []string{}
	for _, a := range al2 {
		a3 = append(a3, admS(a))
	}
	if sortedJoin(a3) != sortedJoin(a1) {
		return "restart-differs"
	}
	// RemoveProvisioner deletes exactly that provisioner's admins
	if o.K == "rp" && err == nil {
		want := []string{}
		for _, a := range before {
			if a.ProvisionerId != id {
				want = append(want, admS(a))
			}
		}
		if sortedJoin(want) != sortedJoin(a1) {
			return "remove-provisioner-inexact"
		}
	}
	return ""
}

func (k *Case) runProps() (line, verdict string) {
	w, err := newWorld()
	must(err)
	defer w.close()
	toks := []string{"auth", univToken()}
	roleChanged, renamed, tainted, single := false, false, false, false
	verdict = "ok"
	for i, o := range k.Ops {
		var before []*linkedca.Admin
		var oldName string
		var oldType linkedca.Admin_Type = -1
		id := ""
		if w.auth != nil {
			before, _ = w.allAdmins()
			switch o.K {
			case "up":
				id = w.ref(w.provIDs, o.A[0])
				if p, e := w.auth.LoadProvisionerByID(id); e == nil {
					oldName = p.GetName()
				}
			case "ua":
				id = w.ref(w.admIDs, o.A[0])
				if a, ok := w.auth.LoadAdminByID(id); ok {
					oldType = a.Type
				}
			case "rp":
				id = w.ref(w.provIDs, o.A[0])
			}
		}
		tok, item := w.exec(o)
		if tok == "" {
			continue
		}
		toks = append(toks, tok)
		if strings.HasPrefix(tok, "fs:") && len(w.fdb.fired) >= 2 && os.Getenv("C16_NOTAINT") != "1" {
			// two storage failures in one start (e.g. a write and the delete that takes it back): outside
			// the single-failure clause, the predicates are not evaluated for the rest of this sequence
			tainted = true
		}
		if verdict != "ok" || w.auth == nil || o.K == "ip" || o.K == "ia" {
			continue
		}
		cls := item
		if j := strings.Index(item, "#"); j >= 0 {
			cls = item[:j]
		}
		if cls == "crash" {
			if o.K == "ua" && oldType == -1 {
				verdict = "crash:update-unknown-id"
			} else {
				verdict = fmt.Sprintf("crash:%s@%d", o.K, i)
			}
			continue
		}
		if o.K == "ua" && cls == "ok" && oldType != admType(o.B) {
			roleChanged = true
		}
		if o.K == "up" && cls == "ok" && oldName != "" && oldName != o.A[1] {
			renamed = true
		}
		if o.K == "up" && cls == "reloadfail" && len(w.fdb.fired) == 1 && oldName != "" && oldName != o.A[1] {
			renamed = true // the rename is in the database; only the reload after it failed
		}
		if cls == "reloadfail" {
			if len(w.fdb.fired) >= 2 && os.Getenv("C16_NOTAINT") != "1" {
				// two storage failures in one request: outside the property's fault model. Cache and
				// database may now disagree, and whatever is written while they do can be anything (e.g.
				// the last real super admin deleted because the cache counts a phantom one), so the
				// predicates are not evaluated for the rest of this sequence.
				tainted = true
			} else {
				// ONE failure, in the re-read after a successful write (reload after a rename,
				// policy-engine reload): within the fault model, evaluated (findings C16-F1/F2)
				single = true
			}
		}
		if tainted {
			continue
		}
		var opErr error
		if cls != "ok" {
			opErr = errors.New(cls)
		}
		if bad := w.check(o, id, before, opErr); bad != "" {
			q := "plain"
			switch {
			case strings.HasPrefix(bad, "provpolicy-lockout"):
				if o.K == "up" && oldName != "" && oldName != o.A[1] {
					q = "rename"
				}
			case single:
				q = "reload1"
			case roleChanged && renamed:
				q = "rolechange+renamed"
			case roleChanged:
				q = "rolechange"
			case renamed:
				q = "renamed"
			}
			verdict = bad + ":" + q
		}
	}
	js, _ := json.Marshal(k)
	return strings.Join(toks, " ") + " case=x" + hex.EncodeToString(js), verdict
}

// ---------- coll-style run (mode auth) ----------

func (k *Case) run() (line, impl string) {
	w, err := newWorld()
	must(err)
	defer w.close()
	toks := []string{"auth", univToken()}
	var items []string
	for _, o := range k.Ops {
		if w.auth == nil && o.K != "ip" && o.K != "ia" && o.K != "boot" && o.K != "fs" && o.K != "rs" {
			continue
		}
		tok, item := w.exec(o)
		if tok == "" {
			continue
		}
		toks = append(toks, tok)
		items = append(items, item)
		if item == "boot-failed" {
			break
		}
	}
	js, _ := json.Marshal(k)
	return strings.Join(toks, " ") + " case=x" + hex.EncodeToString(js), summary(items)
}

// summary prefixes the items with the number of accepted mutations (histogram class)
func summary(items []string) string {
	n := 0
	for _, it := range items {
		if strings.HasPrefix(it, "ok#") {
			n++
		}
	}
	return fmt.Sprintf("ok%d:", n) + strings.Join(items, ";")
}

// ---------- generator ----------

var (
	nameP = []string{"n0", "n1", "n2", "n3", "n4"}
	subP  = []string{"s0", "s1", "s2", "step"}
	lims  = []int{1, 2, 3, 0, 100}
)

func genFaults(r *c.Rng) []int {
	switch r.Intn(24) {
	case 0, 1:
		return []int{1}
	case 2, 3:
		return []int{2}
	case 4, 5:
		return []int{1 + r.Intn(4)}
	case 6:
		return []int{1, 2}
	case 7:
		k := 1 + r.Intn(3)
		return []int{k, k + 1, k + 2, k + 3, k + 4, k + 5}
	}
	return nil
}

func maybePol(r *c.Rng) string {
	if r.Chance(1, 4) {
		return c.Pick(r, polPool).tag
	}
	if r.Chance(1, 6) {
		return "-" // an update without policy: removes the one the record has
	}
	return ""
}

func maybeDet(r *c.Rng) string {
	if r.Chance(1, 5) {
		return c.Pick(r, []string{"acme", "oidc", "none", "badclaims", "zeromin", "goodclaims", "k8s", "k8s", "k8s+id", "k8s+id", "+id"})
	}
	return ""
}

func genCase(r *c.Rng) *Case {
	k := &Case{}
	np := 1 + r.Intn(2)
	if r.Chance(1, 6) {
		// a first start: the configuration's provisioners are migrated into the empty database
		np = r.Intn(4)
		spec := []string{}
		jwk := false
		for i := 0; i < np; i++ {
			t := c.Pick(r, []string{"jwk", "jwk", "acme", "x5c"})
			jwk = jwk || t == "jwk"
			spec = append(spec, t+":"+nameP[i])
		}
		// without a JWK provisioner the start generates and encrypts a key (PBES2, slow): keep that rare
		if !jwk && !r.Chance(1, 6) {
			spec = append(spec, "jwk:"+nameP[np])
			np++
			jwk = true
		}
		calls := np + 4 // GetProvisioners, one write per provisioner, the admin, the two reads of the reload
		if !jwk {
			calls++
			np++
		}
		var f []int
		switch x := r.Intn(10); {
		case x < 4:
		case x < 9:
			f = []int{1 + r.Intn(calls)}
		default:
			f = []int{1 + r.Intn(calls), 1 + r.Intn(calls)}
			if f[0] == f[1] {
				f = f[:1]
			}
			sort.Ints(f)
		}
		k.Ops = append(k.Ops, Op{K: "fs", A: spec, F: f}, Op{K: "rs"})
		if np == 0 {
			np = 1
		}
	} else {
		for i := 0; i < np; i++ {
			k.Ops = append(k.Ops, Op{K: "ip", A: []string{nameP[i]}})
		}
		k.Ops = append(k.Ops, Op{K: "ia", A: []string{"step", "@0"}, B: true})
		if r.Chance(1, 2) {
			k.Ops = append(k.Ops, Op{K: "ia", A: []string{c.Pick(r, subP[:3]), fmt.Sprintf("@%d", r.Intn(np))}, B: r.Chance(1, 2)})
		}
		k.Ops = append(k.Ops, Op{K: "boot"})
	}
	n := 4 + r.Intn(14)
	na, npv := 2, np // upper bounds for references (creations are counted optimistically)
	for i := 0; i < n; i++ {
		ar := func() string {
			if r.Chance(1, 40) {
				return "unknown"
			}
			return fmt.Sprintf("@%d", r.Intn(na))
		}
		pr := func() string {
			if r.Chance(1, 20) {
				return "unknown"
			}
			return fmt.Sprintf("@%d", r.Intn(npv))
		}
		switch x := r.Intn(100); {
		case x < 22:
			k.Ops = append(k.Ops, Op{K: "sa", A: []string{c.Pick(r, subP), c.Pick(r, nameP)}, B: r.Chance(1, 2), F: genFaults(r)})
			na++
		case x < 36:
			k.Ops = append(k.Ops, Op{K: "ua", A: []string{ar()}, B: r.Chance(1, 2), F: genFaults(r)})
		case x < 50:
			k.Ops = append(k.Ops, Op{K: "ra", A: []string{ar()}, F: genFaults(r)})
		case x < 60:
			k.Ops = append(k.Ops, Op{K: "sp", A: []string{c.Pick(r, nameP)}, F: genFaults(r), P: maybePol(r), D: maybeDet(r)})
			npv++
		case x < 72:
			k.Ops = append(k.Ops, Op{K: "up", A: []string{pr(), c.Pick(r, nameP)}, F: genFaults(r), P: maybePol(r), D: maybeDet(r)})
		case x < 82:
			k.Ops = append(k.Ops, Op{K: "rp", A: []string{pr()}, F: genFaults(r)})
		case x < 85:
			k.Ops = append(k.Ops, Op{K: "rs"})
		case x < 89:
			kind := c.Pick(r, []string{"cp", "cp", "mp", "dp"})
			k.Ops = append(k.Ops, Op{K: kind, A: []string{c.Pick(r, univ)}, P: c.Pick(r, polPool).tag, F: genFaults(r)})
		case x < 94:
			k.Ops = append(k.Ops, Op{K: "la", N: c.Pick(r, lims)})
		default:
			k.Ops = append(k.Ops, Op{K: "lp", N: c.Pick(r, lims)})
		}
	}
	return k
}

// manyAdmins: a database with exactly n administrators (all of provisioner n0), then a rename of that
// provisioner and what follows: reindexAdmins pages through the administrators 100 at a time
func manyAdmins(n int) *Case {
	k := &Case{Ops: []Op{{K: "ip", A: []string{"n0"}}, {K: "ip", A: []string{"n1"}}, {K: "ia", A: []string{"step", "@0"}, B: true}}}
	for i := 1; i < n; i++ {
		k.Ops = append(k.Ops, Op{K: "ia", A: []string{fmt.Sprintf("u%03d", i), "@0"}, B: i%50 == 0})
	}
	k.Ops = append(k.Ops, Op{K: "boot"}, Op{K: "up", A: []string{"@0", "n2"}}, Op{K: "la", N: 100}, Op{K: "ra", A: []string{"@7"}}, Op{K: "up", A: []string{"@0", "n3"}},
		Op{K: "sa", A: []string{"s1", "n3"}, B: false}, Op{K: "up", A: []string{"@0", "n0"}}, Op{K: "rs"})
	return k
}

func corner() []*Case {
	boot := []Op{{K: "ip", A: []string{"n0"}}, {K: "ip", A: []string{"n1"}}, {K: "ia", A: []string{"step", "@0"}, B: true},
		{K: "ia", A: []string{"s1", "@1"}, B: true}, {K: "boot"}}
	with := func(ops ...Op) *Case { return &Case{Ops: append(append([]Op{}, boot...), ops...)} }
	return []*Case{
		// (subject, provisioner name) pairs that differ only in where a separator would fall
		with(Op{K: "sp", A: []string{"x"}}, Op{K: "sp", A: []string{"n@x"}}, Op{K: "sa", A: []string{"s0@n", "x"}, B: true}, Op{K: "sa", A: []string{"s0", "n@x"}, B: false},
			Op{K: "la", N: 10}, Op{K: "ra", A: []string{"@2"}}, Op{K: "sa", A: []string{"s0@n", "x"}, B: false}, Op{K: "rs"}, Op{K: "rp", A: []string{"@2"}}, Op{K: "la", N: 10}),
		// exactly one full page of administrators (100), one more, two full pages: the rename must re-index all of them
		manyAdmins(100), manyAdmins(101), manyAdmins(200),
		// D2: demote one super admin, delete the other
		with(Op{K: "ua", A: []string{"@0"}, B: false}, Op{K: "ra", A: []string{"@1"}}, Op{K: "rs"}),
		// D3
		with(Op{K: "ua", A: []string{"unknown"}, B: false}),
		// rename a provisioner that has admins, then delete its admin / the provisioner / restart
		with(Op{K: "up", A: []string{"@0", "n2"}}, Op{K: "ra", A: []string{"@0"}}, Op{K: "rp", A: []string{"@0"}}, Op{K: "rs"}),
		with(Op{K: "up", A: []string{"@0", "n2"}}, Op{K: "sa", A: []string{"step", "n2"}, B: false}, Op{K: "rs"}),
		with(Op{K: "up", A: []string{"@0", "n2"}}, Op{K: "rs"}, Op{K: "ra", A: []string{"@0"}}),
		// storage failure at every position of RemoveProvisioner with two admins
		with(Op{K: "sa", A: []string{"s2", "n1"}, B: false}, Op{K: "rp", A: []string{"@1"}, F: []int{2}}, Op{K: "rp", A: []string{"@1"}, F: []int{3}}, Op{K: "rp", A: []string{"@1"}}),
		with(Op{K: "ua", A: []string{"@1"}, B: false, F: []int{1}}, Op{K: "ua", A: []string{"@1"}, B: false, F: []int{1, 2}}, Op{K: "rs"}),
		// policies: lock-out refused, accepted, replaced, removed; engine follows the database
		with(Op{K: "cp", A: []string{"step"}, P: "onlystep"}, Op{K: "cp", A: []string{"step"}, P: "all"}, Op{K: "cp", A: []string{"step"}, P: "all"},
			Op{K: "mp", A: []string{"step"}, P: "denys1"}, Op{K: "mp", A: []string{"s1"}, P: "bad"}, Op{K: "mp", A: []string{"s1"}, P: "empty"},
			Op{K: "rs"}, Op{K: "dp"}, Op{K: "dp"}, Op{K: "mp", A: []string{"step"}, P: "all"}),
		// one storage failure in the re-read after a successful write (F1: rename, F2: policy)
		with(Op{K: "up", A: []string{"@0", "n2"}, F: []int{2}}, Op{K: "ra", A: []string{"@0"}}),
		with(Op{K: "cp", A: []string{"step"}, P: "nostep", F: []int{3}}, Op{K: "la", N: 2}),
		// details of another provisioner type, or none: refused on create and on update, restart works (F4)
		with(Op{K: "sp", A: []string{"n2"}, D: "acme"}, Op{K: "up", A: []string{"@0", "n0"}, D: "oidc"}, Op{K: "up", A: []string{"@0", "n3"}, D: "none"},
			Op{K: "sp", A: []string{"n2"}, D: "none", F: []int{1}}, Op{K: "rs"}, Op{K: "sp", A: []string{"n2"}}),
		// first start: complete; interrupted at every call of the migration, then started again; without a JWK
		// provisioner in the configuration; without any provisioner
		{Ops: []Op{{K: "fs", A: []string{"jwk:n0", "acme:n1", "jwk:n2"}}, {K: "la", N: 5}, {K: "lp", N: 5}, {K: "rs"}, {K: "sa", A: []string{"s1", "n2"}, B: true}, {K: "rp", A: []string{"@0"}}}},
		{Ops: []Op{{K: "fs", A: []string{"jwk:n0", "acme:n1"}, F: []int{1}}, {K: "rs"}, {K: "la", N: 5}}},
		{Ops: []Op{{K: "fs", A: []string{"jwk:n0", "acme:n1"}, F: []int{2}}, {K: "rs"}, {K: "la", N: 5}}},
		{Ops: []Op{{K: "fs", A: []string{"jwk:n0", "acme:n1"}, F: []int{3}}, {K: "rs"}, {K: "la", N: 5}, {K: "lp", N: 5}}},
		{Ops: []Op{{K: "fs", A: []string{"jwk:n0", "acme:n1"}, F: []int{4}}, {K: "rs"}, {K: "la", N: 5}}},
		{Ops: []Op{{K: "fs", A: []string{"jwk:n0", "acme:n1"}, F: []int{5}}, {K: "rs"}, {K: "la", N: 5}}},
		{Ops: []Op{{K: "fs", A: []string{"jwk:n0", "acme:n1"}, F: []int{6}}, {K: "rs"}, {K: "la", N: 5}}},
		{Ops: []Op{{K: "fs", A: []string{"acme:n1", "x5c:n2"}}, {K: "la", N: 5}, {K: "lp", N: 5}, {K: "rs"}}},
		{Ops: []Op{{K: "fs", A: []string{"acme:n1"}, F: []int{3}}, {K: "rs"}, {K: "la", N: 5}}},
		{Ops: []Op{{K: "fs", A: []string{}, F: []int{2}}, {K: "rs"}, {K: "la", N: 5}, {K: "rs"}}},
		// a provisioner policy set, removed by an update without policy, and what later updates and a restart see
		with(Op{K: "up", A: []string{"@1", "n1"}, P: "nostep"}, Op{K: "up", A: []string{"@1", "n1"}, P: "-"}, Op{K: "sa", A: []string{"step", "n1"}, B: false}, Op{K: "up", A: []string{"@1", "n3"}},
			Op{K: "rs"}, Op{K: "up", A: []string{"@1", "n1"}}),
		// token ids that do not depend on the name (K8sSA): the second one is refused, with or without an id of
		// the client's choosing in the request; an id in the request is replaced by the database's
		with(Op{K: "sp", A: []string{"n2"}, D: "k8s"}, Op{K: "sp", A: []string{"n3"}, D: "k8s"}, Op{K: "sp", A: []string{"n3"}, D: "k8s+id"}, Op{K: "sp", A: []string{"n4"}, D: "+id"},
			Op{K: "lp", N: 5}, Op{K: "rs"}, Op{K: "up", A: []string{"@2", "n3"}}, Op{K: "sp", A: []string{"n2"}, D: "k8s+id"}),
		// claims the provisioner's Init refuses: nothing stored, nothing changed
		with(Op{K: "sp", A: []string{"n2"}, D: "badclaims"}, Op{K: "up", A: []string{"@0", "n3"}, D: "zeromin"}, Op{K: "up", A: []string{"@0", "n3"}, D: "goodclaims"},
			Op{K: "sp", A: []string{"n0"}, D: "badclaims"}, Op{K: "rs"}),
		// provisioner policy: refused without rename, accepted when the same update renames (F3)
		with(Op{K: "up", A: []string{"@0", "n0"}, P: "nostep"}, Op{K: "up", A: []string{"@0", "n2"}, P: "nostep"}),
	}
}

func main() {
	n := flag.Int("n", 100, "number of generated sequences")
	out := flag.String("out", "", "output file")
	replay := flag.String("replay", "", "file of model input lines (case=… field) to re-run instead of generating")
	mode := flag.String("mode", "auth", "auth | props")
	flag.Parse()
	setup()
	o, err := c.NewOut(*out)
	must(err)
	defer o.Close()
	emit := func(k *Case) {
		if *mode == "props" {
			line, v := k.runProps()
			o.Case("props-"+line, v+"\tok") // first field marks the mode for -replay
			return
		}
		line, impl := k.run()
		o.Case(line, impl)
	}
	if *replay != "" {
		data, err := os.ReadFile(*replay)
		must(err)
		for _, l := range strings.Split(string(data), "\n") {
			if strings.HasPrefix(l, "props-") {
				*mode = "props"
			}
			i := strings.Index(l, "case=x")
			if i < 0 {
				continue
			}
			h := l[i+6:]
			if j := strings.IndexAny(h, " \t"); j >= 0 {
				h = h[:j]
			}
			js, err := hex.DecodeString(h)
			if err != nil {
				continue
			}
			var k Case
			if json.Unmarshal(js, &k) == nil {
				emit(&k)
			}
		}
		return
	}
	for _, k := range corner() {
		emit(k)
	}
	r := c.NewRng(c.Seed())
	for i := 0; i < *n; i++ {
		emit(genCase(r.Fork()))
	}
}
