// Harness for C18 (validated-not-proved half): structure-aware fuzzing of every public endpoint
// of the CA served in-process (fixture.NewServer: the routers and base context of ca.Init),
// observing panics directly, bounding each request, and sending a reference sign request after
// every batch to detect damage left behind.
//
// Oracle-style output:  ep=<endpoint> mut=<mutation> seed=<n> <TAB> ok|panic:<site>|timeout|refbroken <TAB> ok
package main

import (
	"bytes"
	"context"
	"crypto/ecdsa"
	"crypto/elliptic"
	"crypto/rand"
	"crypto/rsa"
	"crypto/x509"
	"crypto/x509/pkix"
	"encoding/base64"
	"encoding/json"
	"encoding/pem"
	"flag"
	"fmt"
	"math"
	"math/big"
	"net/http"
	"net/http/httptest"
	"net/url"
	"os"
	"sort"
	"strconv"
	"strings"
	"time"

	"github.com/smallstep/linkedca"
	"go.step.sm/crypto/jose"
	"go.step.sm/crypto/randutil"
	"golang.org/x/crypto/ssh"

	"github.com/smallstep/certificates/authority/config"
	"github.com/smallstep/certificates/authority/provisioner"
	c "verif/harness/common"
	"verif/harness/fixture"
)

type env struct {
	ca            *fixture.CA
	srv           *fixture.Server
	adminCrt      *x509.Certificate
	adminInts     []*x509.Certificate
	adminKey      *ecdsa.PrivateKey
	leaf          []*x509.Certificate // a valid client certificate chain (for mTLS endpoints)
	hostCert      *ssh.Certificate    // CA-issued SSH host certificate
	hostKey       *ecdsa.PrivateKey
	statusHis     map[int]int
	sshConfigBase map[string]string
}

func must[T any](v T, err error) T {
	if err != nil {
		panic(err)
	}
	return v
}

func pemCSR(csr *x509.CertificateRequest) string {
	return string(pem.EncodeToMemory(&pem.Block{Type: "CERTIFICATE REQUEST", Bytes: csr.Raw}))
}

func (e *env) post(path string, body any) *http.Request {
	var b []byte
	switch v := body.(type) {
	case []byte:
		b = v
	case string:
		b = []byte(v)
	default:
		b = must(json.Marshal(v))
	}
	r := httptest.NewRequest("POST", path, bytes.NewReader(b))
	r.Header.Set("Content-Type", "application/json")
	return r
}

func (e *env) sshToken(sub, aud string, sshOpts map[string]any) string {
	extra := map[string]any{}
	if sshOpts != nil {
		extra["step"] = map[string]any{"ssh": sshOpts}
	}
	return must(e.ca.Token(fixture.TokenOpts{Subject: sub, Audience: fixture.Audience(aud), NoSANs: true, Extra: extra}))
}

// sshpopToken builds an SSH-POP token carrying cert, signed with key.
func sshpopToken(cert *ssh.Certificate, key *ecdsa.PrivateKey, aud, sub string) string {
	so := new(jose.SignerOptions).WithType("JWT").WithHeader("sshpop", base64.StdEncoding.EncodeToString(cert.Marshal()))
	sig := must(jose.NewSigner(jose.SigningKey{Algorithm: jose.ES256, Key: key}, so))
	now := time.Now()
	claims := map[string]any{"iss": "sshpop", "sub": sub, "aud": fixture.Audience(aud) + "#sshpop/sshpop", "iat": now.Unix(), "nbf": now.Unix() - 1,
		"exp": now.Unix() + 300, "jti": must(randutil.Hex(16))}
	return must(jose.Signed(sig).Claims(claims).CompactSerialize())
}

var enableSSH = true
var debugBodies bool

func newEnv() (*env, error) {
	// The CA is the one the repository's own ca.New / (*CA).Init assembles from a configuration on disk (real
	// routers, request-id, logger and the other middleware, base context); requests are served in-process through
	// the handler Init built for the TLS server (hook ca.VerifHandler). With a "logger" section and
	// STEP_LOGGER_LOG_REAL_IP the logger parses the proxy headers of every request.
	os.Setenv("STEP_LOGGER_LOG_REAL_IP", "true")
	// a SCEP provisioner with its own RSA decrypter (the CA chain is EC): the SCEP routes run past the provisioner lookup
	scepKey := must(rsa.GenerateKey(rand.Reader, 2048))
	scepTpl := &x509.Certificate{SerialNumber: big.NewInt(77), Subject: pkix.Name{CommonName: "SCEP decrypter"}, NotBefore: time.Now().Add(-time.Hour), NotAfter: time.Now().Add(24 * time.Hour),
		KeyUsage: x509.KeyUsageDigitalSignature | x509.KeyUsageKeyEncipherment}
	scepDER := must(x509.CreateCertificate(rand.Reader, scepTpl, scepTpl, &scepKey.PublicKey, scepKey))
	scepProv := &provisioner.SCEP{Type: "SCEP", Name: "scep", ChallengePassword: "secret", MinimumPublicKeyLength: 2048, EncryptionAlgorithmIdentifier: 2,
		DecrypterCertificate: pem.EncodeToMemory(&pem.Block{Type: "CERTIFICATE", Bytes: scepDER}),
		DecrypterKeyPEM:      pem.EncodeToMemory(&pem.Block{Type: "RSA PRIVATE KEY", Bytes: x509.MarshalPKCS1PrivateKey(scepKey)})}
	real, err := fixture.NewRealCA(fixture.RealOpts{
		JWKClaims:    &provisioner.Claims{EnableSSHCA: &enableSSH},
		CRL:          &config.CRLConfig{Enabled: true},
		Provisioners: provisioner.List{&provisioner.SSHPOP{Type: "SSHPOP", Name: "sshpop"}, &provisioner.ACME{Type: "ACME", Name: "acme"}, scepProv},
		EnableAdmin:  true,
		Logger:       true,
	})
	if err != nil {
		return nil, err
	}
	ca := real.CA
	e := &env{ca: ca, statusHis: map[int]int{}, sshConfigBase: map[string]string{}}
	e.srv = real.Server()
	// administrator client certificate (subject "step" is the first super admin)
	csr, key, _ := fixture.CSR("step", []string{"step"})
	chain, err := ca.SignX509(must(ca.Token(fixture.TokenOpts{Subject: "step"})), csr, provisioner.SignOptions{})
	if err != nil {
		return nil, fmt.Errorf("admin cert: %w", err)
	}
	e.adminCrt, e.adminKey, e.adminInts = chain[0], key.(*ecdsa.PrivateKey), chain[1:]
	e.leaf = chain
	e.hostCert, e.hostKey, err = e.newHostCert()
	if err != nil {
		return nil, err
	}
	// a few more administrators, so that listings have an inside and cursors have something to point at
	if jp, err := ca.Auth.LoadProvisionerByName("jwk"); err == nil {
		for _, sub := range []string{"ops-a", "ops-b", "ops-c"} {
			_ = ca.Auth.StoreAdmin(context.Background(), &linkedca.Admin{ProvisionerId: jp.GetID(), Subject: sub, Type: linkedca.Admin_ADMIN}, jp)
		}
	}
	return e, nil
}

// newHostCert obtains an SSH host certificate through the real /ssh/sign endpoint.
func (e *env) newHostCert() (*ssh.Certificate, *ecdsa.PrivateKey, error) {
	key := must(ecdsa.GenerateKey(elliptic.P256(), rand.Reader))
	pub := must(ssh.NewPublicKey(&key.PublicKey))
	res := e.srv.Serve(e.post("/1.0/ssh/sign", map[string]any{
		"publicKey": pub.Marshal(), "certType": "host", "keyID": "h1.verif.test", "principals": []string{"h1.verif.test"},
		"ott": e.sshToken("h1.verif.test", "/1.0/ssh/sign", map[string]any{"certType": "host", "keyID": "h1.verif.test", "principals": []string{"h1.verif.test"}}),
	}), 10*time.Second)
	if res.Status != 201 {
		return nil, nil, fmt.Errorf("ssh host cert: status %d %s %s", res.Status, res.Body, res.Panic)
	}
	var raw struct {
		Crt string `json:"crt"`
	}
	if err := json.Unmarshal(res.Body, &raw); err != nil {
		return nil, nil, err
	}
	der, err := base64.StdEncoding.DecodeString(raw.Crt)
	if err != nil {
		return nil, nil, err
	}
	pk, err := ssh.ParsePublicKey(der)
	if err != nil {
		return nil, nil, err
	}
	return pk.(*ssh.Certificate), key, nil
}

// restoreAdminState takes back what the authenticated administrator of the admin generator may legitimately
// have configured (an authority policy, a policy or webhooks on a provisioner): configuration an
// administrator asked for is not damage, and the reference request is defined for the original configuration.
func (e *env) restoreAdminState() {
	ctx := context.Background()
	a := e.ca.Auth
	_ = a.RemoveAuthorityPolicy(ctx)
	adb := a.GetAdminDatabase()
	if adb == nil {
		return
	}
	provs, err := adb.GetProvisioners(ctx)
	if err != nil {
		return
	}
	for _, p := range provs {
		if p.Policy != nil || len(p.Webhooks) > 0 {
			p.Policy, p.Webhooks = nil, nil
			_ = a.UpdateProvisioner(ctx, p)
		}
	}
}

// reference request: a plain X.509 sign must still be served normally
func (e *env) reference() bool {
	e.restoreAdminState()
	// what the administrative requests stored must be readable again: a reload (what every failed admin write
	// and every restart does) neither fails nor panics
	reloadOK := func() (ok bool) {
		defer func() {
			if r := recover(); r != nil {
				ok = false
			}
		}()
		return e.ca.Auth.ReloadAdminResources(context.Background()) == nil
	}()
	if !reloadOK {
		return false
	}
	csr, _, _ := fixture.CSR("ref.verif.test", []string{"ref.verif.test"})
	res := e.srv.Serve(e.post("/1.0/sign", map[string]any{"csr": pemCSR(csr), "ott": must(e.ca.Token(fixture.TokenOpts{Subject: "ref.verif.test"}))}), 10*time.Second)
	if !(res.Status == 201 && res.Panic == "") {
		return false
	}
	// the answer to a data-less /ssh/config request is a function of the CA's configuration only
	for _, typ := range []string{"user", "host"} {
		rc := e.srv.Serve(e.post("/1.0/ssh/config", map[string]any{"type": typ}), 10*time.Second)
		if rc.Panic != "" {
			return false
		}
		if prev, ok := e.sshConfigBase[typ]; !ok {
			e.sshConfigBase[typ] = string(rc.Body)
		} else if prev != string(rc.Body) {
			return false
		}
	}
	return true
}

// ---------- value pools

var extremeStrings = []string{"", " ", "*", "*.", ".", "..", "a@", "@", "a@*", "https://:80/x", "\x00", strings.Repeat("a", 300), strings.Repeat("a.", 130) + "com",
	"xn--", "xn--a", "[::1]", "::ffff:1.2.3.4", "1.2.3.4", "-1", "0", "0x", "0x0", "18446744073709551615", "18446744073709551616", "9223372036854775808",
	"-9223372036854775809", strings.Repeat("9", 400), "1e400", "null", "{}", "[]", "\"", "‮", "%00", "../../etc/passwd", "Ünïcödé.example.com"}
var extremeTimes = []string{"", "0", "-1", "1h", "-1h", "-60y", "-290y", "290y", "300y", "99999h", "-99999h", "1960-01-01T00:00:00Z", "0001-01-01T00:00:00Z", "9999-12-31T23:59:59Z",
	"2262-04-11T23:47:16Z", "2262-04-12T00:00:00Z", "1677-09-21T00:12:43Z", "1969-12-31T23:59:59Z", "1970-01-01T00:00:00Z", "garbage", "1e30s", "9223372036854775807ns", "-9223372036854775808ns",
	"2540400h", "-2540400h"}
var extremeNums = []any{0, -1, 1, math.MaxInt32, math.MinInt32, int64(math.MaxInt64), int64(math.MinInt64), uint64(math.MaxUint64), 1e308, -1e308, 0.5, "1", nil, []int{}, map[string]int{}}

func pickS(r *c.Rng) string { return c.Pick(r, extremeStrings) }

func deepJSON(n int) string { return strings.Repeat("{\"a\":", n) + "1" + strings.Repeat("}", n) }

// mutateFields overwrites 1–3 fields of a JSON object with extreme values
func mutateFields(r *c.Rng, obj map[string]any, timeFields ...string) string {
	keys := make([]string, 0, len(obj))
	for k := range obj {
		keys = append(keys, k)
	}
	sort.Strings(keys)
	var done []string
	for i := 1 + r.Intn(3); i > 0; i-- {
		k := c.Pick(r, keys)
		isTime := false
		for _, t := range timeFields {
			if t == k {
				isTime = true
			}
		}
		switch {
		case isTime && r.Chance(4, 5):
			obj[k] = c.Pick(r, extremeTimes)
		default:
			switch r.Intn(6) {
			case 0:
				obj[k] = pickS(r)
			case 1:
				obj[k] = c.Pick(r, extremeNums)
			case 2:
				obj[k] = []any{pickS(r), pickS(r), c.Pick(r, extremeNums)}
			case 3:
				obj[k] = map[string]any{pickS(r): pickS(r)}
			case 4:
				delete(obj, k)
			case 5:
				obj[k] = json.RawMessage(deepJSON(2000))
			}
		}
		done = append(done, k)
	}
	return strings.Join(done, "+")
}

// weirdToken: a syntactically valid compact JWS whose protected header carries extreme values in
// the members the CA looks at before any signature check (x5cInsecure, x5c, sshpop, kid, alg, …)
func weirdToken(r *c.Rng) string {
	hdrs := []string{
		`{"alg":"ES256","x5cInsecure":[]}`, `{"alg":"ES256","x5cInsecure":["AAAA"]}`, `{"alg":"ES256","x5cInsecure":"x"}`, `{"alg":"ES256","x5cInsecure":[1,2]}`,
		`{"alg":"ES256","x5cInsecure":[""]}`, `{"alg":"ES256","x5c":[]}`, `{"alg":"ES256","x5c":[""]}`, `{"alg":"ES256","x5c":["AAAA"]}`, `{"alg":"none"}`,
		`{"alg":"ES256","sshpop":""}`, `{"alg":"ES256","sshpop":"AAAA"}`, `{"alg":"ES256","kid":""}`, `{"alg":"ES256","jwk":{}}`, `{"alg":"ES256","jwk":{"kty":"EC"}}`,
		`{"alg":"HS256","kid":"x"}`, `{"alg":"ES256","crit":["x"]}`, `{}`, `{"alg":null}`, `{"alg":"ES256","nebula":""}`, `{"alg":"ES256","nebula":"AAAA"}`,
	}
	pls := []string{`{}`, `{"aud":"acme/acme"}`, `{"aud":[],"iss":"","sub":""}`, `{"iss":"jwk","aud":"https://ca.verif.test/1.0/sign","exp":1e30,"nbf":-1e30,"iat":"x"}`,
		`{"aud":"https://ca.verif.test/1.0/sign#sshpop/sshpop"}`, `{"aud":"x","azp":"jwk","tid":"jwk"}`, `{"tid":"t","email":"e@x"}`, `{"aud":[],"tid":"t","email":"e@x"}`,
		`{"azp":"jwk"}`, `{"aud":[],"azp":"x"}`, `{"aud":null,"tid":"jwk","email":""}`, `{"aud":[""]}`, `{"aud":["acme/acme","x"],"tid":"t","email":"e"}`, `{"iss":"jwk","tid":1,"email":2,"azp":3}`, `{"iss":"kubernetes/serviceaccount"}`, `null`, `[]`, `""`}
	b64 := func(s string) string { return base64.RawURLEncoding.EncodeToString([]byte(s)) }
	return b64(c.Pick(r, hdrs)) + "." + b64(c.Pick(r, pls)) + "." + c.Pick(r, []string{"c2ln", "", "AAAA", b64(strings.Repeat("s", 64))})
}

type gen func(e *env, r *c.Rng) (*http.Request, string)

func rawBody(r *c.Rng) []byte {
	switch r.Intn(8) {
	case 0:
		return nil
	case 1:
		return []byte("{")
	case 2:
		return []byte("null")
	case 3:
		return []byte("[]")
	case 4:
		return []byte(deepJSON(20000))
	case 5:
		b := make([]byte, r.Intn(2000))
		for i := range b {
			b[i] = byte(r.U64())
		}
		return b
	case 6:
		return []byte(`{"csr":1,"ott":{},"serial":[],"publicKey":"!!"}`)
	}
	return []byte(`"` + strings.Repeat("A", 100000) + `"`)
}

var postPaths = []string{"/1.0/sign", "/sign", "/1.0/renew", "/1.0/rekey", "/1.0/revoke", "/1.0/ssh/sign", "/1.0/ssh/renew", "/1.0/ssh/rekey", "/1.0/ssh/revoke",
	"/1.0/ssh/config", "/1.0/ssh/check-host", "/1.0/ssh/hosts", "/1.0/ssh/bastion", "/acme/acme/new-account", "/acme/acme/new-order", "/acme/acme/revoke-cert",
	"/acme/acme/key-change", "/acme/acme/account/x", "/acme/acme/order/x", "/acme/acme/order/x/finalize", "/acme/acme/authz/x", "/acme/acme/challenge/x/y", "/acme/acme/certificate/x",
	"/acme/nosuch/new-account", "/admin/provisioners", "/admin/admins", "/admin/policy", "/admin/acme/eab/acme", "/scep/x", "/scep/x/pkiclient.exe"}

var gens = map[string]gen{
	"raw-post": func(e *env, r *c.Rng) (*http.Request, string) {
		p := c.Pick(r, postPaths)
		req := e.post(p, rawBody(r))
		if r.Chance(1, 3) {
			req = fixture.WithClientCert(req, e.leaf...)
		}
		if r.Chance(1, 3) {
			req.Header.Set("Authorization", pickS(r))
		}
		if r.Chance(1, 4) {
			req.Header.Set("Content-Type", pickS(r))
		}
		return req, p
	},
	"get": func(e *env, r *c.Rng) (*http.Request, string) {
		paths := []string{"/health", "/version", "/roots", "/1.0/roots", "/root/" + pickS(r), "/1.0/root/" + strings.Repeat("f", r.Intn(80)), "/provisioners?cursor=" + pickS(r) + "&limit=" + pickS(r),
			"/1.0/provisioners?limit=" + fmt.Sprint(c.Pick(r, extremeNums)), "/provisioners/" + pickS(r) + "/encrypted-key", "/federation", "/ssh/roots", "/ssh/federation", "/1.0/crl", "/crl",
			"/acme/acme/directory", "/acme/" + pickS(r) + "/directory", "/acme/acme/new-nonce", "/2.0/acme/acme/directory", "/admin/provisioners", "/admin/admins?cursor=" + pickS(r),
			"/scep/x/pkiclient.exe?operation=" + pickS(r) + "&message=" + pickS(r), "/scep/x?operation=GetCACaps", "/scep/x?operation=PKIOperation&message=AAAA", "/" + pickS(r)}
		p := c.Pick(r, paths)
		method := c.Pick(r, []string{"GET", "GET", "GET", "HEAD", "OPTIONS", "DELETE", "PUT", "PATCH"})
		req, err := http.NewRequest(method, "http://"+fixture.DNSName+strings.ReplaceAll(strings.ReplaceAll(p, " ", "%20"), "\x00", "%00"), nil)
		if err != nil {
			req = httptest.NewRequest("GET", "/health", nil)
		}
		return req, method
	},
	"scep": func(e *env, r *c.Rng) (*http.Request, string) {
		// an existing SCEP provisioner; parameter names plain, percent-encoded, repeated or absent; values that are
		// base64, nearly base64, URL-escaped base64, or neither
		enc := func(k string) string {
			switch r.Intn(4) {
			case 0:
				return "%" + fmt.Sprintf("%02X", k[0]) + k[1:]
			case 1:
				return k[:len(k)-1] + "%" + fmt.Sprintf("%02x", k[len(k)-1])
			}
			return k
		}
		vals := []string{"AAAA", "%40%40%40", "@@@", "AAA", "A", "", "MIIB%2B%2F", "MIIB+/==", "MIIB-_", base64.StdEncoding.EncodeToString([]byte{0x30, 0x80}), url.QueryEscape(base64.StdEncoding.EncodeToString(bytes.Repeat([]byte{0x30}, 300))), pickS(r)}
		op := c.Pick(r, []string{"PKIOperation", "GetCACert", "GetCACaps", "GetNextCACert", "pkioperation", "", pickS(r)})
		var parts []string
		if r.Chance(9, 10) {
			parts = append(parts, enc("operation")+"="+url.QueryEscape(op))
		}
		for i := r.Intn(3); i > 0; i-- {
			parts = append(parts, enc("message")+"="+c.Pick(r, vals))
		}
		path := c.Pick(r, []string{"/scep/scep", "/scep/scep/pkiclient.exe", "/scep/scep/", "/scep/nosuch"})
		raw := strings.NewReplacer(" ", "%20", "\x00", "%00", "\n", "%0A", "\r", "%0D").Replace(strings.Join(parts, "&"))
		if r.Chance(1, 3) {
			body := c.Pick(r, [][]byte{nil, {0x30, 0x80}, bytes.Repeat([]byte{0x30, 0x82}, 500), []byte("AAAA"), rawBody(r)})
			req, err := http.NewRequest("POST", "http://"+fixture.DNSName+path+"?"+raw, bytes.NewReader(body))
			if err == nil {
				return req, "POST"
			}
		}
		req, err := http.NewRequest("GET", "http://"+fixture.DNSName+path+"?"+raw, nil)
		if err != nil {
			req = httptest.NewRequest("GET", "/scep/scep?operation=GetCACaps", nil)
		}
		return req, "GET"
	},
	"sign": func(e *env, r *c.Rng) (*http.Request, string) {
		name := "s" + fmt.Sprint(r.Intn(1000)) + ".verif.test"
		sans := []string{name}
		if r.Chance(1, 3) {
			sans = []string{pickS(r), name}
		}
		csr, _, err := fixture.CSR(name, sans)
		if err != nil {
			csr, _, _ = fixture.CSR(name, []string{name})
			sans = []string{name}
		}
		obj := map[string]any{"csr": pemCSR(csr), "ott": must(e.ca.Token(fixture.TokenOpts{Subject: name, SANs: sans})), "notBefore": "", "notAfter": "", "templateData": map[string]any{}}
		if r.Chance(1, 6) {
			obj["ott"] = weirdToken(r)
			return e.post(c.Pick(r, []string{"/1.0/sign", "/1.0/revoke", "/1.0/ssh/sign", "/1.0/ssh/renew", "/1.0/ssh/rekey", "/1.0/ssh/revoke"}), obj), "weird-ott"
		}
		return e.post("/1.0/sign", obj), mutateFields(r, obj, "notBefore", "notAfter")
	},
	"ssh-sign": func(e *env, r *c.Rng) (*http.Request, string) {
		key := must(ecdsa.GenerateKey(elliptic.P256(), rand.Reader))
		pub := must(ssh.NewPublicKey(&key.PublicKey))
		typ := c.Pick(r, []string{"user", "host"})
		tokOpts := map[string]any{"certType": typ, "keyID": "k", "principals": []string{"p1"}}
		if r.Chance(1, 3) { // extreme values inside an otherwise well-formed token
			tokOpts[c.Pick(r, []string{"validAfter", "validBefore"})] = c.Pick(r, extremeTimes)
		}
		if r.Chance(1, 6) {
			tokOpts = nil
		}
		obj := map[string]any{"publicKey": pub.Marshal(), "ott": e.sshToken("k", "/1.0/ssh/sign", tokOpts), "certType": typ, "keyID": "k", "principals": []string{"p1"},
			"validAfter": "", "validBefore": "", "addUserPublicKey": nil, "identityCSR": nil, "templateData": nil}
		if r.Chance(1, 2) {
			// well-formed nested documents with boundary values: a correctly signed identity CSR whose names are
			// short, empty-ish or near the forms the handler looks for, and a well-formed second public key
			if csr := identityCSR(r); csr != nil {
				obj["identityCSR"] = pemCSR(csr)
			}
			if r.Chance(1, 3) {
				k2 := must(ecdsa.GenerateKey(elliptic.P256(), rand.Reader))
				obj["addUserPublicKey"] = must(ssh.NewPublicKey(&k2.PublicKey)).Marshal()
			}
			if r.Chance(2, 3) {
				return e.post("/1.0/ssh/sign", obj), "identity"
			}
		}
		return e.post("/1.0/ssh/sign", obj), mutateFields(r, obj, "validAfter", "validBefore")
	},
	"revoke": func(e *env, r *c.Rng) (*http.Request, string) {
		serial := c.Pick(r, append([]string{e.leaf[0].SerialNumber.String(), "0x" + e.leaf[0].SerialNumber.Text(16), "12345"}, extremeStrings...))
		tok, err := e.ca.Token(fixture.TokenOpts{Subject: serial, Audience: fixture.Audience("/1.0/revoke"), NoSANs: true})
		if err != nil {
			tok = "x"
		}
		obj := map[string]any{"serial": serial, "ott": tok, "reasonCode": 1, "reason": "r", "passive": true}
		mut := "serial"
		if r.Chance(1, 2) {
			mut = mutateFields(r, obj)
		}
		req := e.post("/1.0/revoke", obj)
		if r.Chance(1, 3) {
			delete(obj, "ott")
			req = fixture.WithClientCert(e.post("/1.0/revoke", obj), e.leaf...)
		}
		return req, mut
	},
	"renew-rekey": func(e *env, r *c.Rng) (*http.Request, string) {
		switch r.Intn(4) {
		case 0:
			return fixture.WithClientCert(e.post("/1.0/renew", nil), e.leaf...), "renew"
		case 1:
			csr, _, _ := fixture.CSR("x", nil)
			obj := map[string]any{"csr": pemCSR(csr)}
			return fixture.WithClientCert(e.post("/1.0/rekey", obj), e.leaf...), "rekey:" + mutateFields(r, obj)
		case 2:
			// a certificate this CA never issued, presented as the client certificate
			return fixture.WithClientCert(e.post("/1.0/renew", nil), e.ca.MiniCA.Root), "renew-foreign"
		}
		req := e.post("/1.0/renew", nil)
		if r.Chance(1, 2) {
			tok := weirdToken(r)
			req.Header.Set("Authorization", "Bearer "+tok)
			return req, "renew-bearer-jws"
		}
		req.Header.Set("Authorization", "Bearer "+pickS(r))
		return req, "renew-bearer"
	},
	"ssh-pop": func(e *env, r *c.Rng) (*http.Request, string) {
		// a certificate the client crafted itself (self-signed) with extreme fields, and the genuine one
		key := must(ecdsa.GenerateKey(elliptic.P256(), rand.Reader))
		signer := must(ssh.NewSignerFromKey(key))
		crt := &ssh.Certificate{Key: signer.PublicKey(), Serial: c.Pick(r, []uint64{0, 1, math.MaxUint64, 1 << 63}), CertType: c.Pick(r, []uint32{ssh.HostCert, ssh.UserCert, 0, 77}),
			KeyId: pickS(r), ValidPrincipals: []string{pickS(r)},
			ValidAfter:  c.Pick(r, []uint64{0, 1, uint64(time.Now().Unix()) - 10, 1 << 63, math.MaxUint64, math.MaxInt64}),
			ValidBefore: c.Pick(r, []uint64{0, 1, uint64(time.Now().Unix()) + 1000, 1 << 63, math.MaxUint64, math.MaxInt64, ssh.CertTimeInfinity})}
		_ = crt.SignCert(rand.Reader, signer)
		useKey := key
		mut := "crafted"
		if r.Chance(1, 3) && e.ca.SSHHost != nil {
			// a certificate under the CA's own host key (as a former configuration, a template with operator-chosen
			// validity, or another CA sharing the key would have issued): accepted by the SSH-POP provisioner, with
			// validity spans around every bound the renew / rekey arithmetic has (seconds → nanoseconds → int64)
			if caSigner, err := ssh.NewSignerFromKey(e.ca.SSHHost); err == nil {
				now := uint64(time.Now().Unix())
				span := c.Pick(r, sshSpans(now))
				crt = &ssh.Certificate{Key: signer.PublicKey(), Serial: r.U64(), CertType: ssh.HostCert, KeyId: "h2.verif.test", ValidPrincipals: []string{"h2.verif.test"},
					ValidAfter: now - 60, ValidBefore: now - 60 + span}
				if r.Chance(1, 6) {
					crt.ValidAfter, crt.ValidBefore = 0, c.Pick(r, []uint64{now + span, ssh.CertTimeInfinity})
				}
				if crt.SignCert(rand.Reader, caSigner) == nil {
					mut = "ca-signed"
				}
			}
		}
		if r.Chance(1, 3) {
			if hc, hk, err := e.newHostCert(); err == nil {
				crt, useKey, mut = hc, hk, "genuine"
			}
		}
		op := c.Pick(r, []string{"renew", "rekey", "revoke"})
		sub := crt.KeyId
		if op == "revoke" {
			sub = strconv.FormatUint(crt.Serial, 10)
		}
		tok := sshpopToken(crt, useKey, "/1.0/ssh/"+op, sub)
		obj := map[string]any{"ott": tok}
		switch op {
		case "rekey":
			obj["publicKey"] = signer.PublicKey().Marshal()
		case "revoke":
			obj["serial"], obj["reasonCode"], obj["passive"] = sub, 1, true
		}
		if r.Chance(1, 3) {
			mut += ":" + mutateFields(r, obj)
		}
		return e.post("/1.0/ssh/"+op, obj), op + ":" + mut
	},
	"ssh-config": func(e *env, r *c.Rng) (*http.Request, string) {
		typ := c.Pick(r, []any{"user", "host", "", "x", 1})
		obj := map[string]any{"type": typ}
		mut := "nodata"
		if r.Chance(2, 3) {
			d := map[string]any{}
			for i := r.Intn(4); i >= 0; i-- {
				d[c.Pick(r, []string{"User", "StepPath", "Version", "Provisioner", "Context", pickS(r)})] = pickS(r)
			}
			obj["data"] = d
			mut = "data"
		}
		if r.Chance(1, 6) {
			obj["data"] = c.Pick(r, extremeNums)
			mut = "data-odd"
		}
		return e.post("/1.0/ssh/config", obj), mut
	},
	"admin": func(e *env, r *c.Rng) (*http.Request, string) {
		type ap struct{ method, path string }
		// identifiers that exist (so that the handlers' own logic runs) next to ones that do not
		ident := func(real ...string) string {
			if r.Chance(1, 2) && len(real) > 0 {
				return c.Pick(r, real)
			}
			return pickS(r)
		}
		var adminIDs []string
		if adms, _, err := e.ca.Auth.GetAdmins("", 20); err == nil {
			for _, a := range adms {
				adminIDs = append(adminIDs, a.Id)
			}
		}
		provNames := []string{"jwk", "acme", "sshpop", "new-0", "new-1"}
		p := c.Pick(r, []ap{{"PATCH", "/admin/admins/" + ident(adminIDs...)}, {"DELETE", "/admin/admins/" + ident(adminIDs...)}, {"GET", "/admin/admins/" + ident(adminIDs...)},
			{"PUT", "/admin/provisioners/" + ident(provNames...)}, {"DELETE", "/admin/provisioners/" + ident("new-0", "new-1")}, {"GET", "/admin/provisioners/" + ident(provNames...)},
			{"POST", "/admin/provisioners/" + ident(provNames...) + "/policy"}, {"PUT", "/admin/provisioners/" + ident(provNames...) + "/policy"}, {"DELETE", "/admin/provisioners/" + ident(provNames...) + "/policy"},
			{"GET", "/admin/provisioners"}, {"GET", "/admin/admins"}, {"POST", "/admin/provisioners"}, {"POST", "/admin/admins"}, {"PATCH", "/admin/admins/" + pickS(r)},
			{"DELETE", "/admin/admins/" + pickS(r)}, {"PUT", "/admin/provisioners/" + pickS(r)}, {"DELETE", "/admin/provisioners/" + pickS(r)}, {"POST", "/admin/policy"}, {"PUT", "/admin/policy"},
			{"GET", "/admin/policy"}, {"DELETE", "/admin/policy"}, {"POST", "/admin/provisioners/jwk/policy"}, {"GET", "/admin/acme/eab/acme"}, {"POST", "/admin/acme/eab/acme"},
			{"GET", "/admin/provisioners/" + pickS(r)}, {"POST", "/admin/provisioners/jwk/webhooks"}})
		path := strings.ReplaceAll(strings.ReplaceAll(p.path, " ", "%20"), "\x00", "%00")
		if p.method == "GET" && (p.path == "/admin/admins" || p.path == "/admin/provisioners" || p.path == "/admin/acme/eab/acme") && r.Chance(3, 4) {
			// listings: a cursor inside the list (or anywhere else) with page sizes around every integer bound
			var provIDs []string
			if ps, _, err := e.ca.Auth.GetProvisioners("", 20); err == nil {
				for _, x := range ps {
					provIDs = append(provIDs, x.GetID())
				}
			}
			cur := ident(adminIDs...)
			if p.path == "/admin/provisioners" {
				cur = ident(provIDs...)
			}
			q := url.Values{}
			if r.Chance(4, 5) {
				q.Set("cursor", cur)
			}
			if r.Chance(4, 5) {
				q.Set("limit", c.Pick(r, listLimits))
			}
			path += "?" + q.Encode()
		}
		var body []byte
		if p.method != "GET" && p.method != "DELETE" {
			pol := map[string]any{"x509": map[string]any{"allow": map[string]any{"dns": []string{pickS(r)}, "emails": []string{pickS(r)}, "ips": []string{pickS(r)}, "uris": []string{pickS(r)}, "commonNames": []string{pickS(r)}},
				"deny": map[string]any{"dns": []string{pickS(r)}, "emails": []string{pickS(r)}}}, "ssh": map[string]any{"user": map[string]any{"allow": map[string]any{"principals": []string{pickS(r)}, "emails": []string{pickS(r)}}}}}
			// mostly the body the endpoint expects (so that the handler's own logic is reached), sometimes another one
			kind := r.Intn(4)
			if r.Chance(3, 4) {
				switch {
				case strings.Contains(p.path, "policy"):
					kind = 0
				case strings.HasPrefix(p.path, "/admin/admins"):
					kind = 1
				case strings.HasPrefix(p.path, "/admin/provisioners") && !strings.Contains(p.path, "webhooks"):
					kind = 2
				case strings.Contains(p.path, "webhooks"):
					kind = 4
				case strings.Contains(p.path, "eab"):
					kind = 5
				}
			}
			names := []string{"ref.verif.test", "*.verif.test", "step", pickS(r), "10.0.0.0/8", "@verif.test"}
			switch kind {
			case 0:
				if r.Chance(1, 2) { // a well-formed policy that keeps the administrator in
					pol = map[string]any{"x509": map[string]any{"allow": map[string]any{"dns": []string{"step", c.Pick(r, names)}}, "deny": map[string]any{"dns": []string{c.Pick(r, names)}},
						"allowWildcardNames": r.Chance(1, 2)}, "ssh": map[string]any{"host": map[string]any{"allow": map[string]any{"dns": []string{c.Pick(r, names)}, "ips": []string{"10.0.0.0/8"}}}}}
				}
				body = must(json.Marshal(pol))
			case 1:
				body = must(json.Marshal(map[string]any{"subject": c.Pick(r, []string{"step", "ops", pickS(r)}), "provisioner": c.Pick(r, []string{"jwk", "acme", "sshpop", pickS(r)}),
					"type": c.Pick(r, append([]any{"ADMIN", "SUPER_ADMIN", 1, 2}, extremeNums...))}))
			case 2:
				jwk := must(jose.GenerateJWK("EC", "P-256", "ES256", "sig", "", 0))
				pub := jwk.Public()
				pubJSON := must(json.Marshal(&pub))
				body = must(json.Marshal(map[string]any{"type": c.Pick(r, []any{"JWK", "JWK", "ACME", 1, 99, pickS(r)}), "name": c.Pick(r, []string{"jwk", "new-" + fmt.Sprint(r.Intn(5)), pickS(r)}),
					"details": map[string]any{"JWK": map[string]any{"publicKey": c.Pick(r, []any{base64.StdEncoding.EncodeToString(pubJSON), pickS(r), ""})}},
					"claims":  map[string]any{"x509": map[string]any{"enabled": true, "durations": map[string]any{"min": c.Pick(r, []string{"5m", pickS(r)}), "max": c.Pick(r, append([]string{"24h"}, extremeTimes...)), "default": c.Pick(r, append([]string{"1h"}, extremeTimes...))}}},
					"policy":  c.Pick(r, []any{nil, pol})}))
			case 4:
				body = must(json.Marshal(map[string]any{"name": c.Pick(r, []string{"wh", pickS(r)}), "url": c.Pick(r, []string{"https://wh.verif.test/x", pickS(r)}), "kind": c.Pick(r, []any{"ENRICHING", "AUTHORIZING", 1, pickS(r)}),
					"certType": c.Pick(r, []any{"ALL", "X509", "SSH", 7})}))
			case 5:
				body = must(json.Marshal(map[string]any{"provisioner": c.Pick(r, []string{"acme", pickS(r)}), "reference": pickS(r)}))
			default:
				body = rawBody(r)
			}
		}
		u := "http://" + fixture.DNSName + path
		req, err := http.NewRequest(p.method, u, bytes.NewReader(body))
		if err != nil {
			req = httptest.NewRequest("GET", "/admin/admins", nil)
			path = "/admin/admins"
		}
		tok, _ := fixture.AdminToken(e.adminCrt, e.adminKey, req.URL.Path, "step", e.adminInts...)
		if r.Chance(1, 8) {
			tok = pickS(r)
		}
		req.Header.Set("Authorization", tok)
		return req, p.method + " " + strings.SplitN(p.path, "/", 4)[2]
	},
	"acme-jws": func(e *env, r *c.Rng) (*http.Request, string) {
		// a JWS that is well-formed up to its payload/headers; deep checks belong to C12
		key := must(jose.GenerateJWK("EC", "P-256", "ES256", "sig", "", 0))
		nonce := ""
		if res := e.srv.Serve(httptest.NewRequest("HEAD", "/acme/acme/new-nonce", nil), 5*time.Second); res.Header != nil {
			nonce = res.Header.Get("Replay-Nonce")
		}
		path := c.Pick(r, []string{"/acme/acme/new-account", "/acme/acme/new-order", "/acme/acme/revoke-cert", "/acme/acme/order/x/finalize", "/acme/acme/challenge/a/b", "/acme/acme/key-change"})
		so := new(jose.SignerOptions).WithHeader("url", "https://"+fixture.DNSName+path).WithHeader("nonce", nonce)
		if r.Chance(2, 3) {
			so.EmbedJWK = true
		} else {
			so.WithHeader("kid", "https://"+fixture.DNSName+"/acme/acme/account/"+pickS(r))
		}
		signer := must(jose.NewSigner(jose.SigningKey{Algorithm: jose.ES256, Key: key.Key}, so))
		payloads := []string{`{"termsOfServiceAgreed":true,"contact":["` + pickS(r) + `"]}`, `{"identifiers":[{"type":"dns","value":` + strconv.Quote(pickS(r)) + `},{"type":"ip","value":` + strconv.Quote(pickS(r)) + `}],"notBefore":"` + c.Pick(r, extremeTimes) + `"}`,
			`{"csr":"` + pickS(r) + `"}`, `{"certificate":"AAAA","reason":` + fmt.Sprint(c.Pick(r, []any{0, -1, 99, 1e30})) + `}`, ``, `{}`, deepJSON(3000), `{"identifiers":[` + strings.Repeat(`{"type":"dns","value":"a.b"},`, 2000) + `{"type":"dns","value":"a.b"}]}`,
			`{"identifiers":[{"type":"permanent-identifier","value":""},{"type":"wireapp-user","value":"{"}]}`}
		jws := must(signer.Sign([]byte(c.Pick(r, payloads))))
		req := e.post(path, jws.FullSerialize())
		req.Header.Set("Content-Type", "application/jose+json")
		return req, strings.TrimPrefix(path, "/acme/acme/")
	},
}

// identityURIs: URI names around the shapes the handlers slice, compare or parse (prefix lengths, uuid forms)
var identityURIs = []string{"a:b", "a:", "x:y/z", "urn:x", "urn:uuid", "urn:uuid:", "urn:uuid:1", "URN:UUID:6ba7b810-9dad-11d1-80b4-00c04fd430c8",
	"urn:uuid:6ba7b810-9dad-11d1-80b4-00c04fd430c8", "urn:uuid:6ba7b8109dad11d180b400c04fd430c8xxxx", "urn:uuid:{6ba7b810-9dad-11d1-80b4-00c04fd430c}", "urn:uuid:zzzzzzzz-zzzz-zzzz-zzzz-zzzzzzzzzzzz",
	"https://k", "https://k/" + strings.Repeat("p", 300), "mailto:k@verif.test", "spiffe://verif.test/k", "//k", "k", "?", "#", ""}

// identityCSR: a correctly signed certificate request with names picked from the boundary pools
func identityCSR(r *c.Rng) *x509.CertificateRequest {
	key := must(ecdsa.GenerateKey(elliptic.P256(), rand.Reader))
	tpl := &x509.CertificateRequest{Subject: pkix.Name{CommonName: c.Pick(r, []string{"k", "", "p1", pickS(r)})}}
	for i := r.Intn(4); i > 0; i-- {
		if u, err := url.Parse(c.Pick(r, identityURIs)); err == nil {
			tpl.URIs = append(tpl.URIs, u)
		}
	}
	for i := r.Intn(2); i > 0; i-- {
		tpl.DNSNames = append(tpl.DNSNames, c.Pick(r, []string{"k", "p1", "", "a.verif.test", "*"}))
	}
	for i := r.Intn(2); i > 0; i-- {
		tpl.EmailAddresses = append(tpl.EmailAddresses, c.Pick(r, []string{"k@verif.test", "k", "@", ""}))
	}
	der, err := x509.CreateCertificateRequest(rand.Reader, tpl, key)
	if err != nil {
		return nil
	}
	csr, err := x509.ParseCertificateRequest(der)
	if err != nil {
		return nil
	}
	return csr
}

func genNames() []string {
	ns := make([]string, 0, len(gens))
	for k := range gens {
		ns = append(ns, k)
	}
	sort.Strings(ns)
	return ns
}

var proxyVals = []string{"", " ", ",", ", 10.0.0.7", ",,", "[", "]", "[]", "[::1]", "[::1]:80", "10.0.0.1, [", "a,b", "::", "1.2.3.4:5", "\x00", "\r\n x", strings.Repeat("9", 5000),
	strings.Repeat(",", 3000), "fe80::1%eth0", "[fe80::1%25eth0]", "\u00e9", "10.0.0.1 ", " 10.0.0.1", "0x7f.1", "256.256.256.256"}

func runOne(e *env, o *c.Out, name string, seed uint64) {
	r := c.NewRng(seed)
	var req *http.Request
	var mut string
	func() {
		defer func() {
			if rec := recover(); rec != nil { // generator trouble is not the CA's fault
				req, mut = nil, fmt.Sprint("generator-panic ", rec)
			}
		}()
		req, mut = gens[name](e, r)
	}()
	if req == nil {
		return
	}
	// proxy / logging headers, read by the logger around every endpoint
	if r.Chance(1, 3) {
		for _, h := range []string{"X-Forwarded-For", "X-Real-Ip", "True-Client-Ip", "Referer", "User-Agent", "X-Request-Id", "X-Smallstep-Id"} {
			if r.Chance(1, 3) {
				req.Header.Set(h, c.Pick(r, proxyVals))
				mut += "+" + h
			}
		}
	}
	// the Host of the request: absent (HTTP/1.0), malformed, foreign
	if r.Chance(1, 10) {
		h := c.Pick(r, []string{"", "", "[", "a b", "ca.verif.test:99999", "%zz", strings.Repeat("h", 4000), "\u00fc.example", "[::1]:443", ":", "evil.example"})
		req.Host = h
		req.URL.Host = h
		if h == "" {
			req.Header.Set("X-Verif-No-Host", "1")
			req.Proto, req.ProtoMajor, req.ProtoMinor = "HTTP/1.0", 1, 0
		}
		mut += "+host"
	}
	res := e.srv.Serve(req, 5*time.Second)
	out := "ok"
	switch {
	case res.Panic != "":
		out = "panic:" + strings.ReplaceAll(res.Panic, "\t", " ")
	case res.Timeout:
		out = "timeout"
	default:
		e.statusHis[res.Status]++
	}
	if debugBodies {
		fmt.Printf("%s %s -> %d %s %s\n", name, mut, res.Status, strings.TrimSpace(string(res.Body)), res.Panic)
	}
	js, _ := json.Marshal(map[string]any{"gen": name, "seed": seed})
	o.Row(fmt.Sprintf("ep=%s mut=%s seed=%d case=x%x", name, strings.ReplaceAll(mut, " ", "_"), seed, js), out, "ok")
}

// ---------- fixed cases: run on every seed before the random stream, so that the boundary shapes the generators know
// about are always exercised (a random stream of this length reaches some of the combinations only now and then)

var listLimits = []string{"0", "-1", "1", "2", "100", "101", "2147483647", "2147483648", "9223372036854775806", "9223372036854775807", "9223372036854775808",
	"-9223372036854775808", "18446744073709551615", "1e3", "", "abc", "0x10"}

func sshSpans(now uint64) []uint64 {
	return []uint64{1, 60, 3600, 1 << 31, 1 << 32, 9223372035, 9223372036, 9223372037, 10000000000, 1 << 34, 18446744073, 18446744074,
		1 << 40, 1 << 62, 1<<63 - now, math.MaxInt64, 1 << 63, math.MaxUint64 - now - 1}
}

func (e *env) serveCorner(o *c.Out, what string, req *http.Request) {
	res := e.srv.Serve(req, 5*time.Second)
	out := "ok"
	switch {
	case res.Panic != "":
		out = "panic:" + strings.ReplaceAll(res.Panic, "\t", " ")
	case res.Timeout:
		out = "timeout"
	default:
		e.statusHis[res.Status]++
	}
	o.Row("ep=corner "+strings.ReplaceAll(what, " ", "_"), out, "ok")
}

func corners(e *env, o *c.Out) {
	// listings, authenticated and public: every cursor position with every page size
	var adminIDs, provIDs []string
	if adms, _, err := e.ca.Auth.GetAdmins("", 100); err == nil {
		for _, a := range adms {
			adminIDs = append(adminIDs, a.Id)
		}
	}
	if ps, _, err := e.ca.Auth.GetProvisioners("", 100); err == nil {
		for _, x := range ps {
			provIDs = append(provIDs, x.GetID())
		}
	}
	for _, l := range []struct {
		path  string
		ids   []string
		admin bool
	}{{"/admin/admins", adminIDs, true}, {"/admin/provisioners", provIDs, true}, {"/admin/acme/eab/acme", nil, true}, {"/provisioners", provIDs, false}, {"/1.0/provisioners", provIDs, false}} {
		for ci, cur := range append([]string{"", "zzz"}, l.ids...) {
			for _, lim := range listLimits {
				q := url.Values{}
				if ci != 0 {
					q.Set("cursor", cur)
				}
				q.Set("limit", lim)
				req, err := http.NewRequest("GET", "http://"+fixture.DNSName+l.path+"?"+q.Encode(), nil)
				if err != nil {
					continue
				}
				if l.admin {
					tok, _ := fixture.AdminToken(e.adminCrt, e.adminKey, req.URL.Path, "step", e.adminInts...)
					req.Header.Set("Authorization", tok)
				}
				e.serveCorner(o, fmt.Sprintf("list %s cursor=%d limit=%s", l.path, ci, lim), req)
			}
		}
	}
	// SSH renew / rekey with a certificate under the CA's own host key, every validity span
	if e.ca.SSHHost != nil {
		if caSigner, err := ssh.NewSignerFromKey(e.ca.SSHHost); err == nil {
			now := uint64(time.Now().Unix())
			for _, span := range sshSpans(now) {
				for _, op := range []string{"renew", "rekey"} {
					for _, va := range []uint64{now - 60, 0} {
						key := must(ecdsa.GenerateKey(elliptic.P256(), rand.Reader))
						signer := must(ssh.NewSignerFromKey(key))
						crt := &ssh.Certificate{Key: signer.PublicKey(), Serial: span, CertType: ssh.HostCert, KeyId: "h2.verif.test", ValidPrincipals: []string{"h2.verif.test"},
							ValidAfter: va, ValidBefore: va + span}
						if va == 0 && span < now {
							crt.ValidBefore = now + span
						}
						if crt.SignCert(rand.Reader, caSigner) != nil {
							continue
						}
						obj := map[string]any{"ott": sshpopToken(crt, key, "/1.0/ssh/"+op, crt.KeyId)}
						if op == "rekey" {
							obj["publicKey"] = signer.PublicKey().Marshal()
						}
						e.serveCorner(o, fmt.Sprintf("ssh-%s ca-signed span=%d va=%d", op, span, va), e.post("/1.0/ssh/"+op, obj))
					}
				}
			}
		}
	}
	// /ssh/sign with a correctly signed identity CSR carrying each boundary URI alone and next to a uuid
	for i, u := range identityURIs {
		pu, err := url.Parse(u)
		if err != nil {
			continue
		}
		for _, with := range []bool{false, true} {
			key := must(ecdsa.GenerateKey(elliptic.P256(), rand.Reader))
			tpl := &x509.CertificateRequest{Subject: pkix.Name{CommonName: "k"}, URIs: []*url.URL{pu}}
			if with {
				tpl.URIs = append(tpl.URIs, must(url.Parse("urn:uuid:6ba7b810-9dad-11d1-80b4-00c04fd430c8")))
			}
			der, err := x509.CreateCertificateRequest(rand.Reader, tpl, key)
			if err != nil {
				continue
			}
			csr, err := x509.ParseCertificateRequest(der)
			if err != nil {
				continue
			}
			sk := must(ecdsa.GenerateKey(elliptic.P256(), rand.Reader))
			pub := must(ssh.NewPublicKey(&sk.PublicKey))
			tokOpts := map[string]any{"certType": "user", "keyID": "k", "principals": []string{"p1"}}
			obj := map[string]any{"publicKey": pub.Marshal(), "ott": e.sshToken("k", "/1.0/ssh/sign", tokOpts), "certType": "user", "keyID": "k", "principals": []string{"p1"}, "identityCSR": pemCSR(csr)}
			e.serveCorner(o, fmt.Sprintf("ssh-sign identity uri=%d uuid=%v", i, with), e.post("/1.0/ssh/sign", obj))
		}
	}
	// SCEP GET: the parameter names plain and percent-encoded, values base64 or not
	for _, name := range []string{"message", "%6Dessage", "messag%65", "MESSAGE"} {
		for vi, v := range []string{"AAAA", "%40%40%40", "@@@", "A", "", "MIIB%2B%2F", "MIIB+/=="} {
			for _, opn := range []string{"operation", "%6Fperation"} {
				for _, pth := range []string{"/scep/scep", "/scep/scep/pkiclient.exe"} {
					req, err := http.NewRequest("GET", "http://"+fixture.DNSName+pth+"?"+opn+"=PKIOperation&"+name+"="+v, nil)
					if err != nil {
						continue
					}
					e.serveCorner(o, fmt.Sprintf("scep %s %s %s val=%d", pth, opn, name, vi), req)
				}
			}
		}
	}
}

func main() {
	n := flag.Int("n", 4000, "number of requests")
	out := flag.String("out", "", "output file")
	replay := flag.String("replay", "", "replay file (lines with case=x<hex json {gen,seed}>)")
	only := flag.String("only", "", "debug: run only this generator and print status/body")
	flag.Parse()
	o, err := c.NewOut(*out)
	if err != nil {
		fmt.Fprintln(os.Stderr, err)
		os.Exit(2)
	}
	defer o.Close()
	e, err := newEnv()
	if err != nil {
		fmt.Fprintln(os.Stderr, "env:", err)
		os.Exit(3)
	}
	defer e.ca.Close()
	if *replay != "" {
		data, _ := os.ReadFile(*replay)
		if strings.Contains(string(data), "ep=corner") { // the fixed cases are replayed as a whole
			corners(e, o)
		}
		for _, l := range strings.Split(string(data), "\n") {
			i := strings.Index(l, "case=x")
			if i < 0 {
				continue
			}
			h := strings.Fields(l[i+6:])[0]
			var js []byte
			if _, err := fmt.Sscanf(h, "%x", &js); err != nil {
				continue
			}
			var k struct {
				Gen  string
				Seed uint64
			}
			if json.Unmarshal(js, &k) == nil && gens[k.Gen] != nil {
				runOne(e, o, k.Gen, k.Seed)
			}
		}
		return
	}
	if !e.reference() {
		fmt.Fprintln(os.Stderr, "reference request fails before any adversarial input")
		os.Exit(3)
	}
	names := genNames()
	if *only != "" {
		names = []string{*only}
		debugBodies = true
	}
	if *only == "" {
		corners(e, o)
		ok := e.reference()
		o.Row("ep=reference after=corners", map[bool]string{true: "ok", false: "refbroken"}[ok], "ok")
	}
	r := c.NewRng(c.Seed())
	for i := 0; i < *n; i++ {
		runOne(e, o, names[i%len(names)], r.U64())
		if i%100 == 99 || i == *n-1 {
			ok := e.reference()
			o.Row(fmt.Sprintf("ep=reference after=%d", i+1), map[bool]string{true: "ok", false: "refbroken"}[ok], "ok")
		}
	}
	// status distribution for the evidence (stdout is kept as a harness note)
	ks := make([]int, 0, len(e.statusHis))
	for k := range e.statusHis {
		ks = append(ks, k)
	}
	sort.Ints(ks)
	var sb strings.Builder
	sb.WriteString("http status histogram:")
	for _, k := range ks {
		fmt.Fprintf(&sb, " %d=%d", k, e.statusHis[k])
	}
	fmt.Println(sb.String())
}
