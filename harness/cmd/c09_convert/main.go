// Harness for C09, stage "convert": the configuration-format glue the renewal gates depend on, for
// every provisioner type. A provisioner of each of the eleven types is built with every combination
// of its disableRenewal / allowRenewalAfterExpiry claims (claims object absent; each flag unset,
// false, true) and pushed through the real authority.ProvisionerToLinkedca (ca.json -> admin
// database / linkedca format), the real authority.ProvisionerToCertificates (back), and the round
// trip; the resulting flags are compared with the model's claimsToLinkedca / claimsToCertificates.
// No provisioner is initialised, so the types that need the network to start are covered too.
package main

import (
	"crypto/ecdsa"
	"crypto/elliptic"
	"crypto/rand"
	"crypto/x509"
	"crypto/x509/pkix"
	"encoding/hex"
	"encoding/json"
	"encoding/pem"
	"flag"
	"fmt"
	"math/big"
	"os"
	"strings"
	"time"

	"github.com/smallstep/linkedca"
	"go.step.sm/crypto/jose"

	"github.com/smallstep/certificates/authority"
	"github.com/smallstep/certificates/authority/provisioner"
	"verif/harness/common"
)

type Case struct {
	Type string `json:"type"`
	PC   string `json:"pc"`  // nil | <d><a>, each - 0 1
	Dir  string `json:"dir"` // c2l | roundtrip | l2c
}

var types = []string{"JWK", "OIDC", "GCP", "AWS", "Azure", "ACME", "X5C", "K8sSA", "SSHPOP", "SCEP", "Nebula"}

func tri(s string) *bool {
	switch s {
	case "0":
		b := false
		return &b
	case "1":
		b := true
		return &b
	}
	return nil
}

func triS(b *bool) string {
	switch {
	case b == nil:
		return "-"
	case *b:
		return "1"
	}
	return "0"
}

var rootPEM, pubPEM []byte

func init() {
	k, _ := ecdsa.GenerateKey(elliptic.P256(), rand.Reader)
	t := &x509.Certificate{SerialNumber: big.NewInt(1), Subject: pkix.Name{CommonName: "conv root"}, NotBefore: time.Now().Add(-time.Hour), NotAfter: time.Now().Add(time.Hour),
		IsCA: true, BasicConstraintsValid: true, KeyUsage: x509.KeyUsageCertSign}
	der, err := x509.CreateCertificate(rand.Reader, t, t, k.Public(), k)
	if err != nil {
		panic(err)
	}
	rootPEM = pem.EncodeToMemory(&pem.Block{Type: "CERTIFICATE", Bytes: der})
	spki, _ := x509.MarshalPKIXPublicKey(k.Public())
	pubPEM = pem.EncodeToMemory(&pem.Block{Type: "PUBLIC KEY", Bytes: spki})
}

func build(typ string, cl *provisioner.Claims) provisioner.Interface {
	name := "conv-" + strings.ToLower(typ)
	switch typ {
	case "JWK":
		k, _ := jose.GenerateJWK("EC", "P-256", "ES256", "sig", "", 0)
		pub := k.Public()
		return &provisioner.JWK{Type: "JWK", Name: name, Key: &pub, Claims: cl}
	case "OIDC":
		return &provisioner.OIDC{Type: "OIDC", Name: name, ClientID: "id", ClientSecret: "secret", ConfigurationEndpoint: "https://idp.example/.well-known/openid-configuration", Claims: cl}
	case "GCP":
		return &provisioner.GCP{Type: "GCP", Name: name, ServiceAccounts: []string{"sa"}, ProjectIDs: []string{"p"}, Claims: cl}
	case "AWS":
		return &provisioner.AWS{Type: "AWS", Name: name, Accounts: []string{"123456789012"}, Claims: cl}
	case "Azure":
		return &provisioner.Azure{Type: "Azure", Name: name, TenantID: "tenant", ResourceGroups: []string{"rg"}, Claims: cl}
	case "ACME":
		return &provisioner.ACME{Type: "ACME", Name: name, Claims: cl}
	case "X5C":
		return &provisioner.X5C{Type: "X5C", Name: name, Roots: rootPEM, Claims: cl}
	case "K8sSA":
		return &provisioner.K8sSA{Type: "K8sSA", Name: name, PubKeys: pubPEM, Claims: cl}
	case "SSHPOP":
		return &provisioner.SSHPOP{Type: "SSHPOP", Name: name, Claims: cl}
	case "SCEP":
		return &provisioner.SCEP{Type: "SCEP", Name: name, ChallengePassword: "secret", MinimumPublicKeyLength: 2048, Claims: cl}
	case "Nebula":
		return &provisioner.Nebula{Type: "Nebula", Name: name, Roots: rootPEM, Claims: cl}
	}
	return nil
}

// flagsOf reads the two renewal flags of a provisioner in ca.json form through its JSON encoding
// (the configuration format itself), without touching the conversion under test.
func flagsOf(p provisioner.Interface) string {
	b, err := json.Marshal(p)
	if err != nil {
		return "unmarshalable"
	}
	var v struct {
		Claims *provisioner.Claims `json:"claims"`
	}
	if json.Unmarshal(b, &v) != nil {
		return "unmarshalable"
	}
	if v.Claims == nil {
		return "nil"
	}
	return triS(v.Claims.DisableRenewal) + triS(v.Claims.AllowRenewalAfterExpiry)
}

func lcFlags(c *linkedca.Claims) string {
	if c == nil {
		return "nil"
	}
	return common.B(c.DisableRenewal) + common.B(c.AllowRenewalAfterExpiry)
}

func run(c Case) (out string) {
	defer func() {
		if r := recover(); r != nil {
			out = "crash"
		}
	}()
	var cl *provisioner.Claims
	if c.PC != "nil" {
		cl = &provisioner.Claims{DisableRenewal: tri(c.PC[0:1]), AllowRenewalAfterExpiry: tri(c.PC[1:2])}
	}
	p := build(c.Type, cl)
	lp, err := authority.ProvisionerToLinkedca(p)
	if err != nil {
		return "error:tolinkedca"
	}
	switch c.Dir {
	case "c2l":
		return "flags=" + lcFlags(lp.Claims)
	case "l2c":
		// start from the linkedca form with explicit booleans (what the admin API stores)
		if lp.Claims == nil {
			lp.Claims = &linkedca.Claims{}
		}
		lp.Claims.DisableRenewal = c.PC != "nil" && c.PC[0] == '1'
		lp.Claims.AllowRenewalAfterExpiry = c.PC != "nil" && c.PC[1] == '1'
		if c.PC == "nil" {
			lp.Claims = nil
		}
	}
	back, err := authority.ProvisionerToCertificates(lp)
	if err != nil {
		return "error:tocertificates"
	}
	return "flags=" + flagsOf(back)
}

func main() {
	_ = flag.Int("n", 0, "unused: the space is enumerated")
	outp := flag.String("out", "", "output file")
	replay := flag.String("replay", "", "file with lines carrying case=x<hex json>")
	flag.Parse()
	if *outp == "" {
		fmt.Fprintln(os.Stderr, "need -out")
		os.Exit(2)
	}
	out, err := common.NewOut(*outp)
	if err != nil {
		panic(err)
	}
	defer out.Close()
	var cases []Case
	if *replay != "" {
		data, err := os.ReadFile(*replay)
		if err != nil {
			panic(err)
		}
		for _, l := range strings.Split(string(data), "\n") {
			i := strings.Index(l, "case=x")
			if i < 0 {
				continue
			}
			js, err := hex.DecodeString(strings.Fields(l[i+6:])[0])
			if err != nil {
				continue
			}
			var c Case
			if json.Unmarshal(js, &c) == nil {
				cases = append(cases, c)
			}
		}
	} else {
		tris := []string{"-", "0", "1"}
		for _, t := range types {
			for _, dir := range []string{"c2l", "roundtrip", "l2c"} {
				cases = append(cases, Case{Type: t, PC: "nil", Dir: dir})
				for _, d := range tris {
					for _, a := range tris {
						if dir == "l2c" && (d == "-" || a == "-") {
							continue // linkedca claims have no "unset"
						}
						cases = append(cases, Case{Type: t, PC: d + a, Dir: dir})
					}
				}
			}
		}
	}
	for _, c := range cases {
		js, _ := json.Marshal(c)
		out.Case(fmt.Sprintf("conv type=%s dir=%s pc=%s case=x%s", c.Type, c.Dir, c.PC, hex.EncodeToString(js)), run(c))
	}
}
