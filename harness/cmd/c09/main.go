// Harness for C09, stage "fidelity": certificates are issued by the real sign flow through
// generated X.509 templates on a scratch JWK provisioner ("tpl"), then renewed or rekeyed by the
// real Authority.Renew / Authority.Rekey. The presented certificate (parsed fields + raw
// extension list) is the model input; the renewed certificate's key, subject, validity length
// and raw extension list (id, critical, value, in order) is the implementation output, together
// with a field-by-field comparison of the two parsed certificates (fdiff) and three oracle
// flags (fresh serial, signature verifies under the issuer, validity window starts at
// now - backdate).
package main

import (
	"bytes"
	"context"
	"crypto"
	"crypto/ecdsa"
	"crypto/ed25519"
	"crypto/elliptic"
	"crypto/rand"
	"crypto/rsa"
	"crypto/sha256"
	"crypto/tls"
	"crypto/x509"
	"crypto/x509/pkix"
	"encoding/asn1"
	"encoding/base64"
	"encoding/hex"
	"encoding/json"
	"encoding/pem"
	"flag"
	"fmt"
	"io"
	"log"
	"math/big"
	"net/http"
	"net/http/httptest"
	"os"
	"reflect"
	"strconv"
	"strings"
	"time"

	"go.step.sm/crypto/jose"
	"go.step.sm/crypto/minica"
	"go.step.sm/crypto/x509util"

	"github.com/smallstep/certificates/api"
	"github.com/smallstep/certificates/authority"
	"github.com/smallstep/certificates/authority/provisioner"
	"verif/harness/common"
	"verif/harness/fixture"
)

type Case struct {
	Op     string         `json:"op"`  // renew | rekey
	Key    string         `json:"key"` // ec256 | ec384 | rsa | ed25519
	NewKey string         `json:"newkey,omitempty"`
	Dur    string         `json:"dur,omitempty"`   // "" (default 24h) | "backdate" | "short" | "long"
	API    bool           `json:"api,omitempty"`   // go through the HTTP handlers api.Renew / api.Rekey (TLS peer certificate)
	Rot    bool           `json:"rot,omitempty"`   // renew on an authority whose intermediate was rotated (same root, other key)
	Again  string         `json:"again,omitempty"` // "" | renew | rekey: a second step on the result of the first
	BD30   bool           `json:"bd30,omitempty"`  // renew on an authority whose backdate is 30 s (a 30 s certificate then has lifetime 0)
	Tpl    map[string]any `json:"tpl"`
}

const provName = "tpl"

type world struct {
	ca       *fixture.CA // issues, and renews unless the case says "rot"
	ca2      *fixture.CA // same root, rotated intermediate, own database
	prov     *provisioner.JWK
	provKey  *jose.JSONWebKey
	ca3      *fixture.CA // like ca, own database, backdate 30 s instead of the default minute
	rsaPool  []*rsa.PrivateKey
	weakRSA  *rsa.PrivateKey // 1024 bits: refused by the sign flow, accepted by rekey (observation O3)
	n        int
	skipped  int
	serials  map[string]bool
	backdate map[*fixture.CA]int
}

func newWorld() *world {
	w := &world{}
	k, err := jose.GenerateJWK("EC", "P-256", "ES256", "sig", "", 0)
	if err != nil {
		panic(err)
	}
	k.KeyID, _ = jose.Thumbprint(k)
	w.provKey = k
	pub := k.Public()
	w.prov = &provisioner.JWK{Type: "JWK", Name: provName, Key: &pub,
		Claims: &provisioner.Claims{
			MinTLSDur:     &provisioner.Duration{Duration: time.Second},
			MaxTLSDur:     &provisioner.Duration{Duration: 100 * 24 * time.Hour},
			DefaultTLSDur: &provisioner.Duration{Duration: 24 * time.Hour},
		},
		Options: &provisioner.Options{X509: &provisioner.X509Options{}}}
	stub1, stub2 := twoIntermediates()
	w.ca, err = fixture.New(fixture.Opts{From: stub1, Provisioners: provisioner.List{w.prov}})
	if err != nil {
		panic(err)
	}
	prov2 := &provisioner.JWK{Type: "JWK", Name: provName, Key: &pub, Claims: w.prov.Claims}
	w.ca2, err = fixture.New(fixture.Opts{From: stub2, Provisioners: provisioner.List{prov2}})
	if err != nil {
		panic(err)
	}
	prov3 := &provisioner.JWK{Type: "JWK", Name: provName, Key: &pub, Claims: w.prov.Claims}
	w.ca3, err = fixture.New(fixture.Opts{From: stub1, Provisioners: provisioner.List{prov3}, Backdate: 30 * time.Second})
	if err != nil {
		panic(err)
	}
	w.serials = map[string]bool{}
	w.backdate = map[*fixture.CA]int{w.ca: 60, w.ca2: 60, w.ca3: 30}
	if w.weakRSA, err = rsa.GenerateKey(rand.Reader, 1024); err != nil {
		panic(err)
	}
	for i := 0; i < 2; i++ {
		rk, err := rsa.GenerateKey(rand.Reader, 2048)
		if err != nil {
			panic(err)
		}
		w.rsaPool = append(w.rsaPool, rk)
	}
	return w
}

// twoIntermediates makes one root with two intermediates (different keys, hence different
// subject key identifiers): the situation the authority-key-id exception of renewal exists for.
func twoIntermediates() (*fixture.CA, *fixture.CA) {
	mk := func(cn string, pathLen int, parent *x509.Certificate, parentKey crypto.Signer) (*x509.Certificate, crypto.Signer) {
		k, err := ecdsa.GenerateKey(elliptic.P256(), rand.Reader)
		if err != nil {
			panic(err)
		}
		t := &x509.Certificate{Subject: pkix.Name{CommonName: cn}, NotBefore: time.Now().Add(-24 * time.Hour), NotAfter: time.Now().Add(2400 * time.Hour),
			KeyUsage: x509.KeyUsageCertSign | x509.KeyUsageCRLSign, BasicConstraintsValid: true, IsCA: true, MaxPathLen: pathLen, MaxPathLenZero: pathLen == 0}
		signer, p := crypto.Signer(k), t
		if parent != nil {
			signer, p = parentKey, parent
		}
		c, err := x509util.CreateCertificate(t, p, k.Public(), signer)
		if err != nil {
			panic(err)
		}
		return c, k
	}
	jwk := func() *jose.JSONWebKey {
		k, err := jose.GenerateJWK("EC", "P-256", "ES256", "sig", "", 0)
		if err != nil {
			panic(err)
		}
		k.KeyID, _ = jose.Thumbprint(k)
		return k
	}
	root, rootKey := mk("Verif Root CA", 1, nil, nil)
	i1, k1 := mk("Verif Intermediate CA", 0, root, rootKey)
	i2, k2 := mk("Verif Intermediate CA", 0, root, rootKey)
	return &fixture.CA{MiniCA: &minica.CA{Root: root, Intermediate: i1, Signer: k1}, JWK: jwk()},
		&fixture.CA{MiniCA: &minica.CA{Root: root, Intermediate: i2, Signer: k2}, JWK: jwk()}
}

func (w *world) key(kind string) crypto.Signer {
	switch kind {
	case "ec384":
		k, _ := ecdsa.GenerateKey(elliptic.P384(), rand.Reader)
		return k
	case "rsa":
		w.n++
		return w.rsaPool[w.n%len(w.rsaPool)]
	case "ed25519":
		_, k, _ := ed25519.GenerateKey(rand.Reader)
		return k
	case "rsa1024":
		return w.weakRSA
	}
	k, _ := ecdsa.GenerateKey(elliptic.P256(), rand.Reader)
	return k
}

// tbs mirrors crypto/x509's unexported tbsCertificate: the harness looks at the DER of the
// TBSCertificate itself, not only at the parsed x509.Certificate.
type tbs struct {
	Raw                asn1.RawContent
	Version            int `asn1:"optional,explicit,default:0,tag:0"`
	SerialNumber       *big.Int
	SignatureAlgorithm asn1.RawValue
	Issuer             asn1.RawValue
	Validity           asn1.RawValue
	Subject            asn1.RawValue
	PublicKey          asn1.RawValue
	UniqueID           asn1.BitString `asn1:"optional,tag:1"`
	SubjectUniqueID    asn1.BitString `asn1:"optional,tag:2"`
	Extensions         asn1.RawValue  `asn1:"optional,explicit,tag:3"`
}

func parseTBS(c *x509.Certificate) (*tbs, bool) {
	var t tbs
	rest, err := asn1.Unmarshal(c.RawTBSCertificate, &t)
	return &t, err == nil && len(rest) == 0
}

// keyAcceptable is the rule of provisioner.defaultPublicKeyValidator (sign flow).
func keyAcceptable(pub crypto.PublicKey) bool {
	switch k := pub.(type) {
	case *rsa.PublicKey:
		return k.Size() >= 256
	case *ecdsa.PublicKey, ed25519.PublicKey:
		return true
	}
	return false
}

// ---- rendering

func oidS(o asn1.ObjectIdentifier) string { return o.String() }

func extS(e pkix.Extension) string {
	return fmt.Sprintf("%s/%s/x%s", oidS(e.Id), common.B(e.Critical), hex.EncodeToString(e.Value))
}

func extsS(es []pkix.Extension) string {
	var out []string
	for _, e := range es {
		out = append(out, extS(e))
	}
	return common.List(out)
}

func strs(xs []string) string {
	var out []string
	for _, x := range xs {
		out = append(out, common.X(x))
	}
	return common.List(out)
}

func oids(xs []asn1.ObjectIdentifier) string {
	var out []string
	for _, x := range xs {
		out = append(out, oidS(x))
	}
	return common.List(out)
}

func keyHash(spki []byte) string {
	h := sha256.Sum256(spki)
	return "x" + hex.EncodeToString(h[:])
}

func fieldsLine(c *x509.Certificate) string {
	var eku, ips, uris, pip, xip []string
	for _, u := range c.ExtKeyUsage {
		eku = append(eku, strconv.Itoa(int(u)))
	}
	for _, ip := range c.IPAddresses {
		ips = append(ips, common.XB(ip))
	}
	for _, u := range c.URIs {
		uris = append(uris, common.X(u.String()))
	}
	for _, n := range c.PermittedIPRanges {
		pip = append(pip, common.X(n.String()))
	}
	for _, n := range c.ExcludedIPRanges {
		xip = append(xip, common.X(n.String()))
	}
	return fmt.Sprintf("subj=%s ku=%d eku=%s ueku=%s uce=%s bc=%s ca=%s mpl=%d mplz=%s ocsp=%s iurl=%s dns=%s em=%s ip=%s uri=%s ncc=%s pd=%s xd=%s pi=%s xi=%s pe=%s xe=%s pu=%s xu=%s crl=%s pol=%s",
		common.XB(c.RawSubject), int(c.KeyUsage), common.List(eku), oids(c.UnknownExtKeyUsage), oids(c.UnhandledCriticalExtensions),
		common.B(c.BasicConstraintsValid), common.B(c.IsCA), c.MaxPathLen, common.B(c.MaxPathLenZero),
		strs(c.OCSPServer), strs(c.IssuingCertificateURL), strs(c.DNSNames), strs(c.EmailAddresses), common.List(ips), common.List(uris),
		common.B(c.PermittedDNSDomainsCritical), strs(c.PermittedDNSDomains), strs(c.ExcludedDNSDomains), common.List(pip), common.List(xip),
		strs(c.PermittedEmailAddresses), strs(c.ExcludedEmailAddresses), strs(c.PermittedURIDomains), strs(c.ExcludedURIDomains),
		strs(c.CRLDistributionPoints), oids(c.PolicyIdentifiers))
}

// fieldDiff compares the parsed certificates group by group (groups named after the extension
// each field group is read from).
func fieldDiff(a, b *x509.Certificate) string {
	var d []string
	add := func(name string, same bool) {
		if !same {
			d = append(d, name)
		}
	}
	eq := reflect.DeepEqual
	add("subj", eq(a.RawSubject, b.RawSubject) && a.Subject.String() == b.Subject.String())
	add("ku", a.KeyUsage == b.KeyUsage)
	add("eku", eq(a.ExtKeyUsage, b.ExtKeyUsage) && eq(a.UnknownExtKeyUsage, b.UnknownExtKeyUsage))
	add("bc", a.BasicConstraintsValid == b.BasicConstraintsValid && a.IsCA == b.IsCA && a.MaxPathLen == b.MaxPathLen && a.MaxPathLenZero == b.MaxPathLenZero)
	add("ski", eq(a.SubjectKeyId, b.SubjectKeyId))
	add("aia", eq(a.OCSPServer, b.OCSPServer) && eq(a.IssuingCertificateURL, b.IssuingCertificateURL))
	add("san", eq(a.DNSNames, b.DNSNames) && eq(a.EmailAddresses, b.EmailAddresses) && eq(a.IPAddresses, b.IPAddresses) && eq(a.URIs, b.URIs))
	add("pol", eq(a.PolicyIdentifiers, b.PolicyIdentifiers) && eq(a.Policies, b.Policies))
	add("nc", a.PermittedDNSDomainsCritical == b.PermittedDNSDomainsCritical &&
		eq(a.PermittedDNSDomains, b.PermittedDNSDomains) && eq(a.ExcludedDNSDomains, b.ExcludedDNSDomains) &&
		eq(a.PermittedIPRanges, b.PermittedIPRanges) && eq(a.ExcludedIPRanges, b.ExcludedIPRanges) &&
		eq(a.PermittedEmailAddresses, b.PermittedEmailAddresses) && eq(a.ExcludedEmailAddresses, b.ExcludedEmailAddresses) &&
		eq(a.PermittedURIDomains, b.PermittedURIDomains) && eq(a.ExcludedURIDomains, b.ExcludedURIDomains))
	add("crl", eq(a.CRLDistributionPoints, b.CRLDistributionPoints))
	add("other", eq(a.UnhandledCriticalExtensions, b.UnhandledCriticalExtensions) && a.Version == b.Version)
	return common.List(d)
}

// generatedFor returns the extensions Go's CreateCertificate generates from the parsed fields of
// `old` alone (no ExtraExtensions) for public key `pub` under the CA's intermediate, plus the
// subject key identifier x509util derives for `pub`.
func (w *world) generatedFor(ca *fixture.CA, old *x509.Certificate, pub crypto.PublicKey) (string, []byte, []byte) {
	mk := func(full bool) *x509.Certificate {
		t := &x509.Certificate{SerialNumber: big.NewInt(1), NotBefore: old.NotBefore, NotAfter: old.NotAfter, RawSubject: old.RawSubject}
		if full {
			t.KeyUsage, t.ExtKeyUsage, t.UnknownExtKeyUsage = old.KeyUsage, old.ExtKeyUsage, old.UnknownExtKeyUsage
			t.BasicConstraintsValid, t.IsCA, t.MaxPathLen, t.MaxPathLenZero = old.BasicConstraintsValid, old.IsCA, old.MaxPathLen, old.MaxPathLenZero
			t.OCSPServer, t.IssuingCertificateURL, t.CRLDistributionPoints = old.OCSPServer, old.IssuingCertificateURL, old.CRLDistributionPoints
			t.DNSNames, t.EmailAddresses, t.IPAddresses, t.URIs = old.DNSNames, old.EmailAddresses, old.IPAddresses, old.URIs
			t.PolicyIdentifiers = old.PolicyIdentifiers
			t.PermittedDNSDomainsCritical = old.PermittedDNSDomainsCritical
			t.PermittedDNSDomains, t.ExcludedDNSDomains = old.PermittedDNSDomains, old.ExcludedDNSDomains
			t.PermittedIPRanges, t.ExcludedIPRanges = old.PermittedIPRanges, old.ExcludedIPRanges
			t.PermittedEmailAddresses, t.ExcludedEmailAddresses = old.PermittedEmailAddresses, old.ExcludedEmailAddresses
			t.PermittedURIDomains, t.ExcludedURIDomains = old.PermittedURIDomains, old.ExcludedURIDomains
		}
		return t
	}
	for _, full := range []bool{true, false} {
		c, err := x509util.CreateCertificate(mk(full), ca.MiniCA.Intermediate, pub, ca.MiniCA.Signer)
		if err == nil {
			var alg []byte
			if t, ok := parseTBS(c); ok {
				alg = t.SignatureAlgorithm.FullBytes
			}
			return extsS(c.Extensions), c.SubjectKeyId, alg
		}
	}
	return "-", nil, nil
}

// ---- one case

type row struct{ line, impl string }

func (w *world) run(c Case) (rows []row) {
	js, _ := json.Marshal(c)
	tail := " case=x" + hex.EncodeToString(js)
	unissued := func(why string) []row {
		return []row{{"unissued why=" + why + tail, "not-issued"}}
	}

	tpl, err := json.Marshal(c.Tpl)
	if err != nil {
		return unissued("tpl")
	}
	w.prov.Options.X509.Template = string(tpl)
	w.n++
	name := fmt.Sprintf("f%d.c09.test", w.n)
	tok, err := w.ca.Token(fixture.TokenOpts{Subject: name, SANs: []string{name}, Issuer: provName, Key: w.provKey})
	if err != nil {
		return unissued("token")
	}
	priv := w.key(c.Key)
	csr, err := fixture.CSRWithKey(name, []string{name}, priv)
	if err != nil {
		return unissued("csr")
	}
	var so provisioner.SignOptions
	now := time.Now().Truncate(time.Second)
	switch c.Dur {
	case "backdate": // one second more than the CA's backdate (exactly the backdate is not issuable: lifetime 0)
		so.NotBefore, so.NotAfter = provisioner.NewTimeDuration(now), provisioner.NewTimeDuration(now.Add(61*time.Second))
	case "short":
		so.NotBefore, so.NotAfter = provisioner.NewTimeDuration(now), provisioner.NewTimeDuration(now.Add(30*time.Second))
	case "long":
		so.NotBefore, so.NotAfter = provisioner.NewTimeDuration(now.Add(-time.Hour)), provisioner.NewTimeDuration(now.Add(90*24*time.Hour))
	}
	var chain []*x509.Certificate
	func() {
		defer func() {
			if r := recover(); r != nil {
				err = fmt.Errorf("panic")
			}
		}()
		chain, err = w.ca.SignX509(tok, csr, so)
	}()
	if err != nil || len(chain) == 0 {
		if os.Getenv("C09_DEBUG") != "" {
			fmt.Fprintln(os.Stderr, "sign:", err)
		}
		return unissued("sign")
	}
	old := chain[0]

	ca := w.ca
	switch {
	case c.Rot:
		ca = w.ca2
	case c.BD30:
		ca = w.ca3
	}
	r1, nw := w.step(ca, c.Op, c.NewKey, c.API, old, name, tail)
	rows = append(rows, r1...)
	if nw != nil && c.Again != "" {
		// a second step on the result (histories: certificates produced by renewal are renewed again)
		r2, _ := w.step(ca, c.Again, "ec256", false, nw, name, tail)
		rows = append(rows, r2...)
	}
	return rows
}

// step renews or rekeys `old` on `ca` and renders the model input line, the implementation's
// output, and the property-level line (fidspec).
func (w *world) step(ca *fixture.CA, op, newKeyKind string, viaAPI bool, old *x509.Certificate, name, tail string) (rows []row, nw *x509.Certificate) {
	var err error
	// renew / rekey
	var pub crypto.PublicKey
	var newPriv crypto.Signer
	nkey := "!"
	target := old.PublicKey
	if op == "rekey" {
		npriv := w.key(newKeyKind)
		for i := 0; i < 4 && reflect.DeepEqual(npriv.Public(), old.PublicKey); i++ {
			npriv = w.key(newKeyKind) // the RSA pool is small: never rekey to the same key
		}
		pub, newPriv = npriv.Public(), npriv
		spki, err := x509.MarshalPKIXPublicKey(pub)
		if err != nil {
			return []row{{"unissued why=newkey" + tail, "not-issued"}}, nil
		}
		nkey, target = keyHash(spki), pub
	}
	gen, nski, ealg := w.generatedFor(ca, old, target)
	ot, otOK := parseTBS(old)
	if !otOK {
		return []row{{"unissued why=oldtbs" + tail, "not-issued"}}, nil
	}
	backdate := w.backdate[ca]
	// the two clock comparisons DefaultAuthorizeRenew makes (inputs of the gate part of the model)
	clock := time.Now().Truncate(time.Second)
	nyv, exp := clock.Before(old.NotBefore), clock.After(old.NotAfter)
	via := "direct"
	if viaAPI {
		via = "api" // through the handler only the status class of a refusal is visible
	}
	line := fmt.Sprintf("%s via=%s %s key=%s nkey=%s nkok=%s over=%d oalg=%s oiss=%s oski=%s nb=%d na=%d nyv=%s exp=%s bd=%d exts=%s gen=%s aki=%s nski=%s ealg=%s eiss=%s%s",
		op, via, fieldsLine(old), keyHash(old.RawSubjectPublicKeyInfo), nkey, common.B(keyAcceptable(target)),
		ot.Version+1, common.XB(ot.SignatureAlgorithm.FullBytes), common.XB(ot.Issuer.FullBytes), common.XB(old.SubjectKeyId),
		old.NotBefore.Unix(), old.NotAfter.Unix(), common.B(nyv), common.B(exp), backdate,
		extsS(old.Extensions), gen, common.XB(ca.MiniCA.Intermediate.SubjectKeyId), common.XB(nski),
		common.XB(ealg), common.XB(ca.MiniCA.Intermediate.RawSubject), tail)

	var nchain []*x509.Certificate
	t0 := time.Now()
	crashed := false
	func() {
		defer func() {
			if r := recover(); r != nil {
				crashed = true
			}
		}()
		switch {
		case viaAPI:
			nchain, err = w.viaAPI(ca, op, old, name, newPriv)
		case op == "rekey":
			nchain, err = ca.Auth.Rekey(old, pub)
		default:
			nchain, err = ca.Auth.Renew(old)
		}
	}()
	t1 := time.Now()
	if c2 := t1.Truncate(time.Second); c2.Before(old.NotBefore) != nyv || c2.After(old.NotAfter) != exp {
		// the wall clock crossed a validity boundary of a short-lived certificate during the call:
		// the clock inputs of the model line are not well defined, no verdict for this step
		w.skipped++
		return nil, nil
	}
	switch {
	case crashed:
		return []row{{line, "crash"}}, nil
	case err != nil && viaAPI:
		return []row{{line, "refuse"}}, nil
	case err != nil && strings.Contains(err.Error(), "`lifetime` cannot be 0"):
		return []row{{line, "signerr"}}, nil
	case err != nil:
		if os.Getenv("C09_DEBUG") != "" {
			fmt.Fprintln(os.Stderr, "renew:", err)
		}
		switch {
		case strings.Contains(err.Error(), "certificate expired"):
			return []row{{line, "refuse:expired"}}, nil
		case strings.Contains(err.Error(), "not yet valid"):
			return []row{{line, "refuse:notyetvalid"}}, nil
		case strings.Contains(err.Error(), "not longer than the backdate"):
			return []row{{line, "refuse:short"}}, nil
		}
		return []row{{line, "refuse:other"}}, nil
	case len(nchain) == 0:
		return []row{{line, "issued-nothing"}}, nil
	}
	nw = nchain[0]
	serial := "new"
	switch sn := nw.SerialNumber.String(); {
	case nw.SerialNumber.Cmp(old.SerialNumber) == 0:
		serial = "same"
	case w.serials[sn] || nw.SerialNumber.Sign() <= 0 || nw.SerialNumber.BitLen() > 128:
		serial = "dup" // seen before in this run (or not a positive 128-bit number)
	default:
		w.serials[sn] = true
	}
	nt, ntOK := parseTBS(nw)
	if !ntOK {
		return []row{{line, "issued-unparsable-tbs"}}, nil
	}
	var td []string
	if nt.Version != ot.Version {
		td = append(td, "ver")
	}
	if !bytes.Equal(nt.SignatureAlgorithm.FullBytes, ot.SignatureAlgorithm.FullBytes) {
		td = append(td, "alg")
	}
	if !bytes.Equal(nt.Issuer.FullBytes, ot.Issuer.FullBytes) {
		td = append(td, "iss")
	}
	// never predicted by the model: unique identifiers, a subject or key in the DER that is not the
	// parsed one, a serial in the DER that is not the parsed one
	if nt.UniqueID.BitLength != 0 || nt.SubjectUniqueID.BitLength != 0 {
		td = append(td, "uid")
	}
	if !bytes.Equal(nt.Subject.FullBytes, nw.RawSubject) || !bytes.Equal(nt.PublicKey.FullBytes, nw.RawSubjectPublicKeyInfo) || nt.SerialNumber.Cmp(nw.SerialNumber) != 0 {
		td = append(td, "der")
	}
	sig := "ok"
	if nw.CheckSignatureFrom(ca.MiniCA.Intermediate) != nil || !reflect.DeepEqual(nw.RawIssuer, ca.MiniCA.Intermediate.RawSubject) {
		sig = "bad"
	}
	win := "ok"
	lo := t0.Add(-time.Duration(backdate) * time.Second).Truncate(time.Second)
	hi := t1.Add(-time.Duration(backdate) * time.Second)
	if nw.NotBefore.Before(lo) || nw.NotBefore.After(hi) {
		win = "bad"
	}
	// the list clause of the property on the real certificates: the extension lists minus authority
	// key id (and subject key id on rekey) are equal as lists (order, criticality, bytes)
	strip := func(es []pkix.Extension) string {
		var out []string
		for _, e := range es {
			if e.Id.Equal(asn1.ObjectIdentifier{2, 5, 29, 35}) || (op == "rekey" && e.Id.Equal(asn1.ObjectIdentifier{2, 5, 29, 14})) {
				continue
			}
			out = append(out, extS(e))
		}
		return strings.Join(out, ",")
	}
	keep := "ok"
	if strip(old.Extensions) != strip(nw.Extensions) {
		keep = "bad"
	}
	impl := fmt.Sprintf("issued key=%s subj=%s ver=%d alg=%s iss=%s tbs=%s dur=%d exts=%s fdiff=%s keep=%s serial=%s sig=%s win=%s",
		keyHash(nw.RawSubjectPublicKeyInfo), common.XB(nw.RawSubject), nt.Version+1, common.XB(nt.SignatureAlgorithm.FullBytes),
		common.XB(nt.Issuer.FullBytes), common.List(td), int64(nw.NotAfter.Sub(nw.NotBefore)/time.Second),
		extsS(nw.Extensions), fieldDiff(old, nw), keep, serial, sig, win)
	// the property itself, independent of the model of the code: which parsed field groups may differ
	hasSKI := false
	for _, e := range old.Extensions {
		if e.Id.Equal(asn1.ObjectIdentifier{2, 5, 29, 14}) {
			hasSKI = true
		}
	}
	specLine := fmt.Sprintf("fidspec op=%s hasski=%s%s", op, common.B(hasSKI), tail)
	keyOK := "ok" // renew keeps the key, rekey carries exactly the requested one
	if want, err := x509.MarshalPKIXPublicKey(target); err != nil || !bytes.Equal(want, nw.RawSubjectPublicKeyInfo) {
		keyOK = "bad"
	}
	specImpl := "fdiff=" + fieldDiff(old, nw) + " key=" + keyOK
	return []row{{line, impl}, {specLine, specImpl}}, nw
}

// viaAPI calls the HTTP handlers of POST /1.0/renew and /1.0/rekey with `old` as the verified TLS
// peer certificate and returns the certificate chain of the JSON response.
func (w *world) viaAPI(ca *fixture.CA, op string, old *x509.Certificate, name string, newPriv crypto.Signer) ([]*x509.Certificate, error) {
	var body []byte
	if op == "rekey" {
		csr, err := fixture.CSRWithKey(name, nil, newPriv)
		if err != nil {
			return nil, err
		}
		body, _ = json.Marshal(map[string]string{"csr": string(pem.EncodeToMemory(&pem.Block{Type: "CERTIFICATE REQUEST", Bytes: csr.Raw}))})
	}
	req := httptest.NewRequest(http.MethodPost, "https://"+fixture.DNSName+"/1.0/"+op, bytes.NewReader(body))
	req.TLS = &tls.ConnectionState{PeerCertificates: []*x509.Certificate{old}}
	req = req.WithContext(authority.NewContext(context.Background(), ca.Auth))
	rec := httptest.NewRecorder()
	if op == "rekey" {
		api.Rekey(rec, req)
	} else {
		api.Renew(rec, req)
	}
	if rec.Code != http.StatusCreated {
		return nil, fmt.Errorf("status %d: %s", rec.Code, rec.Body.String())
	}
	var resp api.SignResponse
	if err := json.Unmarshal(rec.Body.Bytes(), &resp); err != nil {
		return nil, err
	}
	if resp.ServerPEM.Certificate == nil {
		return nil, fmt.Errorf("no certificate in response")
	}
	out := []*x509.Certificate{resp.ServerPEM.Certificate}
	// the handler must return the same leaf first in certChain, followed by the issuer
	if len(resp.CertChainPEM) < 2 || !bytes.Equal(resp.CertChainPEM[0].Raw, out[0].Raw) || resp.CaPEM.Certificate == nil ||
		!bytes.Equal(resp.CaPEM.Raw, resp.CertChainPEM[1].Raw) {
		return nil, fmt.Errorf("inconsistent chain in response")
	}
	return out, nil
}

// ---- generation

var (
	labels   = []string{"a", "b", "www", "api", "x-1", "xn--bcher-kva", "svc", "9"}
	tlds     = []string{"test", "example.com", "internal", "c09.example"}
	kuNames  = []string{"digitalSignature", "contentCommitment", "keyEncipherment", "dataEncipherment", "keyAgreement", "certSign", "crlSign", "encipherOnly", "decipherOnly"}
	ekuNames = []string{"any", "serverAuth", "clientAuth", "codeSigning", "emailProtection", "timeStamping", "ocspSigning", "ipsecUser"}
	keyKinds = []string{"ec256", "ec256", "ec384", "rsa", "ed25519"}
)

func dnsName(r *common.Rng) string {
	s := common.Pick(r, labels) + "." + common.Pick(r, tlds)
	switch r.Intn(8) {
	case 0:
		s = "*." + s
	case 1:
		s = common.Pick(r, labels) + "." + s
	}
	return s
}

func listOf(r *common.Rng, max int, f func() string) []string {
	n := 0
	switch r.Intn(6) {
	case 0, 1:
		n = 0
	case 2, 3:
		n = 1
	case 4:
		n = 2 + r.Intn(2)
	default:
		n = r.Intn(max + 1)
	}
	out := []string{}
	for i := 0; i < n; i++ {
		out = append(out, f())
	}
	return out
}

func randOID(r *common.Rng) string {
	switch r.Intn(4) {
	case 0:
		return fmt.Sprintf("1.3.6.1.4.1.99999.%d", 1+r.Intn(50))
	case 1:
		return fmt.Sprintf("2.23.140.1.2.%d", 1+r.Intn(3))
	case 2:
		return fmt.Sprintf("1.2.840.113556.%d.%d", r.Intn(300), r.Intn(100000))
	}
	return fmt.Sprintf("2.16.840.1.%d.%d.%d", 100000+r.Intn(50000), r.Intn(5), r.Intn(200))
}

func randBytes(r *common.Rng, n int) []byte {
	b := make([]byte, n)
	for i := range b {
		b[i] = byte(r.U64())
	}
	return b
}

func b64(b []byte) string { return base64.StdEncoding.EncodeToString(b) }

func der(v any) []byte {
	b, err := asn1.Marshal(v)
	if err != nil {
		panic(err)
	}
	return b
}

func randURL(r *common.Rng) string {
	switch r.Intn(4) {
	case 0:
		return "spiffe://" + common.Pick(r, tlds) + "/ns/" + common.Pick(r, labels)
	case 1:
		return "urn:uuid:" + hex.EncodeToString(randBytes(r, 4))
	}
	return "https://" + common.Pick(r, labels) + "." + common.Pick(r, tlds) + "/" + common.Pick(r, labels)
}

func randIP(r *common.Rng) string {
	if r.Chance(1, 3) {
		return fmt.Sprintf("2001:db8::%x", 1+r.Intn(65000))
	}
	return fmt.Sprintf("10.%d.%d.%d", r.Intn(256), r.Intn(256), r.Intn(256))
}

func randCIDR(r *common.Rng) string {
	if r.Chance(1, 4) {
		return fmt.Sprintf("2001:db8:%x::/48", r.Intn(65000))
	}
	return fmt.Sprintf("10.%d.0.0/16", r.Intn(256))
}

func customExtension(r *common.Rng) map[string]any {
	ext := func(id string, crit bool, val []byte) map[string]any {
		return map[string]any{"id": id, "critical": crit, "value": b64(val)}
	}
	switch r.Intn(12) {
	case 0: // custom subject key identifier
		return ext("2.5.29.14", false, der(randBytes(r, 4+r.Intn(20))))
	case 1: // custom authority key identifier
		return ext("2.5.29.35", false, der(struct {
			ID []byte `asn1:"optional,tag:0"`
		}{randBytes(r, 8)}))
	case 2: // inhibitAnyPolicy, critical
		return ext("2.5.29.54", true, der(r.Intn(4)))
	case 3: // TLS feature (must-staple)
		return ext("1.3.6.1.5.5.7.1.24", false, der([]int{5}))
	case 4: // CT poison, critical NULL
		return ext("1.3.6.1.4.1.11129.2.4.3", true, []byte{5, 0})
	case 5: // hand-made key usage overriding the generated one
		return ext("2.5.29.15", r.Chance(1, 2), der(asn1.BitString{Bytes: []byte{byte(0x80 >> r.Intn(3))}, BitLength: 3}))
	case 6: // empty value
		return ext(randOID(r), r.Chance(1, 3), []byte{})
	case 7: // value that is not DER at all
		return ext(randOID(r), r.Chance(1, 2), randBytes(r, 1+r.Intn(40)))
	}
	return ext(randOID(r), r.Chance(1, 3), der(string(common.Pick(r, labels))))
}

func randomTemplate(r *common.Rng) map[string]any {
	t := map[string]any{}
	// subject
	switch r.Intn(6) {
	case 0:
		t["subject"] = map[string]any{}
	case 1:
		t["subject"] = map[string]any{"commonName": dnsName(r), "country": "US", "organization": []string{"Verif", "Second Org"},
			"organizationalUnit": []string{"u1", "u2"}, "locality": "SF", "province": "CA", "streetAddress": "1 Main", "postalCode": "94000", "serialNumber": "S-" + strconv.Itoa(r.Intn(1000))}
	case 2:
		t["subject"] = map[string]any{"commonName": "ü-" + common.Pick(r, labels), "extraNames": []map[string]any{
			{"type": "0.9.2342.19200300.100.1.25", "value": "example"}, {"type": "1.2.3.4", "value": "custom"}}}
	default:
		t["subject"] = map[string]any{"commonName": dnsName(r)}
	}
	// names
	if r.Chance(1, 5) {
		// typed SAN list, possibly with types Go's x509 has no field for (⇒ hand-made SAN extension)
		var sans []map[string]any
		for _, d := range listOf(r, 6, func() string { return dnsName(r) }) {
			sans = append(sans, map[string]any{"type": "dns", "value": d})
		}
		for _, d := range listOf(r, 3, func() string { return randIP(r) }) {
			sans = append(sans, map[string]any{"type": "ip", "value": d})
		}
		if r.Chance(1, 2) {
			sans = append(sans, map[string]any{"type": "registeredID", "value": randOID(r)})
		}
		if r.Chance(1, 2) {
			sans = append(sans, map[string]any{"type": "permanentIdentifier", "value": "pid-" + strconv.Itoa(r.Intn(100))})
		}
		if r.Chance(1, 3) {
			sans = append(sans, map[string]any{"type": "userPrincipalName", "value": "u@" + common.Pick(r, tlds)})
		}
		if len(sans) > 0 {
			t["sans"] = sans
		}
	} else {
		if v := listOf(r, 6, func() string { return dnsName(r) }); len(v) > 0 {
			t["dnsNames"] = v
		}
		if v := listOf(r, 6, func() string { return common.Pick(r, labels) + "@" + common.Pick(r, tlds) }); len(v) > 0 {
			t["emailAddresses"] = v
		}
		if v := listOf(r, 6, func() string { return randIP(r) }); len(v) > 0 {
			t["ipAddresses"] = v
		}
		if v := listOf(r, 6, func() string { return randURL(r) }); len(v) > 0 {
			t["uris"] = v
		}
	}
	// usages
	ku := []string{}
	for _, k := range kuNames {
		if r.Chance(1, 3) {
			ku = append(ku, k)
		}
	}
	if len(ku) > 0 {
		t["keyUsage"] = ku
	}
	if v := listOf(r, 5, func() string { return common.Pick(r, ekuNames) }); len(v) > 0 {
		t["extKeyUsage"] = v
	}
	if v := listOf(r, 3, func() string { return randOID(r) }); len(v) > 0 && r.Chance(1, 2) {
		t["unknownExtKeyUsage"] = v
	}
	// basic constraints
	switch r.Intn(6) {
	case 0:
		t["basicConstraints"] = map[string]any{"isCA": false, "maxPathLen": 0}
	case 1:
		t["basicConstraints"] = map[string]any{"isCA": true, "maxPathLen": common.Pick(r, []int{-1, 0, 1, 3})}
	}
	// name constraints (also on leaves)
	if r.Chance(1, 4) {
		nc := map[string]any{"critical": r.Chance(1, 2)}
		put := func(k string, v []string) {
			if len(v) > 0 {
				nc[k] = v
			}
		}
		put("permittedDNSDomains", listOf(r, 3, func() string { return common.Pick(r, tlds) }))
		put("excludedDNSDomains", listOf(r, 2, func() string { return "bad." + common.Pick(r, tlds) }))
		put("permittedIPRanges", listOf(r, 2, func() string { return randCIDR(r) }))
		put("excludedIPRanges", listOf(r, 2, func() string { return randCIDR(r) }))
		put("permittedEmailAddresses", listOf(r, 2, func() string { return common.Pick(r, tlds) }))
		put("excludedEmailAddresses", listOf(r, 2, func() string { return "root@" + common.Pick(r, tlds) }))
		put("permittedURIDomains", listOf(r, 2, func() string { return common.Pick(r, tlds) }))
		put("excludedURIDomains", listOf(r, 2, func() string { return "." + common.Pick(r, tlds) }))
		t["nameConstraints"] = nc
	}
	// access descriptions, CRL, policies
	if v := listOf(r, 3, func() string { return "http://ocsp." + common.Pick(r, tlds) + "/" + common.Pick(r, labels) }); len(v) > 0 && r.Chance(1, 2) {
		t["ocspServer"] = v
	}
	if v := listOf(r, 3, func() string { return "http://ca." + common.Pick(r, tlds) + "/i.crt" }); len(v) > 0 && r.Chance(1, 2) {
		t["issuingCertificateURL"] = v
	}
	if v := listOf(r, 3, func() string { return "http://crl." + common.Pick(r, tlds) + "/" + common.Pick(r, labels) + ".crl" }); len(v) > 0 && r.Chance(1, 2) {
		t["crlDistributionPoints"] = v
	}
	if v := listOf(r, 4, func() string { return randOID(r) }); len(v) > 0 && r.Chance(1, 2) {
		t["policyIdentifiers"] = v
	}
	// key identifiers given by the template
	switch r.Intn(10) {
	case 0:
		t["subjectKeyId"] = b64(randBytes(r, 1+r.Intn(24)))
	case 1:
		t["subjectKeyId"] = "" // empty, non-nil: no subject key identifier is generated for a leaf
	}
	if r.Chance(1, 10) {
		t["authorityKeyId"] = b64(randBytes(r, 8))
	}
	// custom and unknown extensions
	var exts []map[string]any
	seen := map[string]bool{}
	for i, n := 0, common.Pick(r, []int{0, 0, 1, 1, 2, 3, 4}); i < n; i++ {
		e := customExtension(r)
		if id := e["id"].(string); !seen[id] {
			seen[id] = true
			exts = append(exts, e)
		}
	}
	if len(exts) > 0 {
		t["extensions"] = exts
	}
	return t
}

func fixedCases() []Case {
	def := map[string]any{"subject": map[string]any{"commonName": "leaf.c09.test"}, "dnsNames": []string{"leaf.c09.test"},
		"keyUsage": []string{"digitalSignature"}, "extKeyUsage": []string{"serverAuth", "clientAuth"}}
	with := func(k string, v any) map[string]any {
		m := map[string]any{}
		for a, b := range def {
			m[a] = b
		}
		m[k] = v
		return m
	}
	crit := []map[string]any{{"id": "1.3.6.1.4.1.99999.7", "critical": true, "value": b64([]byte{5, 0})}}
	return []Case{
		{Op: "renew", Key: "ec256", Tpl: def},
		{Op: "rekey", Key: "ec256", NewKey: "ec256", Tpl: def},
		{Op: "renew", Key: "ec256", Tpl: def, API: true},
		{Op: "renew", Key: "ec256", Tpl: def, Rot: true},
		{Op: "rekey", Key: "ec256", NewKey: "ec384", Tpl: def, Rot: true, API: true},
		{Op: "renew", Key: "ec256", Tpl: def, Again: "renew"},
		{Op: "rekey", Key: "ec256", NewKey: "ec256", Tpl: def, Again: "renew"},
		{Op: "renew", Key: "ec256", Tpl: def, Again: "rekey", Rot: true},
		{Op: "rekey", Key: "ec256", NewKey: "ed25519", Tpl: def, API: true},
		{Op: "rekey", Key: "rsa", NewKey: "ed25519", Tpl: def},
		{Op: "renew", Key: "ed25519", Tpl: with("extensions", crit)},
		{Op: "rekey", Key: "ec384", NewKey: "rsa", Tpl: with("extensions", crit)},
		{Op: "renew", Key: "ec256", Tpl: with("subjectKeyId", "")},
		{Op: "rekey", Key: "ec256", NewKey: "ec384", Tpl: with("subjectKeyId", "")},
		{Op: "renew", Key: "ec256", Tpl: with("subjectKeyId", b64([]byte{1, 2, 3}))},
		{Op: "rekey", Key: "ec256", NewKey: "ec256", Tpl: with("subjectKeyId", b64([]byte{1, 2, 3}))},
		{Op: "renew", Key: "ec256", Tpl: with("authorityKeyId", b64([]byte{9, 9, 9, 9}))},
		{Op: "renew", Key: "ec256", Dur: "backdate", Tpl: def},
		{Op: "rekey", Key: "ec256", NewKey: "ec256", Dur: "backdate", Tpl: def},
		{Op: "renew", Key: "ec256", Dur: "short", Tpl: def},
		{Op: "renew", Key: "ec256", Dur: "short", Tpl: def, BD30: true},
		{Op: "rekey", Key: "ec256", NewKey: "ec256", Dur: "short", Tpl: def, BD30: true, API: true},
		{Op: "renew", Key: "ec256", Tpl: def, BD30: true, Again: "renew"},
		{Op: "rekey", Key: "ec256", NewKey: "rsa1024", Tpl: def},
		{Op: "rekey", Key: "rsa", NewKey: "rsa1024", Tpl: def, API: true},
		{Op: "renew", Key: "ec256", Dur: "long", Tpl: def},
		{Op: "renew", Key: "ec256", Tpl: map[string]any{"subject": map[string]any{}, "dnsNames": []string{"only-san.c09.test"}}},
		{Op: "renew", Key: "ec256", Tpl: map[string]any{"subject": map[string]any{"commonName": "bare"}}},
		{Op: "renew", Key: "ec256", Tpl: with("nameConstraints", map[string]any{"critical": true, "permittedDNSDomains": []string{"c09.test"}})},
		{Op: "renew", Key: "ec256", Tpl: with("basicConstraints", map[string]any{"isCA": true, "maxPathLen": 0})},
	}
}

func randomCase(r *common.Rng) Case {
	c := Case{Op: "renew", Key: common.Pick(r, keyKinds), Tpl: randomTemplate(r)}
	if r.Chance(2, 5) {
		c.Op, c.NewKey = "rekey", common.Pick(r, keyKinds)
	}
	c.API = r.Chance(1, 3)
	c.Rot = r.Chance(1, 5)
	c.BD30 = !c.Rot && r.Chance(1, 8)
	if c.Op == "rekey" && r.Chance(1, 12) {
		c.NewKey = "rsa1024"
	}
	switch r.Intn(8) {
	case 0:
		c.Again = "renew"
	case 1:
		c.Again = "rekey"
	}
	switch r.Intn(20) {
	case 0:
		c.Dur = "backdate"
	case 1:
		c.Dur = "short"
	case 2:
		c.Dur = "long"
	}
	return c
}

func main() {
	n := flag.Int("n", 200, "number of generated cases")
	outp := flag.String("out", "", "output file")
	replay := flag.String("replay", "", "file with lines carrying case=x<hex json>")
	flag.Parse()
	log.SetOutput(io.Discard)
	if *outp == "" {
		fmt.Fprintln(os.Stderr, "need -out")
		os.Exit(2)
	}
	out, err := common.NewOut(*outp)
	if err != nil {
		panic(err)
	}
	defer out.Close()
	var cases []Case
	if *replay != "" {
		data, err := os.ReadFile(*replay)
		if err != nil {
			panic(err)
		}
		for _, l := range strings.Split(string(data), "\n") {
			i := strings.Index(l, "case=x")
			if i < 0 {
				continue
			}
			js, err := hex.DecodeString(strings.Fields(l[i+6:])[0])
			if err != nil {
				continue
			}
			var c Case
			if json.Unmarshal(js, &c) == nil {
				cases = append(cases, c)
			}
		}
	} else {
		r := common.NewRng(common.Seed())
		cases = fixedCases()
		for len(cases) < *n {
			cases = append(cases, randomCase(r.Fork()))
		}
		if *n > 0 && len(cases) > *n {
			cases = cases[:*n]
		}
	}
	w := newWorld()
	defer w.ca.Close()
	defer w.ca2.Close()
	defer w.ca3.Close()
	unissued := 0
	for _, c := range cases {
		for _, rw := range w.run(c) {
			if rw.impl == "not-issued" {
				unissued++
			}
			out.Case(rw.line, rw.impl)
		}
	}
	if w.skipped > 0 {
		fmt.Printf("skipped %d steps whose certificate crossed a validity boundary during the call\n", w.skipped)
	}
	if unissued*4 > len(cases) {
		fmt.Printf("warning: %d of %d templates were not issuable\n", unissued, len(cases))
	}
}
