// Harness for C09, stage "migrate": the renewal flags of a provisioner through the ca.json ->
// admin-database migration and a restart. A provisioner is configured in the authority's
// configuration with every combination of its disableRenewal / allowRenewalAfterExpiry claims
// (unset, false, true; claims object absent) under every combination of the authority-level
// (global) claims; a valid and an about-to-expire certificate are issued; then the same certificates
// are renewed / rekeyed (1) on the configured authority, (2) on an authority started with
// enableAdmin on the same database (first start: the provisioners are migrated through
// ProvisionerToLinkedca / claimsToLinkedca and loaded back through claimsToCertificates), and (3)
// after a restart of that authority (the database is now the source of truth). The model computes the
// effective flags of each phase (`effective`, `migrateClaims`) and the gate decision.
// Two lines per renewal: mode=coded (model of the conversion as coded) and mode=spec (the flags the
// operator configured must keep their effect).
package main

import (
	"context"
	"crypto/ecdsa"
	"crypto/elliptic"
	"crypto/rand"
	"crypto/x509"
	"encoding/hex"
	"encoding/json"
	"flag"
	"fmt"
	"io"
	"log"
	"os"
	"strings"
	"time"

	"github.com/smallstep/linkedca"
	"go.step.sm/crypto/jose"

	"github.com/smallstep/certificates/authority/config"
	"github.com/smallstep/certificates/authority/provisioner"
	"verif/harness/common"
	"verif/harness/fixture"
)

type Case struct {
	GD string `json:"gd"` // global disableRenewal: - | 0 | 1
	GA string `json:"ga"` // global allowRenewalAfterExpiry
	PC string `json:"pc"` // provisioner claims: nil | <d><a> with d, a in - 0 1
}

const provName = "m"

func tri(s string) *bool {
	switch s {
	case "0":
		b := false
		return &b
	case "1":
		b := true
		return &b
	}
	return nil
}

type prepared struct {
	c        Case
	ca       *fixture.CA
	valid    *x509.Certificate
	expiring *x509.Certificate
	mkProv   func() *provisioner.JWK
	key      *jose.JSONWebKey
	err      string
}

func newKey() *jose.JSONWebKey {
	k, err := jose.GenerateJWK("EC", "P-256", "ES256", "sig", "", 0)
	if err != nil {
		panic(err)
	}
	k.KeyID, _ = jose.Thumbprint(k)
	return k
}

var counter int

func issue(ca *fixture.CA, key *jose.JSONWebKey, expiring bool) (*x509.Certificate, error) {
	counter++
	name := fmt.Sprintf("m%d.c09.test", counter)
	tok, err := ca.Token(fixture.TokenOpts{Subject: name, SANs: []string{name}, Issuer: provName, Key: key})
	if err != nil {
		return nil, err
	}
	csr, _, err := fixture.CSR(name, []string{name})
	if err != nil {
		return nil, err
	}
	var so provisioner.SignOptions
	if expiring {
		now := time.Now()
		so.NotBefore = provisioner.NewTimeDuration(now.Add(-time.Hour))
		so.NotAfter = provisioner.NewTimeDuration(now.Add(1500 * time.Millisecond))
	}
	chain, err := ca.SignX509(tok, csr, so)
	if err != nil {
		return nil, err
	}
	return chain[0], nil
}

func prepare(c Case) prepared {
	key := newKey()
	pub := key.Public()
	var pc *provisioner.Claims
	if c.PC != "nil" {
		pc = &provisioner.Claims{DisableRenewal: tri(c.PC[0:1]), AllowRenewalAfterExpiry: tri(c.PC[1:2])}
	}
	var global *provisioner.Claims
	if c.GD != "-" || c.GA != "-" {
		global = &provisioner.Claims{DisableRenewal: tri(c.GD), AllowRenewalAfterExpiry: tri(c.GA)}
	}
	mk := func() *provisioner.JWK {
		return &provisioner.JWK{Type: "JWK", Name: provName, Key: &pub, Claims: pc}
	}
	ca, err := fixture.New(fixture.Opts{Claims: global, Provisioners: provisioner.List{mk()}})
	if err != nil {
		return prepared{c: c, err: "authority"}
	}
	p := prepared{c: c, ca: ca, mkProv: mk, key: key}
	if p.valid, err = issue(ca, key, false); err != nil {
		p.err = "sign"
		return p
	}
	for try := 0; try < 4; try++ { // a loaded machine may miss the 1.5 s window: retry, never guess
		if p.expiring, err = issue(ca, key, true); err == nil {
			break
		}
	}
	return p
}

func classify(err error) string {
	if err == nil {
		return "allow"
	}
	m := err.Error()
	switch {
	case strings.Contains(m, "certificate has been revoked"):
		return "refuse:revoked"
	case strings.Contains(m, "provisioner not found"):
		return "refuse:notfound"
	case strings.Contains(m, "disabled due to an initialization error"):
		return "refuse:uninitialized"
	case strings.Contains(m, "renew is disabled"):
		return "refuse:disabled"
	case strings.Contains(m, "not yet valid"):
		return "refuse:notyetvalid"
	case strings.Contains(m, "certificate expired"):
		return "refuse:expired"
	}
	return "refuse:other"
}

func renew(ca *fixture.CA, cert *x509.Certificate, rekey bool) (out string, exp, stable bool) {
	clock := func() bool { return time.Now().Truncate(time.Second).After(cert.NotAfter) }
	exp = clock()
	func() {
		defer func() {
			if r := recover(); r != nil {
				out = "crash"
			}
		}()
		var err error
		if rekey {
			k, _ := ecdsa.GenerateKey(elliptic.P256(), rand.Reader)
			_, err = ca.Auth.Rekey(cert, k.Public())
		} else {
			_, err = ca.Auth.Renew(cert)
		}
		out = classify(err)
	}()
	return out, exp, exp == clock()
}

// adminPhases drives what an operator does through the admin API once the provisioners live in the
// database: the provisioner's renewal claims are changed with Authority.UpdateProvisioner (linkedca
// form -> ProvisionerToCertificates -> collection update), then it is renamed, then removed with
// Authority.RemoveProvisioner. A certificate issued before the migration (its database record names
// the ca.json id, which no longer resolves) and one issued after it (record names the database id)
// are renewed after each step. These are plain gate lines.
func adminPhases(out *common.Out, p prepared, ca *fixture.CA) *fixture.CA {
	js, _ := json.Marshal(p.c)
	tail := " case=x" + hex.EncodeToString(js)
	ctx := context.Background()
	adb := ca.Auth.GetAdminDatabase()
	if adb == nil {
		out.Case("gate mode=coded op=renew rev=no db=gone ext=gone nyv=0 exp=0 phase=admin"+tail, "setup-failed:noadmindb")
		return ca
	}
	provs, err := adb.GetProvisioners(ctx)
	var lp *linkedca.Provisioner
	for _, x := range provs {
		if x.Name == provName {
			lp = x
		}
	}
	if err != nil || lp == nil {
		out.Case("gate mode=coded op=renew rev=no db=gone ext=gone nyv=0 exp=0 phase=admin"+tail, "setup-failed:noprov")
		return ca
	}
	after, err := issue(ca, p.key, false)
	if err != nil {
		out.Case("gate mode=coded op=renew rev=no db=gone ext=gone nyv=0 exp=0 phase=admin"+tail, "setup-failed:sign-after-migration")
		return ca
	}
	renewBoth := func(phase, dbOld, dbNew, ext string) {
		for k, cert := range []*x509.Certificate{p.valid, p.expiring, after} {
			if cert == nil {
				continue
			}
			res, exp, stable := renew(ca, cert, k == 1)
			if !stable {
				continue
			}
			dbf := dbOld
			if cert == after {
				dbf = dbNew
			}
			op := "renew"
			if k == 1 {
				op = "rekey"
			}
			out.Case(fmt.Sprintf("gate mode=coded op=%s rev=no db=%s ext=%s nyv=0 exp=%s phase=%s%s", op, dbf, ext, common.B(exp), phase, tail), res)
		}
	}
	// 1. flip the flags through the admin API
	cur := lp.Claims != nil && lp.Claims.DisableRenewal
	if lp.Claims == nil {
		lp.Claims = &linkedca.Claims{}
	}
	lp.Claims.DisableRenewal, lp.Claims.AllowRenewalAfterExpiry = !cur, true
	if err := ca.Auth.UpdateProvisioner(ctx, lp); err != nil {
		out.Case("gate mode=coded op=renew rev=no db=gone ext=gone nyv=0 exp=0 phase=admin"+tail, "setup-failed:update")
		return ca
	}
	ctl := fmt.Sprintf("ctl:%s1n", common.B(!cur))
	renewBoth("updated", "gone", ctl, ctl)
	// 1b. an update that carries no claims object: the provisioner falls back to the authority-level
	// claims - now, and after a restart (what the admin database stored is what is loaded back)
	lp.Claims = nil
	if err := ca.Auth.UpdateProvisioner(ctx, lp); err != nil {
		out.Case("gate mode=coded op=renew rev=no db=gone ext=gone nyv=0 exp=0 phase=admin"+tail, "setup-failed:update-noclaims")
		return ca
	}
	gctl := fmt.Sprintf("ctl:%s%sn", common.B(p.c.GD == "1"), common.B(p.c.GA == "1"))
	renewBoth("unclaimed", "gone", gctl, gctl)
	if re, err := ca.Restart(); err != nil {
		out.Case("gate mode=coded op=renew rev=no db=gone ext=gone nyv=0 exp=0 phase=admin"+tail, "setup-failed:restart-after-update")
		return ca
	} else {
		ca = re
	}
	renewBoth("unclaimed-restarted", "gone", gctl, gctl)
	// 2. and back, plus a rename: the record (id) still resolves, the extension (name) no longer does
	lp.Claims = &linkedca.Claims{DisableRenewal: cur, AllowRenewalAfterExpiry: false}
	lp.Name = provName + "-renamed"
	if err := ca.Auth.UpdateProvisioner(ctx, lp); err != nil {
		out.Case("gate mode=coded op=renew rev=no db=gone ext=gone nyv=0 exp=0 phase=admin"+tail, "setup-failed:rename")
		return ca
	}
	ctl = fmt.Sprintf("ctl:%s0n", common.B(cur))
	renewBoth("renamed", "gone", ctl, "gone")
	// 3. remove it
	if err := ca.Auth.RemoveProvisioner(ctx, lp.Id); err != nil {
		out.Case("gate mode=coded op=renew rev=no db=gone ext=gone nyv=0 exp=0 phase=admin"+tail, "setup-failed:remove")
		return ca
	}
	renewBoth("removed", "gone", "gone", "gone")
	return ca
}

func fixedCases() []Case {
	var cs []Case
	tris := []string{"-", "0", "1"}
	// provisioner flags first, under default globals; then the globals
	for _, gd := range tris {
		for _, ga := range tris {
			cs = append(cs, Case{GD: gd, GA: ga, PC: "nil"})
			for _, d := range tris {
				for _, a := range tris {
					cs = append(cs, Case{GD: gd, GA: ga, PC: d + a})
				}
			}
		}
	}
	return cs
}

func main() {
	n := flag.Int("n", 0, "number of configurations (0 = all 90)")
	outp := flag.String("out", "", "output file")
	replay := flag.String("replay", "", "file with lines carrying case=x<hex json>")
	flag.Parse()
	log.SetOutput(io.Discard)
	if *outp == "" {
		fmt.Fprintln(os.Stderr, "need -out")
		os.Exit(2)
	}
	out, err := common.NewOut(*outp)
	if err != nil {
		panic(err)
	}
	defer out.Close()
	var cases []Case
	if *replay != "" {
		data, err := os.ReadFile(*replay)
		if err != nil {
			panic(err)
		}
		seen := map[string]bool{}
		for _, l := range strings.Split(string(data), "\n") {
			i := strings.Index(l, "case=x")
			if i < 0 {
				continue
			}
			h := strings.Fields(l[i+6:])[0]
			if seen[h] {
				continue
			}
			seen[h] = true
			js, err := hex.DecodeString(h)
			if err != nil {
				continue
			}
			var c Case
			if json.Unmarshal(js, &c) == nil {
				cases = append(cases, c)
			}
		}
	} else {
		all := fixedCases()
		if *n > 0 && *n < len(all) {
			// a seed-dependent sample, the corner the property speaks about always included
			r := common.NewRng(common.Seed())
			must := map[string]bool{"--10": true, "--1-": true, "--01": true, "--nil": true, "1---": true, "1-nil": true, "-1--": true}
			for _, c := range all {
				if must[c.GD+c.GA+c.PC] {
					cases = append(cases, c)
				}
			}
			for len(cases) < *n {
				c := common.Pick(r, all)
				cases = append(cases, c)
			}
		} else {
			cases = all
		}
	}

	// phase 0: configure, issue
	var preps []prepared
	for _, c := range cases {
		preps = append(preps, prepare(c))
	}
	time.Sleep(3200 * time.Millisecond)
	skipped := 0
	emit := func(p prepared, phase string, ca *fixture.CA) {
		js, _ := json.Marshal(p.c)
		tail := " case=x" + hex.EncodeToString(js)
		for k, cert := range []*x509.Certificate{p.valid, p.expiring} {
			if cert == nil {
				skipped++
				continue
			}
			rekey := k == 1 && phase != "config"
			res, exp, stable := renew(ca, cert, rekey)
			if !stable {
				skipped++
				continue
			}
			line := fmt.Sprintf("phase=%s gd=%s ga=%s pc=%s exp=%s%s", phase, p.c.GD, p.c.GA, p.c.PC, common.B(exp), tail)
			out.Case("mig mode=coded "+line, res)
			cls := res
			if i := strings.Index(cls, ":"); i >= 0 {
				cls = cls[:i]
			}
			out.Case("mig mode=spec "+line, cls)
		}
	}
	for _, p := range preps {
		js, _ := json.Marshal(p.c)
		if p.err != "" {
			out.Case("mig mode=coded phase=setup gd="+p.c.GD+" ga="+p.c.GA+" pc="+p.c.PC+" exp=0 case=x"+hex.EncodeToString(js), "setup-failed:"+p.err)
			if p.ca != nil {
				p.ca.Close()
			}
			continue
		}
		emit(p, "config", p.ca)
		// first start with enableAdmin on the same database: migration
		dir := p.ca.DBDir
		if err := p.ca.Auth.Shutdown(); err != nil {
			out.Case("mig mode=coded phase=setup gd="+p.c.GD+" ga="+p.c.GA+" pc="+p.c.PC+" exp=0 case=x"+hex.EncodeToString(js), "setup-failed:shutdown")
			continue
		}
		var global *provisioner.Claims
		if p.c.GD != "-" || p.c.GA != "-" {
			global = &provisioner.Claims{DisableRenewal: tri(p.c.GD), AllowRenewalAfterExpiry: tri(p.c.GA)}
		}
		mig, err := fixture.New(fixture.Opts{DBDir: dir, From: p.ca, Claims: global, Provisioners: provisioner.List{p.mkProv()},
			Config: func(c *config.Config) { c.AuthorityConfig.EnableAdmin = true }})
		if err != nil {
			out.Case("mig mode=coded phase=setup gd="+p.c.GD+" ga="+p.c.GA+" pc="+p.c.PC+" exp=0 case=x"+hex.EncodeToString(js), "setup-failed:migrate")
			os.RemoveAll(dir)
			continue
		}
		emit(p, "migrated", mig)
		re, err := mig.Restart()
		if err != nil {
			out.Case("mig mode=coded phase=setup gd="+p.c.GD+" ga="+p.c.GA+" pc="+p.c.PC+" exp=0 case=x"+hex.EncodeToString(js), "setup-failed:restart")
			os.RemoveAll(dir)
			continue
		}
		emit(p, "restarted", re)
		re = adminPhases(out, p, re)
		re.Auth.Shutdown()
		os.RemoveAll(dir)
	}
	if skipped > 0 {
		fmt.Printf("skipped %d renewals (certificate not issued in time or clock crossed expiry during the call)\n", skipped)
	}
}
