package main

import (
	"bytes"
	"context"
	"crypto"
	"crypto/ecdsa"
	"crypto/elliptic"
	"crypto/rand"
	"crypto/rsa"
	"crypto/sha256"
	"crypto/x509"
	"crypto/x509/pkix"
	"encoding/base64"
	"encoding/hex"
	"encoding/json"
	"encoding/pem"
	"fmt"
	"go.step.sm/crypto/minica"
	"math/big"
	"net/http"
	"net/http/httptest"
	"os"
	"path/filepath"
	"strings"
	"sync"
	"time"

	"go.step.sm/crypto/jose"
	"go.step.sm/crypto/randutil"
	"golang.org/x/crypto/ssh"

	"github.com/smallstep/certificates/authority"
	"github.com/smallstep/certificates/authority/config"
	"github.com/smallstep/certificates/authority/provisioner"
	"github.com/smallstep/certificates/db"
	"verif/harness/cmd/c02/ss"
	"verif/harness/fixture"
)

// env is one CA (and its successors after restarts) with three provisioners:
// "jwk" (fixture default), "jwk2" (another JWK key) and "k8s" (K8sSA with one public key).
type env struct {
	ca    *fixture.CA
	hasDB bool
	noChk bool
	// admin: ca.json says enableAdmin. The first start migrates the provisioners of the configuration into the admin
	// database (ProvisionerToLinkedca, CreateProvisioner) and creates the super admin "step" of the first JWK provisioner;
	// every start then loads them from there (ProvisionerToCertificates). Needs the database; without the cloud
	// provisioners (their loopback key-server override lives in the configured object, not in its stored form).
	admin  bool
	hooks  *ss.Hooks
	jwk2   *jose.JSONWebKey
	k8sKey *ecdsa.PrivateKey
	provs  provisioner.List
	// OIDC issuer on loopback (discovery + JWKS), provisioner "oidc" (the id of a token is its nonce)
	oidcKey *jose.JSONWebKey
	oidcSrv *httptest.Server
	// a certificate of the CA and its key: signs admin (x5c) and renew (x5cInsecure) tokens
	leaf    *x509.Certificate
	leafKey crypto.Signer
	// certificates of the CA as other provisioner types would have issued them (provisioner extension naming that
	// provisioner; "noext": no extension), all with the key leafKey: renew tokens of such certificates
	leafBy map[string]*x509.Certificate
	// AWS: the key and certificate (crypto/rsa, a PEM file named by iidRoots) that sign instance identity documents for the
	// provisioners "awst" (trust on first use: the id is the instance) and "awsr" (disabled: the id is the hash of the token)
	awsKey *rsa.PrivateKey
	// X5C: a root of the harness (the provisioner's roots), a client certificate under it and its key: sign x5c tokens (provisioner "x5c")
	x5cChain []string
	x5cKey   crypto.Signer
	// an SSH host certificate of the CA and its key: signs SSHPOP tokens (provisioner "sshpop")
	sshCert *ssh.Certificate
	sshKey  *ecdsa.PrivateKey
}

var (
	x5cOnce    sync.Once
	x5cCA      *minica.CA
	x5cLeaf    *x509.Certificate
	x5cLeafKey *ecdsa.PrivateKey
	awsOnce    sync.Once
	awsKey     *rsa.PrivateKey
	awsDir     string // removed by main when the stage ends
)

const oidcClient = "verif-client"
const oidcAdmin = "admin@example.com"

func must[T any](v T, err error) T {
	if err != nil {
		panic(err)
	}
	return v
}

func newEnv(hasDB, noChk bool, hooks *ss.Hooks) *env { return newEnvAdmin(hasDB, noChk, false, hooks) }

func newEnvAdmin(hasDB, noChk, admin bool, hooks *ss.Hooks) *env {
	e := &env{hasDB: hasDB, noChk: noChk, hooks: hooks, admin: admin && hasDB}
	e.jwk2 = must(jose.GenerateJWK("EC", "P-256", "ES256", "sig", "", 0))
	e.jwk2.KeyID = must(jose.Thumbprint(e.jwk2))
	pub2 := e.jwk2.Public()
	e.k8sKey = must(ecdsa.GenerateKey(elliptic.P256(), rand.Reader))
	der := must(x509.MarshalPKIXPublicKey(&e.k8sKey.PublicKey))
	e.oidcKey = must(jose.GenerateJWK("EC", "P-256", "ES256", "sig", "", 0))
	e.oidcKey.KeyID = "oidc-key-1"
	mux := http.NewServeMux()
	e.oidcSrv = httptest.NewServer(mux)
	mux.HandleFunc("/.well-known/openid-configuration", func(w http.ResponseWriter, _ *http.Request) {
		json.NewEncoder(w).Encode(map[string]any{"issuer": e.oidcSrv.URL, "jwks_uri": e.oidcSrv.URL + "/keys",
			"authorization_endpoint": e.oidcSrv.URL + "/auth", "token_endpoint": e.oidcSrv.URL + "/token"})
	})
	mux.HandleFunc("/keys", func(w http.ResponseWriter, _ *http.Request) {
		json.NewEncoder(w).Encode(jose.JSONWebKeySet{Keys: []jose.JSONWebKey{e.oidcKey.Public()}})
	})
	// cloud identity provisioners stood up against the same loopback key server (hooks of build tag verif in
	// /repo/authority/provisioner: VerifSetAzureDiscoveryURL, VerifSetGCPCertsURL): Azure and GCP, each with trust on
	// first use (the token id is the instance) and with it disabled (Azure: reuse allowed; GCP: id = hash of the token)
	azt := &provisioner.Azure{Type: "Azure", Name: "azt", TenantID: "tenant-tofu"}
	azr := &provisioner.Azure{Type: "Azure", Name: "azr", TenantID: "tenant-reuse", DisableTrustOnFirstUse: true}
	gcpt := &provisioner.GCP{Type: "GCP", Name: "gcpt"}
	gcpr := &provisioner.GCP{Type: "GCP", Name: "gcpr", DisableTrustOnFirstUse: true}
	provisioner.VerifSetAzureDiscoveryURL(azt, e.oidcSrv.URL+"/.well-known/openid-configuration")
	provisioner.VerifSetAzureDiscoveryURL(azr, e.oidcSrv.URL+"/.well-known/openid-configuration")
	provisioner.VerifSetGCPCertsURL(gcpt, e.oidcSrv.URL+"/keys")
	provisioner.VerifSetGCPCertsURL(gcpr, e.oidcSrv.URL+"/keys")
	// AWS instance identity documents signed by a key of this harness (iidRoots names the certificate); one key per process
	awsOnce.Do(func() {
		awsKey = must(rsa.GenerateKey(rand.Reader, 2048))
		awsDir = must(os.MkdirTemp("", "verif-c02-aws-"))
		awsTpl := &x509.Certificate{SerialNumber: big.NewInt(1), Subject: pkix.Name{CommonName: "verif iid"}, NotBefore: time.Now().Add(-time.Hour), NotAfter: time.Now().Add(240 * time.Hour)}
		awsDER := must(x509.CreateCertificate(rand.Reader, awsTpl, awsTpl, &awsKey.PublicKey, awsKey))
		if err := os.WriteFile(filepath.Join(awsDir, "iid.pem"), pem.EncodeToMemory(&pem.Block{Type: "CERTIFICATE", Bytes: awsDER}), 0o600); err != nil {
			panic(err)
		}
	})
	e.awsKey = awsKey
	iid := filepath.Join(awsDir, "iid.pem")
	awst := &provisioner.AWS{Type: "AWS", Name: "awst", Accounts: []string{"123456789012"}, IIDRoots: iid}
	awsr := &provisioner.AWS{Type: "AWS", Name: "awsr", Accounts: []string{"123456789012"}, IIDRoots: iid, DisableTrustOnFirstUse: true}
	// X5C: tokens signed by a certificate under a root of the harness's own
	x5cOnce.Do(func() {
		x5cCA = must(minica.New(minica.WithName("VerifX5C")))
		x5cLeafKey = must(ecdsa.GenerateKey(elliptic.P256(), rand.Reader))
		tpl := &x509.Certificate{Subject: pkix.Name{CommonName: "x5c-client"}, DNSNames: []string{"x5c-client.example.com"}, KeyUsage: x509.KeyUsageDigitalSignature,
			ExtKeyUsage: []x509.ExtKeyUsage{x509.ExtKeyUsageClientAuth}, PublicKey: x5cLeafKey.Public()}
		x5cLeaf = must(x5cCA.Sign(tpl))
	})
	e.x5cKey = x5cLeafKey
	e.x5cChain = []string{base64.StdEncoding.EncodeToString(x5cLeaf.Raw), base64.StdEncoding.EncodeToString(x5cCA.Intermediate.Raw)}
	yesSSH := true
	x5cProv := &provisioner.X5C{Type: "X5C", Name: "x5c", Roots: pem.EncodeToMemory(&pem.Block{Type: "CERTIFICATE", Bytes: x5cCA.Root.Raw}), Claims: &provisioner.Claims{EnableSSHCA: &yesSSH}}
	e.provs = provisioner.List{
		azt, azr, gcpt, gcpr, awst, awsr, x5cProv,
		&provisioner.ACME{Type: "ACME", Name: "acme"},
		&provisioner.SSHPOP{Type: "SSHPOP", Name: "sshpop"},
		&provisioner.OIDC{Type: "OIDC", Name: "oidc", ClientID: oidcClient,
			ConfigurationEndpoint: e.oidcSrv.URL + "/.well-known/openid-configuration", Admins: []string{oidcAdmin}},
		&provisioner.JWK{Type: "JWK", Name: "jwk2", Key: &pub2},
		&provisioner.K8sSA{Type: "K8sSA", Name: "k8s", PubKeys: pem.EncodeToMemory(&pem.Block{Type: "PUBLIC KEY", Bytes: der})},
	}
	if e.admin {
		e.provs = e.provs[6:]
	}
	e.ca = must(fixture.New(e.opts(nil)))
	cn := "step-" + randHex()
	sans := []string{cn + ".example.com"}
	if e.admin {
		sans = append(sans, "step") // the certificate of the super admin the migration created
	}
	csr, key, err := fixture.CSR(cn, sans)
	if err != nil {
		panic(err)
	}
	e.leaf = must(e.ca.SignX509(must(e.ca.Token(fixture.TokenOpts{Subject: cn, SANs: sans})), csr, provisioner.SignOptions{}))[0]
	e.leafKey = key
	e.leafBy = map[string]*x509.Certificate{}
	for name, typ := range map[string]provisioner.Type{"acme": provisioner.TypeACME, "k8s": provisioner.TypeK8sSA, "azt": provisioner.TypeAzure,
		"azr": provisioner.TypeAzure, "gcpt": provisioner.TypeGCP, "gcpr": provisioner.TypeGCP, "oidc": provisioner.TypeOIDC, "noext": 0} {
		tpl := &x509.Certificate{SerialNumber: new(big.Int).SetBytes(must(randutil.Salt(14))), Subject: pkix.Name{CommonName: cn}, DNSNames: []string{cn + ".example.com"},
			NotBefore: time.Now().Add(-time.Minute), NotAfter: time.Now().Add(24 * time.Hour), KeyUsage: x509.KeyUsageDigitalSignature,
			ExtKeyUsage: []x509.ExtKeyUsage{x509.ExtKeyUsageServerAuth, x509.ExtKeyUsageClientAuth}}
		if name != "noext" {
			tpl.ExtraExtensions = []pkix.Extension{must((&provisioner.Extension{Type: typ, Name: name}).ToExtension())}
		}
		der := must(x509.CreateCertificate(rand.Reader, tpl, e.ca.MiniCA.Intermediate, key.Public(), e.ca.MiniCA.Signer))
		e.leafBy[name] = must(x509.ParseCertificate(der))
	}
	// SSH host certificate through the real SSH sign flow (JWK token with step.ssh options)
	name := "h" + randHex() + ".example.com"
	e.sshKey = must(ecdsa.GenerateKey(elliptic.P256(), rand.Reader))
	pub := must(ssh.NewPublicKey(&e.sshKey.PublicKey))
	stok := must(e.ca.Token(fixture.TokenOpts{Subject: name, Audience: fixture.Audience("/1.0/ssh/sign"), NoSANs: true,
		Extra: map[string]any{"step": map[string]any{"ssh": map[string]any{"certType": "host", "keyID": name, "principals": []string{name}}}}}))
	sctx := methodCtx(e.ca.Auth, "sshsign", false)
	e.sshCert = must(e.ca.Auth.SignSSH(sctx, pub, provisioner.SignSSHOptions{CertType: "host", KeyID: name, Principals: []string{name}}, must(e.ca.Auth.Authorize(sctx, stok))...))
	return e
}

// mintHdr signs claims with extra protected headers (x5c / x5cInsecure certificate chains).
func mintHdr(key any, alg string, hdr map[string]any, claims map[string]any) string {
	so := new(jose.SignerOptions).WithType("JWT")
	for k, v := range hdr {
		so = so.WithHeader(jose.HeaderKey(k), v)
	}
	sig := must(jose.NewSigner(jose.SigningKey{Algorithm: jose.SignatureAlgorithm(alg), Key: key}, so))
	return must(jose.Signed(sig).Claims(claims).CompactSerialize())
}

// awsToken: what `step ca token --aws`-style clients send: a JWT signed (HS256) with the identity document's signature as key,
// carrying the document and its signature
func (e *env) awsToken(prov, instance string, claims map[string]any, badDoc bool) string {
	doc := must(json.Marshal(map[string]any{"accountId": "123456789012", "instanceId": instance, "privateIp": "10.0.0.7", "region": "us-east-1",
		"pendingTime": time.Now().Add(-time.Hour).UTC().Format(time.RFC3339), "version": "2017-09-30"}))
	h := sha256.Sum256(doc)
	sig := must(rsa.SignPKCS1v15(rand.Reader, e.awsKey, crypto.SHA256, h[:]))
	if badDoc {
		doc = bytes.Replace(doc, []byte("10.0.0.7"), []byte("10.0.0.8"), 1) // the signature no longer covers the document
	}
	if _, ok := claims["iss"]; !ok {
		claims["iss"] = "ec2.amazonaws.com"
	}
	claims["aud"] = "https://ca.verif.test/1.0/sign#aws/" + prov
	claims["amazon"] = map[string]any{"document": doc, "signature": sig}
	signer := must(jose.NewSigner(jose.SigningKey{Algorithm: jose.HS256, Key: sig}, new(jose.SignerOptions).WithType("JWT")))
	return must(jose.Signed(signer).Claims(claims).CompactSerialize())
}

func (e *env) chain() []string { return e.chainOf("") }

// chainOf: the certificate issued by provisioner `issuer` ("" = the jwk-issued leaf) and the intermediate
func (e *env) chainOf(issuer string) []string {
	leaf := e.leaf
	if c, ok := e.leafBy[issuer]; ok {
		leaf = c
	}
	return []string{base64.StdEncoding.EncodeToString(leaf.Raw), base64.StdEncoding.EncodeToString(e.ca.MiniCA.Intermediate.Raw)}
}

func (e *env) opts(from *fixture.CA) fixture.Opts {
	yes := true
	o := fixture.Opts{Provisioners: e.provs, From: from, SSH: true, JWKClaims: &provisioner.Claims{EnableSSHCA: &yes}}
	noChk, admin := e.noChk, e.admin
	o.Config = func(c *config.Config) {
		c.AuthorityConfig.DisableIssuedAtCheck = noChk
		c.AuthorityConfig.EnableAdmin = admin
	}
	if e.hasDB {
		o.WrapDB = ss.Wrap(e.hooks)
		if from != nil {
			o.DBDir = from.DBDir
		}
	} else {
		// the real SimpleDB (db.New(nil) is what the authority itself calls when no database is
		// configured), wrapped only to observe / park its UseToken calls; a new one per process
		o.NoDB = true
		o.Extra = []authority.Option{authority.WithDatabase(ss.Wrap(e.hooks)(must(db.New(nil))))}
	}
	return o
}

// restart stops the authority and starts a new one: same keys, same bbolt file (if any),
// fresh process memory. Returns the new start second.
func (e *env) restart() int64 {
	if e.hasDB {
		e.ca = must(e.ca.Restart())
	} else {
		if err := e.ca.Auth.Shutdown(); err != nil {
			panic(err)
		}
		e.ca = must(fixture.New(e.opts(e.ca)))
	}
	return e.startSec()
}

func (e *env) startSec() int64 { return e.ca.Auth.GetInfo().StartTime.Unix() }

func (e *env) close() {
	e.ca.Close()
	if e.oidcSrv != nil {
		e.oidcSrv.Close()
	}
}

// mint signs arbitrary claims with the given key (typ JWT, kid header).
func mint(key any, alg, kid string, claims map[string]any) string {
	so := new(jose.SignerOptions).WithType("JWT")
	if kid != "" {
		so = so.WithHeader("kid", kid)
	}
	sig := must(jose.NewSigner(jose.SigningKey{Algorithm: jose.SignatureAlgorithm(alg), Key: key}, so))
	return must(jose.Signed(sig).Claims(claims).CompactSerialize())
}

func sha256hex(s string) string {
	sum := sha256.Sum256([]byte(s))
	return hex.EncodeToString(sum[:])
}

// payloadSha is what Authority.UseToken (reuseKeyMaterial, since c4bb6a3) hashes for a token without id: the
// signed payload when the string parses as a JWS (compact or JSON serialization), else the string itself.
func payloadSha(presented string) string {
	if jws, err := jose.ParseJWS(presented); err == nil {
		if p := jws.UnsafePayloadWithoutVerification(); len(p) > 0 {
			sum := sha256.Sum256(p)
			return hex.EncodeToString(sum[:])
		}
	}
	return sha256hex(presented)
}

func randHex() string { return must(randutil.Hex(16)) }

func spell(tok string, i int) string {
	switch i {
	case 1:
		return tok + "\n"
	case 2:
		return " " + tok
	case 3:
		return tok + "="
	case 4, 5:
		// flattened JSON serialization of the same signed content, with an unprotected header the signature does not cover
		p := strings.Split(tok, ".")
		if len(p) != 3 {
			return tok
		}
		return fmt.Sprintf(`{"protected":"%s","header":{"v":%d},"payload":"%s","signature":"%s"}`, p[0], i, p[1], p[2])
	case 6:
		// ECDSA malleability: (r, n-s) verifies wherever (r, s) does
		p := strings.Split(tok, ".")
		if len(p) != 3 {
			return tok
		}
		sig, err := base64.RawURLEncoding.DecodeString(p[2])
		if err != nil || len(sig) != 64 {
			return tok
		}
		n := elliptic.P256().Params().N
		s2 := new(big.Int).Sub(n, new(big.Int).SetBytes(sig[32:]))
		out := append(append([]byte{}, sig[:32]...), s2.FillBytes(make([]byte, 32))...)
		return p[0] + "." + p[1] + "." + base64.RawURLEncoding.EncodeToString(out)
	}
	return tok
}

func methodCtx(a *authority.Authority, method string, skip bool) context.Context {
	ctx := authority.NewContext(context.Background(), a)
	m := provisioner.SignMethod
	switch method {
	case "revoke":
		m = provisioner.RevokeMethod
	case "signid":
		m = provisioner.SignIdentityMethod
	case "sshsign":
		m = provisioner.SSHSignMethod
	case "sshrenew":
		m = provisioner.SSHRenewMethod
	case "sshrekey":
		m = provisioner.SSHRekeyMethod
	case "sshrevoke":
		m = provisioner.SSHRevokeMethod
	}
	ctx = provisioner.NewContextWithMethod(ctx, m)
	if skip {
		ctx = authority.NewContextWithSkipTokenReuse(ctx)
	}
	return ctx
}

var _ = time.Now
