package main

import (
	"context"
	"crypto"
	"crypto/ecdsa"
	"crypto/elliptic"
	"crypto/rand"
	"crypto/sha256"
	"crypto/x509"
	"encoding/base64"
	"encoding/hex"
	"encoding/json"
	"encoding/pem"
	"net/http"
	"net/http/httptest"
	"time"

	"go.step.sm/crypto/jose"
	"go.step.sm/crypto/randutil"
	"golang.org/x/crypto/ssh"

	"github.com/smallstep/certificates/authority"
	"github.com/smallstep/certificates/authority/config"
	"github.com/smallstep/certificates/authority/provisioner"
	"github.com/smallstep/certificates/db"
	"verif/harness/cmd/c02/ss"
	"verif/harness/fixture"
)

// env is one CA (and its successors after restarts) with three provisioners:
// "jwk" (fixture default), "jwk2" (another JWK key) and "k8s" (K8sSA with one public key).
type env struct {
	ca     *fixture.CA
	hasDB  bool
	noChk  bool
	hooks  *ss.Hooks
	jwk2   *jose.JSONWebKey
	k8sKey *ecdsa.PrivateKey
	provs  provisioner.List
	// OIDC issuer on loopback (discovery + JWKS), provisioner "oidc" (the id of a token is its nonce)
	oidcKey *jose.JSONWebKey
	oidcSrv *httptest.Server
	// a certificate of the CA and its key: signs admin (x5c) and renew (x5cInsecure) tokens
	leaf    *x509.Certificate
	leafKey crypto.Signer
	// an SSH host certificate of the CA and its key: signs SSHPOP tokens (provisioner "sshpop")
	sshCert *ssh.Certificate
	sshKey  *ecdsa.PrivateKey
}

const oidcClient = "verif-client"
const oidcAdmin = "admin@example.com"

func must[T any](v T, err error) T {
	if err != nil {
		panic(err)
	}
	return v
}

func newEnv(hasDB, noChk bool, hooks *ss.Hooks) *env {
	e := &env{hasDB: hasDB, noChk: noChk, hooks: hooks}
	e.jwk2 = must(jose.GenerateJWK("EC", "P-256", "ES256", "sig", "", 0))
	e.jwk2.KeyID = must(jose.Thumbprint(e.jwk2))
	pub2 := e.jwk2.Public()
	e.k8sKey = must(ecdsa.GenerateKey(elliptic.P256(), rand.Reader))
	der := must(x509.MarshalPKIXPublicKey(&e.k8sKey.PublicKey))
	e.oidcKey = must(jose.GenerateJWK("EC", "P-256", "ES256", "sig", "", 0))
	e.oidcKey.KeyID = "oidc-key-1"
	mux := http.NewServeMux()
	e.oidcSrv = httptest.NewServer(mux)
	mux.HandleFunc("/.well-known/openid-configuration", func(w http.ResponseWriter, _ *http.Request) {
		json.NewEncoder(w).Encode(map[string]any{"issuer": e.oidcSrv.URL, "jwks_uri": e.oidcSrv.URL + "/keys",
			"authorization_endpoint": e.oidcSrv.URL + "/auth", "token_endpoint": e.oidcSrv.URL + "/token"})
	})
	mux.HandleFunc("/keys", func(w http.ResponseWriter, _ *http.Request) {
		json.NewEncoder(w).Encode(jose.JSONWebKeySet{Keys: []jose.JSONWebKey{e.oidcKey.Public()}})
	})
	e.provs = provisioner.List{
		&provisioner.SSHPOP{Type: "SSHPOP", Name: "sshpop"},
		&provisioner.OIDC{Type: "OIDC", Name: "oidc", ClientID: oidcClient,
			ConfigurationEndpoint: e.oidcSrv.URL + "/.well-known/openid-configuration", Admins: []string{oidcAdmin}},
		&provisioner.JWK{Type: "JWK", Name: "jwk2", Key: &pub2},
		&provisioner.K8sSA{Type: "K8sSA", Name: "k8s", PubKeys: pem.EncodeToMemory(&pem.Block{Type: "PUBLIC KEY", Bytes: der})},
	}
	e.ca = must(fixture.New(e.opts(nil)))
	cn := "step-" + randHex()
	csr, key, err := fixture.CSR(cn, []string{cn + ".example.com"})
	if err != nil {
		panic(err)
	}
	e.leaf = must(e.ca.SignX509(must(e.ca.Token(fixture.TokenOpts{Subject: cn, SANs: []string{cn + ".example.com"}})), csr, provisioner.SignOptions{}))[0]
	e.leafKey = key
	// SSH host certificate through the real SSH sign flow (JWK token with step.ssh options)
	name := "h" + randHex() + ".example.com"
	e.sshKey = must(ecdsa.GenerateKey(elliptic.P256(), rand.Reader))
	pub := must(ssh.NewPublicKey(&e.sshKey.PublicKey))
	stok := must(e.ca.Token(fixture.TokenOpts{Subject: name, Audience: fixture.Audience("/1.0/ssh/sign"), NoSANs: true,
		Extra: map[string]any{"step": map[string]any{"ssh": map[string]any{"certType": "host", "keyID": name, "principals": []string{name}}}}}))
	sctx := methodCtx(e.ca.Auth, "sshsign", false)
	e.sshCert = must(e.ca.Auth.SignSSH(sctx, pub, provisioner.SignSSHOptions{CertType: "host", KeyID: name, Principals: []string{name}}, must(e.ca.Auth.Authorize(sctx, stok))...))
	return e
}

// mintHdr signs claims with extra protected headers (x5c / x5cInsecure certificate chains).
func mintHdr(key any, alg string, hdr map[string]any, claims map[string]any) string {
	so := new(jose.SignerOptions).WithType("JWT")
	for k, v := range hdr {
		so = so.WithHeader(jose.HeaderKey(k), v)
	}
	sig := must(jose.NewSigner(jose.SigningKey{Algorithm: jose.SignatureAlgorithm(alg), Key: key}, so))
	return must(jose.Signed(sig).Claims(claims).CompactSerialize())
}

func (e *env) chain() []string {
	return []string{base64.StdEncoding.EncodeToString(e.leaf.Raw), base64.StdEncoding.EncodeToString(e.ca.MiniCA.Intermediate.Raw)}
}

func (e *env) opts(from *fixture.CA) fixture.Opts {
	yes := true
	o := fixture.Opts{Provisioners: e.provs, From: from, SSH: true, JWKClaims: &provisioner.Claims{EnableSSHCA: &yes}}
	if e.noChk {
		o.Config = func(c *config.Config) { c.AuthorityConfig.DisableIssuedAtCheck = true }
	}
	if e.hasDB {
		o.WrapDB = ss.Wrap(e.hooks)
		if from != nil {
			o.DBDir = from.DBDir
		}
	} else {
		// the real SimpleDB (db.New(nil) is what the authority itself calls when no database is
		// configured), wrapped only to observe / park its UseToken calls; a new one per process
		o.NoDB = true
		o.Extra = []authority.Option{authority.WithDatabase(ss.Wrap(e.hooks)(must(db.New(nil))))}
	}
	return o
}

// restart stops the authority and starts a new one: same keys, same bbolt file (if any),
// fresh process memory. Returns the new start second.
func (e *env) restart() int64 {
	if e.hasDB {
		e.ca = must(e.ca.Restart())
	} else {
		if err := e.ca.Auth.Shutdown(); err != nil {
			panic(err)
		}
		e.ca = must(fixture.New(e.opts(e.ca)))
	}
	return e.startSec()
}

func (e *env) startSec() int64 { return e.ca.Auth.GetInfo().StartTime.Unix() }

func (e *env) close() {
	e.ca.Close()
	if e.oidcSrv != nil {
		e.oidcSrv.Close()
	}
}

// mint signs arbitrary claims with the given key (typ JWT, kid header).
func mint(key any, alg, kid string, claims map[string]any) string {
	so := new(jose.SignerOptions).WithType("JWT")
	if kid != "" {
		so = so.WithHeader("kid", kid)
	}
	sig := must(jose.NewSigner(jose.SigningKey{Algorithm: jose.SignatureAlgorithm(alg), Key: key}, so))
	return must(jose.Signed(sig).Claims(claims).CompactSerialize())
}

func sha256hex(s string) string {
	sum := sha256.Sum256([]byte(s))
	return hex.EncodeToString(sum[:])
}

func randHex() string { return must(randutil.Hex(16)) }

func spell(tok string, i int) string {
	switch i {
	case 1:
		return tok + "\n"
	case 2:
		return " " + tok
	case 3:
		return tok + "="
	}
	return tok
}

func methodCtx(a *authority.Authority, method string, skip bool) context.Context {
	ctx := authority.NewContext(context.Background(), a)
	m := provisioner.SignMethod
	switch method {
	case "revoke":
		m = provisioner.RevokeMethod
	case "signid":
		m = provisioner.SignIdentityMethod
	case "sshsign":
		m = provisioner.SSHSignMethod
	case "sshrenew":
		m = provisioner.SSHRenewMethod
	case "sshrekey":
		m = provisioner.SSHRekeyMethod
	case "sshrevoke":
		m = provisioner.SSHRevokeMethod
	}
	ctx = provisioner.NewContextWithMethod(ctx, m)
	if skip {
		ctx = authority.NewContextWithSkipTokenReuse(ctx)
	}
	return ctx
}

var _ = time.Now
