package main

import (
	"encoding/base64"
	"errors"
	"fmt"
	"net/http/httptest"
	"strconv"
	"strings"
	"time"

	"verif/harness/cmd/c02/ss"
	c "verif/harness/common"
)

type TokSpec struct {
	Prov   string // azt | azr (Azure with / without trust on first use; JTI names the VM) | gcpt | gcpr (GCP likewise; JTI names the instance) | sshpop (proof-of-possession token of the CA's SSH host certificate; Aud = sshrenew | sshrekey | sshrevoke) | jwk | jwk2 | k8s | oidc (id = nonce; JTI is the nonce) | admintok (x5c admin token) | renewtok (x5cInsecure renew token)
	JTI    string // "r" = random, "R" = random and longer than 255 bytes, "-" = no jti claim, anything else = a label shared between tokens (labels starting with "long": > 255 bytes)
	IatOff int    // seconds the iat lies before the mint instant
	NoIat  bool   // no iat claim
	Defect string // "" | badsig | expired | aud | kid | garbage
	Issuer string // renewtok: the provisioner that issued the certificate the token is about ("" = jwk | acme | k8s | azt | azr | gcpt | gcpr | oidc | noext)
	Aud    string // sign | revoke | sshsign (JWK token with step.ssh options) | sshrenew | sshrekey | sshrevoke (sshpop)
}

type ReqSpec struct {
	Tok    int
	Spell  int    // 0 tok, 1 tok+"\n", 2 " "+tok, 3 tok+"="
	Method string // sign | revoke | sshsign | sshrenew | sshrekey | sshrevoke (Authority.Authorize: every method goes through authorizeToken) | admin (Authority.AuthorizeAdminToken) | renewtoken (Authority.AuthorizeRenewToken)
	Skip   bool   // authority.NewContextWithSkipTokenReuse
}

// Hist is one history: requests (threads) and a schedule. Every thread index occurs three times
// in Sched (phase A: up to the entry of db.UseToken, phase B: the UseToken call itself, phase C:
// the rest); -1 is a restart of the process.
type Hist struct {
	DB    bool
	NoChk bool // DisableIssuedAtCheck
	Admin bool // enableAdmin: provisioners migrated into and loaded from the admin database; the super admin "step" exists
	Toks  []TokSpec
	Reqs  []ReqSpec
	Sched []int
}

var errAbort = errors.New("process stopped")

type minted struct {
	str      string
	iat      int64
	hasIat   bool
	lookupOK bool
	valid    map[string]bool // per method
	idr      string          // model encoding of GetTokenID's result
	exempt   bool
}

type evt struct {
	t    int
	kind string // entry | exit | done
	ok   bool
}

func (e *env) mintTok(ts *TokSpec, jtis map[string]string) *minted {
	now := time.Now()
	iat := now.Add(-time.Duration(ts.IatOff) * time.Second)
	m := &minted{iat: iat.Unix(), hasIat: !ts.NoIat, lookupOK: true, valid: map[string]bool{}}
	jti := ts.JTI
	switch jti {
	case "r":
		jti = randHex()
	case "-":
		jti = ""
	case "R":
		jti = randHex() + strings.Repeat("r", 224+len(ts.Prov)) // a unique id of 256..262 bytes
	default:
		if v, ok := jtis[jti]; ok {
			jti = v
		} else {
			v = "shared-" + jti + "-" + randHex()
			if strings.HasPrefix(jti, "long") {
				v += strings.Repeat("n", 300) // ids beyond 255 bytes (a limit of SQL key columns) are ids all the same
			}
			jtis[jti] = v
			jti = v
		}
	}
	claims := map[string]any{"sub": "host-" + randHex() + ".example.com"}
	if jti != "" {
		claims["jti"] = jti
	}
	if !ts.NoIat {
		claims["iat"] = iat.Unix()
	}
	exp := now.Add(5 * time.Minute)
	if ts.Defect == "expired" {
		exp = now.Add(-10 * time.Minute)
	}
	allMethods := []string{"sign", "revoke", "sshsign", "sshrenew", "sshrekey", "sshrevoke"}
	switch ts.Prov {
	case "azt", "azr":
		// an Azure managed-identity token; the token id is the hash of xms_mirid (the VM), or reuse is allowed
		vm := jti
		if vm == "" {
			vm = "vm-anon"
		}
		mirid := "/subscriptions/sub1/resourceGroups/rg1/providers/Microsoft.Compute/virtualMachines/" + vm
		delete(claims, "jti")
		tenant := map[string]string{"azt": "tenant-tofu", "azr": "tenant-reuse"}[ts.Prov]
		claims["iss"], claims["aud"], claims["tid"] = e.oidcSrv.URL, "https://management.azure.com/", tenant
		claims["xms_mirid"], claims["oid"], claims["sub"] = mirid, "oid-"+vm, "sub-"+vm
		claims["nbf"], claims["exp"] = now.Add(-time.Minute).Unix(), exp.Unix()
		key := e.oidcKey.Key
		switch ts.Defect {
		case "badsig":
			key = e.jwk2.Key
		case "aud", "kid":
			claims["aud"] = "https://other.example.com/" // found through tid, refused by the validation
		}
		m.str = mintHdr(key, "ES256", map[string]any{"kid": e.oidcKey.KeyID}, claims)
		m.valid["sign"] = ts.Defect == "" && (ts.NoIat || ts.IatOff < 3000)
		if ts.Prov == "azr" {
			m.idr, m.exempt = "u", true
		} else {
			m.idr = "k" + c.X(sha256hex(mirid))
		}
	case "gcpt", "gcpr":
		inst := jti
		if inst == "" {
			inst = "inst-anon"
		}
		delete(claims, "jti")
		claims["iss"], claims["aud"] = "https://accounts.google.com", "https://ca.verif.test/1.0/sign#gcp/"+ts.Prov
		claims["sub"], claims["email"], claims["azp"] = "sa-"+inst, "sa@project.iam.gserviceaccount.com", "sa-"+inst
		claims["nbf"], claims["exp"] = now.Add(-time.Minute).Unix(), exp.Unix()
		claims["google"] = map[string]any{"compute_engine": map[string]any{"instance_id": inst, "instance_name": "n-" + inst, "project_id": "proj", "zone": "z1",
			"instance_creation_timestamp": now.Add(-time.Hour).Unix()}}
		key := e.oidcKey.Key
		switch ts.Defect {
		case "badsig":
			key = e.jwk2.Key
		case "aud":
			claims["aud"] = "https://ca.verif.test/1.0/sign#gcp/nosuch"
			m.lookupOK = false
		case "kid":
			claims["iss"] = "https://accounts.example.com" // found through the audience fragment, refused by the validation
		}
		m.str = mintHdr(key, "ES256", map[string]any{"kid": e.oidcKey.KeyID}, claims)
		m.valid["sign"] = ts.Defect == "" && (ts.NoIat || ts.IatOff < 3000)
		if ts.Prov == "gcpr" {
			m.idr = "sha-of-presented"
		} else {
			m.idr = "k" + c.X(sha256hex("gcp/gcpt."+inst))
		}
	case "awst", "awsr":
		inst := jti
		if inst == "" {
			inst = "i-anon"
		}
		delete(claims, "jti")
		claims["sub"] = inst
		claims["nbf"], claims["exp"] = now.Add(-time.Minute).Unix(), exp.Unix()
		m.str = e.awsToken(ts.Prov, inst, claims, ts.Defect == "badsig")
		switch ts.Defect {
		case "aud":
			// re-mint for a provisioner that does not exist: refused at the look-up
			m.str = e.awsToken("nosuch", inst, claims, false)
			m.lookupOK = false
		case "kid":
			claims["iss"] = "ec2.example.com" // found through the audience fragment, refused by the validation
			m.str = e.awsToken(ts.Prov, inst, claims, false)
		}
		m.valid["sign"] = ts.Defect == "" && (ts.NoIat || ts.IatOff < 3000)
		// AWS.GetTokenID validates the token before it derives the id: a token its validation refuses has no id (refused before the record)
		switch {
		case ts.Defect != "" && ts.Defect != "aud":
			m.idr = "e"
		case ts.Prov == "awsr":
			m.idr = "sha-of-presented"
		default:
			m.idr = "k" + c.X(sha256hex("aws/awst."+inst))
		}
	case "x5c":
		path := map[string]string{"": "/1.0/sign", "sign": "/1.0/sign", "revoke": "/1.0/revoke", "sshsign": "/1.0/ssh/sign"}[ts.Aud]
		claims["iss"] = "x5c"
		claims["aud"] = "https://ca.verif.test" + path + "#x5c/x5c"
		claims["nbf"], claims["exp"] = now.Add(-time.Minute).Unix(), exp.Unix()
		claims["sans"] = []string{claims["sub"].(string)}
		if ts.Aud == "sshsign" {
			claims["step"] = map[string]any{"ssh": map[string]any{"certType": "host", "keyID": claims["sub"], "principals": []string{claims["sub"].(string)}}}
		}
		key := any(e.x5cKey)
		switch ts.Defect {
		case "badsig":
			key = e.jwk2.Key // the chain is fine, the signature is not the leaf's
		case "aud":
			claims["aud"] = "https://other.verif.test" + path + "#x5c/x5c"
			m.lookupOK = false
		case "kid":
			claims["aud"] = "https://ca.verif.test" + path + "#x5c/nosuch"
			m.lookupOK = false
		}
		m.str = mintHdr(key, "ES256", map[string]any{"x5c": e.x5cChain}, claims)
		good := ts.Defect == "" && (ts.NoIat || ts.IatOff < 3000)
		m.valid["sign"] = good && ts.Aud != "revoke"
		m.valid["revoke"] = good && ts.Aud == "revoke"
		m.valid["sshsign"] = good && ts.Aud == "sshsign"
		m.idr = "k" + c.X(jti)
	case "sshpop":
		aud := ts.Aud
		if aud != "sshrenew" && aud != "sshrekey" && aud != "sshrevoke" {
			aud = "sshrenew"
		}
		path := map[string]string{"sshrenew": "/1.0/ssh/renew", "sshrekey": "/1.0/ssh/rekey", "sshrevoke": "/1.0/ssh/revoke"}[aud]
		claims["iss"] = "sshpop"
		claims["sub"] = strconv.FormatUint(e.sshCert.Serial, 10)
		claims["aud"] = "https://ca.verif.test" + path + "#sshpop/sshpop"
		claims["nbf"] = now.Add(-time.Minute).Unix()
		claims["exp"] = exp.Unix()
		key := any(e.sshKey)
		switch ts.Defect {
		case "badsig":
			key = e.jwk2.Key
		case "aud":
			claims["aud"] = "https://other.verif.test" + path + "#sshpop/sshpop"
			m.lookupOK = false
		case "kid":
			claims["aud"] = "https://ca.verif.test" + path + "#sshpop/nosuch"
			m.lookupOK = false
		}
		m.str = mintHdr(key, "ES256", map[string]any{"sshpop": base64.StdEncoding.EncodeToString(e.sshCert.Marshal())}, claims)
		good := ts.Defect == "" && (ts.NoIat || ts.IatOff < 3000)
		for _, mth := range allMethods {
			m.valid[mth] = good && mth == aud // SSHPOP authorizes exactly the operation its audience names
		}
		m.idr = "k" + c.X(jti)
	case "oidc":
		// JTI plays the nonce; no nonce => the id is the hash of the presented string
		delete(claims, "jti")
		if jti != "" {
			claims["nonce"] = jti
		}
		claims["iss"], claims["aud"], claims["azp"] = e.oidcSrv.URL, oidcClient, oidcClient
		claims["sub"], claims["email"], claims["email_verified"] = "user-"+randHex(), "user@example.com", true
		claims["exp"] = exp.Unix()
		key := e.oidcKey.Key
		switch ts.Defect {
		case "badsig":
			key = e.jwk2.Key
		case "aud":
			claims["aud"], claims["azp"] = "someone-else", "someone-else"
			m.lookupOK = false
		case "kid":
			claims["aud"] = "someone-else" // provisioner found through azp, audience validation fails
		}
		m.str = mintHdr(key, "ES256", map[string]any{"kid": e.oidcKey.KeyID}, claims)
		good := ts.Defect == "" && (ts.NoIat || ts.IatOff < 3000)
		m.valid["sign"] = good
		m.valid["revoke"] = false // only OIDC admins may revoke; user@example.com is not one
		m.idr = "k" + c.X(jti)
	case "admintok", "renewtok":
		// tokens of the two entry points that call UseToken themselves; signed by a certificate of the CA.
		// These paths have no issued-at-before-start test: the model gets iat "-".
		m.hasIat = false
		claims["sub"] = e.leaf.Subject.CommonName
		claims["nbf"] = now.Add(-time.Minute).Unix()
		claims["exp"] = exp.Unix()
		key := any(e.leafKey)
		if ts.Defect == "badsig" {
			key = e.jwk2.Key // the chain is fine, the signature is not the leaf's: both paths verify it before UseToken
			m.lookupOK = false
		}
		if ts.Prov == "admintok" {
			claims["iss"], claims["aud"] = "step-admin-client/1.0", "https://ca.verif.test/admin/admins"
			m.str = mintHdr(key, "ES256", map[string]any{"x5c": e.chain()}, claims)
			// without enableAdmin no admin exists: refused after the record is stored; with it the certificate is the super
			// admin's (SAN "step", issued by the first JWK provisioner): authorized once
			m.valid["admin"] = e.admin && ts.Defect != "expired" && ts.Defect != "badsig"
		} else {
			claims["iss"], claims["aud"] = "step-ca-client/1.0", "https://ca.verif.test/1.0/renew"
			if ts.Defect == "aud" {
				claims["aud"] = "https://ca.verif.test/1.0/sign"
			}
			m.str = mintHdr(key, "ES256", map[string]any{"x5cInsecure": e.chainOf(ts.Issuer)}, claims)
			m.valid["renewtoken"] = ts.Defect == "" || ts.Defect == "kid"
		}
		m.idr = "k" + c.X(jti)
		// since 42a611b AuthorizeRenewToken records a renew token under its own jti (payload hash when it has none), whatever
		// provisioner issued the certificate (before: the certificate's provisioner's GetTokenID: D12d)
		if ts.Prov == "renewtok" && ts.Issuer == "noext" {
			m.lookupOK = false // Authority.LoadProvisionerByCertificate finds no provisioner: refused before the token is recorded
		}
	case "k8s":
		claims["iss"] = "kubernetes/serviceaccount"
		claims["kubernetes.io/serviceaccount/namespace"] = "default"
		claims["kubernetes.io/serviceaccount/secret.name"] = "s"
		claims["kubernetes.io/serviceaccount/service-account.name"] = "sa"
		claims["kubernetes.io/serviceaccount/service-account.uid"] = "uid"
		claims["sub"] = "system:serviceaccount:default:sa"
		key := any(e.k8sKey)
		if ts.Defect == "badsig" {
			key = e.jwk2.Key
		}
		m.str = mint(key, "ES256", "", claims)
		m.idr = "e"
		m.exempt = true
		ok := ts.Defect != "badsig"
		// K8sSA validates issuer and subject only (no time window, no audience): sign and revoke alike
		m.valid["sign"], m.valid["revoke"] = ok, ok
	default:
		key, name, signKey := e.ca.JWK, "jwk", e.ca.JWK
		if ts.Prov == "jwk2" {
			key, name, signKey = e.jwk2, "jwk2", e.jwk2
		}
		kid := key.KeyID
		aud := "https://ca.verif.test/1.0/sign"
		if ts.Aud == "revoke" {
			aud = "https://ca.verif.test/1.0/revoke"
		}
		if ts.Aud == "sshsign" {
			aud = "https://ca.verif.test/1.0/ssh/sign"
			claims["step"] = map[string]any{"ssh": map[string]any{"certType": "host", "keyID": claims["sub"], "principals": []string{claims["sub"].(string)}}}
		}
		switch ts.Defect {
		case "badsig":
			if ts.Prov == "jwk2" {
				signKey = e.ca.JWK
			} else {
				signKey = e.jwk2
			}
		case "aud":
			aud = "https://other.verif.test/1.0/sign"
			m.lookupOK = false
		case "kid":
			kid = "no-such-key"
			m.lookupOK = false
		}
		claims["iss"] = name
		claims["aud"] = aud
		claims["nbf"] = now.Add(-2 * time.Hour).Unix()
		claims["exp"] = exp.Unix()
		claims["sans"] = []string{claims["sub"].(string)}
		m.str = mint(signKey.Key, "ES256", kid, claims)
		good := ts.Defect == "" && (ts.NoIat || ts.IatOff < 3000)
		// the sign audiences include the ssh/sign URLs and vice versa (config.GetAudiences); an SSH sign needs the step.ssh options
		m.valid["sign"] = good && (ts.Aud == "sign" || ts.Aud == "" || ts.Aud == "sshsign")
		m.valid["revoke"] = good && ts.Aud == "revoke"
		m.valid["sshsign"] = good && ts.Aud == "sshsign" && ts.Prov != "jwk2" // the SSH CA is enabled in the claims of "jwk" only
		// a JWK token is never a proof of possession: renew and rekey are refused; ssh revoke needs its own audience
		m.valid["sshrenew"], m.valid["sshrekey"], m.valid["sshrevoke"] = false, false, false
		m.idr = "k" + c.X(jti)
	}
	if ts.Defect == "garbage" {
		m.str = "this.is-not.a-token"
		m.lookupOK = false
		m.valid["sign"], m.valid["revoke"] = false, false
	}
	return m
}

// runHist executes one history on the real authority under the schedule and returns the model
// input line and the implementation's observable.
func runHist(h *Hist) (string, string) {
	n := len(h.Reqs)
	hooks := &ss.Hooks{}
	e := newEnvAdmin(h.DB, h.NoChk, h.Admin, hooks)
	defer func() { e.close() }()
	start0 := e.startSec()
	base := len(ss.Dump(e.ca.DB, "used_ott")) // the environment's own provisioning token (certificate for x5c tokens)

	events := make(chan evt, 4*n+4)
	gates := make([]chan bool, n) // true = go on, false = abort (process stopped)
	starts := make([]chan struct{}, n)
	for i := range gates {
		gates[i] = make(chan bool, 1)
		starts[i] = make(chan struct{}, 1)
	}
	cur := -1
	cas := make([]string, n)
	stored := 0
	for i := range cas {
		cas[i] = "none"
	}
	hooks.Before = func(op, key string) error {
		if op != "usetoken" {
			return nil
		}
		t := cur
		events <- evt{t: t, kind: "entry"}
		if !<-gates[t] {
			return errAbort
		}
		return nil
	}
	hooks.After = func(op, key string, ok bool, err error) error {
		if op != "usetoken" {
			return nil
		}
		t := cur
		switch {
		case err != nil:
			cas[t] = "error"
		case ok:
			cas[t] = "stored"
			stored++
		default:
			cas[t] = "exists"
		}
		events <- evt{t: t, kind: "exit"}
		if !<-gates[t] {
			return errAbort
		}
		return nil
	}

	curStart := start0
	old := make([]bool, len(h.Reqs)) // no database: the request presents a token issued before the current process started (property clause 2)
	toks := make([]*minted, len(h.Toks))
	jtis := map[string]string{}
	answers := make([]string, n)
	state := make([]int, n) // 0 not started, 1 parked at entry, 2 parked at exit, 3 done
	reqIn := make([]string, n)
	for i := 0; i < n; i++ {
		i := i
		go func() {
			<-starts[i]
			defer func() {
				if p := recover(); p != nil {
					answers[i] = "crash"
					events <- evt{t: i, kind: "done"}
				}
			}()
			rq := h.Reqs[i]
			m := toks[rq.Tok]
			var err error
			switch rq.Method {
			case "admin":
				_, err = e.ca.Auth.AuthorizeAdminToken(httptest.NewRequest("GET", "https://ca.verif.test/admin/admins", nil), spell(m.str, rq.Spell))
			case "renewtoken":
				_, err = e.ca.Auth.AuthorizeRenewToken(methodCtx(e.ca.Auth, "sign", false), spell(m.str, rq.Spell))
			default:
				_, err = e.ca.Auth.Authorize(methodCtx(e.ca.Auth, rq.Method, rq.Skip), spell(m.str, rq.Spell))
			}
			events <- evt{t: i, kind: "done", ok: err == nil}
		}()
	}
	waitFor := func(t int) evt {
		for {
			ev := <-events
			if ev.t == t {
				return ev
			}
			panic(fmt.Sprintf("event of thread %d while thread %d runs", ev.t, t))
		}
	}
	finish := func(t int, ev evt, dropped bool) {
		state[t] = 3
		if answers[t] == "crash" {
			return
		}
		switch {
		case dropped:
			answers[t] = "drop"
		case ev.ok:
			answers[t] = "auth"
		default:
			answers[t] = "deny"
		}
	}
	var evs []string
	for _, t := range h.Sched {
		if t < 0 {
			for i := 0; i < n; i++ {
				switch {
				case state[i] == 1, state[i] == 2 && cas[i] == "stored":
					cur = i
					gates[i] <- false
					finish(i, waitFor(i), true)
				case state[i] == 2:
					cur = i
					gates[i] <- true
					finish(i, waitFor(i), false)
				}
			}
			if !h.DB {
				stored = 0
			}
			curStart = e.restart()
			evs = append(evs, "r"+strconv.FormatInt(curStart, 10))
			continue
		}
		if t >= n {
			continue
		}
		cur = t
		st := "s" + strconv.Itoa(t)
		switch state[t] {
		case 0:
			rq := h.Reqs[t]
			if toks[rq.Tok] == nil {
				toks[rq.Tok] = e.mintTok(&h.Toks[rq.Tok], jtis)
			}
			m := toks[rq.Tok]
			presented := spell(m.str, rq.Spell)
			iat := "-"
			if m.hasIat {
				iat = strconv.FormatInt(m.iat, 10)
			}
			idr := m.idr
			if idr == "sha-of-presented" { // GCP without trust on first use: the id is the hash of the string as presented
				idr = "k" + c.X(sha256hex(presented))
			}
			reqIn[t] = fmt.Sprintf("%s:%s:%s:%s:%s:%s", c.B(m.lookupOK), iat, idr, c.X(payloadSha(presented)), c.B(rq.Skip), c.B(m.valid[rq.Method]))
			starts[t] <- struct{}{}
			ev := waitFor(t)
			old[t] = !h.DB && !h.NoChk && m.hasIat && m.iat < curStart
			if ev.kind == "done" {
				finish(t, ev, false)
				evs = append(evs, st, st, st, st)
			} else {
				state[t] = 1
				evs = append(evs, st, st)
			}
		case 1:
			gates[t] <- true
			ev := waitFor(t)
			if ev.kind == "done" { // cannot happen: the After hook always reports
				finish(t, ev, false)
			} else {
				state[t] = 2
			}
			evs = append(evs, st)
		case 2:
			gates[t] <- true
			finish(t, waitFor(t), false)
			evs = append(evs, st)
		default:
			evs = append(evs, st)
		}
	}
	// requests never scheduled stay "pend" in the model; the generator schedules all of them
	for i := 0; i < n; i++ {
		if state[i] == 0 {
			answers[i] = "pend"
			rq := h.Reqs[i]
			reqIn[i] = fmt.Sprintf("1:-:kx:x00:%s:1", c.B(rq.Skip))
			starts[i] <- struct{}{} // let the goroutine finish; outcome ignored
			cur = i
		} else if state[i] != 3 {
			cur = i
			gates[i] <- true
			ev := waitFor(i)
			if ev.kind != "done" {
				gates[i] <- true
				waitFor(i)
			}
			answers[i] = "incomplete-schedule"
		}
	}
	size := stored
	if h.DB {
		size = len(ss.Dump(e.ca.DB, "used_ott")) - base
	}
	outs := make([]string, n)
	for i := range outs {
		cc := cas[i]
		if answers[i] == "pend" {
			cc = "none"
		}
		outs[i] = answers[i] + ":" + cc
	}
	in := fmt.Sprintf("h db=%s chk=%s start=%d reqs=%s evs=%s", c.B(h.DB), c.B(!h.NoChk), start0,
		strings.Join(reqIn, ";"), c.List(evs))
	impl := strings.Join(outs, ",") + " n=" + strconv.Itoa(size)
	// the property itself, evaluated on what the implementation did: with a database, two
	// authorizations under one recorded id are a violation whatever the model says
	if h.DB {
		seen := map[string]int{}
		for i := 0; i < n; i++ {
			if answers[i] == "auth" && cas[i] != "none" {
				f := strings.Split(reqIn[i], ":")
				key := f[2]
				if key == "kx" {
					key = f[3]
				}
				seen[key]++
				if seen[key] > 1 {
					impl += " VIOLATION=two-authorizations-under-one-id"
					break
				}
			} else if answers[i] == "auth" && !h.Reqs[i].Skip && toks[h.Reqs[i].Tok] != nil && !toks[h.Reqs[i].Tok].exempt {
				impl += " VIOLATION=authorized-without-record"
				break
			}
		}
	}
	for i := range old {
		if old[i] && answers[i] == "auth" {
			impl += " VIOLATION=token-issued-before-start-authorized-without-database"
			break
		}
	}
	return in, impl
}

// ---------------------------------------------------------------- generation

func seqSched(n int) []int {
	var s []int
	for i := 0; i < n; i++ {
		s = append(s, i, i, i)
	}
	return s
}

func cornerHists() []*Hist {
	good := TokSpec{Prov: "jwk", JTI: "r", Aud: "sign"}
	nojti := TokSpec{Prov: "jwk", JTI: "-", Aud: "sign"}
	var hs []*Hist
	for _, dbm := range []bool{true, false} {
		// use, replay, restart, replay
		hs = append(hs, &Hist{DB: dbm, Toks: []TokSpec{good}, Reqs: []ReqSpec{{0, 0, "sign", false}, {0, 0, "sign", false}, {0, 0, "sign", false}},
			Sched: []int{0, 0, 0, 1, 1, 1, -1, 2, 2, 2}})
		// two requests racing on one token: both before the CAS, then CAS in the other order
		hs = append(hs, &Hist{DB: dbm, Toks: []TokSpec{good}, Reqs: []ReqSpec{{0, 0, "sign", false}, {0, 0, "sign", false}},
			Sched: []int{0, 1, 1, 0, 1, 0}})
		// stop between CAS and answer, restart, replay
		hs = append(hs, &Hist{DB: dbm, Toks: []TokSpec{good}, Reqs: []ReqSpec{{0, 0, "sign", false}, {0, 0, "sign", false}},
			Sched: []int{0, 0, -1, 1, 1, 1}})
		// the four spellings, with and without jti
		hs = append(hs, &Hist{DB: dbm, Toks: []TokSpec{good, nojti}, Reqs: []ReqSpec{{0, 0, "sign", false}, {0, 1, "sign", false}, {0, 2, "sign", false}, {0, 3, "sign", false},
			{1, 0, "sign", false}, {1, 0, "sign", false}, {1, 1, "sign", false}}, Sched: seqSched(7)})
		// exemptions: skip context and K8sSA reuse; same jti under two provisioners
		hs = append(hs, &Hist{DB: dbm, Toks: []TokSpec{good, {Prov: "k8s", JTI: "r"}, {Prov: "jwk", JTI: "a", Aud: "sign"}, {Prov: "jwk2", JTI: "a", Aud: "sign"}},
			Reqs:  []ReqSpec{{0, 0, "sign", false}, {0, 0, "signid", true}, {0, 0, "signid", true}, {1, 0, "sign", false}, {1, 0, "sign", false}, {2, 0, "sign", false}, {3, 0, "sign", false}},
			Sched: seqSched(7)})
		// ids longer than 255 bytes are ids like any other: replay refused, two tokens sharing one refused, for jti and nonce
		hs = append(hs, &Hist{DB: dbm, Toks: []TokSpec{{Prov: "oidc", JTI: "longn"}, {Prov: "oidc", JTI: "longn"}, {Prov: "oidc", JTI: "R"}, {Prov: "jwk", JTI: "longj", Aud: "sign"}, {Prov: "jwk2", JTI: "longj", Aud: "sign"}},
			Reqs:  []ReqSpec{{0, 0, "sign", false}, {0, 1, "sign", false}, {1, 0, "sign", false}, {2, 0, "sign", false}, {2, 4, "sign", false}, {3, 0, "sign", false}, {4, 0, "sign", false}},
			Sched: seqSched(7)})
		// OIDC through Authorize: the nonce is the id (replay, same nonce in another token, no nonce => hash of the string)
		hs = append(hs, &Hist{DB: dbm, Toks: []TokSpec{{Prov: "oidc", JTI: "r"}, {Prov: "oidc", JTI: "n"}, {Prov: "oidc", JTI: "n"}, {Prov: "oidc", JTI: "-"}},
			Reqs:  []ReqSpec{{0, 0, "sign", false}, {0, 0, "sign", false}, {1, 0, "sign", false}, {2, 0, "sign", false}, {3, 0, "sign", false}, {3, 1, "sign", false}, {0, 0, "revoke", false}},
			Sched: []int{0, 0, 0, 1, 1, 1, 2, 2, 2, -1, 3, 3, 3, 4, 4, 4, 5, 5, 5, 6, 6, 6}})
		// the entry points that call UseToken themselves: admin token and renew token, replayed, across a restart,
		// racing; an id shared with a provisioning token
		hs = append(hs, &Hist{DB: dbm, Toks: []TokSpec{{Prov: "renewtok", JTI: "r"}, {Prov: "admintok", JTI: "r"}, {Prov: "renewtok", JTI: "z"}, {Prov: "jwk", JTI: "z", Aud: "sign"}},
			Reqs:  []ReqSpec{{0, 0, "renewtoken", false}, {0, 0, "renewtoken", false}, {1, 0, "admin", false}, {1, 0, "admin", false}, {0, 0, "renewtoken", false}, {1, 0, "admin", false}, {2, 0, "renewtoken", false}, {3, 0, "sign", false}},
			Sched: []int{0, 1, 1, 0, 1, 0, 2, 3, 2, 3, 3, 2, -1, 4, 4, 4, 5, 5, 5, 6, 6, 6, 7, 7, 7}})
		// cloud identity tokens through Authorize: Azure with trust on first use (one certificate per VM: a second token of the same VM is
		// refused), Azure without (reuse allowed), GCP with (per instance) and without (per token string)
		hs = append(hs, &Hist{DB: dbm, Toks: []TokSpec{{Prov: "azt", JTI: "vm1"}, {Prov: "azt", JTI: "vm1"}, {Prov: "azt", JTI: "vm2"}, {Prov: "azr", JTI: "vm1"},
			{Prov: "gcpt", JTI: "i1"}, {Prov: "gcpt", JTI: "i1"}, {Prov: "gcpr", JTI: "i1"}, {Prov: "gcpr", JTI: "i1"}},
			Reqs: []ReqSpec{{0, 0, "sign", false}, {0, 0, "sign", false}, {1, 0, "sign", false}, {2, 0, "sign", false}, {3, 0, "sign", false}, {3, 0, "sign", false},
				{4, 0, "sign", false}, {5, 0, "sign", false}, {6, 0, "sign", false}, {6, 0, "sign", false}, {7, 0, "sign", false}, {6, 1, "sign", false}},
			Sched: seqSched(12)})
		// X5C through Authorize: the jti is the id; sign, revoke and ssh sign burn it; replayed, across a restart, a shared jti with a JWK token
		hs = append(hs, &Hist{DB: dbm, Toks: []TokSpec{{Prov: "x5c", JTI: "r", Aud: "sign"}, {Prov: "x5c", JTI: "r", Aud: "revoke"}, {Prov: "x5c", JTI: "r", Aud: "sshsign"}, {Prov: "x5c", JTI: "-", Aud: "sign"},
			{Prov: "x5c", JTI: "q", Aud: "sign"}, {Prov: "jwk", JTI: "q", Aud: "sign"}, {Prov: "x5c", JTI: "r", Aud: "sign", Defect: "badsig"}},
			Reqs: []ReqSpec{{0, 0, "sign", false}, {0, 0, "sign", false}, {1, 0, "revoke", false}, {1, 0, "revoke", false}, {2, 0, "sshsign", false}, {2, 0, "sshsign", false}, {3, 0, "sign", false}, {3, 1, "sign", false},
				{4, 0, "sign", false}, {5, 0, "sign", false}, {6, 0, "sign", false}, {6, 0, "sign", false}, {0, 0, "sign", false}, {3, 0, "sign", false}},
			Sched: append(append(seqSched(12), -1), 12, 12, 12, 13, 13, 13)})
		// AWS through Authorize (instance identity documents signed by the harness's own key, iidRoots): with trust on first use one
		// certificate per instance; without, per token string; a document the signature does not cover has no id and is refused
		hs = append(hs, &Hist{DB: dbm, Toks: []TokSpec{{Prov: "awst", JTI: "i1"}, {Prov: "awst", JTI: "i1"}, {Prov: "awst", JTI: "i2"}, {Prov: "awsr", JTI: "i1"}, {Prov: "awsr", JTI: "i1"},
			{Prov: "awst", JTI: "i3", Defect: "badsig"}, {Prov: "awsr", JTI: "i4", Defect: "expired"}},
			Reqs: []ReqSpec{{0, 0, "sign", false}, {0, 0, "sign", false}, {1, 0, "sign", false}, {2, 0, "sign", false}, {3, 0, "sign", false}, {3, 0, "sign", false}, {4, 0, "sign", false}, {3, 1, "sign", false},
				{5, 0, "sign", false}, {5, 0, "sign", false}, {6, 0, "sign", false}, {0, 0, "revoke", false}},
			Sched: seqSched(12)})
		// renew tokens of certificates issued by each provisioner type, each presented twice: single-use for every issuer (D12d, fixed)
		hs = append(hs, &Hist{DB: dbm, Toks: []TokSpec{{Prov: "renewtok", JTI: "r", Issuer: "acme"}, {Prov: "renewtok", JTI: "r", Issuer: "k8s"}, {Prov: "renewtok", JTI: "r", Issuer: "azt"},
			{Prov: "renewtok", JTI: "r", Issuer: "azt"}, {Prov: "renewtok", JTI: "r", Issuer: "azr"}, {Prov: "renewtok", JTI: "r", Issuer: "gcpt"}, {Prov: "renewtok", JTI: "r", Issuer: "gcpr"},
			{Prov: "renewtok", JTI: "r", Issuer: "oidc"}, {Prov: "renewtok", JTI: "r", Issuer: "noext"}},
			Reqs: []ReqSpec{{0, 0, "renewtoken", false}, {0, 0, "renewtoken", false}, {1, 0, "renewtoken", false}, {1, 0, "renewtoken", false}, {2, 0, "renewtoken", false}, {3, 0, "renewtoken", false},
				{4, 0, "renewtoken", false}, {4, 0, "renewtoken", false}, {5, 0, "renewtoken", false}, {5, 0, "renewtoken", false}, {6, 0, "renewtoken", false}, {6, 1, "renewtoken", false},
				{7, 0, "renewtoken", false}, {7, 0, "renewtoken", false}, {8, 0, "renewtoken", false}, {8, 0, "renewtoken", false}},
			Sched: seqSched(16)})
		// every SSH method of Authorize burns its token: proof-of-possession tokens for renew / rekey / revoke, a JWK token for ssh sign;
		// replayed, across a restart, presented to another method
		hs = append(hs, &Hist{DB: dbm, Toks: []TokSpec{{Prov: "sshpop", JTI: "r", Aud: "sshrenew"}, {Prov: "sshpop", JTI: "r", Aud: "sshrekey"}, {Prov: "sshpop", JTI: "r", Aud: "sshrevoke"}, {Prov: "jwk", JTI: "r", Aud: "sshsign"}},
			Reqs: []ReqSpec{{0, 0, "sshrenew", false}, {0, 0, "sshrenew", false}, {1, 0, "sshrekey", false}, {1, 0, "sshrekey", false}, {2, 0, "sshrevoke", false}, {2, 0, "sshrevoke", false},
				{3, 0, "sshsign", false}, {3, 0, "sshsign", false}, {1, 0, "sshrekey", false}, {0, 0, "sshrekey", false}},
			Sched: append(append(seqSched(8), -1), 8, 8, 8, 9, 9, 9)})
		// issued-at: old token on a fresh CA; with the check disabled
		hs = append(hs, &Hist{DB: dbm, Toks: []TokSpec{{Prov: "jwk", JTI: "r", IatOff: 30, Aud: "sign"}, {Prov: "jwk", JTI: "r", NoIat: true, Aud: "sign"}},
			Reqs: []ReqSpec{{0, 0, "sign", false}, {1, 0, "sign", false}}, Sched: seqSched(2)})
		hs = append(hs, &Hist{DB: dbm, NoChk: true, Toks: []TokSpec{{Prov: "jwk", JTI: "r", IatOff: 30, Aud: "sign"}},
			Reqs: []ReqSpec{{0, 0, "sign", false}, {0, 0, "sign", false}}, Sched: []int{0, 0, 0, -1, 1, 1, 1}})
	}
	// enableAdmin: the first start migrates the configured provisioners into the admin database and creates the super admin; every kind of
	// token is single-use through the migrated provisioners, also after the restart that loads them from the database; the admin token of
	// the super admin is authorized once (without enableAdmin it is recorded and then refused: no admin exists)
	hs = append(hs, &Hist{DB: true, Admin: true, Toks: []TokSpec{{Prov: "admintok", JTI: "r"}, {Prov: "admintok", JTI: "-"}, good, {Prov: "oidc", JTI: "r"}, {Prov: "k8s", JTI: "r"},
		{Prov: "sshpop", JTI: "r", Aud: "sshrenew"}, {Prov: "renewtok", JTI: "r"}, {Prov: "jwk2", JTI: "r", Aud: "sign"}, {Prov: "x5c", JTI: "r", Aud: "sign"}},
		Reqs: []ReqSpec{{0, 0, "admin", false}, {0, 0, "admin", false}, {1, 0, "admin", false}, {1, 1, "admin", false}, {2, 0, "sign", false}, {2, 0, "sign", false}, {3, 0, "sign", false}, {3, 0, "sign", false},
			{4, 0, "sign", false}, {4, 0, "sign", false}, {5, 0, "sshrenew", false}, {5, 0, "sshrenew", false}, {6, 0, "renewtoken", false}, {6, 0, "renewtoken", false}, {7, 0, "sign", false},
			{8, 0, "sign", false}, {8, 0, "sign", false},
			{0, 0, "admin", false}, {2, 0, "sign", false}, {7, 0, "sign", false}, {6, 0, "renewtoken", false}, {8, 0, "sign", false}},
		Sched: append(append(seqSched(17), -1), 17, 17, 17, 18, 18, 18, 19, 19, 19, 20, 20, 20, 21, 21, 21)})
	for _, h := range hs {
		for i := range h.Reqs {
			if h.Reqs[i].Method == "signid" {
				h.Reqs[i].Method = "sign"
			}
		}
	}
	return hs
}

func genHist(r *c.Rng) *Hist {
	h := &Hist{DB: !r.Chance(1, 3), NoChk: r.Chance(1, 10)}
	nt := 1 + r.Intn(4)
	for i := 0; i < nt; i++ {
		ts := TokSpec{Prov: "jwk", JTI: "r", Aud: "sign"}
		switch r.Intn(16) {
		case 0:
			ts.Prov = c.Pick(r, []string{"jwk2", "x5c", "x5c"})
		case 1:
			ts.Prov = "k8s"
		case 2, 3:
			ts.Prov = "oidc"
		case 4:
			ts.Prov = "admintok"
		case 5:
			ts.Prov = "renewtok"
			ts.Issuer = c.Pick(r, []string{"", "", "acme", "k8s", "azt", "azr", "gcpt", "gcpr", "oidc", "noext"})
		case 6, 7:
			ts.Prov = "sshpop"
		case 8:
			ts.Prov = c.Pick(r, []string{"azt", "azr", "gcpt", "gcpr", "awst", "awsr", "awst", "awsr"})
		}
		switch r.Intn(8) {
		case 0, 1:
			ts.JTI = "-"
		case 2:
			ts.JTI = c.Pick(r, []string{"a", "b", "longa"})
		case 3:
			ts.JTI = "R"
		}
		switch r.Intn(10) {
		case 0:
			ts.IatOff = 1 + r.Intn(3)
		case 1:
			ts.IatOff = 30
		case 2:
			ts.NoIat = true
		}
		if r.Chance(1, 5) {
			ts.Defect = c.Pick(r, []string{"badsig", "expired", "aud", "kid", "garbage"})
		}
		if r.Chance(1, 6) {
			ts.Aud = "revoke"
		} else if r.Chance(1, 8) {
			ts.Aud = "sshsign"
		}
		if ts.Prov == "sshpop" {
			ts.Aud = c.Pick(r, []string{"sshrenew", "sshrekey", "sshrekey", "sshrevoke"})
		}
		h.Toks = append(h.Toks, ts)
	}
	n := 2 + r.Intn(7)
	for i := 0; i < n; i++ {
		rq := ReqSpec{Tok: r.Intn(nt), Method: "sign"}
		if i > 0 && r.Chance(1, 2) {
			rq.Tok = h.Reqs[r.Intn(i)].Tok // replay
		}
		if r.Chance(1, 4) {
			rq.Spell = r.Intn(4)
		}
		if h.Toks[rq.Tok].Aud == "revoke" && !r.Chance(1, 5) || r.Chance(1, 12) {
			rq.Method = "revoke"
		}
		rq.Skip = r.Chance(1, 12)
		// every method of Authority.Authorize: usually the one the token was minted for, sometimes another
		switch a := h.Toks[rq.Tok].Aud; a {
		case "sshsign", "sshrenew", "sshrekey", "sshrevoke":
			if !r.Chance(1, 6) {
				rq.Method = a
			}
		}
		if r.Chance(1, 15) {
			rq.Method = c.Pick(r, []string{"sign", "revoke", "sshsign", "sshrenew", "sshrekey", "sshrevoke"})
		}
		switch h.Toks[rq.Tok].Prov {
		case "admintok":
			rq.Method, rq.Skip = "admin", false
		case "renewtok":
			rq.Method, rq.Skip = "renewtoken", false
		}
		h.Reqs = append(h.Reqs, rq)
	}
	// schedule: requests arrive in groups of 1..3 whose three phases are interleaved at random;
	// restarts between groups or in the middle of one
	i := 0
	for i < n {
		g := 1
		if r.Chance(1, 2) {
			g = 1 + r.Intn(3)
		}
		if i+g > n {
			g = n - i
		}
		left := make([]int, g)
		for j := range left {
			left[j] = 3
		}
		rem := 3 * g
		for rem > 0 {
			j := r.Intn(g)
			if left[j] == 0 {
				continue
			}
			left[j]--
			rem--
			h.Sched = append(h.Sched, i+j)
			if r.Chance(1, 25) {
				h.Sched = append(h.Sched, -1)
			}
		}
		if r.Chance(1, 5) {
			h.Sched = append(h.Sched, -1)
		}
		i += g
	}
	if h.DB && r.Chance(1, 6) {
		h.Admin = true
		for i := range h.Toks { // no cloud provisioners in this mode (see env.admin)
			switch h.Toks[i].Prov {
			case "azt", "azr", "gcpt", "gcpr", "awst", "awsr":
				h.Toks[i].Prov = "admintok"
			}
			switch h.Toks[i].Issuer {
			case "azt", "azr", "gcpt", "gcpr":
				h.Toks[i].Issuer = ""
			}
		}
		for i := range h.Reqs {
			if h.Toks[h.Reqs[i].Tok].Prov == "admintok" {
				h.Reqs[i].Method, h.Reqs[i].Skip = "admin", false
			}
		}
	}
	// make sure every thread ends (threads cut by a restart are "drop", the rest got 3 phases)
	return h
}
