// Harness for C02 (one-time tokens). Runs the real Authority.Authorize / Authority.UseToken of
// /repo on a real bbolt file and on the real SimpleDB (no database), and writes
// "<model input line>\t<implementation output>" (stages hist, tokid: compared with the Lean
// driver drv_c02) or "<input>\t<implementation>\t<what the property demands>" (stages race,
// defects: oracle style).
//
//	-stage hist     histories of requests (fresh / replayed / respelled tokens of several
//	                provisioners, valid and invalid) executed under a *chosen* interleaving of their
//	                storage calls (a db.AuthDB wrapper parks callers before and after UseToken) with
//	                restarts in between; answers, CAS results and table size vs the model
//	-stage tokid    GetTokenID of every provisioner type + the key Authority.UseToken records
//	-stage race     k = 2..32 goroutines released by a barrier presenting one token
//	-stage careload the real ca.CA serving HTTPS on loopback: a token used, CA.Reload() (SIGHUP), the token replayed; with and without db
//	-stage defects  the two D12 shapes (and their controls) against the property itself
package main

import (
	"encoding/hex"
	"encoding/json"
	"flag"
	"fmt"
	"os"
	"strings"

	c "verif/harness/common"
)

func main() {
	n := flag.Int("n", 100, "number of generated cases")
	out := flag.String("out", "", "output file")
	replay := flag.String("replay", "", "file of lines with a case=x<hex json> field to re-run")
	stage := flag.String("stage", "hist", "hist | handlers | tokid | race | careload | defects")
	flag.Parse()
	o, err := c.NewOut(*out)
	if err != nil {
		fmt.Fprintln(os.Stderr, err)
		os.Exit(2)
	}
	defer o.Close()
	defer func() {
		for _, e := range sharedEnvs {
			e.close()
		}
		if awsDir != "" {
			os.RemoveAll(awsDir)
		}
	}()
	if *replay != "" {
		data, err := os.ReadFile(*replay)
		if err != nil {
			fmt.Fprintln(os.Stderr, err)
			os.Exit(2)
		}
		for _, l := range strings.Split(string(data), "\n") {
			i := strings.Index(l, "case=x")
			if i < 0 {
				continue
			}
			h := l[i+6:]
			if j := strings.IndexAny(h, " \t"); j >= 0 {
				h = h[:j]
			}
			js, err := hex.DecodeString(h)
			if err != nil {
				continue
			}
			var k Case
			if json.Unmarshal(js, &k) != nil {
				continue
			}
			runCase(o, &k)
		}
		return
	}
	r := c.NewRng(c.Seed())
	switch *stage {
	case "hist":
		for _, h := range cornerHists() {
			runCase(o, &Case{Hist: h})
		}
		for i := 0; i < *n; i++ {
			runCase(o, &Case{Hist: genHist(r.Fork())})
		}
	case "handlers":
		for _, h := range cornerHandlers() {
			runCase(o, &Case{Handlers: h})
		}
		for i := 0; i < *n; i++ {
			runCase(o, &Case{Handlers: genHandlers(r.Fork())})
		}
	case "tokid":
		for _, t := range cornerTokids() {
			runCase(o, &Case{Tokid: t})
		}
		for i := 0; i < *n; i++ {
			runCase(o, &Case{Tokid: genTokid(r.Fork())})
		}
	case "race":
		for i := 0; i < *n; i++ {
			rr := r.Fork()
			runCase(o, &Case{Race: &Race{K: 2 + rr.Intn(31), JTI: !rr.Chance(1, 4), DB: !rr.Chance(1, 4), Mixed: rr.Chance(1, 3)}})
		}
	case "careload":
		for _, cr := range []CAReload{{DB: false, Reloads: 1}, {DB: true, Reloads: 1}, {DB: false, Reloads: 2}, {DB: false, Reloads: 0}} {
			cr := cr
			runCase(o, &Case{CAReload: &cr})
		}
	case "defects":
		for _, d := range []Defect{
			{Kind: "nodb-same-second"}, {Kind: "nodb-later-second"}, {Kind: "db-same-second"},
			{Kind: "respell", JTI: false}, {Kind: "respell", JTI: true}, {Kind: "respell-gcp"}, {Kind: "respell-aws"}, {Kind: "usetoken-fault-before"}, {Kind: "usetoken-fault-after"}, {Kind: "renewtok-acme"}, {Kind: "renewtok-k8s"},
		} {
			d := d
			runCase(o, &Case{Defect: &d})
		}
	default:
		fmt.Fprintln(os.Stderr, "unknown stage")
		os.Exit(2)
	}
}

// environments shared by the cases of a stage (tokid, race): closed when the stage ends
var sharedEnvs []*env

// Case is the replayable form of one line of any stage.
type Case struct {
	Hist     *Hist     `json:",omitempty"`
	Handlers *HCase    `json:",omitempty"`
	Tokid    *Tokid    `json:",omitempty"`
	Race     *Race     `json:",omitempty"`
	Defect   *Defect   `json:",omitempty"`
	CAReload *CAReload `json:",omitempty"`
}

func caseField(k *Case) string {
	js, _ := json.Marshal(k)
	return "case=x" + hex.EncodeToString(js)
}

func runCase(o *c.Out, k *Case) {
	var in, impl, want string
	func() {
		defer func() {
			if e := recover(); e != nil {
				if in == "" {
					in = "crashed-before-input"
				}
				impl = "crash"
				fmt.Fprintln(os.Stderr, "panic:", e)
			}
		}()
		switch {
		case k.Hist != nil:
			in, impl = runHist(k.Hist)
		case k.Handlers != nil:
			in, impl = runHandlers(k.Handlers)
		case k.Tokid != nil:
			in, impl = runTokid(k.Tokid)
		case k.Race != nil:
			in, impl, want = runRace(k.Race)
		case k.Defect != nil:
			in, impl, want = runDefect(k.Defect)
		case k.CAReload != nil:
			in, impl, want = runCAReload(k.CAReload)
		}
	}()
	if in == "" {
		return
	}
	if want != "" {
		o.Row(in+" "+caseField(k), impl, want)
	} else {
		o.Case(in+" "+caseField(k), impl)
	}
}
