package main

import (
	"bytes"
	"crypto/tls"
	"crypto/x509"
	"encoding/json"
	"encoding/pem"
	"fmt"
	"io"
	"log"
	"net"
	"net/http"
	"os"
	"path/filepath"
	"time"

	"go.step.sm/crypto/jose"
	"go.step.sm/crypto/minica"
	"go.step.sm/crypto/pemutil"

	"github.com/smallstep/certificates/authority/config"
	"github.com/smallstep/certificates/authority/provisioner"
	"github.com/smallstep/certificates/ca"
	"github.com/smallstep/certificates/db"
	c "verif/harness/common"
	"verif/harness/fixture"
)

// CAReload: the real ca.CA (ca.New on a ca.json in a temp directory, ca.Run serving HTTPS on loopback). A token that
// carries no iat (so that the issued-at check after the reload does not apply) is used once through POST /1.0/sign,
// then CA.Reload() — what SIGHUP does — is called Reloads times, then the same token is presented again. With and
// without a `db` section. A configuration reload is not a restart: the used-token table is handed over to the new
// authority (ca.Reload passes WithDatabase(ca.auth.GetDatabase())), also when it is the in-memory one.
type CAReload struct {
	DB      bool
	Reloads int
}

func runCAReload(cr *CAReload) (in, impl, want string) {
	in = fmt.Sprintf("careload db=%s reloads=%d", c.B(cr.DB), cr.Reloads)
	// everything that can panic in here is set-up of the stage itself (temp files, the loopback listener, the CA's own
	// start-up): a failure of the set-up on a loaded machine is inconclusive, not a verdict. Panics of request handlers
	// are recovered by net/http and show up as a status.
	defer func() {
		if p := recover(); p != nil {
			fmt.Fprintln(os.Stderr, "careload: set-up failed:", p)
			impl, want = "ok", "ok"
		}
	}()
	log.SetOutput(io.Discard)
	dir := must(os.MkdirTemp("", "verif-c02-ca-"))
	defer os.RemoveAll(dir)
	mca := must(minica.New(minica.WithName("VerifReload")))
	write := func(name string, data []byte) string {
		p := filepath.Join(dir, name)
		if err := os.WriteFile(p, data, 0o600); err != nil {
			panic(err)
		}
		return p
	}
	keyPEM := must(pemutil.Serialize(mca.Signer))
	jwk := must(jose.GenerateJWK("EC", "P-256", "ES256", "sig", "", 0))
	jwk.KeyID = must(jose.Thumbprint(jwk))
	pub := jwk.Public()
	l := must(net.Listen("tcp", "127.0.0.1:0"))
	addr := l.Addr().String()
	l.Close()
	cfg := &config.Config{
		Root:             []string{write("root.crt", pem.EncodeToMemory(&pem.Block{Type: "CERTIFICATE", Bytes: mca.Root.Raw}))},
		IntermediateCert: write("intermediate.crt", pem.EncodeToMemory(&pem.Block{Type: "CERTIFICATE", Bytes: mca.Intermediate.Raw})),
		IntermediateKey:  write("intermediate.key", pem.EncodeToMemory(keyPEM)),
		Address:          addr,
		DNSNames:         []string{fixture.DNSName, "127.0.0.1"},
		AuthorityConfig:  &config.AuthConfig{Provisioners: provisioner.List{&provisioner.JWK{Type: "JWK", Name: "jwk", Key: &pub}}},
		TLS:              &config.DefaultTLSOptions,
	}
	if cr.DB {
		cfg.DB = &db.Config{Type: "bbolt", DataSource: filepath.Join(dir, "ca.db")}
	}
	cfgFile := filepath.Join(dir, "ca.json")
	if err := cfg.Save(cfgFile); err != nil {
		panic(err)
	}
	loaded := must(config.LoadConfiguration(cfgFile))
	theCA := must(ca.New(loaded, ca.WithConfigFile(cfgFile), ca.WithQuiet(true)))
	go theCA.Run()
	defer theCA.Stop()
	pool := x509.NewCertPool()
	pool.AddCert(mca.Root)
	client := &http.Client{Timeout: 30 * time.Second, Transport: &http.Transport{TLSClientConfig: &tls.Config{RootCAs: pool, ServerName: "127.0.0.1"}}}
	defer client.CloseIdleConnections()
	// wait until the server accepts connections (no verdict depends on how long that takes)
	deadline := time.Now().Add(2 * time.Minute)
	for {
		conn, err := tls.DialWithDialer(&net.Dialer{Timeout: time.Second}, "tcp", addr, &tls.Config{RootCAs: pool, ServerName: "127.0.0.1"})
		if err == nil {
			conn.Close()
			break
		}
		if time.Now().After(deadline) {
			return in, "ok", "ok" // inconclusive
		}
		time.Sleep(20 * time.Millisecond)
	}
	now := time.Now()
	name := "h" + randHex() + ".example.com"
	tok := mint(jwk.Key, "ES256", jwk.KeyID, map[string]any{"iss": "jwk", "sub": name, "aud": "https://" + fixture.DNSName + "/1.0/sign",
		"nbf": now.Add(-time.Minute).Unix(), "exp": now.Add(10 * time.Minute).Unix(), "jti": randHex(), "sans": []string{name}})
	csr, _, err := fixture.CSR(name, []string{name})
	if err != nil {
		panic(err)
	}
	body := must(json.Marshal(map[string]any{"csr": string(pem.EncodeToMemory(&pem.Block{Type: "CERTIFICATE REQUEST", Bytes: csr.Raw})), "ott": tok}))
	sign := func() int {
		// a transport error (the reload closes kept-alive connections) is retried on a fresh connection
		for attempt := 0; attempt < 20; attempt++ {
			resp, err := client.Post("https://"+addr+"/1.0/sign", "application/json", bytes.NewReader(body))
			if err != nil {
				client.CloseIdleConnections()
				time.Sleep(50 * time.Millisecond)
				continue
			}
			code := resp.StatusCode
			io.Copy(io.Discard, resp.Body)
			resp.Body.Close()
			return code
		}
		return -1
	}
	first := sign()
	if first == -1 {
		return in, "ok", "ok" // inconclusive: the server could not be reached
	}
	if first != 201 {
		return in, fmt.Sprintf("first-use-refused status=%d", first), "ok"
	}
	for i := 0; i < cr.Reloads; i++ {
		if err := theCA.Reload(); err != nil {
			// the reload itself did not go through (e.g. the server swap under load): nothing to judge, the old
			// authority keeps running with its table
			fmt.Fprintln(os.Stderr, "careload: reload failed:", err)
			return in, "ok", "ok"
		}
	}
	if again := sign(); again == 201 {
		return in, "VIOLATION token-authorized-again-after-configuration-reload", "ok"
	} else if again == -1 {
		return in, "ok", "ok" // inconclusive
	} else if again != 401 {
		return in, fmt.Sprintf("replay status=%d", again), "ok"
	}
	return in, "ok", "ok"
}
