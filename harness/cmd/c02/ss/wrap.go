// Package ss ("stores and schedules") holds what the C02, C07 and C08 harnesses share:
// a db.AuthDB wrapper around the real bbolt-backed *db.DB / *db.SimpleDB with hooks before and
// after every storage call the three properties are about (observation, fault injection,
// parking callers to drive chosen interleavings), and raw table dumps.
// Nothing here mocks repository code: every call is forwarded to the real database.
package ss

import (
	"crypto/x509"
	"sort"
	"strconv"
	"strings"
	"time"

	"golang.org/x/crypto/ssh"

	"github.com/smallstep/certificates/authority/provisioner"
	"github.com/smallstep/certificates/db"
)

// Hooks are consulted around each wrapped storage call. Both may be nil.
type Hooks struct {
	// Before runs before the real call. A non-nil error is returned to the caller instead of
	// performing the call (fault: the storage step failed and nothing was written).
	Before func(op, key string) error
	// After runs after the real call with its result. A non-nil error replaces the result
	// (fault: the step was performed but the caller sees a failure).
	After func(op, key string, ok bool, err error) error
}

func (h *Hooks) before(op, key string) error {
	if h == nil || h.Before == nil {
		return nil
	}
	return h.Before(op, key)
}

func (h *Hooks) after(op, key string, ok bool, err error) error {
	if h == nil || h.After == nil {
		return nil
	}
	return h.After(op, key, ok, err)
}

// DB wraps the real nosql-backed database. All other methods (certificate storage, SSH host
// tables, …) are promoted from the embedded *db.DB unchanged.
type DB struct {
	*db.DB
	H *Hooks
}

// Simple wraps the real no-database implementation.
type Simple struct {
	*db.SimpleDB
	H *Hooks
}

// Wrap returns a fixture.Opts.WrapDB function.
func Wrap(h *Hooks) func(db.AuthDB) db.AuthDB {
	return func(inner db.AuthDB) db.AuthDB {
		switch v := inner.(type) {
		case *db.DB:
			return &DB{DB: v, H: h}
		case *db.SimpleDB:
			return &Simple{SimpleDB: v, H: h}
		}
		return inner
	}
}

func (d *DB) UseToken(id, tok string) (bool, error) {
	if err := d.H.before("usetoken", id); err != nil {
		return false, err
	}
	ok, err := d.DB.UseToken(id, tok)
	if e := d.H.after("usetoken", id, ok, err); e != nil {
		return false, e
	}
	return ok, err
}

func (d *Simple) UseToken(id, tok string) (bool, error) {
	if err := d.H.before("usetoken", id); err != nil {
		return false, err
	}
	ok, err := d.SimpleDB.UseToken(id, tok)
	if e := d.H.after("usetoken", id, ok, err); e != nil {
		return false, e
	}
	return ok, err
}

// certificate storage (what a handler does once the authorization has succeeded): observed under "storecert" / "storesshcert"
// with the serial as key. *db.DB has the chain variant the authority prefers; SimpleDB only the plain ones.
func (d *DB) StoreCertificateChain(p provisioner.Interface, chain ...*x509.Certificate) error {
	key := chain[0].SerialNumber.String()
	if err := d.H.before("storecert", key); err != nil {
		return err
	}
	err := d.DB.StoreCertificateChain(p, chain...)
	if e := d.H.after("storecert", key, err == nil, err); e != nil {
		return e
	}
	return err
}

func (d *DB) StoreCertificate(crt *x509.Certificate) error {
	key := crt.SerialNumber.String()
	if err := d.H.before("storecert", key); err != nil {
		return err
	}
	err := d.DB.StoreCertificate(crt)
	if e := d.H.after("storecert", key, err == nil, err); e != nil {
		return e
	}
	return err
}

func (d *Simple) StoreCertificate(crt *x509.Certificate) error {
	key := crt.SerialNumber.String()
	if err := d.H.before("storecert", key); err != nil {
		return err
	}
	err := d.SimpleDB.StoreCertificate(crt)
	if e := d.H.after("storecert", key, err == nil, err); e != nil {
		return e
	}
	return err
}

func (d *DB) StoreSSHCertificate(crt *ssh.Certificate) error {
	key := strconv.FormatUint(crt.Serial, 10)
	if err := d.H.before("storesshcert", key); err != nil {
		return err
	}
	err := d.DB.StoreSSHCertificate(crt)
	if e := d.H.after("storesshcert", key, err == nil, err); e != nil {
		return e
	}
	return err
}

func (d *Simple) StoreSSHCertificate(crt *ssh.Certificate) error {
	key := strconv.FormatUint(crt.Serial, 10)
	if err := d.H.before("storesshcert", key); err != nil {
		return err
	}
	err := d.SimpleDB.StoreSSHCertificate(crt)
	if e := d.H.after("storesshcert", key, err == nil, err); e != nil {
		return e
	}
	return err
}

func (d *DB) Revoke(rci *db.RevokedCertificateInfo) error {
	if err := d.H.before("revoke", rci.Serial); err != nil {
		return err
	}
	err := d.DB.Revoke(rci)
	if e := d.H.after("revoke", rci.Serial, err == nil, err); e != nil {
		return e
	}
	return err
}

func (d *DB) RevokeSSH(rci *db.RevokedCertificateInfo) error {
	if err := d.H.before("revokessh", rci.Serial); err != nil {
		return err
	}
	err := d.DB.RevokeSSH(rci)
	if e := d.H.after("revokessh", rci.Serial, err == nil, err); e != nil {
		return e
	}
	return err
}

func (d *DB) IsRevoked(sn string) (bool, error) {
	if err := d.H.before("isrevoked", sn); err != nil {
		return false, err
	}
	ok, err := d.DB.IsRevoked(sn)
	if e := d.H.after("isrevoked", sn, ok, err); e != nil {
		return false, e
	}
	return ok, err
}

func (d *DB) IsSSHRevoked(sn string) (bool, error) {
	if err := d.H.before("issshrevoked", sn); err != nil {
		return false, err
	}
	ok, err := d.DB.IsSSHRevoked(sn)
	if e := d.H.after("issshrevoked", sn, ok, err); e != nil {
		return false, e
	}
	return ok, err
}

func (d *DB) GetCertificate(sn string) (*x509.Certificate, error) {
	if err := d.H.before("getcert", sn); err != nil {
		return nil, err
	}
	c, err := d.DB.GetCertificate(sn)
	if e := d.H.after("getcert", sn, err == nil, err); e != nil {
		return nil, e
	}
	return c, err
}

func (d *DB) GetRevokedCertificates() (*[]db.RevokedCertificateInfo, error) {
	if err := d.H.before("listrevoked", ""); err != nil {
		return nil, err
	}
	l, err := d.DB.GetRevokedCertificates()
	if e := d.H.after("listrevoked", "", err == nil, err); e != nil {
		return nil, e
	}
	return l, err
}

func (d *DB) GetCRL() (*db.CertificateRevocationListInfo, error) {
	if err := d.H.before("getcrl", ""); err != nil {
		return nil, err
	}
	c, err := d.DB.GetCRL()
	if e := d.H.after("getcrl", "", err == nil, err); e != nil {
		return nil, e
	}
	return c, err
}

func (d *DB) StoreCRL(info *db.CertificateRevocationListInfo) error {
	// key = "<number of the list being stored>/<its duration in seconds>" (see CRLKey)
	num := strconv.FormatInt(info.Number, 10) + "/" + strconv.FormatInt(int64(info.Duration/time.Second), 10)
	if err := d.H.before("storecrl", num); err != nil {
		return err
	}
	err := d.DB.StoreCRL(info)
	if e := d.H.after("storecrl", num, err == nil, err); e != nil {
		return e
	}
	return err
}

// CRLKey splits the key the storecrl hooks receive into the list's number and duration (seconds).
func CRLKey(key string) (number, seconds int64) {
	a, b, _ := strings.Cut(key, "/")
	number, _ = strconv.ParseInt(a, 10, 64)
	seconds, _ = strconv.ParseInt(b, 10, 64)
	return
}

// Entry is one raw record of a table.
type Entry struct {
	Key   string
	Value []byte
}

// Dump lists a table of the real database (sorted by key); nil when there is no database.
func Dump(adb db.AuthDB, table string) []Entry {
	var inner *db.DB
	switch v := adb.(type) {
	case *DB:
		inner = v.DB
	case *db.DB:
		inner = v
	default:
		return nil
	}
	es, err := inner.List([]byte(table))
	if err != nil {
		return nil
	}
	out := make([]Entry, 0, len(es))
	for _, e := range es {
		out = append(out, Entry{Key: string(e.Key), Value: append([]byte(nil), e.Value...)})
	}
	sort.Slice(out, func(i, j int) bool { return out[i].Key < out[j].Key })
	return out
}
