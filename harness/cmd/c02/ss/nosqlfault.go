package ss

import (
	"github.com/smallstep/nosql/database"

	"github.com/smallstep/certificates/db"
)

// NoSQLFault decides whether one call of the key/value store fails: op is get | set | cas | list, bucket the table
// name. A non-nil error is returned to /repo/db instead of performing the call, so that the code of db.DB itself
// (error wrapping, not-found detection, …) runs on the failure — unlike the Hooks, which act above db.DB.
type NoSQLFault func(op, bucket string, key []byte) error

type faultyNoSQL struct {
	database.DB
	f *NoSQLFault
}

func (d *faultyNoSQL) fail(op string, bucket, key []byte) error {
	if d.f == nil || *d.f == nil {
		return nil
	}
	return (*d.f)(op, string(bucket), key)
}

func (d *faultyNoSQL) Get(bucket, key []byte) ([]byte, error) {
	if err := d.fail("get", bucket, key); err != nil {
		return nil, err
	}
	return d.DB.Get(bucket, key)
}

func (d *faultyNoSQL) Set(bucket, key, value []byte) error {
	if err := d.fail("set", bucket, key); err != nil {
		return err
	}
	return d.DB.Set(bucket, key, value)
}

func (d *faultyNoSQL) CmpAndSwap(bucket, key, oldValue, newValue []byte) ([]byte, bool, error) {
	if err := d.fail("cas", bucket, key); err != nil {
		return nil, false, err
	}
	return d.DB.CmpAndSwap(bucket, key, oldValue, newValue)
}

func (d *faultyNoSQL) List(bucket []byte) ([]*database.Entry, error) {
	if err := d.fail("list", bucket, nil); err != nil {
		return nil, err
	}
	return d.DB.List(bucket)
}

// WrapNoSQL is a fixture.Opts.WrapDB function that puts the fault layer *under* the real db.DB (its embedded
// key/value store is replaced by a forwarding wrapper) and then applies the Hooks wrapper h on top (h may be nil).
// *f may be set and cleared at any time.
func WrapNoSQL(f *NoSQLFault, h *Hooks) func(db.AuthDB) db.AuthDB {
	return func(inner db.AuthDB) db.AuthDB {
		if real, ok := inner.(*db.DB); ok {
			real.DB = &faultyNoSQL{DB: real.DB, f: f}
		}
		return Wrap(h)(inner)
	}
}
