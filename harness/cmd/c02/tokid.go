package main

import (
	"context"
	"fmt"
	"strings"
	"sync"

	"github.com/smallstep/certificates/authority"
	"github.com/smallstep/certificates/authority/admin"
	adminDBNosql "github.com/smallstep/certificates/authority/admin/db/nosql"
	"github.com/smallstep/linkedca"
	"github.com/smallstep/nosql"

	"github.com/smallstep/certificates/authority/provisioner"
	"verif/harness/cmd/c02/ss"
	c "verif/harness/common"
)

// Tokid is one case of the tokid stage: a provisioner type and the claims of a presented string.
type Tokid struct {
	// Via: "" = the provisioner as configured in ca.json; "linkedca" = the same configuration stored in and loaded
	// from the admin database representation (authority.ProvisionerToLinkedca then authority.ProvisionerToCertificates)
	Via        string
	CustomSANs bool   // disableCustomSANs of the configuration (azure, aws, gcp): must not influence token reuse
	Ty         string // jwk x5c sshpop nebula oidc azure0 azure1 aws0 aws1 gcp0 gcp1 k8ssa acme scep
	Garbage    bool   // present an unparsable string
	JTI        string
	Nonce      string
	MirID      string
	Instance   string
}

var tokidTypes = []string{"jwk", "x5c", "sshpop", "nebula", "oidc", "azure0", "azure1", "aws0", "aws1", "gcp0", "gcp1", "k8ssa", "acme", "scep"}

func provOf(ty string, csans bool) provisioner.Interface {
	switch ty {
	case "jwk":
		return &provisioner.JWK{Name: "p"}
	case "x5c":
		return &provisioner.X5C{Name: "p"}
	case "sshpop":
		return &provisioner.SSHPOP{Name: "p"}
	case "nebula":
		return &provisioner.Nebula{Name: "p"}
	case "oidc":
		return &provisioner.OIDC{Name: "p"}
	case "azure0":
		return &provisioner.Azure{Type: "Azure", Name: "p", TenantID: "tenant", DisableCustomSANs: csans}
	case "azure1":
		return &provisioner.Azure{Type: "Azure", Name: "p", TenantID: "tenant", DisableCustomSANs: csans, DisableTrustOnFirstUse: true}
	case "aws0":
		return &provisioner.AWS{Type: "AWS", Name: "p", Accounts: []string{"123"}, DisableCustomSANs: csans}
	case "aws1":
		return &provisioner.AWS{Type: "AWS", Name: "p", Accounts: []string{"123"}, DisableCustomSANs: csans, DisableTrustOnFirstUse: true}
	case "gcp0":
		return &provisioner.GCP{Type: "GCP", Name: "p", ServiceAccounts: []string{"sa"}, DisableCustomSANs: csans}
	case "gcp1":
		return &provisioner.GCP{Type: "GCP", Name: "p", ServiceAccounts: []string{"sa"}, DisableCustomSANs: csans, DisableTrustOnFirstUse: true}
	case "k8ssa":
		return &provisioner.K8sSA{Name: "p"}
	case "acme":
		return &provisioner.ACME{Name: "p"}
	case "scep":
		return &provisioner.SCEP{Name: "p"}
	}
	return nil
}

var (
	tokidOnce  sync.Once
	tokidEnv   *env
	tokidHooks = &ss.Hooks{}
	tokidSeen  = map[string]bool{} // keys this run has already recorded in the shared table
)

// runTokid calls the real GetTokenID of the type and the real Authority.UseToken (on bbolt) and
// reports the id and the key the table was asked to record.
func runTokid(t *Tokid) (string, string) {
	tokidOnce.Do(func() { tokidEnv = newEnv(true, false, tokidHooks); sharedEnvs = append(sharedEnvs, tokidEnv) })
	e := tokidEnv
	p := provOf(t.Ty, t.CustomSANs)
	if p == nil {
		return "", ""
	}
	dtofuCfg := len(t.Ty) > 0 && t.Ty[len(t.Ty)-1] == '1'
	var p2 provisioner.Interface // the provisioner the second presentation meets (admindb: its re-created record)
	stored := ""                 // a field of the stored (admin database) form that differs from the configuration
	switch t.Via {
	case "linkedca":
		// what an admin-database (or linked CA) deployment does with the same configuration
		lp, err := authority.ProvisionerToLinkedca(p)
		if err != nil {
			return "", "" // this type's minimal configuration has no admin-database form
		}
		// each direction on its own: the stored form carries the two switches as configured (two swapped or negated
		// conversions would cancel in the round trip, and the stored form is what the admin API shows and edits)
		if tofu, csans, ok := linkedcaSwitches(lp); ok && (tofu != dtofuCfg || csans != t.CustomSANs) {
			stored = fmt.Sprintf(" VIOLATION=stored-form-differs disableTrustOnFirstUse=%v disableCustomSANs=%v", tofu, csans)
		}
		if p, err = authority.ProvisionerToCertificates(lp); err != nil {
			return "", ""
		}
	case "admindb":
		// the provisioner as a record of the real admin database (authority/admin/db/nosql on the CA's bbolt file): created
		// (CreateProvisioner assigns the record id, what the migration on the first enableAdmin start and the admin API do), read
		// back and converted; then removed and created again with the same configuration: the second record (another id) is the
		// same provisioner to a client, and a token used under the first must stay used under the second
		adb, err := adminDBNosql.New(e.ca.DB.(nosql.DB), admin.DefaultAuthorityID)
		if err != nil {
			panic(err)
		}
		mk := func() provisioner.Interface {
			lp, err := authority.ProvisionerToLinkedca(provOf(t.Ty, t.CustomSANs))
			if err != nil {
				return nil
			}
			lp.Name = "p-" + randHex() // names are unique among the live records of the database
			ctx := context.Background()
			if err := adb.CreateProvisioner(ctx, lp); err != nil {
				panic(err)
			}
			got, err := adb.GetProvisioner(ctx, lp.Id)
			if err != nil {
				panic(err)
			}
			if err := adb.DeleteProvisioner(ctx, lp.Id); err != nil {
				panic(err)
			}
			got.Name = "p"
			q, err := authority.ProvisionerToCertificates(got)
			if err != nil {
				return nil
			}
			return q
		}
		if p = mk(); p == nil {
			return "", ""
		}
		if p2 = mk(); p2 == nil {
			return "", ""
		}
		if p.GetID() == p2.GetID() || p.GetID() == "" {
			stored = " VIOLATION=admin-database-record-ids-not-distinct"
		}
	case "linkedca-direct":
		// a provisioner created through the admin API: the stored form is written first, the running form derived from it
		lp := linkedcaOf(t.Ty, t.CustomSANs)
		if lp == nil {
			return "", ""
		}
		var err error
		if p, err = authority.ProvisionerToCertificates(lp); err != nil {
			return "", ""
		}
	}
	claims := map[string]any{"iss": "p", "sub": "s", "aud": "a"}
	if t.JTI != "" {
		claims["jti"] = t.JTI
	}
	if t.Nonce != "" {
		claims["nonce"] = t.Nonce
	}
	if t.MirID != "" {
		claims["xms_mirid"] = t.MirID
	}
	if t.Instance != "" {
		claims["google"] = map[string]any{"compute_engine": map[string]any{"instance_id": t.Instance}}
	}
	tok := mint(e.jwk2.Key, "ES256", "k", claims)
	if t.Garbage {
		tok = "garbage-" + randHex()
	}
	derived := ""
	switch t.Ty {
	case "azure0", "azure1":
		derived = sha256hex(t.MirID)
	case "gcp0", "gcp1":
		derived = sha256hex(fmt.Sprintf("%s.%s", "gcp/p", t.Instance))
	}
	// AWS.GetTokenID validates the token first; an AWS identity document cannot be produced
	// here, so every AWS case is one its validation rejects (awsvalid=0)
	kind, dtofu := t.Ty, false
	if n := len(kind); kind[n-1] == '0' || kind[n-1] == '1' {
		kind, dtofu = kind[:n-1], kind[n-1] == '1'
	}
	in := fmt.Sprintf("t via=%s kind=%s dtofu=%s dcsans=%s parses=%s", map[string]string{"": "config", "linkedca": "linkedca", "linkedca-direct": "linkedca", "admindb": "linkedca"}[t.Via], kind, c.B(dtofu), c.B(t.CustomSANs), c.B(!t.Garbage))
	in += fmt.Sprintf(" jti=%s nonce=%s derived=%s awsvalid=0 sha=%s psha=%s", c.X(t.JTI), c.X(t.Nonce), c.X(derived), c.X(sha256hex(tok)), c.X(payloadSha(tok)))
	_ = fmt.Sprintf("t ty=%s parses=%s jti=%s nonce=%s derived=%s awsvalid=0 sha=%s", t.Ty, c.B(!t.Garbage),
		c.X(t.JTI), c.X(t.Nonce), c.X(derived), c.X(sha256hex(tok)))
	var impl string
	func() {
		defer func() {
			if r := recover(); r != nil {
				impl = "crash"
			}
		}()
		id, err := p.GetTokenID(tok)
		switch {
		case err == provisioner.ErrAllowTokenReuse:
			impl = "reuse"
		case err != nil:
			impl = "err"
		default:
			impl = "id:" + c.X(id)
		}
		key := "none"
		tokidHooks.Before = func(op, k string) error {
			if op == "usetoken" {
				key = c.X(k)
			}
			return nil
		}
		if p2 == nil {
			p2 = p
		}
		first := e.ca.Auth.UseToken(tok, p)
		second := e.ca.Auth.UseToken(tok, p2)
		if id2, err2 := p2.GetTokenID(tok); (err == nil) != (err2 == nil) || id2 != id {
			impl += " VIOLATION=token-id-depends-on-the-database-record"
		}
		tokidHooks.Before = nil
		impl += " key=" + key
		// a recorded key must refuse the second use; no key must allow it
		fresh := !tokidSeen[key]
		tokidSeen[key] = key != "none"
		if fresh != (first == nil) || (key == "none") != (second == nil) {
			impl += " VIOLATION=second-use"
		}
		// the property's exception list: a second use may pass only for the provisioner types that are
		// defined or *configured* to allow it (K8sSA, ACME, SCEP, Azure with disableTrustOnFirstUse) — or when
		// the string is not a token of that provisioner at all (GetTokenID errs; validation refuses it anyway)
		documented := t.Ty == "k8ssa" || t.Ty == "acme" || t.Ty == "scep" || t.Ty == "azure1"
		if second == nil && !documented && !t.Garbage && !strings.HasPrefix(t.Ty, "aws") {
			impl += " VIOLATION=reuse-allowed-without-configuration"
		}
	}()
	return in, impl + stored
}

// the two switches of a cloud provisioner in the stored form
func linkedcaSwitches(lp *linkedca.Provisioner) (tofu, csans, ok bool) {
	switch d := lp.GetDetails().GetData().(type) {
	case *linkedca.ProvisionerDetails_Azure:
		return d.Azure.DisableTrustOnFirstUse, d.Azure.DisableCustomSans, true
	case *linkedca.ProvisionerDetails_AWS:
		return d.AWS.DisableTrustOnFirstUse, d.AWS.DisableCustomSans, true
	case *linkedca.ProvisionerDetails_GCP:
		return d.GCP.DisableTrustOnFirstUse, d.GCP.DisableCustomSans, true
	}
	return false, false, false
}

// the stored form written directly (cloud types only)
func linkedcaOf(ty string, csans bool) *linkedca.Provisioner {
	n := len(ty)
	dtofu := ty[n-1] == '1'
	switch ty[:n-1] {
	case "azure":
		return &linkedca.Provisioner{Type: linkedca.Provisioner_AZURE, Name: "p", Details: &linkedca.ProvisionerDetails{Data: &linkedca.ProvisionerDetails_Azure{
			Azure: &linkedca.AzureProvisioner{TenantId: "tenant", DisableCustomSans: csans, DisableTrustOnFirstUse: dtofu}}}}
	case "aws":
		return &linkedca.Provisioner{Type: linkedca.Provisioner_AWS, Name: "p", Details: &linkedca.ProvisionerDetails{Data: &linkedca.ProvisionerDetails_AWS{
			AWS: &linkedca.AWSProvisioner{Accounts: []string{"123"}, DisableCustomSans: csans, DisableTrustOnFirstUse: dtofu}}}}
	case "gcp":
		return &linkedca.Provisioner{Type: linkedca.Provisioner_GCP, Name: "p", Details: &linkedca.ProvisionerDetails{Data: &linkedca.ProvisionerDetails_GCP{
			GCP: &linkedca.GCPProvisioner{ServiceAccounts: []string{"sa"}, DisableCustomSans: csans, DisableTrustOnFirstUse: dtofu}}}}
	}
	return nil
}

func cornerTokids() []*Tokid {
	var out []*Tokid
	for _, ty := range []string{"azure0", "azure1", "aws0", "aws1", "gcp0", "gcp1", "jwk", "oidc", "k8ssa", "acme", "x5c", "sshpop", "nebula", "scep"} {
		for _, cs := range []bool{false, true} {
			out = append(out, &Tokid{Via: "linkedca", CustomSANs: cs, Ty: ty, JTI: "jl-" + randHex(), Nonce: "nl-" + randHex(), MirID: "ml-" + randHex(), Instance: "il-" + randHex()})
			out = append(out, &Tokid{Via: "admindb", CustomSANs: cs, Ty: ty, JTI: "ja-" + randHex(), Nonce: "na-" + randHex(), MirID: "ma-" + randHex(), Instance: "ia-" + randHex()})
			out = append(out, &Tokid{Via: "linkedca-direct", CustomSANs: cs, Ty: ty, JTI: "jd-" + randHex(), Nonce: "nd-" + randHex(), MirID: "md-" + randHex(), Instance: "id-" + randHex()})
			out = append(out, &Tokid{CustomSANs: cs, Ty: ty, JTI: "jc-" + randHex(), Nonce: "nc-" + randHex(), MirID: "mc-" + randHex(), Instance: "ic-" + randHex()})
		}
	}
	for _, ty := range []string{"jwk", "x5c", "sshpop", "nebula", "oidc"} {
		for _, n := range []int{255, 256, 400} {
			id := randHex() + strings.Repeat("q", n-32)
			out = append(out, &Tokid{Ty: ty, JTI: id, Nonce: id})
		}
	}
	for _, ty := range tokidTypes {
		out = append(out, &Tokid{Ty: ty, JTI: "j1-" + randHex(), Nonce: "n1-" + randHex(), MirID: "m-" + randHex(), Instance: "i-" + randHex()})
		out = append(out, &Tokid{Ty: ty})
		out = append(out, &Tokid{Ty: ty, Garbage: true})
	}
	return out
}

func genTokid(r *c.Rng) *Tokid {
	t := &Tokid{Ty: c.Pick(r, tokidTypes), Garbage: r.Chance(1, 8), CustomSANs: r.Chance(1, 2)}
	if r.Chance(1, 2) {
		t.Via = "linkedca"
		if r.Chance(1, 3) {
			t.Via = "linkedca-direct"
		} else if r.Chance(1, 2) {
			t.Via = "admindb"
		}
	}
	// ids are made unique per run so that the shared table never already holds them
	if r.Chance(3, 4) {
		t.JTI = "j-" + randHex()
	}
	if r.Chance(3, 4) {
		t.Nonce = "n-" + randHex()
	}
	// ids around and beyond 255 bytes
	if r.Chance(1, 5) {
		pad := strings.Repeat("p", c.Pick(r, []int{221, 222, 223, 300, 1000}))
		t.JTI, t.Nonce = t.JTI+pad, t.Nonce+pad
	}
	if r.Chance(3, 4) {
		t.MirID = "m-" + randHex()
	}
	if r.Chance(3, 4) {
		t.Instance = "i-" + randHex()
	}
	return t
}
