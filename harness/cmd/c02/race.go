package main

import (
	"fmt"
	"sync"
	"sync/atomic"
	"time"

	"github.com/smallstep/certificates/authority/provisioner"
	c "verif/harness/common"
	"verif/harness/fixture"
)

// Race: K goroutines released by a barrier present one token (Mixed: alternately to the sign
// flow as the four spellings of a jti token, which share the id).
type Race struct {
	K     int
	JTI   bool
	DB    bool
	Mixed bool
}

var (
	raceMu   sync.Mutex
	raceEnvs = map[bool]*env{}
)

func raceEnv(hasDB bool) *env {
	raceMu.Lock()
	defer raceMu.Unlock()
	if raceEnvs[hasDB] == nil {
		raceEnvs[hasDB] = newEnv(hasDB, false, nil)
		sharedEnvs = append(sharedEnvs, raceEnvs[hasDB])
	}
	return raceEnvs[hasDB]
}

func runRace(rc *Race) (string, string, string) {
	e := raceEnv(rc.DB)
	jti := ""
	if !rc.JTI {
		jti = "-"
	}
	tok := must(e.ca.Token(fixture.TokenOpts{Subject: "race-" + randHex() + ".example.com", JTI: jti, IssuedAt: time.Now()}))
	var wg sync.WaitGroup
	var auth, crashed int32
	barrier := make(chan struct{})
	for i := 0; i < rc.K; i++ {
		wg.Add(1)
		go func(i int) {
			defer wg.Done()
			defer func() {
				if recover() != nil {
					atomic.AddInt32(&crashed, 1)
				}
			}()
			s := tok
			if rc.Mixed && rc.JTI {
				s = spell(tok, i%4)
			}
			ctx := methodCtx(e.ca.Auth, "sign", false)
			<-barrier
			if _, err := e.ca.Auth.Authorize(ctx, s); err == nil {
				atomic.AddInt32(&auth, 1)
			}
		}(i)
	}
	close(barrier)
	wg.Wait()
	in := fmt.Sprintf("race k=%d jti=%s db=%s mixed=%s", rc.K, c.B(rc.JTI), c.B(rc.DB), c.B(rc.Mixed))
	impl := fmt.Sprintf("auth=%d", auth)
	if crashed > 0 {
		impl = "crash"
	} else if auth > 1 {
		impl = fmt.Sprintf("VIOLATION auth=%d", auth)
	}
	return in, impl, "auth=1"
}

var _ = provisioner.SignMethod
