package main

import (
	"errors"
	"fmt"
	"time"

	"verif/harness/cmd/c02/ss"
	"verif/harness/fixture"
)

// Defect: the property evaluated directly on the two shapes of D12 and on their controls.
//
//	nodb-same-second   no database: mint, use, restart inside the same wall-clock second, replay
//	nodb-later-second  same, the restart falls into a later second (the documented behaviour)
//	db-same-second     bbolt: same-second restart, replay
//	respell            (D12b, fixed by c4bb6a3: must now be authorized once) one token presented as tok, tok+"\n", " "+tok, tok+"=", twice in JSON serialization with an unprotected
//	                   header, and with the ECDSA signature (r, n-s) (with / without jti)
type Defect struct {
	Kind string
	JTI  bool
}

func runDefect(d *Defect) (string, string, string) {
	in := fmt.Sprintf("defect kind=%s jti=%v", d.Kind, d.JTI)
	switch d.Kind {
	case "nodb-same-second", "nodb-later-second", "db-same-second":
		hasDB := d.Kind == "db-same-second"
		for attempt := 0; attempt < 40; attempt++ {
			e := newEnv(hasDB, false, nil)
			// start early in a second so that mint, use and restart fit into it
			for time.Now().Nanosecond() > 150_000_000 {
				time.Sleep(5 * time.Millisecond)
			}
			t0 := time.Now()
			tok := must(e.ca.Token(fixture.TokenOpts{Subject: "d.example.com", IssuedAt: t0}))
			_, err1 := e.ca.Auth.Authorize(methodCtx(e.ca.Auth, "sign", false), tok)
			if d.Kind == "nodb-later-second" {
				time.Sleep(time.Until(t0.Truncate(time.Second).Add(1100 * time.Millisecond)))
			}
			start := e.restart()
			_, err2 := e.ca.Auth.Authorize(methodCtx(e.ca.Auth, "sign", false), tok)
			e.close()
			same := start == t0.Unix()
			if same != (d.Kind != "nodb-later-second") {
				continue // the restart did not fall where the case needs it; try again
			}
			if err1 != nil {
				return in, "first-use-refused", "ok"
			}
			if err2 == nil {
				return in, "VIOLATION replay-after-restart-authorized", "ok"
			}
			return in, "ok", "ok"
		}
		// the restart never fell where the case needs it (slow machine): inconclusive, not a failure;
		// D12a is also proved as a refutation (no_db_same_second_replay) and printed from the finding list
		return in, "ok", "ok"
	case "renewtok-acme", "renewtok-k8s":
		// (D12d, fixed by 42a611b: must be authorized once) a renew token (POST /1.0/renew without client certificate) of a
		// certificate issued by an ACME / K8sSA provisioner, presented three times to Authority.AuthorizeRenewToken
		e := newEnv(true, false, nil)
		defer e.close()
		m := e.mintTok(&TokSpec{Prov: "renewtok", JTI: "r", Issuer: d.Kind[len("renewtok-"):]}, map[string]string{})
		n := 0
		for i := 0; i < 3; i++ {
			if _, err := e.ca.Auth.AuthorizeRenewToken(methodCtx(e.ca.Auth, "sign", false), m.str); err == nil {
				n++
			}
		}
		if n > 1 {
			return in, fmt.Sprintf("VIOLATION one-renew-token-authorized=%d", n), "ok"
		}
		if n == 0 {
			return in, "first-use-refused", "ok"
		}
		return in, "ok", "ok"
	case "usetoken-fault-before", "usetoken-fault-after":
		// the storage call of the one-time rule fails (before: nothing written; after: the record is written, the caller sees an
		// error): the request must be refused (fail closed, a 5xx), and over the whole sequence faulted request, replay, replay
		// after a restart at most one presentation is authorized; after the "after" fault none is (the record exists)
		hooks := &ss.Hooks{}
		e := newEnv(true, false, hooks)
		defer e.close()
		tok := must(e.ca.Token(fixture.TokenOpts{Subject: "d.example.com"}))
		armed := true
		errStore := errors.New("storage failure")
		if d.Kind == "usetoken-fault-before" {
			hooks.Before = func(op, key string) error {
				if op == "usetoken" && armed {
					armed = false
					return errStore
				}
				return nil
			}
		} else {
			hooks.After = func(op, key string, ok bool, err error) error {
				if op == "usetoken" && armed {
					armed = false
					return errStore
				}
				return nil
			}
		}
		_, err1 := e.ca.Auth.Authorize(methodCtx(e.ca.Auth, "sign", false), tok)
		_, err2 := e.ca.Auth.Authorize(methodCtx(e.ca.Auth, "sign", false), tok)
		e.restart()
		_, err3 := e.ca.Auth.Authorize(methodCtx(e.ca.Auth, "sign", false), tok)
		n := 0
		for _, err := range []error{err2, err3} {
			if err == nil {
				n++
			}
		}
		var sc interface{ StatusCode() int }
		switch {
		case err1 == nil:
			return in, "VIOLATION authorized-although-the-record-could-not-be-stored", "ok"
		case !errors.As(err1, &sc) || sc.StatusCode() < 500:
			return in, fmt.Sprintf("storage-failure-not-reported-as-server-error %v", err1), "ok"
		case n > 1, n == 1 && d.Kind == "usetoken-fault-after":
			return in, fmt.Sprintf("VIOLATION authorized-after-fault=%d", n), "ok"
		}
		return in, "ok", "ok"
	case "respell-gcp", "respell-aws":
		// GCP / AWS with disableTrustOnFirstUse: GetTokenID itself returns the hash of the presented string
		e := newEnv(true, false, nil)
		defer e.close()
		m := e.mintTok(&TokSpec{Prov: map[string]string{"respell-gcp": "gcpr", "respell-aws": "awsr"}[d.Kind], JTI: "r"}, map[string]string{})
		n := 0
		for i := 0; i < 7; i++ {
			if _, err := e.ca.Auth.Authorize(methodCtx(e.ca.Auth, "sign", false), spell(m.str, i)); err == nil {
				n++
			}
		}
		if n > 1 {
			return in, fmt.Sprintf("VIOLATION one-token-authorized=%d", n), "ok"
		}
		if n == 0 {
			return in, "first-use-refused", "ok"
		}
		return in, "ok", "ok"
	case "respell":
		e := newEnv(true, false, nil)
		defer e.close()
		jti := "-"
		if d.JTI {
			jti = ""
		}
		tok := must(e.ca.Token(fixture.TokenOpts{Subject: "d.example.com", JTI: jti}))
		n := 0
		for i := 0; i < 7; i++ {
			if _, err := e.ca.Auth.Authorize(methodCtx(e.ca.Auth, "sign", false), spell(tok, i)); err == nil {
				n++
			}
		}
		if n > 1 {
			return in, fmt.Sprintf("VIOLATION one-token-authorized=%d", n), "ok"
		}
		if n == 0 {
			return in, "first-use-refused", "ok"
		}
		return in, "ok", "ok"
	}
	return "", "", ""
}
