package main

import (
	"bytes"
	"crypto/ecdsa"
	"crypto/elliptic"
	"crypto/rand"
	"crypto/x509"
	"crypto/x509/pkix"
	"encoding/base64"
	"encoding/json"
	"encoding/pem"
	"fmt"
	"math/big"
	"net/http"
	"net/http/httptest"
	"strconv"
	"strings"

	"github.com/go-chi/chi/v5"
	"golang.org/x/crypto/ssh"

	"github.com/smallstep/certificates/api"
	"github.com/smallstep/certificates/authority"
	"verif/harness/cmd/c02/ss"
	c "verif/harness/common"
)

// HCase: a sequential history of HTTP requests through the CA's real router (api.Route mounted at / and /1.0 the way
// /repo/ca/ca.go mounts it): the handler reads the body, builds the method / token / skip contexts, calls
// Authority.Authorize (or AuthorizeRenewToken) and goes on to sign / revoke. What the harness observes of one request:
// the UseToken calls it made (hooks of the storage wrapper), whether the handler went on past the authorization (a
// certificate stored, the revoked table read or written, or a 2xx answer) and the status.
//
//	sign       POST /1.0/sign {csr, ott}
//	revoke     POST /1.0/revoke {serial, ott}
//	sshsign    POST /1.0/ssh/sign {publicKey, ott, ...}
//	sshsignid  same with an identity CSR: the handler authorizes the same token a second time under
//	           NewContextWithSkipTokenReuse + SignIdentityMethod (a second model request, skip = 1, which exists only
//	           when the first authorization succeeded and the SSH certificate was signed)
//	sshrenew sshrekey sshrevoke   POST /1.0/ssh/... {ott = proof-of-possession token}
//	renew      POST /1.0/renew, Authorization: Bearer <renew token>
//
// A restart of the process may happen between two requests.
type HReq struct {
	Tok     int
	Spell   int
	Route   string
	Restart bool // the process restarts before this request
}

type HCase struct {
	DB    bool
	NoChk bool
	Admin bool // enableAdmin (see env.admin)
	Toks  []TokSpec
	Reqs  []HReq
}

func router() http.Handler {
	mux := chi.NewRouter()
	api.Route(mux)
	mux.Route("/1.0", func(r chi.Router) { api.Route(r) })
	return mux
}

func tokenClaims(tok string) map[string]any {
	out := map[string]any{}
	p := strings.Split(strings.TrimSpace(tok), ".")
	if len(p) >= 2 {
		if b, err := base64.RawURLEncoding.DecodeString(strings.TrimRight(p[1], "=")); err == nil {
			json.Unmarshal(b, &out)
		}
	}
	return out
}

func csrPEM(cn string, dns, emails []string) string {
	key := must(ecdsa.GenerateKey(elliptic.P256(), rand.Reader))
	der := must(x509.CreateCertificateRequest(rand.Reader, &x509.CertificateRequest{Subject: pkix.Name{CommonName: cn}, DNSNames: dns, EmailAddresses: emails}, key))
	return string(pem.EncodeToMemory(&pem.Block{Type: "CERTIFICATE REQUEST", Bytes: der}))
}

func sshPub() []byte {
	key := must(ecdsa.GenerateKey(elliptic.P256(), rand.Reader))
	return must(ssh.NewPublicKey(&key.PublicKey)).Marshal()
}

var routeMethod = map[string]string{"sign": "sign", "revoke": "revoke", "sshsign": "sshsign", "sshsignid": "sshsign",
	"sshrenew": "sshrenew", "sshrekey": "sshrekey", "sshrevoke": "sshrevoke", "renew": "renewtoken"}

func runHandlers(h *HCase) (string, string) {
	hooks := &ss.Hooks{}
	e := newEnvAdmin(h.DB, h.NoChk, h.Admin, hooks)
	defer func() { e.close() }()
	start0 := e.startSec()
	base := len(ss.Dump(e.ca.DB, "used_ott"))
	type call struct {
		op string
		ok bool
		er bool
	}
	var calls []call
	hooks.After = func(op, key string, ok bool, err error) error {
		calls = append(calls, call{op, ok, err != nil})
		return nil
	}
	toks := make([]*minted, len(h.Toks))
	jtis := map[string]string{}
	var reqIn, outs, evs []string
	stored := 0
	for _, rq := range h.Reqs {
		if rq.Restart {
			if !h.DB {
				stored = 0
			}
			evs = append(evs, "r"+strconv.FormatInt(e.restart(), 10))
		}
		if toks[rq.Tok] == nil {
			toks[rq.Tok] = e.mintTok(&h.Toks[rq.Tok], jtis)
		}
		m := toks[rq.Tok]
		presented := spell(m.str, rq.Spell)
		cl := tokenClaims(m.str)
		sub, _ := cl["sub"].(string)
		var body map[string]any
		path, bearer := "", ""
		switch rq.Route {
		case "sign":
			path = "/1.0/sign"
			switch h.Toks[rq.Tok].Prov {
			case "oidc":
				email, _ := cl["email"].(string)
				body = map[string]any{"csr": csrPEM(email, nil, []string{email}), "ott": presented}
			case "jwk", "jwk2", "x5c", "":
				body = map[string]any{"csr": csrPEM(sub, []string{sub}, nil), "ott": presented}
			case "awst", "awsr": // the common name must be the token's subject
				body = map[string]any{"csr": csrPEM(sub, []string{"vm.example.com"}, nil), "ott": presented}
			default:
				body = map[string]any{"csr": csrPEM("vm.example.com", []string{"vm.example.com"}, nil), "ott": presented}
			}
		case "revoke":
			path = "/revoke" // the unversioned mount
			body = map[string]any{"serial": new(big.Int).SetBytes([]byte(randHex()[:12])).String(), "ott": presented, "passive": true, "reasonCode": 0}
		case "sshsign", "sshsignid":
			path = "/1.0/ssh/sign"
			body = map[string]any{"publicKey": sshPub(), "ott": presented, "certType": "host", "keyID": sub, "principals": []string{sub}}
			if rq.Route == "sshsignid" {
				body["identityCSR"] = csrPEM(sub, []string{sub}, nil)
			}
		case "sshrenew":
			path, body = "/1.0/ssh/renew", map[string]any{"ott": presented}
		case "sshrekey":
			path, body = "/ssh/rekey", map[string]any{"ott": presented, "publicKey": sshPub()}
		case "sshrevoke":
			serial := sub // a proof-of-possession token's subject is the certificate's serial
			if _, err := strconv.ParseUint(serial, 10, 64); err != nil {
				serial = strconv.FormatUint(e.sshCert.Serial, 10) // another token on this route: the body must still pass Validate
			}
			path, body = "/1.0/ssh/revoke", map[string]any{"serial": serial, "ott": presented, "passive": true, "reasonCode": 0}
		case "renew":
			path, bearer = "/1.0/renew", presented
		}
		iat := "-"
		if m.hasIat {
			iat = strconv.FormatInt(m.iat, 10)
		}
		idr := m.idr
		if idr == "sha-of-presented" {
			idr = "k" + c.X(sha256hex(presented))
		}
		// a renew token is a token for /renew only (its issuer names no provisioner: Authorize refuses it at the look-up),
		// and /renew takes nothing but renew tokens (no x5cInsecure header: refused before the record)
		lookupOK := m.lookupOK && (rq.Route == "renew") == (h.Toks[rq.Tok].Prov == "renewtok")
		idx := len(reqIn)
		reqIn = append(reqIn, fmt.Sprintf("%s:%s:%s:%s:0:%s", c.B(lookupOK), iat, idr, c.X(payloadSha(presented)), c.B(m.valid[routeMethod[rq.Route]])))
		st := "s" + strconv.Itoa(idx)
		evs = append(evs, st, st, st, st)

		calls = nil
		var buf bytes.Buffer
		if body != nil {
			json.NewEncoder(&buf).Encode(body)
		}
		req := httptest.NewRequest("POST", "https://ca.verif.test"+path, &buf)
		if bearer != "" {
			req.Header.Set("Authorization", "Bearer "+bearer)
		}
		req = req.WithContext(authority.NewContext(req.Context(), e.ca.Auth))
		w := httptest.NewRecorder()
		crashed := false
		func() {
			defer func() {
				if p := recover(); p != nil {
					crashed = true
				}
			}()
			router().ServeHTTP(w, req)
		}()
		// what the request did
		var uses []call
		past := map[string]bool{}
		for _, cl := range calls {
			if cl.op == "usetoken" {
				uses = append(uses, cl)
			} else {
				past[cl.op] = true
			}
		}
		cas := func(i int) string {
			if i >= len(uses) {
				return "none"
			}
			switch {
			case uses[i].er:
				return "error"
			case uses[i].ok:
				stored++
				return "stored"
			}
			return "exists"
		}
		// (without a database the revoke handlers answer 501 once the token is authorized)
		// (a token of a type without token id, K8sSA, is authorized for revocation and Authority.Revoke then fails on GetTokenID: 500)
		wentOn := w.Code/100 == 2 || (!h.DB && w.Code == 501 && strings.HasSuffix(rq.Route, "revoke")) || (rq.Route == "revoke" && m.idr == "e" && w.Code == 500) || past["storecert"] || past["storesshcert"] || past["revoke"] || past["revokessh"] || past["issshrevoked"] || past["isrevoked"]
		ans := ""
		switch {
		case crashed:
			ans = "crash"
		case wentOn:
			ans = "auth"
		case w.Code == 401:
			ans = "deny"
		default:
			ans = "status" + strconv.Itoa(w.Code)
		}
		outs = append(outs, ans+":"+cas(0))
		if rq.Route == "sshsignid" && past["storesshcert"] {
			// the second authorization of the same request: skip context, SignIdentityMethod
			idx2 := len(reqIn)
			reqIn = append(reqIn, fmt.Sprintf("%s:%s:%s:%s:1:%s", c.B(m.lookupOK), iat, idr, c.X(payloadSha(presented)), c.B(m.valid["sign"])))
			st2 := "s" + strconv.Itoa(idx2)
			evs = append(evs, st2, st2, st2, st2)
			var out struct {
				IdentityCertificate []api.Certificate `json:"identityCrt"`
			}
			json.Unmarshal(w.Body.Bytes(), &out)
			ans2 := "deny"
			switch {
			case past["storecert"] && len(out.IdentityCertificate) > 0 && w.Code == 201:
				ans2 = "auth"
			case past["storecert"] || len(out.IdentityCertificate) > 0:
				ans2 = "inconsistent-status" + strconv.Itoa(w.Code)
			case w.Code != 401:
				ans2 = "status" + strconv.Itoa(w.Code)
			}
			outs = append(outs, ans2+":"+cas(1))
		} else if len(uses) > 1 {
			outs[len(outs)-1] += "+second-usetoken"
		}
	}
	size := stored
	if h.DB {
		size = len(ss.Dump(e.ca.DB, "used_ott")) - base
	}
	in := fmt.Sprintf("h db=%s chk=%s start=%d reqs=%s evs=%s", c.B(h.DB), c.B(!h.NoChk), start0, strings.Join(reqIn, ";"), c.List(evs))
	impl := strings.Join(outs, ",") + " n=" + strconv.Itoa(size)
	// the property on the implementation's own answers: with a database, two HTTP requests served under one recorded id
	if h.DB {
		seen := map[string]bool{}
		for i, o := range outs {
			f := strings.Split(reqIn[i], ":")
			if !strings.HasPrefix(o, "auth:") || f[4] == "1" || f[2] == "u" || f[2] == "e" {
				continue
			}
			key := f[2]
			if key == "kx" {
				key = f[3]
			}
			if seen[key] {
				impl += " VIOLATION=two-requests-served-under-one-id"
				break
			}
			seen[key] = true
		}
	}
	return in, impl
}

func cornerHandlers() []*HCase {
	jwk := TokSpec{Prov: "jwk", JTI: "r", Aud: "sign"}
	sshs := TokSpec{Prov: "jwk", JTI: "r", Aud: "sshsign"}
	rev := TokSpec{Prov: "jwk", JTI: "r", Aud: "revoke"}
	pop := func(aud string) TokSpec { return TokSpec{Prov: "sshpop", JTI: "r", Aud: aud} }
	return []*HCase{
		// every route once and replayed, also after a restart
		{DB: true, Toks: []TokSpec{jwk, rev, sshs, sshs, pop("sshrenew"), pop("sshrekey"), pop("sshrevoke"), {Prov: "renewtok", JTI: "r"}},
			Reqs: []HReq{{0, 0, "sign", false}, {0, 0, "sign", false}, {1, 0, "revoke", false}, {1, 1, "revoke", false}, {2, 0, "sshsign", false}, {2, 0, "sshsign", false},
				{3, 0, "sshsignid", false}, {3, 0, "sshsignid", false}, {3, 0, "sign", false}, {4, 0, "sshrenew", false}, {4, 0, "sshrenew", false}, {5, 0, "sshrekey", false}, {5, 2, "sshrekey", false},
				{7, 0, "renew", false}, {7, 0, "renew", false}, {6, 0, "sshrevoke", false}, {6, 0, "sshrevoke", false}, {0, 0, "sign", true}, {3, 0, "sshsignid", false}, {4, 0, "sshrenew", false}}},
		// the identity path first, then the same token against the other routes: everything after the first use is refused
		{DB: true, Toks: []TokSpec{sshs, sshs}, Reqs: []HReq{{0, 0, "sshsignid", false}, {0, 0, "sshsign", false}, {0, 0, "sign", false}, {1, 0, "sign", false}, {1, 0, "sshsignid", false}}},
		// no database: replay inside one process refused, token from before the restart refused by the issued-at test
		{DB: false, Toks: []TokSpec{sshs, jwk, {Prov: "jwk", JTI: "r", Aud: "sshsign", IatOff: 5}}, Reqs: []HReq{{0, 0, "sshsignid", false}, {0, 0, "sshsignid", false}, {1, 0, "sign", false}, {1, 0, "sign", true}, {2, 0, "sshsignid", false}}},
		// enableAdmin: the same through provisioners migrated into and loaded from the admin database
		{DB: true, Admin: true, Toks: []TokSpec{jwk, sshs, pop("sshrenew"), {Prov: "oidc", JTI: "r"}, {Prov: "k8s", JTI: "-"}, {Prov: "renewtok", JTI: "r"}},
			Reqs: []HReq{{0, 0, "sign", false}, {0, 0, "sign", false}, {1, 0, "sshsignid", false}, {1, 0, "sshsignid", false}, {2, 0, "sshrenew", false}, {2, 0, "sshrenew", false}, {3, 0, "sign", false}, {3, 0, "sign", false},
				{4, 0, "sign", false}, {4, 0, "sign", false}, {5, 0, "renew", false}, {5, 0, "renew", false}, {0, 0, "sign", true}, {1, 0, "sshsignid", false}, {5, 0, "renew", false}}},
		// other provisioner types through the sign handler
		{DB: true, Toks: []TokSpec{{Prov: "oidc", JTI: "r"}, {Prov: "k8s", JTI: "-"}, {Prov: "azt", JTI: "r"}, {Prov: "gcpt", JTI: "r"}, {Prov: "azr", JTI: "r"}, {Prov: "gcpr", JTI: "r"}, {Prov: "jwk2", JTI: "r"}, {Prov: "awst", JTI: "r"}, {Prov: "awsr", JTI: "r"}},
			Reqs: []HReq{{0, 0, "sign", false}, {0, 0, "sign", false}, {1, 0, "sign", false}, {1, 0, "sign", false}, {2, 0, "sign", false}, {2, 0, "sign", false}, {3, 0, "sign", false}, {3, 0, "sign", false},
				{4, 0, "sign", false}, {4, 0, "sign", false}, {5, 0, "sign", false}, {5, 0, "sign", false}, {6, 0, "sign", false}, {6, 0, "sshsign", false},
				{7, 0, "sign", false}, {7, 0, "sign", false}, {8, 0, "sign", false}, {8, 0, "sign", false}}},
	}
}

func genHandlers(r *c.Rng) *HCase {
	h := &HCase{DB: r.Chance(3, 4), NoChk: r.Chance(1, 8)}
	nt := 1 + r.Intn(4)
	for i := 0; i < nt; i++ {
		ts := TokSpec{JTI: c.Pick(r, []string{"r", "r", "r", "a", "-", "R"}), Prov: "jwk"}
		switch r.Intn(10) {
		case 0, 1:
			ts.Aud = "sign"
		case 2, 3, 4:
			ts.Aud = "sshsign"
		case 5:
			ts.Aud = "revoke"
		case 6:
			ts.Prov, ts.Aud = "sshpop", c.Pick(r, []string{"sshrenew", "sshrekey", "sshrevoke"})
		case 7:
			ts.Prov = "renewtok"
			ts.Issuer = c.Pick(r, []string{"", "", "acme", "k8s", "oidc"})
		case 8:
			ts.Prov = c.Pick(r, []string{"oidc", "k8s", "jwk2", "azt", "gcpt", "azr", "gcpr", "awst", "awsr", "x5c", "x5c", "x5c"})
			ts.Aud = "sign"
			if ts.Prov == "x5c" {
				ts.Aud = c.Pick(r, []string{"sign", "revoke", "sshsign"})
			}
		case 9:
			ts.Aud = "sshsign"
			ts.Defect = c.Pick(r, []string{"badsig", "expired", "aud", "kid"})
		}
		if r.Chance(1, 10) {
			ts.NoIat = true
		}
		h.Toks = append(h.Toks, ts)
	}
	n := 2 + r.Intn(7)
	for i := 0; i < n; i++ {
		rq := HReq{Tok: r.Intn(nt), Restart: r.Chance(1, 12)}
		ts := h.Toks[rq.Tok]
		switch {
		case ts.Prov == "sshpop":
			rq.Route = ts.Aud
		case ts.Prov == "renewtok":
			rq.Route = "renew"
		case ts.Aud == "sshsign":
			rq.Route = c.Pick(r, []string{"sshsignid", "sshsignid", "sshsign", "sign"})
		case ts.Aud == "revoke":
			rq.Route = "revoke"
		default:
			rq.Route = "sign"
		}
		if r.Chance(1, 10) { // the token against another route
			rq.Route = c.Pick(r, []string{"sign", "revoke", "sshsign", "sshsignid", "sshrenew", "sshrevoke"})
		}
		if r.Chance(1, 6) {
			rq.Spell = r.Intn(7)
		}
		h.Reqs = append(h.Reqs, rq)
	}
	if h.DB && r.Chance(1, 5) {
		h.Admin = true
		for i := range h.Toks {
			switch h.Toks[i].Prov {
			case "azt", "azr", "gcpt", "gcpr", "awst", "awsr":
				h.Toks[i].Prov = "oidc"
			}
		}
	}
	return h
}
