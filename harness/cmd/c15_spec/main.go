// Stage "spec" of C15: real SCEP handlers vs the property's own expectation, no model
// (column 3 = "nocert" whenever a configured challenge was not accepted); see ../c15/scepx/run.go.
package main

import "verif/harness/cmd/c15/scepx"

func main() { scepx.Run("spec") }
