// Harness for C05, stage "chain" (end to end, three-way).
//
// Per case a real chain is built (root + 1–3 intermediates, each with generated permitted /
// excluded DNS, IP, e-mail and URI subtrees, with or without a matching authority key
// identifier on the top intermediate), an embedded authority.Authority is started on it (so
// the chain selection of authority.init and constraints.New are the real code), and for each
// candidate leaf three answers are collected:
//
//	eng  the CA's answer: Authority.Sign on a CSR with the names (403 -> deny, 500 -> err,
//	     certificate -> allow); cross-checked against the engine's ValidateCertificate, the
//	     pre-signing gate called directly, Authority.Renew / Rekey of a certificate that
//	     carries the names, and (DNS/IP-only names) GetTLSCertificate of an authority whose
//	     configured dnsNames spell these names (IP literals also in the bracketed host form);
//	     any difference is reported as "inconsistent:…". In a quarter of the cases some of the
//	     DNS names are not in the CSR but added by a certificate enforcer (WithX509Enforcers or a
//	     CertificateEnforcer sign option): the gate must see the template as it is signed
//	vfy  crypto/x509 Certificate.Verify (the independent standard verifier) on the certificate
//	     the CA returned with the chain it returned and the configured root, or, when the CA
//	     refused, on a leaf with the same names signed directly with the issuing CA's key
//	     (ok | nc = a name lies outside the subtrees | parse = a name could not be parsed / matched | other)
//	the Lean specification, computed by the driver from the input line.
//
// Output line: "<model input line>\teng=<allow|deny|err|crash> vfy=<ok|nc|parse|other>".
// A leaf the CA signs and Verify rejects (eng=allow vfy=nc) is a definite violation of C05.
package main

import (
	"bytes"
	"context"
	"crypto"
	"crypto/ecdsa"
	"crypto/elliptic"
	"crypto/rand"
	"crypto/x509"
	"crypto/x509/pkix"
	"encoding/hex"
	"encoding/json"
	"encoding/pem"
	"errors"
	"flag"
	"fmt"
	"math/big"
	"os"
	"strings"
	"time"

	"github.com/smallstep/certificates/authority"
	"github.com/smallstep/certificates/authority/config"
	"github.com/smallstep/certificates/authority/provisioner"
	"github.com/smallstep/certificates/ca"
	"github.com/smallstep/certificates/errs"
	"go.step.sm/crypto/x509util"
	"verif/harness/cmd/c05/gen"
	c "verif/harness/common"
)

// Case: Levels[0] is the issuing CA, the last level is the root.
type Case struct {
	Levels []gen.Level
	KeyID  string // "" normal | "noaki" top intermediate without authority key id | "wrongaki" with a different one
	Names  gen.Names
	// TLS (optional): the same DNS names and IPs as Names spelled as the CA's `dnsNames`
	// configuration, for the GetTLSCertificate cross-check
	TLS []string `json:",omitempty"`
	// EnfDNS > 0: the last EnfDNS entries of Names.DNS are not requested in the CSR but added to
	// the template by a certificate enforcer — EnfVia "authority": one injected with
	// authority.WithX509Enforcers, "option": a provisioner.CertificateEnforcer sign option. The
	// signed certificate carries all of Names, so the CA's answer must be the engine's on all of them.
	EnfDNS int    `json:",omitempty"`
	EnfVia string `json:",omitempty"`
	// Bundle != "": the roots are configured with authority.WithX509RootBundle instead of
	// WithX509RootCerts. "crl": retired root, its CRL, the current root; "tail": current root, CRL,
	// retired root; "hdr": the retired root in a CERTIFICATE block with PEM headers (skipped by the
	// bundle reader), then the current root.
	Bundle string `json:",omitempty"`
	// SanExt: the template data carries, besides the requested names, a SAN of a type the standard
	// library does not know (a permanentIdentifier, as ACME device-attest orders and hardware
	// templates have): x509util then builds the subjectAltName extension itself. The CA's answer is
	// the one Authority.Sign gives; the names in the signed certificate are the same.
	SanExt bool `json:",omitempty"`
	// Cfg "files": the authority is not assembled from options but from a configuration as the
	// step-ca binary reads it: ca.json fields root (one or two files, "files2": a retired root
	// first), crt (PEM bundle of all intermediates, issuing CA first) and key on disk, started
	// with authority.New. It is started twice: first on the previous, unconstrained intermediate
	// of the same root, then — after the crt/key files were replaced, as an operator rotating the
	// intermediate does before a restart / SIGHUP reload — on the chain of the case. The CA's own
	// server certificate is then obtained the way the binary does: ca.New(config) -> Init.
	Cfg string `json:",omitempty"`
	// Ord (chains with two or more intermediates, options only): the embedder gives the signer
	// option the issuing certificate alone (WithX509Signer) and the complete list of intermediates
	// with WithX509IntermediateCerts — "iclast": after the signer option, "icfirst": before it.
	// The CAS then returns the issuing certificate only; the other intermediates are known to
	// the relying party.
	Ord string `json:",omitempty"`
}

var (
	retired *x509.Certificate // a root of an earlier generation: issues nothing in these chains
	crlPEM  []byte
)

func pemBlock(typ string, der []byte, hdr map[string]string) []byte {
	return pem.EncodeToMemory(&pem.Block{Type: typ, Bytes: der, Headers: hdr})
}

// rootOption configures the authority's roots as the case says; blocks/roots describe the same
// for the model line (bundle= and roots= fields).
func (k *Case) rootOption(b *built) authority.Option {
	cur, old := pemBlock("CERTIFICATE", b.root.Raw, nil), pemBlock("CERTIFICATE", retired.Raw, nil)
	switch k.Bundle {
	case "crl":
		return authority.WithX509RootBundle(append(append(old, crlPEM...), cur...))
	case "tail":
		return authority.WithX509RootBundle(append(append(cur, crlPEM...), old...))
	case "hdr":
		return authority.WithX509RootBundle(append(pemBlock("CERTIFICATE", retired.Raw, map[string]string{"Comment": "retired"}), cur...))
	case "bad":
		// a CERTIFICATE block that does not parse after the current root: the bundle is refused
		return authority.WithX509RootBundle(append(cur, pemBlock("CERTIFICATE", []byte{0x30, 0x03, 0x02, 0x01, 0x01}, nil)...))
	}
	return authority.WithX509RootCerts(b.root)
}

func (k *Case) rootFields(b *built) string {
	signs := issuedBy(b.ints, b.root)
	cur := certField(b.root) + "~" + c.B(signs)
	old := certField(retired) + "~" + c.B(issuedBy(b.ints, retired))
	if k.Cfg == "files2" {
		return "roots=" + old + "|" + cur
	}
	switch k.Bundle {
	case "crl":
		return "roots=" + old + "|" + cur + " bundle=r0,x,r1"
	case "tail":
		return "roots=" + cur + "|" + old + " bundle=r0,x,r1"
	case "hdr":
		return "roots=" + cur + " bundle=x,r0"
	case "bad":
		return "roots=" + cur + " bundle=r0,b"
	}
	return "roots=" + cur
}

// curEnf is what the authority-level enforcer of every embedded authority appends (per case).
var curEnf []string

type addDNS struct{ names *[]string }

func (e addDNS) Enforce(crt *x509.Certificate) error {
	crt.DNSNames = append(crt.DNSNames, (*e.names)...)
	return nil
}

// spellTLS writes DNS/IP-only names as config dnsNames; IP literals are bracketed now and then
// ("[::1]", "[fd00::1]", "[10.0.0.1]"), which GetTLSCertificate must turn back into IPs.
// nil when the names cannot be a dnsNames list.
func spellTLS(r *c.Rng, n *gen.Names) []string {
	ips, _, ok := n.Parsed()
	if !ok || len(n.Emails)+len(n.URIs) > 0 || len(n.DNS)+len(ips) == 0 {
		return nil
	}
	out := append([]string{}, n.DNS...)
	for _, ip := range ips {
		if l := len(ip); l != 4 && l != 16 {
			return nil
		}
		s := ip.String()
		if r.Chance(1, 2) {
			s = "[" + s + "]"
		}
		out = append(out, s)
	}
	// every DNS name must stay a DNS name under the CA's own classification
	d, i, e, u := x509util.SplitSANs(n.DNS)
	if len(d) != len(n.DNS) || len(i)+len(e)+len(u) > 0 {
		return nil
	}
	return out
}

func sameNameSet(a, b *x509.Certificate) bool {
	set := func(crt *x509.Certificate) map[string]bool {
		m := map[string]bool{}
		for _, d := range crt.DNSNames {
			m["dns:"+strings.ToLower(d)] = true // x509util lower-cases the dNSNames it encodes
		}
		for _, ip := range crt.IPAddresses {
			m["ip:"+ip.String()] = true
		}
		for _, e := range crt.EmailAddresses {
			m["email:"+e] = true
		}
		for _, u := range crt.URIs {
			m["uri:"+u.String()] = true
		}
		return m
	}
	x, y := set(a), set(b)
	if len(x) != len(y) {
		return false
	}
	for k := range x {
		if !y[k] {
			return false
		}
	}
	return true
}

func sameNameFields(a, b *x509.Certificate) bool {
	if !sameNames(a, b) {
		return false
	}
	for i := range a.EmailAddresses {
		if a.EmailAddresses[i] != b.EmailAddresses[i] {
			return false
		}
	}
	for i := range a.URIs {
		if a.URIs[i].String() != b.URIs[i].String() {
			return false
		}
	}
	return true
}

func sameNames(a, b *x509.Certificate) bool {
	if len(a.DNSNames) != len(b.DNSNames) || len(a.IPAddresses) != len(b.IPAddresses) ||
		len(a.EmailAddresses) != len(b.EmailAddresses) || len(a.URIs) != len(b.URIs) {
		return false
	}
	for i := range a.DNSNames {
		if a.DNSNames[i] != b.DNSNames[i] {
			return false
		}
	}
	for i := range a.IPAddresses {
		if !a.IPAddresses[i].Equal(b.IPAddresses[i]) {
			return false
		}
	}
	return true
}

var (
	keys    []*ecdsa.PrivateKey
	leafKey *ecdsa.PrivateKey
	t0      = time.Now().Add(-time.Hour).Truncate(time.Second)
	t1      = t0.Add(48 * time.Hour)
	stats   = map[string]int{}
)

type built struct {
	ints  []*x509.Certificate // issuing CA first
	root  *x509.Certificate
	auth  *authority.Authority
	issKy crypto.Signer
	cfg   *config.Config // Cfg "files": the configuration the authority was started from
	dir   string
	short bool // Ord cases: the CAS returns the issuing certificate only
}

// returned is the chain the CA is expected to hand out with a leaf.
func (b *built) returned() int {
	if b.short {
		return 1
	}
	return len(b.ints)
}

func (b *built) close() {
	if b.dir != "" {
		os.RemoveAll(b.dir)
	}
}

func writePEMs(path string, certs ...*x509.Certificate) error {
	var out []byte
	for _, crt := range certs {
		out = append(out, pemBlock("CERTIFICATE", crt.Raw, nil)...)
	}
	return os.WriteFile(path, out, 0o600)
}

func writeKey(path string, key *ecdsa.PrivateKey) error {
	der, err := x509.MarshalECPrivateKey(key)
	if err != nil {
		return err
	}
	return os.WriteFile(path, pemBlock("EC PRIVATE KEY", der, nil), 0o600)
}

// fromFiles starts the authority from configuration files, after a first start on the previous
// intermediate of the same root.
func (k *Case) fromFiles(b *built, rootKey *ecdsa.PrivateKey) (*authority.Authority, error) {
	dir, err := os.MkdirTemp("", "verif-c05-cfg-")
	if err != nil {
		return nil, err
	}
	b.dir = dir
	rootFile, intFile, keyFile := dir+"/root.crt", dir+"/int.crt", dir+"/int.key"
	roots := []string{rootFile}
	if err := writePEMs(rootFile, b.root); err != nil {
		return nil, err
	}
	if k.Cfg == "files2" {
		if err := writePEMs(dir+"/retired.crt", retired); err != nil {
			return nil, err
		}
		roots = []string{dir + "/retired.crt", rootFile}
	}
	cfg := &config.Config{Root: roots, IntermediateCert: intFile, IntermediateKey: keyFile,
		Address: "127.0.0.1:0", DNSNames: []string{"ca.verif.test"},
		AuthorityConfig: &config.AuthConfig{}}
	// first generation: an unconstrained intermediate
	ot := &x509.Certificate{SerialNumber: big.NewInt(55), Subject: pkix.Name{CommonName: "C05 previous intermediate"},
		NotBefore: t0, NotAfter: t1, IsCA: true, BasicConstraintsValid: true,
		KeyUsage: x509.KeyUsageCertSign | x509.KeyUsageCRLSign, SubjectKeyId: []byte{0xC0, 0x05, 0x55, 0x01}}
	od, err := x509.CreateCertificate(rand.Reader, ot, b.root, leafKey.Public(), rootKey)
	if err != nil {
		return nil, err
	}
	oldInt, _ := x509.ParseCertificate(od)
	if err := writePEMs(intFile, oldInt); err != nil {
		return nil, err
	}
	if err := writeKey(keyFile, leafKey); err != nil {
		return nil, err
	}
	a0, err := authority.New(cfg, authority.WithQuietInit())
	if err != nil {
		return nil, fmt.Errorf("first start: %w", err)
	}
	a0.Shutdown()
	// rotation: the files now hold the chain of the case; restart
	if err := writePEMs(intFile, b.ints...); err != nil {
		return nil, err
	}
	if err := writeKey(keyFile, keys[0]); err != nil {
		return nil, err
	}
	cfg2 := *cfg
	cfg2.AuthorityConfig = &config.AuthConfig{}
	b.cfg = &cfg2
	return authority.New(&cfg2, authority.WithQuietInit(), authority.WithX509Enforcers(addDNS{&curEnf}))
}

func caTemplate(i int, l *gen.Level) *x509.Certificate {
	t := &x509.Certificate{
		SerialNumber:          big.NewInt(int64(100 + i)),
		Subject:               pkix.Name{CommonName: fmt.Sprintf("C05 CA level %d", i)},
		NotBefore:             t0,
		NotAfter:              t1,
		IsCA:                  true,
		BasicConstraintsValid: true,
		KeyUsage:              x509.KeyUsageCertSign | x509.KeyUsageCRLSign,
		SubjectKeyId:          []byte{0xC0, 0x05, byte(i), 0x01},
	}
	l.Apply(t)
	if !l.Empty() {
		t.PermittedDNSDomainsCritical = true
	}
	return t
}

// build creates the chain top-down; ok=false when crypto/x509 refuses to create or re-parse a
// certificate with these subtrees (not a chain a CA could be configured with).
func build(k *Case) (*built, bool) {
	n := len(k.Levels)
	certs := make([]*x509.Certificate, n)
	for i := n - 1; i >= 0; i-- {
		tpl := caTemplate(i, &k.Levels[i])
		parent, signer := tpl, keys[i]
		if i < n-1 {
			parent, signer = certs[i+1], keys[i+1]
			if i == n-2 && k.KeyID != "" {
				p := *parent
				p.SubjectKeyId = nil
				parent = &p
				if k.KeyID == "wrongaki" {
					tpl.AuthorityKeyId = []byte{0xBA, 0xD0}
				}
			}
		}
		der, err := x509.CreateCertificate(rand.Reader, tpl, parent, keys[i].Public(), signer)
		if err != nil {
			return nil, false
		}
		if certs[i], err = x509.ParseCertificate(der); err != nil {
			return nil, false
		}
	}
	b := &built{ints: certs[:n-1], root: certs[n-1], issKy: keys[0]}
	var a *authority.Authority
	var err error
	if k.Cfg != "" {
		a, err = k.fromFiles(b, keys[n-1])
	} else if k.Ord == "icfirst" && len(b.ints) >= 2 {
		b.short = true
		a, err = authority.NewEmbedded(k.rootOption(b), authority.WithX509IntermediateCerts(b.ints...),
			authority.WithX509Signer(b.ints[0], b.issKy), authority.WithX509Enforcers(addDNS{&curEnf}))
	} else if k.Ord == "iclast" && len(b.ints) >= 2 {
		b.short = true
		a, err = authority.NewEmbedded(k.rootOption(b), authority.WithX509Signer(b.ints[0], b.issKy),
			authority.WithX509IntermediateCerts(b.ints...), authority.WithX509Enforcers(addDNS{&curEnf}))
	} else {
		a, err = authority.NewEmbedded(k.rootOption(b), authority.WithX509SignerChain(b.ints, b.issKy),
			authority.WithX509Enforcers(addDNS{&curEnf}))
	}
	if err != nil && k.Bundle == "bad" {
		return b, true // no authority: reported as such by emit
	}
	if err != nil {
		fmt.Fprintln(os.Stderr, "authority:", err)
		b.close()
		return nil, false
	}
	b.auth = a
	return b, true
}

// issuedBy: the input bit of the root selection in authority.init — the root's subject is the
// issuer of an intermediate of the list and its key verifies that intermediate's signature.
func issuedBy(ints []*x509.Certificate, root *x509.Certificate) bool {
	for _, crt := range ints {
		if bytes.Equal(crt.RawIssuer, root.RawSubject) && crt.CheckSignatureFrom(root) == nil {
			return true
		}
	}
	return false
}

func certField(crt *x509.Certificate) string {
	l := gen.LevelOf(crt)
	return strings.Join([]string{c.XB(crt.RawSubject), c.XB(crt.RawIssuer), c.XB(crt.SubjectKeyId), c.XB(crt.AuthorityKeyId), l.Render()}, "~")
}

func (k *Case) render(b *built) (string, bool) {
	names, ok := k.Names.Render()
	if !ok {
		return "", false
	}
	ints := make([]string, len(b.ints))
	for i, crt := range b.ints {
		ints[i] = certField(crt)
	}
	js, _ := json.Marshal(k)
	// external input of the root selection in authority.init: does the root's key verify the last
	// intermediate's signature (computed with the same crypto/x509 call)
	san := ""
	if k.SanExt {
		san = " san=ext"
	}
	if b.short && k.Ord == "icfirst" {
		san += " ord=icfirst"
	}
	return fmt.Sprintf("st=chain ints=%s %s %s%s case=x%s", strings.Join(ints, "|"), k.rootFields(b), names, san, hex.EncodeToString(js)), true
}

func verify(leaf *x509.Certificate, chain []*x509.Certificate, root *x509.Certificate) string {
	return verifyAt(leaf, chain, root, t0.Add(time.Hour))
}

func verifyAt(leaf *x509.Certificate, chain []*x509.Certificate, root *x509.Certificate, at time.Time) string {
	roots, ints := x509.NewCertPool(), x509.NewCertPool()
	roots.AddCert(root)
	for _, crt := range chain {
		ints.AddCert(crt)
	}
	_, err := leaf.Verify(x509.VerifyOptions{Roots: roots, Intermediates: ints, CurrentTime: at, KeyUsages: []x509.ExtKeyUsage{x509.ExtKeyUsageAny}})
	if err == nil {
		return "ok"
	}
	var inv x509.CertificateInvalidError
	if errors.As(err, &inv) {
		if inv.Reason == x509.CANotAuthorizedForThisName {
			// the verifier reports a name it cannot match at all (URI without host name, domain it
			// cannot parse) under the same reason; keep "lies outside the subtrees" apart from that
			if strings.Contains(inv.Detail, " is excluded by constraint ") || strings.HasSuffix(inv.Detail, " is not permitted by any constraint") {
				return "nc"
			}
			return "parse"
		}
		return fmt.Sprintf("other:%d", inv.Reason)
	}
	if strings.HasPrefix(err.Error(), "x509: cannot parse ") {
		return "parse"
	}
	return "other"
}

// direct signs a leaf with the names using the issuing CA's key, without asking the CA.
func direct(b *built, tpl *x509.Certificate) (*x509.Certificate, bool) {
	der, err := x509.CreateCertificate(rand.Reader, tpl, b.ints[0], leafKey.Public(), b.issKy)
	if err != nil {
		return nil, false
	}
	crt, err := x509.ParseCertificate(der)
	return crt, err == nil
}

// tplOption is what provisioner.TemplateOptions yields for a provisioner without a custom template.
type tplOption struct{ data x509util.TemplateData }

func (t tplOption) Options(provisioner.SignOptions) []x509util.Option {
	return []x509util.Option{x509util.WithTemplate(x509util.DefaultLeafTemplate, t.data)}
}

// sanList types every SAN explicitly (CreateSANs would guess the type from the text).
func sanList(csr *x509.CertificateRequest) []x509util.SubjectAlternativeName {
	var out []x509util.SubjectAlternativeName
	for _, d := range csr.DNSNames {
		out = append(out, x509util.SubjectAlternativeName{Type: x509util.DNSType, Value: d})
	}
	for _, ip := range csr.IPAddresses {
		out = append(out, x509util.SubjectAlternativeName{Type: x509util.IPType, Value: ip.String()})
	}
	for _, e := range csr.EmailAddresses {
		out = append(out, x509util.SubjectAlternativeName{Type: x509util.EmailType, Value: e})
	}
	for _, u := range csr.URIs {
		out = append(out, x509util.SubjectAlternativeName{Type: x509util.URIType, Value: u.String()})
	}
	return out
}

func statusClass(err error) string {
	var ee *errs.Error
	if errors.As(err, &ee) {
		switch st := ee.StatusCode(); {
		case st == 403:
			return "deny"
		case st >= 500:
			return "err"
		default:
			return fmt.Sprintf("status:%d", st)
		}
	}
	return "err"
}

func (k *Case) run(b *built) (out string, ok bool) {
	defer func() {
		if r := recover(); r != nil {
			out, ok = "eng=crash vfy=-", true
		}
	}()
	ips, uris, _ := k.Names.Parsed()
	tpl := &x509.Certificate{
		SerialNumber: big.NewInt(7), Subject: pkix.Name{CommonName: "C05 leaf"},
		NotBefore: t0, NotAfter: t1, KeyUsage: x509.KeyUsageDigitalSignature,
		ExtKeyUsage: []x509.ExtKeyUsage{x509.ExtKeyUsageServerAuth, x509.ExtKeyUsageClientAuth},
		DNSNames:    k.Names.DNS, IPAddresses: ips, EmailAddresses: k.Names.Emails, URIs: uris,
	}
	leaf, lok := direct(b, tpl)
	if !lok {
		stats["skip:leaf-not-creatable"]++
		return "", false
	}
	// the engine the authority built at start-up, on the names as the parsed leaf carries them
	engV := gen.Verdict(b.auth.VerifConstraintsEngine().ValidateCertificate(leaf))
	eng := gen.Class(engV)
	if g := gen.Class(gen.Verdict(b.auth.VerifIsAllowedToSignX509Certificate(leaf))); g != eng {
		return "inconsistent:gate=" + g + " eng=" + eng, true
	}
	vfy := verify(leaf, b.ints, b.root)

	if k.SanExt {
		goto sign
	}
	// renew and rekey of a certificate with these names (the directly signed leaf stands for a
	// certificate issued before the chain's constraints changed): same answer as the engine,
	// and what comes back verifies like the leaf
	for _, op := range []string{"renew", "rekey"} {
		var pk crypto.PublicKey
		if op == "rekey" {
			pk = keys[3].Public()
		}
		rc, err := b.auth.RenewContext(context.Background(), leaf, pk)
		if err != nil {
			if s := statusClass(err); s != eng {
				return "inconsistent:" + op + "=" + s + " eng=" + eng, true
			}
			continue
		}
		stats[op+":issued"]++
		if eng != "allow" {
			return "inconsistent:" + op + "=issued eng=" + eng, true
		}
		if len(rc) != 1+b.returned() || rc[0].CheckSignatureFrom(b.ints[0]) != nil {
			return "inconsistent:" + op + "-chain", true
		}
		if sv := verifyAt(rc[0], b.ints, b.root, time.Now()); sv != vfy {
			return "inconsistent:" + op + "-vfy=" + sv + " direct-vfy=" + vfy, true
		}
	}

	// the CA's own HTTPS certificate: a second authority on the same chain whose configured
	// dnsNames are k.TLS, a spelling of these names as an operator may write them (host names,
	// IPv4 / IPv6 literals, IP literals in the bracketed host form "[::1]"). GetTLSCertificate
	// must put exactly these names into the certificate, must refuse when the engine refuses
	// them, and what it issues must verify like the directly signed leaf.
	if len(k.TLS) > 0 && b.cfg != nil {
		// as the binary starts: ca.New(config) -> Init -> getTLSConfig -> GetTLSCertificate
		cfg := *b.cfg
		cfg.AuthorityConfig = &config.AuthConfig{}
		cfg.DNSNames = k.TLS
		started := func() (ok bool) {
			defer func() {
				if r := recover(); r != nil {
					ok = false
				}
			}()
			srv, err := ca.New(&cfg, ca.WithQuiet(true))
			if err != nil {
				return false
			}
			func() {
				defer func() { recover() }()
				srv.Stop()
			}()
			return true
		}()
		if started {
			stats["castart:started"]++
			if eng != "allow" {
				return "inconsistent:ca-started eng=" + eng, true
			}
		} else {
			stats["castart:refused"]++
		}
	} else if len(k.TLS) > 0 {
		a2, err := authority.NewEmbedded(authority.WithConfig(&config.Config{DNSNames: k.TLS}),
			k.rootOption(b), authority.WithX509SignerChain(b.ints, b.issKy))
		if err == nil {
			tc, err := a2.GetTLSCertificate()
			if err != nil {
				stats["tls:refused"]++
			} else {
				stats["tls:issued"]++
				var cs []*x509.Certificate
				for _, der := range tc.Certificate {
					if crt, err := x509.ParseCertificate(der); err == nil {
						cs = append(cs, crt)
					}
				}
				if len(cs) != 1+len(b.ints) {
					return "inconsistent:tls-chain", true
				}
				// the names that actually ended up in the certificate
				if !sameNames(cs[0], leaf) {
					return "inconsistent:tls-names", true
				}
				if eng != "allow" {
					return "inconsistent:tls=issued eng=" + eng, true
				}
				if g := gen.Class(gen.Verdict(a2.VerifConstraintsEngine().ValidateCertificate(cs[0]))); g != "allow" {
					return "inconsistent:tls=issued engine-on-issued=" + g, true
				}
				if sv := verifyAt(cs[0], cs[1:], b.root, time.Now()); sv != vfy {
					return "inconsistent:tls-vfy=" + sv + " direct-vfy=" + vfy, true
				}
			}
		}
	}

sign:
	// through the CA: CSR -> Authority.Sign
	reqDNS, enfDNS := k.Names.DNS, []string(nil)
	if k.EnfDNS > 0 && k.EnfDNS <= len(reqDNS) {
		reqDNS, enfDNS = reqDNS[:len(reqDNS)-k.EnfDNS], reqDNS[len(reqDNS)-k.EnfDNS:]
		stats["sign:enforcer-"+k.EnfVia]++
	}
	csrDER, err := x509.CreateCertificateRequest(rand.Reader, &x509.CertificateRequest{
		Subject: pkix.Name{CommonName: "C05 leaf"}, DNSNames: reqDNS, IPAddresses: ips, EmailAddresses: k.Names.Emails, URIs: uris}, leafKey)
	if err != nil {
		stats["sign:csr-not-creatable"]++
		return "eng=" + eng + " vfy=" + vfy, true
	}
	csr, err := x509.ParseCertificateRequest(csrDER)
	if err != nil {
		stats["sign:csr-not-parsable"]++
		return "eng=" + eng + " vfy=" + vfy, true
	}
	// the template option every stock provisioner adds: DefaultLeafTemplate over the CSR's SANs
	data := x509util.NewTemplateData()
	data.SetCommonName("C05 leaf")
	sl := sanList(csr)
	if k.SanExt {
		sl = append(sl, x509util.SubjectAlternativeName{Type: x509util.PermanentIdentifierType, Value: "c05-device-1"})
	}
	data.SetSubjectAlternativeNames(sl...)
	signOpts := []provisioner.SignOption{tplOption{data},
		provisioner.CertificateModifierFunc(func(crt *x509.Certificate, _ provisioner.SignOptions) error {
			crt.NotBefore, crt.NotAfter = t0, t1
			return nil
		})}
	curEnf = nil
	if len(enfDNS) > 0 {
		if k.EnfVia == "option" {
			signOpts = append(signOpts, addDNS{&enfDNS})
		} else {
			curEnf = enfDNS
		}
	}
	chain, err := b.auth.SignWithContext(context.Background(), csr, provisioner.SignOptions{}, signOpts...)
	curEnf = nil
	if k.SanExt {
		// no cross-check with the engine on the directly signed leaf here: what is reported is what
		// the CA did with the template that carries the names in an extension
		if err != nil {
			cl := statusClass(err)
			if cl != "deny" {
				// x509util could not build the extension for these names (or an rfc822Name does
				// not parse): the template machinery failed, nothing about constraints is learnt
				stats["sign-sanext:template-error"]++
				return "", false
			}
			stats["sign-sanext:refused"]++
			return "eng=deny vfy=" + vfy, true
		}
		stats["sign-sanext:issued"]++
		if !sameNameSet(chain[0], leaf) {
			return "inconsistent:sanext-names", true
		}
		if chain[0].CheckSignatureFrom(b.ints[0]) != nil {
			return "inconsistent:signature", true
		}
		// x509util writes the SANs in the order of the template (dns, ip, e-mail, uri), Go in its
		// own (dns, e-mail, ip, uri): which name a verifier trips over first may differ, whether
		// it accepts may not
		if sv := verify(chain[0], b.ints, b.root); (sv == "ok") != (vfy == "ok") {
			return "inconsistent:issued-vfy=" + sv + " direct-vfy=" + vfy, true
		}
		return "eng=allow vfy=" + vfy, true
	}
	if err != nil {
		stats["sign:refused"]++
		if s := statusClass(err); s != eng {
			return "inconsistent:sign=" + s + " eng=" + eng, true
		}
		return "eng=" + eng + " vfy=" + vfy, true
	}
	stats["sign:issued"]++
	if eng != "allow" {
		return "inconsistent:sign=issued eng=" + eng, true
	}
	// what the CA returned: leaf + chain; verify exactly that against the configured root
	if len(chain) != 1+b.returned() {
		return fmt.Sprintf("inconsistent:chainlen=%d", len(chain)), true
	}
	if err := chain[0].CheckSignatureFrom(b.ints[0]); err != nil {
		return "inconsistent:signature", true
	}
	if sv := verify(chain[0], b.ints, b.root); sv != vfy {
		return "inconsistent:issued-vfy=" + sv + " direct-vfy=" + vfy, true
	}
	return "eng=allow vfy=" + vfy, true
}

// fixed corner chains first on every seed
func corner() []*Case {
	ex := func(s ...string) []string { return s }
	d8 := []gen.Level{{PDNS: ex("sub.example.com")}, {PDNS: ex("example.com")}}
	rootX := []gen.Level{{}, {XDNS: ex("bad.example.com"), PIP: []gen.Net{gen.NetsOK[0]}}}
	return []*Case{
		{Levels: d8, Names: gen.Names{DNS: ex("other.example.com")}},
		{Levels: d8, Names: gen.Names{DNS: ex("a.sub.example.com")}},
		{Levels: d8, Names: gen.Names{DNS: ex("example.org")}},
		{Levels: []gen.Level{{PEm: ex("sub.example.com")}, {}, {PEm: ex("example.com")}}, Names: gen.Names{Emails: ex("root@other.example.com")}},
		{Levels: rootX, Names: gen.Names{DNS: ex("x.bad.example.com")}},
		{Levels: rootX, KeyID: "noaki", Names: gen.Names{DNS: ex("x.bad.example.com")}},
		{Levels: rootX, KeyID: "wrongaki", Names: gen.Names{IPs: ex("08080808")}},
		{Levels: rootX, KeyID: "noaki", Names: gen.Names{DNS: ex("good.example.com"), IPs: ex("0a000001")}},
		{Levels: []gen.Level{{}, {PIP: []gen.Net{gen.NetsMap[0]}}}, Names: gen.Names{IPs: ex("0a000000")}},
		{Levels: []gen.Level{{}, {XIP: []gen.Net{gen.NetsMap[0]}}}, Names: gen.Names{IPs: ex("0a000000")}},
		{Levels: []gen.Level{{XIP: []gen.Net{gen.NetsOK[0]}}, {}}, Names: gen.Names{DNS: ex("a..b")}},
		{Levels: []gen.Level{{XIP: []gen.Net{gen.NetsOK[0]}}, {}}, Names: gen.Names{Emails: ex("nonsense")}},
		{Levels: []gen.Level{{}, {}}, Names: gen.Names{DNS: ex("anything.example.com")}},
		// names with a leading period: the engine's label parser is older than the verifier's
		{Levels: []gen.Level{{PURI: ex("example.com")}, {}}, Names: gen.Names{URIs: ex("https://.example.com/p")}},
		{Levels: []gen.Level{{PDNS: ex("example.com")}, {}}, Names: gen.Names{DNS: ex(".www.example.com")}},
		{Levels: []gen.Level{{PEm: ex("example.com")}, {}}, Names: gen.Names{Emails: ex("a@.example.com")}},
		// the embedder's options: signer with the issuing certificate only + the list of intermediates
		{Levels: []gen.Level{{}, {PDNS: ex("internal.example")}, {}}, Ord: "icfirst", Names: gen.Names{DNS: ex("www.evil.example")}},
		{Levels: []gen.Level{{}, {PDNS: ex("internal.example")}, {}}, Ord: "iclast", Names: gen.Names{DNS: ex("www.evil.example")}},
		{Levels: []gen.Level{{}, {PDNS: ex("internal.example")}, {}}, Ord: "icfirst", Names: gen.Names{DNS: ex("www.internal.example")}},
		{Levels: []gen.Level{{}, {}, {XDNS: ex("bad.example.com")}}, Ord: "iclast", Names: gen.Names{DNS: ex("x.bad.example.com")}},
		{Levels: []gen.Level{{}, {}, {XDNS: ex("bad.example.com")}}, Ord: "icfirst", Names: gen.Names{DNS: ex("x.bad.example.com")}},
		// the authority started from configuration files, after a rotation of the intermediate
		{Levels: []gen.Level{{PDNS: ex("example.org")}, {}}, Cfg: "files", Names: gen.Names{DNS: ex("web.example.com")}, TLS: ex("web.example.com")},
		{Levels: []gen.Level{{PDNS: ex("example.org")}, {}}, Cfg: "files", Names: gen.Names{DNS: ex("ca.example.org")}, TLS: ex("ca.example.org")},
		{Levels: []gen.Level{{}, {PDNS: ex("example.org")}, {XDNS: ex("bad.example.org")}}, Cfg: "files2", Names: gen.Names{DNS: ex("x.bad.example.org")}},
		{Levels: []gen.Level{{}, {PIP: []gen.Net{gen.NetsOK[0]}}}, Cfg: "files2", Names: gen.Names{IPs: ex("00000000000000000000000000000001")}, TLS: ex("[::1]")},
		// the names reach the template in a subjectAltName extension built by x509util
		{Levels: []gen.Level{{PDNS: ex("example.org")}, {}}, SanExt: true, Names: gen.Names{DNS: ex("web.example.com")}},
		{Levels: []gen.Level{{PDNS: ex("example.org")}, {}}, SanExt: true, Names: gen.Names{DNS: ex("web.example.org")}},
		{Levels: []gen.Level{{}, {XIP: []gen.Net{gen.NetsOK[0]}}}, SanExt: true, Names: gen.Names{IPs: ex("0a010203"), URIs: ex("https://example.com/p")}},
		// roots from a PEM bundle: retired root and a CRL in front of / behind the current root
		{Levels: []gen.Level{{}, {XDNS: ex("bad.example.com")}}, Bundle: "crl", Names: gen.Names{DNS: ex("x.bad.example.com")}},
		{Levels: []gen.Level{{}, {XDNS: ex("bad.example.com")}}, Bundle: "tail", Names: gen.Names{DNS: ex("x.bad.example.com")}},
		{Levels: []gen.Level{{}, {PDNS: ex("example.org")}}, Bundle: "hdr", Names: gen.Names{DNS: ex("web.example.com")}},
		{Levels: []gen.Level{{}, {PDNS: ex("example.org")}}, Bundle: "crl", Names: gen.Names{DNS: ex("web.example.org")}},
		{Levels: []gen.Level{{}, {PDNS: ex("example.org")}}, Bundle: "bad", Names: gen.Names{DNS: ex("web.example.org")}},
		// a certificate enforcer adds a name after the request was validated by the provisioner
		{Levels: []gen.Level{{PDNS: ex("example.org")}, {}}, Names: gen.Names{DNS: ex("web.example.org", "web.svc.cluster.local")}, EnfDNS: 1, EnfVia: "authority"},
		{Levels: []gen.Level{{PDNS: ex("example.org")}, {}}, Names: gen.Names{DNS: ex("web.example.org", "web.svc.cluster.local")}, EnfDNS: 1, EnfVia: "option"},
		{Levels: []gen.Level{{}, {XDNS: ex("bad.example.com")}}, Names: gen.Names{DNS: ex("x.bad.example.com")}, EnfDNS: 1, EnfVia: "authority"},
		{Levels: []gen.Level{{PDNS: ex("example.org")}, {}}, Names: gen.Names{DNS: ex("web.example.org", "api.example.org")}, EnfDNS: 1, EnfVia: "option"},
		// the CA's own server certificate: dnsNames spelled with bracketed IP literals
		{Levels: []gen.Level{{PIP: []gen.Net{gen.NetsOK[0]}}, {}}, Names: gen.Names{DNS: ex("localhost"), IPs: ex("0a000001", "00000000000000000000000000000001")}, TLS: ex("localhost", "10.0.0.1", "[::1]")},
		{Levels: []gen.Level{{PIP: []gen.Net{gen.NetsOK[0]}}, {}}, Names: gen.Names{IPs: ex("fd000000000000000000000000000001")}, TLS: ex("[fd00::1]")},
		{Levels: []gen.Level{{XIP: []gen.Net{gen.NetsOK[6]}}, {}}, Names: gen.Names{DNS: ex("ca.example.com"), IPs: ex("fd000000000000000000000000000001")}, TLS: ex("ca.example.com", "[fd00::1]")},
		{Levels: []gen.Level{{PIP: []gen.Net{gen.NetsOK[0], gen.NetsOK[6]}}, {}}, Names: gen.Names{DNS: ex("ca.example.com"), IPs: ex("0a010203", "fd000000000000000000000000000001")}, TLS: ex("ca.example.com", "[10.1.2.3]", "[fd00::1]")},
		// three intermediates, exclusion in the middle
		{Levels: []gen.Level{{PDNS: ex("example.com")}, {XDNS: ex("bad.example.com")}, {}, {PIP: []gen.Net{gen.NetsOK[0]}}}, Names: gen.Names{DNS: ex("x.bad.example.com")}},
		{Levels: []gen.Level{{PDNS: ex("example.com")}, {XDNS: ex("bad.example.com")}, {}, {PIP: []gen.Net{gen.NetsOK[0]}}}, Names: gen.Names{DNS: ex("good.example.com"), IPs: ex("0a010203")}},
	}
}

func main() {
	n := flag.Int("n", 150, "number of generated chains")
	per := flag.Int("per", 8, "candidate leaves per chain")
	out := flag.String("out", "", "output file (input<TAB>impl)")
	replay := flag.String("replay", "", "file of model input lines (case=… field) to re-run instead of generating")
	flag.Parse()
	o, err := c.NewOut(*out)
	if err != nil {
		fmt.Fprintln(os.Stderr, err)
		os.Exit(2)
	}
	defer o.Close()
	for i := 0; i < 4; i++ {
		k, err := ecdsa.GenerateKey(elliptic.P256(), rand.Reader)
		if err != nil {
			panic(err)
		}
		keys = append(keys, k)
	}
	leafKey, _ = ecdsa.GenerateKey(elliptic.P256(), rand.Reader)
	// the retired root of the bundle cases, with a CRL it once issued
	rkey, _ := ecdsa.GenerateKey(elliptic.P256(), rand.Reader)
	rt := &x509.Certificate{SerialNumber: big.NewInt(99), Subject: pkix.Name{CommonName: "C05 retired root"},
		NotBefore: t0, NotAfter: t1, IsCA: true, BasicConstraintsValid: true,
		KeyUsage: x509.KeyUsageCertSign | x509.KeyUsageCRLSign, SubjectKeyId: []byte{0xC0, 0x05, 0x99, 0x01},
		ExcludedDNSDomains: []string{"retired.example"}, PermittedDNSDomainsCritical: true}
	rder, err := x509.CreateCertificate(rand.Reader, rt, rt, rkey.Public(), rkey)
	if err != nil {
		panic(err)
	}
	retired, _ = x509.ParseCertificate(rder)
	crlDER, err := x509.CreateRevocationList(rand.Reader, &x509.RevocationList{Number: big.NewInt(1), ThisUpdate: t0, NextUpdate: t1}, retired, rkey)
	if err != nil {
		panic(err)
	}
	crlPEM = pemBlock("X509 CRL", crlDER, nil)

	emit := func(k *Case, b *built) {
		line, ok := k.render(b)
		if !ok {
			stats["skip:names-not-expressible"]++
			return
		}
		if b.auth == nil {
			o.Case(line, "no-authority")
			return
		}
		if impl, ok := k.run(b); ok {
			o.Case(line, impl)
		}
	}
	if *replay != "" {
		data, err := os.ReadFile(*replay)
		if err != nil {
			fmt.Fprintln(os.Stderr, err)
			os.Exit(2)
		}
		for _, l := range strings.Split(string(data), "\n") {
			if !strings.Contains(l, "st=chain ") {
				continue
			}
			i := strings.Index(l, "case=x")
			if i < 0 {
				continue
			}
			h := l[i+6:]
			if j := strings.IndexAny(h, " \t"); j >= 0 {
				h = h[:j]
			}
			js, err := hex.DecodeString(h)
			if err != nil {
				continue
			}
			var k Case
			if json.Unmarshal(js, &k) == nil && len(k.Levels) >= 2 && len(k.Levels) <= 4 {
				if b, ok := build(&k); ok {
					emit(&k, b)
					b.close()
				}
			}
		}
		return
	}
	for _, k := range corner() {
		if b, ok := build(k); ok {
			emit(k, b)
			b.close()
		} else {
			stats["skip:chain-not-creatable"]++
		}
	}
	// common.NewRng(s) and NewRng(s+1) are the same stream shifted by one draw; re-seed from the
	// first output so that neighbouring VERIF_SEED values give unrelated case streams
	r := c.NewRng(c.NewRng(c.Seed()).U64())
	for i := 0; i < *n; i++ {
		rr := r.Fork()
		k := &Case{Levels: gen.GenChain(rr, true, 3)}
		// GenChain draws 1..3 levels: add the root above them
		k.Levels = append(k.Levels, gen.GenLevel(rr, true, nil))
		if rr.Chance(1, 4) {
			k.Levels[len(k.Levels)-1] = gen.Level{}
		}
		switch rr.Intn(8) {
		case 0:
			k.KeyID = "noaki"
		case 1:
			k.KeyID = "wrongaki"
		}
		if rr.Chance(1, 3) {
			k.Bundle = c.Pick(rr, []string{"crl", "tail", "hdr"})
		} else if rr.Chance(1, 4) {
			k.Cfg = c.Pick(rr, []string{"files", "files2"})
		} else if len(k.Levels) >= 3 && rr.Chance(1, 2) {
			k.Ord = c.Pick(rr, []string{"icfirst", "iclast"})
		}
		b, ok := build(k)
		if !ok {
			stats["skip:chain-not-creatable"]++
			continue
		}
		for j := 0; j < *per; j++ {
			kk := &Case{Levels: k.Levels, KeyID: k.KeyID, Bundle: k.Bundle, Cfg: k.Cfg, Ord: k.Ord, Names: gen.GenNames(rr.Fork(), true, k.Levels)}
			if re := rr.Fork(); re.Chance(1, 4) {
				// names a certificate enforcer adds on top of the requested ones
				extra := gen.GenNames(re, true, k.Levels).DNS
				if len(extra) == 0 {
					extra = []string{gen.Domain(re)}
				}
				kk.Names.DNS = append(kk.Names.DNS, extra...)
				kk.EnfDNS = len(extra)
				kk.EnfVia = c.Pick(re, []string{"authority", "option"})
			}
			kk.TLS = spellTLS(rr.Fork(), &kk.Names)
			if kk.EnfDNS == 0 && rr.Fork().Chance(1, 8) {
				kk.SanExt, kk.TLS = true, nil
			}
			emit(kk, b)
		}
		b.close()
	}
	// input distribution, for the evidence file (stderr/stdout text is kept as a harness note)
	keysS := make([]string, 0, len(stats))
	for s := range stats {
		keysS = append(keysS, s)
	}
	sortStrings(keysS)
	for _, s := range keysS {
		fmt.Printf("%s=%d ", s, stats[s])
	}
	fmt.Println()
}

func sortStrings(a []string) {
	for i := 1; i < len(a); i++ {
		for j := i; j > 0 && a[j] < a[j-1]; j-- {
			a[j], a[j-1] = a[j-1], a[j]
		}
	}
}
