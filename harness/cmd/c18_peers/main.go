// Stage "peers" of C18 (bounded time): the CA itself opens connections while it answers an ACME challenge
// post (http-01: GET; tls-alpn-01: TLS dial + handshake) to a host the ACME client chose. Here the real
// validation client (acme.NewClient, its two timeouts shortened from 30 s to 1 s through the verif hook) and the
// real Challenge.Validate are run against hostile peers that accept the connection and then stall at every point
// of the exchange; each validation must return (whatever the verdict) within a bound far above the timeout.
package main

import (
	"context"
	"crypto/ecdsa"
	"crypto/elliptic"
	"crypto/rand"
	"crypto/tls"
	"crypto/x509"
	"crypto/x509/pkix"
	"flag"
	"fmt"
	"go/ast"
	"go/parser"
	"go/printer"
	"go/token"
	"math/big"
	"net"
	"os"
	"path/filepath"
	"strconv"
	"strings"
	"sync"
	"time"

	"go.step.sm/crypto/jose"

	"github.com/smallstep/certificates/acme"
	c "verif/harness/common"
)

type chDB struct{ acme.DB }

func (chDB) UpdateChallenge(context.Context, *acme.Challenge) error { return nil }

const (
	clientTimeout = time.Second
	bound         = 20 * time.Second
)

// peer behaviours; every one keeps the connection open until the stage ends (or the client goes away)
var peers = []string{"silent", "close", "half-line", "headers-stall", "body-trickle", "body-stall", "redirect-self", "status-100-forever",
	"tls-half-hello", "tls-hello-stall", "tls-ok-then-silent", "garbage-trickle"}

func selfSigned() tls.Certificate {
	key, _ := ecdsa.GenerateKey(elliptic.P256(), rand.Reader)
	tpl := &x509.Certificate{SerialNumber: big.NewInt(1), Subject: pkix.Name{CommonName: "peer"}, NotBefore: time.Now().Add(-time.Hour), NotAfter: time.Now().Add(time.Hour),
		IPAddresses: []net.IP{net.ParseIP("127.0.0.1")}}
	der, _ := x509.CreateCertificate(rand.Reader, tpl, tpl, &key.PublicKey, key)
	return tls.Certificate{Certificate: [][]byte{der}, PrivateKey: key}
}

func serve(conn net.Conn, kind string, port int, done <-chan struct{}) {
	defer conn.Close()
	wait := func() { <-done }
	trickle := func(b []byte, every time.Duration) {
		for i := 0; ; i++ {
			select {
			case <-done:
				return
			case <-time.After(every):
			}
			if _, err := conn.Write(b[i%len(b) : i%len(b)+1]); err != nil {
				return
			}
		}
	}
	switch kind {
	case "silent":
		wait()
	case "close":
	case "half-line":
		conn.Write([]byte("HTTP/1.1 200"))
		wait()
	case "headers-stall":
		conn.Write([]byte("HTTP/1.1 200 OK\r\nContent-Type: text/plain\r\nX-A: "))
		trickle([]byte("a"), 100*time.Millisecond)
	case "body-trickle":
		conn.Write([]byte("HTTP/1.1 200 OK\r\nContent-Type: text/plain\r\n\r\n"))
		trickle([]byte("token.thumb \n"), 100*time.Millisecond)
	case "body-stall":
		conn.Write([]byte("HTTP/1.1 200 OK\r\nContent-Length: 100\r\n\r\nabc"))
		wait()
	case "redirect-self":
		buf := make([]byte, 4096)
		conn.SetReadDeadline(time.Now().Add(2 * time.Second))
		conn.Read(buf)
		conn.Write([]byte("HTTP/1.1 302 Found\r\nLocation: http://127.0.0.1:" + strconv.Itoa(port) + "/again\r\nContent-Length: 0\r\nConnection: close\r\n\r\n"))
	case "status-100-forever":
		for {
			select {
			case <-done:
				return
			case <-time.After(100 * time.Millisecond):
			}
			if _, err := conn.Write([]byte("HTTP/1.1 100 Continue\r\n\r\n")); err != nil {
				return
			}
		}
	case "tls-half-hello":
		conn.Write([]byte{0x16, 0x03, 0x03, 0x00, 0x40, 0x02, 0x00})
		wait()
	case "tls-hello-stall":
		// a TLS record header announcing more than is ever sent, fed one byte at a time
		conn.Write([]byte{0x16, 0x03, 0x03, 0x3f, 0xff})
		trickle([]byte{0x02}, 100*time.Millisecond)
	case "tls-ok-then-silent":
		crt := selfSigned()
		srv := tls.Server(conn, &tls.Config{Certificates: []tls.Certificate{crt}, NextProtos: []string{"acme-tls/1"}})
		srv.SetDeadline(time.Now().Add(5 * time.Second))
		srv.Handshake()
		wait()
	case "garbage-trickle":
		trickle([]byte{0xff, 0x00, 0x7f}, 50*time.Millisecond)
	}
}

func listen(kind string, done <-chan struct{}) (int, func()) {
	ln, err := net.Listen("tcp", "127.0.0.1:0")
	if err != nil {
		fmt.Fprintln(os.Stderr, "listen:", err)
		os.Exit(3)
	}
	port := ln.Addr().(*net.TCPAddr).Port
	go func() {
		for {
			conn, err := ln.Accept()
			if err != nil {
				return
			}
			go serve(conn, kind, port, done)
		}
	}()
	return port, func() { ln.Close() }
}

// clientFacts re-reads acme/client.go: which timeouts NewClient sets and which call each network method of the
// validation client makes. The dynamic rows below are run with those two timeouts shortened; that they are set, and
// that each method goes through the object carrying them, is what makes the 1 s observation speak for the 30 s code.
func clientFacts(repo string) string {
	fset := token.NewFileSet()
	f, err := parser.ParseFile(fset, filepath.Join(repo, "acme", "client.go"), nil, 0)
	if err != nil {
		return "parse-error"
	}
	str := func(n ast.Node) string {
		var b strings.Builder
		printer.Fprint(&b, fset, n)
		return strings.Join(strings.Fields(b.String()), "")
	}
	facts := map[string]string{}
	for _, d := range f.Decls {
		fd, ok := d.(*ast.FuncDecl)
		if !ok || fd.Body == nil {
			continue
		}
		if fd.Recv == nil && fd.Name.Name == "NewClient" {
			ast.Inspect(fd.Body, func(n ast.Node) bool {
				cl, ok := n.(*ast.CompositeLit)
				if !ok {
					return true
				}
				t := str(cl.Type)
				if t != "http.Client" && t != "net.Dialer" {
					return true
				}
				for _, e := range cl.Elts {
					if kv, ok := e.(*ast.KeyValueExpr); ok && str(kv.Key) == "Timeout" {
						facts[t+".Timeout"] = str(kv.Value)
					}
				}
				return true
			})
		}
		if fd.Recv != nil && strings.Contains(str(fd.Recv.List[0].Type), "client") {
			var calls []string
			n := 0
			for _, st := range fd.Body.List {
				n++
				if r, ok := st.(*ast.ReturnStmt); ok && len(r.Results) == 1 {
					calls = append(calls, str(r.Results[0]))
				}
			}
			facts[fd.Name.Name] = fmt.Sprintf("%d:%s", n, strings.Join(calls, ";"))
		}
	}
	var keys []string
	for _, k := range []string{"http.Client.Timeout", "net.Dialer.Timeout", "Get", "LookupTxt", "TLSDial"} {
		keys = append(keys, k+"="+facts[k])
	}
	return strings.Join(keys, " ")
}

const clientFactsReviewed = "http.Client.Timeout=30*time.Second net.Dialer.Timeout=30*time.Second Get=1:c.http.Get(url) LookupTxt=1:net.LookupTXT(name) TLSDial=1:tls.DialWithDialer(c.dialer,network,addr,config)"

func main() {
	out := flag.String("out", "", "output file")
	flag.String("replay", "", "unused: the peers are a fixed list")
	flag.Int("n", 0, "unused")
	flag.Parse()
	o, err := c.NewOut(*out)
	if err != nil {
		fmt.Fprintln(os.Stderr, err)
		os.Exit(2)
	}
	defer o.Close()
	repo := os.Getenv("VERIF_REPO")
	if repo == "" {
		repo = "/repo"
	}
	if got := clientFacts(repo); got == clientFactsReviewed {
		o.Row("peers-src "+clientFactsReviewed, "ok", "ok")
	} else {
		o.Row("peers-src "+clientFactsReviewed, "srcdiff:"+got, "ok")
	}
	jwk, err := jose.GenerateJWK("EC", "P-256", "ES256", "sig", "", 0)
	if err != nil {
		fmt.Fprintln(os.Stderr, err)
		os.Exit(3)
	}
	done := make(chan struct{})
	type res struct {
		line, out string
	}
	var mu sync.Mutex
	var rows []res
	// the two port variables are package-level: the http-01 and tls-alpn-01 runs of one peer go one after the other,
	// peers one after the other as well (a stalled validation is abandoned after `bound`, its goroutine left behind)
	for _, typ := range []acme.ChallengeType{acme.HTTP01, acme.TLSALPN01} {
		for _, kind := range peers {
			port, stop := listen(kind, done)
			acme.InsecurePortHTTP01, acme.InsecurePortTLSALPN01 = port, port
			cl := acme.NewClient()
			if !acme.VerifSetClientTimeout(cl, clientTimeout) {
				fmt.Fprintln(os.Stderr, "validation client is not the repo's client type")
				os.Exit(3)
			}
			ctx := acme.NewClientContext(context.Background(), cl)
			ch := &acme.Challenge{ID: "ch", AccountID: "acc", AuthorizationID: "az", Type: typ, Status: acme.StatusPending, Token: "token", Value: "127.0.0.1"}
			fin := make(chan string, 1)
			start := time.Now()
			go func() {
				defer func() {
					if r := recover(); r != nil {
						fin <- "panic"
					}
				}()
				err := ch.Validate(ctx, chDB{}, jwk, nil)
				_ = err
				fin <- "ok"
			}()
			verdict := ""
			select {
			case verdict = <-fin:
			case <-time.After(bound):
				verdict = "timeout"
			}
			el := time.Since(start)
			mu.Lock()
			rows = append(rows, res{fmt.Sprintf("peers type=%s peer=%s client-timeout=%s bound=%s", typ, kind, clientTimeout, bound), verdict})
			mu.Unlock()
			if os.Getenv("VERIF_C18_DEBUG") != "" {
				fmt.Fprintf(os.Stderr, "%s %s: %s after %s status=%s\n", typ, kind, verdict, el.Round(time.Millisecond), ch.Status)
			}
			stop()
		}
	}
	close(done)
	for _, r := range rows {
		o.Row(strings.ReplaceAll(r.line, "\t", " "), r.out, "ok")
	}
}
