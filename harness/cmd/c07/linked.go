package main

import (
	"context"
	"crypto/x509"
	"encoding/pem"
	"errors"
	"fmt"
	"sort"
	"strings"
	"sync"

	"github.com/smallstep/linkedca"
	"google.golang.org/grpc"

	"github.com/smallstep/certificates/authority"
	"github.com/smallstep/certificates/authority/config"
	"github.com/smallstep/certificates/authority/provisioner"
	"verif/harness/cmd/c02/ss"
	"verif/harness/fixture"
)

// A linked CA: the authority's own linked-CA client (authority/linkedca.go, through the hook
// authority.VerifNewLinkedCAClient of build tag verif) over an in-memory Majordomo service. Provisioners, certificates and
// the two revoked tables live at the service: a revocation is the RPC RevokeCertificate / RevokeSSHCertificate, the renewal
// gates ask GetCertificateStatus / GetSSHCertificateStatus; the CA's local database is still there (bbolt) but must play no
// part in revocation. The service keeps the first record of a serial and answers every revocation with success. The four
// RPCs call the same hooks as the storage wrapper of a stand-alone CA (revoke, revokessh, isrevoked, issshrevoked), so
// requests are parked and faulted at the RPC exactly as they are at the storage call.
type majordomo struct {
	linkedca.MajordomoClient // RPCs the histories do not use panic
	mu                       sync.Mutex
	hooks                    *ss.Hooks
	provs                    []*linkedca.Provisioner
	identities               map[string]*linkedca.ProvisionerIdentity
	revokedX, revokedSSH     map[string]string // serial -> reason of the first revocation
	hold                     map[string]bool   // serials revoked with reason certificateHold: the service answers HOLD for them
}

func (m *majordomo) before(op, key string) error {
	if m.hooks != nil && m.hooks.Before != nil {
		return m.hooks.Before(op, key)
	}
	return nil
}

func (m *majordomo) after(op, key string, ok bool) error {
	if m.hooks != nil && m.hooks.After != nil {
		return m.hooks.After(op, key, ok, nil)
	}
	return nil
}

func (m *majordomo) GetConfiguration(context.Context, *linkedca.ConfigurationRequest, ...grpc.CallOption) (*linkedca.ConfigurationResponse, error) {
	m.mu.Lock()
	defer m.mu.Unlock()
	return &linkedca.ConfigurationResponse{Provisioners: append([]*linkedca.Provisioner{}, m.provs...)}, nil
}

func pemSerial(p string) (string, error) {
	block, _ := pem.Decode([]byte(p))
	if block == nil {
		return "", errors.New("no certificate")
	}
	crt, err := x509.ParseCertificate(block.Bytes)
	if err != nil {
		return "", err
	}
	return crt.SerialNumber.String(), nil
}

func (m *majordomo) PostCertificate(_ context.Context, in *linkedca.CertificateRequest, _ ...grpc.CallOption) (*linkedca.CertificateResponse, error) {
	serial, err := pemSerial(in.PemCertificate)
	if err != nil {
		return nil, err
	}
	m.mu.Lock()
	defer m.mu.Unlock()
	if in.Provisioner != nil {
		m.identities[serial] = in.Provisioner
	} else if parent, err := pemSerial(in.PemParentCertificate); err == nil {
		if id, ok := m.identities[parent]; ok {
			m.identities[serial] = id
		}
	}
	return &linkedca.CertificateResponse{Id: serial}, nil
}

func (m *majordomo) GetCertificate(_ context.Context, in *linkedca.GetCertificateRequest, _ ...grpc.CallOption) (*linkedca.GetCertificateResponse, error) {
	m.mu.Lock()
	defer m.mu.Unlock()
	id, ok := m.identities[in.Serial]
	if !ok {
		return nil, errors.New("certificate not found")
	}
	return &linkedca.GetCertificateResponse{Provisioner: id}, nil
}

func (m *majordomo) PostSSHCertificate(context.Context, *linkedca.SSHCertificateRequest, ...grpc.CallOption) (*linkedca.SSHCertificateResponse, error) {
	return &linkedca.SSHCertificateResponse{}, nil
}

func (m *majordomo) revoke(op string, table map[string]string, serial, reason string, code linkedca.RevocationReasonCode) error {
	if err := m.before(op, serial); err != nil {
		return err
	}
	m.mu.Lock()
	if _, ok := table[serial]; !ok {
		table[serial] = reason
		if code == linkedca.RevocationReasonCode_CERTIFICATE_HOLD {
			m.hold[op+"/"+serial] = true
		}
	}
	m.mu.Unlock()
	return m.after(op, serial, true)
}

func (m *majordomo) RevokeCertificate(_ context.Context, in *linkedca.RevokeCertificateRequest, _ ...grpc.CallOption) (*linkedca.RevokeCertificateResponse, error) {
	if err := m.revoke("revoke", m.revokedX, in.Serial, in.Reason, in.ReasonCode); err != nil {
		return nil, err
	}
	return &linkedca.RevokeCertificateResponse{Status: linkedca.RevocationStatus_REVOKED}, nil
}

func (m *majordomo) RevokeSSHCertificate(_ context.Context, in *linkedca.RevokeSSHCertificateRequest, _ ...grpc.CallOption) (*linkedca.RevokeSSHCertificateResponse, error) {
	if err := m.revoke("revokessh", m.revokedSSH, in.Serial, in.Reason, in.ReasonCode); err != nil {
		return nil, err
	}
	return &linkedca.RevokeSSHCertificateResponse{Status: linkedca.RevocationStatus_REVOKED}, nil
}

func (m *majordomo) status(op string, table map[string]string, serial string) (linkedca.RevocationStatus, error) {
	if err := m.before(op, serial); err != nil {
		return 0, err
	}
	m.mu.Lock()
	_, revoked := table[serial]
	hold := m.hold[map[string]string{"isrevoked": "revoke", "issshrevoked": "revokessh"}[op]+"/"+serial]
	m.mu.Unlock()
	if err := m.after(op, serial, revoked); err != nil {
		return 0, err
	}
	if revoked && hold {
		return linkedca.RevocationStatus_HOLD, nil
	}
	if revoked {
		return linkedca.RevocationStatus_REVOKED, nil
	}
	return linkedca.RevocationStatus_ACTIVE, nil
}

func (m *majordomo) GetCertificateStatus(_ context.Context, in *linkedca.GetCertificateStatusRequest, _ ...grpc.CallOption) (*linkedca.GetCertificateStatusResponse, error) {
	st, err := m.status("isrevoked", m.revokedX, in.Serial)
	if err != nil {
		return nil, err
	}
	return &linkedca.GetCertificateStatusResponse{Status: st}, nil
}

func (m *majordomo) GetSSHCertificateStatus(_ context.Context, in *linkedca.GetSSHCertificateStatusRequest, _ ...grpc.CallOption) (*linkedca.GetSSHCertificateStatusResponse, error) {
	st, err := m.status("issshrevoked", m.revokedSSH, in.Serial)
	if err != nil {
		return nil, err
	}
	return &linkedca.GetSSHCertificateStatusResponse{Status: st}, nil
}

// dump renders one of the service's revoked tables in the format of dumpTable
func (m *majordomo) dump(table string) string {
	m.mu.Lock()
	defer m.mu.Unlock()
	t := m.revokedX
	if table == "revoked_ssh_certs" {
		t = m.revokedSSH
	}
	var keys []string
	for k := range t {
		keys = append(keys, k)
	}
	sort.Strings(keys)
	var parts []string
	for _, k := range keys {
		tag := "?"
		if strings.HasPrefix(t[k], "t") {
			tag = t[k][1:]
		}
		parts = append(parts, fmt.Sprintf("x%x=%s", k, tag))
	}
	return "[" + strings.Join(parts, ",") + "]"
}

func newLinkedEnv(hooks *ss.Hooks) *env {
	yes := true
	from := oldCA()
	pub := from.JWK.Public()
	svc := &majordomo{hooks: hooks, identities: map[string]*linkedca.ProvisionerIdentity{}, revokedX: map[string]string{}, revokedSSH: map[string]string{}, hold: map[string]bool{}}
	for _, p := range (provisioner.List{
		&provisioner.JWK{ID: "id-jwk", Type: "JWK", Name: "jwk", Key: &pub, Claims: &provisioner.Claims{EnableSSHCA: &yes, AllowRenewalAfterExpiry: &yes}},
		&provisioner.SSHPOP{ID: "id-sshpop", Type: "SSHPOP", Name: "sshpop"},
	}) {
		lp := must(authority.ProvisionerToLinkedca(p))
		if lp.Id == "" {
			lp.Id = "id-" + lp.Name
		}
		svc.provs = append(svc.provs, lp)
	}
	// the local database is wrapped without hooks: nothing of a revocation may depend on it
	o := fixture.Opts{SSH: true, WrapDB: ss.Wrap(nil), From: from,
		Config: func(c *config.Config) { c.AuthorityConfig.EnableAdmin = true },
		Extra:  []authority.Option{authority.WithAdminDB(authority.VerifNewLinkedCAClient(svc, "verif-c07-authority"))}}
	return &env{ca: must(fixture.New(o)), hooks: hooks, svc: svc}
}
