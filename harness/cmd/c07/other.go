package main

import (
	"crypto/ecdsa"
	"crypto/elliptic"
	"crypto/rand"
	crand "crypto/rand"
	"encoding/json"
	"fmt"
	"math/big"
	"strconv"
	"strings"
	"sync"
	"sync/atomic"

	"golang.org/x/crypto/ssh"

	"github.com/smallstep/certificates/api"
	c "verif/harness/common"
)

func randUint() (uint32, error) {
	var b [4]byte
	_, err := crand.Read(b[:])
	return uint32(b[0])<<24 | uint32(b[1])<<16 | uint32(b[2])<<8 | uint32(b[3]), err
}

// ---------------------------------------------------------------- serial stage

func runSerial(s string) (string, string) {
	rr := &api.RevokeRequest{Serial: s, Passive: true, ReasonCode: 0}
	impl := "bad"
	if err := rr.Validate(); err == nil {
		impl = c.X(rr.Serial)
	}
	return "v s=" + c.X(s), impl
}

// SSHRevokeRequest.Validate's serial canonicalisation (decimal only)
func runSSHSerial(s string) (string, string) {
	rr := &api.SSHRevokeRequest{Serial: s, Passive: true, ReasonCode: 0, OTT: "x"}
	impl := "bad"
	if err := rr.Validate(); err == nil {
		impl = c.X(rr.Serial)
	}
	return "vs s=" + c.X(s), impl
}

func cornerSerials() []string {
	return []string{"", "0", "00", "-0", "+0", "16", "016", "0x10", "0X1F", "0b101", "0B2", "0o17", "0O8", "09", "0_7", "0x_1f", "0x", "0b", "_1", "1_", "1__0", "1_000",
		"-5", "+5", "--5", "+-5", " 5", "5 ", "abc", "0xg", "1e3", "1.5", "١٢", "340282366920938463463374607431768211455", "-340282366920938463463374607431768211455",
		"18446744073709551615", "18446744073709551616", "018446744073709551615", "99999999999999999999", "0000", "0x0", "0b0", "0o0", "0_", "0_0", "00x1", "0xFFFFFFFFFFFFFFFFFFFFFFFFFFFFFFFF", "7", "07", "08", "0_8", "0x1_", "0x__1", "+", "-", "+0x10", "-0b11", "0z1"}
}

func genSerial(r *c.Rng) string {
	n := new(big.Int).SetUint64(r.U64())
	if r.Chance(1, 2) {
		n.Mul(n, new(big.Int).SetUint64(r.U64()))
	}
	if r.Chance(1, 8) {
		n.SetInt64(int64(r.Intn(20)))
	}
	s := spellSerial(n, r.Intn(8))
	if r.Chance(1, 6) {
		s = "-" + s
	}
	// mutate around the syntax's decision points
	switch r.Intn(8) {
	case 0:
		if len(s) > 1 {
			i := 1 + r.Intn(len(s)-1)
			s = s[:i] + "_" + s[i:]
		}
	case 1:
		i := r.Intn(len(s) + 1)
		s = s[:i] + string(c.Pick(r, []byte("_xXbBoO89afz+- 0"))) + s[i:]
	case 2:
		if len(s) > 1 {
			i := r.Intn(len(s))
			s = s[:i] + s[i+1:]
		}
	}
	return s
}

// genSSHSerial: decimal strings around the decision points of ParseUint(s, 10, 64): leading zeros,
// the 2^64 boundary, signs, separators, other bases.
func genSSHSerial(r *c.Rng) string {
	n := new(big.Int).SetUint64(r.U64())
	switch r.Intn(6) {
	case 0:
		n.SetUint64(uint64(r.Intn(100)))
	case 1:
		n.SetUint64(^uint64(0) - uint64(r.Intn(3)))
	case 2:
		n.Add(new(big.Int).SetUint64(^uint64(0)), big.NewInt(int64(1+r.Intn(3))))
	case 3:
		n.Mul(n, big.NewInt(int64(1+r.Intn(20))))
	}
	s := n.Text(10)
	if r.Chance(1, 3) {
		s = strings.Repeat("0", 1+r.Intn(4)) + s
	}
	switch r.Intn(8) {
	case 0:
		i := r.Intn(len(s) + 1)
		s = s[:i] + string(c.Pick(r, []byte("_xX+- aA.9"))) + s[i:]
	case 1:
		s = spellSerial(n, 1+r.Intn(7))
	}
	return s
}

// ---------------------------------------------------------------- race stage

// Race: K simultaneous revocations of one certificate through mixed routes plus Renewers
// simultaneous renewals; afterwards one more renewal and one more revocation.
type Race struct {
	K        int
	SSH      bool
	Renewers int
	Spell    bool
	Driven   bool // with ACME: two revoke-cert requests driven into the window between look-up and insert (runACMEDriven)
	ACME     bool // the certificate comes from the real ACME flow; the revocations are POST /acme/<prov>/revoke-cert signed by the
	// owning account or by the certificate's key, mixed with POST /1.0/revoke over mTLS
}

var (
	raceOnce sync.Once
	raceE    *env
)

func runRace(rc *Race) (string, string, string) {
	if rc.ACME && rc.Driven {
		return runACMEDriven(rc)
	}
	if rc.ACME {
		return runRaceACME(rc)
	}
	raceOnce.Do(func() { raceE = newEnv(nil, false); envs = append(envs, raceE) })
	e := raceE
	var ok, already, other, allowed int32
	var wg sync.WaitGroup
	barrier := make(chan struct{})
	count := func(code int) {
		switch code {
		case 200:
			atomic.AddInt32(&ok, 1)
		case 400:
			atomic.AddInt32(&already, 1)
		default:
			atomic.AddInt32(&other, 1)
		}
	}
	var after, again int
	if rc.SSH {
		sc := e.issueSSH()
		serial := strconv.FormatUint(sc.crt.Serial, 10)
		for i := 0; i < rc.K; i++ {
			wg.Add(1)
			go func(i int) {
				defer wg.Done()
				<-barrier
				if i%2 == 0 {
					count(e.revokeSSHJWK(serial, "race"))
				} else {
					count(e.revokeSSHPOP(sc, serial, "race"))
				}
			}(i)
		}
		for i := 0; i < rc.Renewers; i++ {
			wg.Add(1)
			go func() {
				defer wg.Done()
				<-barrier
				if e.renewSSH(sc) == 201 {
					atomic.AddInt32(&allowed, 1)
				}
			}()
		}
		close(barrier)
		wg.Wait()
		after, again = e.renewSSH(sc), e.revokeSSHJWK(serial, "again")
	} else {
		xc := e.issueX509()
		for i := 0; i < rc.K; i++ {
			wg.Add(1)
			go func(i int) {
				defer wg.Done()
				sp := 0
				if rc.Spell {
					sp = i % 8
				}
				s := spellSerial(xc.crt.SerialNumber, sp)
				<-barrier
				switch i % 3 {
				case 0:
					count(e.revokeToken(s, "race"))
				case 1:
					count(e.revokeMTLS(xc, s, "race"))
				default:
					count(e.revokeACME(xc, "race"))
				}
			}(i)
		}
		for i := 0; i < rc.Renewers; i++ {
			wg.Add(1)
			go func(i int) {
				defer wg.Done()
				<-barrier
				var code int
				if i%2 == 0 {
					code = e.renew(xc)
				} else {
					code = e.rekey(xc)
				}
				if code == 201 {
					atomic.AddInt32(&allowed, 1)
				}
			}(i)
		}
		close(barrier)
		wg.Wait()
		after, again = e.renew(xc), e.revokeToken(xc.crt.SerialNumber.String(), "again")
	}
	in := fmt.Sprintf("race k=%d ssh=%s renewers=%d spell=%s", rc.K, c.B(rc.SSH), rc.Renewers, c.B(rc.Spell))
	impl := fmt.Sprintf("ok=%d already=%d other=%d after=%d again=%d", ok, already, other, after, again)
	want := fmt.Sprintf("ok=1 already=%d other=0 after=401 again=400", rc.K-1)
	if impl != want {
		impl = "VIOLATION " + impl
	}
	return in, impl, want
}

// ---------------------------------------------------------------- defects stage

// Defect ssh-serial: POST /1.0/ssh/revoke with a proof-of-possession token of the certificate
// and the body serial spelled Spelling+decimal; if the request is acknowledged, renew and rekey of
// the same certificate must be refused (D13, fixed by c1e180f: "0"+decimal is now canonicalised). ssh-serial-jwk: same through a JWK token. x509-serial: the
// X.509 control (hex spelling, canonicalised by Validate).
type Defect struct {
	Kind     string
	Spelling string
	Refused  bool // the route must refuse this spelling with 400 (nothing acknowledged, nothing to block)
}

func runDefect(d *Defect) (string, string, string) {
	e := newEnv(nil, false)
	defer func() { e.ca.Close() }() // the CA after the restart
	in := fmt.Sprintf("defect kind=%s spelling=%s", d.Kind, c.X(d.Spelling))
	var ack, renew, rekey, afterRestart int
	switch d.Kind {
	case "ssh-serial", "ssh-serial-jwk":
		sc := e.issueSSH()
		s := d.Spelling + strconv.FormatUint(sc.crt.Serial, 10)
		if d.Kind == "ssh-serial" {
			ack = e.revokeSSHPOP(sc, s, "d13")
		} else {
			ack = e.revokeSSHJWK(s, "d13")
		}
		renew, rekey = e.renewSSH(sc), e.rekeySSH(sc)
		e.restart()
		afterRestart = e.renewSSH(sc)
	case "ssh-identity":
		// POST /1.0/ssh/renew and /1.0/ssh/rekey with the client's X.509 identity certificate on the TLS connection: the handlers renew
		// the identity certificate along (api.renewIdentityCertificate -> Authority.Renew). A revoked identity certificate must not be
		// renewed through them; before the revocation the answer carries a renewed identity certificate (control).
		xc := e.issueX509()
		sc := e.issueSSH()
		idRenewed := func(path string) (int, bool) {
			body := map[string]any{"ott": e.sshpopToken(sc, path)}
			h := api.SSHRenew
			if strings.HasSuffix(path, "rekey") {
				key := must(ecdsa.GenerateKey(elliptic.P256(), rand.Reader))
				body["publicKey"] = must(ssh.NewPublicKey(&key.PublicKey)).Marshal()
				h = api.SSHRekey
			}
			code, resp := e.serveBody(h, "POST", path, body, xc.crt, "")
			var out struct {
				IdentityCertificate []api.Certificate `json:"identityCrt"`
			}
			json.Unmarshal(resp, &out)
			return code, len(out.IdentityCertificate) > 0
		}
		c1, id1 := idRenewed("/1.0/ssh/renew")
		c2, id2 := idRenewed("/1.0/ssh/rekey")
		if c1 != 201 || c2 != 201 || !id1 || !id2 {
			return in, fmt.Sprintf("control-failed renew=%d/%v rekey=%d/%v", c1, id1, c2, id2), "ok"
		}
		if ack = e.revokeToken(xc.crt.SerialNumber.String(), "identity"); ack != 200 {
			return in, fmt.Sprintf("revocation-not-acknowledged status=%d", ack), "ok"
		}
		c1, id1 = idRenewed("/1.0/ssh/renew")
		c2, id2 = idRenewed("/1.0/ssh/rekey")
		e.restart()
		c3, id3 := idRenewed("/1.0/ssh/renew")
		if id1 || id2 || id3 || c1 == 201 || c2 == 201 || c3 == 201 {
			return in, fmt.Sprintf("VIOLATION revoked-identity-certificate-renewed-through-ssh-handler renew=%d/%v rekey=%d/%v after-restart=%d/%v", c1, id1, c2, id2, c3, id3), "ok"
		}
		return in, "ok", "ok"
	case "x509-serial":
		xc := e.issueX509()
		ack = e.revokeToken(d.Spelling+xc.crt.SerialNumber.Text(16), "ctl")
		renew, rekey = e.renew(xc), e.rekey(xc)
		e.restart()
		afterRestart = e.renew(xc)
	default:
		return "", "", ""
	}
	if d.Refused {
		if ack == 400 {
			return in, "ok", "ok"
		}
		return in, fmt.Sprintf("not-refused status=%d renew=%d", ack, renew), "ok"
	}
	if ack != 200 {
		return in, fmt.Sprintf("revocation-not-acknowledged status=%d", ack), "ok"
	}
	if renew == 201 || rekey == 201 || afterRestart == 201 {
		return in, fmt.Sprintf("VIOLATION acknowledged-revocation-does-not-block renew=%d rekey=%d after-restart=%d", renew, rekey, afterRestart), "ok"
	}
	return in, "ok", "ok"
}
