package main

import (
	"bytes"
	"crypto/ecdsa"
	"crypto/rand"
	"crypto/tls"
	"crypto/x509"
	"crypto/x509/pkix"
	"encoding/base64"
	"encoding/json"
	"encoding/pem"
	"fmt"
	"net/http"
	"net/http/httptest"
	"strconv"
	"strings"

	"github.com/smallstep/certificates/api"
	"github.com/smallstep/certificates/authority"
	"verif/harness/cmd/c02/ss"
	"verif/harness/cmd/c12/acmeenv"
	c "verif/harness/common"
)

// ACMECase: one certificate issued through the real ACME flow (new-account, new-order, http-01,
// finalize), then a sequential history of
//
//	acmerev     POST /acme/<prov>/revoke-cert signed with the account key (kid)
//	acmerevkey  POST /acme/<prov>/revoke-cert signed with the certificate's key (jwk)
//	mtlsrev     POST /1.0/revoke over mTLS
//	renew rekey POST /1.0/renew, /1.0/rekey over mTLS
//
// through the real handlers; answers and the revoked table are compared with the model.
type ACMECase struct {
	Ops []string
}

func serveAuth(a *authority.Authority, h http.HandlerFunc, path string, body any, peer *x509.Certificate) int {
	var buf bytes.Buffer
	if body != nil {
		json.NewEncoder(&buf).Encode(body)
	}
	req := httptest.NewRequest("POST", "https://"+acmeenv.Host+path, &buf)
	req.TLS = &tls.ConnectionState{PeerCertificates: []*x509.Certificate{peer}}
	req = req.WithContext(authority.NewContext(req.Context(), a))
	w := httptest.NewRecorder()
	h(w, req)
	return w.Code
}

func runACME(ac *ACMECase) (string, string) {
	e, err := acmeenv.New([]acmeenv.ProvSpec{{Name: "acme"}}, nil)
	if err != nil {
		panic(err)
	}
	defer e.Close()
	acct, err := e.NewAccount("acme", acmeenv.NewKey("es256", 1))
	if err != nil {
		panic(err)
	}
	is, err := e.Issue(acct, "h"+randName()+".example.com")
	if err != nil {
		panic(err)
	}
	serial := is.Cert.SerialNumber.String()
	payload := func(i int) []byte {
		pl, _ := json.Marshal(map[string]any{"certificate": base64.RawURLEncoding.EncodeToString(is.Cert.Raw), "reason": 1})
		return pl
	}
	path := acmeenv.Path("acme", "revoke-cert")
	var reqs, evs, answers []string
	for i, op := range ac.Ops {
		var code int
		kind := "rx0"
		switch op {
		case "acmerev":
			code = e.Post(acct, path, payload(i)).Code
		case "acmerevkey":
			s := &acmeenv.Shape{Ser: "flat", Protected: map[string]any{"alg": is.CertKey.DefaultAlg(), "nonce": e.Nonce("acme"),
				"url": acmeenv.URL(path), "jwk": acmeenv.JWKMap(is.CertKey.JWK())}, Payload: payload(i), NSigs: 1, SignKey: is.CertKey}
			b, _ := s.Build()
			code = e.Do("POST", path, b).Code
		case "mtlsrev":
			code = serveAuth(e.Auth, api.Revoke, "/1.0/revoke", map[string]any{"serial": serial, "passive": true, "reasonCode": 1, "reason": "t" + strconv.Itoa(i)}, is.Cert)
		case "renew":
			kind = "nx"
			code = serveAuth(e.Auth, api.Renew, "/1.0/renew", nil, is.Cert)
		case "rekey":
			kind = "nx"
			key := is.CertKey.Priv.(*ecdsa.PrivateKey)
			der, _ := x509.CreateCertificateRequest(rand.Reader, &x509.CertificateRequest{Subject: pkix.Name{CommonName: is.Cert.Subject.CommonName}, DNSNames: is.Cert.DNSNames}, key)
			p := pem.EncodeToMemory(&pem.Block{Type: "CERTIFICATE REQUEST", Bytes: der})
			code = serveAuth(e.Auth, api.Rekey, "/1.0/rekey", map[string]any{"csr": string(p)}, is.Cert)
		default:
			continue
		}
		ans := "status" + strconv.Itoa(code)
		switch {
		case kind == "rx0" && code == 200:
			ans = "ok"
		case kind == "rx0" && code == 400:
			ans = "already"
		case kind == "nx" && code == 201:
			ans = "allowed"
		case kind == "nx" && code == 401:
			ans = "revoked"
		}
		t := strconv.Itoa(len(reqs))
		reqs = append(reqs, fmt.Sprintf("%s:%s:%d:n:0:1", kind, c.X(serial), i))
		evs = append(evs, "s"+t, "s"+t, "s"+t)
		answers = append(answers, ans)
	}
	// table dump: key only (ACME revocations carry no free-text reason to tag); tag = index of the first acknowledged revocation
	tag := "?"
	for i, a := range answers {
		if a == "ok" {
			tag = strconv.Itoa(i)
			break
		}
	}
	var parts []string
	for _, en := range ss.Dump(e.Auth.GetDatabase(), "revoked_x509_certs") {
		parts = append(parts, fmt.Sprintf("x%x=%s", en.Key, tag))
	}
	in := fmt.Sprintf("h reqs=%s evs=%s", strings.Join(reqs, ";"), c.List(evs))
	impl := strings.Join(answers, ",") + " x=[" + strings.Join(parts, ",") + "] s=[]"
	seenOK := false
	for i, a := range answers {
		if a == "allowed" && seenOK {
			impl += " VIOLATION=renewed-after-acknowledged-revocation"
		}
		if a == "ok" && seenOK {
			impl += " VIOLATION=two-acknowledged-revocations"
		}
		if a == "ok" {
			seenOK = true
		}
		_ = i
	}
	return in, impl
}

func randName() string { return strconv.FormatUint(uint64(must(randUint())), 36) }

func genACME(r *c.Rng) *ACMECase {
	ac := &ACMECase{}
	n := 3 + r.Intn(6)
	for i := 0; i < n; i++ {
		ac.Ops = append(ac.Ops, c.Pick(r, []string{"acmerev", "acmerevkey", "mtlsrev", "renew", "renew", "rekey"}))
	}
	return ac
}
