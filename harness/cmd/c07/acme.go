package main

import (
	"bytes"
	"crypto/ecdsa"
	"crypto/rand"
	"crypto/tls"
	"crypto/x509"
	"crypto/x509/pkix"
	"encoding/base64"
	"encoding/json"
	"encoding/pem"
	"fmt"
	"net/http"
	"net/http/httptest"
	"strconv"
	"strings"
	"sync"
	"sync/atomic"
	"time"

	"github.com/smallstep/certificates/api"
	"github.com/smallstep/certificates/authority"
	"verif/harness/cmd/c02/ss"
	"verif/harness/cmd/c12/acmeenv"
	c "verif/harness/common"
)

// ACMECase: one certificate issued through the real ACME flow (new-account, new-order, http-01,
// finalize), then a sequential history of
//
//	acmerev:<signer>:<reason>  POST /acme/<prov>/revoke-cert signed by the owning account (o, kid), another valid account (a, kid),
//	            the certificate's key (k, jwk) or an unrelated key (x, jwk); reason code absent (-) or any integer
//	mtlsrev     POST /1.0/revoke over mTLS
//	renew rekey POST /1.0/renew, /1.0/rekey over mTLS
//
// through the real handlers; answers and the revoked table are compared with the model.
type ACMECase struct {
	Ops []string
}

func serveAuth(a *authority.Authority, h http.HandlerFunc, path string, body any, peer *x509.Certificate) int {
	var buf bytes.Buffer
	if body != nil {
		json.NewEncoder(&buf).Encode(body)
	}
	req := httptest.NewRequest("POST", "https://"+acmeenv.Host+path, &buf)
	req.TLS = &tls.ConnectionState{PeerCertificates: []*x509.Certificate{peer}}
	req = req.WithContext(authority.NewContext(req.Context(), a))
	w := httptest.NewRecorder()
	h(w, req)
	return w.Code
}

func runACME(ac *ACMECase) (string, string) {
	e, err := acmeenv.New([]acmeenv.ProvSpec{{Name: "acme"}}, nil)
	if err != nil {
		panic(err)
	}
	defer e.Close()
	acct, err := e.NewAccount("acme", acmeenv.NewKey("es256", 1))
	if err != nil {
		panic(err)
	}
	other, err := e.NewAccount("acme", acmeenv.NewKey("es256", 2)) // another valid account of the same provisioner
	if err != nil {
		panic(err)
	}
	otherKey := acmeenv.NewKey("es256", 3) // a key that is neither an account nor the certificate's
	is, err := e.Issue(acct, "h"+randName()+".example.com")
	if err != nil {
		panic(err)
	}
	serial := is.Cert.SerialNumber.String()
	path := acmeenv.Path("acme", "revoke-cert")
	var reqs, answers []string
	firstOK := -1
	for i, op := range ac.Ops {
		f := strings.Split(op, ":") // acmerev:<signer o|a|k|x>:<reason|-> | mtlsrev | renew | rekey ; old forms acmerev / acmerevkey
		switch f[0] {
		case "acmerevkey":
			f = []string{"acmerev", "k", "1"}
		case "acmerev":
			if len(f) == 1 {
				f = []string{"acmerev", "o", "1"}
			}
		}
		var code int
		var errType string
		ans := ""
		switch f[0] {
		case "acmerev":
			body := map[string]any{"certificate": base64.RawURLEncoding.EncodeToString(is.Cert.Raw)}
			if f[2] != "-" {
				n, _ := strconv.Atoi(f[2])
				body["reason"] = n
			}
			pl, _ := json.Marshal(body)
			var rec *httptest.ResponseRecorder
			switch f[1] {
			case "o":
				rec = e.Post(acct, path, pl)
			case "a":
				rec = e.Post(other, path, pl)
			default:
				k := is.CertKey
				if f[1] == "x" {
					k = otherKey
				}
				s := &acmeenv.Shape{Ser: "flat", Protected: map[string]any{"alg": k.DefaultAlg(), "nonce": e.Nonce("acme"),
					"url": acmeenv.URL(path), "jwk": acmeenv.JWKMap(k.JWK())}, Payload: pl, NSigs: 1, SignKey: k}
				b, _ := s.Build()
				rec = e.Do("POST", path, b)
			}
			code = rec.Code
			var pd struct{ Type string }
			json.Unmarshal(rec.Body.Bytes(), &pd)
			errType = pd.Type
			switch {
			case code == 200:
				ans = "ok"
			case code == 403 && strings.HasSuffix(errType, ":unauthorized"):
				ans = "unauthorized"
			case code == 400 && strings.HasSuffix(errType, ":alreadyRevoked"):
				ans = "already"
			case code == 400 && strings.HasSuffix(errType, ":badRevocationReason"):
				ans = "badreason"
			}
			reqs = append(reqs, fmt.Sprintf("v:%s:%s:%d", f[1], f[2], i))
		case "mtlsrev":
			code = serveAuth(e.Auth, api.Revoke, "/1.0/revoke", map[string]any{"serial": serial, "passive": true, "reasonCode": 1, "reason": "t" + strconv.Itoa(i)}, is.Cert)
			switch code {
			case 200:
				ans = "ok"
			case 400:
				ans = "already"
			}
			reqs = append(reqs, fmt.Sprintf("m:%d", i))
		case "renew", "rekey":
			if f[0] == "renew" {
				code = serveAuth(e.Auth, api.Renew, "/1.0/renew", nil, is.Cert)
			} else {
				key := is.CertKey.Priv.(*ecdsa.PrivateKey)
				der, _ := x509.CreateCertificateRequest(rand.Reader, &x509.CertificateRequest{Subject: pkix.Name{CommonName: is.Cert.Subject.CommonName}, DNSNames: is.Cert.DNSNames}, key)
				p := pem.EncodeToMemory(&pem.Block{Type: "CERTIFICATE REQUEST", Bytes: der})
				code = serveAuth(e.Auth, api.Rekey, "/1.0/rekey", map[string]any{"csr": string(p)}, is.Cert)
			}
			switch code {
			case 201:
				ans = "allowed"
			case 401:
				ans = "revoked"
			}
			reqs = append(reqs, "n")
		default:
			continue
		}
		if ans == "" {
			ans = "status" + strconv.Itoa(code)
		}
		if ans == "ok" && firstOK < 0 {
			firstOK = i
		}
		answers = append(answers, ans)
	}
	var parts []string
	for _, en := range ss.Dump(e.Auth.GetDatabase(), "revoked_x509_certs") {
		parts = append(parts, fmt.Sprintf("x%x=%d", en.Key, firstOK))
	}
	in := fmt.Sprintf("a key=%s reqs=%s", c.X(serial), strings.Join(reqs, ";"))
	impl := strings.Join(answers, ",") + " x=[" + strings.Join(parts, ",") + "] s=[]"
	seenOK := false
	for _, a := range answers {
		if a == "allowed" && seenOK {
			impl += " VIOLATION=renewed-after-acknowledged-revocation"
		}
		if a == "ok" && seenOK {
			impl += " VIOLATION=two-acknowledged-revocations"
		}
		if a == "ok" {
			seenOK = true
		}
	}
	// nobody but the owning account or a holder of the certificate's key may get a revocation through
	for i, a := range answers {
		f := strings.Split(reqs[i], ":")
		if f[0] == "v" && (f[1] == "a" || f[1] == "x") && a != "unauthorized" {
			impl += " VIOLATION=revocation-by-unauthorized-signer-not-refused"
		}
		if f[0] == "v" && a == "ok" && f[2] != "-" {
			if n, err := strconv.Atoi(f[2]); err != nil || n < 0 || n > 10 || n == 7 {
				impl += " VIOLATION=revocation-with-invalid-reason-code-acknowledged"
			}
		}
	}
	return in, impl
}

// runRaceACME: K simultaneous revocations of one ACME-issued certificate (revoke-cert by the owning account, revoke-cert by the
// certificate's key, /1.0/revoke over mTLS) and Renewers simultaneous renewals; afterwards one more renewal and one more revoke-cert.
// Exactly one revocation is acknowledged, every other one is told alreadyRevoked (400), the renewal afterwards is refused.
var (
	raceACMEOnce sync.Once
	raceACME     *acmeenv.Env
	raceAcct     *acmeenv.Acct
)

func runRaceACME(rc *Race) (string, string, string) {
	raceACMEOnce.Do(func() {
		e, err := acmeenv.New([]acmeenv.ProvSpec{{Name: "acme"}}, nil)
		if err != nil {
			panic(err)
		}
		raceACME = e
		if raceAcct, err = e.NewAccount("acme", acmeenv.NewKey("es256", 1)); err != nil {
			panic(err)
		}
	})
	e := raceACME
	is, err := e.Issue(raceAcct, "h"+randName()+".example.com")
	if err != nil {
		panic(err)
	}
	serial := is.Cert.SerialNumber.String()
	path := acmeenv.Path("acme", "revoke-cert")
	pl, _ := json.Marshal(map[string]any{"certificate": base64.RawURLEncoding.EncodeToString(is.Cert.Raw), "reason": 1})
	byKey := func() []byte {
		k := is.CertKey
		s := &acmeenv.Shape{Ser: "flat", Protected: map[string]any{"alg": k.DefaultAlg(), "nonce": e.Nonce("acme"),
			"url": acmeenv.URL(path), "jwk": acmeenv.JWKMap(k.JWK())}, Payload: pl, NSigs: 1, SignKey: k}
		b, _ := s.Build()
		return b
	}
	var ok, already, other, allowed int32
	count := func(code int, body []byte) {
		var pd struct{ Type string }
		json.Unmarshal(body, &pd)
		switch {
		case code == 200:
			atomic.AddInt32(&ok, 1)
		case code == 400 && (pd.Type == "" || strings.HasSuffix(pd.Type, ":alreadyRevoked")):
			atomic.AddInt32(&already, 1)
		default:
			atomic.AddInt32(&other, 1)
		}
	}
	var wg sync.WaitGroup
	barrier := make(chan struct{})
	for i := 0; i < rc.K; i++ {
		var body []byte // signed (with its nonce) before the barrier
		switch i % 3 {
		case 0:
			body = e.KidBody(raceAcct, "acme", path, pl)
		case 1:
			body = byKey()
		}
		wg.Add(1)
		go func(i int) {
			defer wg.Done()
			<-barrier
			if body != nil {
				rec := e.Do("POST", path, body)
				count(rec.Code, rec.Body.Bytes())
			} else {
				count(serveAuth(e.Auth, api.Revoke, "/1.0/revoke", map[string]any{"serial": serial, "passive": true, "reasonCode": 1, "reason": "race"}, is.Cert), nil)
			}
		}(i)
	}
	for i := 0; i < rc.Renewers; i++ {
		wg.Add(1)
		go func() {
			defer wg.Done()
			<-barrier
			if serveAuth(e.Auth, api.Renew, "/1.0/renew", nil, is.Cert) == 201 {
				atomic.AddInt32(&allowed, 1)
			}
		}()
	}
	close(barrier)
	wg.Wait()
	after := serveAuth(e.Auth, api.Renew, "/1.0/renew", nil, is.Cert)
	rec := e.Post(raceAcct, path, pl)
	in := fmt.Sprintf("race k=%d acme=1 renewers=%d", rc.K, rc.Renewers)
	impl := fmt.Sprintf("ok=%d already=%d other=%d after=%d again=%d", ok, already, other, after, rec.Code)
	want := fmt.Sprintf("ok=1 already=%d other=0 after=401 again=400", rc.K-1)
	if impl != want {
		impl = "VIOLATION " + impl
	}
	return in, impl, want
}

// runACMEDriven: two ACME revoke-cert requests for one certificate (owning account, certificate key) driven into the window the race
// stage only hits by chance: the first is parked at its insert into the revoked table (the key/value store's CmpAndSwap, below
// db.DB), i.e. after it passed the handler's IsRevoked look-up; then the second is started and runs until it is parked at the same
// place (or, should the code serialise the two, for 300 ms); then both go on. Exactly one may be acknowledged, the other is told
// alreadyRevoked, the renewal afterwards is refused. No verdict depends on the 300 ms: if the second request is slow it simply runs
// after the first and is told alreadyRevoked by the look-up.
func runACMEDriven(rc *Race) (string, string, string) {
	in := fmt.Sprintf("race driven=1 acme=1 k=2 renewers=%d keyfirst=%s", rc.Renewers, c.B(rc.Spell))
	want := "ok=1 already=1 other=0 after=401 again=400"
	e, err := acmeenv.New([]acmeenv.ProvSpec{{Name: "acme"}}, nil)
	if err != nil {
		panic(err)
	}
	defer e.Close()
	acct, err := e.NewAccount("acme", acmeenv.NewKey("es256", 1))
	if err != nil {
		panic(err)
	}
	is, err := e.Issue(acct, "h"+randName()+".example.com")
	if err != nil {
		panic(err)
	}
	path := acmeenv.Path("acme", "revoke-cert")
	pl, _ := json.Marshal(map[string]any{"certificate": base64.RawURLEncoding.EncodeToString(is.Cert.Raw), "reason": 1})
	k := is.CertKey
	sh := &acmeenv.Shape{Ser: "flat", Protected: map[string]any{"alg": k.DefaultAlg(), "nonce": e.Nonce("acme"),
		"url": acmeenv.URL(path), "jwk": acmeenv.JWKMap(k.JWK())}, Payload: pl, NSigs: 1, SignKey: k}
	byKey, _ := sh.Build()
	bodies := [][]byte{e.KidBody(acct, "acme", path, pl), byKey}
	if rc.Spell { // the other order
		bodies[0], bodies[1] = bodies[1], bodies[0]
	}
	parked := make(chan struct{}, 4)
	release := make(chan struct{})
	var fault ss.NoSQLFault = func(op, bucket string, _ []byte) error {
		if op == "cas" && bucket == "revoked_x509_certs" {
			parked <- struct{}{}
			<-release
		}
		return nil
	}
	ss.WrapNoSQL(&fault, nil)(e.Auth.GetDatabase())
	type ans struct {
		code int
		typ  string
	}
	answers := make(chan ans, 2)
	post := func(b []byte) {
		rec := e.Do("POST", path, b)
		var pd struct{ Type string }
		json.Unmarshal(rec.Body.Bytes(), &pd)
		answers <- ans{rec.Code, pd.Type}
	}
	go post(bodies[0])
	select {
	case <-parked:
	case <-time.After(3 * time.Minute):
		close(release)
		return in, want, want // inconclusive
	}
	go post(bodies[1])
	select {
	case <-parked:
	case <-time.After(300 * time.Millisecond):
	}
	close(release)
	var ok, already, other int
	for i := 0; i < 2; i++ {
		select {
		case a := <-answers:
			switch {
			case a.code == 200:
				ok++
			case a.code == 400 && strings.HasSuffix(a.typ, ":alreadyRevoked"):
				already++
			default:
				other++
			}
		case <-time.After(3 * time.Minute):
			other++
		}
	}
	after := serveAuth(e.Auth, api.Renew, "/1.0/renew", nil, is.Cert)
	rec := e.Post(acct, path, pl)
	impl := fmt.Sprintf("ok=%d already=%d other=%d after=%d again=%d", ok, already, other, after, rec.Code)
	if impl != want {
		impl = "VIOLATION " + impl
	}
	return in, impl, want
}

func randName() string { return strconv.FormatUint(uint64(must(randUint())), 36) }

func genACME(r *c.Rng) *ACMECase {
	ac := &ACMECase{}
	n := 3 + r.Intn(6)
	for i := 0; i < n; i++ {
		switch r.Intn(7) {
		case 0, 1, 2:
			reason := c.Pick(r, []string{"-", "0", "1", "3", "4", "5", "6", "7", "8", "9", "10", "11", "-1", "255"})
			ac.Ops = append(ac.Ops, "acmerev:"+c.Pick(r, []string{"o", "o", "k", "k", "a", "x"})+":"+reason)
		case 3:
			ac.Ops = append(ac.Ops, "mtlsrev")
		default:
			ac.Ops = append(ac.Ops, c.Pick(r, []string{"renew", "renew", "rekey"}))
		}
	}
	return ac
}
