// Harness for C07 (revocation). Runs the real HTTP handlers api.Revoke, api.SSHRevoke, api.Renew,
// api.Rekey and Authority.Revoke (ACME shape), Authority.RenewSSH / RekeySSH of /repo on a real
// bbolt file and writes "<model input line>\t<implementation output>" (stages hist, serial:
// compared with the Lean driver drv_c07) or "<input>\t<implementation>\t<what the property
// demands>" (stages race, defects).
//
//	-stage hist     histories over <= 8 certificates (X.509 and SSH host) of revocations by token / mTLS /
//	                ACME shape / SSH and renew / rekey requests, executed under a chosen interleaving of their
//	                storage calls (a db.AuthDB wrapper parks callers before and after Revoke/RevokeSSH/
//	                IsRevoked/IsSSHRevoked), with injected storage faults and restarts; answers and a dump of
//	                both revoked tables vs the model
//	-stage acme     a certificate issued through the real ACME flow (harness/cmd/c12/acmeenv), then revocations through the real
//	                ACME revoke-cert handler (account key / certificate key) and over mTLS, renew and rekey; vs the model
//	-stage serial   RevokeRequest.Validate's serial canonicalisation vs the model
//	-stage race     k simultaneous revocations of one serial (exactly one 200), revoke-vs-renew pairs
//	-stage defects  D13 (SSH revocation under a non-canonical serial string; fixed by c1e180f) and its controls
package main

import (
	"encoding/hex"
	"encoding/json"
	"flag"
	"fmt"
	"os"
	"strings"

	c "verif/harness/common"
)

type Case struct {
	Hist   *Hist     `json:",omitempty"`
	Serial *string   `json:",omitempty"`
	SSHSer *string   `json:",omitempty"`
	ACME   *ACMECase `json:",omitempty"`
	Race   *Race     `json:",omitempty"`
	Defect *Defect   `json:",omitempty"`
}

func caseField(k *Case) string {
	js, _ := json.Marshal(k)
	return "case=x" + hex.EncodeToString(js)
}

func runCase(o *c.Out, k *Case) {
	var in, impl, want string
	func() {
		defer func() {
			if e := recover(); e != nil {
				if in == "" {
					in = "crashed-before-input"
				}
				impl = "crash"
				fmt.Fprintln(os.Stderr, "panic:", e)
			}
		}()
		switch {
		case k.Hist != nil:
			in, impl = runHist(k.Hist)
		case k.Serial != nil:
			in, impl = runSerial(*k.Serial)
		case k.SSHSer != nil:
			in, impl = runSSHSerial(*k.SSHSer)
		case k.ACME != nil:
			in, impl = runACME(k.ACME)
		case k.Race != nil:
			in, impl, want = runRace(k.Race)
		case k.Defect != nil:
			in, impl, want = runDefect(k.Defect)
		}
	}()
	if in == "" {
		return
	}
	if want != "" {
		o.Row(in+" "+caseField(k), impl, want)
	} else {
		o.Case(in+" "+caseField(k), impl)
	}
}

func main() {
	n := flag.Int("n", 100, "number of generated cases")
	out := flag.String("out", "", "output file")
	replay := flag.String("replay", "", "file of lines with a case=x<hex json> field to re-run")
	stage := flag.String("stage", "hist", "hist | acme | serial | race | defects")
	flag.Parse()
	o, err := c.NewOut(*out)
	if err != nil {
		fmt.Fprintln(os.Stderr, err)
		os.Exit(2)
	}
	defer o.Close()
	defer closeEnvs()
	if *replay != "" {
		data, err := os.ReadFile(*replay)
		if err != nil {
			fmt.Fprintln(os.Stderr, err)
			os.Exit(2)
		}
		for _, l := range strings.Split(string(data), "\n") {
			i := strings.Index(l, "case=x")
			if i < 0 {
				continue
			}
			h := l[i+6:]
			if j := strings.IndexAny(h, " \t"); j >= 0 {
				h = h[:j]
			}
			js, err := hex.DecodeString(h)
			if err != nil {
				continue
			}
			var k Case
			if json.Unmarshal(js, &k) == nil {
				runCase(o, &k)
			}
		}
		return
	}
	r := c.NewRng(c.Seed())
	switch *stage {
	case "hist":
		for _, h := range cornerHists() {
			runCase(o, &Case{Hist: h})
		}
		for i := 0; i < *n; i++ {
			runCase(o, &Case{Hist: genHist(r.Fork())})
		}
	case "acme":
		runCase(o, &Case{ACME: &ACMECase{Ops: []string{"renew", "acmerev", "renew", "rekey", "acmerev", "acmerevkey", "mtlsrev"}}})
		runCase(o, &Case{ACME: &ACMECase{Ops: []string{"rekey", "acmerevkey", "renew", "acmerev"}}})
		runCase(o, &Case{ACME: &ACMECase{Ops: []string{"mtlsrev", "acmerev", "acmerevkey", "renew"}}})
		runCase(o, &Case{ACME: &ACMECase{Ops: []string{"renew", "acmerev:a:1", "acmerev:x:1", "acmerev:k:7", "acmerev:o:11", "acmerev:o:-1", "renew", "acmerev:k:-", "rekey", "acmerev:a:1", "acmerev:o:7", "acmerev:x:0"}}})
		runCase(o, &Case{ACME: &ACMECase{Ops: []string{"acmerev:o:10", "acmerev:k:8", "renew"}}})
		for i := 0; i < *n; i++ {
			runCase(o, &Case{ACME: genACME(r.Fork())})
		}
	case "serial":
		for _, s := range cornerSerials() {
			s, s2 := s, s
			runCase(o, &Case{Serial: &s})
			runCase(o, &Case{SSHSer: &s2})
		}
		for i := 0; i < *n; i++ {
			if i%3 == 2 {
				s := genSSHSerial(r.Fork())
				runCase(o, &Case{SSHSer: &s})
			} else {
				s := genSerial(r.Fork())
				runCase(o, &Case{Serial: &s})
			}
		}
	case "race":
		for _, sp := range []bool{false, true} {
			runCase(o, &Case{Race: &Race{K: 2, ACME: true, Driven: true, Spell: sp}})
		}
		for i := 0; i < *n; i++ {
			rr := r.Fork()
			rc := &Race{K: 2 + rr.Intn(15), SSH: rr.Chance(1, 4), Renewers: rr.Intn(4), Spell: rr.Chance(1, 2)}
			if !rc.SSH && rr.Chance(1, 5) {
				rc.ACME = true
			}
			runCase(o, &Case{Race: rc})
		}
	case "defects":
		for _, d := range []Defect{{Kind: "ssh-serial", Spelling: "0"}, {Kind: "ssh-serial", Spelling: ""}, {Kind: "ssh-serial-jwk", Spelling: "0"}, {Kind: "x509-serial", Spelling: "0x"},
			{Kind: "ssh-serial", Spelling: "0x", Refused: true}, {Kind: "ssh-serial", Spelling: "+", Refused: true}, {Kind: "ssh-serial-jwk", Spelling: " ", Refused: true}, {Kind: "ssh-identity"}} {
			d := d
			runCase(o, &Case{Defect: &d})
		}
	default:
		fmt.Fprintln(os.Stderr, "unknown stage")
		os.Exit(2)
	}
}
