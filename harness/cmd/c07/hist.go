package main

import (
	"crypto/x509"
	"errors"
	"fmt"
	"strconv"
	"strings"
	"time"

	"verif/harness/cmd/c02/ss"
	c "verif/harness/common"
)

type OpSpec struct {
	Kind  string // revtok revmtls revacme revssh revpopssh | renew rekey renewtok renewssh rekeyssh hrenewssh hrekeyssh
	Cert  int    // index into the X.509 resp. SSH certificate pool
	Spell int    // spelling of the serial in the request (revtok, revmtls, revssh)
	Fault string // n | b (storage call fails before) | a (performed, caller sees failure) | c (CRL regeneration fails)
}

// Hist: certificates are issued first; then every op index occurs three times in Sched (phase A:
// up to the entry of the storage call, B: the call, C: the rest); -1 = restart.
type Hist struct {
	CRL bool // CRL enabled with GenerateOnRevoke
	NX  int  // X.509 certificates
	NXE int  // further X.509 certificates (pool indices NX…) that expired 2 h .. 30 d ago; provisioner jwk allows renewal after expiry
	NS  int  // SSH host certificates
	// Small: the SSH certificates are crafted (signed with the CA's SSH host key) with the serials smallSerials[SmallOff+i]
	Small    bool
	SmallOff int
	// Linked: a linked CA (the real linked-CA client over an in-memory Majordomo service): revocations and the renewal gates
	// go to the service; model machine lmachine (line `lh`)
	Linked bool
	Ops    []OpSpec
	Sched  []int
}

var errAbort = errors.New("process stopped")
var errFault = errors.New("injected storage fault")

func isRevoke(k string) bool { return strings.HasPrefix(k, "rev") }
func isSSH(k string) bool    { return strings.HasSuffix(k, "ssh") }

// the SSH routes through the real handlers api.SSHRenew / api.SSHRekey / api.SSHRevoke with a proof-of-possession token of the
// certificate (what `step ssh renew|rekey|revoke` send): the SSHPOP provisioner authorizes the token (it does not consult the
// revoked table, and a revoked certificate may still ask for its own revocation: "already"), the authority's RenewSSH / RekeySSH
// read the table once, Revoke writes it once: same model requests as the direct calls, answers taken from the handler's status.

type evt struct {
	t    int
	kind string
	code int
}

// serials of crafted SSH certificates (Hist.Small): decimal forms that are octal numbers too, next to the number the octal reading
// denotes (16 and 14 = 016 octal, 10 and 8, 100 and 64), and small numbers
var smallSerials = []uint64{16, 14, 10, 8, 100, 64, 7, 1}

func runHist(h *Hist) (string, string) {
	n := len(h.Ops)
	hooks := &ss.Hooks{}
	var e *env
	if h.Linked {
		e = newLinkedEnv(hooks)
	} else {
		e = newEnv(hooks, h.CRL)
	}
	defer func() { e.ca.Close() }()
	xs := make([]*x509Cert, h.NX+h.NXE)
	for i := range xs {
		if i < h.NX {
			xs[i] = e.issueX509()
		} else {
			xs[i] = e.expiredX509([]time.Duration{2 * time.Hour, 25 * time.Hour, 720 * time.Hour}[(i-h.NX)%3])
		}
	}
	sshs := make([]*sshCert, h.NS)
	for i := range sshs {
		if h.Small {
			sshs[i] = e.craftSSH(smallSerials[(h.SmallOff+i)%len(smallSerials)])
		} else {
			sshs[i] = e.issueSSH()
		}
	}
	events := make(chan evt, 4*n+4)
	gates := make([]chan bool, n)
	starts := make([]chan struct{}, n)
	for i := range gates {
		gates[i] = make(chan bool, 1)
		starts[i] = make(chan struct{}, 1)
	}
	cur := -1
	calls := make([]int, n) // calls of the parked storage operation per request
	decided := make([]bool, n)
	parkedFor := func(t int, op string) bool {
		if isRevoke(h.Ops[t].Kind) {
			return op == "revoke" || op == "revokessh"
		}
		return op == "isrevoked" || op == "issshrevoked"
	}
	hooks.Before = func(op, key string) error {
		t := cur
		if t < 0 {
			return nil
		}
		if op == "storecrl" && h.Ops[t].Fault == "c" {
			return errFault
		}
		if !parkedFor(t, op) {
			return nil
		}
		// only the request's first call of its storage operation is the modelled step (parked, faulted); should the code
		// call it again (a retry), the further calls go straight to the database and their result reaches the answer
		calls[t]++
		if calls[t] > 1 {
			return nil
		}
		events <- evt{t: t, kind: "entry"}
		if !<-gates[t] {
			return errAbort
		}
		if h.Ops[t].Fault == "b" {
			return errFault
		}
		return nil
	}
	hooks.After = func(op, key string, ok bool, err error) error {
		t := cur
		if t < 0 || !parkedFor(t, op) || calls[t] > 1 {
			return nil
		}
		f := h.Ops[t].Fault
		rev := isRevoke(h.Ops[t].Kind)
		decided[t] = f == "a" || (rev && !ok) || (!rev && ok)
		events <- evt{t: t, kind: "exit"}
		if !<-gates[t] {
			return errAbort
		}
		if f == "a" {
			return errFault
		}
		return nil
	}
	// model inputs
	reqIn := make([]string, n)
	keyOf := func(op OpSpec) (kind, key string) {
		switch op.Kind {
		case "revtok", "revmtls", "revacme":
			kind = "rx0"
			if h.CRL {
				kind = "rx1"
			}
			if op.Kind == "revacme" {
				return kind, xs[op.Cert].crt.SerialNumber.String()
			}
			return kind, spellSerial(xs[op.Cert].crt.SerialNumber, op.Spell) // as sent; the model applies Validate
		case "revpopssh":
			return "rs", strconv.FormatUint(sshs[op.Cert].crt.Serial, 10)
		case "revssh":
			return "rs", spellSSHSerial(sshs[op.Cert].crt.Serial, op.Spell) // as sent; the model applies Validate
		case "renew", "rekey", "renewtok":
			return "nx", xs[op.Cert].crt.SerialNumber.String()
		default:
			return "ns", strconv.FormatUint(sshs[op.Cert].crt.Serial, 10)
		}
	}
	for i, op := range h.Ops {
		kind, key := keyOf(op)
		f, crlf := op.Fault, "0"
		if f == "c" {
			f, crlf = "n", "1"
		}
		reqIn[i] = fmt.Sprintf("%s:%s:%d:%s:%s:1", kind, c.X(key), i, f, crlf)
	}
	codes := make([]int, n)
	for i := 0; i < n; i++ {
		i := i
		go func() {
			<-starts[i]
			code := 0
			defer func() {
				if p := recover(); p != nil {
					code = -1
				}
				events <- evt{t: i, kind: "done", code: code}
			}()
			op := h.Ops[i]
			reason := "t" + strconv.Itoa(i)
			switch op.Kind {
			case "revtok":
				code = e.revokeToken(spellSerial(xs[op.Cert].crt.SerialNumber, op.Spell), reason)
			case "revmtls":
				code = e.revokeMTLS(xs[op.Cert], spellSerial(xs[op.Cert].crt.SerialNumber, op.Spell), reason)
			case "revacme":
				code = e.revokeACME(xs[op.Cert], reason)
			case "revssh":
				code = e.revokeSSHJWK(spellSSHSerial(sshs[op.Cert].crt.Serial, op.Spell), reason)
			case "renew":
				code = e.renew(xs[op.Cert])
			case "rekey":
				code = e.rekey(xs[op.Cert])
			case "renewtok":
				code = e.renewByToken(xs[op.Cert])
			case "renewssh":
				code = e.renewSSH(sshs[op.Cert])
			case "rekeyssh":
				code = e.rekeySSH(sshs[op.Cert])
			case "hrenewssh":
				code = e.renewSSHHandler(sshs[op.Cert])
			case "hrekeyssh":
				code = e.rekeySSHHandler(sshs[op.Cert])
			case "revpopssh":
				code = e.revokeSSHPOP(sshs[op.Cert], strconv.FormatUint(sshs[op.Cert].crt.Serial, 10), reason)
			}
		}()
	}
	waitFor := func(t int) evt {
		ev := <-events
		if ev.t != t {
			panic(fmt.Sprintf("event of thread %d while thread %d runs", ev.t, t))
		}
		return ev
	}
	state := make([]int, n)
	answers := make([]string, n)
	doneAt := make([]int, n)  // schedule position at which the op was answered
	startAt := make([]int, n) // schedule position at which the op started
	finish := func(t int, ev evt, dropped bool, pos int) {
		state[t] = 3
		doneAt[t] = pos
		codes[t] = ev.code
		rev := isRevoke(h.Ops[t].Kind)
		switch {
		case ev.code == -1:
			answers[t] = "crash"
		case dropped:
			answers[t] = "drop"
		case rev && ev.code == 200:
			answers[t] = "ok"
		case rev && ev.code == 400:
			answers[t] = "already"
		case rev && ev.code >= 500:
			answers[t] = "err"
		case !rev && ev.code == 201:
			answers[t] = "allowed"
		case !rev && ev.code == 401:
			answers[t] = "revoked"
		case !rev && ev.code >= 500:
			answers[t] = "rerr"
		default:
			answers[t] = "status" + strconv.Itoa(ev.code)
		}
	}
	var evs []string
	for pos, t := range h.Sched {
		if t < 0 {
			for i := 0; i < n; i++ {
				if state[i] == 1 || state[i] == 2 {
					cur = i
					abort := state[i] == 1 || !decided[i]
					gates[i] <- !abort
					finish(i, waitFor(i), abort, pos)
				}
			}
			cur = -1
			e.restart()
			evs = append(evs, "r0")
			continue
		}
		if t >= n {
			continue
		}
		cur = t
		st := "s" + strconv.Itoa(t)
		evs = append(evs, st)
		switch state[t] {
		case 0:
			startAt[t] = pos
			starts[t] <- struct{}{}
			ev := waitFor(t)
			if ev.kind == "done" {
				finish(t, ev, false, pos)
				if isRevoke(h.Ops[t].Kind) && ev.code == 400 {
					answers[t] = "bad" // refused by the request's Validate before any storage call
				} else {
					answers[t] = "early-" + answers[t]
				}
			} else {
				state[t] = 1
			}
		case 1:
			gates[t] <- true
			ev := waitFor(t)
			if ev.kind == "done" { // fault "b": the call was not performed
				finish(t, ev, false, pos)
			} else {
				state[t] = 2
			}
		case 2:
			gates[t] <- true
			finish(t, waitFor(t), false, pos)
		}
		cur = -1
	}
	for i := 0; i < n; i++ {
		if state[i] == 0 {
			answers[i] = "pend"
			close(starts[i]) // never run: let the goroutine go, result ignored
			cur = -1
		} else if state[i] != 3 {
			answers[i] = "incomplete-schedule"
			cur = i
			for state[i] != 3 {
				gates[i] <- true
				if ev := waitFor(i); ev.kind == "done" {
					state[i] = 3
				}
			}
		}
	}
	cur = -1
	line := "h"
	if h.Linked {
		line = "lh"
	}
	in := fmt.Sprintf("%s reqs=%s evs=%s", line, strings.Join(reqIn, ";"), c.List(evs))
	impl := strings.Join(answers, ",") + " x=" + dumpTable(e, "revoked_x509_certs") + " s=" + dumpTable(e, "revoked_ssh_certs")
	// relying parties without OCSP: what the CRL says and what the renewal gate says must agree. With CRL publication on,
	// a list generated now contains exactly the serials of the revoked table whose certificate did not expire more than 1 h ago.
	if h.CRL {
		if err := e.ca.Auth.GenerateCertificateRevocationList(); err != nil {
			impl += " VIOLATION=crl-generation-failed"
		} else if info, err := e.ca.Auth.GetCertificateRevocationList(); err != nil {
			impl += " VIOLATION=no-crl-served"
		} else if rl, err := x509.ParseRevocationList(info.Data); err != nil || rl.CheckSignatureFrom(e.ca.MiniCA.Intermediate) != nil {
			impl += " VIOLATION=crl-malformed"
		} else {
			listed := map[string]bool{}
			for _, en := range rl.RevokedCertificateEntries {
				listed[en.SerialNumber.String()] = true
			}
			notAfter := map[string]time.Time{}
			for _, xc := range xs {
				notAfter[xc.crt.SerialNumber.String()] = xc.crt.NotAfter
			}
			want := 0
			for _, en := range ss.Dump(e.ca.DB, "revoked_x509_certs") {
				na, known := notAfter[en.Key]
				if known && na.Before(rl.ThisUpdate.Add(-time.Hour)) {
					if listed[en.Key] {
						impl += " VIOLATION=crl-lists-long-expired-certificate"
					}
					continue
				}
				want++
				if !listed[en.Key] {
					impl += " VIOLATION=revoked-serial-missing-from-crl"
				}
			}
			if want != len(listed) && !strings.Contains(impl, "VIOLATION=crl-lists") {
				impl += " VIOLATION=crl-lists-serial-that-is-not-revoked"
			}
		}
	}
	// the property itself on the implementation's answers: a renewal that started after a
	// revocation of the same certificate (in any accepted spelling of its serial) was acknowledged
	// must not be allowed; a revocation acknowledged twice
	for i := 0; i < n; i++ {
		oi := h.Ops[i]
		if !isRevoke(oi.Kind) || answers[i] != "ok" {
			continue
		}
		for j := 0; j < n; j++ {
			oj := h.Ops[j]
			if j == i || oj.Cert != oi.Cert || isSSH(oj.Kind) != isSSH(oi.Kind) || state[j] != 3 || answers[j] == "pend" {
				continue
			}
			if !isRevoke(oj.Kind) && startAt[j] > doneAt[i] && strings.HasSuffix(answers[j], "allowed") { // "early-allowed": answered without reading the table at all
				impl += " VIOLATION=renewed-after-acknowledged-revocation"
			}
			if isRevoke(oj.Kind) && answers[j] == "ok" && j > i && !h.Linked { // (the linked CA service acknowledges every revocation)
				impl += " VIOLATION=two-acknowledged-revocations"
			}
		}
	}
	return in, impl
}

// ---------------------------------------------------------------- generation

func seqSched(n int) []int {
	var s []int
	for i := 0; i < n; i++ {
		s = append(s, i, i, i)
	}
	return s
}

func cornerHists() []*Hist {
	return []*Hist{
		// revoke by token, renew, rekey, second revoke, restart, renew, second revoke by mTLS
		{NX: 1, Ops: []OpSpec{{"renew", 0, 0, "n"}, {"revtok", 0, 1, "n"}, {"renew", 0, 0, "n"}, {"rekey", 0, 0, "n"}, {"revtok", 0, 0, "n"}, {"renew", 0, 0, "n"}, {"revmtls", 0, 0, "n"}},
			Sched: append(append(seqSched(5), -1), 5, 5, 5, 6, 6, 6)},
		// the renew-token route: allowed before, refused after the revocation, also after a restart and under a read fault
		{NX: 2, Ops: []OpSpec{{"renewtok", 0, 0, "n"}, {"revmtls", 0, 0, "n"}, {"renewtok", 0, 0, "n"}, {"renewtok", 0, 0, "n"}, {"renewtok", 1, 0, "b"}, {"renewtok", 1, 0, "n"}},
			Sched: append(append(seqSched(3), -1), 3, 3, 3, 4, 4, 4, 5, 5, 5)},
		// every spelling of the serial hits the same record
		{NX: 1, Ops: []OpSpec{{"revtok", 0, 3, "n"}, {"revtok", 0, 2, "n"}, {"revmtls", 0, 5, "n"}, {"revacme", 0, 0, "n"}, {"revtok", 0, 6, "n"}, {"revtok", 0, 7, "n"}, {"revtok", 0, 4, "n"}}, Sched: seqSched(7)},
		// faults: before (nothing stored, 500), after (stored, 500), then a clean retry says already
		{NX: 2, Ops: []OpSpec{{"revtok", 0, 0, "b"}, {"renew", 0, 0, "n"}, {"revtok", 0, 0, "a"}, {"renew", 0, 0, "n"}, {"revtok", 0, 0, "n"}, {"renew", 1, 0, "b"}, {"renew", 1, 0, "n"}}, Sched: seqSched(7)},
		// two revocations racing: both before the CAS; a renewal that read before the CAS
		{NX: 1, Ops: []OpSpec{{"revtok", 0, 0, "n"}, {"revmtls", 0, 1, "n"}, {"renew", 0, 0, "n"}}, Sched: []int{0, 1, 2, 2, 1, 0, 0, 1, 2}},
		// stop between CAS and answer
		{NX: 1, Ops: []OpSpec{{"revtok", 0, 0, "n"}, {"renew", 0, 0, "n"}, {"revtok", 0, 0, "n"}}, Sched: []int{0, 0, -1, 1, 1, 1, 2, 2, 2}},
		// SSH: a revocation in any decimal spelling blocks renew and rekey, also after a restart; other spellings are refused
		{NS: 2, Ops: []OpSpec{{"renewssh", 0, 0, "n"}, {"revssh", 0, 0, "n"}, {"renewssh", 0, 0, "n"}, {"rekeyssh", 0, 0, "n"}, {"revssh", 0, 0, "n"}, {"revssh", 1, 1, "n"}, {"renewssh", 1, 0, "n"}, {"renewssh", 0, 0, "n"}, {"revssh", 1, 2, "n"}, {"revssh", 1, 3, "n"}, {"revssh", 1, 4, "n"}},
			Sched: append(append(append(seqSched(7), -1), 7, 7, 7), 8, 8, 8, 9, 9, 9, 10, 10, 10)},
		// SSH through the real handlers with proof-of-possession tokens: renew and rekey allowed before, refused after the revocation
		// (by the certificate's own token or by a JWK token), a second revocation by the revoked certificate refused, also after a restart
		{NS: 3, Ops: []OpSpec{{"hrenewssh", 0, 0, "n"}, {"hrekeyssh", 0, 0, "n"}, {"revpopssh", 0, 0, "n"}, {"hrenewssh", 0, 0, "n"}, {"hrekeyssh", 0, 0, "n"}, {"revpopssh", 0, 0, "n"},
			{"revssh", 1, 0, "n"}, {"hrenewssh", 1, 0, "n"}, {"revpopssh", 1, 0, "n"}, {"hrekeyssh", 1, 0, "n"}, {"hrenewssh", 2, 0, "n"}, {"renewssh", 0, 0, "n"}, {"revssh", 0, 2, "n"}},
			Sched: append(append(append(seqSched(8), -1), 8, 8, 8), 9, 9, 9, 10, 10, 10, 11, 11, 11, 12, 12, 12)},
		// crafted SSH certificates 16 and 14: "016" (decimal 16; read as octal it would be 14) revokes certificate 16 and nothing else:
		// 16 is refused afterwards (handler and direct), 14 stays renewable until its own revocation; "0010" is 10, not 8
		{NS: 4, Small: true, Ops: []OpSpec{{"revssh", 0, 1, "n"}, {"renewssh", 0, 0, "n"}, {"hrenewssh", 0, 0, "n"}, {"renewssh", 1, 0, "n"}, {"hrekeyssh", 1, 0, "n"}, {"revssh", 1, 0, "n"}, {"renewssh", 1, 0, "n"},
			{"revssh", 2, 4, "n"}, {"renewssh", 2, 0, "n"}, {"renewssh", 3, 0, "n"}, {"revpopssh", 3, 0, "n"}, {"rekeyssh", 3, 0, "n"}}, Sched: seqSched(12)},
		// linked CA: revocations are RPCs to the linked CA service, the renewal gates ask it: acknowledged revocations block X.509 and SSH renewals
		// (every route), an RPC that fails (before / after it was performed) is a 500 and never an acknowledgement, also across a restart of the CA
		{Linked: true, NX: 2, NS: 2, Ops: []OpSpec{{"renew", 0, 0, "n"}, {"revtok", 0, 1, "b"}, {"renew", 0, 0, "n"}, {"revtok", 0, 0, "n"}, {"renew", 0, 0, "n"}, {"rekey", 0, 0, "n"}, {"renewtok", 0, 0, "n"},
			{"revssh", 0, 0, "b"}, {"renewssh", 0, 0, "n"}, {"hrenewssh", 0, 0, "n"}, {"revssh", 0, 0, "a"}, {"renewssh", 0, 0, "n"}, {"revpopssh", 1, 0, "n"}, {"hrekeyssh", 1, 0, "n"}, {"revmtls", 1, 0, "n"},
			{"renew", 1, 0, "n"}, {"revssh", 1, 0, "n"}, {"renew", 1, 0, "b"}},
			Sched: append(append(seqSched(12), -1), 12, 12, 12, 13, 13, 13, 14, 14, 14, 15, 15, 15, 16, 16, 16, 17, 17, 17)},
		// expired certificates (renewable after expiry): through the renew-token route (made for them; the environment's CA is 90 days
		// old so that they chain at their own time) and presented as peer certificate: renewed before, refused after the revocation
		// (by token: expiry taken from the certificate table; over mTLS: from the presented certificate), also after a restart
		{NXE: 2, Ops: []OpSpec{{"renewtok", 0, 0, "n"}, {"revtok", 0, 1, "n"}, {"renewtok", 0, 0, "n"}, {"rekey", 0, 0, "n"}, {"renewtok", 1, 0, "n"}, {"revmtls", 1, 0, "n"}, {"renewtok", 1, 0, "n"}, {"renewtok", 0, 0, "n"}, {"rekey", 1, 0, "n"}},
			Sched: append(append(seqSched(7), -1), 7, 7, 7, 8, 8, 8)},
		// generate-on-revoke: regeneration failure after the record is stored
		{CRL: true, NX: 2, Ops: []OpSpec{{"revtok", 0, 0, "c"}, {"renew", 0, 0, "n"}, {"revtok", 0, 0, "n"}, {"revmtls", 1, 0, "n"}, {"renew", 1, 0, "n"}}, Sched: seqSched(5)},
	}
}

func genHist(r *c.Rng) *Hist {
	h := &Hist{CRL: r.Chance(1, 5), NX: 1 + r.Intn(4), NS: r.Intn(3)}
	if r.Chance(1, 3) {
		h.NXE = 1 + r.Intn(2)
	}
	if h.NX+h.NXE+h.NS > 8 {
		h.NS = 8 - h.NX - h.NXE
	}
	n := 3 + r.Intn(8)
	for i := 0; i < n; i++ {
		var op OpSpec
		ssh := h.NS > 0 && r.Chance(1, 4)
		if ssh {
			op.Cert = r.Intn(h.NS)
			op.Kind = c.Pick(r, []string{"revssh", "revssh", "renewssh", "rekeyssh", "hrenewssh", "hrekeyssh", "revpopssh"})
			if op.Kind == "revssh" && r.Chance(1, 3) {
				op.Spell = 1 + r.Intn(5)
			}
		} else {
			op.Cert = r.Intn(h.NX + h.NXE)
			op.Kind = c.Pick(r, []string{"revtok", "revtok", "revmtls", "revacme", "renew", "renew", "rekey", "renewtok"})
			if op.Kind == "revtok" || op.Kind == "revmtls" {
				op.Spell = r.Intn(8)
			}
		}
		op.Fault = "n"
		switch r.Intn(12) {
		case 0:
			op.Fault = "b"
		case 1:
			op.Fault = "a"
		case 2:
			if h.CRL && isRevoke(op.Kind) && !isSSH(op.Kind) {
				op.Fault = "c"
			}
		}
		h.Ops = append(h.Ops, op)
	}
	if h.NS > 0 && r.Chance(1, 3) {
		h.Small, h.SmallOff = true, 2*r.Intn(4)
	}
	if r.Chance(1, 6) {
		h.Linked, h.CRL, h.NXE = true, false, 0
		for i := range h.Ops {
			if !isSSH(h.Ops[i].Kind) && h.Ops[i].Cert >= h.NX {
				h.Ops[i].Cert = r.Intn(h.NX)
			}
			if h.Ops[i].Fault == "c" {
				h.Ops[i].Fault = "n"
			}
		}
	}
	i := 0
	for i < n {
		g := 1
		if r.Chance(1, 2) {
			g = 1 + r.Intn(3)
		}
		if i+g > n {
			g = n - i
		}
		left := make([]int, g)
		for j := range left {
			left[j] = 3
		}
		rem := 3 * g
		for rem > 0 {
			j := r.Intn(g)
			if left[j] == 0 {
				continue
			}
			left[j]--
			rem--
			h.Sched = append(h.Sched, i+j)
			if r.Chance(1, 30) {
				h.Sched = append(h.Sched, -1)
			}
		}
		if r.Chance(1, 6) {
			h.Sched = append(h.Sched, -1)
		}
		i += g
	}
	return h
}
