package main

import (
	"bytes"
	"context"
	"crypto"
	"crypto/ecdsa"
	"crypto/elliptic"
	"crypto/rand"
	"crypto/sha1"
	"crypto/tls"
	"crypto/x509"
	"crypto/x509/pkix"
	"encoding/base64"
	"encoding/json"
	"encoding/pem"
	"errors"
	"fmt"
	"math/big"
	"net/http"
	"net/http/httptest"
	"strconv"
	"strings"
	"time"

	"go.step.sm/crypto/jose"
	"go.step.sm/crypto/minica"
	"go.step.sm/crypto/randutil"
	"golang.org/x/crypto/ssh"

	"github.com/smallstep/certificates/api"
	"github.com/smallstep/certificates/authority"
	"github.com/smallstep/certificates/authority/config"
	"github.com/smallstep/certificates/authority/provisioner"
	"github.com/smallstep/certificates/db"
	"verif/harness/cmd/c02/ss"
	"verif/harness/fixture"
)

func must[T any](v T, err error) T {
	if err != nil {
		panic(err)
	}
	return v
}

type env struct {
	ca    *fixture.CA
	hooks *ss.Hooks
	svc   *majordomo // a linked CA: the service holding the revoked tables (nil = stand-alone)
}

var envs []*env

func closeEnvs() {
	for _, e := range envs {
		e.ca.Close()
	}
	if raceACME != nil {
		raceACME.Close()
	}
}

// oldCA: root and intermediate that have existed for 90 days (the fixture's own are created "now"), so that
// certificates which expired days ago chain to them at the time the x5cInsecure check evaluates
// (leaf.NotAfter - 1 min): the renew-token route exists for exactly those certificates.
func oldCA() *fixture.CA {
	mk := func(cn string, parent *x509.Certificate, parentKey crypto.Signer, pathLen int) (*x509.Certificate, crypto.Signer) {
		key := must(ecdsa.GenerateKey(elliptic.P256(), rand.Reader))
		ski := sha1.Sum(elliptic.Marshal(elliptic.P256(), key.X, key.Y))
		tpl := &x509.Certificate{SerialNumber: new(big.Int).SetBytes(must(randutil.Salt(12))), Subject: pkix.Name{CommonName: cn},
			NotBefore: time.Now().Add(-90 * 24 * time.Hour), NotAfter: time.Now().Add(10 * 365 * 24 * time.Hour),
			KeyUsage: x509.KeyUsageCertSign | x509.KeyUsageCRLSign, BasicConstraintsValid: true, IsCA: true, MaxPathLen: pathLen, MaxPathLenZero: pathLen == 0,
			SubjectKeyId: ski[:]}
		signer, signerCert := crypto.Signer(key), tpl
		if parent != nil {
			signer, signerCert = parentKey, parent
		}
		der := must(x509.CreateCertificate(rand.Reader, tpl, signerCert, &key.PublicKey, signer))
		return must(x509.ParseCertificate(der)), key
	}
	root, rootKey := mk("Verif Old Root CA", nil, nil, 1)
	inter, interKey := mk("Verif Old Intermediate CA", root, rootKey, 0)
	jwk := must(jose.GenerateJWK("EC", "P-256", "ES256", "sig", "", 0))
	jwk.KeyID = must(jose.Thumbprint(jwk))
	return &fixture.CA{MiniCA: &minica.CA{Root: root, RootSigner: rootKey, Intermediate: inter, Signer: interKey}, JWK: jwk,
		SSHUser: must(ecdsa.GenerateKey(elliptic.P256(), rand.Reader)), SSHHost: must(ecdsa.GenerateKey(elliptic.P256(), rand.Reader))}
}

func newEnv(hooks *ss.Hooks, crl bool) *env {
	yes := true
	// allowRenewalAfterExpiry: expired certificates stay renewable (that is what the renew-token route is
	// for), so "revoked" has to keep blocking them after they expired
	o := fixture.Opts{SSH: true, WrapDB: ss.Wrap(hooks), JWKClaims: &provisioner.Claims{EnableSSHCA: &yes, AllowRenewalAfterExpiry: &yes},
		Provisioners: provisioner.List{&provisioner.SSHPOP{Type: "SSHPOP", Name: "sshpop"}}, From: oldCA()}
	if crl {
		o.CRL = &config.CRLConfig{Enabled: true, GenerateOnRevoke: true}
	}
	return &env{ca: must(fixture.New(o)), hooks: hooks}
}

func (e *env) restart() { e.ca = must(e.ca.Restart()) }

type x509Cert struct {
	crt *x509.Certificate
	key crypto.Signer
}

type sshCert struct {
	crt *ssh.Certificate
	key *ecdsa.PrivateKey
}

func (e *env) issueX509() *x509Cert {
	cn := "h" + must(randutil.Hex(8)) + ".example.com"
	tok := must(e.ca.Token(fixture.TokenOpts{Subject: cn}))
	csr, key, err := fixture.CSR(cn, []string{cn})
	if err != nil {
		panic(err)
	}
	chain := must(e.ca.SignX509(tok, csr, provisioner.SignOptions{}))
	return &x509Cert{crt: chain[0], key: key}
}

// expiredX509 makes a certificate of this CA as provisioner "jwk" would have issued it long ago: signed by
// the intermediate, carrying the provisioner extension, NotAfter `ago` in the past, and present in the CA's
// certificate table (put there through the real db API).
func (e *env) expiredX509(ago time.Duration) *x509Cert {
	key := must(ecdsa.GenerateKey(elliptic.P256(), rand.Reader))
	cn := "old" + must(randutil.Hex(8)) + ".example.com"
	ext := must((&provisioner.Extension{Type: provisioner.TypeJWK, Name: "jwk", CredentialID: e.ca.JWK.KeyID}).ToExtension())
	na := time.Now().Truncate(time.Second).Add(-ago)
	tpl := &x509.Certificate{SerialNumber: new(big.Int).SetBytes(must(randutil.Salt(14))), Subject: pkix.Name{CommonName: cn}, DNSNames: []string{cn},
		NotBefore: na.Add(-24 * time.Hour), NotAfter: na, KeyUsage: x509.KeyUsageDigitalSignature,
		ExtKeyUsage: []x509.ExtKeyUsage{x509.ExtKeyUsageServerAuth, x509.ExtKeyUsageClientAuth}, ExtraExtensions: []pkix.Extension{ext}}
	der := must(x509.CreateCertificate(rand.Reader, tpl, e.ca.MiniCA.Intermediate, &key.PublicKey, e.ca.MiniCA.Signer))
	crt := must(x509.ParseCertificate(der))
	st, ok := e.ca.DB.(db.CertificateStorer)
	if !ok {
		panic("database does not store certificates")
	}
	if err := st.StoreCertificate(crt); err != nil {
		panic(err)
	}
	return &x509Cert{crt: crt, key: key}
}

func (e *env) issueSSH() *sshCert {
	name := "h" + must(randutil.Hex(8)) + ".example.com"
	key := must(ecdsa.GenerateKey(elliptic.P256(), rand.Reader))
	pub := must(ssh.NewPublicKey(&key.PublicKey))
	tok := must(e.ca.Token(fixture.TokenOpts{Subject: name, Audience: fixture.Audience("/1.0/ssh/sign"), NoSANs: true,
		Extra: map[string]any{"step": map[string]any{"ssh": map[string]any{"certType": "host", "keyID": name, "principals": []string{name}}}}}))
	ctx := provisioner.NewContextWithMethod(authority.NewContext(context.Background(), e.ca.Auth), provisioner.SSHSignMethod)
	opts := must(e.ca.Auth.Authorize(ctx, tok))
	crt := must(e.ca.Auth.SignSSH(ctx, pub, provisioner.SignSSHOptions{CertType: "host", KeyID: name, Principals: []string{name}}, opts...))
	return &sshCert{crt: crt, key: key}
}

// craftSSH: an SSH host certificate with a chosen serial, signed by the CA's SSH host key (the CA itself draws 64-bit random
// serials, whose decimal form hardly ever is a valid octal number as well)
func (e *env) craftSSH(serial uint64) *sshCert {
	name := "h" + must(randutil.Hex(8)) + ".example.com"
	key := must(ecdsa.GenerateKey(elliptic.P256(), rand.Reader))
	now := time.Now()
	crt := &ssh.Certificate{Key: must(ssh.NewPublicKey(&key.PublicKey)), Serial: serial, CertType: ssh.HostCert, KeyId: name, ValidPrincipals: []string{name},
		ValidAfter: uint64(now.Add(-time.Minute).Unix()), ValidBefore: uint64(now.Add(time.Hour).Unix())}
	if err := crt.SignCert(rand.Reader, must(ssh.NewSignerFromSigner(e.ca.SSHHost))); err != nil {
		panic(err)
	}
	return &sshCert{crt: crt, key: key}
}

// ---- requests through the real handlers

func (e *env) serve(h http.HandlerFunc, method, path string, body any, peer *x509.Certificate, bearer string) int {
	code, _ := e.serveBody(h, method, path, body, peer, bearer)
	return code
}

func (e *env) serveBody(h http.HandlerFunc, method, path string, body any, peer *x509.Certificate, bearer string) (int, []byte) {
	var buf bytes.Buffer
	if body != nil {
		json.NewEncoder(&buf).Encode(body)
	}
	req := httptest.NewRequest(method, "https://"+fixture.DNSName+path, &buf)
	if peer != nil {
		req.TLS = &tls.ConnectionState{PeerCertificates: []*x509.Certificate{peer}}
	}
	if bearer != "" {
		req.Header.Set("Authorization", "Bearer "+bearer)
	}
	req = req.WithContext(authority.NewContext(req.Context(), e.ca.Auth))
	w := httptest.NewRecorder()
	h(w, req)
	return w.Code, w.Body.Bytes()
}

func (e *env) revokeToken(serialAsSent, reason string) int {
	// the token's subject is the serial as the client knows it (what `step ca revoke` sends)
	tok := must(e.ca.Token(fixture.TokenOpts{Subject: serialAsSent, Audience: fixture.Audience("/1.0/revoke"), NoSANs: true}))
	return e.serve(api.Revoke, "POST", "/1.0/revoke", map[string]any{"serial": serialAsSent, "ott": tok, "passive": true, "reasonCode": reasonCodeOf(reason), "reason": reason}, nil, "")
}

func (e *env) revokeMTLS(c *x509Cert, serialAsSent, reason string) int {
	return e.serve(api.Revoke, "POST", "/1.0/revoke", map[string]any{"serial": serialAsSent, "passive": true, "reasonCode": reasonCodeOf(reason), "reason": reason}, c.crt, "")
}

// the call acme/api/revoke.go makes after it has authenticated the ACME request
func (e *env) revokeACME(c *x509Cert, reason string) int {
	ctx := provisioner.NewContextWithMethod(authority.NewContext(context.Background(), e.ca.Auth), provisioner.RevokeMethod)
	err := e.ca.Auth.Revoke(ctx, &authority.RevokeOptions{Serial: c.crt.SerialNumber.String(), Crt: c.crt, ACME: true, ReasonCode: reasonCodeOf(reason), Reason: reason})
	return statusOf(err, 200)
}

func (e *env) revokeSSHJWK(serialAsSent, reason string) int {
	tok := must(e.ca.Token(fixture.TokenOpts{Subject: serialAsSent, Audience: fixture.Audience("/1.0/ssh/revoke"), NoSANs: true}))
	return e.serve(api.SSHRevoke, "POST", "/1.0/ssh/revoke", map[string]any{"serial": serialAsSent, "ott": tok, "passive": true, "reasonCode": reasonCodeOf(reason), "reason": reason}, nil, "")
}

// sshpopToken: a proof-of-possession token for the SSH certificate (header sshpop, signed by
// the certificate's key, subject = the certificate's serial in decimal).
func (e *env) sshpopToken(c *sshCert, path string) string {
	so := new(jose.SignerOptions).WithType("JWT").WithHeader("sshpop", base64.StdEncoding.EncodeToString(c.crt.Marshal()))
	sig := must(jose.NewSigner(jose.SigningKey{Algorithm: jose.ES256, Key: c.key}, so))
	now := time.Now()
	claims := map[string]any{"iss": "sshpop", "sub": strconv.FormatUint(c.crt.Serial, 10), "aud": fixture.Audience(path) + "#sshpop/sshpop",
		"iat": now.Unix(), "nbf": now.Add(-time.Second).Unix(), "exp": now.Add(5 * time.Minute).Unix(), "jti": must(randutil.Hex(16))}
	return must(jose.Signed(sig).Claims(claims).CompactSerialize())
}

func (e *env) revokeSSHPOP(c *sshCert, serialAsSent, reason string) int {
	return e.serve(api.SSHRevoke, "POST", "/1.0/ssh/revoke", map[string]any{"serial": serialAsSent, "ott": e.sshpopToken(c, "/1.0/ssh/revoke"), "passive": true, "reasonCode": reasonCodeOf(reason), "reason": reason}, nil, "")
}

// renewTokenFor mints the token `step ca renew --mtls=false` sends: header x5cInsecure = the
// certificate chain, signed by the certificate's key, subject = its common name.
func renewTokenFor(c *x509Cert, inter *x509.Certificate) string {
	chain := []string{base64.StdEncoding.EncodeToString(c.crt.Raw), base64.StdEncoding.EncodeToString(inter.Raw)}
	so := new(jose.SignerOptions).WithType("JWT").WithHeader("x5cInsecure", chain)
	sig := must(jose.NewSigner(jose.SigningKey{Algorithm: jose.ES256, Key: c.key}, so))
	now := time.Now()
	claims := map[string]any{"iss": "step-ca-client/1.0", "sub": c.crt.Subject.CommonName, "aud": fixture.Audience("/1.0/renew"),
		"iat": now.Unix(), "nbf": now.Add(-time.Second).Unix(), "exp": now.Add(5 * time.Minute).Unix(), "jti": must(randutil.Hex(16))}
	return must(jose.Signed(sig).Claims(claims).CompactSerialize())
}

// renewByToken: POST /1.0/renew without a client certificate, Authorization: Bearer <renew token>
func (e *env) renewByToken(c *x509Cert) int {
	return e.serve(api.Renew, "POST", "/1.0/renew", nil, nil, renewTokenFor(c, e.ca.MiniCA.Intermediate))
}

func (e *env) renew(c *x509Cert) int { return e.serve(api.Renew, "POST", "/1.0/renew", nil, c.crt, "") }

func (e *env) rekey(c *x509Cert) int {
	csr, _, err := fixture.CSR(c.crt.Subject.CommonName, c.crt.DNSNames)
	if err != nil {
		panic(err)
	}
	p := pem.EncodeToMemory(&pem.Block{Type: "CERTIFICATE REQUEST", Bytes: csr.Raw})
	return e.serve(api.Rekey, "POST", "/1.0/rekey", map[string]any{"csr": string(p)}, c.crt, "")
}

func (e *env) renewSSH(c *sshCert) int {
	ctx := provisioner.NewContextWithMethod(authority.NewContext(context.Background(), e.ca.Auth), provisioner.SSHRenewMethod)
	_, err := e.ca.Auth.RenewSSH(ctx, c.crt)
	return statusOf(err, 201)
}

func (e *env) rekeySSH(c *sshCert) int {
	key := must(ecdsa.GenerateKey(elliptic.P256(), rand.Reader))
	pub := must(ssh.NewPublicKey(&key.PublicKey))
	ctx := provisioner.NewContextWithMethod(authority.NewContext(context.Background(), e.ca.Auth), provisioner.SSHRekeyMethod)
	_, err := e.ca.Auth.RekeySSH(ctx, c.crt, pub)
	return statusOf(err, 201)
}

// the same through the real handlers: POST /1.0/ssh/renew and /1.0/ssh/rekey with a proof-of-possession token of the certificate
func (e *env) renewSSHHandler(c *sshCert) int {
	return e.serve(api.SSHRenew, "POST", "/1.0/ssh/renew", map[string]any{"ott": e.sshpopToken(c, "/1.0/ssh/renew")}, nil, "")
}

func (e *env) rekeySSHHandler(c *sshCert) int {
	key := must(ecdsa.GenerateKey(elliptic.P256(), rand.Reader))
	pub := must(ssh.NewPublicKey(&key.PublicKey))
	return e.serve(api.SSHRekey, "POST", "/1.0/ssh/rekey", map[string]any{"ott": e.sshpopToken(c, "/1.0/ssh/rekey"), "publicKey": pub.Marshal()}, nil, "")
}

// reasonCodeOf: the reason code sent with a revocation varies with the request ("t<n>" is request n of a history): keyCompromise,
// certificateHold, removeFromCRL, unspecified, superseded. Whatever the code, an acknowledged revocation is a revocation: the record
// blocks renewals (a linked CA service answers HOLD for certificateHold, which is not ACTIVE either).
func reasonCodeOf(reason string) int {
	if strings.HasPrefix(reason, "t") {
		if n, err := strconv.Atoi(reason[1:]); err == nil {
			return []int{1, 6, 8, 0, 4}[n%5]
		}
	}
	return 1
}

func statusOf(err error, ok int) int {
	if err == nil {
		return ok
	}
	var sc interface{ StatusCode() int }
	if errors.As(err, &sc) {
		return sc.StatusCode()
	}
	return 500
}

// ---- serial spellings accepted by RevokeRequest.Validate (base-0 big.Int syntax)

func spellSerial(n *big.Int, i int) string {
	switch i {
	case 1:
		return "0x" + n.Text(16)
	case 2:
		return "0X" + strings.ToUpper(n.Text(16))
	case 3:
		return "0" + n.Text(8)
	case 4:
		return "+" + n.Text(10)
	case 5:
		d := n.Text(10)
		if len(d) > 3 {
			return d[:len(d)-3] + "_" + d[len(d)-3:]
		}
		return d
	case 6:
		return "0b" + n.Text(2)
	case 7:
		return "0o" + n.Text(8)
	}
	return n.Text(10)
}

// spellings for the SSH route (strconv.ParseUint base 10: 0, 1, 4 are accepted, the others refused)
func spellSSHSerial(n uint64, i int) string {
	d := strconv.FormatUint(n, 10)
	switch i {
	case 1:
		return "0" + d
	case 2:
		return "+" + d
	case 3:
		return "0x" + strconv.FormatUint(n, 16)
	case 4:
		return "000" + d
	case 5:
		return d[:1] + "_" + d[1:]
	}
	return d
}

// dumpTable renders a revoked table as [x<hex key>=<tag>,…] (tag = the number in the record's Reason "t<n>").
func dumpTable(e *env, table string) string {
	if e.svc != nil {
		return e.svc.dump(table)
	}
	var parts []string
	for _, en := range ss.Dump(e.ca.DB, table) {
		var rec struct{ Reason string }
		tag := "?"
		if json.Unmarshal(en.Value, &rec) == nil && strings.HasPrefix(rec.Reason, "t") {
			tag = rec.Reason[1:]
		}
		parts = append(parts, fmt.Sprintf("x%x=%s", en.Key, tag))
	}
	return "[" + strings.Join(parts, ",") + "]"
}
