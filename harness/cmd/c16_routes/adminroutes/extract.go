// Package adminroutes re-derives, with go/parser + go/ast only, the route table of the admin API
// from authority/admin/api/handler.go (func Route): every r.MethodFunc(method, path, mw(handler))
// with its middleware chain spelled out. It recognises fixed shapes and FAILS CLOSED: any statement
// of Route it does not recognise is returned as an error, never skipped.
package adminroutes

import (
	"fmt"
	"go/ast"
	"go/parser"
	"go/token"
	"path/filepath"
	"strconv"
	"strings"
)

// Route is one registered admin-API route: the chain lists the middlewares in the order they run,
// followed by the handler.
type Route struct {
	Method string
	Path   string // relative to the /admin mount point
	Chain  []string
}

// Extract parses <repo>/authority/admin/api/handler.go.
func Extract(repo string) ([]Route, error) {
	fset := token.NewFileSet()
	file := filepath.Join(repo, "authority", "admin", "api", "handler.go")
	f, err := parser.ParseFile(fset, file, nil, 0)
	if err != nil {
		return nil, err
	}
	var fn *ast.FuncDecl
	for _, d := range f.Decls {
		if fd, ok := d.(*ast.FuncDecl); ok && fd.Name.Name == "Route" && fd.Recv == nil {
			fn = fd
		}
	}
	if fn == nil {
		return nil, fmt.Errorf("func Route not found in %s", file)
	}
	x := &extractor{fset: fset, mws: map[string][]string{}}
	if err := x.block(fn.Body.List, true); err != nil {
		return nil, err
	}
	return x.routes, nil
}

type extractor struct {
	fset   *token.FileSet
	mws    map[string][]string // local middleware name -> expanded chain
	routes []Route
}

func (x *extractor) pos(n ast.Node) string { return x.fset.Position(n.Pos()).String() }

func (x *extractor) block(stmts []ast.Stmt, top bool) error {
	for _, st := range stmts {
		switch s := st.(type) {
		case *ast.AssignStmt:
			// name := func(next http.HandlerFunc) http.HandlerFunc { return <chain>(next) }   |   router := &router{}
			if len(s.Lhs) != 1 || len(s.Rhs) != 1 {
				return fmt.Errorf("%s: unrecognised assignment", x.pos(s))
			}
			name, ok := s.Lhs[0].(*ast.Ident)
			if !ok {
				return fmt.Errorf("%s: unrecognised assignment target", x.pos(s))
			}
			switch rhs := s.Rhs[0].(type) {
			case *ast.FuncLit:
				if len(rhs.Body.List) != 1 {
					return fmt.Errorf("%s: middleware %s is not a single return", x.pos(s), name.Name)
				}
				ret, ok := rhs.Body.List[0].(*ast.ReturnStmt)
				if !ok || len(ret.Results) != 1 {
					return fmt.Errorf("%s: middleware %s is not a single return", x.pos(s), name.Name)
				}
				chain, err := x.chain(ret.Results[0])
				if err != nil {
					return err
				}
				x.mws[name.Name] = chain
			case *ast.UnaryExpr: // router := &router{}
				if name.Name != "router" {
					return fmt.Errorf("%s: unrecognised assignment to %s", x.pos(s), name.Name)
				}
			default:
				return fmt.Errorf("%s: unrecognised assignment to %s", x.pos(s), name.Name)
			}
		case *ast.RangeStmt:
			// for _, fn := range options { fn(router) }
			if !top {
				return fmt.Errorf("%s: unexpected loop", x.pos(s))
			}
		case *ast.IfStmt:
			// if router.<x>Responder != nil { routes… }   (all three responders are installed by ca.Init)
			if s.Else != nil || s.Init != nil {
				return fmt.Errorf("%s: unrecognised if", x.pos(s))
			}
			be, ok := s.Cond.(*ast.BinaryExpr)
			if !ok || be.Op != token.NEQ {
				return fmt.Errorf("%s: unrecognised condition", x.pos(s))
			}
			if sel, ok := be.X.(*ast.SelectorExpr); !ok || !strings.HasSuffix(sel.Sel.Name, "Responder") {
				return fmt.Errorf("%s: unrecognised condition", x.pos(s))
			}
			if err := x.block(s.Body.List, false); err != nil {
				return err
			}
		case *ast.ExprStmt:
			call, ok := s.X.(*ast.CallExpr)
			if !ok {
				return fmt.Errorf("%s: unrecognised statement", x.pos(s))
			}
			sel, ok := call.Fun.(*ast.SelectorExpr)
			if !ok || sel.Sel.Name != "MethodFunc" || len(call.Args) != 3 {
				return fmt.Errorf("%s: unrecognised call (only r.MethodFunc registrations are understood)", x.pos(s))
			}
			if id, ok := sel.X.(*ast.Ident); !ok || id.Name != "r" {
				return fmt.Errorf("%s: MethodFunc on something other than r", x.pos(s))
			}
			method, err := x.str(call.Args[0])
			if err != nil {
				return err
			}
			path, err := x.str(call.Args[1])
			if err != nil {
				return err
			}
			chain, err := x.chain(call.Args[2])
			if err != nil {
				return err
			}
			x.routes = append(x.routes, Route{Method: method, Path: path, Chain: chain})
		default:
			return fmt.Errorf("%s: unrecognised statement %T", x.pos(st), st)
		}
	}
	return nil
}

func (x *extractor) str(e ast.Expr) (string, error) {
	lit, ok := e.(*ast.BasicLit)
	if !ok || lit.Kind != token.STRING {
		return "", fmt.Errorf("%s: expected a string literal", x.pos(e))
	}
	return strconv.Unquote(lit.Value)
}

// chain flattens m1(m2(… h …)) into [m1, m2, …, h]; `next` ends a middleware definition,
// a local middleware name is replaced by its own chain, extra constant arguments are kept as name(arg).
func (x *extractor) chain(e ast.Expr) ([]string, error) {
	switch v := e.(type) {
	case *ast.Ident:
		if v.Name == "next" {
			return nil, nil
		}
		return []string{v.Name}, nil // a handler function
	case *ast.SelectorExpr: // router.policyResponder.GetAuthorityPolicy
		return []string{v.Sel.Name}, nil
	case *ast.CallExpr:
		fn, ok := v.Fun.(*ast.Ident)
		if !ok || len(v.Args) == 0 {
			return nil, fmt.Errorf("%s: unrecognised middleware application", x.pos(e))
		}
		inner, err := x.chain(v.Args[0])
		if err != nil {
			return nil, err
		}
		name := fn.Name
		for _, a := range v.Args[1:] {
			id, ok := a.(*ast.Ident)
			if !ok {
				return nil, fmt.Errorf("%s: unrecognised middleware argument", x.pos(a))
			}
			name += "(" + id.Name + ")"
		}
		if exp, ok := x.mws[fn.Name]; ok && len(v.Args) == 1 {
			return append(append([]string{}, exp...), inner...), nil
		}
		return append([]string{name}, inner...), nil
	}
	return nil, fmt.Errorf("%s: unrecognised expression %T", x.pos(e), e)
}
