package adminroutes

import (
	"fmt"
	"go/ast"
	"go/parser"
	"go/token"
	"path/filepath"
	"sort"
	"strings"
)

// WriteFuncs are the authority methods that change administrators, provisioners or the authority
// policy, with the file each lives in.
var WriteFuncs = []struct{ File, Name string }{
	{"authority/admins.go", "StoreAdmin"},
	{"authority/admins.go", "UpdateAdmin"},
	{"authority/admins.go", "RemoveAdmin"},
	{"authority/admins.go", "removeAdmin"},
	{"authority/provisioners.go", "StoreProvisioner"},
	{"authority/provisioners.go", "UpdateProvisioner"},
	{"authority/provisioners.go", "RemoveProvisioner"},
	{"authority/policy.go", "CreateAuthorityPolicy"},
	{"authority/policy.go", "UpdateAuthorityPolicy"},
	{"authority/policy.go", "RemoveAuthorityPolicy"},
}

// the calls that matter for "checks before writes, database and cache both written, a failed
// write followed by a reload": everything on the admin database, the two collections, the
// conversion, Init, the policy checks and the reloads
var bare = map[string]bool{
	"ProvisionerToCertificates": true, "ReloadAdminResources": true, "reindexAdmins": true, "checkProvisionerPolicy": true,
	"checkAuthorityPolicy": true, "reloadPolicyEngines": true, "enforceAuthorityPolicy": true, "removeAdmin": true,
	"generateProvisionerConfig": true,
}

func keep(name string) bool {
	if bare[name] {
		return true
	}
	if name == "adminMutex.Lock" || name == "adminMutex.RLock" {
		return true // where the method starts to exclude the other admin requests
	}
	for _, p := range []string{"adminDB.", "admins.", "provisioners."} {
		if strings.HasPrefix(name, p) {
			return true
		}
	}
	return strings.HasSuffix(name, ".Init")
}

func dotted(e ast.Expr) string {
	switch x := e.(type) {
	case *ast.Ident:
		return x.Name
	case *ast.SelectorExpr:
		l := dotted(x.X)
		if l == "" {
			return ""
		}
		return l + "." + x.Sel.Name
	}
	return ""
}

// CallOrder returns, for every function of WriteFuncs, the calls of the vocabulary above in source
// order (receiver `a.` dropped). It fails if a function is missing or declared twice.
func CallOrder(repo string) (map[string][]string, error) {
	out := map[string][]string{}
	files := map[string]*ast.File{}
	fset := token.NewFileSet()
	for _, wf := range WriteFuncs {
		f := files[wf.File]
		if f == nil {
			var err error
			f, err = parser.ParseFile(fset, filepath.Join(repo, wf.File), nil, 0)
			if err != nil {
				return nil, err
			}
			files[wf.File] = f
		}
		found := 0
		for _, d := range f.Decls {
			fd, ok := d.(*ast.FuncDecl)
			if !ok || fd.Name.Name != wf.Name || fd.Recv == nil || fd.Body == nil {
				continue
			}
			found++
			type call struct {
				pos  token.Pos
				name string
			}
			var calls []call
			ast.Inspect(fd.Body, func(n ast.Node) bool {
				ce, ok := n.(*ast.CallExpr)
				if !ok {
					return true
				}
				name := strings.TrimPrefix(dotted(ce.Fun), "a.")
				if name != "" && keep(name) {
					calls = append(calls, call{ce.Lparen, name})
				}
				return true
			})
			sort.Slice(calls, func(i, j int) bool { return calls[i].pos < calls[j].pos })
			var names []string
			for _, c := range calls {
				names = append(names, c.name)
			}
			out[wf.Name] = names
		}
		if found != 1 {
			return nil, fmt.Errorf("%s: %d declarations of method %s", wf.File, found, wf.Name)
		}
	}
	return out, nil
}
