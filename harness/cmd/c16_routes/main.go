// Harness for C16, stage `routes`: the admin-API route table re-derived from the source of
// /repo (go/ast, package adminroutes) on every run and compared with the Lean table
// `Verif.Admin.adminRoutes`, which the theorems `admin_routes_authenticated` and
// `route_handler_only_if_authorized` are about. One line per extracted route, plus the count.
package main

import (
	"encoding/hex"
	"flag"
	"fmt"
	"os"
	"strings"

	"verif/harness/cmd/c16_routes/adminroutes"
	c "verif/harness/common"
)

func hx(s string) string { return hex.EncodeToString([]byte(s)) }

func main() {
	_ = flag.Int("n", 0, "unused")
	out := flag.String("out", "", "output file")
	_ = flag.String("replay", "", "unused: the stage has no generated cases")
	flag.Parse()
	o, err := c.NewOut(*out)
	if err != nil {
		fmt.Fprintln(os.Stderr, err)
		os.Exit(2)
	}
	defer o.Close()
	repo := os.Getenv("VERIF_REPO")
	if repo == "" {
		repo = "/repo"
	}
	routes, err := adminroutes.Extract(repo)
	if err != nil {
		// fail closed: a shape that is not understood is a disagreement, not a pass
		o.Case("routes n=0 err=x"+hx(err.Error()), "extract-failed")
		return
	}
	seen := map[string]bool{}
	for _, r := range routes {
		key := r.Method + " " + r.Path
		dup := seen[key]
		seen[key] = true
		var ch []string
		for _, m := range r.Chain {
			ch = append(ch, hx(m))
		}
		impl := "present"
		if dup {
			impl = "duplicate"
		}
		o.Case(fmt.Sprintf("route m=%s p=%s c=%s", hx(r.Method), hx(r.Path), strings.Join(ch, ",")), impl)
	}
	o.Case("routes", fmt.Sprintf("n=%d", len(routes)))
	// the order of checks, database writes, cache writes and reloads in the authority's write methods
	order, err := adminroutes.CallOrder(repo)
	if err != nil {
		o.Case("orders n=0 err=x"+hx(err.Error()), "extract-failed")
		return
	}
	for _, wf := range adminroutes.WriteFuncs {
		var cs []string
		for _, n := range order[wf.Name] {
			cs = append(cs, hx(n))
		}
		o.Case(fmt.Sprintf("order f=%s c=%s", hx(wf.Name), strings.Join(cs, ",")), "present")
	}
	o.Case("orders", fmt.Sprintf("n=%d", len(order)))
}
