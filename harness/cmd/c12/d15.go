package main

import (
	"context"
	"crypto/ecdsa"
	"crypto/elliptic"
	"crypto/rand"
	"crypto/sha256"
	"crypto/x509"
	"crypto/x509/pkix"
	"encoding/asn1"
	"encoding/json"
	"encoding/pem"
	"fmt"
	"math/big"
	"time"

	"github.com/fxamacker/cbor/v2"

	env "verif/harness/cmd/c12/acmeenv"
	c "verif/harness/common"
)

// Candidate defect D15: GetChallenge takes the authorization id from the URL; the nosql store
// ignores it when loading the challenge, and the ownership test is on the challenge only. For
// device-attest-01 the validation then loads *that* authorization and stores the attested key
// fingerprint in it.
//
// The stage runs the real handlers with a synthetic attestation root configured on provisioner p0
// ("step" attestation format): account A answers ITS OWN device-attest-01 challenge through the
// URL /challenge/<authorization of account B>/<challenge of A>, with a genuine attestation.
// Oracle: the authorization of B must be untouched.

var attRootKey *ecdsa.PrivateKey
var attRoot *x509.Certificate

func init() {
	attRootKey, _ = ecdsa.GenerateKey(elliptic.P256(), rand.Reader)
	now := time.Now().Add(-time.Hour)
	t := &x509.Certificate{SerialNumber: big.NewInt(77), Subject: pkix.Name{CommonName: "verif attestation root"},
		NotBefore: now, NotAfter: now.Add(240 * time.Hour), IsCA: true, BasicConstraintsValid: true,
		KeyUsage: x509.KeyUsageCertSign}
	der, err := x509.CreateCertificate(rand.Reader, t, t, attRootKey.Public(), attRootKey)
	if err != nil {
		panic(err)
	}
	attRoot, _ = x509.ParseCertificate(der)
	provs[0].AttestationRoots = pem.EncodeToMemory(&pem.Block{Type: "CERTIFICATE", Bytes: der})
	provs[1].AttestationRoots = provs[0].AttestationRoots
}

var oidYubicoSerial = asn1.ObjectIdentifier{1, 3, 6, 1, 4, 1, 41482, 3, 7}

// attest builds a "step" attestation object for a device whose serial number is `serial`,
// proving possession for key authorization keyAuth.
func attest(serial int, keyAuth string) ([]byte, error) {
	dev, _ := ecdsa.GenerateKey(elliptic.P256(), rand.Reader)
	sv, _ := asn1.Marshal(serial)
	now := time.Now().Add(-time.Minute)
	t := &x509.Certificate{SerialNumber: big.NewInt(int64(serial)), Subject: pkix.Name{CommonName: "device"},
		NotBefore: now, NotAfter: now.Add(time.Hour),
		ExtraExtensions: []pkix.Extension{{Id: oidYubicoSerial, Value: sv}}}
	leaf, err := x509.CreateCertificate(rand.Reader, t, attRoot, dev.Public(), attRootKey)
	if err != nil {
		return nil, err
	}
	sum := sha256.Sum256([]byte(keyAuth))
	sig, err := ecdsa.SignASN1(rand.Reader, dev, sum[:])
	if err != nil {
		return nil, err
	}
	csig, _ := cbor.Marshal(sig)
	return cbor.Marshal(map[string]any{"fmt": "step", "attStmt": map[string]any{"x5c": []any{leaf}, "sig": csig}})
}

type devOrder struct{ order, authz, ch, token string }

func (w *world) deviceOrder(a *env.Acct, serial int) (*devOrder, error) {
	e := w.e
	pl, _ := json.Marshal(map[string]any{"identifiers": []map[string]string{{"type": "permanent-identifier", "value": fmt.Sprint(serial)}}})
	rec := e.Post(a, env.Path(a.Prov, "new-order"), pl)
	if rec.Code != 201 {
		return nil, fmt.Errorf("new-order %d %s", rec.Code, rec.Body.String())
	}
	var o struct {
		Authorizations []string `json:"authorizations"`
	}
	json.Unmarshal(rec.Body.Bytes(), &o)
	if len(o.Authorizations) != 1 {
		return nil, fmt.Errorf("authorizations: %v", o.Authorizations)
	}
	d := &devOrder{order: env.LastPathElem(rec.Header().Get("Location")), authz: env.LastPathElem(o.Authorizations[0])}
	rec = e.Post(a, env.Path(a.Prov, "authz", d.authz), nil)
	var az struct {
		Challenges []struct{ Type, URL, Token string } `json:"challenges"`
	}
	json.Unmarshal(rec.Body.Bytes(), &az)
	for _, ch := range az.Challenges {
		if ch.Type == "device-attest-01" {
			d.ch, d.token = env.LastPathElem(ch.URL), ch.Token
		}
	}
	if d.ch == "" {
		return nil, fmt.Errorf("no device-attest-01 challenge: %s", rec.Body.String())
	}
	return d, nil
}

func (w *world) d15(o *c.Out) {
	ctx := context.Background()
	e := w.e
	a, b := w.own[0].acct, w.own[1].acct // both on p0
	run := func(variant string) {
		line := "d15 v=2 variant=" + variant + " case=x7b7d"
		da, err := w.deviceOrder(a, 12345)
		if err != nil {
			o.Case(line, "setup-failed:"+err.Error()+"\tuntouched")
			return
		}
		db, err := w.deviceOrder(b, 67890)
		if err != nil {
			o.Case(line, "setup-failed:"+err.Error()+"\tuntouched")
			return
		}
		att, err := attest(12345, da.token+"."+a.Key.Thumb())
		if err != nil {
			o.Case(line, "setup-failed:"+err.Error()+"\tuntouched")
			return
		}
		pl, _ := json.Marshal(map[string]string{"attObj": b64(att)})
		azInURL := da.authz
		if variant == "cross" {
			azInURL = db.authz
		}
		var ds *devOrder
		if variant == "sibling" {
			// another authorization of account A itself (a second order, another device): before e055659 the
			// key attested for 12345 was written there and could become the key of that other order
			if ds, err = w.deviceOrder(a, 24680); err != nil {
				o.Case(line, "setup-failed:"+err.Error()+"\tuntouched")
				return
			}
			azInURL = ds.authz
		}
		rec := e.Post(a, env.Path("p0", "challenge", azInURL, da.ch), pl)
		zb, err1 := e.RealDB.GetAuthorization(ctx, db.authz)
		za, err2 := e.RealDB.GetAuthorization(ctx, da.authz)
		cha, err3 := e.RealDB.GetChallenge(ctx, da.ch, da.authz)
		if err1 != nil || err2 != nil || err3 != nil {
			o.Case(line, "observe-failed\tuntouched")
			return
		}
		impl := "untouched"
		if zb.Fingerprint != "" {
			impl = "authorization-of-other-account-modified"
		}
		if ds != nil {
			if zs, err := e.RealDB.GetAuthorization(ctx, ds.authz); err != nil {
				o.Case(line, "observe-failed\tuntouched")
				return
			} else if zs.Fingerprint != "" {
				impl = "authorization-of-another-order-modified"
			}
		}
		impl += fmt.Sprintf(" resp=%s own-authz-fingerprint=%s challenge=%s", env.Class(rec), c.B(za.Fingerprint != ""), cha.Status)
		exp := "untouched"
		if variant == "own" {
			exp = "untouched resp=200 own-authz-fingerprint=1 challenge=valid"
		} else {
			// what the property demands of the cross request: refused, nothing of B's changed
			exp = "untouched resp=401:unauthorized own-authz-fingerprint=0 challenge=pending"
		}
		o.Case(line, impl+"\t"+exp)
	}
	run("own")
	run("cross")
	run("sibling")
}
