// Package acmeserved runs the real server in front of the ACME handlers: ca.New on a ca.json in a
// temporary directory, CA.Run serving HTTPS on a loopback port, the ACME routes mounted by ca/ca.go
// itself (under /acme and /2.0/acme, context built by buildContext, chi middleware of the CA, the real
// linker, the real validation client). It hands out an acmeenv.Env whose Router forwards every request
// over TLS to that server, so the C12/C20 client code and fact gathering run unchanged.
//
// The harness keeps the database handle (ca.WithDatabase), so the store can be read next to the
// server; the outbound http-01 validation is answered by a loopback responder (acme.InsecurePortHTTP01),
// orders are therefore made for the IP identifier 127.0.0.1.
//
// Reload (what SIGHUP does), Restart (Stop, reopen the same bbolt file, ca.New) and Restart with
// enableAdmin (the first start with remote management: provisioners migrate to the admin database
// and get new ids) keep the same Env, so one world of accounts and orders lives through them.
package acmeserved

import (
	"bytes"
	"crypto/tls"
	"crypto/x509"
	"encoding/pem"
	"errors"
	"fmt"
	"io"
	"log"
	"net"
	"net/http"
	"net/http/httptest"
	"os"
	"path/filepath"
	"time"

	"github.com/smallstep/nosql"
	"go.step.sm/crypto/pemutil"

	"github.com/smallstep/certificates/acme"
	acmeNoSQL "github.com/smallstep/certificates/acme/db/nosql"
	"github.com/smallstep/certificates/authority/admin"
	adminNoSQL "github.com/smallstep/certificates/authority/admin/db/nosql"
	"github.com/smallstep/certificates/authority/config"
	"github.com/smallstep/certificates/authority/provisioner"
	"github.com/smallstep/certificates/ca"
	"github.com/smallstep/certificates/db"

	env "verif/harness/cmd/c12/acmeenv"
)

// TransportFailed is the status the forwarding router reports when the server could not be reached.
const TransportFailed = 598

type Served struct {
	Env     *env.Env
	ca      *ca.CA
	addr    string
	cfg     *config.Config
	cfgFile string
	client  *http.Client
	pool    *x509.CertPool
	resp    *http.Server
	admin   bool
	// PIDs are the ids of the provisioners as the running server knows them (by name).
	PIDs map[string]string
}

func freeAddr() (string, error) {
	l, err := net.Listen("tcp", "127.0.0.1:0")
	if err != nil {
		return "", err
	}
	defer l.Close()
	return l.Addr().String(), nil
}

// New starts the server. Any error is a failure of the set-up (inconclusive for the caller).
func New(provs []env.ProvSpec) (s *Served, err error) { return NewWith(provs, false) }

// NewWith: admin=true is a first start with enableAdmin (the configured provisioners migrate to the admin
// database at once; this is the only deployment in which external account binding keys can exist).
func NewWith(provs []env.ProvSpec, admin bool) (s *Served, err error) {
	log.SetOutput(io.Discard)
	dir, err := os.MkdirTemp(env.TmpBase(), "verif-acmesrv-")
	if err != nil {
		return nil, err
	}
	e := &env.Env{Dir: dir, Provs: map[string]*provisioner.ACME{}, Client: env.NewFakeClient(), ServedIP: "127.0.0.1"}
	s = &Served{Env: e, PIDs: map[string]string{}, admin: admin}
	defer func() {
		if err != nil {
			s.Close()
			s = nil
		}
	}()
	root, inter, signer, err := env.MkCA()
	if err != nil {
		return nil, err
	}
	e.Root = root
	write := func(name string, data []byte) string {
		p := filepath.Join(dir, name)
		if werr := os.WriteFile(p, data, 0o600); werr != nil && err == nil {
			err = werr
		}
		return p
	}
	keyPEM, err := pemutil.Serialize(signer)
	if err != nil {
		return nil, err
	}
	var plist provisioner.List
	for _, ps := range provs {
		if ps.Other != nil {
			plist = append(plist, ps.Other)
			continue
		}
		p := &provisioner.ACME{Type: "ACME", Name: ps.Name, RequireEAB: ps.RequireEAB,
			Challenges: []provisioner.ACMEChallenge{provisioner.HTTP_01, provisioner.DEVICE_ATTEST_01}, ForceCN: ps.ForceCN}
		if ps.AttestationRoots != nil {
			p.AttestationRoots = ps.AttestationRoots
			p.AttestationFormats = []provisioner.ACMEAttestationFormat{provisioner.STEP}
		}
		if ps.Tmpl != nil {
			p = ps.Tmpl
		}
		plist = append(plist, p)
	}
	s.cfg = &config.Config{
		Root:             []string{write("root.crt", pem.EncodeToMemory(&pem.Block{Type: "CERTIFICATE", Bytes: root.Raw}))},
		IntermediateCert: write("intermediate.crt", pem.EncodeToMemory(&pem.Block{Type: "CERTIFICATE", Bytes: inter.Raw})),
		IntermediateKey:  write("intermediate.key", pem.EncodeToMemory(keyPEM)),
		DNSNames:         []string{env.Host, "127.0.0.1"},
		AuthorityConfig:  &config.AuthConfig{Provisioners: plist},
		TLS:              &config.DefaultTLSOptions,
		DB:               &db.Config{Type: "bbolt", DataSource: filepath.Join(dir, "db")},
	}
	if err != nil {
		return nil, err
	}
	s.cfgFile = filepath.Join(dir, "ca.json")
	s.pool = x509.NewCertPool()
	s.pool.AddCert(root)
	s.client = &http.Client{Timeout: 60 * time.Second, Transport: &http.Transport{
		TLSClientConfig: &tls.Config{RootCAs: s.pool, ServerName: "127.0.0.1"}}}

	// the responder the server's real validation client reaches for http-01
	rl, err := net.Listen("tcp", "127.0.0.1:0")
	if err != nil {
		return nil, err
	}
	acme.InsecurePortHTTP01 = rl.Addr().(*net.TCPAddr).Port
	s.resp = &http.Server{Handler: http.HandlerFunc(func(w http.ResponseWriter, r *http.Request) {
		b, ok := e.Client.Lookup(r.URL.Path)
		if !ok {
			w.WriteHeader(404)
			return
		}
		io.WriteString(w, b)
	})}
	go s.resp.Serve(rl)

	e.Router = http.HandlerFunc(s.forward)
	e.Closer = s.Close
	if err = s.start(); err != nil {
		return nil, err
	}
	return s, nil
}

// start opens the store, writes the configuration, loads it back (the way the command does) and runs the server.
// The port is chosen by binding and releasing a loopback listener; when another process takes it in between,
// CA.Run fails to bind (and stops the CA, closing the store): that attempt is dropped and another port is tried.
func (s *Served) start() error {
	var last error
	for attempt := 0; attempt < 25; attempt++ {
		retry, err := s.startOnce()
		if err == nil {
			return nil
		}
		last = err
		if !retry {
			break
		}
	}
	return last
}

func (s *Served) startOnce() (retry bool, err error) {
	e := s.Env
	addr, err := freeAddr()
	if err != nil {
		return false, err
	}
	s.addr = addr
	s.cfg.Address = addr
	s.cfg.AuthorityConfig.EnableAdmin = s.admin
	if err := s.cfg.Save(s.cfgFile); err != nil {
		return false, err
	}
	loaded, err := config.LoadConfiguration(s.cfgFile)
	if err != nil {
		return false, err
	}
	adb, err := db.New(loaded.DB)
	if err != nil {
		return false, err
	}
	ndb, isNoSQL := adb.(nosql.DB)
	if !isNoSQL {
		adb.Shutdown()
		return false, errors.New("database is not a nosql.DB")
	}
	theCA, err := ca.New(loaded, ca.WithConfigFile(s.cfgFile), ca.WithQuiet(true), ca.WithDatabase(adb),
		ca.WithPassword([]byte("verif-first-provisioner")))
	if err != nil {
		adb.Shutdown()
		return false, err
	}
	runErr := make(chan error, 1)
	go func() { runErr <- theCA.Run() }()
	// wait until OUR server accepts connections (the handshake verifies a certificate under this CA's root);
	// no verdict depends on how long that takes
	deadline := time.Now().Add(3 * time.Minute)
	for {
		select {
		case rerr := <-runErr:
			// the listener could not be set up: CA.Run has stopped the CA and closed the store itself
			return true, fmt.Errorf("server did not start: %v", rerr)
		default:
		}
		conn, derr := tls.DialWithDialer(&net.Dialer{Timeout: time.Second}, "tcp", addr, &tls.Config{RootCAs: s.pool, ServerName: "127.0.0.1"})
		if derr == nil {
			conn.Close()
			break
		}
		if time.Now().After(deadline) {
			stopCA(theCA)
			return false, errors.New("server did not come up")
		}
		time.Sleep(20 * time.Millisecond)
	}
	s.ca = theCA
	e.NoSQL = ndb
	if e.RealDB, err = acmeNoSQL.New(ndb); err != nil {
		return false, err
	}
	e.DB = e.RealDB
	e.Revoked = func(serial string) bool { rv, _ := adb.IsRevoked(serial); return rv }
	return false, s.readPIDs(loaded)
}

// stopCA: CA.Stop closes a channel, a second Stop (after CA.Run stopped the CA itself) would panic
func stopCA(c *ca.CA) {
	defer func() { _ = recover() }()
	c.Stop()
}

// readPIDs: without remote management the id of a configured provisioner is what GetID derives
// from type and name; with it, the id is the one the admin database assigned at the migration.
func (s *Served) readPIDs(loaded *config.Config) error {
	s.PIDs = map[string]string{}
	s.Env.Provs = map[string]*provisioner.ACME{}
	if !s.admin {
		for _, p := range loaded.AuthorityConfig.Provisioners {
			s.PIDs[p.GetName()] = p.GetID()
			if ap, ok := p.(*provisioner.ACME); ok {
				s.Env.Provs[p.GetName()] = ap
			}
		}
		return nil
	}
	adm, err := adminNoSQL.New(s.Env.NoSQL, admin.DefaultAuthorityID)
	if err != nil {
		return err
	}
	ps, err := adm.GetProvisioners(nil)
	if err != nil {
		return err
	}
	for _, p := range ps {
		s.PIDs[p.Name] = p.Id
	}
	if len(s.PIDs) == 0 {
		return errors.New("no provisioner in the admin database after the migration")
	}
	return nil
}

// Reload is CA.Reload: the configuration is read again, a new authority and new handlers are built on the
// same database, the listener is kept.
func (s *Served) Reload() error {
	if err := s.ca.Reload(); err != nil {
		return err
	}
	s.client.CloseIdleConnections()
	return nil
}

// Restart stops the server (closing the store) and starts it again on the same files. With admin=true the
// configuration now says enableAdmin (first start with remote management when it was false before).
func (s *Served) Restart(admin bool) error {
	s.client.CloseIdleConnections()
	if s.ca != nil {
		stopCA(s.ca)
		s.ca = nil
	}
	s.admin = admin
	return s.start()
}

func (s *Served) forward(w http.ResponseWriter, r *http.Request) {
	body, _ := io.ReadAll(r.Body)
	req, err := http.NewRequest(r.Method, "https://"+s.addr+r.URL.RequestURI(), bytes.NewReader(body))
	if err != nil {
		w.WriteHeader(TransportFailed)
		return
	}
	req.Host = env.Host
	for k, v := range r.Header {
		req.Header[k] = v
	}
	resp, err := s.client.Do(req)
	if err != nil {
		w.WriteHeader(TransportFailed)
		return
	}
	defer resp.Body.Close()
	b, err := io.ReadAll(resp.Body)
	if err != nil {
		w.WriteHeader(TransportFailed)
		return
	}
	for k, v := range resp.Header {
		w.Header()[k] = v
	}
	w.WriteHeader(resp.StatusCode)
	w.Write(b)
}

// Failed reports whether a response is the forwarder's own "could not reach the server".
func Failed(rec *httptest.ResponseRecorder) bool { return rec.Code == TransportFailed }

func (s *Served) Close() {
	if s.client != nil {
		s.client.CloseIdleConnections()
	}
	if s.ca != nil {
		stopCA(s.ca)
		s.ca = nil
	}
	if s.resp != nil {
		s.resp.Close()
		s.resp = nil
	}
	if s.Env != nil && s.Env.Dir != "" {
		os.RemoveAll(s.Env.Dir)
	}
}
