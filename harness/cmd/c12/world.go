package main

import (
	"bytes"
	"context"
	"crypto/rand"
	"crypto/rsa"
	"crypto/x509"
	"encoding/base64"
	"encoding/hex"
	"encoding/json"
	"fmt"
	"path"
	"strings"
	"time"

	"github.com/smallstep/nosql"
	"go.step.sm/crypto/jose"

	"github.com/smallstep/certificates/authority/provisioner"

	"github.com/smallstep/certificates/acme"
	env "verif/harness/cmd/c12/acmeenv"
	srv "verif/harness/cmd/c12/acmeserved"
	c "verif/harness/common"
)

type owner struct {
	acct    *env.Acct
	valid   *env.Issued // finalized order with certificate
	pending *env.Issued // pending order, authorization, challenge
}

type world struct {
	e         *env.Env
	own       [3]*owner
	serial    int
	lastFresh string
	race      *raceStore
	// served: the environment is the real server (package acmeserved); pids are its provisioner ids by name
	served *srv.Served
	held   string // a nonce minted earlier (before a reload or restart), used by Nonce=held
}

// pid is the id of the i-th provisioner as the serving authority knows it.
func (w *world) pid(i int) string {
	if w.served != nil {
		return w.served.PIDs[provs[i].Name]
	}
	return provs[i].ID
}

// otherProv is a provisioner of another type (JWK) configured next to the ACME ones: Prov=3 names it in the URL
const otherProvName = "pj"

func allProvs() []env.ProvSpec {
	jwk, err := jose.GenerateJWK("EC", "P-256", "ES256", "sig", "", 0)
	if err != nil {
		return provs
	}
	pub := jwk.Public()
	return append(append([]env.ProvSpec{}, provs...), env.ProvSpec{Name: otherProvName,
		Other: &provisioner.JWK{Type: "JWK", Name: otherProvName, Key: &pub}})
}

func newWorld() (*world, error) {
	w := &world{}
	e, err := env.NewWith(allProvs(), env.Options{WrapNoSQL: func(d nosql.DB) nosql.DB { w.race = &raceStore{DB: d}; return w.race }})
	if err != nil {
		return nil, err
	}
	w.e = e
	if err := w.populate(); err != nil {
		return nil, err
	}
	return w, nil
}

// newServedWorld is the same world behind the real server (ca.New + Run on loopback).
func newServedWorld() (*world, error) {
	s, err := srv.New(allProvs())
	if err != nil {
		return nil, err
	}
	w := &world{e: s.Env, served: s}
	if err := w.populate(); err != nil {
		return nil, err
	}
	return w, nil
}

func (w *world) populate() error {
	e := w.e
	kinds := []string{"es256", "rsa2048", "es384"}
	pr := []string{"p0", "p0", "p1"}
	for i := range w.own {
		a, err := e.NewAccount(pr[i], env.NewKey(kinds[i], 0))
		if err != nil {
			e.Close()
			return err
		}
		o := &owner{acct: a}
		if o.valid, err = e.Issue(a, fmt.Sprintf("v%d.example.test", i)); err != nil {
			e.Close()
			return err
		}
		if o.pending, err = e.NewOrder(a, fmt.Sprintf("p%d.example.test", i)); err != nil {
			e.Close()
			return err
		}
		w.own[i] = o
	}
	return nil
}

// reissue gives owner i a fresh certificate (after its old one was revoked).
func (w *world) reissue(i int) {
	w.serial++
	if is, err := w.e.Issue(w.own[i].acct, fmt.Sprintf("v%d-%d.example.test", i, w.serial)); err == nil {
		w.own[i].valid = is
	}
}

type interner struct{ m map[string]int }

func (t *interner) id(s string) int {
	if s == "" {
		return 0
	}
	if v, ok := t.m[s]; ok {
		return v
	}
	v := len(t.m) + 1
	t.m[s] = v
	return v
}

// idp interns prefix+v, keeping the empty string 0 (the model tests ids against "")
func (t *interner) idp(prefix, v string) int {
	if v == "" {
		return 0
	}
	return t.id(prefix + v)
}

func b64(b []byte) string { return base64.RawURLEncoding.EncodeToString(b) }

func statusLetter(s acme.Status) string {
	switch s {
	case acme.StatusValid:
		return "v"
	case acme.StatusDeactivated:
		return "d"
	}
	return "r"
}

const accountLinkPrefix = "https://" + env.Host + "/acme/"

// run executes one case against the real router and renders the model line.
func (w *world) run(k *Case) (line, impl string) {
	ctx := context.Background()
	e := w.e
	in := &interner{m: map[string]int{}}

	// ---- requester
	var req *env.Acct
	switch {
	case k.Req >= 0 && k.Req <= 2:
		req = w.own[k.Req].acct
	case k.Req == 3 || k.Req == 5 || k.Req == 6 || k.Req == 7:
		a, err := e.NewAccount("p0", env.NewKey("es256", 0))
		if err != nil {
			return "", ""
		}
		if k.Req == 6 || k.Req == 7 {
			// accounts as older versions stored them: the record is rewritten in the store
			// (6: no locationPrefix -> kid-prefix rule; 7: no provisionerID -> name comparison)
			if !w.rewriteAccount(a.ID, k.Req == 6, k.Req == 7) {
				return "", ""
			}
		}
		if k.Req == 3 {
			if rec := e.Post(a, env.Path("p0", "account", a.ID), []byte(`{"status":"deactivated"}`)); rec.Code != 200 {
				return "", ""
			}
		}
		req = a
	default:
		key := env.NewKey("es256", 0)
		req = &env.Acct{Key: key, Prov: "p0", ID: "unknownAccount00000000000000000x", Loc: accountLinkPrefix + "p0/account/unknownAccount00000000000000000x"}
	}
	// ---- addressed resource
	provName := "nope"
	provID := ""
	if k.Prov >= 0 && k.Prov < len(provs) {
		provName, provID = provs[k.Prov].Name, w.pid(k.Prov)
		if k.ProvSwap {
			// the operator removed this provisioner and created another one with the SAME NAME:
			// the object the authority serves under the name now has a different id (accounts,
			// kids and stored locations contain only the name). Restored after the request.
			po := e.Provs[provName]
			if po == nil {
				return "", ""
			}
			old := po.ID
			po.ID = old + "-recreated"
			provID = po.ID
			defer func() { po.ID = old }()
		}
	}
	pacme := true
	if k.Prov == 3 {
		provName, provID, pacme = otherProvName, "jwk/"+otherProvName, false
	}
	var ow *owner
	if k.Own >= 0 && k.Own <= 2 {
		ow = w.own[k.Own]
	}
	pick := func(o *owner) *env.Issued {
		if o == nil {
			return &env.Issued{OrderID: "noSuchOrder", AuthzID: "noSuchAuthz", ChID: "noSuchChallenge", CertID: "noSuchCert"}
		}
		if k.Which == "pending" && k.Route != "cert" && k.Route != "revoke" {
			return o.pending
		}
		return o.valid
	}
	res := pick(ow)
	ownID := "noSuchAccount"
	if ow != nil {
		ownID = ow.acct.ID
	}
	if k.Route == "account" || k.Route == "orders" {
		if k.Req == 3 || k.Req >= 5 || k.Own == k.Req {
			ownID = req.ID // own account
		}
	}
	var p string
	var devicePayload []byte
	tgt, tgt2 := "", ""
	switch k.Route {
	case "newAccount":
		p = env.Path(provName, "new-account")
	case "account":
		p, tgt = env.Path(provName, "account", ownID), ownID
	case "keyChange":
		p = env.Path(provName, "key-change")
	case "newOrder":
		p = env.Path(provName, "new-order")
	case "order":
		p, tgt = env.Path(provName, "order", res.OrderID), res.OrderID
	case "orders":
		p, tgt = env.Path(provName, "account", ownID, "orders"), ownID
	case "finalize":
		p, tgt = env.Path(provName, "order", res.OrderID, "finalize"), res.OrderID
	case "authz":
		p, tgt = env.Path(provName, "authz", res.AuthzID), res.AuthzID
	case "challenge":
		if k.Which == "device" && ow != nil {
			// fresh device-attest-01 orders: the challenge of the owner, the authorization of AzOwn
			w.serial += 2
			serial := 100000 + w.serial
			d, err := w.deviceOrder(ow.acct, serial)
			if err != nil {
				return "", ""
			}
			res = &env.Issued{OrderID: d.order, AuthzID: d.authz, ChID: d.ch, Token: d.token}
			az := d.authz
			if k.AzOwn >= 0 && k.AzOwn <= 2 {
				d2, err := w.deviceOrder(w.own[k.AzOwn].acct, serial+1)
				if err != nil {
					return "", ""
				}
				az = d2.authz
			}
			// a genuine attestation for this challenge by the requester's key
			if att, err := attest(serial, d.token+"."+req.Key.Thumb()); err == nil {
				devicePayload, _ = json.Marshal(map[string]string{"attObj": b64(att)})
			}
			p, tgt, tgt2 = env.Path(provName, "challenge", az, res.ChID), az, res.ChID
			break
		}
		az := res.AuthzID
		if k.AzOwn >= 0 && k.AzOwn <= 2 {
			if k.Which == "pending" {
				az = w.own[k.AzOwn].pending.AuthzID
			} else {
				az = w.own[k.AzOwn].valid.AuthzID
			}
		}
		p, tgt, tgt2 = env.Path(provName, "challenge", az, res.ChID), az, res.ChID
	case "cert":
		p, tgt = env.Path(provName, "certificate", res.CertID), res.CertID
	case "revoke":
		p = env.Path(provName, "revoke-cert")
	default:
		return "", ""
	}
	pattern := map[string]string{
		"newAccount": "/{provisionerID}/new-account", "account": "/{provisionerID}/account/{accID}",
		"keyChange": "/{provisionerID}/key-change", "newOrder": "/{provisionerID}/new-order",
		"order": "/{provisionerID}/order/{ordID}", "orders": "/{provisionerID}/account/{accID}/orders",
		"finalize": "/{provisionerID}/order/{ordID}/finalize", "authz": "/{provisionerID}/authz/{authzID}",
		"challenge": "/{provisionerID}/challenge/{authzID}/{chID}", "cert": "/{provisionerID}/certificate/{certID}",
		"revoke": "/{provisionerID}/revoke-cert"}[k.Route]

	if k.Blank != "" {
		bid := ""
		switch {
		case strings.HasPrefix(k.Blank, "order-") && (k.Route == "order" || k.Route == "finalize"):
			bid = res.OrderID
		case k.Blank == "cert-acct" && (k.Route == "cert" || k.Route == "revoke"):
			bid = res.CertID
		}
		if bid == "" || ow == nil {
			return "", ""
		}
		restore := w.blankRecord(k.Blank, bid)
		if restore == nil {
			return "", ""
		}
		defer restore()
	}
	if k.Mount2 {
		// ca/ca.go mounts the same routes a second time under /2.0/acme; links are built with /acme either way
		p = "/2.0" + p
	}

	// ---- payload
	var payload []byte
	plok, deact, only := true, false, false
	switch k.Payload {
	case "empty":
		payload = nil
		switch k.Route {
		case "newAccount", "newOrder", "finalize":
			plok = false
		}
	case "emptyjson":
		payload = []byte("{}")
		switch k.Route {
		case "newOrder", "finalize":
			plok = false // no identifiers / unparsable csr
		}
	case "garbage":
		payload = []byte(`{"certificate":"!!!","csr":"!!!","identifiers":"x","contact":[""],"status":"valid"}`)
		plok = false
		if k.Route == "revoke" && ow == nil {
			plok = false
		}
	case "deactivate":
		payload = []byte(`{"status":"deactivated"}`)
		deact = k.Route == "account"
		switch k.Route {
		case "newOrder", "finalize":
			plok = false
		}
	case "onlyexisting":
		payload = []byte(`{"onlyReturnExisting":true}`)
		only = true
		switch k.Route {
		case "newOrder", "finalize":
			plok = false
		}
	default:
		switch k.Route {
		case "newAccount":
			payload = []byte(`{"termsOfServiceAgreed":true}`)
		case "account":
			payload = []byte(`{"contact":["mailto:x@example.test"]}`)
		case "newOrder":
			w.serial++
			payload = []byte(fmt.Sprintf(`{"identifiers":[{"type":"dns","value":"n%d.example.test"}]}`, w.serial))
		case "finalize":
			payload = env.CSRPayload("v0.example.test")
		case "challenge", "keyChange":
			payload = []byte("{}")
		default:
			payload = nil
		}
	}
	// device-attest-01: the validation loads the authorization of the URL and tests its owner before it
	// looks at the payload; then: valid attestation (0), payload that is not JSON (1: 500), JSON that is
	// refused (2: error stored in the challenge, answered 200, nothing written)
	attestF, attp := false, 0
	if devicePayload != nil {
		attestF = true
		switch k.Payload {
		case "valid":
			payload = devicePayload
		case "empty":
			attp = 1
		default:
			attp = 2
		}
	}
	// revoke always needs a certificate payload to get anywhere: valid/garbage only
	var revCert *env.Issued
	var subCert *x509.Certificate // the certificate actually submitted (the stored one, or a forgery)
	var forgeKey *env.Key
	if k.Route == "revoke" {
		revCert = res
		switch k.Payload {
		case "garbage":
			payload = []byte(`{"certificate":"!!!"}`)
			plok = false
		default:
			if revCert.Cert != nil {
				subCert = revCert.Cert
				if k.Payload == "forged" {
					// a self-signed certificate carrying the victim's SERIAL and the forger's own key
					forgeKey = env.NewKey("es256", 0)
					t := &x509.Certificate{SerialNumber: revCert.Cert.SerialNumber, Subject: revCert.Cert.Subject,
						DNSNames: revCert.Cert.DNSNames, NotBefore: revCert.Cert.NotBefore, NotAfter: revCert.Cert.NotAfter}
					if der, err := x509.CreateCertificate(rand.Reader, t, t, forgeKey.Public(), forgeKey.Priv); err == nil {
						subCert, _ = x509.ParseCertificate(der)
					}
				}
				payload = []byte(fmt.Sprintf(`{"certificate":%q}`, b64(subCert.Raw)))
				plok = true
			} else {
				// a certificate this CA never issued: the requester's own self-made one is not needed;
				// an unparsable one is the `garbage` case. Use another owner's DER with a flipped byte.
				payload = []byte(`{"certificate":"AAAA"}`)
				plok = false
			}
		}
	}

	// ---- JWS
	j := k.J
	signKey := req.Key
	switch j.SignWith {
	case "other":
		signKey = env.NewKey("es256", 0)
	case "cert":
		if res.CertKey != nil {
			signKey = res.CertKey
		}
	case "forge":
		if forgeKey != nil {
			signKey = forgeKey
		}
	}
	if j.JwkOf == "rsa1024" {
		signKey = env.NewKey("rsa1024", 0) // a weak RSA key signs for itself
	}
	prot := map[string]any{}
	alg := j.Alg
	if alg == "" {
		alg = signKey.DefaultAlg()
	}
	prot["alg"] = alg
	var nonce string
	switch j.Nonce {
	case "fresh":
		nonce = e.Nonce(provs[0].Name)
	case "otherprov":
		nonce = e.Nonce(provs[1].Name)
	case "held":
		// a nonce minted earlier, possibly by the server as it was before a reload or a restart
		if w.held == "" {
			w.held = e.Nonce(provs[0].Name)
		}
		nonce, w.held = w.held, ""
	case "reused":
		nonce = e.Nonce(provs[0].Name)
		a0 := w.own[0].acct
		pp := env.Path(a0.Prov, "account", a0.ID)
		s := &env.Shape{Ser: "flat", Protected: map[string]any{"alg": a0.Key.DefaultAlg(), "nonce": nonce, "url": env.URL(pp), "kid": a0.Loc},
			NSigs: 1, SignKey: a0.Key}
		b, _ := s.Build()
		e.Do("POST", pp, b)
	case "foreign":
		buf := make([]byte, 24)
		rand.Read(buf)
		nonce = b64(buf)
	case "near-pad", "near-pad2", "near-case", "near-trunc", "near-space", "near-lead":
		// a nonce that IS in the table, respelled: the table is keyed by the exact string, so
		// none of these may be accepted (and the live nonce must stay untouched)
		live := e.Nonce(provs[0].Name)
		switch j.Nonce {
		case "near-pad":
			nonce = live + "="
		case "near-pad2":
			nonce = live + "=="
		case "near-case":
			nonce = flipCase("https://x/"+live, "case-id")[len("https://x/"):]
		case "near-trunc":
			nonce = live[:len(live)-1]
		case "near-space":
			nonce = live + " "
		default:
			nonce = "=" + live
		}
	}
	if j.Nonce != "absent" {
		prot["nonce"] = nonce
	}
	reqURL := env.URL(p)
	switch j.URL {
	case "same":
		prot["url"] = reqURL
	case "other":
		prot["url"] = env.URL(env.Path(provName, "new-order")) + "x"
	case "nonstring":
		prot["url"] = 7
	case "port-default", "port-other", "query", "fragment", "userinfo", "slash", "dot", "escaped":
		// the request URL respelled the way URL libraries call "equivalent": the comparison in validateJWS is exact,
		// so a url naming another port (another server on the host), or carrying anything extra, is not the request URL
		prot["url"] = respellURL(reqURL, j.URL)
	case "mount":
		// the same route under the other mount point of the ACME routes
		if k.Mount2 {
			prot["url"] = env.URL(p[len("/2.0"):])
		} else {
			prot["url"] = env.URL("/2.0" + p)
		}
	case "case-id", "case-path", "case-scheme", "case-host":
		// the request URL with the letter case of one part flipped: ids and provisioner names are
		// case-sensitive, and the comparison in validateJWS is exact
		prot["url"] = flipCase(reqURL, j.URL)
	}
	embed := func() {
		var jk *jose.JSONWebKey
		switch j.JwkOf {
		case "cert":
			if res.CertKey != nil {
				jk = res.CertKey.JWK()
			} else {
				jk = signKey.JWK()
			}
		case "fresh":
			jk = env.NewKey("es256", 0).JWK()
		default:
			jk = signKey.JWK()
		}
		m := env.JWKMap(jk)
		if j.JwkOf == "invalid" {
			m["x"] = "AAAA" // not on the curve / wrong size
		}
		if j.JwkAlg != "" {
			m["alg"] = j.JwkAlg
		}
		// a "kid" member inside the jwk is the client's to choose; the server must key everything by the thumbprint
		switch j.JwkKid {
		case "self":
			if id, err := acme.KeyToID(jk); err == nil {
				m["kid"] = id
			}
		case "victim":
			v := w.own[0]
			if ow != nil && ow.acct != req {
				v = ow
			} else if req == w.own[0].acct {
				v = w.own[1]
			}
			m["kid"] = v.acct.Key.Thumb()
		case "deact":
			if a, err := e.NewAccount("p0", env.NewKey("es256", 0)); err == nil {
				if rec := e.Post(a, env.Path("p0", "account", a.ID), []byte(`{"status":"deactivated"}`)); rec.Code == 200 {
					m["kid"] = a.Key.Thumb()
				}
			}
		case "arb":
			m["kid"] = "chosen-by-the-client"
		}
		prot["jwk"] = m
	}
	kidStr := func() string {
		switch j.Kid {
		case "otherprov":
			return strings.Replace(req.Loc, "/acme/"+req.Prov+"/", "/acme/"+provs[(provIndex(req.Prov)+1)%2].Name+"/", 1)
		case "garbage":
			return "garbage"
		case "ownerloc":
			if ow != nil {
				return ow.acct.Loc
			}
			return req.Loc
		case "noprefix":
			return "https://elsewhere.test/x/" + req.ID
		}
		return req.Loc
	}
	switch j.KeyMode {
	case "jwk":
		embed()
	case "both":
		embed()
		prot["kid"] = kidStr()
	case "neither":
	default:
		prot["kid"] = kidStr()
	}
	sh := &env.Shape{Ser: j.Ser, Protected: prot, Payload: payload, Detached: j.Detached, NSigs: j.NSigs,
		SignAlg: j.SignAlg, SignKey: signKey, Alter: j.Alter, Trunc: j.Trunc, BadSig: j.BadSig}
	switch j.Unprot {
	case "kid":
		sh.Unprot = map[string]any{"kid": "x"}
	case "alg":
		sh.Unprot = map[string]any{"alg": "ES256"}
	case "nonce":
		sh.Unprot = map[string]any{"nonce": "abc"}
	case "extra":
		sh.Unprot = map[string]any{"foo": "bar"}
	case "jwk":
		sh.Unprot = map[string]any{"jwk": env.JWKMap(signKey.JWK())}
	}
	body, _ := sh.Build()
	if j.Raw != "" {
		body = []byte(j.Raw)
	}
	ct := j.CT
	if ct == "" {
		ct = "application/jose+json"
	}

	// ---- facts (what the parser and the verifier of the same library say; what the store holds)
	f := map[string]string{}
	parsed, perr := jose.ParseJWS(string(body))
	isParsed := perr == nil && parsed != nil
	ns, ue, ac, algN, es, short := 0, true, "other", 0, false, 0
	jwkF, kidN, kbN, kpre, nonceN, jurl, verF, pe := "-", 0, 0, false, 0, "!", "-", false
	accs := map[string]*acme.Account{}
	var accOrder []string
	addAcc := func(a *acme.Account) {
		if a == nil {
			return
		}
		if _, ok := accs[a.ID]; !ok {
			accs[a.ID] = a
			accOrder = append(accOrder, a.ID)
		}
	}
	ckey := 0
	kidBaseID := ""
	if isParsed {
		ns = len(parsed.Signatures)
		if ns > 0 {
			sg := parsed.Signatures[0]
			uh := sg.Unprotected
			ue = uh.KeyID == "" && uh.JSONWebKey == nil && uh.Algorithm == "" && uh.Nonce == "" && len(uh.ExtraHeaders) == 0
			h := sg.Protected
			switch h.Algorithm {
			case "RS256", "RS384", "RS512", "PS256", "PS384", "PS512":
				ac = "rsa"
			case "ES256", "ES384", "ES512", "EdDSA":
				ac = "eced"
			}
			algN = in.id("alg:" + h.Algorithm)
			expLen := map[string]int{"ES256": 64, "ES384": 96, "ES512": 132}[h.Algorithm]
			es = expLen != 0
			if es && len(sg.Signature) < expLen {
				short = expLen - len(sg.Signature)
			}
			var vers []string
			if h.JSONWebKey != nil {
				jk := h.JSONWebKey
				isRsa, bytes := false, 0
				if rk, ok := jk.Key.(*rsa.PublicKey); ok {
					isRsa, bytes = true, rk.Size()
				}
				th := ""
				if id, err := acme.KeyToID(jk); err == nil {
					th = id
				}
				ja := 0
				if jk.Algorithm != "" {
					ja = in.id("alg:" + jk.Algorithm)
				}
				jwkF = fmt.Sprintf("%s.%d.%s.%d.%d.%d", c.B(isRsa), bytes, c.B(jk.Valid()), in.id("key:"+th), ja, in.idp("key:", jk.KeyID))
				if ns == 1 {
					v := env.Verify(body, jk)
					vers = append(vers, fmt.Sprintf("%d:%s%s%s%s", in.id("key:"+th), c.B(v.Ver0), c.B(v.PadR), c.B(v.PadS), c.B(v.PadRS)))
				}
				if a, err := e.RealDB.GetAccountByKeyID(ctx, th); err == nil {
					addAcc(a)
				}
			}
			if h.KeyID != "" {
				kidN = in.id("loc:" + h.KeyID)
				kidBaseID = path.Base(h.KeyID)
				kbN = in.id("acc:" + kidBaseID)
				kpre = strings.HasPrefix(h.KeyID, accountLinkPrefix+provName+"/account/")
				if a, err := e.RealDB.GetAccount(ctx, kidBaseID); err == nil {
					addAcc(a)
					if ns == 1 && a.Key != nil {
						th, _ := acme.KeyToID(a.Key)
						v := env.Verify(body, a.Key)
						entry := fmt.Sprintf("%d:%s%s%s%s", in.id("key:"+th), c.B(v.Ver0), c.B(v.PadR), c.B(v.PadS), c.B(v.PadRS))
						dup := false
						for _, x := range vers {
							if strings.HasPrefix(x, fmt.Sprintf("%d:", in.id("key:"+th))) {
								dup = true
							}
						}
						if !dup {
							vers = append(vers, entry)
						}
					}
				}
			}
			nonceN = in.id("nonce:" + h.Nonce)
			if u, ok := h.ExtraHeaders["url"].(string); ok {
				jurl = fmt.Sprint(in.id("url:" + u))
			}
			pe = len(parsed.UnsafePayloadWithoutVerification()) == 0
			if subCert != nil && ns == 1 {
				ck := &jose.JSONWebKey{Key: subCert.PublicKey}
				if th, err := acme.KeyToID(ck); err == nil {
					ckey = in.id("key:" + th)
					have := false
					for _, x := range vers {
						if strings.HasPrefix(x, fmt.Sprintf("%d:", ckey)) {
							have = true
						}
					}
					if !have {
						v := env.Verify(body, subCert.PublicKey)
						vers = append(vers, fmt.Sprintf("%d:%s%s%s%s", ckey, c.B(v.Ver0), c.B(v.PadR), c.B(v.PadS), c.B(v.PadRS)))
					}
				}
			}
			if len(vers) > 0 {
				verF = strings.Join(vers, ",")
			}
		}
	}
	nonceStr := ""
	if isParsed && ns > 0 {
		nonceStr = parsed.Signatures[0].Protected.Nonce
	}
	nlBefore := nonceStr != "" && e.NonceLive(nonceStr)
	if nonceStr == "" {
		// the empty key: bbolt refuses it, the store reports "not found"
		nlBefore = false
	}
	var accL []string
	for _, id := range accOrder {
		a := accs[id]
		th, _ := acme.KeyToID(a.Key)
		ka := 0
		if a.Key.Algorithm != "" {
			ka = in.id("alg:" + a.Key.Algorithm)
		}
		loc := 0
		if l := a.GetLocation(); l != "" {
			loc = in.id("loc:" + l)
		}
		accL = append(accL, fmt.Sprintf("%d:%d:%d:%s:%d:%d:%d", in.id("acc:"+a.ID), in.id("key:"+th), ka, statusLetter(a.Status), loc,
			in.idp("prov:", a.ProvisionerID), in.idp("pname:", a.ProvisionerName)))
	}
	ordF, azF, chF, certF := "-", "-", "-", "-"
	tgtN, tgt2N := 0, 0
	if tgt != "" {
		tgtN = in.id("res:" + tgt)
	}
	if tgt2 != "" {
		tgt2N = in.id("res:" + tgt2)
	}
	switch k.Route {
	case "account", "orders":
		tgtN = in.id("acc:" + tgt)
	case "order", "finalize":
		if o, err := e.RealDB.GetOrder(ctx, tgt); err == nil {
			ordF = fmt.Sprintf("%d:%d:%d", tgtN, in.idp("acc:", o.AccountID), in.idp("prov:", o.ProvisionerID))
		}
	case "authz":
		if z, err := e.RealDB.GetAuthorization(ctx, tgt); err == nil {
			azF = fmt.Sprintf("%d:%d:0", tgtN, in.id("acc:"+z.AccountID))
		}
	case "challenge":
		if ch, err := e.RealDB.GetChallenge(ctx, tgt2, ""); err == nil {
			// third member: the authorization the challenge is a challenge of (as the server announced it when
			// the order was made), which need not be the authorization id in the URL
			chF = fmt.Sprintf("%d:%d:%d", tgt2N, in.id("acc:"+ch.AccountID), in.id("res:"+res.AuthzID))
		}
		if z, err := e.RealDB.GetAuthorization(ctx, tgt); err == nil {
			azF = fmt.Sprintf("%d:%d:0", tgtN, in.id("acc:"+z.AccountID))
		}
	case "cert":
		if x, err := e.RealDB.GetCertificate(ctx, tgt); err == nil {
			certF = fmt.Sprintf("%d:%d:0", tgtN, in.idp("acc:", x.AccountID))
		}
	}
	revSerial := ""
	csame := true
	if k.Route == "revoke" && subCert != nil && plok {
		revSerial = subCert.SerialNumber.String()
		if x, err := e.RealDB.GetCertificateBySerial(ctx, revSerial); err == nil {
			csame = x.Leaf != nil && bytes.Equal(x.Leaf.Raw, subCert.Raw)
			tgtN = in.id("res:" + x.ID)
			rv := e.IsRevoked(revSerial)
			certF = fmt.Sprintf("%d:%d:%s", tgtN, in.idp("acc:", x.AccountID), c.B(rv))
		}
	}

	// ---- the request
	pre := 0
	if k.Legacy && e.Legacy != nil {
		e.UseLegacy, e.Prereq = true, k.Pre
		pre = k.Pre
	}
	rec := e.DoCT("POST", p, ct, body)
	e.UseLegacy, e.Prereq = false, 0
	if srv.Failed(rec) {
		return "", "" // the server could not be reached: no observation
	}
	cls := env.Class(rec)
	verdict := cls
	if rec.Code < 300 || (k.Route == "finalize" && strings.HasSuffix(cls, ":orderNotReady")) {
		verdict = "ok"
	}
	fresh := rec.Header().Get("Replay-Nonce")
	w.lastFresh = fresh
	nlAfter := nonceStr != "" && e.NonceLive(nonceStr)
	accAfter := "-"
	if kidBaseID != "" {
		if a, err := e.RealDB.GetAccount(ctx, kidBaseID); err == nil {
			accAfter = statusLetter(a.Status)
		}
	}
	revAfter := "-"
	if k.Route == "revoke" && revSerial != "" && certF != "-" {
		rv := e.IsRevoked(revSerial)
		revAfter = c.B(rv)
		if rv && k.Own >= 0 && k.Own <= 2 && w.own[k.Own].valid == revCert {
			w.reissue(k.Own)
		}
	}
	fpAfter := "-"
	if k.Route == "challenge" && attestF {
		fpAfter = "0"
		if z, err := e.RealDB.GetAuthorization(ctx, tgt); err == nil && z.Fingerprint != "" {
			fpAfter = "1"
		}
	}
	// new-account: which account answered — one the model was told about (the account of the embedded key, the
	// account the kid names), a new one, or some other existing account (a?)
	who := "-"
	if k.Route == "newAccount" && verdict == "ok" {
		locID := env.LastPathElem(rec.Header().Get("Location"))
		switch {
		case accs[locID] != nil:
			who = fmt.Sprintf("a%d", in.id("acc:"+locID))
		case rec.Code == 201:
			who = "new"
		default:
			who = "a?"
		}
	}
	impl = fmt.Sprintf("%s n=%s%s acc=%s rev=%s who=%s fp=%s", verdict, c.B(nlBefore), c.B(nlAfter), accAfter, revAfter, who, fpAfter)

	f["m"], f["p"] = "POST", c.X(pattern)
	f["pid"], f["pname"], f["pknown"] = fmt.Sprint(in.idp("prov:", provID)), fmt.Sprint(in.idp("pname:", provName)), c.B(provID != "")
	f["url"] = fmt.Sprint(in.id("url:" + reqURL))
	f["ct"] = fmt.Sprint(map[string]int{"application/jose+json": 0, "application/pkix-cert": 1, "application/pkcs7-mime": 2}[ct])
	if _, known := map[string]int{"application/jose+json": 0, "application/pkix-cert": 1, "application/pkcs7-mime": 2}[ct]; !known {
		f["ct"] = "3"
	}
	cpath := strings.Contains(reqURL, "/"+provName+"/certificate/")
	f["parsed"] = c.B(isParsed)
	f["fresh"] = fmt.Sprint(in.id("nonce:" + fresh + "#fresh"))
	line = fmt.Sprintf("req v=2 m=POST p=%s pid=%s pname=%s pknown=%s url=%s ct=%s cpath=%s parsed=%s fresh=%s tgt=%d tgt2=%d plok=%s deact=%s only=%s ckey=%d csame=%s attest=%s attp=%d pre=%d pacme=%s "+
		"ns=%d ue=%s ac=%s alg=%d es=%s short=%d jwk=%s kid=%d kb=%d kpre=%s nonce=%d jurl=%s ver=%s pe=%s nl=%s accs=%s ord=%s az=%s ch=%s cert=%s",
		f["p"], f["pid"], f["pname"], f["pknown"], f["url"], f["ct"], c.B(cpath), f["parsed"], f["fresh"], tgtN, tgt2N, c.B(plok), c.B(deact), c.B(only), ckey, c.B(csame), c.B(attestF), attp, pre, c.B(pacme),
		ns, c.B(ue), ac, algN, c.B(es), short, jwkF, kidN, kbN, c.B(kpre), nonceN, jurl, verF, c.B(pe), c.B(nlBefore),
		c.List(accL), ordF, azF, chF, certF)
	js, _ := json.Marshal(k)
	line += " route=" + k.Route + " case=x" + hex.EncodeToString(js)
	return line, impl
}

func provIndex(name string) int {
	for i, p := range provs {
		if p.Name == name {
			return i
		}
	}
	return 0
}

// flipCase returns u with the case of the letters of one part inverted:
// case-scheme (https), case-host, case-path (everything after the host but the last element),
// case-id (the last path element: an account/order/authz/certificate id or a fixed word).
// respellURL: u is https://host/path
func respellURL(u, how string) string {
	const pre = "https://"
	rest := strings.TrimPrefix(u, pre)
	slash := strings.Index(rest, "/")
	if slash < 0 {
		return u + "#"
	}
	host, pth := rest[:slash], rest[slash:]
	switch how {
	case "port-default":
		return pre + host + ":443" + pth
	case "port-other":
		return pre + host + ":8443" + pth
	case "query":
		return u + "?"
	case "fragment":
		return u + "#x"
	case "userinfo":
		return pre + "u@" + host + pth
	case "slash":
		return u + "/"
	case "dot":
		return pre + host + "/." + pth
	default: // one path character percent-encoded
		return pre + host + "/%61" + strings.TrimPrefix(pth, "/a")
	}
}

func flipCase(u, part string) string {
	inv := func(s string) string {
		b := []byte(s)
		for i, ch := range b {
			switch {
			case 'a' <= ch && ch <= 'z':
				b[i] = ch - 32
			case 'A' <= ch && ch <= 'Z':
				b[i] = ch + 32
			}
		}
		return string(b)
	}
	const pre = "https://"
	rest := strings.TrimPrefix(u, pre)
	slash := strings.Index(rest, "/")
	if slash < 0 {
		return inv(u)
	}
	host, pth := rest[:slash], rest[slash:]
	last := strings.LastIndex(pth, "/")
	switch part {
	case "case-scheme":
		return "HTTPS://" + rest
	case "case-host":
		return pre + inv(host) + pth
	case "case-path":
		return pre + host + inv(pth[:last]) + pth[last:]
	default:
		return pre + host + pth[:last] + inv(pth[last:])
	}
}

// storedAccount has the layout (field order and tags) of acme/db/nosql.dbAccount, so that a record
// written by the harness is byte for byte what that package would have written.
type storedAccount struct {
	ID              string           `json:"id"`
	Key             *jose.JSONWebKey `json:"key"`
	Contact         []string         `json:"contact,omitempty"`
	Status          acme.Status      `json:"status"`
	LocationPrefix  string           `json:"locationPrefix"`
	ProvisionerID   string           `json:"provisionerID,omitempty"`
	ProvisionerName string           `json:"provisionerName"`
	CreatedAt       time.Time        `json:"createdAt"`
	DeactivatedAt   time.Time        `json:"deactivatedAt"`
}

// replicas of nosql.dbOrder and nosql.dbCert (byte layout checked before use)
type storedOrder struct {
	ID               string            `json:"id"`
	AccountID        string            `json:"accountID"`
	ProvisionerID    string            `json:"provisionerID"`
	Identifiers      []acme.Identifier `json:"identifiers"`
	AuthorizationIDs []string          `json:"authorizationIDs"`
	Status           acme.Status       `json:"status"`
	NotBefore        time.Time         `json:"notBefore,omitempty"`
	NotAfter         time.Time         `json:"notAfter,omitempty"`
	CreatedAt        time.Time         `json:"createdAt"`
	ExpiresAt        time.Time         `json:"expiresAt,omitempty"`
	CertificateID    string            `json:"certificate,omitempty"`
	Error            *acme.Error       `json:"error,omitempty"`
}

type storedCert struct {
	ID            string    `json:"id"`
	CreatedAt     time.Time `json:"createdAt"`
	AccountID     string    `json:"accountID"`
	OrderID       string    `json:"orderID"`
	Leaf          []byte    `json:"leaf"`
	Intermediates []byte    `json:"intermediates"`
}

// blankRecord empties one member of a stored order or certificate record (a record of an older release, or a
// damaged one) and returns the function that puts the original bytes back; nil = could not be done faithfully.
func (w *world) blankRecord(what, id string) func() {
	table := []byte("acme_orders")
	if what == "cert-acct" {
		table = []byte("acme_certs")
	}
	raw, err := w.e.NoSQL.Get(table, []byte(id))
	if err != nil {
		return nil
	}
	var nu []byte
	switch what {
	case "order-prov", "order-acct":
		var o storedOrder
		if json.Unmarshal(raw, &o) != nil {
			return nil
		}
		if same, _ := json.Marshal(&o); !bytes.Equal(same, raw) {
			return nil
		}
		if what == "order-prov" {
			o.ProvisionerID = ""
		} else {
			o.AccountID = ""
		}
		nu, _ = json.Marshal(&o)
	case "cert-acct":
		var x storedCert
		if json.Unmarshal(raw, &x) != nil {
			return nil
		}
		if same, _ := json.Marshal(&x); !bytes.Equal(same, raw) {
			return nil
		}
		x.AccountID = ""
		nu, _ = json.Marshal(&x)
	default:
		return nil
	}
	if w.e.NoSQL.Set(table, []byte(id), nu) != nil {
		return nil
	}
	return func() { w.e.NoSQL.Set(table, []byte(id), raw) }
}

// rewriteAccount turns a stored account into one as older versions wrote it.
func (w *world) rewriteAccount(id string, dropLocation, dropProvisionerID bool) bool {
	raw, err := w.e.NoSQL.Get([]byte("acme_accounts"), []byte(id))
	if err != nil {
		return false
	}
	var a storedAccount
	if json.Unmarshal(raw, &a) != nil {
		return false
	}
	// the layout must still be the package's: re-marshalling the untouched record gives the same bytes
	if same, _ := json.Marshal(&a); !bytes.Equal(same, raw) {
		return false
	}
	if dropLocation {
		a.LocationPrefix = ""
	}
	if dropProvisionerID {
		a.ProvisionerID = ""
	}
	nu, _ := json.Marshal(&a)
	return w.e.NoSQL.Set([]byte("acme_accounts"), []byte(id), nu) == nil
}
