package main

// Stage `acctrace` — "deactivated accounts can do nothing" under overlapping account updates, down to the
// compare-and-swap of the store.
//
// GetOrUpdateAccount works on the *acme.Account that lookupJWK loaded (db.GetAccount) and hands it to
// db.UpdateAccount, which re-reads the record (getDBAccount), refuses (401, commit 48b7457) when the record it
// read is deactivated and the incoming status is not, and then save() compare-and-swaps the new encoding against
// the encoding it read: "changed since last read" (500) when another request wrote in between. Without that swap
// a contact update that read the record while it was valid would write `valid` back over a deactivation stored
// after its read.
//
// Two requests of one account, A = {"status":"deactivated"}, B = {"contact":[…]}, each THREE store-visible steps
// on the accounts table — Get (lookupJWK), Get (UpdateAccount), CmpAndSwap (save) — interleaved by a parking
// nosql.DB wrapper below the real acme/db/nosql; all 20 interleavings, then random words with incomplete prefixes.
// Expected: the model (casRun2, driver drv_c12; table theorem cas_update_interleavings): stored status, answer to A,
// answer to B.

import (
	"bytes"
	"context"
	"fmt"

	"github.com/smallstep/nosql"
	"github.com/smallstep/nosql/database"

	env "verif/harness/cmd/c12/acmeenv"
	c "verif/harness/common"
)

type raceThread struct {
	turn, parked chan struct{}
	done         bool
	class        string
}

// raceStore parks the request that is running (the scheduler runs one request at a time, so it knows which) before
// every read and every compare-and-swap of the accounts table.
type raceStore struct {
	nosql.DB
	threads map[int]*raceThread
	current int
}

var accountsTable = []byte("acme_accounts")

func (g *raceStore) gate(bucket []byte) {
	if g.threads == nil || !bytes.Equal(bucket, accountsTable) {
		return
	}
	if t := g.threads[g.current]; t != nil {
		t.parked <- struct{}{}
		<-t.turn
	}
}

func (g *raceStore) Get(bucket, key []byte) ([]byte, error) {
	g.gate(bucket)
	return g.DB.Get(bucket, key)
}

func (g *raceStore) CmpAndSwap(bucket, key, old, nu []byte) ([]byte, bool, error) {
	g.gate(bucket)
	return g.DB.CmpAndSwap(bucket, key, old, nu)
}

var _ database.DB = (*raceStore)(nil)

func allWords(na, nb int) []string {
	if na == 0 && nb == 0 {
		return []string{""}
	}
	var out []string
	if na > 0 {
		for _, w := range allWords(na-1, nb) {
			out = append(out, "A"+w)
		}
	}
	if nb > 0 {
		for _, w := range allWords(na, nb-1) {
			out = append(out, "B"+w)
		}
	}
	return out
}

func (w *world) acctRaceOne(o *c.Out, sched string) {
	ctx := context.Background()
	e := w.e
	line := fmt.Sprintf("acctrace v=2 sched=%s case=x7b7d", sched)
	a, err := e.NewAccount("p0", env.NewKey("es256", 0))
	if err != nil {
		return
	}
	p := env.Path("p0", "account", a.ID)
	bodies := [][]byte{
		e.KidBody(a, "p0", p, []byte(`{"status":"deactivated"}`)),
		e.KidBody(a, "p0", p, []byte(fmt.Sprintf(`{"contact":["mailto:late-%s@example.test"]}`, a.ID))),
	}
	ths := map[int]*raceThread{}
	for i := range bodies {
		ths[i] = &raceThread{turn: make(chan struct{}), parked: make(chan struct{})}
	}
	w.race.threads = ths
	// one request runs at a time: started one after the other, each up to its first store step
	for i, b := range bodies {
		w.race.current = i
		go func(b []byte, t *raceThread) {
			rec := e.DoCtx(ctx, "POST", p, "application/jose+json", b)
			t.class = env.Class(rec)
			t.done = true
			t.parked <- struct{}{}
		}(b, ths[i])
		<-ths[i].parked
	}
	move := func(i int) {
		t := ths[i]
		if t.done {
			return
		}
		w.race.current = i
		t.turn <- struct{}{}
		<-t.parked
	}
	for _, ch := range sched {
		move(int(ch - 'A'))
	}
	// what the schedule left unfinished is observed as it is, then drained
	cls := func(i int) string {
		if ths[i].done {
			return ths[i].class
		}
		return "-"
	}
	w.race.threads = nil
	st := "?"
	if acc, err := e.RealDB.GetAccount(ctx, a.ID); err == nil {
		st = string(acc.Status)
	}
	w.race.threads = ths
	ca, cb := cls(0), cls(1)
	for i := range bodies {
		for !ths[i].done {
			move(i)
		}
	}
	w.race.threads = nil
	// … and after every request has run to its end (A's remaining steps, then B's): a request may take more store
	// steps than the three of the model; whatever it does with them, an acknowledged deactivation must stand
	fin := "?"
	if acc, err := e.RealDB.GetAccount(ctx, a.ID); err == nil {
		fin = string(acc.Status)
	}
	impl := st
	if ca == "200" && st == "valid" {
		impl = "reactivated"
	}
	if ths[0].class == "200" && fin == "valid" {
		fin = "reactivated"
	}
	o.Case(line, fmt.Sprintf("%s deact=%s contact=%s end=%s deact=%s contact=%s", impl, ca, cb, fin, ths[0].class, ths[1].class))
}

func (w *world) acctRace(o *c.Out, n int, r *c.Rng) {
	if w.race == nil {
		return
	}
	for _, s := range allWords(3, 3) {
		w.acctRaceOne(o, s)
	}
	for i := 0; i < n; i++ {
		// a random prefix of a random interleaving: the state in the middle of the race
		ws := allWords(3, 3)
		s := ws[r.Intn(len(ws))]
		w.acctRaceOne(o, s[:r.Intn(len(s)+1)])
	}
}
