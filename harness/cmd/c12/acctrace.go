package main

// Stage `acctrace` — "deactivated accounts can do nothing" under overlapping account updates.
//
// GetOrUpdateAccount works on the *acme.Account that lookupJWK loaded (db.GetAccount) and hands it
// to db.UpdateAccount, which re-reads the record and copies Contact AND Status from the handler's
// copy onto the fresh record. Before commit 48b7457 a contact update that had loaded the account
// before a deactivation was stored wrote Status=valid back (schedules ABAB, BAAB: both answered 200,
// account valid again); since then UpdateAccount refuses (401) when the stored record is deactivated
// and the incoming status is not.
//
// Two requests of one account, A = {"status":"deactivated"}, B = {"contact":[…]}, each two
// store-visible steps [GetAccount (lookupJWK), UpdateAccount], interleaved by a parking acme.DB
// wrapper; all 6 interleavings. Expected: exactly the table of the Lean theorem
// account_update_interleavings (stored status, answer to A, answer to B).

import (
	"context"
	"fmt"

	"github.com/smallstep/certificates/acme"
	env "verif/harness/cmd/c12/acmeenv"
	c "verif/harness/common"
)

type raceKey struct{}

type raceThread struct {
	turn, parked chan struct{}
	done         bool
	class        string
}

type raceDB struct {
	acme.DB
	threads map[int]*raceThread
}

func (g *raceDB) gate(ctx context.Context) {
	id, ok := ctx.Value(raceKey{}).(int)
	if !ok || g.threads == nil {
		return
	}
	if t := g.threads[id]; t != nil {
		t.parked <- struct{}{}
		<-t.turn
	}
}

func (g *raceDB) GetAccount(ctx context.Context, id string) (*acme.Account, error) {
	g.gate(ctx)
	return g.DB.GetAccount(ctx, id)
}

func (g *raceDB) UpdateAccount(ctx context.Context, acc *acme.Account) error {
	g.gate(ctx)
	return g.DB.UpdateAccount(ctx, acc)
}

func (w *world) acctRace(o *c.Out) {
	ctx := context.Background()
	e := w.e
	for _, sched := range []string{"AABB", "ABAB", "ABBA", "BAAB", "BABA", "BBAA"} {
		line := fmt.Sprintf("acctrace v=2 sched=%s case=x7b7d", sched)
		a, err := e.NewAccount("p0", env.NewKey("es256", 0))
		if err != nil {
			o.Case(line, "setup-failed\tdeactivated")
			continue
		}
		p := env.Path("p0", "account", a.ID)
		bodies := [][]byte{
			e.KidBody(a, "p0", p, []byte(`{"status":"deactivated"}`)),
			e.KidBody(a, "p0", p, []byte(`{"contact":["mailto:late@example.test"]}`)),
		}
		ths := map[int]*raceThread{}
		for i := range bodies {
			ths[i] = &raceThread{turn: make(chan struct{}), parked: make(chan struct{})}
		}
		w.race.threads = ths
		for i, b := range bodies {
			go func(i int, b []byte, t *raceThread) {
				rec := e.DoCtx(context.WithValue(ctx, raceKey{}, i), "POST", p, "application/jose+json", b)
				t.class = env.Class(rec)
				t.done = true
				t.parked <- struct{}{}
			}(i, b, ths[i])
		}
		for i := range bodies {
			<-ths[i].parked
		}
		for _, ch := range sched {
			t := ths[int(ch-'A')]
			if t.done {
				continue
			}
			t.turn <- struct{}{}
			<-t.parked
		}
		for i := range bodies {
			for !ths[i].done {
				ths[i].turn <- struct{}{}
				<-ths[i].parked
			}
		}
		w.race.threads = nil
		st := "?"
		if acc, err := e.RealDB.GetAccount(ctx, a.ID); err == nil {
			st = string(acc.Status)
		}
		impl := "deactivated"
		if ths[0].class == "200" && st == "valid" {
			impl = "reactivated"
		} else if st != "deactivated" {
			impl = "final=" + st
		}
		impl += fmt.Sprintf(" deact=%s contact=%s", ths[0].class, ths[1].class)
		// account_update_interleavings: the deactivation answered 200 sticks; the contact update
		// is served if its UpdateAccount comes before the deactivation's, refused (401) otherwise
		exp := map[string]string{
			"AABB": "deactivated deact=200 contact=401:unauthorized",
			"ABAB": "deactivated deact=200 contact=401:unauthorized",
			"ABBA": "deactivated deact=200 contact=200",
			"BAAB": "deactivated deact=200 contact=401:unauthorized",
			"BABA": "deactivated deact=200 contact=200",
			"BBAA": "deactivated deact=200 contact=200",
		}[sched]
		o.Case(line, impl+"\t"+exp)
	}
}
