package main

// Stage `legacy` — "an account can never act through a provisioner other than the one it was
// created under", for accounts as older versions stored them (no locationPrefix).
//
// lookupJWK has two branches: accounts with a stored location are checked against the provisioner
// of the URL; for accounts without one only the kid prefix (built from the provisioner IN THE URL)
// is tested and the provisioner recorded in the account is never looked at. The stage creates an
// account under p0 through the real API, rewrites its record without locationPrefix (byte layout of
// acme/db/nosql.dbAccount), and places a new-order request under p1 with the kid p1's prefix wants.

import (
	"fmt"
	"strings"

	env "verif/harness/cmd/c12/acmeenv"
	c "verif/harness/common"
)

func (w *world) legacy(o *c.Out) {
	e := w.e
	for _, variant := range []string{"own-provisioner", "other-provisioner"} {
		line := fmt.Sprintf("legacy v=2 variant=%s case=x7b7d", variant)
		a, err := e.NewAccount("p0", env.NewKey("es256", 0))
		if err != nil || !w.rewriteAccount(a.ID, true, false) {
			o.Case(line, "setup-failed\trefused")
			continue
		}
		prov := "p0"
		kid := a.Loc
		if variant == "other-provisioner" {
			prov = "p1"
			kid = strings.Replace(a.Loc, "/acme/p0/", "/acme/p1/", 1)
		}
		w.serial++
		p := env.Path(prov, "new-order")
		pl := []byte(fmt.Sprintf(`{"identifiers":[{"type":"dns","value":"legacy%d.example.test"}]}`, w.serial))
		s := &env.Shape{Ser: "flat", Protected: map[string]any{"alg": a.Key.DefaultAlg(), "nonce": e.Nonce(prov),
			"url": env.URL(p), "kid": kid}, Payload: pl, NSigs: 1, SignKey: a.Key}
		body, _ := s.Build()
		rec := e.Do("POST", p, body)
		impl := "refused resp=" + env.Class(rec)
		if rec.Code == 201 {
			impl = "served-under-" + prov + " resp=201"
		}
		exp := "served-under-p0 resp=201"
		if variant == "other-provisioner" {
			exp = "refused resp=401:unauthorized"
		}
		o.Case(line, impl+"\t"+exp)
	}
}
