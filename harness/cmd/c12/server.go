package main

import (
	"fmt"
	"os"

	c "verif/harness/common"
)

// Stage `server`: the same cases as `matrix` and `shapes`, but every request travels over TLS to the
// real server (ca.New on a ca.json, CA.Run on loopback; package acmeserved). What is in front of the
// handlers here is the code of ca/ca.go: both mount points (/acme and /2.0/acme), buildContext, the
// CA's own chi middleware, the real linker and the real validation client. The model line is the
// ordinary `req` line: facts are read from the store next to the server, the answer must be the model's.
//
// The world then lives through, in this order,
//
//	reload   CA.Reload (SIGHUP): new authority, new handlers, same database handle, same listener
//	restart  Stop, the bbolt file reopened, ca.New again
//	migrate  restart with enableAdmin: the provisioners move to the admin database and get NEW ids
//
// and a part of the matrix is asked again after each: accounts, orders, certificates and a nonce
// minted before the event are in the store, so the model must still predict every answer (after the
// migration: accounts that recorded the old provisioner id are refused, new accounts are served).
var srvPhases = []string{"up", "reload", "restart", "migrate"}

func phaseIndex(p string) int {
	for i, q := range srvPhases {
		if q == p {
			return i
		}
	}
	return -1
}

type servedState struct {
	w      *world
	phase  int
	failed bool
}

var served servedState

// servedWorld brings the served world to the given phase (building a new one when it is already past it).
// nil: the set-up did not go through (loopback listener, temp files, server start) — inconclusive.
func servedWorld(phase string) *world {
	want := phaseIndex(phase)
	if want < 0 || served.failed {
		return nil
	}
	fail := func(what string, err error) *world {
		fmt.Fprintln(os.Stderr, "server stage: set-up failed ("+what+"):", err)
		served.failed = true
		if served.w != nil {
			served.w.e.Close()
			served.w = nil
		}
		return nil
	}
	if served.w != nil && served.phase > want {
		served.w.e.Close()
		served.w = nil
	}
	if served.w == nil {
		w, err := newServedWorld()
		if err != nil {
			return fail("start", err)
		}
		served.w, served.phase = w, 0
	}
	for served.phase < want {
		w := served.w
		w.held = w.e.Nonce(provs[0].Name) // minted by the server as it is now, spent after the event
		var err error
		switch srvPhases[served.phase+1] {
		case "reload":
			err = w.served.Reload()
			// the provisioner objects of the new authority are its own: ProvSwap cannot reach them
			w.e.Provs = nil
		case "restart":
			err = w.served.Restart(false)
		case "migrate":
			err = w.served.Restart(true)
			w.e.Provs = nil
		}
		if err != nil {
			return fail(srvPhases[served.phase+1], err)
		}
		served.phase++
	}
	return served.w
}

func closeServed() {
	if served.w != nil {
		served.w.e.Close()
		served.w = nil
	}
}

func serverCases(n int, r *c.Rng) []*Case {
	var out []*Case
	tag := func(k *Case, phase string) *Case { k.Srv = phase; out = append(out, k); return k }
	all := append(matrixCases(), shapeCorners()...)
	for _, k := range all {
		tag(k, "up")
	}
	// the second mount point: every route, owner and stranger, and the url/nonce/kid shapes that
	// depend on the request path
	for _, route := range allRoutes {
		for _, req := range []int{0, 1, 2, 4} {
			k := base(route, 0, req, 0, "valid")
			k.Mount2 = true
			tag(k, "up")
		}
		for _, u := range []string{"other", "absent", "case-path"} {
			k := base(route, 0, 0, 0, "valid")
			k.Mount2, k.J.URL = true, u
			tag(k, "up")
		}
		// url naming the OTHER mount point of the same route: not the request URL
		k := base(route, 0, 0, 0, "valid")
		k.Mount2, k.J.URL = true, "mount"
		tag(k, "up")
		k = base(route, 0, 0, 0, "valid")
		k.J.URL = "mount"
		tag(k, "up")
	}
	for i := 0; i < n; i++ {
		var k *Case
		if i%2 == 0 {
			k = genMatrix(r.Fork())
		} else {
			k = genShape(r.Fork())
		}
		k.Mount2 = r.Intn(4) == 0
		tag(k, "up")
	}
	for pi, phase := range srvPhases[1:] {
		// first the nonce minted before the event, by a request that is otherwise in order
		k := base("account", 0, 0, 0, "valid")
		k.J.Nonce = "held"
		tag(k, phase)
		j := 0
		for _, k := range matrixCases() {
			if k.ProvSwap {
				continue
			}
			j++
			if j%3 != pi {
				continue
			}
			tag(k, phase)
		}
		// fresh accounts made by the server as it is now (after the migration: under the new id)
		for _, route := range allRoutes {
			k := base(route, 0, 5, 0, "valid")
			tag(k, phase)
			k = base(route, 1, 5, 0, "valid")
			tag(k, phase)
		}
		for i := 0; i < n/4; i++ {
			k := genMatrix(r.Fork())
			if k.ProvSwap {
				continue
			}
			k.Mount2 = r.Intn(4) == 0
			tag(k, phase)
		}
	}
	return out
}
