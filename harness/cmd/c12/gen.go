package main

import (
	"encoding/hex"
	"encoding/json"
	"fmt"
	"net/http"
	"sort"
	"strings"
	"sync"

	"github.com/go-chi/chi/v5"

	env "verif/harness/cmd/c12/acmeenv"
	c "verif/harness/common"
)

var allRoutes = []string{"newAccount", "account", "keyChange", "newOrder", "order", "orders", "finalize", "authz", "challenge", "cert", "revoke"}

var patterns = map[string]string{
	"newAccount": "/{provisionerID}/new-account", "account": "/{provisionerID}/account/{accID}",
	"keyChange": "/{provisionerID}/key-change", "newOrder": "/{provisionerID}/new-order",
	"order": "/{provisionerID}/order/{ordID}", "orders": "/{provisionerID}/account/{accID}/orders",
	"finalize": "/{provisionerID}/order/{ordID}/finalize", "authz": "/{provisionerID}/authz/{authzID}",
	"challenge": "/{provisionerID}/challenge/{authzID}/{chID}", "cert": "/{provisionerID}/certificate/{certID}",
	"revoke": "/{provisionerID}/revoke-cert"}

func hasResource(route string) bool {
	switch route {
	case "newAccount", "keyChange", "newOrder":
		return false
	}
	return true
}

func hasWhich(route string) bool {
	switch route {
	case "order", "finalize", "authz", "challenge":
		return true
	}
	return false
}

// base is the well-formed request of requester req on route.
func base(route string, prov, req, own int, which string) *Case {
	k := &Case{Route: route, Prov: prov, Req: req, Own: own, AzOwn: -1, Which: which, Payload: "valid", J: defaultJ()}
	if route == "newAccount" {
		k.J.KeyMode = "jwk"
	}
	return k
}

// matrixCases: (requesting account, owning account, provisioner, endpoint), exhaustively.
func matrixCases() []*Case {
	var out []*Case
	for _, route := range allRoutes {
		for prov := 0; prov < 2; prov++ {
			for req := 0; req <= 4; req++ {
				owns := []int{0}
				if hasResource(route) {
					owns = []int{0, 1, 2, 3}
				}
				for _, own := range owns {
					ws := []string{"valid"}
					if hasWhich(route) {
						ws = []string{"valid", "pending"}
					}
					for _, wh := range ws {
						out = append(out, base(route, prov, req, own, wh))
						if route == "revoke" {
							// the second authorisation route: signed with the certificate's key, key embedded
							k := base(route, prov, req, own, wh)
							k.J.KeyMode, k.J.SignWith, k.J.JwkOf = "jwk", "cert", "cert"
							out = append(out, k)
							// embedded key that is NOT the certificate's key
							k2 := base(route, prov, req, own, wh)
							k2.J.KeyMode, k2.J.JwkOf = "jwk", "req"
							out = append(out, k2)
						}
						if route == "challenge" && own <= 2 {
							// authorization id of another account in the URL (D15 shape)
							k := base(route, prov, req, own, wh)
							k.AzOwn = (own + 1) % 3
							out = append(out, k)
						}
					}
				}
			}
		}
	}
	// device-attest-01: a genuine attestation by the requester for the owner's challenge, under the
	// owner's authorization and under every other owner's (the D15 request)
	for req := 0; req <= 2; req++ {
		for own := 0; own <= 2; own++ {
			for azOwn := -1; azOwn <= 2; azOwn++ {
				k := base("challenge", own/2, req, own, "device")
				k.AzOwn = azOwn
				out = append(out, k)
			}
		}
	}
	// … and the owner answering with a payload that is not JSON / JSON without an attestation, under
	// its own and under another owner's authorization (the ownership test comes first)
	for own := 0; own <= 2; own++ {
		for _, pl := range []string{"empty", "emptyjson", "garbage"} {
			for _, azOwn := range []int{-1, (own + 1) % 3} {
				k := base("challenge", own/2, own, own, "device")
				k.Payload, k.AzOwn = pl, azOwn
				out = append(out, k)
			}
		}
	}
	// forged certificate (victim's serial, forger's key): by the forger's embedded key, by any
	// account through kid, and signed with an unrelated key
	for req := 0; req <= 4; req++ {
		for own := 0; own <= 2; own++ {
			k := base("revoke", own/2, req, own, "valid")
			k.Payload = "forged"
			k.J.KeyMode, k.J.SignWith, k.J.JwkOf = "jwk", "forge", "req"
			out = append(out, k)
			k2 := base("revoke", own/2, req, own, "valid")
			k2.Payload = "forged"
			out = append(out, k2)
		}
	}
	// the provisioner was re-created under the same name with a new id: every account of the old one is refused
	for _, route := range allRoutes {
		for req := 0; req <= 2; req++ {
			k := base(route, req/2, req, req, "valid")
			k.ProvSwap = true
			out = append(out, k)
		}
	}
	// accounts as older versions stored them (6: no location, 7: no provisioner id), under their own
	// and the other provisioner, with the kid they were given and with the other provisioner's prefix,
	// and after the provisioner was re-created under the same name
	for _, route := range allRoutes {
		for _, req := range []int{6, 7} {
			for prov := 0; prov < 2; prov++ {
				for _, kid := range []string{"loc", "otherprov"} {
					k := base(route, prov, req, req, "valid")
					k.J.Kid = kid
					out = append(out, k)
				}
			}
			k := base(route, 0, req, req, "valid")
			k.ProvSwap = true
			out = append(out, k)
		}
	}
	// unknown provisioner in the URL; a provisioner of another type (JWK) in the URL
	for _, route := range allRoutes {
		out = append(out, base(route, 2, 0, 0, "valid"))
		out = append(out, base(route, 3, 0, 0, "valid"))
		k := base(route, 3, 4, 0, "valid")
		out = append(out, k)
	}
	// deactivation and what follows
	for _, route := range allRoutes {
		k := base(route, 0, 3, 3, "valid")
		out = append(out, k)
	}
	d := base("account", 0, 5, 5, "valid")
	d.Payload = "deactivate"
	out = append(out, d)
	// records with an emptied member (an older release's, or damaged): the order without provisioner id or account
	// id, the certificate without account id — asked for by the owner, by another account of the same provisioner,
	// by an account of the other provisioner, under both provisioners
	for _, bl := range []struct{ route, blank string }{{"order", "order-prov"}, {"finalize", "order-prov"}, {"order", "order-acct"},
		{"finalize", "order-acct"}, {"cert", "cert-acct"}, {"revoke", "cert-acct"}} {
		for prov := 0; prov < 2; prov++ {
			for req := 0; req <= 2; req++ {
				for own := 0; own <= 2; own++ {
					for _, wh := range []string{"valid", "pending"} {
						if wh == "pending" && !hasWhich(bl.route) {
							continue
						}
						k := base(bl.route, prov, req, own, wh)
						k.Blank = bl.blank
						out = append(out, k)
					}
				}
			}
		}
	}
	// the jwk routes with a "kid" member inside the embedded jwk that names somebody else's key (its thumbprint
	// is public), the requester's own, a deactivated account's, or nothing the server knows
	for _, route := range []string{"newAccount", "revoke"} {
		for _, req := range []int{0, 1, 2, 4} {
			for _, jk := range []string{"self", "victim", "deact", "arb"} {
				for _, pl := range []string{"valid", "onlyexisting"} {
					if route == "revoke" && pl != "valid" {
						continue
					}
					k := base(route, 0, req, (req+1)%3, "valid")
					k.J.KeyMode, k.J.JwkKid, k.Payload = "jwk", jk, pl
					if route == "revoke" {
						k.J.SignWith, k.J.JwkOf = "cert", "cert"
					}
					out = append(out, k)
				}
			}
		}
	}
	return out
}

// legacyOK: the deprecated mounting uses the real validation client; requests that would make it fetch are left out
func legacyOK(k *Case) bool {
	return !(k.Route == "challenge" && k.Which == "pending") && !k.ProvSwap
}

// legacyCases: the same API mounted through api.NewHandler(HandlerOptions).Route — the request context is built
// per request from the options — with a prerequisites checker that agrees (every third case of the matrix),
// objects (501) or fails (500): then nothing may be looked at, no nonce minted, none consumed.
func legacyCases() []*Case {
	var out []*Case
	j := 0
	for _, k := range matrixCases() {
		if !legacyOK(k) {
			continue
		}
		j++
		if j%3 != 0 {
			continue
		}
		k.Legacy = true
		out = append(out, k)
	}
	for _, route := range allRoutes {
		for _, pre := range []int{1, 2} {
			for _, req := range []int{0, 3, 4} {
				k := base(route, 0, req, 0, "valid")
				k.Legacy, k.Pre = true, pre
				out = append(out, k)
			}
			k := base(route, 2, 0, 0, "valid") // unknown provisioner: the linker answers first
			k.Legacy, k.Pre = true, pre
			out = append(out, k)
			k = base(route, 0, 0, 0, "valid")
			k.Legacy, k.Pre, k.J.Nonce = true, pre, "reused"
			out = append(out, k)
		}
	}
	return out
}

// maybeLegacy sends one random case in eight through the deprecated mounting.
func maybeLegacy(k *Case, r *c.Rng) *Case {
	if r.Chance(1, 8) && legacyOK(k) {
		k.Legacy = true
		k.Pre = c.Pick(r, []int{0, 0, 0, 1, 2})
	}
	return k
}

func genMatrix(r *c.Rng) *Case {
	route := c.Pick(r, allRoutes)
	k := base(route, r.Intn(2), r.Intn(5), r.Intn(4), c.Pick(r, []string{"valid", "pending"}))
	if r.Chance(1, 25) {
		k.Prov = c.Pick(r, []int{2, 3})
	}
	if r.Chance(1, 10) {
		k.Req = c.Pick(r, []int{5, 5, 6, 7})
		k.Own = k.Req
		if k.Req >= 6 && r.Chance(1, 2) {
			k.J.Kid = c.Pick(r, []string{"otherprov", "noprefix", "garbage"})
		}
	}
	k.Payload = c.Pick(r, []string{"valid", "valid", "valid", "empty", "emptyjson", "garbage", "onlyexisting"})
	if k.Req == 5 && route == "account" && r.Chance(1, 2) {
		k.Payload = "deactivate"
	}
	if route == "challenge" && r.Chance(1, 3) {
		k.AzOwn = r.Intn(3)
	}
	if route == "challenge" && r.Chance(1, 3) {
		k.Which = "device"
	}
	if route == "revoke" {
		switch r.Intn(4) {
		case 0:
			k.J.KeyMode, k.J.SignWith, k.J.JwkOf = "jwk", "cert", "cert"
		case 1:
			k.J.KeyMode, k.J.JwkOf = "jwk", c.Pick(r, []string{"req", "fresh"})
		}
	}
	if route == "newAccount" && r.Chance(1, 6) {
		k.J.KeyMode = "kid"
	}
	if route == "revoke" && r.Chance(1, 4) {
		k.Payload = "forged"
		if r.Chance(2, 3) {
			k.J.KeyMode, k.J.SignWith, k.J.JwkOf = "jwk", "forge", "req"
		}
	}
	if r.Chance(1, 10) {
		k.ProvSwap = true
	}
	if r.Chance(1, 12) {
		switch route {
		case "order", "finalize":
			k.Blank = c.Pick(r, []string{"order-prov", "order-acct"})
		case "cert", "revoke":
			k.Blank = "cert-acct"
		}
	}
	return k
}

func shapeCorners() []*Case {
	mk := func(route string, f func(k *Case)) *Case {
		k := base(route, 0, 0, 0, "valid")
		f(k)
		return k
	}
	var out []*Case
	for _, route := range []string{"order", "newAccount", "revoke", "newOrder"} {
		route := route
		out = append(out,
			mk(route, func(k *Case) {}),
			mk(route, func(k *Case) { k.J.Ser = "compact" }),
			mk(route, func(k *Case) { k.J.Ser = "general" }),
			mk(route, func(k *Case) { k.J.Ser = "general"; k.J.NSigs = 2 }),
			mk(route, func(k *Case) { k.J.Ser = "general"; k.J.NSigs = 0 }),
			mk(route, func(k *Case) { k.J.Unprot = "kid" }),
			mk(route, func(k *Case) { k.J.Unprot = "extra" }),
			mk(route, func(k *Case) { k.J.Alg = "none"; k.J.SignAlg = "-" }),
			mk(route, func(k *Case) { k.J.Alg = "HS256"; k.J.SignAlg = "-" }),
			mk(route, func(k *Case) { k.J.Nonce = "reused" }),
			mk(route, func(k *Case) { k.J.Nonce = "foreign" }),
			mk(route, func(k *Case) { k.J.Nonce = "empty" }),
			mk(route, func(k *Case) { k.J.Nonce = "otherprov" }),
			mk(route, func(k *Case) { k.J.Nonce = "near-pad" }),
			mk(route, func(k *Case) { k.J.Nonce = "near-pad2" }),
			mk(route, func(k *Case) { k.J.Nonce = "near-case" }),
			mk(route, func(k *Case) { k.J.Nonce = "near-trunc" }),
			mk(route, func(k *Case) { k.J.Nonce = "near-space" }),
			mk(route, func(k *Case) { k.J.Nonce = "near-lead" }),
			mk(route, func(k *Case) { k.J.URL = "other" }),
			mk(route, func(k *Case) { k.J.URL = "port-default" }),
			mk(route, func(k *Case) { k.J.URL = "port-other" }),
			mk(route, func(k *Case) { k.J.URL = "query" }),
			mk(route, func(k *Case) { k.J.URL = "fragment" }),
			mk(route, func(k *Case) { k.J.URL = "userinfo" }),
			mk(route, func(k *Case) { k.J.URL = "slash" }),
			mk(route, func(k *Case) { k.J.URL = "dot" }),
			mk(route, func(k *Case) { k.J.URL = "escaped" }),
			mk(route, func(k *Case) { k.J.URL = "absent" }),
			mk(route, func(k *Case) { k.J.URL = "nonstring" }),
			mk(route, func(k *Case) { k.J.URL = "case-id" }),
			mk(route, func(k *Case) { k.J.URL = "case-path" }),
			mk(route, func(k *Case) { k.J.URL = "case-scheme" }),
			mk(route, func(k *Case) { k.J.URL = "case-host" }),
			mk(route, func(k *Case) { k.J.KeyMode = "both" }),
			mk(route, func(k *Case) { k.J.KeyMode = "neither" }),
			mk(route, func(k *Case) { k.J.KeyMode = "jwk" }),
			mk(route, func(k *Case) { k.J.KeyMode = "kid" }),
			mk(route, func(k *Case) { k.J.Alter = true }),
			mk(route, func(k *Case) { k.J.Detached = true }),
			mk(route, func(k *Case) { k.J.BadSig = true }),
			mk(route, func(k *Case) { k.J.SignWith = "other" }),
			mk(route, func(k *Case) { k.J.Trunc = 1 }),
			mk(route, func(k *Case) { k.J.Trunc = 2 }),
			mk(route, func(k *Case) { k.J.Trunc = 4 }),
			mk(route, func(k *Case) { k.J.Trunc = 5 }),
			mk(route, func(k *Case) { k.J.Kid = "otherprov" }),
			mk(route, func(k *Case) { k.J.Kid = "garbage" }),
			mk(route, func(k *Case) { k.J.Kid = "noprefix" }),
			mk(route, func(k *Case) { k.J.CT = "application/json" }),
			mk(route, func(k *Case) { k.J.Raw = "this is not a jws" }),
			mk(route, func(k *Case) { k.J.KeyMode = "jwk"; k.J.JwkOf = "rsa1024" }),
			mk(route, func(k *Case) { k.J.KeyMode = "jwk"; k.J.JwkOf = "invalid" }),
			mk(route, func(k *Case) { k.J.KeyMode = "jwk"; k.J.JwkAlg = "ES384" }),
			mk(route, func(k *Case) { k.J.KeyMode = "jwk"; k.J.JwkAlg = "ES256" }),
			// the embedded jwk carries a "kid" member of the client's choosing
			mk(route, func(k *Case) { k.J.KeyMode = "jwk"; k.J.JwkKid = "self" }),
			mk(route, func(k *Case) { k.J.KeyMode = "jwk"; k.J.JwkKid = "arb" }),
			mk(route, func(k *Case) { k.J.KeyMode = "jwk"; k.J.JwkKid = "victim" }),
			mk(route, func(k *Case) { k.J.KeyMode = "jwk"; k.J.JwkKid = "deact" }),
			mk(route, func(k *Case) { k.Req = 4; k.J.KeyMode = "jwk"; k.J.JwkKid = "victim" }),
			mk(route, func(k *Case) { k.Req = 4; k.J.KeyMode = "jwk"; k.J.JwkKid = "victim"; k.Payload = "onlyexisting" }),
			mk(route, func(k *Case) { k.Req = 4; k.J.KeyMode = "jwk"; k.J.JwkKid = "deact" }),
			mk(route, func(k *Case) { k.Req = 4; k.J.KeyMode = "jwk"; k.J.JwkKid = "self" }),
			mk(route, func(k *Case) { k.Req = 4; k.J.KeyMode = "jwk"; k.J.JwkKid = "arb"; k.Payload = "onlyexisting" }),
			mk(route, func(k *Case) { k.Req, k.Own = 4, 2; k.J.KeyMode = "jwk"; k.J.JwkKid = "victim" }),
			mk(route, func(k *Case) { k.J.KeyMode = "jwk"; k.J.SignWith, k.J.JwkOf = "cert", "cert"; k.J.JwkKid = "victim" }),
			mk(route, func(k *Case) { k.Req, k.Own = 1, 1 }),
			mk(route, func(k *Case) { k.Req, k.Own = 1, 1; k.J.Alg = "PS256" }),
			mk(route, func(k *Case) { k.Req, k.Own = 1, 1; k.J.Alg = "RS512" }),
			mk(route, func(k *Case) { k.Req, k.Own = 1, 1; k.J.Alg = "ES256" }),
			mk(route, func(k *Case) { k.Req, k.Own, k.Prov = 2, 2, 1 }),
			mk(route, func(k *Case) { k.Req, k.Own, k.Prov = 2, 2, 0 }),
		)
	}
	return out
}

// genShape: a valid request by the owner of the addressed resource, then one or two deviations.
func genShape(r *c.Rng) *Case {
	route := c.Pick(r, allRoutes)
	who := r.Intn(3)
	prov := 0
	if who == 2 {
		prov = 1
	}
	k := base(route, prov, who, who, c.Pick(r, []string{"valid", "pending"}))
	if route == "newAccount" && r.Chance(1, 2) {
		k.Req = 4 // a key without account
	}
	if route == "revoke" && r.Chance(1, 2) {
		k.J.KeyMode, k.J.SignWith, k.J.JwkOf = "jwk", "cert", "cert"
	}
	k.J.Ser = c.Pick(r, []string{"flat", "flat", "general", "compact"})
	if r.Chance(1, 6) {
		return k // fully valid
	}
	n := 1
	if r.Chance(1, 4) {
		n = 2
	}
	for ; n > 0; n-- {
		switch r.Intn(17) {
		case 0:
			k.J.Ser = "general"
			k.J.NSigs = c.Pick(r, []int{0, 2})
		case 1:
			k.J.Unprot = c.Pick(r, []string{"kid", "alg", "nonce", "extra", "jwk"})
			if k.J.Ser == "compact" {
				k.J.Ser = "flat"
			}
		case 2:
			k.J.Alg = c.Pick(r, []string{"none", "HS256", "HS512", "es256", "ES256K", ""})
			k.J.SignAlg = c.Pick(r, []string{"-", "ES256"})
		case 3:
			// algorithm of another family than the key / other size
			k.J.Alg = c.Pick(r, []string{"RS256", "PS256", "PS384", "RS512", "ES256", "ES384", "ES512", "EdDSA"})
		case 4:
			k.J.Nonce = c.Pick(r, []string{"reused", "foreign", "empty", "absent", "otherprov", "near-pad", "near-pad2", "near-case", "near-trunc", "near-space", "near-lead"})
		case 5:
			k.J.URL = c.Pick(r, []string{"other", "absent", "nonstring", "case-id", "case-id", "case-path", "case-scheme", "case-host", "port-default", "port-other", "query", "fragment", "userinfo", "slash", "dot", "escaped"})
		case 6:
			k.J.KeyMode = c.Pick(r, []string{"kid", "jwk", "both", "neither"})
		case 7:
			k.J.Alter = true
		case 8:
			k.J.Detached = true
		case 9:
			k.J.BadSig = true
		case 10:
			k.J.SignWith = c.Pick(r, []string{"other", "cert", "req"})
		case 11:
			k.J.Trunc = c.Pick(r, []int{1, 2, 4, 4, 5, 3})
			if k.Req == 1 {
				k.Req, k.Own = 0, 0
				k.Prov = 0
			}
		case 12:
			k.J.Kid = c.Pick(r, []string{"otherprov", "garbage", "ownerloc", "noprefix"})
			k.Own = r.Intn(3)
		case 13:
			k.J.KeyMode = "jwk"
			k.J.JwkOf = c.Pick(r, []string{"rsa1024", "invalid", "fresh", "cert", "req"})
		case 14:
			k.J.KeyMode = "jwk"
			if r.Chance(1, 2) {
				k.J.JwkAlg = c.Pick(r, []string{"ES256", "ES384", "RS256", "EdDSA"})
			} else {
				k.J.JwkKid = c.Pick(r, []string{"self", "victim", "victim", "deact", "arb"})
				if r.Chance(1, 2) {
					k.Req = 4
				}
				k.Own = r.Intn(3)
				if r.Chance(1, 3) {
					k.Payload = "onlyexisting"
				}
			}
		case 15:
			k.J.CT = c.Pick(r, []string{"application/json", "application/pkix-cert", "text/plain", "application/jose+json; charset=utf-8"})
		default:
			k.Prov = 1 - k.Prov // the other provisioner in the URL
		}
	}
	// malformed stream
	if r.Chance(1, 40) {
		k.J.Raw = c.Pick(r, []string{"", "{}", "[]", "a.b.c", `{"protected":"e30","payload":"","signature":""}`, `{"payload":"e30"}`, "\x00\x01"})
	}
	return k
}

// ---------------------------------------------------------------- routes stage

func (w *world) verdictOf(k *Case) string {
	_, impl := w.run(k)
	if i := strings.Index(impl, " "); i >= 0 {
		return impl[:i]
	}
	return impl
}

func (w *world) routes(o *c.Out) {
	e := w.e
	type rt struct{ method, pattern string }
	var seen []rt
	chi.Walk(e.Mux, func(method, route string, _ http.Handler, _ ...func(http.Handler) http.Handler) error {
		route = strings.TrimPrefix(route, "/acme")
		seen = append(seen, rt{method, route})
		return nil
	})
	sort.Slice(seen, func(i, j int) bool {
		if seen[i].pattern != seen[j].pattern {
			return seen[i].pattern < seen[j].pattern
		}
		return seen[i].method < seen[j].method
	})
	rev := map[string]string{}
	for name, p := range patterns {
		rev[p] = name
	}
	walked := map[string]bool{}
	emit := func(method, pattern, impl string) {
		js, _ := json.Marshal(map[string]string{"m": method, "p": pattern})
		o.Case(fmt.Sprintf("route v=2 m=%s p=%s pat=%s case=x%s", method, c.X(pattern), pattern, hex.EncodeToString(js)), impl)
	}
	for _, r := range seen {
		walked[r.method+" "+r.pattern] = true
		if r.method != "POST" {
			p := strings.Replace(r.pattern, "{provisionerID}", "p0", 1)
			if strings.Contains(p, "{") {
				emit(r.method, r.pattern, "unknown-route")
				continue
			}
			rec := e.DoCT(r.method, "/acme"+p, "", nil)
			if rec.Code >= 300 {
				emit(r.method, r.pattern, "closed:"+env.Class(rec))
				continue
			}
			emit(r.method, r.pattern, fmt.Sprintf("open parse=0 validate=0 verify=0 nonce=%s", c.B(rec.Header().Get("Replay-Nonce") != "")))
			continue
		}
		name, ok := rev[r.pattern]
		if !ok {
			emit(r.method, r.pattern, "unknown-route")
			continue
		}
		good := func() *Case {
			k := base(name, 0, 0, 0, "pending")
			if name == "cert" || name == "revoke" {
				k.Which = "valid"
			}
			if name == "newAccount" {
				k.Req = 4
			}
			return k
		}
		with := func(f func(k *Case)) string { k := good(); f(k); return w.verdictOf(k) }
		vGood := with(func(k *Case) {})
		hasNonce := w.lastFresh != ""
		vRaw := with(func(k *Case) { k.J.Raw = "this is not a jws" })
		vNonce := with(func(k *Case) { k.J.Nonce = "foreign" })
		vSig := with(func(k *Case) { k.J.BadSig = true })
		// selector: does the route take the kid form / the jwk form?
		vKidUnknown := with(func(k *Case) { k.Req = 4; k.J.KeyMode = "kid" })                  // kid of an account that does not exist
		vJwkDeact := with(func(k *Case) { k.Req = 3; k.J.KeyMode = "jwk"; k.J.JwkOf = "req" }) // key of a deactivated account, embedded
		takesKid := vKidUnknown == "400:accountDoesNotExist"
		takesJwk := vJwkDeact == "401:unauthorized"
		sel := "none"
		switch {
		case takesKid && takesJwk:
			sel = "either"
		case takesKid:
			sel = "kid"
		case takesJwk:
			sel = "jwk"
		}
		// POST-as-GET: the well-formed request with an empty payload is served, with "{}" it is malformed
		pag := false
		if name != "newAccount" {
			vEmpty := with(func(k *Case) { k.Payload = "empty" })
			vJSON := with(func(k *Case) { k.Payload = "emptyjson" })
			pag = vEmpty == "ok" && vJSON == "400:malformed"
		}
		impl := fmt.Sprintf("sel=%s pag=%s parse=%s validate=%s verify=%s nonce=%s", sel, c.B(pag),
			c.B(vGood != "400:malformed" && vRaw == "400:malformed"), c.B(vNonce == "400:badNonce"),
			c.B(vGood != "400:malformed" && vSig == "400:malformed"), c.B(hasNonce))
		if vGood != "ok" && vGood != "501:rejectedIdentifier" {
			impl += " good=" + vGood
		}
		emit(r.method, r.pattern, impl)
	}
	// rows the harness knows of that the router no longer has
	var names []string
	for n := range patterns {
		names = append(names, n)
	}
	sort.Strings(names)
	for _, n := range names {
		if !walked["POST "+patterns[n]] {
			emit("POST", patterns[n], "absent")
		}
	}
}

// ---------------------------------------------------------------- nonce stage

type NonceCase struct {
	K      int   // concurrent requests carrying the same nonce
	Who    []int // requesting accounts
	Routes []string
}

func genNonce(r *c.Rng) *NonceCase {
	k := &NonceCase{K: 2 + r.Intn(7)}
	for i := 0; i < k.K; i++ {
		k.Who = append(k.Who, r.Intn(3))
		k.Routes = append(k.Routes, c.Pick(r, []string{"account", "order", "orders", "authz", "cert"}))
	}
	return k
}

func (w *world) nonceCase(o *c.Out, k *NonceCase) {
	e := w.e
	nonce := e.Nonce("p0")
	bodies := make([][]byte, k.K)
	paths := make([]string, k.K)
	for i := 0; i < k.K; i++ {
		ow := w.own[k.Who[i]%3]
		a := ow.acct
		var p string
		switch k.Routes[i] {
		case "order":
			p = env.Path(a.Prov, "order", ow.pending.OrderID)
		case "orders":
			p = env.Path(a.Prov, "account", a.ID, "orders")
		case "authz":
			p = env.Path(a.Prov, "authz", ow.pending.AuthzID)
		case "cert":
			p = env.Path(a.Prov, "certificate", ow.valid.CertID)
		default:
			p = env.Path(a.Prov, "account", a.ID)
		}
		s := &env.Shape{Ser: "flat", Protected: map[string]any{"alg": a.Key.DefaultAlg(), "nonce": nonce, "url": env.URL(p), "kid": a.Loc},
			NSigs: 1, SignKey: a.Key}
		bodies[i], _ = s.Build()
		paths[i] = p
	}
	start := make(chan struct{})
	var wg sync.WaitGroup
	res := make([]string, k.K)
	for i := 0; i < k.K; i++ {
		wg.Add(1)
		go func(i int) {
			defer wg.Done()
			<-start
			rec := e.Do("POST", paths[i], bodies[i])
			res[i] = env.Class(rec)
		}(i)
	}
	close(start)
	wg.Wait()
	accepted, other := 0, 0
	for _, r := range res {
		switch {
		case r == "200":
			accepted++
		case r == "400:badNonce":
		default:
			other++
		}
	}
	impl := "once:ok"
	if accepted != 1 || other != 0 {
		impl = fmt.Sprintf("once:VIOLATED accepted=%d other=%d", accepted, other)
	}
	js, _ := json.Marshal(k)
	o.Case(fmt.Sprintf("nonce v=2 k=%d case=x%s", k.K, hex.EncodeToString(js)), impl+"\tonce:ok")
}
