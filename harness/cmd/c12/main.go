package main

import (
	"encoding/json"
	"fmt"

	env "verif/harness/cmd/c12/acmeenv"
)

func main() {
	e, err := env.New([]env.ProvSpec{{Name: "p0"}, {Name: "p1"}}, nil)
	if err != nil {
		panic(err)
	}
	defer e.Close()
	k := env.NewKey("es256", 0)
	n := e.Nonce("p0")
	fmt.Println("nonce", n, e.NonceLive(n))
	path := env.Path("p0", "new-account")
	s := &env.Shape{Ser: "flat", Protected: map[string]any{"alg": "ES256", "nonce": n, "url": env.URL(path), "jwk": env.JWKMap(k.JWK())},
		Payload: []byte(`{"termsOfServiceAgreed":true}`), NSigs: 1, SignKey: k}
	body, _ := s.Build()
	rec := e.Do("POST", path, body)
	fmt.Println(rec.Code, rec.Header().Get("Location"), rec.Body.String())
	fmt.Println("nonce live after", e.NonceLive(n))
	var m map[string]any
	json.Unmarshal(rec.Body.Bytes(), &m)
}
