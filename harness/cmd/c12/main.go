// Harness for C12 (ACME requests are authenticated, replay-protected and confined to their account).
//
// Drives the real router (acme/api.Route on chi) in-process, with the real linker, an embedded
// authority and the real nosql store on bbolt (package acmeenv), and writes per case
//
//	<model input line>\t<implementation output>[\t<expected>]
//
// Stages (flag -stage):
//
//	matrix  every POST route x requesting account (3 accounts on 2 provisioners, + deactivated,
//	        + unknown key) x owner of the addressed resource x provisioner in the URL, with a
//	        well-formed JWS; exhaustive, then random payload variants          (driver drv_c12)
//	shapes  JWS shape generator around a valid request: serialisation, 0/1/2 signatures,
//	        unprotected headers, none/HS/RS/PS/ES/EdDSA, RSA 1024/2048, altered or detached payload,
//	        truncated ES signatures, wrong/missing url, reused/foreign/empty nonces, jwk/kid
//	        combinations, kid of another provisioner                            (driver drv_c12)
//	routes  chi.Walk over the real router; every route is probed for each middleware and the
//	        result compared with the route table the Lean theorems are about      (driver drv_c12)
//	nonce   k goroutines released by a barrier send well-formed requests carrying ONE nonce;
//	        oracle: at most one is accepted                                       (no driver)
//	d15     GetChallenge with the authorization id of another account in the URL  (no driver)
package main

import (
	"context"
	"encoding/hex"
	"encoding/json"
	"flag"
	"fmt"
	"os"
	"strings"

	env "verif/harness/cmd/c12/acmeenv"
	c "verif/harness/common"
)

var provs = []env.ProvSpec{{Name: "p0", ID: "id-p0"}, {Name: "p1", ID: "id-p1"}}

type JwsSpec struct {
	Ser      string // flat | general | compact
	KeyMode  string // kid | jwk | both | neither
	SignWith string // req | other | cert | forge (the key of the forged certificate, revoke with Payload=forged)
	JwkOf    string // req | cert | rsa1024 | fresh | invalid
	JwkAlg   string // "alg" member put inside the embedded jwk
	JwkKid   string // "kid" member put inside the embedded jwk: "" none | self (its own thumbprint) | victim (the thumbprint of the key of the owner account Own, or of world account 0) | deact (… of a freshly deactivated account) | arb
	Alg      string // protected alg ("" = natural algorithm of the signing key)
	SignAlg  string // algorithm used to compute the signature ("" = Alg; "-" = empty signature)
	Kid      string // loc | otherprov | garbage | ownerloc | noprefix
	Nonce    string // fresh | reused | foreign | empty | absent | otherprov | near-pad | near-pad2 | near-case | near-trunc | near-space | near-lead (a live nonce respelled)
	URL      string // same | other | absent | nonstring | port-default | port-other | query | fragment | userinfo | slash | dot | escaped (the request URL respelled) | case-id | case-path | case-scheme | case-host (request URL with the letter case of that part flipped)
	Unprot   string // "" | kid | alg | nonce | extra | jwk
	NSigs    int
	Detached bool
	Alter    bool
	BadSig   bool
	Trunc    int
	CT       string // "" = application/jose+json
	Raw      string // if set, the request body verbatim
}

type Case struct {
	Route    string // newAccount account keyChange newOrder order orders finalize authz challenge cert revoke
	Prov     int    // provisioner in the URL: 0 | 1 | 2 (unknown name)
	Req      int    // requester: 0..2 world accounts | 3 fresh deactivated | 4 unknown key | 5 fresh valid account
	Own      int    // owner of the addressed resource: 0..2 | 3 non-existent id
	AzOwn    int    // challenge route only: owner of the authorization id in the URL (-1 = Own)
	Which    string // valid | pending | device (challenge route: fresh device-attest-01 orders, genuine attestation)
	Payload  string // valid | empty | emptyjson | garbage | deactivate | onlyexisting | forged (revoke: self-signed certificate with the victim's serial)
	ProvSwap bool   // the provisioner named in the URL has been re-created under the same name with another id
	Mount2   bool   // the request goes to the second mount point of the ACME routes, /2.0/acme
	Blank    string // the addressed record as an older or damaged store holds it: "" | order-prov | order-acct | cert-acct (that member of the order / certificate record emptied for the request)
	Legacy   bool   // through the deprecated mounting (api.NewHandler(opts).Route: context built per request from the options)
	Pre      int    // … whose PrerequisitesChecker answers 0 (true,nil) | 1 (false,nil) | 2 an error
	Srv      string // "" in-process router | up | reload | restart | migrate: through the real server (stage server)
	J        JwsSpec
}

func defaultJ() JwsSpec {
	return JwsSpec{Ser: "flat", KeyMode: "kid", SignWith: "req", JwkOf: "req", Kid: "loc", Nonce: "fresh", URL: "same", NSigs: 1}
}

func main() {
	n := flag.Int("n", 1000, "number of generated cases")
	out := flag.String("out", "", "output file")
	replay := flag.String("replay", "", "file of lines carrying case=x… to re-run")
	stage := flag.String("stage", "matrix", "matrix | shapes | routes | nonce | d15 | acctrace | legacy | server")
	flag.Parse()
	o, err := c.NewOut(*out)
	if err != nil {
		fmt.Fprintln(os.Stderr, err)
		os.Exit(2)
	}
	defer o.Close()
	var w *world
	needWorld := func() {
		if w != nil {
			return
		}
		nw, err := newWorld()
		if err != nil {
			fmt.Fprintln(os.Stderr, "environment:", err)
			os.Exit(2)
		}
		w = nw
	}
	if *stage != "server" {
		needWorld()
	}
	defer func() {
		if w != nil {
			w.e.Close()
		}
		closeServed()
	}()
	emitted := 0
	emit := func(k *Case) {
		if k.Srv != "" {
			sw := servedWorld(k.Srv)
			if sw == nil {
				return // set-up failed: no observation
			}
			var line, impl string
			func() {
				defer func() {
					if r := recover(); r != nil {
						js, _ := json.Marshal(k)
						line, impl = "req v=2 crashed case=x"+hex.EncodeToString(js), "crash"
					}
				}()
				line, impl = sw.run(k)
			}()
			if line != "" {
				o.Case(line, impl)
			}
			return
		}
		needWorld()
		// order lists per account grow with every new-order case and are walked by the handlers:
		// start over with a fresh environment now and then to stay linear
		emitted++
		if emitted%2500 == 0 {
			w.e.Close()
			nw, err := newWorld()
			if err != nil {
				fmt.Fprintln(os.Stderr, "environment:", err)
				os.Exit(2)
			}
			*w = *nw
		}
		var line, impl string
		func() {
			defer func() {
				if r := recover(); r != nil {
					js, _ := json.Marshal(k)
					line, impl = "req v=2 crashed case=x"+hex.EncodeToString(js), "crash"
				}
			}()
			line, impl = w.run(k)
		}()
		if line != "" {
			o.Case(line, impl)
		}
	}
	if *replay != "" {
		data, err := os.ReadFile(*replay)
		if err != nil {
			fmt.Fprintln(os.Stderr, err)
			os.Exit(2)
		}
		for _, l := range strings.Split(string(data), "\n") {
			i := strings.Index(l, "case=x")
			if i < 0 {
				continue
			}
			h := l[i+6:]
			if j := strings.IndexAny(h, " \t"); j >= 0 {
				h = h[:j]
			}
			js, err := hex.DecodeString(h)
			if err != nil {
				continue
			}
			if strings.HasPrefix(l, "nonce ") {
				var k NonceCase
				if json.Unmarshal(js, &k) == nil {
					w.nonceCase(o, &k)
				}
				continue
			}
			if strings.HasPrefix(l, "d15 ") {
				w.d15(o)
				continue
			}
			if strings.HasPrefix(l, "acctrace ") {
				for _, f := range strings.Fields(l) {
					if strings.HasPrefix(f, "sched=") {
						w.acctRaceOne(o, strings.TrimPrefix(f, "sched="))
					}
				}
				continue
			}
			if strings.HasPrefix(l, "legacy ") {
				w.legacy(o)
				continue
			}
			if strings.HasPrefix(l, "route ") {
				w.routes(o)
				continue
			}
			var k Case
			if json.Unmarshal(js, &k) == nil {
				emit(&k)
			}
		}
		return
	}
	r := c.NewRng(c.Seed())
	switch *stage {
	case "matrix":
		for _, k := range matrixCases() {
			emit(k)
		}
		for _, k := range legacyCases() {
			emit(k)
		}
		for i := 0; i < *n; i++ {
			rr := r.Fork()
			emit(maybeLegacy(genMatrix(rr), rr))
		}
	case "shapes":
		for _, k := range shapeCorners() {
			emit(k)
		}
		for i := 0; i < *n; i++ {
			rr := r.Fork()
			emit(maybeLegacy(genShape(rr), rr))
		}
	case "routes":
		w.routes(o)
	case "nonce":
		for i := 0; i < *n; i++ {
			w.nonceCase(o, genNonce(r.Fork()))
		}
	case "d15":
		w.d15(o)
	case "acctrace":
		w.acctRace(o, *n, r)
	case "legacy":
		w.legacy(o)
	case "server":
		for _, k := range serverCases(*n, r) {
			emit(k)
		}
	}
	_ = context.Background
}
