package acmeenv

import (
	"crypto/ecdsa"
	"crypto/rand"
	"crypto/x509"
	"crypto/x509/pkix"
	"encoding/json"
	"encoding/pem"
	"fmt"
	"net"
	"net/http/httptest"
)

// Acct is an ACME account created through the real new-account route.
type Acct struct {
	Key  *Key
	Prov string // provisioner name it was created under
	ID   string
	Loc  string // Location header = kid
}

// Issued is everything one completed order leaves behind.
type Issued struct {
	OrderID, AuthzID, ChID, CertID string
	Token                          string
	Cert                           *x509.Certificate
	CertKey                        *Key
}

// KidBody builds a well-formed kid-signed JWS for the account.
func (e *Env) KidBody(a *Acct, prov, path string, payload []byte) []byte {
	s := &Shape{Ser: "flat", Protected: map[string]any{"alg": a.Key.DefaultAlg(), "nonce": e.Nonce(prov),
		"url": URL(path), "kid": a.Loc}, Payload: payload, NSigs: 1, SignKey: a.Key}
	b, _ := s.Build()
	return b
}

// Post sends a well-formed kid-signed request under the account's own provisioner.
func (e *Env) Post(a *Acct, path string, payload []byte) *httptest.ResponseRecorder {
	return e.Do("POST", path, e.KidBody(a, a.Prov, path, payload))
}

// NewAccount registers key k under provisioner prov (no external account binding).
func (e *Env) NewAccount(prov string, k *Key) (*Acct, error) {
	path := Path(prov, "new-account")
	s := &Shape{Ser: "flat", Protected: map[string]any{"alg": k.DefaultAlg(), "nonce": e.Nonce(prov),
		"url": URL(path), "jwk": JWKMap(k.JWK())}, Payload: []byte(`{"termsOfServiceAgreed":true}`), NSigs: 1, SignKey: k}
	b, _ := s.Build()
	rec := e.Do("POST", path, b)
	if rec.Code != 201 && rec.Code != 200 {
		return nil, fmt.Errorf("new-account: %d %s", rec.Code, rec.Body.String())
	}
	loc := rec.Header().Get("Location")
	return &Acct{Key: k, Prov: prov, ID: LastPathElem(loc), Loc: loc}, nil
}

// NewOrder creates a pending order for one DNS name and returns its ids (order, authz, http-01 challenge, token).
func (e *Env) NewOrder(a *Acct, name string) (*Issued, error) {
	pl, _ := json.Marshal(map[string]any{"identifiers": []map[string]string{{"type": "dns", "value": name}}})
	if e.ServedIP != "" {
		pl, _ = json.Marshal(map[string]any{"identifiers": []map[string]string{{"type": "ip", "value": e.ServedIP}}})
	}
	rec := e.Post(a, Path(a.Prov, "new-order"), pl)
	if rec.Code != 201 {
		return nil, fmt.Errorf("new-order: %d %s", rec.Code, rec.Body.String())
	}
	var o struct {
		Authorizations []string `json:"authorizations"`
	}
	json.Unmarshal(rec.Body.Bytes(), &o)
	is := &Issued{OrderID: LastPathElem(rec.Header().Get("Location"))}
	if len(o.Authorizations) != 1 {
		return nil, fmt.Errorf("new-order: %d authorizations", len(o.Authorizations))
	}
	is.AuthzID = LastPathElem(o.Authorizations[0])
	rec = e.Post(a, Path(a.Prov, "authz", is.AuthzID), nil)
	if rec.Code != 200 {
		return nil, fmt.Errorf("authz: %d %s", rec.Code, rec.Body.String())
	}
	var az struct {
		Challenges []struct {
			Type, URL, Token string
		} `json:"challenges"`
	}
	json.Unmarshal(rec.Body.Bytes(), &az)
	for _, ch := range az.Challenges {
		if ch.Type == "http-01" {
			is.ChID = LastPathElem(ch.URL)
			is.Token = ch.Token
		}
	}
	if is.ChID == "" {
		return nil, fmt.Errorf("authz: no http-01 challenge in %s", rec.Body.String())
	}
	return is, nil
}

// Issue runs a complete order: validate http-01 through the fake client, finalize, fetch the certificate.
func (e *Env) Issue(a *Acct, name string) (*Issued, error) {
	is, err := e.NewOrder(a, name)
	if err != nil {
		return nil, err
	}
	e.Client.Set("/.well-known/acme-challenge/"+is.Token, is.Token+"."+a.Key.Thumb())
	rec := e.Post(a, Path(a.Prov, "challenge", is.AuthzID, is.ChID), []byte("{}"))
	if rec.Code != 200 {
		return nil, fmt.Errorf("challenge: %d %s", rec.Code, rec.Body.String())
	}
	rec = e.Post(a, Path(a.Prov, "order", is.OrderID), nil)
	if rec.Code != 200 {
		return nil, fmt.Errorf("order: %d %s", rec.Code, rec.Body.String())
	}
	is.CertKey = NewKey("es256", 0)
	tmpl := &x509.CertificateRequest{Subject: pkix.Name{CommonName: name}, DNSNames: []string{name}}
	if e.ServedIP != "" {
		tmpl = &x509.CertificateRequest{IPAddresses: []net.IP{net.ParseIP(e.ServedIP)}}
	}
	csr, err := x509.CreateCertificateRequest(rand.Reader, tmpl, is.CertKey.Priv.(*ecdsa.PrivateKey))
	if err != nil {
		return nil, err
	}
	pl, _ := json.Marshal(map[string]string{"csr": b64(csr)})
	rec = e.Post(a, Path(a.Prov, "order", is.OrderID, "finalize"), pl)
	if rec.Code != 200 {
		return nil, fmt.Errorf("finalize: %d %s", rec.Code, rec.Body.String())
	}
	var o struct {
		Certificate string `json:"certificate"`
	}
	json.Unmarshal(rec.Body.Bytes(), &o)
	is.CertID = LastPathElem(o.Certificate)
	if is.CertID == "" {
		return nil, fmt.Errorf("finalize: no certificate url in %s", rec.Body.String())
	}
	rec = e.Post(a, Path(a.Prov, "certificate", is.CertID), nil)
	if rec.Code != 200 {
		return nil, fmt.Errorf("certificate: %d %s", rec.Code, rec.Body.String())
	}
	blk, _ := pem.Decode(rec.Body.Bytes())
	if blk == nil {
		return nil, fmt.Errorf("certificate: no PEM")
	}
	is.Cert, err = x509.ParseCertificate(blk.Bytes)
	return is, err
}

// CSRPayload builds a finalize payload for name with a fresh key.
func CSRPayload(name string) []byte {
	k := NewKey("es256", 0)
	csr, _ := x509.CreateCertificateRequest(rand.Reader, &x509.CertificateRequest{
		Subject: pkix.Name{CommonName: name}, DNSNames: []string{name}}, k.Priv.(*ecdsa.PrivateKey))
	pl, _ := json.Marshal(map[string]string{"csr": b64(csr)})
	return pl
}
