package acmeenv

import (
	"context"
	"sync"

	"github.com/smallstep/certificates/acme"
)

// PolicyDB is the acme.DB a deployment with account-level policies presents to the handlers:
// the open-source nosql store never answers GetExternalAccountKeyByAccountID (it returns nil, nil)
// and never stores a policy with a key. PolicyDB answers that call by scanning the provisioner's
// keys for the one bound to the account, and attaches the acme.Policy registered for a key id.
// Everything else is the wrapped store.
type PolicyDB struct {
	acme.DB
	mu       sync.Mutex
	policies map[string]*acme.Policy
}

func NewPolicyDB(inner acme.DB) *PolicyDB {
	return &PolicyDB{DB: inner, policies: map[string]*acme.Policy{}}
}

// SetPolicy attaches p to the key (nil removes it).
func (d *PolicyDB) SetPolicy(keyID string, p *acme.Policy) {
	d.mu.Lock()
	defer d.mu.Unlock()
	if p == nil {
		delete(d.policies, keyID)
		return
	}
	d.policies[keyID] = p
}

func (d *PolicyDB) withPolicy(k *acme.ExternalAccountKey) *acme.ExternalAccountKey {
	if k == nil {
		return nil
	}
	d.mu.Lock()
	defer d.mu.Unlock()
	if p, ok := d.policies[k.ID]; ok {
		k.Policy = p
	}
	return k
}

func (d *PolicyDB) GetExternalAccountKey(ctx context.Context, provisionerID, keyID string) (*acme.ExternalAccountKey, error) {
	k, err := d.DB.GetExternalAccountKey(ctx, provisionerID, keyID)
	if err != nil {
		return nil, err
	}
	return d.withPolicy(k), nil
}

func (d *PolicyDB) GetExternalAccountKeyByAccountID(ctx context.Context, provisionerID, accountID string) (*acme.ExternalAccountKey, error) {
	keys, _, err := d.DB.GetExternalAccountKeys(ctx, provisionerID, "", 0)
	if err != nil {
		return nil, err
	}
	for _, k := range keys {
		if k != nil && accountID != "" && k.AccountID == accountID {
			return d.withPolicy(k), nil
		}
	}
	//nolint:nilnil // same contract as the wrapped store: no key bound to this account
	return nil, nil
}
