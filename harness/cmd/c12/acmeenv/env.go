// Package acmeenv builds, in-process, the real ACME stack of /repo the way ca/ca.go wires it:
// an embedded authority (own root + intermediate), ACME provisioners, a bbolt nosql store shared
// by the authority and the acme nosql DB, the real linker, and the real chi router populated by
// acme/api.Route. Nothing is mocked except the outbound validation client (http-01 fetches) and,
// optionally, an acme.DB wrapper supplied by the caller (schedule control).
//
// Shared by the C12 and C20 harnesses (harness/cmd/c12, harness/cmd/c20).
package acmeenv

import (
	"bytes"
	"context"
	"crypto"
	"crypto/ecdsa"
	"crypto/elliptic"
	"crypto/rand"
	"crypto/tls"
	"crypto/x509"
	"crypto/x509/pkix"
	"encoding/json"
	"errors"
	"io"
	"math/big"
	"net/http"
	"net/http/httptest"
	"os"
	"strconv"
	"strings"
	"sync"
	"time"

	"github.com/go-chi/chi/v5"
	"github.com/smallstep/nosql"

	"github.com/smallstep/certificates/acme"
	acmeAPI "github.com/smallstep/certificates/acme/api"
	acmeNoSQL "github.com/smallstep/certificates/acme/db/nosql"
	"github.com/smallstep/certificates/authority"
	"github.com/smallstep/certificates/authority/config"
	"github.com/smallstep/certificates/authority/provisioner"
	"github.com/smallstep/certificates/db"
)

// Host is the host name every request carries; links are https://Host/acme/<prov>/...
const Host = "ca.verif.test"

type ProvSpec struct {
	Name       string
	ID         string // provisioner id as the admin database would assign it ("" = acme/<name>)
	RequireEAB bool
	// AttestationRoots (PEM) enables device-attest-01 with the "step" format for this provisioner.
	AttestationRoots []byte
	// ForceCN sets the provisioner's forceCN option (common name forced to the first DNS name).
	ForceCN bool
	// Tmpl, if set, is used verbatim as the configured provisioner (Name must equal Tmpl.Name).
	Tmpl *provisioner.ACME
	// Other, if set, is configured as it is (a provisioner of another type next to the ACME ones); not in Env.Provs.
	Other provisioner.Interface
}

type Env struct {
	Dir    string
	Auth   *authority.Authority
	NoSQL  nosql.DB
	RealDB *acmeNoSQL.DB
	DB     acme.DB // what the handlers see (RealDB or the caller's wrapper around it)
	Linker acme.Linker
	Client *FakeClient
	Router http.Handler
	Mux    *chi.Mux
	Provs  map[string]*provisioner.ACME
	Root   *x509.Certificate
	// ServedIP, if set, makes NewOrder/Issue ask for this IP identifier instead of a DNS name (the
	// environment of package acmeserved: the real validation client can only reach loopback).
	ServedIP string
	// Revoked, if set, answers IsRevoked (environments without an in-process authority).
	Revoked func(serial string) bool
	// Closer, if set, replaces Close.
	Closer func()
	// Legacy is the same API mounted the deprecated way: acme/api.NewHandler(HandlerOptions{DB, CA, DNS, Prefix,
	// PrerequisitesChecker}).Route — a middleware in front of every route puts the components into the request
	// context. UseLegacy sends Do/DoCT/DoCtx through it; Prereq is what its prerequisites checker answers:
	// 0 (true, nil) | 1 (false, nil) | 2 an error.
	Legacy    http.Handler
	UseLegacy bool
	Prereq    int
}

// IsRevoked asks the authority's database whether the serial number is revoked.
func (e *Env) IsRevoked(serial string) bool {
	if e.Revoked != nil {
		return e.Revoked(serial)
	}
	rv, _ := e.Auth.IsRevoked(serial)
	return rv
}

func NewFakeClient() *FakeClient { return &FakeClient{m: map[string]string{}} }

// Lookup returns what was registered for the path.
func (c *FakeClient) Lookup(path string) (string, bool) {
	c.mu.Lock()
	defer c.mu.Unlock()
	b, ok := c.m[path]
	return b, ok
}

// TmpBase and MkCA for sibling environments (package acmeserved).
func TmpBase() string                                                        { return tmpBase() }
func MkCA() (root, inter *x509.Certificate, signer crypto.Signer, err error) { return mkCA() }

// FakeClient answers the http-01 fetch with whatever was registered for the token path.
type FakeClient struct {
	mu sync.Mutex
	m  map[string]string // path -> body
}

func (c *FakeClient) Set(path, body string) {
	c.mu.Lock()
	defer c.mu.Unlock()
	c.m[path] = body
}

func (c *FakeClient) Get(u string) (*http.Response, error) {
	c.mu.Lock()
	defer c.mu.Unlock()
	i := strings.Index(u, "/.well-known/")
	if i < 0 {
		return nil, errors.New("fake client: unexpected url")
	}
	b, ok := c.m[u[i:]]
	if !ok {
		return &http.Response{StatusCode: 404, Body: io.NopCloser(strings.NewReader(""))}, nil
	}
	return &http.Response{StatusCode: 200, Body: io.NopCloser(strings.NewReader(b))}, nil
}
func (c *FakeClient) LookupTxt(string) ([]string, error) { return nil, errors.New("no dns") }
func (c *FakeClient) TLSDial(string, string, *tls.Config) (*tls.Conn, error) {
	return nil, errors.New("no tls")
}

func tmpBase() string {
	if st, err := os.Stat("/dev/shm"); err == nil && st.IsDir() {
		if f, err := os.CreateTemp("/dev/shm", "verif-probe"); err == nil {
			f.Close()
			os.Remove(f.Name())
			return "/dev/shm"
		}
	}
	return ""
}

func mkCA() (root, inter *x509.Certificate, signer crypto.Signer, err error) {
	rk, err := ecdsa.GenerateKey(elliptic.P256(), rand.Reader)
	if err != nil {
		return
	}
	ik, err := ecdsa.GenerateKey(elliptic.P256(), rand.Reader)
	if err != nil {
		return
	}
	now := time.Now().Add(-time.Hour)
	rt := &x509.Certificate{SerialNumber: big.NewInt(1), Subject: pkix.Name{CommonName: "verif root"},
		NotBefore: now, NotAfter: now.Add(240 * time.Hour), IsCA: true, BasicConstraintsValid: true,
		KeyUsage: x509.KeyUsageCertSign | x509.KeyUsageCRLSign, MaxPathLen: 1}
	rb, err := x509.CreateCertificate(rand.Reader, rt, rt, rk.Public(), rk)
	if err != nil {
		return
	}
	root, _ = x509.ParseCertificate(rb)
	it := &x509.Certificate{SerialNumber: big.NewInt(2), Subject: pkix.Name{CommonName: "verif intermediate"},
		NotBefore: now, NotAfter: now.Add(200 * time.Hour), IsCA: true, BasicConstraintsValid: true,
		KeyUsage: x509.KeyUsageCertSign | x509.KeyUsageCRLSign, MaxPathLenZero: true}
	ib, err := x509.CreateCertificate(rand.Reader, it, root, ik.Public(), rk)
	if err != nil {
		return
	}
	inter, _ = x509.ParseCertificate(ib)
	return root, inter, ik, nil
}

// New builds the stack. wrap (may be nil) lets the caller interpose on acme.DB.
func New(provs []ProvSpec, wrap func(acme.DB) acme.DB) (*Env, error) {
	return newEnv(provs, wrap, false)
}

// NewMigrated builds the stack the way a first start with remote management does: the provisioners
// are written in the configuration (ca.json form), `enableAdmin` is on and the admin database is
// empty, so authority.New migrates them (ProvisionerToLinkedca, admin DB) and from then on serves
// what it reads back (ProvisionerToCertificates). Env.Provs holds the provisioners AS SERVED.
func NewMigrated(provs []ProvSpec, wrap func(acme.DB) acme.DB) (*Env, error) {
	return newEnv(provs, wrap, true)
}

// Options for NewWith. WrapNoSQL interposes on the nosql handle the ACME store is built on (below
// acme/db/nosql: Get, CmpAndSwap, …); the authority keeps the handle as it is.
type Options struct {
	Wrap      func(acme.DB) acme.DB
	WrapNoSQL func(nosql.DB) nosql.DB
	Migrate   bool
}

func NewWith(provs []ProvSpec, o Options) (*Env, error) {
	return newEnvOpts(provs, o)
}

func newEnv(provs []ProvSpec, wrap func(acme.DB) acme.DB, migrate bool) (*Env, error) {
	return newEnvOpts(provs, Options{Wrap: wrap, Migrate: migrate})
}

func newEnvOpts(provs []ProvSpec, opt Options) (*Env, error) {
	wrap, migrate := opt.Wrap, opt.Migrate
	dir, err := os.MkdirTemp(tmpBase(), "verif-acme-")
	if err != nil {
		return nil, err
	}
	e := &Env{Dir: dir, Provs: map[string]*provisioner.ACME{}, Client: &FakeClient{m: map[string]string{}}}
	ok := false
	defer func() {
		if !ok {
			e.Close()
		}
	}()
	adb, err := db.New(&db.Config{Type: "bbolt", DataSource: dir + "/db"})
	if err != nil {
		return nil, err
	}
	root, inter, signer, err := mkCA()
	if err != nil {
		return nil, err
	}
	e.Root = root
	var plist provisioner.List
	for _, ps := range provs {
		if ps.Other != nil {
			plist = append(plist, ps.Other)
			continue
		}
		p := &provisioner.ACME{Type: "ACME", Name: ps.Name, ID: ps.ID, RequireEAB: ps.RequireEAB,
			Challenges: []provisioner.ACMEChallenge{provisioner.HTTP_01, provisioner.DEVICE_ATTEST_01}, ForceCN: ps.ForceCN}
		if ps.AttestationRoots != nil {
			p.AttestationRoots = ps.AttestationRoots
			p.AttestationFormats = []provisioner.ACMEAttestationFormat{provisioner.STEP}
		}
		if ps.Tmpl != nil {
			p = ps.Tmpl
		}
		e.Provs[ps.Name] = p
		plist = append(plist, p)
	}
	cfg := &config.Config{
		DNSNames:        []string{Host},
		AuthorityConfig: &config.AuthConfig{Provisioners: plist, EnableAdmin: migrate},
	}
	opts := []authority.Option{authority.WithConfig(cfg), authority.WithDatabase(adb),
		authority.WithX509RootCerts(root), authority.WithX509Signer(inter, signer), authority.WithQuietInit()}
	if migrate {
		opts = append(opts, authority.WithPassword([]byte("verif-first-provisioner")))
	}
	a, err := authority.NewEmbedded(opts...)
	if err != nil {
		return nil, err
	}
	e.Auth = a
	if migrate {
		// what the authority serves now comes from the admin database
		for name := range e.Provs {
			p, err := a.LoadProvisionerByName(name)
			if err != nil {
				return nil, err
			}
			ap, isACME := p.(*provisioner.ACME)
			if !isACME {
				return nil, errors.New("migrated provisioner is not an ACME provisioner")
			}
			e.Provs[name] = ap
		}
	}
	ndb, isNoSQL := a.GetDatabase().(nosql.DB)
	if !isNoSQL {
		return nil, errors.New("authority database is not a nosql.DB")
	}
	e.NoSQL = ndb
	below := ndb
	if opt.WrapNoSQL != nil {
		below = opt.WrapNoSQL(ndb)
	}
	e.RealDB, err = acmeNoSQL.New(below)
	if err != nil {
		return nil, err
	}
	e.DB = e.RealDB
	if wrap != nil {
		e.DB = wrap(e.RealDB)
	}
	e.Linker = acme.NewLinker(Host, "acme")
	base := authority.NewContext(context.Background(), a)
	base = acme.NewContext(base, e.DB, e.Client, e.Linker, nil)
	mux := chi.NewRouter()
	mux.Route("/acme", func(r chi.Router) { acmeAPI.Route(r) })
	e.Mux = mux
	lmux := chi.NewRouter()
	lmux.Route("/acme", func(r chi.Router) {
		acmeAPI.NewHandler(acmeAPI.HandlerOptions{DB: e.DB, CA: a, DNS: Host, Prefix: "acme",
			PrerequisitesChecker: func(context.Context) (bool, error) {
				switch e.Prereq {
				case 1:
					return false, nil
				case 2:
					return false, errors.New("prerequisites cannot be checked")
				}
				return true, nil
			}}).Route(r)
	})
	e.Legacy = lmux
	e.Router = http.HandlerFunc(func(w http.ResponseWriter, r *http.Request) {
		mux.ServeHTTP(w, r.WithContext(mergeCtx(r.Context(), base)))
	})
	ok = true
	return e, nil
}

// mergeCtx: request context values fall back to the base context (what http.Server.BaseContext does).
type merged struct {
	context.Context
	base context.Context
}

func (m merged) Value(k any) any {
	if v := m.Context.Value(k); v != nil {
		return v
	}
	return m.base.Value(k)
}
func mergeCtx(req, base context.Context) context.Context { return merged{req, base} }

func (e *Env) Close() {
	if e.Closer != nil {
		e.Closer()
		return
	}
	if e.Auth != nil {
		e.Auth.Shutdown()
	}
	os.RemoveAll(e.Dir)
}

// Path returns /acme/<prov>/<suffix...>.
func Path(prov string, parts ...string) string {
	return "/acme/" + prov + "/" + strings.Join(parts, "/")
}

// URL is the absolute URL the server compares the protected "url" header with.
func URL(path string) string { return "https://" + Host + path }

// Do sends one request through the real router; a handler panic is reported as status 599.
func (e *Env) Do(method, path string, body []byte) (rec *httptest.ResponseRecorder) {
	return e.DoCT(method, path, "application/jose+json", body)
}

func (e *Env) DoCT(method, path, ct string, body []byte) (rec *httptest.ResponseRecorder) {
	return e.DoCtx(context.Background(), method, path, ct, body)
}

// DoCtx is DoCT with values of ctx visible to the handlers (used to tag requests for schedule control).
func (e *Env) DoCtx(ctx context.Context, method, path, ct string, body []byte) (rec *httptest.ResponseRecorder) {
	rec = httptest.NewRecorder()
	req := httptest.NewRequest(method, "https://"+Host+path, bytes.NewReader(body)).WithContext(ctx)
	req.Host = Host
	if ct != "" {
		req.Header.Set("Content-Type", ct)
	}
	defer func() {
		if r := recover(); r != nil {
			rec = httptest.NewRecorder()
			rec.Code = 599
		}
	}()
	if e.UseLegacy && e.Legacy != nil {
		e.Legacy.ServeHTTP(rec, req)
		return rec
	}
	e.Router.ServeHTTP(rec, req)
	return rec
}

// Nonce fetches a fresh nonce through HEAD new-nonce of the given provisioner.
func (e *Env) Nonce(prov string) string {
	rec := e.Do("HEAD", Path(prov, "new-nonce"), nil)
	return rec.Header().Get("Replay-Nonce")
}

// NonceLive reads the real nonce table.
func (e *Env) NonceLive(n string) bool {
	_, err := e.NoSQL.Get([]byte("nonces"), []byte(n))
	return err == nil
}

// Class canonicalises a response: "<status>" for 2xx, otherwise "<status>:<acme problem type>".
func Class(rec *httptest.ResponseRecorder) string {
	if rec.Code == 599 {
		return "crash"
	}
	if rec.Code < 300 {
		return strconv.Itoa(rec.Code)
	}
	var p struct {
		Type string `json:"type"`
	}
	_ = json.Unmarshal(rec.Body.Bytes(), &p)
	t := p.Type
	if i := strings.LastIndex(t, ":"); i >= 0 {
		t = t[i+1:]
	}
	if t == "" {
		t = "?"
	}
	return strconv.Itoa(rec.Code) + ":" + t
}

// LastPathElem returns the last element of a URL (ids in Location headers).
func LastPathElem(u string) string {
	if i := strings.LastIndex(u, "/"); i >= 0 {
		return u[i+1:]
	}
	return u
}
