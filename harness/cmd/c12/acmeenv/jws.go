package acmeenv

import (
	"crypto"
	"crypto/ecdsa"
	"crypto/ed25519"
	"crypto/elliptic"
	"crypto/hmac"
	"crypto/rand"
	"crypto/rsa"
	"crypto/sha256"
	"crypto/sha512"
	"encoding/base64"
	"encoding/json"
	"errors"
	"hash"
	"math/big"
	"sync"

	"go.step.sm/crypto/jose"
)

// Key is a client key pair of one of the kinds the generator uses.
type Key struct {
	Kind string // es256 es384 es512 rsa2048 rsa1024 ed hmac
	Priv any
	Sym  []byte
}

var (
	rsaMu    sync.Mutex
	rsaCache = map[int][]*rsa.PrivateKey{}
)

// rsaKey hands out RSA keys from a small pool per size (generation is slow).
func rsaKey(bits, idx int) *rsa.PrivateKey {
	rsaMu.Lock()
	defer rsaMu.Unlock()
	for len(rsaCache[bits]) <= idx {
		k, err := rsa.GenerateKey(rand.Reader, bits)
		if err != nil {
			panic(err)
		}
		rsaCache[bits] = append(rsaCache[bits], k)
	}
	return rsaCache[bits][idx]
}

// NewKey generates a key; idx selects a pooled RSA key (ignored for other kinds).
func NewKey(kind string, idx int) *Key {
	switch kind {
	case "es256":
		k, _ := ecdsa.GenerateKey(elliptic.P256(), rand.Reader)
		return &Key{Kind: kind, Priv: k}
	case "es384":
		k, _ := ecdsa.GenerateKey(elliptic.P384(), rand.Reader)
		return &Key{Kind: kind, Priv: k}
	case "es512":
		k, _ := ecdsa.GenerateKey(elliptic.P521(), rand.Reader)
		return &Key{Kind: kind, Priv: k}
	case "rsa2048":
		return &Key{Kind: kind, Priv: rsaKey(2048, idx)}
	case "rsa1024":
		return &Key{Kind: kind, Priv: rsaKey(1024, idx)}
	case "ed":
		_, k, _ := ed25519.GenerateKey(rand.Reader)
		return &Key{Kind: kind, Priv: k}
	case "hmac":
		b := make([]byte, 32)
		rand.Read(b)
		return &Key{Kind: kind, Sym: b}
	}
	panic("unknown key kind " + kind)
}

// DefaultAlg is the natural JWS algorithm for the key.
func (k *Key) DefaultAlg() string {
	switch k.Kind {
	case "es256":
		return "ES256"
	case "es384":
		return "ES384"
	case "es512":
		return "ES512"
	case "rsa2048", "rsa1024":
		return "RS256"
	case "ed":
		return "EdDSA"
	}
	return "HS256"
}

// Public returns the public key (nil for hmac).
func (k *Key) Public() crypto.PublicKey {
	switch p := k.Priv.(type) {
	case *ecdsa.PrivateKey:
		return &p.PublicKey
	case *rsa.PrivateKey:
		return &p.PublicKey
	case ed25519.PrivateKey:
		return p.Public()
	}
	return nil
}

// JWK returns the public JWK (no kid, no alg).
func (k *Key) JWK() *jose.JSONWebKey {
	pub := k.Public()
	if pub == nil {
		return nil
	}
	return &jose.JSONWebKey{Key: pub}
}

// Thumb is the RFC 7638 SHA-256 thumbprint, base64url (acme.KeyToID).
func (k *Key) Thumb() string {
	t, err := k.JWK().Thumbprint(crypto.SHA256)
	if err != nil {
		return ""
	}
	return base64.RawURLEncoding.EncodeToString(t)
}

func hashFor(alg string) (crypto.Hash, func() hash.Hash) {
	switch alg {
	case "ES256", "RS256", "PS256", "HS256":
		return crypto.SHA256, sha256.New
	case "ES384", "RS384", "PS384", "HS384":
		return crypto.SHA384, sha512.New384
	default:
		return crypto.SHA512, sha512.New
	}
}

// SignRaw computes a JWS signature over input with the given algorithm name.
func (k *Key) SignRaw(alg string, input []byte) ([]byte, error) {
	ch, hf := hashFor(alg)
	h := hf()
	h.Write(input)
	digest := h.Sum(nil)
	switch alg {
	case "ES256", "ES384", "ES512":
		p, ok := k.Priv.(*ecdsa.PrivateKey)
		if !ok {
			return nil, errors.New("key/alg mismatch")
		}
		r, s, err := ecdsa.Sign(rand.Reader, p, digest)
		if err != nil {
			return nil, err
		}
		n := (p.Curve.Params().BitSize + 7) / 8
		out := make([]byte, 2*n)
		r.FillBytes(out[:n])
		s.FillBytes(out[n:])
		return out, nil
	case "RS256", "RS384", "RS512":
		p, ok := k.Priv.(*rsa.PrivateKey)
		if !ok {
			return nil, errors.New("key/alg mismatch")
		}
		return rsa.SignPKCS1v15(rand.Reader, p, ch, digest)
	case "PS256", "PS384", "PS512":
		p, ok := k.Priv.(*rsa.PrivateKey)
		if !ok {
			return nil, errors.New("key/alg mismatch")
		}
		return rsa.SignPSS(rand.Reader, p, ch, digest, &rsa.PSSOptions{SaltLength: rsa.PSSSaltLengthEqualsHash})
	case "EdDSA":
		p, ok := k.Priv.(ed25519.PrivateKey)
		if !ok {
			return nil, errors.New("key/alg mismatch")
		}
		return ed25519.Sign(p, input), nil
	case "HS256", "HS384", "HS512":
		if k.Sym == nil {
			return nil, errors.New("key/alg mismatch")
		}
		m := hmac.New(hf, k.Sym)
		m.Write(input)
		return m.Sum(nil), nil
	}
	return nil, errors.New("unsupported alg")
}

// signECDSAShaped signs with a textbook ECDSA implementation (crypto/elliptic + math/big) so that the
// leading byte of R and of S can be chosen: zeroR / zeroS = that byte must be 0 (otherwise it must be
// non-zero). R is steered by drawing the per-signature secret k, S by varying an ignorable protected
// header member "vpad" (each try costs one hash and one modular multiplication). Only for
// alg/curve pairs whose hash length fits the curve (ES256/P-256, ES384/P-384, ES512/P-521).
func signECDSAShaped(p *ecdsa.PrivateKey, alg string, prot map[string]any, payload []byte, zeroR, zeroS bool) (protJSON []byte, sig []byte, ok bool) {
	curve := p.Curve
	want := map[string]int{"ES256": 256, "ES384": 384, "ES512": 521}[alg]
	if want == 0 || curve.Params().BitSize != want {
		return nil, nil, false
	}
	n := curve.Params().N
	size := (curve.Params().BitSize + 7) / 8
	_, hf := hashFor(alg)
	var k, r *big.Int
	rb := make([]byte, size)
	for try := 0; ; try++ {
		if try > 100000 {
			return nil, nil, false
		}
		kk, err := rand.Int(rand.Reader, new(big.Int).Sub(n, big.NewInt(1)))
		if err != nil {
			return nil, nil, false
		}
		kk.Add(kk, big.NewInt(1))
		x, _ := curve.ScalarBaseMult(kk.Bytes())
		rr := new(big.Int).Mod(x, n)
		if rr.Sign() == 0 {
			continue
		}
		rr.FillBytes(rb)
		if (rb[0] == 0) == zeroR {
			k, r = kk, rr
			break
		}
	}
	kinv := new(big.Int).ModInverse(k, n)
	rd := new(big.Int).Mul(r, p.D)
	sb := make([]byte, size)
	cp := map[string]any{}
	for key, v := range prot {
		cp[key] = v
	}
	for ctr := 0; ctr < 400000; ctr++ {
		cp["vpad"] = ctr
		pj, err := json.Marshal(cp)
		if err != nil {
			return nil, nil, false
		}
		h := hf()
		h.Write([]byte(b64(pj) + "." + b64(payload)))
		z := new(big.Int).SetBytes(h.Sum(nil)) // hash length <= curve size for the pairs admitted above
		s := new(big.Int).Add(z, rd)
		s.Mul(s, kinv).Mod(s, n)
		if s.Sign() == 0 {
			continue
		}
		s.FillBytes(sb)
		if (sb[0] == 0) == zeroS {
			out := make([]byte, 2*size)
			copy(out, rb)
			copy(out[size:], sb)
			return pj, out, true
		}
	}
	return nil, nil, false
}

// Shape describes a JWS exactly as it will appear on the wire.
type Shape struct {
	Ser       string         // flat | general | compact
	Protected map[string]any // protected header members (alg, nonce, url, jwk, kid, ...)
	Payload   []byte
	Detached  bool           // omit the payload member (flat/general) / empty middle part (compact)
	Unprot    map[string]any // unprotected header of the first signature (flat/general only)
	NSigs     int            // 0, 1 or 2 (0 and 2 only in general serialisation)
	SignAlg   string         // algorithm used to compute the signature ("" = Protected["alg"]); "-" = empty signature
	SignKey   *Key
	Alter     bool // change the payload after signing
	Trunc     int  // ES only. 0 none; 1 drop R[0] (made 0); 2 drop S[0] (made 0); 3 both (made 0); 4 drop R[0] (made non-zero); 5 drop three bytes
	BadSig    bool // flip a bit in the signature
}

func b64(b []byte) string { return base64.RawURLEncoding.EncodeToString(b) }

// Build serialises the shape.
func (s *Shape) Build() (body []byte, ok bool) {
	prot, err := json.Marshal(s.Protected)
	if err != nil {
		return nil, false
	}
	pl := s.Payload
	input := []byte(b64(prot) + "." + b64(pl))
	alg := s.SignAlg
	if alg == "" {
		alg, _ = s.Protected["alg"].(string)
	}
	var sig []byte
	if alg != "-" && s.SignKey != nil {
		sig, err = s.SignKey.SignRaw(alg, input)
		if err != nil {
			sig = []byte("not-a-signature")
		} else if s.Trunc != 0 && len(sig) >= 8 {
			half := len(sig) / 2
			// modes 1..3 need a signature whose dropped byte(s) are zero, so that the server's
			// padding retry succeeds; mode 4 needs a non-zero first byte, so that it fails. Both
			// are produced deterministically by signECDSAShaped (no bounded random search).
			if ep, isEC := s.SignKey.Priv.(*ecdsa.PrivateKey); isEC {
				zr := s.Trunc == 1 || s.Trunc == 3
				zs := s.Trunc == 2 || s.Trunc == 3
				if pj, shaped, ok := signECDSAShaped(ep, alg, s.Protected, pl, zr, zs); ok {
					prot, sig = pj, shaped
					input = []byte(b64(prot) + "." + b64(pl))
				}
			}
			switch s.Trunc {
			case 1, 4:
				sig = append([]byte{}, sig[1:]...)
			case 2:
				sig = append(append([]byte{}, sig[:half]...), sig[half+1:]...)
			case 3:
				sig = append(append([]byte{}, sig[1:half]...), sig[half+1:]...)
			default:
				sig = append([]byte{}, sig[3:]...)
			}
		}
	}
	_ = input
	if s.BadSig && len(sig) > 0 {
		sig = append([]byte{}, sig...)
		sig[len(sig)/2] ^= 0x10
	}
	if s.Alter {
		pl = append(append([]byte{}, pl...), ' ')
	}
	switch s.Ser {
	case "compact":
		mid := b64(pl)
		if s.Detached {
			mid = ""
		}
		return []byte(b64(prot) + "." + mid + "." + b64(sig)), true
	case "general":
		sigs := []map[string]any{}
		for i := 0; i < s.NSigs; i++ {
			m := map[string]any{"protected": b64(prot), "signature": b64(sig)}
			if i == 0 && s.Unprot != nil {
				m["header"] = s.Unprot
			}
			sigs = append(sigs, m)
		}
		obj := map[string]any{"signatures": sigs}
		if !s.Detached {
			obj["payload"] = b64(pl)
		}
		out, _ := json.Marshal(obj)
		return out, true
	default:
		obj := map[string]any{"protected": b64(prot), "signature": b64(sig)}
		if !s.Detached {
			obj["payload"] = b64(pl)
		}
		if s.Unprot != nil {
			obj["header"] = s.Unprot
		}
		out, _ := json.Marshal(obj)
		return out, true
	}
}

// JWKMap renders a public JWK as a JSON object for embedding in a protected header.
func JWKMap(k *jose.JSONWebKey) map[string]any {
	b, err := k.MarshalJSON()
	if err != nil {
		return nil
	}
	var m map[string]any
	json.Unmarshal(b, &m)
	return m
}

// VerifyBits reports, using the same library the server calls (go-jose through go.step.sm/crypto/jose),
// whether the body parses, and whether its signature verifies under key as is / after left-padding R,
// S, or both by one zero byte (the candidates of retryVerificationWithPatchedSignatures).
type VerifyBits struct {
	Parsed             bool
	Ver0               bool
	PadR, PadS, PadRS  bool
	SigLen             int
	PayloadLen         int
	PayloadIsEmptyJSON bool
}

func verifyWith(j *jose.JSONWebSignature, sig []byte, key any) bool {
	c := *j
	c.Signatures = append([]jose.Signature{}, j.Signatures...)
	c.Signatures[0].Signature = sig
	_, err := c.Verify(key)
	return err == nil
}

func Verify(body []byte, key any) VerifyBits {
	var v VerifyBits
	j, err := jose.ParseJWS(string(body))
	if err != nil || j == nil {
		return v
	}
	v.Parsed = true
	if len(j.Signatures) != 1 || key == nil {
		return v
	}
	sig := j.Signatures[0].Signature
	v.SigLen = len(sig)
	pl, err := j.Verify(key)
	v.Ver0 = err == nil
	if err == nil {
		v.PayloadLen = len(pl)
		v.PayloadIsEmptyJSON = string(pl) == "{}"
	} else {
		pl = j.UnsafePayloadWithoutVerification()
		v.PayloadLen = len(pl)
		v.PayloadIsEmptyJSON = string(pl) == "{}"
	}
	exp := 0
	switch j.Signatures[0].Protected.Algorithm {
	case "ES256":
		exp = 64
	case "ES384":
		exp = 96
	case "ES512":
		exp = 132
	}
	if exp == 0 || v.Ver0 {
		return v
	}
	half := exp / 2
	switch exp - len(sig) {
	case 1:
		r := make([]byte, exp)
		copy(r[1:], sig)
		v.PadR = verifyWith(j, r, key)
		s := make([]byte, exp)
		copy(s, sig[:half])
		copy(s[half+1:], sig[half:])
		v.PadS = verifyWith(j, s, key)
	case 2:
		rs := make([]byte, exp)
		copy(rs[1:], sig[:half-1])
		copy(rs[half+1:], sig[half-1:])
		v.PadRS = verifyWith(j, rs, key)
	}
	return v
}
