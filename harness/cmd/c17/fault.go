package main

// Fault layer of the C17 harness: one Recorder numbers every external call a request makes
// (nosql database operations and webhook HTTP attempts, in the order the request performs
// them) and decides, per position, whether the call is answered normally or with a fault.
//
//   * database: the *db.DB the authority uses keeps all its methods; only its embedded
//     nosql.DB is replaced by faultDB, so db.go's own code (transactions, CmpAndSwap) runs.
//   * webhooks: the authority's webhook http.Client gets faultTransport; the endpoints are
//     real httptest servers. A fault is carried to the server in a header (deny, 4xx, 5xx,
//     garbage, hang) or realised by dialling a closed local port (refused).

import (
	"bytes"
	"context"
	"crypto/hmac"
	"crypto/sha256"
	"encoding/base64"
	"encoding/hex"
	"errors"
	"fmt"
	"io"
	"net"
	"net/http"
	"net/http/httptest"
	"strconv"
	"strings"
	"sync"
	"syscall"
	"time"

	"github.com/smallstep/nosql"
	"github.com/smallstep/nosql/database"

	"github.com/smallstep/certificates/cas/apiv1"
	"github.com/smallstep/certificates/cas/softcas"
)

// Fault kinds on the line protocol (the model's Outcome): error, timeout, deny, malformed.
// Sub selects the realisation where several exist (webhook error: "5xx" | "refused" | "eof" | "tls" (certificate of the endpoint not trusted)
// (connection closed without an answer); webhook deny: "deny" | "null" | "emptyobj";
// webhook malformed: "garbage" | "4xx" | "empty" (200 without body) | "truncated" | "wrongtype").
type Fault struct {
	Pos  int
	Kind string
	Sub  string `json:",omitempty"`
}

type Recorder struct {
	mu     sync.Mutex
	on     bool
	pos    int
	faults map[int]Fault
	events []string
	ids    []string // per event: which webhook endpoint it went to ("" for other calls)
}

func (r *Recorder) start(fs []Fault) {
	r.mu.Lock()
	defer r.mu.Unlock()
	r.on, r.pos, r.events, r.ids = true, 0, nil, nil
	r.faults = map[int]Fault{}
	for _, f := range fs {
		r.faults[f.Pos] = f
	}
}

func (r *Recorder) stop() []string {
	r.mu.Lock()
	defer r.mu.Unlock()
	r.on = false
	ev := r.events
	r.events = nil
	return ev
}

// next hands out the position of an external call; active=false while recording is off.
func (r *Recorder) next() (idx int, f Fault, active bool) {
	r.mu.Lock()
	defer r.mu.Unlock()
	if !r.on {
		return 0, Fault{}, false
	}
	idx = r.pos
	r.pos++
	return idx, r.faults[idx], true
}

func (r *Recorder) log(kind, outcome string, id ...string) {
	r.mu.Lock()
	defer r.mu.Unlock()
	if r.on {
		r.events = append(r.events, kind+":"+outcome)
		if len(id) > 0 {
			r.ids = append(r.ids, id[0])
		} else {
			r.ids = append(r.ids, "")
		}
	}
}

// endpoints returns, for the events of the last recording, the webhook endpoint of each.
func (r *Recorder) endpoints() []string {
	r.mu.Lock()
	defer r.mu.Unlock()
	return append([]string(nil), r.ids...)
}

// ---------------------------------------------------------------------------- database

var errInjected = errors.New("verif: injected storage failure")

// stepKind maps a nosql call to the model's step kind; anything the model does not know is
// reported verbatim, so a new database call in the request path shows up as a disagreement.
func stepKind(op string, bucket []byte) string {
	b := string(bucket)
	switch {
	case op == "cas" && b == "used_ott":
		return "useToken"
	case op == "get" && (b == "revoked_x509_certs" || b == "revoked_ssh_certs"):
		return "isRevoked"
	case op == "get" && b == "x509_certs":
		return "readCert"
	case op == "get" && b == "x509_certs_data":
		return "readData"
	case op == "cas" && (b == "revoked_x509_certs" || b == "revoked_ssh_certs"):
		return "storeRev"
	case (op == "update" || op == "set") && (b == "x509_certs" || b == "ssh_certs"):
		return "store"
	case op == "get" && b == "x509_crl":
		return "crlRead"
	case op == "list" && b == "revoked_x509_certs":
		return "crlList"
	case op == "set" && b == "x509_crl":
		return "crlStore"
	case op == "cas" && b == "nonces":
		return "acmeNonceNew"
	case op == "update" && b == "nonces":
		return "acmeNonceUse"
	case op == "get" && strings.HasPrefix(b, "acme_"):
		return "acmeRead"
	case op == "cas" && b == "acme_certs":
		return "acmeStoreCert"
	case op == "cas" && b == "acme_serial_certs_index":
		return "acmeIndex"
	case op == "cas" && b == "acme_authzs":
		return "acmeAuthzUpdate"
	case op == "cas" && b == "acme_orders":
		return "acmeUpdateOrder" // (the order → ready write of a pending order is told apart below)
	}
	return "unknown-" + op + "-" + b
}

type faultDB struct {
	nosql.DB
	rec *Recorder
}

var garbage = []byte("\x00verif-garbage\xff")

func (d *faultDB) Get(bucket, key []byte) ([]byte, error) {
	_, f, active := d.rec.next()
	if !active {
		return d.DB.Get(bucket, key)
	}
	k := stepKind("get", bucket)
	switch f.Kind {
	case "error":
		d.rec.log(k, "error")
		return nil, errInjected
	case "timeout":
		d.DB.Get(bucket, key)
		d.rec.log(k, "timeout")
		return nil, errInjected
	case "deny", "malformed": // a value is present (deny: "found"), or present and undecodable
		d.rec.log(k, f.Kind)
		return garbage, nil
	}
	d.rec.log(k, "ok")
	return d.DB.Get(bucket, key)
}

func (d *faultDB) Set(bucket, key, value []byte) error {
	_, f, active := d.rec.next()
	if !active {
		return d.DB.Set(bucket, key, value)
	}
	k := stepKind("set", bucket)
	switch f.Kind {
	case "":
		d.rec.log(k, "ok")
		return d.DB.Set(bucket, key, value)
	case "timeout": // applied, acknowledgement lost
		d.DB.Set(bucket, key, value)
		d.rec.log(k, "timeout")
		return errInjected
	}
	d.rec.log(k, f.Kind)
	return errInjected
}

func (d *faultDB) CmpAndSwap(bucket, key, old, newv []byte) ([]byte, bool, error) {
	_, f, active := d.rec.next()
	if !active {
		return d.DB.CmpAndSwap(bucket, key, old, newv)
	}
	k := stepKind("cas", bucket)
	if k == "acmeUpdateOrder" && bytes.Contains(newv, []byte(`"status":"ready"`)) {
		k = "acmeOrderReady" // Order.UpdateStatus of a pending order, not the final write
	}
	switch f.Kind {
	case "":
		d.rec.log(k, "ok")
		return d.DB.CmpAndSwap(bucket, key, old, newv)
	case "timeout":
		d.DB.CmpAndSwap(bucket, key, old, newv)
		d.rec.log(k, "timeout")
		return nil, false, errInjected
	case "deny": // not swapped: somebody else's value is there
		d.rec.log(k, "deny")
		return []byte("other"), false, nil
	}
	d.rec.log(k, f.Kind)
	return nil, false, errInjected
}

func (d *faultDB) Update(tx *database.Tx) error {
	_, f, active := d.rec.next()
	if !active {
		return d.DB.Update(tx)
	}
	k := "unknown-update-empty"
	if len(tx.Operations) > 0 {
		k = stepKind("update", tx.Operations[0].Bucket)
	}
	switch f.Kind {
	case "":
		d.rec.log(k, "ok")
		return d.DB.Update(tx)
	case "timeout":
		d.DB.Update(tx)
		d.rec.log(k, "timeout")
		return errInjected
	}
	d.rec.log(k, f.Kind)
	return errInjected
}

func (d *faultDB) Del(bucket, key []byte) error {
	_, f, active := d.rec.next()
	if !active {
		return d.DB.Del(bucket, key)
	}
	k := stepKind("del", bucket)
	if f.Kind != "" {
		d.rec.log(k, f.Kind)
		return errInjected
	}
	d.rec.log(k, "ok")
	return d.DB.Del(bucket, key)
}

func (d *faultDB) List(bucket []byte) ([]*database.Entry, error) {
	_, f, active := d.rec.next()
	if !active {
		return d.DB.List(bucket)
	}
	k := stepKind("list", bucket)
	if f.Kind != "" {
		d.rec.log(k, f.Kind)
		return nil, errInjected
	}
	d.rec.log(k, "ok")
	return d.DB.List(bucket)
}

// count lists a table behind the recorder's back.
func (d *faultDB) count(table string) int {
	es, err := d.DB.List([]byte(table))
	if err != nil {
		return -1
	}
	return len(es)
}

// ---------------------------------------------------------------------------- webhooks

const faultHeader = "X-Verif-Fault"

// webhookServer answers allow unless the fault header asks otherwise.
// webhookServer answers like a careful webhook: it checks the request signature (HMAC-SHA256 of
// the body under the webhook's secret, X-Smallstep-Signature) when it knows the secret, and the
// Authorization header when one is expected; a request that fails these checks gets a 401.
func webhookServer(secretB64, wantAuth string) *httptest.Server {
	secret, secretErr := base64.StdEncoding.DecodeString(secretB64)
	return httptest.NewServer(http.HandlerFunc(func(w http.ResponseWriter, r *http.Request) {
		body, _ := io.ReadAll(r.Body)
		if secretB64 != "" && secretErr == nil {
			mac := hmac.New(sha256.New, secret)
			mac.Write(body)
			if sig, err := hex.DecodeString(r.Header.Get("X-Smallstep-Signature")); err != nil || !hmac.Equal(sig, mac.Sum(nil)) {
				w.WriteHeader(http.StatusUnauthorized)
				return
			}
		}
		if wantAuth != "" && r.Header.Get("Authorization") != wantAuth {
			w.WriteHeader(http.StatusUnauthorized)
			return
		}
		switch r.Header.Get(faultHeader) {
		case "deny":
			w.Write([]byte(`{"allow":false}`))
		case "4xx":
			w.WriteHeader(http.StatusForbidden)
			w.Write([]byte(`{"allow":true}`))
		case "5xx":
			w.WriteHeader(http.StatusInternalServerError)
			w.Write([]byte(`{"allow":true}`))
		case "garbage":
			w.Write([]byte(`<<< not json`))
		case "empty": // 200 without a body
			w.WriteHeader(http.StatusOK)
		case "truncated":
			w.Write([]byte(`{"allow":tr`))
		case "wrongtype":
			w.Write([]byte(`{"allow":"yes"}`))
		case "null":
			w.Write([]byte(`null`))
		case "emptyobj":
			w.Write([]byte(`{}`))
		case "eof": // take the request, close the connection without answering
			if hj, ok := w.(http.Hijacker); ok {
				if conn, _, err := hj.Hijack(); err == nil {
					conn.Close()
					return
				}
			}
			w.WriteHeader(http.StatusInternalServerError)
		case "hang":
			select {
			case <-r.Context().Done():
			case <-time.After(3 * time.Second):
			}
		default:
			w.Write([]byte(`{"allow":true,"data":{"role":"verif"}}`))
		}
	}))
}

// closedAddr returns a local TCP address that refuses connections for as long as release is
// not called: the port is bound (so no other listener of this process or another can take
// it while cases run in parallel) but never put into the listening state.
func closedAddr() (addr string, release func()) {
	fd, err := syscall.Socket(syscall.AF_INET, syscall.SOCK_STREAM, 0)
	if err != nil {
		return "127.0.0.1:1", func() {}
	}
	if err := syscall.Bind(fd, &syscall.SockaddrInet4{Port: 0, Addr: [4]byte{127, 0, 0, 1}}); err != nil {
		syscall.Close(fd)
		return "127.0.0.1:1", func() {}
	}
	sa, err := syscall.Getsockname(fd)
	if err != nil {
		syscall.Close(fd)
		return "127.0.0.1:1", func() {}
	}
	port := sa.(*syscall.SockaddrInet4).Port
	return net.JoinHostPort("127.0.0.1", strconv.Itoa(port)), func() { syscall.Close(fd) }
}

type faultTransport struct {
	rec    *Recorder
	base   http.RoundTripper
	closed string
	// untrusted is the address of an https server whose certificate chain is unknown to the
	// client ("tls": the handshake fails with an x509 error)
	untrusted string
	// denyAll: a standing condition rather than a fault at a position — every enriching and
	// authorizing webhook of the provisioner answers allow=false, whenever it is asked
	denyAll  bool
	denyKind string // "" = both kinds, else only this one
}

func (t *faultTransport) RoundTrip(req *http.Request) (*http.Response, error) {
	_, f, active := t.rec.next()
	if !active {
		return t.base.RoundTrip(req)
	}
	kind := "unknown-webhook"
	switch {
	case strings.HasPrefix(req.URL.Path, "/enrich"):
		kind = "enrich"
	case strings.HasPrefix(req.URL.Path, "/authorize"):
		kind = "authorize"
	case strings.HasPrefix(req.URL.Path, "/challenge"):
		kind = "challenge"
	case strings.HasPrefix(req.URL.Path, "/notify"):
		kind = "notify"
	}
	req = req.Clone(req.Context())
	if f.Kind == "" && t.denyAll && (kind == "enrich" || kind == "authorize") && (t.denyKind == "" || t.denyKind == kind) {
		f = Fault{Kind: "deny", Sub: "deny"}
	}
	switch f.Kind {
	case "":
		t.rec.log(kind, "ok", req.URL.Path)
	case "error":
		t.rec.log(kind, "error", req.URL.Path)
		switch f.Sub {
		case "refused":
			req.URL.Host = t.closed
			req.Host = t.closed
		case "eof":
			req.Header.Set(faultHeader, "eof")
		case "tls":
			if t.untrusted != "" {
				req.URL.Scheme, req.URL.Host, req.Host = "https", t.untrusted, t.untrusted
			} else {
				req.Header.Set(faultHeader, "5xx")
			}
		default:
			req.Header.Set(faultHeader, "5xx")
		}
	case "deny":
		t.rec.log(kind, "deny", req.URL.Path)
		switch f.Sub {
		case "null", "emptyobj": // a decodable answer that does not say allow
			req.Header.Set(faultHeader, f.Sub)
		default:
			req.Header.Set(faultHeader, "deny")
		}
	case "malformed": // not a usable answer: an undecodable body, or an error status below 500
		t.rec.log(kind, "malformed", req.URL.Path)
		switch f.Sub {
		case "4xx", "empty", "truncated", "wrongtype":
			req.Header.Set(faultHeader, f.Sub)
		default:
			req.Header.Set(faultHeader, "garbage")
		}
	case "timeout":
		// the server does not answer; the deadline is put on this request only (the way the
		// controller's own per-webhook context deadline fires), so that no verdict of a
		// normally answered call depends on the wall clock of a loaded machine
		t.rec.log(kind, "timeout", req.URL.Path)
		req.Header.Set(faultHeader, "hang")
		ctx, cancel := context.WithTimeout(req.Context(), 150*time.Millisecond)
		defer cancel()
		resp, err := t.base.RoundTrip(req.WithContext(ctx))
		if err == nil { // cannot happen with a hanging server; do not leak the body
			resp.Body.Close()
			return nil, context.DeadlineExceeded
		}
		if ctx.Err() != nil {
			return nil, context.DeadlineExceeded
		}
		return nil, err
	default:
		return nil, fmt.Errorf("verif: unknown fault kind %q", f.Kind)
	}
	return t.base.RoundTrip(req)
}

// ---------------------------------------------------------------------------- CAS

// faultCAS is the certificate authority service the authority signs with: the in-process
// SoftCAS (built from the fixture's intermediate and signer exactly as WithX509Signer does),
// with the recorder in front of the calls a request makes.
type faultCAS struct {
	*softcas.SoftCAS
	rec *Recorder
}

var errCAS = errors.New("verif: injected CAS failure")

func casCall[T any](c *faultCAS, kind string, inner func() (T, error)) (T, error) {
	var zero T
	_, f, active := c.rec.next()
	if !active {
		return inner()
	}
	switch f.Kind {
	case "":
		c.rec.log(kind, "ok")
		return inner()
	case "timeout": // signed / revoked at the CAS, answer lost
		inner()
		c.rec.log(kind, "timeout")
		return zero, errCAS
	}
	c.rec.log(kind, f.Kind)
	return zero, errCAS
}

func (c *faultCAS) CreateCertificate(req *apiv1.CreateCertificateRequest) (*apiv1.CreateCertificateResponse, error) {
	return casCall(c, "casSign", func() (*apiv1.CreateCertificateResponse, error) { return c.SoftCAS.CreateCertificate(req) })
}

func (c *faultCAS) RenewCertificate(req *apiv1.RenewCertificateRequest) (*apiv1.RenewCertificateResponse, error) {
	return casCall(c, "casSign", func() (*apiv1.RenewCertificateResponse, error) { return c.SoftCAS.RenewCertificate(req) })
}

func (c *faultCAS) RevokeCertificate(req *apiv1.RevokeCertificateRequest) (*apiv1.RevokeCertificateResponse, error) {
	return casCall(c, "casRevoke", func() (*apiv1.RevokeCertificateResponse, error) { return c.SoftCAS.RevokeCertificate(req) })
}

func (c *faultCAS) CreateCRL(req *apiv1.CreateCRLRequest) (*apiv1.CreateCRLResponse, error) {
	return casCall(c, "casCRL", func() (*apiv1.CreateCRLResponse, error) { return c.SoftCAS.CreateCRL(req) })
}
