package main

func srcOrder(fn string) string { return "todo" }
