package main

// Source-order extraction (go/ast over $VERIF_REPO): for each anchored function, the order
// in which it makes the calls the model knows as steps, how the error of each call is
// treated, and where the function returns success.  The result is compared by the Lean
// driver with the step lists of the model, so reordering calls, dropping an error check or
// adding an early success return in the source breaks the correspondence.
//
// Tokens:  <step>!   the call's error leads to `return …, err` (first result nil) before
//                    anything else happens
//          <step>!~  same, but db.ErrNotImplemented is let through
//          <step>?   the error is ignored (assigned to _, or only the err == nil branch is used)
//          <step>#…  anything else (unrecognised shape: fails the comparison)
//          ret       a success return (last result is the literal nil)
//
// `DoWithContext` is not parsed but executed: the real webhook client runs against a local
// server for every pair (answer to the first attempt, answer to the second attempt).

import (
	"context"
	"fmt"
	"go/ast"
	"go/parser"
	"go/token"
	"net/http"
	"os"
	"path/filepath"
	"sort"
	"strings"
	"sync"
	"time"

	"github.com/smallstep/certificates/authority/provisioner"
	"github.com/smallstep/certificates/webhook"
)

type fnSpec struct {
	file  string
	recv  string            // receiver type name ("" = any)
	watch map[string]string // callee name → step token, or "@name" = inline that function here
}

var specs = map[string]fnSpec{
	"authorizeToken": {"authority/authorize.go", "Authority", map[string]string{"UseToken": "@UseToken"}},
	"UseToken":       {"authority/authorize.go", "Authority", map[string]string{"UseToken": "useToken"}},
	"authorizeSign":  {"authority/authorize.go", "Authority", map[string]string{"authorizeToken": "@authorizeToken", "AuthorizeSign": "check"}},
	"authorizeRenew": {"authority/authorize.go", "Authority", map[string]string{"IsRevoked": "isRevoked",
		"LoadProvisionerByCertificate": "@LoadProvisionerByCertificate", "AuthorizeRenew": "check"}},
	"LoadProvisionerByCertificate": {"authority/provisioners.go", "Authority", map[string]string{"unsafeLoadProvisionerFromDatabase": "readData"}},
	"signX509": {"authority/tls.go", "Authority", map[string]string{"Valid": "check", "callEnrichingWebhooksX509": "enrich",
		"isAllowedToSignX509Certificate": "check", "callAuthorizingWebhooksX509": "authorize", "CreateCertificate": "casSign",
		"storeCertificate": "store"}},
	"renewContext": {"authority/tls.go", "Authority", map[string]string{"authorizeRenew": "@authorizeRenew", "ValidateCertificate": "check",
		"RenewCertificate": "casSign", "storeRenewedCertificate": "@StoreRenewedCertificate"}},
	"StoreRenewedCertificate": {"db/db.go", "DB", map[string]string{"GetCertificateData": "readData", "Update": "store"}},
	"Revoke": {"authority/tls.go", "Authority", map[string]string{"GetCertificate": "readCert", "LoadProvisionerByToken": "check",
		"LoadProvisionerByCertificate": "@LoadProvisionerByCertificate", "revokeSSH": "storeRev", "RevokeCertificate": "casRevoke", "revoke": "storeRev"}},
	"signSSH": {"authority/ssh.go", "Authority", map[string]string{"Valid": "check", "callEnrichingWebhooksSSH": "enrich",
		"isAllowedToSignSSHCertificate": "check", "callAuthorizingWebhooksSSH": "authorize", "CreateCertificate": "sshSign",
		"storeSSHCertificate": "store"}},
	"SignSSHAddUser": {"authority/ssh.go", "Authority", map[string]string{"IsValidForAddUser": "check", "Sign": "sshSign",
		"storeRenewedSSHCertificate": "store"}},
	"renewSSH": {"authority/ssh.go", "Authority", map[string]string{"authorizeSSHCertificate": "isRevoked", "CreateCertificate": "sshSign",
		"storeRenewedSSHCertificate": "store"}},
	"rekeySSH": {"authority/ssh.go", "Authority", map[string]string{"authorizeSSHCertificate": "isRevoked", "CreateCertificate": "sshSign",
		"Valid": "check", "storeRenewedSSHCertificate": "store"}},
	"FinalizeOrder": {"acme/api/order.go", "", map[string]string{"accountFromContext": "check", "provisionerFromContext": "check",
		"payloadFromContext": "check", "Unmarshal": "check", "Validate": "check", "GetOrder": "acmeRead", "Finalize": "finalize"}},
	"PKIOperation": {"scep/api/api.go", "", map[string]string{"ParsePKIMessage": "check", "Parse": "check", "DecryptPKIEnvelope": "check",
		"ValidateChallenge": "validate", "SignCSR": "signCSR", "NotifyFailure": "notify", "NotifySuccess": "notify"}},
	"SignCSR": {"scep/authority.go", "Authority", map[string]string{"DecryptPKIEnvelope": "check", "AuthorizeSign": "check",
		"TemplateOptions": "check", "SignWithContext": "sign", "DegenerateCertificates": "check", "encrypt": "check",
		"NewSignedData": "check", "selectSigner": "check", "AddSigner": "check", "Finish": "check"}},
	"Validate": {"authority/provisioner/scep.go", "challengeValidationController", map[string]string{"NewRequestBody": "check", "DoWithContext": "challenge"}},
	"Finalize": {"acme/order.go", "Order", map[string]string{"UpdateStatus": "status", "getAuthorizationFingerprint": "acmeRead",
		"AuthorizeSign": "check", "SignWithContext": "sign", "CreateCertificate": "acmeStoreCert", "UpdateOrder": "acmeUpdateOrder"}},
}

func repoRoot() string {
	if r := os.Getenv("VERIF_REPO"); r != "" {
		return r
	}
	return "/repo"
}

func calleeName(c *ast.CallExpr) string {
	switch f := c.Fun.(type) {
	case *ast.SelectorExpr:
		return f.Sel.Name
	case *ast.Ident:
		return f.Name
	}
	return ""
}

func isIdent(e ast.Expr, name string) bool {
	id, ok := e.(*ast.Ident)
	return ok && id.Name == name
}

// mentions reports whether expression e contains the binary comparison `err <op> nil`.
func errCmp(e ast.Expr, op token.Token) bool {
	found := false
	ast.Inspect(e, func(n ast.Node) bool {
		if b, ok := n.(*ast.BinaryExpr); ok && b.Op == op && isIdent(b.Y, "nil") {
			if id, ok := b.X.(*ast.Ident); ok && strings.HasSuffix(strings.ToLower(id.Name), "err") {
				found = true
			}
		}
		return true
	})
	return found
}

func mentionsNotImplemented(e ast.Expr) bool {
	found := false
	ast.Inspect(e, func(n ast.Node) bool {
		if s, ok := n.(*ast.SelectorExpr); ok && s.Sel.Name == "ErrNotImplemented" {
			found = true
		}
		return true
	})
	return found
}

// guardOf classifies an `if` that tests the error of a watched call.
// isZero: the literal nil or an empty composite literal (Response{}).
func isZero(e ast.Expr) bool {
	if isIdent(e, "nil") {
		return true
	}
	cl, ok := e.(*ast.CompositeLit)
	return ok && len(cl.Elts) == 0
}

func hasReturn(b *ast.BlockStmt) bool {
	found := false
	ast.Inspect(b, func(n ast.Node) bool {
		if _, ok := n.(*ast.FuncLit); ok {
			return false
		}
		if _, ok := n.(*ast.ReturnStmt); ok {
			found = true
		}
		return true
	})
	return found
}

func callsRenderError(b *ast.BlockStmt) bool {
	for _, st := range b.List {
		if es, ok := st.(*ast.ExprStmt); ok {
			if c, ok := es.X.(*ast.CallExpr); ok && calleeName(c) == "Error" {
				return true
			}
		}
	}
	return false
}

func guardOf(ifs *ast.IfStmt) string {
	if errCmp(ifs.Cond, token.EQL) && !errCmp(ifs.Cond, token.NEQ) {
		return "?" // only the success branch is used
	}
	if !errCmp(ifs.Cond, token.NEQ) {
		return "#nocheck"
	}
	if len(ifs.Body.List) == 0 || !hasReturn(ifs.Body) {
		return "?" // the error does not end the function
	}
	ret := lastReturn(ifs.Body)
	if ret == nil {
		// `if err != nil { … if <fallback fails> { return nil, err } }`: the error is replaced by a fallback
		if inner, ok := ifs.Body.List[len(ifs.Body.List)-1].(*ast.IfStmt); ok && inner.Else == nil {
			if r := lastReturn(inner.Body); r != nil && len(r.Results) > 0 && !isIdent(r.Results[len(r.Results)-1], "nil") {
				return "!f"
			}
		}
		return "#noreturn"
	}
	n := len(ret.Results)
	if n == 0 {
		if callsRenderError(ifs.Body) { // HTTP handler: render.Error(w, r, err); return
			return "!"
		}
		return "#nakedreturn"
	}
	if n == 1 {
		if c, ok := ret.Results[0].(*ast.CallExpr); ok && strings.HasPrefix(calleeName(c), "createFailure") {
			return "!" // SCEP: a signed failure reply
		}
	}
	if isIdent(ret.Results[n-1], "nil") {
		return "#returnsnil"
	}
	if n > 1 && !isZero(ret.Results[0]) {
		return "#returnsvalue"
	}
	if mentionsNotImplemented(ifs.Cond) {
		return "!~"
	}
	return "!"
}

// lastReturn: the return statement every path through the block ends in (last statement a
// return, or a switch / if-else whose every branch ends in a qualifying return).
func lastReturn(b *ast.BlockStmt) *ast.ReturnStmt {
	if len(b.List) == 0 {
		return nil
	}
	switch s := b.List[len(b.List)-1].(type) {
	case *ast.ReturnStmt:
		return s
	case *ast.SwitchStmt:
		var first *ast.ReturnStmt
		hasDefault := false
		for _, c := range s.Body.List {
			cc := c.(*ast.CaseClause)
			if cc.List == nil {
				hasDefault = true
			}
			r := lastReturn(&ast.BlockStmt{List: cc.Body})
			if r == nil || len(r.Results) == 0 || isIdent(r.Results[len(r.Results)-1], "nil") {
				return nil
			}
			if len(r.Results) > 1 && !isIdent(r.Results[0], "nil") {
				return nil
			}
			if first == nil {
				first = r
			}
		}
		if !hasDefault {
			return nil
		}
		return first
	}
	return nil
}

type extractor struct {
	out   []string
	depth int
}

func (x *extractor) fn(name string) {
	sp, ok := specs[name]
	if !ok {
		x.out = append(x.out, "#nospec-"+name)
		return
	}
	if x.depth > 4 {
		x.out = append(x.out, "#depth")
		return
	}
	fset := token.NewFileSet()
	f, err := parser.ParseFile(fset, filepath.Join(repoRoot(), sp.file), nil, 0)
	if err != nil {
		x.out = append(x.out, "#parse")
		return
	}
	var decl *ast.FuncDecl
	for _, d := range f.Decls {
		fd, ok := d.(*ast.FuncDecl)
		if !ok || fd.Name.Name != name || fd.Body == nil {
			continue
		}
		if sp.recv != "" {
			if fd.Recv == nil || len(fd.Recv.List) == 0 {
				continue
			}
			t := fd.Recv.List[0].Type
			if st, ok := t.(*ast.StarExpr); ok {
				t = st.X
			}
			if !isIdent(t, sp.recv) {
				continue
			}
		}
		decl = fd
	}
	if decl == nil {
		x.out = append(x.out, "#missing-"+name)
		return
	}
	x.block(decl.Body, sp, decl.Type.Results != nil && len(decl.Type.Results.List) > 0)
}

func (x *extractor) emit(sp fnSpec, call *ast.CallExpr, guard string) {
	tok := sp.watch[calleeName(call)]
	if strings.HasPrefix(tok, "@") {
		if guard != "!" && guard != "!~" && guard != "?" && guard != "!f" {
			x.out = append(x.out, tok[1:]+guard)
			return
		}
		before := len(x.out)
		x.depth++
		x.fn(tok[1:])
		x.depth--
		// an inlined function's own success return is not a return of the caller
		if n := len(x.out); n > before && x.out[n-1] == "ret" {
			x.out = x.out[:n-1]
		}
		if guard == "!~" { // the caller lets ErrNotImplemented of the inlined store through
			for i := before; i < len(x.out); i++ {
				if x.out[i] == "store!" {
					x.out[i] = "store!~"
				}
			}
		}
		return
	}
	x.out = append(x.out, tok+guard)
}

// watchedCalls lists the watched calls inside node n (not descending into function literals).
func watchedCalls(n ast.Node, sp fnSpec) []*ast.CallExpr {
	var cs []*ast.CallExpr
	if n == nil {
		return nil
	}
	ast.Inspect(n, func(m ast.Node) bool {
		if _, ok := m.(*ast.FuncLit); ok {
			return false
		}
		if c, ok := m.(*ast.CallExpr); ok {
			if _, w := sp.watch[calleeName(c)]; w {
				cs = append(cs, c)
			}
		}
		return true
	})
	return cs
}

func errIgnored(as *ast.AssignStmt) bool {
	if len(as.Lhs) == 0 {
		return false
	}
	return isIdent(as.Lhs[len(as.Lhs)-1], "_")
}

func (x *extractor) block(b *ast.BlockStmt, sp fnSpec, hasResults bool) {
	for i, st := range b.List {
		x.stmt(st, b.List[i+1:], sp, hasResults)
	}
}

func (x *extractor) stmt(st ast.Stmt, rest []ast.Stmt, sp fnSpec, hasResults bool) {
	switch s := st.(type) {
	case *ast.IfStmt:
		// calls in the init statement / condition are guarded by this very if
		for _, c := range watchedCalls(s.Init, sp) {
			if as, ok := s.Init.(*ast.AssignStmt); ok && errIgnored(as) {
				x.emit(sp, c, "?")
			} else {
				x.emit(sp, c, guardOf(s))
			}
		}
		for _, c := range watchedCalls(s.Cond, sp) {
			x.emit(sp, c, "#incond")
		}
		x.block(s.Body, sp, hasResults)
		switch e := s.Else.(type) {
		case *ast.BlockStmt:
			x.block(e, sp, hasResults)
		case *ast.IfStmt:
			x.stmt(e, nil, sp, hasResults)
		}
	case *ast.AssignStmt:
		cs := watchedCalls(s, sp)
		if len(cs) == 0 {
			return
		}
		g := "#unchecked"
		if errIgnored(s) {
			g = "?"
		} else if len(rest) > 0 {
			if ifs, ok := rest[0].(*ast.IfStmt); ok && ifs.Init == nil {
				g = guardOf(ifs)
			} else if sw, ok := rest[0].(*ast.SwitchStmt); ok && sw.Tag == nil { // switch { case err != nil: return … }
				g = "#switch"
				if len(sw.Body.List) > 0 {
					cc := sw.Body.List[0].(*ast.CaseClause)
					if len(cc.List) == 1 && errCmp(cc.List[0], token.NEQ) {
						if r := lastReturn(&ast.BlockStmt{List: cc.Body}); r != nil && len(r.Results) > 0 && !isIdent(r.Results[len(r.Results)-1], "nil") {
							g = "!"
						}
					}
				}
			}
		}
		for _, c := range cs {
			x.emit(sp, c, g)
		}
	case *ast.ReturnStmt:
		cs := watchedCalls(s, sp)
		for _, c := range cs {
			x.emit(sp, c, "!") // the callee's error is the function's result
		}
		if len(cs) > 0 {
			return
		}
		if n := len(s.Results); n > 0 && isIdent(s.Results[n-1], "nil") {
			x.out = append(x.out, "ret")
		}
	case *ast.BlockStmt:
		x.block(s, sp, hasResults)
	case *ast.ForStmt:
		x.block(s.Body, sp, hasResults)
	case *ast.RangeStmt:
		x.block(s.Body, sp, hasResults)
	case *ast.SwitchStmt:
		for _, c := range s.Body.List {
			x.block(&ast.BlockStmt{List: c.(*ast.CaseClause).Body}, sp, hasResults)
		}
	case *ast.TypeSwitchStmt:
		for _, c := range s.Body.List {
			x.block(&ast.BlockStmt{List: c.(*ast.CaseClause).Body}, sp, hasResults)
		}
	case *ast.ExprStmt:
		for _, c := range watchedCalls(s, sp) {
			x.emit(sp, c, "#discarded")
		}
		if c, ok := s.X.(*ast.CallExpr); ok && !hasResults && (calleeName(c) == "JSON" || calleeName(c) == "JSONStatus") {
			x.out = append(x.out, "ret") // HTTP handler: the success response
		}
	case *ast.DeclStmt, *ast.DeferStmt, *ast.GoStmt:
		for _, c := range watchedCalls(s, sp) {
			x.emit(sp, c, "#unchecked")
		}
	}
}

// parseDir parses the non-test Go files of one package directory of the repository.
func parseDir(rel string) []*ast.File {
	dir := filepath.Join(repoRoot(), rel)
	ents, err := os.ReadDir(dir)
	if err != nil {
		return nil
	}
	var fs []*ast.File
	fset := token.NewFileSet()
	for _, en := range ents {
		n := en.Name()
		if en.IsDir() || !strings.HasSuffix(n, ".go") || strings.HasSuffix(n, "_test.go") {
			continue
		}
		if f, err := parser.ParseFile(fset, filepath.Join(dir, n), nil, 0); err == nil {
			fs = append(fs, f)
		}
	}
	return fs
}

func sortedSet(m map[string]bool) string {
	var l []string
	for k := range m {
		l = append(l, k)
	}
	sort.Strings(l)
	if len(l) == 0 {
		return "-"
	}
	return strings.Join(l, ",")
}

// signers lists every function of package authority that asks for a signature on a
// certificate: x509CAService.CreateCertificate / RenewCertificate, sshutil.CreateCertificate,
// or the SSH signer's Sign(rand, data).
func signers() string {
	out := map[string]bool{}
	for _, f := range parseDir("authority") {
		for _, d := range f.Decls {
			fd, ok := d.(*ast.FuncDecl)
			if !ok || fd.Body == nil {
				continue
			}
			ast.Inspect(fd.Body, func(n ast.Node) bool {
				c, ok := n.(*ast.CallExpr)
				if !ok {
					return true
				}
				sel, ok := c.Fun.(*ast.SelectorExpr)
				if !ok {
					return true
				}
				switch sel.Sel.Name {
				case "CreateCertificate", "RenewCertificate":
					if x, ok := sel.X.(*ast.SelectorExpr); ok && x.Sel.Name == "x509CAService" {
						out[fd.Name.Name] = true
					}
					if isIdent(sel.X, "sshutil") {
						out[fd.Name.Name] = true
					}
				case "Sign":
					if isIdent(sel.X, "signer") && len(c.Args) == 2 {
						out[fd.Name.Name] = true
					}
				}
				return true
			})
		}
	}
	return sortedSet(out)
}

// callers lists the server-side functions (api, acme, scep) that call an issuing entry point
// of the authority, as caller>entry.
func callers() string {
	entries := map[string]bool{"SignWithContext": true, "RenewContext": true, "Rekey": true, "SignSSH": true,
		"SignSSHAddUser": true, "RenewSSH": true, "RekeySSH": true, "Renew": true, "Sign": true}
	out := map[string]bool{}
	for _, dir := range []string{"api", "acme", "acme/api", "scep", "scep/api"} {
		for _, f := range parseDir(dir) {
			for _, d := range f.Decls {
				fd, ok := d.(*ast.FuncDecl)
				if !ok || fd.Body == nil {
					continue
				}
				ast.Inspect(fd.Body, func(n ast.Node) bool {
					c, ok := n.(*ast.CallExpr)
					if !ok {
						return true
					}
					sel, ok := c.Fun.(*ast.SelectorExpr)
					if !ok || !entries[sel.Sel.Name] {
						return true
					}
					switch sel.Sel.Name {
					case "Renew", "Sign", "Rekey": // common names: only on the authority
						okRecv := isIdent(sel.X, "a") || isIdent(sel.X, "auth")
						if cx, ok := sel.X.(*ast.CallExpr); ok && calleeName(cx) == "mustAuthority" {
							okRecv = true
						}
						if !okRecv {
							return true
						}
					}
					out[fd.Name.Name+">"+sel.Sel.Name] = true
					return true
				})
			}
		}
	}
	return sortedSet(out)
}

func selNames(e ast.Node, pkg string) []string {
	m := map[string]bool{}
	ast.Inspect(e, func(n ast.Node) bool {
		if s, ok := n.(*ast.SelectorExpr); ok && isIdent(s.X, pkg) {
			m[s.Sel.Name] = true
		}
		return true
	})
	var l []string
	for k := range m {
		l = append(l, k)
	}
	sort.Strings(l)
	return l
}

// scepTypes: the message types PKIOperation validates the challenge for, and the message
// types DecryptPKIEnvelope treats as carrying a certificate request.
func scepTypes() string {
	challenged, csr := "#notfound", "#notfound"
	fset := token.NewFileSet()
	if f, err := parser.ParseFile(fset, filepath.Join(repoRoot(), "scep/api/api.go"), nil, 0); err == nil {
		ast.Inspect(f, func(n ast.Node) bool {
			ifs, ok := n.(*ast.IfStmt)
			if !ok {
				return true
			}
			has := false
			ast.Inspect(ifs.Body, func(m ast.Node) bool {
				if c, ok := m.(*ast.CallExpr); ok && calleeName(c) == "ValidateChallenge" {
					has = true
				}
				return true
			})
			if l := selNames(ifs.Cond, "smallscep"); has && len(l) > 0 {
				challenged = strings.Join(l, "+")
				return false
			}
			return true
		})
	}
	if f, err := parser.ParseFile(fset, filepath.Join(repoRoot(), "scep/authority.go"), nil, 0); err == nil {
		ast.Inspect(f, func(n ast.Node) bool {
			cc, ok := n.(*ast.CaseClause)
			if !ok {
				return true
			}
			var l []string
			for _, e := range cc.List {
				l = append(l, selNames(e, "smallscep")...)
			}
			sort.Strings(l)
			for _, x := range l {
				if x == "PKCSReq" {
					csr = strings.Join(l, "+")
				}
			}
			return true
		})
	}
	return "challenged=" + challenged + " csr=" + csr
}

func exprString(e ast.Expr) string {
	switch x := e.(type) {
	case *ast.Ident:
		return x.Name
	case *ast.SelectorExpr:
		return exprString(x.X) + "." + x.Sel.Name
	}
	return "?"
}

// storers: for every function of package authority that writes or reads the certificate /
// revocation records, the stores it consults, in source order: the operand of each type
// switch or type assertion, and the receiver of a direct a.db / a.adminDB method call.
func storers() string {
	want := []string{"storeCertificate", "storeRenewedCertificate", "storeSSHCertificate", "storeRenewedSSHCertificate",
		"revoke", "revokeSSH", "IsRevoked", "authorizeSSHCertificate"}
	found := map[string]string{}
	for _, f := range parseDir("authority") {
		for _, d := range f.Decls {
			fd, ok := d.(*ast.FuncDecl)
			if !ok || fd.Body == nil || fd.Recv == nil {
				continue
			}
			rt := fd.Recv.List[0].Type
			if st, ok := rt.(*ast.StarExpr); ok {
				rt = st.X
			}
			if !isIdent(rt, "Authority") {
				continue
			}
			name := fd.Name.Name
			isWanted := false
			for _, w := range want {
				isWanted = isWanted || w == name
			}
			if !isWanted {
				continue
			}
			var seq []string
			add := func(x string) {
				if n := len(seq); n == 0 || seq[n-1] != x {
					seq = append(seq, x)
				}
			}
			ast.Inspect(fd.Body, func(n ast.Node) bool {
				switch x := n.(type) {
				case *ast.TypeAssertExpr:
					add(exprString(x.X))
				case *ast.CallExpr:
					if sel, ok := x.Fun.(*ast.SelectorExpr); ok {
						if r := exprString(sel.X); r == "a.db" || r == "a.adminDB" {
							add(r)
						}
					}
				}
				return true
			})
			found[name] = strings.Join(seq, ">")
		}
	}
	var out []string
	for _, w := range want {
		v, ok := found[w]
		if !ok {
			v = "#missing"
		}
		out = append(out, w+"="+v)
	}
	return strings.Join(out, ";")
}

// adminStore: which of the record-keeping methods the nosql admin store (adminDB when
// authority.enableAdmin is set with a local database) implements. None: the local database
// keeps the records also then.
func adminStore() string {
	names := map[string]bool{"StoreCertificateChain": true, "StoreCertificate": true, "StoreRenewedCertificate": true,
		"StoreSSHCertificate": true, "StoreRenewedSSHCertificate": true, "Revoke": true, "RevokeSSH": true,
		"IsRevoked": true, "IsSSHRevoked": true, "GetCertificateData": true, "UseToken": true}
	out := map[string]bool{}
	for _, f := range parseDir("authority/admin/db/nosql") {
		for _, d := range f.Decls {
			if fd, ok := d.(*ast.FuncDecl); ok && fd.Recv != nil && names[fd.Name.Name] {
				out[fd.Name.Name] = true
			}
		}
	}
	return sortedSet(out)
}

// hookControllers: for every provisioner type, whether its AuthorizeSign / AuthorizeSSHSign hands
// the signing code a webhook controller, and for which certificate type.
func hookControllers() string {
	out := map[string]bool{}
	for _, f := range parseDir("authority/provisioner") {
		for _, d := range f.Decls {
			fd, ok := d.(*ast.FuncDecl)
			if !ok || fd.Body == nil || fd.Recv == nil || (fd.Name.Name != "AuthorizeSign" && fd.Name.Name != "AuthorizeSSHSign") {
				continue
			}
			rt := fd.Recv.List[0].Type
			if st, ok := rt.(*ast.StarExpr); ok {
				rt = st.X
			}
			typ := exprString(rt)
			val := "-"
			ast.Inspect(fd.Body, func(n ast.Node) bool {
				c, ok := n.(*ast.CallExpr)
				if !ok || calleeName(c) != "newWebhookController" || len(c.Args) < 2 {
					return true
				}
				if sel, ok := c.Args[1].(*ast.SelectorExpr); ok {
					val = strings.TrimPrefix(sel.Sel.Name, "Webhook_")
				} else {
					val = "?"
				}
				return true
			})
			out[typ+"."+fd.Name.Name+"="+val] = true
		}
	}
	return sortedSet(out)
}

// routes: the POST routes of api.Route and the handler each is bound to.
func routes() string {
	out := map[string]bool{}
	fset := token.NewFileSet()
	f, err := parser.ParseFile(fset, filepath.Join(repoRoot(), "api/api.go"), nil, 0)
	if err != nil {
		return "#parse"
	}
	fd := findFuncDecl(f, "Route")
	if fd == nil {
		return "#missing"
	}
	ast.Inspect(fd.Body, func(n ast.Node) bool {
		c, ok := n.(*ast.CallExpr)
		if !ok || calleeName(c) != "MethodFunc" || len(c.Args) != 3 {
			return true
		}
		m, ok1 := c.Args[0].(*ast.BasicLit)
		p, ok2 := c.Args[1].(*ast.BasicLit)
		if ok1 && ok2 && m.Value == `"POST"` {
			out[strings.Trim(p.Value, `"`)+">"+exprString(c.Args[2])] = true
		}
		return true
	})
	return sortedSet(out)
}

func findFuncDecl(f *ast.File, name string) *ast.FuncDecl {
	for _, d := range f.Decls {
		if fd, ok := d.(*ast.FuncDecl); ok && fd.Recv == nil && fd.Name.Name == name {
			return fd
		}
	}
	return nil
}

// reloadOptions: the options CA.Reload passes, unconditionally, to the New that builds the
// reloaded CA (an option appended under a condition, or a slice of options, shows as #…).
func reloadOptions() string {
	fset := token.NewFileSet()
	f, err := parser.ParseFile(fset, filepath.Join(repoRoot(), "ca/ca.go"), nil, 0)
	if err != nil {
		return "#parse"
	}
	var fd *ast.FuncDecl
	for _, d := range f.Decls {
		if x, ok := d.(*ast.FuncDecl); ok && x.Name.Name == "Reload" && x.Recv != nil {
			fd = x
		}
	}
	if fd == nil {
		return "#missing"
	}
	out := map[string]bool{}
	found := false
	ast.Inspect(fd.Body, func(n ast.Node) bool {
		c, ok := n.(*ast.CallExpr)
		if !ok || found {
			return true
		}
		if id, isIdent := c.Fun.(*ast.Ident); !isIdent || id.Name != "New" { // the package's own New, not errors.New
			return true
		}
		found = true
		if c.Ellipsis.IsValid() {
			out["#variadic"] = true
		}
		for _, a := range c.Args[1:] {
			if oc, ok := a.(*ast.CallExpr); ok {
				out[calleeName(oc)] = true
			} else {
				out["#"+exprString(a)] = true
			}
		}
		return false
	})
	if !found {
		return "#nonew"
	}
	return sortedSet(out)
}

// tokenIDs: for every provisioner type, how its GetTokenID can fail: the number of error returns
// (parse error, claims error, …) and whether it may ask for the token to be reusable
// (ErrAllowTokenReuse). Authority.UseToken records nothing when GetTokenID fails, so every way to
// fail is a way for a token to stay usable.
func tokenIDs() string {
	out := map[string]bool{}
	for _, f := range parseDir("authority/provisioner") {
		for _, d := range f.Decls {
			fd, ok := d.(*ast.FuncDecl)
			if !ok || fd.Body == nil || fd.Recv == nil || fd.Name.Name != "GetTokenID" {
				continue
			}
			rt := fd.Recv.List[0].Type
			if st, ok := rt.(*ast.StarExpr); ok {
				rt = st.X
			}
			errs, reuse := 0, ""
			ast.Inspect(fd.Body, func(n ast.Node) bool {
				r, ok := n.(*ast.ReturnStmt)
				if !ok || len(r.Results) != 2 {
					return true
				}
				if !isIdent(r.Results[1], "nil") {
					errs++
					if isIdent(r.Results[1], "ErrAllowTokenReuse") {
						reuse = "+reuse"
					}
				}
				return true
			})
			out[fmt.Sprintf("%s=%d%s", exprString(rt), errs, reuse)] = true
		}
	}
	return sortedSet(out)
}

func srcOrder(fn string) string {
	switch fn {
	case "@tokenIDs":
		return tokenIDs()
	case "@reloadOptions":
		return reloadOptions()
	case "@routes":
		return routes()
	case "@hookControllers":
		return hookControllers()
	case "@storers":
		return storers()
	case "@adminStore":
		return adminStore()
	case "DoWithContext":
		return webhookTable()
	case "@signers":
		return signers()
	case "@callers":
		return callers()
	case "@scepTypes":
		return scepTypes()
	}
	x := &extractor{}
	x.fn(fn)
	if len(x.out) == 0 {
		return "-"
	}
	// adjacent in-process checks / ACME reads are reported once
	var out []string
	for _, t := range x.out {
		if n := len(out); n > 0 && out[n-1] == t && (t == "check!" || t == "acmeRead!") {
			continue
		}
		out = append(out, t)
	}
	return strings.Join(out, ",")
}

// webhookTable runs the real client (Webhook.DoWithContext + the controller's allow test)
// for every (first answer, second answer) pair and reports allow / refuse and the number of
// attempts made:  ok=A1A1A1A1A1 error=A2R2R2R2R2 …  (columns: ok error timeout deny malformed).
func webhookTable() string {
	kinds := []string{"ok", "error", "timeout", "deny", "malformed"}
	srv := webhookServer("", "")
	defer srv.Close()
	cells := make([][]string, len(kinds))
	var wg sync.WaitGroup
	for i := range kinds {
		cells[i] = make([]string, len(kinds))
		for j := range kinds {
			wg.Add(1)
			go func(i, j int) {
				defer wg.Done()
				rec := &Recorder{}
				var fs []Fault
				if kinds[i] != "ok" {
					fs = append(fs, Fault{Pos: 0, Kind: kinds[i]})
				}
				if kinds[j] != "ok" {
					fs = append(fs, Fault{Pos: 1, Kind: kinds[j]})
				}
				rec.start(fs)
				closed, release := closedAddr()
				defer release()
				tr := &faultTransport{rec: rec, base: &http.Transport{DisableKeepAlives: true}, closed: closed}
				cl := &http.Client{Transport: tr, Timeout: 30 * time.Second}
				wh := &provisioner.Webhook{ID: "t", Name: "t", URL: srv.URL + "/enrich/0", Kind: "ENRICHING"}
				req, err := webhook.NewRequestBody()
				if err != nil {
					cells[i][j] = "X"
					return
				}
				ctx, cancel := context.WithTimeout(context.Background(), 10*time.Second)
				defer cancel()
				resp, err := wh.DoWithContext(ctx, cl, func(t *http.Transport) http.RoundTripper { return t }, req, nil)
				ev := rec.stop()
				v := "R"
				if err == nil && resp != nil && resp.Allow {
					v = "A"
				}
				cells[i][j] = fmt.Sprintf("%s%d", v, len(ev))
			}(i, j)
		}
	}
	wg.Wait()
	var rows []string
	for i, k := range kinds {
		rows = append(rows, k+"="+strings.Join(cells[i], ""))
	}
	return strings.Join(rows, " ")
}
