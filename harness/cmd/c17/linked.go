package main

// linkedDB stands in for a linked CA: an admin.DB that also implements the record-keeping
// interfaces package authority looks for on adminDB before it falls back to the local database
// (StoreCertificateChain, StoreRenewedCertificate, StoreSSHCertificate, StoreRenewedSSHCertificate,
// Revoke, RevokeSSH, IsRevoked, IsSSHRevoked, GetCertificateData). The records themselves are kept
// by the fixture's *db.DB (so the fault layer and the table lookups stay the same); what is
// exercised is the authority's own choice of store.

import (
	"crypto/x509"
	"sync/atomic"

	"golang.org/x/crypto/ssh"

	"github.com/smallstep/certificates/authority/admin"
	"github.com/smallstep/certificates/authority/provisioner"
	"github.com/smallstep/certificates/db"
)

type linkedDB struct {
	admin.DB // never called: the admin API is not enabled in these cases
	local    *db.DB
	stores   atomic.Int32 // certificates written through this store
	revokes  atomic.Int32
}

func (l *linkedDB) StoreCertificateChain(p provisioner.Interface, chain ...*x509.Certificate) error {
	err := l.local.StoreCertificateChain(p, chain...)
	if err == nil {
		l.stores.Add(1)
	}
	return err
}

func (l *linkedDB) StoreRenewedCertificate(old *x509.Certificate, chain ...*x509.Certificate) error {
	err := l.local.StoreRenewedCertificate(old, chain...)
	if err == nil {
		l.stores.Add(1)
	}
	return err
}

func (l *linkedDB) StoreSSHCertificate(_ provisioner.Interface, crt *ssh.Certificate) error {
	err := l.local.StoreSSHCertificate(crt)
	if err == nil {
		l.stores.Add(1)
	}
	return err
}

func (l *linkedDB) StoreRenewedSSHCertificate(_ provisioner.Interface, _, crt *ssh.Certificate) error {
	err := l.local.StoreSSHCertificate(crt)
	if err == nil {
		l.stores.Add(1)
	}
	return err
}

func (l *linkedDB) Revoke(_ *x509.Certificate, rci *db.RevokedCertificateInfo) error {
	err := l.local.Revoke(rci)
	if err == nil {
		l.revokes.Add(1)
	}
	return err
}

func (l *linkedDB) RevokeSSH(_ *ssh.Certificate, rci *db.RevokedCertificateInfo) error {
	err := l.local.RevokeSSH(rci)
	if err == nil {
		l.revokes.Add(1)
	}
	return err
}

func (l *linkedDB) IsRevoked(sn string) (bool, error)    { return l.local.IsRevoked(sn) }
func (l *linkedDB) IsSSHRevoked(sn string) (bool, error) { return l.local.IsSSHRevoked(sn) }
func (l *linkedDB) GetCertificateData(sn string) (*db.CertificateData, error) {
	return l.local.GetCertificateData(sn)
}
