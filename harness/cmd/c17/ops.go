package main

// The operations of the C17 harness, each driven through the real HTTP handler of /repo/api
// (httptest recorder, authority in the request context) against the shared fixture CA.

import (
	"bytes"
	"context"
	"crypto"
	"crypto/ecdsa"
	"crypto/elliptic"
	"crypto/rand"
	"crypto/rsa"
	"crypto/tls"
	"crypto/x509"
	"crypto/x509/pkix"
	"encoding/base64"
	"encoding/json"
	"encoding/pem"
	"fmt"
	"io"
	"log"
	"net/http"
	"net/http/httptest"
	"os"
	"strconv"
	"strings"
	"sync"
	"time"

	"github.com/go-chi/chi/v5"
	"go.step.sm/crypto/jose"
	"go.step.sm/crypto/minica"
	"go.step.sm/crypto/randutil"
	"golang.org/x/crypto/ssh"

	"github.com/smallstep/certificates/api"
	"github.com/smallstep/certificates/authority"
	"github.com/smallstep/certificates/authority/config"
	"github.com/smallstep/certificates/authority/provisioner"
	"github.com/smallstep/certificates/cas/apiv1"
	"github.com/smallstep/certificates/cas/softcas"
	"github.com/smallstep/certificates/db"
	"github.com/smallstep/certificates/scep"
	"verif/harness/fixture"
)

type Env struct {
	noJTI bool // the tokens of this case carry no jti claim (they are then recorded under a hash)
	// real: the authority sits behind the handler ca.New / Init assembled (realenv.go)
	real    bool
	reload  func() error // CA.Reload (what SIGHUP does), then the new handler and authority are picked up
	handler http.Handler
	base    context.Context
	linked  *linkedDB // set for Var "linked": the store package authority must prefer
	ca      *fixture.CA
	rec     *Recorder
	fdb     *faultDB
	srv     *httptest.Server
	extra   map[string]any // per-operation prerequisites
	closer  []func()
}

func (e *Env) Close() {
	if e.ca != nil && !e.real {
		e.ca.Close()
	}
	for i := len(e.closer) - 1; i >= 0; i-- {
		e.closer[i]()
	}
	if e.srv != nil {
		e.srv.Close()
	}
}

// rsaKey is shared by every SCEP case: the SCEP decrypter must be an RSA key and generating
// one per case would dominate the run time. It is only key material, never state.
var (
	rsaOnce sync.Once
	rsaKey  *rsa.PrivateKey
)

func sharedRSA() *rsa.PrivateKey {
	rsaOnce.Do(func() { rsaKey, _ = rsa.GenerateKey(rand.Reader, 2048) })
	return rsaKey
}

// hookSecret is the webhooks' signing secret; a case with Var "badhook" configures one that is
// not base64, which DoWithContext rejects before any attempt.
var hookSecretOK = base64.StdEncoding.EncodeToString([]byte("secret"))

func hooks(base, path, kind string, n int, secret, certType string) []*provisioner.Webhook {
	var whs []*provisioner.Webhook
	for i := 0; i < n; i++ {
		whs = append(whs, &provisioner.Webhook{ID: fmt.Sprintf("%s%d", path, i), Name: fmt.Sprintf("%s%d", path, i),
			URL: fmt.Sprintf("%s/%s/%d", base, path, i), Kind: kind, CertType: certType, Secret: secret})
	}
	return whs
}

// hookCertType is the certType attribute the enriching / authorizing webhooks are written with:
// "ALL" (what the CLI and the admin API write), none at all (a hand-written ca.json; means all),
// the type of the certificate the operation issues, or the other type (then not consulted).
func hookCertType(k *Case) string {
	ssh := strings.HasPrefix(k.Op, "ssh")
	switch k.CT {
	case "unset":
		return ""
	case "typed":
		if ssh {
			return "SSH"
		}
		return "X509"
	case "other":
		if ssh {
			return "X509"
		}
		return "SSH"
	case "lower": // the issued type in another spelling: not one of the names the code knows
		if ssh {
			return "ssh"
		}
		return "x509"
	}
	return "ALL"
}

// hookKind spells the kind attribute: as the code knows it, or (ct=kindlower) in lower case.
func hookKind(k *Case, kind string) string {
	if k.CT == "kindlower" {
		return strings.ToLower(kind)
	}
	return kind
}

func newEnv(k *Case) (*Env, error) {
	if k.Var == "real" {
		return newRealEnv(k)
	}
	e := &Env{rec: &Recorder{}, extra: map[string]any{}, noJTI: k.Tok == "nojti"}
	wantAuth := ""
	switch {
	case strings.HasSuffix(k.Var, "bearer"):
		wantAuth = "Bearer verif-token"
	case strings.HasSuffix(k.Var, "basic"):
		wantAuth = "Basic " + base64.StdEncoding.EncodeToString([]byte("verif:pass"))
	}
	e.srv = webhookServer(hookSecretOK, wantAuth)
	secret := hookSecretOK
	if k.Var == "badhook" {
		secret = "%%% not base64 %%%"
	}
	ct := hookCertType(k)
	whs := append(hooks(e.srv.URL, "enrich", hookKind(k, "ENRICHING"), k.E, secret, ct), hooks(e.srv.URL, "authorize", hookKind(k, "AUTHORIZING"), k.A, secret, ct)...)
	closed, release := closedAddr()
	e.closer = append(e.closer, release)
	// an https endpoint whose certificate the webhook client does not trust
	tlsSrv := httptest.NewUnstartedServer(http.HandlerFunc(func(w http.ResponseWriter, r *http.Request) {
		w.Write([]byte(`{"allow":true}`))
	}))
	tlsSrv.Config.ErrorLog = log.New(io.Discard, "", 0) // the failed handshakes are the point
	tlsSrv.StartTLS()
	e.closer = append(e.closer, tlsSrv.Close)
	tr := &faultTransport{rec: e.rec, base: &http.Transport{DisableKeepAlives: true}, closed: closed,
		untrusted: strings.TrimPrefix(tlsSrv.URL, "https://"), denyAll: k.Deny, denyKind: k.DenyK}

	// key material is made here (not by the fixture) so that the CAS can be wrapped and, for
	// SCEP, the intermediate key is an RSA key the SCEP authority can decrypt with
	var mopts []minica.Option
	if k.Op == "scep" {
		mopts = append(mopts, minica.WithGetSignerFunc(func() (crypto.Signer, error) { return sharedRSA(), nil }))
	}
	mca, err := minica.New(append(mopts, minica.WithName("Verif"))...)
	if err != nil {
		e.Close()
		return nil, err
	}
	jwk, err := jose.GenerateJWK("EC", "P-256", "ES256", "sig", "", 0)
	if err != nil {
		e.Close()
		return nil, err
	}
	if jwk.KeyID, err = jose.Thumbprint(jwk); err != nil {
		e.Close()
		return nil, err
	}
	sshU, _ := ecdsa.GenerateKey(elliptic.P256(), rand.Reader)
	sshH, _ := ecdsa.GenerateKey(elliptic.P256(), rand.Reader)
	soft, err := softcas.New(context.Background(), apiv1.Options{
		CertificateChain: []*x509.Certificate{mca.Intermediate}, Signer: mca.Signer})
	if err != nil {
		e.Close()
		return nil, err
	}
	clientAuth := func(l []*provisioner.Webhook) { // how the webhook client authenticates / which client it uses
		for _, wh := range l {
			switch {
			case strings.HasSuffix(k.Var, "bearer"):
				wh.BearerToken = "verif-token"
			case strings.HasSuffix(k.Var, "basic"):
				wh.BasicAuth.Username, wh.BasicAuth.Password = "verif", "pass"
			case strings.HasSuffix(k.Var, "notlsauth"): // DoWithContext then builds its own client from a fresh transport, wrapped by the authority's wrapper
				wh.DisableTLSClientAuth = true
			}
		}
	}
	if k.Names == "dup" { // one back-end under one name for the enriching and the authorizing call
		for _, wh := range whs {
			wh.Name = "backend"
		}
	}
	clientAuth(whs)
	extra := []authority.Option{
		authority.WithTransportWrapper(func(t *http.Transport) http.RoundTripper {
			t.DisableKeepAlives = true
			return &faultTransport{rec: e.rec, base: t, closed: closed, untrusted: tr.untrusted, denyAll: k.Deny, denyKind: k.DenyK}
		}),
		authority.WithWebhookClient(&http.Client{Transport: tr, Timeout: 30 * time.Second}),
		authority.WithX509CAService(&faultCAS{SoftCAS: soft, rec: e.rec}),
	}
	if k.Var == "linked" {
		e.linked = &linkedDB{}
		extra = append(extra, authority.WithAdminDB(e.linked))
	}
	yes := true
	provs := provisioner.List{
		&provisioner.SSHPOP{Type: "SSHPOP", Name: "sshpop", Claims: &provisioner.Claims{EnableSSHCA: &yes}},
		&provisioner.ACME{Type: "ACME", Name: "acme", Options: &provisioner.Options{Webhooks: whs},
			Challenges: []provisioner.ACMEChallenge{provisioner.HTTP_01}},
	}
	if k.Op == "sshsignk8s" { // a provisioner type whose tokens are reusable by design (no token record): Kubernetes service accounts
		k8sKey, err := ecdsa.GenerateKey(elliptic.P256(), rand.Reader)
		if err != nil {
			e.Close()
			return nil, err
		}
		der, err := x509.MarshalPKIXPublicKey(k8sKey.Public())
		if err != nil {
			e.Close()
			return nil, err
		}
		provs = append(provs, &provisioner.K8sSA{Type: "K8sSA", Name: provisioner.K8sSAName, Claims: &provisioner.Claims{EnableSSHCA: &yes},
			PubKeys: pem.EncodeToMemory(&pem.Block{Type: "PUBLIC KEY", Bytes: der}), Options: &provisioner.Options{Webhooks: whs}})
		e.extra["k8skey"] = k8sKey
	}
	if k.Op == "signx5c" { // a less used provisioner type: tokens signed by a certificate that chains to a configured root
		provs = append(provs, &provisioner.X5C{Type: "X5C", Name: "x5c", Options: &provisioner.Options{Webhooks: whs},
			Roots: pem.EncodeToMemory(&pem.Block{Type: "CERTIFICATE", Bytes: mca.Root.Raw})})
		e.extra["mca"] = mca
	}
	// a second provisioner of the same type with webhooks of its own: they must never be consulted
	// for requests of the first (their calls would show up as unknown-webhook in the trace)
	if otherJWK, err := jose.GenerateJWK("EC", "P-256", "ES256", "sig", "", 0); err == nil {
		otherJWK.KeyID, _ = jose.Thumbprint(otherJWK)
		opub := otherJWK.Public()
		provs = append(provs, &provisioner.JWK{Type: "JWK", Name: "jwk-other", Key: &opub, Claims: &provisioner.Claims{EnableSSHCA: &yes},
			Options: &provisioner.Options{Webhooks: append(hooks(e.srv.URL, "otherprov/enrich", "ENRICHING", 1, hookSecretOK, "ALL"),
				hooks(e.srv.URL, "otherprov/authorize", "AUTHORIZING", 1, hookSecretOK, "ALL")...)}})
	}
	if k.Op == "scep" {
		all := append(append([]*provisioner.Webhook{}, whs...), hooks(e.srv.URL, "challenge", "SCEPCHALLENGE", k.CH, secret, "ALL")...)
		all = append(all, hooks(e.srv.URL, "notify", "NOTIFYING", k.N, secret, "ALL")...)
		clientAuth(all[len(whs):])
		sp := &provisioner.SCEP{Type: "SCEP", Name: "scep", MinimumPublicKeyLength: 2048,
			// content encryption 0 (DES-CBC) = the pkcs7 library's process-wide default: scep.Authority.encrypt sets and restores that
			// global around every reply, which is only safe with one authority per process; the harness runs many side by side
			EncryptionAlgorithmIdentifier: 0,
			Options:                       &provisioner.Options{Webhooks: all}}
		if k.CH == 0 {
			sp.ChallengePassword = scepSecret
		}
		provs = append(provs, sp)
		extra = append(extra, authority.WithFullSCEPOptions(&scep.Options{
			Roots: []*x509.Certificate{mca.Root}, Intermediates: []*x509.Certificate{mca.Intermediate},
			SignerCert: mca.Intermediate, Signer: sharedRSA(), Decrypter: sharedRSA(), DecrypterCert: mca.Intermediate,
			SCEPProvisionerNames: []string{"scep"}}))
		e.extra["cacert"] = mca.Intermediate
	}
	o := fixture.Opts{
		SSH:          true,
		From:         &fixture.CA{MiniCA: mca, JWK: jwk, SSHUser: sshU, SSHHost: sshH},
		JWKClaims:    &provisioner.Claims{EnableSSHCA: &yes},
		JWKOptions:   &provisioner.Options{Webhooks: whs},
		Provisioners: provs,
		Extra:        extra,
		WrapDB: func(a db.AuthDB) db.AuthDB {
			d, ok := a.(*db.DB)
			if !ok {
				panic(fmt.Sprintf("fixture database is %T, not *db.DB", a))
			}
			e.fdb = &faultDB{DB: d.DB, rec: e.rec}
			d.DB = e.fdb
			if e.linked != nil {
				e.linked.local = d
			}
			return d
		},
	}
	o.Config = func(cfg *config.Config) {
		if cfg.SSH == nil { // SignSSHAddUser reads config.SSH.AddUserPrincipal / AddUserCommand
			cfg.SSH = &config.SSHConfig{}
		}
		if strings.HasPrefix(k.Var, "admin") { // authority.enableAdmin with the local database: adminDB = nosql admin store
			cfg.AuthorityConfig.EnableAdmin = true
		}
	}
	if k.CRL {
		o.CRL = &config.CRLConfig{Enabled: true, GenerateOnRevoke: true, CacheDuration: &provisioner.Duration{Duration: 24 * time.Hour}}
	}
	if k.NoDB {
		o.NoDB, o.WrapDB = true, nil
	}
	ca, err := fixture.New(o)
	if err != nil {
		if os.Getenv("VERIF_DEBUG") != "" {
			fmt.Fprintln(os.Stderr, "fixture:", err)
		}
		e.Close()
		return nil, err
	}
	e.ca = ca
	// enableAdmin: the provisioners were migrated into the admin database by this first start;
	// "reboot" starts the authority once more (provisioners now come out of the database),
	// "reload" re-reads them in process (what the admin API does after every change)
	switch {
	case strings.Contains(k.Var, "reboot"):
		ca2, err := e.ca.Restart()
		if err != nil {
			e.Close()
			return nil, err
		}
		e.ca = ca2
	case strings.Contains(k.Var, "reload"):
		if err := e.ca.Auth.ReloadAdminResources(context.Background()); err != nil {
			e.Close()
			return nil, err
		}
	}
	return e, nil
}

type httpReq struct {
	h    http.HandlerFunc
	path string
	body any
	peer *x509.Certificate
}

type httpResp struct {
	status int
	body   map[string]any
}

var (
	routerOnce sync.Once
	router     http.Handler
)

func apiRouter() http.Handler {
	routerOnce.Do(func() {
		mux := chi.NewRouter()
		mux.Route("/1.0", func(r chi.Router) { api.Route(r) })
		mux.Group(func(r chi.Router) { api.Route(r) })
		router = mux
	})
	return router
}

func (e *Env) do(q *httpReq) httpResp {
	var buf bytes.Buffer
	if q.body != nil {
		json.NewEncoder(&buf).Encode(q.body)
	}
	r := httptest.NewRequest("POST", "https://"+fixture.DNSName+q.path, &buf)
	if q.peer != nil {
		r.TLS = &tls.ConnectionState{PeerCertificates: []*x509.Certificate{q.peer}}
	}
	w := httptest.NewRecorder()
	if e.real { // the handler the TLS server would run, with the server's base context
		r.Host = fixture.DNSName
		e.handler.ServeHTTP(w, r.WithContext(mergedCtx{r.Context(), e.base}))
	} else {
		r = r.WithContext(authority.NewContext(context.Background(), e.ca.Auth))
		// through the real route table, mounted as ca.CA.Init mounts it ("/1.0" and the root)
		apiRouter().ServeHTTP(w, r)
	}
	out := httpResp{status: w.Code}
	json.Unmarshal(w.Body.Bytes(), &out.body)
	return out
}

// got classifies what the client holds after the response: a certificate, a revocation
// acknowledgement, or nothing.
func (r httpResp) got() string {
	if r.status < 200 || r.status > 299 {
		// an error response must not carry a certificate either
		if v, ok := r.body["crt"]; ok && v != nil && v != "" {
			return "cert"
		}
		return "none"
	}
	if v, ok := r.body["crt"]; ok && v != nil && v != "" {
		return "cert"
	}
	if v, ok := r.body["status"]; ok && v == "ok" {
		return "ack"
	}
	return "none"
}

// handed is one certificate found in a response: the table it must be recorded in and its key.
type handed struct{ table, serial string }

func x509Handed(pemStr string) (handed, bool) {
	blk, _ := pem.Decode([]byte(pemStr))
	if blk == nil {
		return handed{}, false
	}
	crt, err := x509.ParseCertificate(blk.Bytes)
	if err != nil {
		return handed{}, false
	}
	return handed{"x509_certs", crt.SerialNumber.String()}, true
}

func sshHanded(b64 string) (handed, bool) {
	raw, err := base64.StdEncoding.DecodeString(b64)
	if err != nil {
		return handed{}, false
	}
	pub, err := ssh.ParsePublicKey(raw)
	if err != nil {
		return handed{}, false
	}
	crt, ok := pub.(*ssh.Certificate)
	if !ok {
		return handed{}, false
	}
	return handed{"ssh_certs", strconv.FormatUint(crt.Serial, 10)}, true
}

// certs lists every certificate the response hands to the client (crt, addUserCrt,
// identityCrt of the sign / renew / rekey / SSH handlers).
func (r httpResp) certs() []handed {
	var out []handed
	one := func(v any) {
		str, ok := v.(string)
		if !ok || str == "" {
			return
		}
		if strings.HasPrefix(str, "-----BEGIN") {
			if h, ok := x509Handed(str); ok {
				out = append(out, h)
			}
		} else if h, ok := sshHanded(str); ok {
			out = append(out, h)
		}
	}
	one(r.body["crt"])
	one(r.body["addUserCrt"])
	if l, ok := r.body["identityCrt"].([]any); ok && len(l) > 0 {
		one(l[0])
	}
	return out
}

// recorded counts how many of the handed certificates are in their table (looked up by
// serial behind the recorder's back).
func (e *Env) recorded(hs []handed) int {
	if e.fdb == nil {
		return 0
	}
	n := 0
	for _, h := range hs {
		if _, err := e.fdb.DB.Get([]byte(h.table), []byte(h.serial)); err == nil {
			n++
		}
	}
	return n
}

// ---- prerequisites (run with the recorder off)

// ahead is how far in the future tokens are issued (within the validators' one-minute leeway):
// a replay after a restart of the authority is then judged by the token record alone.
const ahead = 55 * time.Second

func (e *Env) issueX509(cn string) (*x509.Certificate, crypto.Signer, error) {
	tok, err := e.ca.Token(fixture.TokenOpts{Subject: cn})
	if err != nil {
		return nil, nil, err
	}
	csr, key, err := fixture.CSR(cn, []string{cn})
	if err != nil {
		return nil, nil, err
	}
	chain, err := e.ca.SignX509(tok, csr, provisioner.SignOptions{})
	if err != nil {
		return nil, nil, err
	}
	return chain[0], key, nil
}

func sshToken(e *Env, typ, keyID string, principals []string, key *jose.JSONWebKey) (string, error) {
	return e.ca.Token(fixture.TokenOpts{Subject: keyID, Audience: fixture.Audience("/1.0/ssh/sign"), NoSANs: true, Key: key, IssuedAt: time.Now().Add(ahead), JTI: e.jti(),
		Extra: map[string]any{"step": map[string]any{"ssh": map[string]any{"certType": typ, "keyID": keyID, "principals": principals}}}})
}

func (e *Env) issueSSHHost(name string) (*ssh.Certificate, *ecdsa.PrivateKey, error) {
	priv, err := ecdsa.GenerateKey(elliptic.P256(), rand.Reader)
	if err != nil {
		return nil, nil, err
	}
	pub, err := ssh.NewPublicKey(priv.Public())
	if err != nil {
		return nil, nil, err
	}
	tok, err := sshToken(e, "host", name, []string{name}, nil)
	if err != nil {
		return nil, nil, err
	}
	ctx := provisioner.NewContextWithMethod(authority.NewContext(context.Background(), e.ca.Auth), provisioner.SSHSignMethod)
	opts, err := e.ca.Auth.Authorize(ctx, tok)
	if err != nil {
		return nil, nil, err
	}
	crt, err := e.ca.Auth.SignSSH(ctx, pub, provisioner.SignSSHOptions{CertType: "host", KeyID: name, Principals: []string{name}}, opts...)
	return crt, priv, err
}

// jti is the fixture's JTI option: "" = a random id, "-" = no jti claim at all.
func (e *Env) jti() string {
	if e.noJTI {
		return "-"
	}
	return ""
}

// sshpopToken mints the token a host uses to renew / rekey / revoke its own certificate.
func sshpopToken(crt *ssh.Certificate, priv *ecdsa.PrivateKey, aud string, sub string, noJTI bool) (string, error) {
	so := new(jose.SignerOptions).WithType("JWT").WithHeader("sshpop", base64.StdEncoding.EncodeToString(crt.Marshal()))
	sig, err := jose.NewSigner(jose.SigningKey{Algorithm: jose.ES256, Key: priv}, so)
	if err != nil {
		return "", err
	}
	now := time.Now()
	jti, _ := randutil.Hex(32)
	claims := map[string]any{"iss": "sshpop", "sub": sub, "aud": aud, "jti": jti,
		"iat": now.Add(ahead).Unix(), "nbf": now.Add(-time.Second).Unix(), "exp": now.Add(5 * time.Minute).Unix()}
	if noJTI {
		delete(claims, "jti")
	}
	return jose.Signed(sig).Claims(claims).CompactSerialize()
}

// ---- building the request under test

// prepare issues whatever the operation needs and returns the HTTP request to run (twice:
// the attempt under faults and, for token operations, the replay of the identical request).
func (e *Env) prepare(k *Case) (*httpReq, error) {
	const cn = "leaf.verif.test"
	switch k.Op {
	case "sign":
		to := fixture.TokenOpts{Subject: cn, IssuedAt: time.Now().Add(ahead), JTI: e.jti()}
		sans := []string{cn}
		body := &api.SignRequest{}
		switch k.Chk {
		case 0: // token signed by a key the provisioner does not hold (kid is the provisioner's)
			other, err := jose.GenerateJWK("EC", "P-256", "ES256", "sig", "", 0)
			if err != nil {
				return nil, err
			}
			other.KeyID = e.ca.JWK.KeyID
			to.Key = other
		case 1: // CSR names differ from the token's
			sans = []string{"other.verif.test"}
		case 2: // requested validity beyond the provisioner's maximum
			body.NotAfter = api.NewTimeDuration(time.Now().Add(1000 * time.Hour))
		}
		tok, err := e.ca.Token(to)
		if err != nil {
			return nil, err
		}
		csr, _, err := fixture.CSR(cn, sans)
		if err != nil {
			return nil, err
		}
		body.CsrPEM, body.OTT = api.NewCertificateRequest(csr), tok
		return &httpReq{h: api.Sign, path: "/1.0/sign", body: body}, nil

	case "sshsignk8s":
		k8sKey := e.extra["k8skey"].(*ecdsa.PrivateKey)
		sig, err := jose.NewSigner(jose.SigningKey{Algorithm: jose.ES256, Key: k8sKey}, new(jose.SignerOptions).WithType("JWT"))
		if err != nil {
			return nil, err
		}
		const host = "host.verif.test"
		tok, err := jose.Signed(sig).Claims(map[string]any{"iss": "kubernetes/serviceaccount", "sub": "system:serviceaccount:verif:" + host,
			"kubernetes.io/serviceaccount/namespace": "verif", "kubernetes.io/serviceaccount/secret.name": "verif-token",
			"kubernetes.io/serviceaccount/service-account.name": host, "kubernetes.io/serviceaccount/service-account.uid": "uid-1"}).CompactSerialize()
		if err != nil {
			return nil, err
		}
		priv, err := ecdsa.GenerateKey(elliptic.P256(), rand.Reader)
		if err != nil {
			return nil, err
		}
		pub, err := ssh.NewPublicKey(priv.Public())
		if err != nil {
			return nil, err
		}
		body := &api.SSHSignRequest{PublicKey: pub.Marshal(), CertType: "host", KeyID: host, Principals: []string{host}, OTT: tok}
		if k.Chk == 4 { // validity beyond the maximum, found after the certificate was made
			body.ValidBefore = api.NewTimeDuration(time.Now().Add(100000 * time.Hour))
		}
		return &httpReq{h: api.SSHSign, path: "/1.0/ssh/sign", body: body}, nil

	case "signx5c":
		mca := e.extra["mca"].(*minica.CA)
		lk, err := ecdsa.GenerateKey(elliptic.P256(), rand.Reader)
		if err != nil {
			return nil, err
		}
		leaf, err := mca.Sign(&x509.Certificate{Subject: pkix.Name{CommonName: "x5c client"}, PublicKey: lk.Public(),
			KeyUsage: x509.KeyUsageDigitalSignature, ExtKeyUsage: []x509.ExtKeyUsage{x509.ExtKeyUsageClientAuth},
			NotBefore: time.Now().Add(-time.Minute), NotAfter: time.Now().Add(time.Hour)})
		if err != nil {
			return nil, err
		}
		so := new(jose.SignerOptions).WithType("JWT").WithHeader("x5c", []string{
			base64.StdEncoding.EncodeToString(leaf.Raw), base64.StdEncoding.EncodeToString(mca.Intermediate.Raw)})
		sig, err := jose.NewSigner(jose.SigningKey{Algorithm: jose.ES256, Key: lk}, so)
		if err != nil {
			return nil, err
		}
		now := time.Now()
		jti, _ := randutil.Hex(32)
		sans := []string{cn}
		if k.Chk == 1 {
			sans = []string{"other.verif.test"}
		}
		x5cClaims := map[string]any{"iss": "x5c", "sub": cn, "sans": []string{cn}, "jti": jti,
			"aud": fixture.Audience("/1.0/sign") + "#x5c/x5c", "iat": now.Add(ahead).Unix(), "nbf": now.Add(-time.Second).Unix(),
			"exp": now.Add(5 * time.Minute).Unix()}
		if e.noJTI {
			delete(x5cClaims, "jti")
		}
		tok, err := jose.Signed(sig).Claims(x5cClaims).CompactSerialize()
		if err != nil {
			return nil, err
		}
		csr, _, err := fixture.CSR(cn, sans)
		if err != nil {
			return nil, err
		}
		return &httpReq{h: api.Sign, path: "/1.0/sign", body: &api.SignRequest{CsrPEM: api.NewCertificateRequest(csr), OTT: tok}}, nil

	case "renew", "rekey":
		crt, _, err := e.issueX509(cn)
		if err != nil {
			return nil, err
		}
		if k.Chk == 0 { // a certificate of another CA: no provisioner of this authority issued it
			return nil, fmt.Errorf("chk not supported for %s", k.Op)
		}
		if k.Op == "renew" {
			path := "/1.0/renew"
			if k.Var == "legacy" { // the old name of the route, mounted at the root
				path = "/re-sign"
			}
			return &httpReq{h: api.Renew, path: path, peer: crt}, nil
		}
		csr, _, err := fixture.CSR(cn, []string{cn})
		if err != nil {
			return nil, err
		}
		return &httpReq{h: api.Rekey, path: "/1.0/rekey", peer: crt, body: &api.RekeyRequest{CsrPEM: api.NewCertificateRequest(csr)}}, nil

	case "revoke", "revokemtls":
		crt, _, err := e.issueX509(cn)
		if err != nil {
			return nil, err
		}
		serial := crt.SerialNumber.String()
		e.extra["serial"] = serial
		body := &api.RevokeRequest{Serial: serial, ReasonCode: 1, Reason: "verif", Passive: true}
		if k.Op == "revokemtls" {
			return &httpReq{h: api.Revoke, path: "/1.0/revoke", peer: crt, body: body}, nil
		}
		to := fixture.TokenOpts{Subject: serial, Audience: fixture.Audience("/1.0/revoke"), NoSANs: true, IssuedAt: time.Now().Add(ahead), JTI: e.jti()}
		if k.Chk == 0 {
			other, err := jose.GenerateJWK("EC", "P-256", "ES256", "sig", "", 0)
			if err != nil {
				return nil, err
			}
			other.KeyID = e.ca.JWK.KeyID
			to.Key = other
		}
		tok, err := e.ca.Token(to)
		if err != nil {
			return nil, err
		}
		body.OTT = tok
		return &httpReq{h: api.Revoke, path: "/1.0/revoke", body: body}, nil

	case "sshsign":
		priv, err := ecdsa.GenerateKey(elliptic.P256(), rand.Reader)
		if err != nil {
			return nil, err
		}
		pub, err := ssh.NewPublicKey(priv.Public())
		if err != nil {
			return nil, err
		}
		var key *jose.JSONWebKey
		principals := []string{"host.verif.test"}
		body := &api.SSHSignRequest{PublicKey: pub.Marshal(), CertType: "host", KeyID: "host.verif.test", Principals: principals}
		switch k.Chk {
		case 0:
			other, err := jose.GenerateJWK("EC", "P-256", "ES256", "sig", "", 0)
			if err != nil {
				return nil, err
			}
			other.KeyID = e.ca.JWK.KeyID
			key = other
		case 1: // request options differ from the token's
			body.Principals = []string{"other.verif.test"}
		case 4: // validity beyond the maximum, found after the certificate was made
			body.ValidBefore = api.NewTimeDuration(time.Now().Add(100000 * time.Hour))
		}
		tok, err := sshToken(e, "host", "host.verif.test", principals, key)
		if err != nil {
			return nil, err
		}
		body.OTT = tok
		return &httpReq{h: api.SSHSign, path: "/1.0/ssh/sign", body: body}, nil

	case "sshsignfull":
		// a user certificate, plus the add-user certificate (addUserPublicKey) and the X.509
		// identity certificate (identityCSR) the same handler issues with it
		mk := func() (ssh.PublicKey, error) {
			priv, err := ecdsa.GenerateKey(elliptic.P256(), rand.Reader)
			if err != nil {
				return nil, err
			}
			return ssh.NewPublicKey(priv.Public())
		}
		pub, err := mk()
		if err != nil {
			return nil, err
		}
		addPub, err := mk()
		if err != nil {
			return nil, err
		}
		const user = "alice"
		idCSR, _, err := fixture.CSR(user, []string{user})
		if err != nil {
			return nil, err
		}
		body := &api.SSHSignRequest{PublicKey: pub.Marshal(), CertType: "user", KeyID: user, Principals: []string{user},
			AddUserPublicKey: addPub.Marshal(), IdentityCSR: api.NewCertificateRequest(idCSR)}
		tok, err := e.ca.Token(fixture.TokenOpts{Subject: user, NoSANs: true, IssuedAt: time.Now().Add(ahead), JTI: e.jti(),
			Extra: map[string]any{"aud": []string{fixture.Audience("/1.0/ssh/sign"), fixture.Audience("/1.0/sign")},
				"step": map[string]any{"ssh": map[string]any{"certType": "user", "keyID": user, "principals": []string{user}}}}})
		if err != nil {
			return nil, err
		}
		body.OTT = tok
		return &httpReq{h: api.SSHSign, path: "/1.0/ssh/sign", body: body}, nil

	case "sshrenew", "sshrekey", "sshrevoke":
		crt, priv, err := e.issueSSHHost("host.verif.test")
		if err != nil {
			return nil, err
		}
		signer := priv
		if k.Chk == 0 { // proof of possession made with another key
			signer, err = ecdsa.GenerateKey(elliptic.P256(), rand.Reader)
			if err != nil {
				return nil, err
			}
		}
		serial := strconv.FormatUint(crt.Serial, 10)
		e.extra["serial"] = serial
		var peer *x509.Certificate
		if strings.HasSuffix(k.Var, "identity") { // the request arrives over mTLS with the host's X.509 identity certificate
			if peer, _, err = e.issueX509("host.verif.test"); err != nil {
				return nil, err
			}
		}
		switch k.Op {
		case "sshrenew":
			tok, err := sshpopToken(crt, signer, fixture.Audience("/1.0/ssh/renew")+"#sshpop/sshpop", "host.verif.test", e.noJTI)
			if err != nil {
				return nil, err
			}
			return &httpReq{h: api.SSHRenew, path: "/1.0/ssh/renew", body: &api.SSHRenewRequest{OTT: tok}, peer: peer}, nil
		case "sshrekey":
			tok, err := sshpopToken(crt, signer, fixture.Audience("/1.0/ssh/rekey")+"#sshpop/sshpop", "host.verif.test", e.noJTI)
			if err != nil {
				return nil, err
			}
			npriv, err := ecdsa.GenerateKey(elliptic.P256(), rand.Reader)
			if err != nil {
				return nil, err
			}
			npub, err := ssh.NewPublicKey(npriv.Public())
			if err != nil {
				return nil, err
			}
			return &httpReq{h: api.SSHRekey, path: "/1.0/ssh/rekey", body: &api.SSHRekeyRequest{OTT: tok, PublicKey: npub.Marshal()}, peer: peer}, nil
		default:
			tok, err := sshpopToken(crt, signer, fixture.Audience("/1.0/ssh/revoke")+"#sshpop/sshpop", serial, e.noJTI)
			if err != nil {
				return nil, err
			}
			return &httpReq{h: api.SSHRevoke, path: "/1.0/ssh/revoke", body: &api.SSHRevokeRequest{Serial: serial, OTT: tok, ReasonCode: 1, Reason: "verif", Passive: true}}, nil
		}
	}
	return nil, fmt.Errorf("unknown operation %q", k.Op)
}

var tables = []string{"used_ott", "x509_certs", "x509_certs_data", "ssh_certs", "revoked_x509_certs", "revoked_ssh_certs"}

func (e *Env) snapshot() map[string]int {
	m := map[string]int{}
	if e.fdb == nil { // no database: nothing to observe
		return m
	}
	for _, t := range tables {
		m[t] = e.fdb.count(t)
	}
	return m
}
