package main

// The operations once more through the certificate authority as the repository's own ca.New /
// (*CA).Init assembles it from a configuration on disk: the real routers ("/1.0", root, "/acme"),
// the middleware stack (request id, request logger), the base context. The fault layers go in
// through ca.WithDatabase and ca.WithX509CAService; webhooks are not configured in these cases
// (the CA builds its own webhook client, which the harness cannot instrument).

import (
	"context"
	"crypto"
	"crypto/ecdsa"
	"crypto/elliptic"
	"crypto/rand"
	"crypto/x509"
	"encoding/json"
	"encoding/pem"
	"fmt"
	"os"
	"path/filepath"
	"sync"
	"time"

	"go.step.sm/crypto/jose"
	"go.step.sm/crypto/minica"
	"go.step.sm/crypto/pemutil"

	"github.com/smallstep/certificates/authority/config"
	"github.com/smallstep/certificates/authority/provisioner"
	"github.com/smallstep/certificates/ca"
	"github.com/smallstep/certificates/cas/apiv1"
	"github.com/smallstep/certificates/cas/softcas"
	"github.com/smallstep/certificates/db"
	"verif/harness/fixture"
)

var realMu sync.Mutex

func newRealEnv(k *Case) (*Env, error) {
	e := &Env{rec: &Recorder{}, extra: map[string]any{}, noJTI: k.Tok == "nojti"}
	dir, err := os.MkdirTemp("", "verif-c17-real-")
	if err != nil {
		return nil, err
	}
	e.closer = append(e.closer, func() { os.RemoveAll(dir) })
	fail := func(err error) (*Env, error) { e.Close(); return nil, err }
	mca, err := minica.New(minica.WithName("Verif"))
	if err != nil {
		return fail(err)
	}
	wr := func(name, typ string, der []byte) string {
		p := filepath.Join(dir, name)
		os.WriteFile(p, pem.EncodeToMemory(&pem.Block{Type: typ, Bytes: der}), 0o600)
		return p
	}
	key := func(name string, k any) (string, error) {
		p := filepath.Join(dir, name)
		_, err := pemutil.Serialize(k, pemutil.ToFile(p, 0o600))
		return p, err
	}
	rootF := wr("root.crt", "CERTIFICATE", mca.Root.Raw)
	intF := wr("intermediate.crt", "CERTIFICATE", mca.Intermediate.Raw)
	intK, err := key("intermediate.key", mca.Signer)
	if err != nil {
		return fail(err)
	}
	sshU, _ := ecdsa.GenerateKey(elliptic.P256(), rand.Reader)
	sshH, _ := ecdsa.GenerateKey(elliptic.P256(), rand.Reader)
	sshUK, err := key("ssh_user.key", sshU)
	if err != nil {
		return fail(err)
	}
	sshHK, err := key("ssh_host.key", sshH)
	if err != nil {
		return fail(err)
	}
	jwk, err := jose.GenerateJWK("EC", "P-256", "ES256", "sig", "", 0)
	if err != nil {
		return fail(err)
	}
	if jwk.KeyID, err = jose.Thumbprint(jwk); err != nil {
		return fail(err)
	}
	pub := jwk.Public()
	yes := true
	jwkProv := &provisioner.JWK{Type: "JWK", Name: "jwk", Key: &pub, Claims: &provisioner.Claims{EnableSSHCA: &yes}}
	cfg := &config.Config{
		Root: []string{rootF}, IntermediateCert: intF, IntermediateKey: intK,
		Address: "127.0.0.1:0", DNSNames: []string{fixture.DNSName},
		SSH: &config.SSHConfig{HostKey: sshHK, UserKey: sshUK},
		DB:  &db.Config{Type: "bbolt", DataSource: filepath.Join(dir, "db")},
		AuthorityConfig: &config.AuthConfig{Provisioners: provisioner.List{jwkProv,
			&provisioner.SSHPOP{Type: "SSHPOP", Name: "sshpop", Claims: &provisioner.Claims{EnableSSHCA: &yes}},
			&provisioner.ACME{Type: "ACME", Name: "acme", Challenges: []provisioner.ACMEChallenge{provisioner.HTTP_01}}}},
		TLS:    &config.DefaultTLSOptions,
		Logger: json.RawMessage(`{"format":"json"}`), // the request logger wraps every route
	}
	if k.CRL {
		cfg.CRL = &config.CRLConfig{Enabled: true, GenerateOnRevoke: true}
	}
	var d *db.DB
	if k.NoDB { // no "db" section: the authority keeps the used tokens in memory (db.SimpleDB)
		cfg.DB = nil
	} else {
		adb, err := db.New(cfg.DB)
		if err != nil {
			return fail(err)
		}
		var ok bool
		if d, ok = adb.(*db.DB); !ok {
			return fail(os.ErrInvalid)
		}
		e.fdb = &faultDB{DB: d.DB, rec: e.rec}
		d.DB = e.fdb
	}
	soft, err := softcas.New(context.Background(), apiv1.Options{CertificateChain: []*x509.Certificate{mca.Intermediate}, Signer: mca.Signer})
	if err != nil {
		return fail(err)
	}
	// the request logger keeps the os.Stderr it finds when it is built: give it the null device
	// (one CA at a time: os.Stderr is process-wide)
	realMu.Lock()
	defer realMu.Unlock()
	if null, err := os.OpenFile(os.DevNull, os.O_WRONLY, 0); err == nil {
		saved := os.Stderr
		os.Stderr = null
		defer func() { os.Stderr = saved }()
	}
	// the configuration also goes to disk: CA.Reload reads it from there
	cfgFile := filepath.Join(dir, "ca.json")
	if err := cfg.Save(cfgFile); err != nil {
		return fail(err)
	}
	opts := []ca.Option{ca.WithQuiet(true), ca.WithConfigFile(cfgFile), ca.WithX509CAService(&faultCAS{SoftCAS: soft, rec: e.rec})}
	if d != nil {
		opts = append(opts, ca.WithDatabase(d))
	}
	real, err := ca.New(cfg, opts...)
	if err != nil {
		return fail(err)
	}
	// the servers run (CA.Reload hands the listening socket over to the new server); requests are
	// still served in process through the handler
	go real.Run()
	e.closer = append(e.closer, func() { real.Stop() })
	e.handler, e.base = real.VerifHandler()
	e.ca = &fixture.CA{Auth: real.VerifAuthority(), MiniCA: mca, JWK: jwk, JWKProv: jwkProv,
		SSHUser: crypto.Signer(sshU), SSHHost: crypto.Signer(sshH)}
	if d != nil {
		e.ca.DB = d
	}
	e.real = true
	// reload: what SIGHUP does. The listener appears a moment after Run was started; until then
	// Reload cannot copy it (it panics on the missing listener), so it is simply tried again —
	// only the waiting depends on time, the outcome does not.
	e.reload = func() error {
		realMu.Lock()
		defer realMu.Unlock()
		if null, err := os.OpenFile(os.DevNull, os.O_WRONLY, 0); err == nil {
			saved := os.Stderr
			os.Stderr = null
			defer func() { os.Stderr = saved }()
		}
		var err error
		for i := 0; i < 9000; i++ { // up to three minutes on a crowded machine
			err = func() (err error) {
				defer func() {
					if r := recover(); r != nil {
						err = fmt.Errorf("reload: %v", r)
					}
				}()
				return real.Reload()
			}()
			if err == nil {
				e.handler, e.base = real.VerifHandler()
				e.ca.Auth = real.VerifAuthority()
				return nil
			}
			time.Sleep(20 * time.Millisecond)
		}
		return err
	}
	return e, nil
}
